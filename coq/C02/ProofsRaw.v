(* C02.ProofsRaw — torch's elementwise broadcasting over FULL shapes (Spec.dense_ew) specialises, for two batched
   matrices of the same size, to the batch-broadcasting combinators dadd / dhad / dsub; for a 0-d tensor and for a batch of
   constants (b,1,1) it specialises to dscale. *)
From Coq Require Import List ZArith Lia Bool Arith.
Import ListNotations.
Require Import C02.Sums C02.Batch C02.Tensor C02.Dense C02.Op C02.Model C02.Spec C02.ProofsDense C02.ProofsBase.
Open Scope Z_scope.

Definition dzip (f : Z -> Z -> Z) (A B : BT) : BT :=
  mkBT (bcast (bsh A) (bsh B)) (nr A) (nc A) (fun I i j => f (bget A I i j) (bget B I i j)).

Lemma dadd_dzip A B : dadd A B = dzip Z.add A B. Proof. reflexivity. Qed.
Lemma dhad_dzip A B : dhad A B = dzip Z.mul A B. Proof. reflexivity. Qed.
Lemma dsub_dzip A B : dsub A B = dzip Z.sub A B. Proof. reflexivity. Qed.

Lemma of_raw_to_raw A : of_raw (to_raw A) == A.
Proof. apply BTeq_intro; reflexivity. Qed.

Lemma rcompat_same A B : nr A = nr B -> nc A = nc B -> rcompat (to_raw A) (to_raw B) = bcompat (bsh A) (bsh B).
Proof.
  intros Hr Hc. unfold rcompat. simpl. rewrite Hr, Hc, !Nat.eqb_refl. reflexivity.
Qed.

Lemma idx1 n i : (i < n)%nat -> (if Nat.eqb n 1 then 0%nat else i) = i.
Proof. intros H. destruct (Nat.eqb_spec n 1); [lia|reflexivity]. Qed.

(* same matrix sizes: the full-shape broadcast is the batch broadcast *)
Lemma zip_full_same f A B : nr A = nr B -> nc A = nc B ->
  of_raw (dzip f (to_raw A) (to_raw B)) == dzip f A B.
Proof.
  intros Hr Hc. unfold of_raw, dzip, to_raw, mkraw. simpl.
  apply BTeq_intro; simpl.
  - reflexivity.
  - rewrite Hr. destruct (Nat.eqb (nr B) 1); reflexivity.
  - rewrite Hc. destruct (Nat.eqb (nc B) 1); reflexivity.
  - intros I i j HI Hi Hj. unfold rval. ub.
    assert (Hi' : (i < nr A)%nat) by (rewrite Hr in *; destruct (Nat.eqb (nr B) 1); assumption).
    assert (Hj' : (j < nc A)%nat) by (rewrite Hc in *; destruct (Nat.eqb (nc B) 1); assumption).
    rewrite (idx1 (nr A)), (idx1 (nc A)) by assumption. rewrite <- Hr, <- Hc. rewrite (idx1 (nr A)), (idx1 (nc A)) by assumption.
    reflexivity.
Qed.

Lemma dense_add_op A o : nr (denote o) = nr A -> nc (denote o) = nc A ->
  dense_add A (AOp o) = if bcompat (bsh A) (batch o) then Ok (of_raw (radd (to_raw A) (to_raw (denote o)))) else Err EShape.
Proof.
  intros Hr Hc. unfold dense_add, dense_ew. simpl argval. rewrite rcompat_same by congruence. reflexivity.
Qed.

Lemma radd_same A B : nr A = nr B -> nc A = nc B -> of_raw (radd (to_raw A) (to_raw B)) == dadd A B.
Proof. intros. unfold radd. rewrite !dadd_dzip. apply zip_full_same; assumption. Qed.

Lemma rmul_same A B : nr A = nr B -> nc A = nc B -> of_raw (rmul (to_raw A) (to_raw B)) == dhad A B.
Proof. intros. unfold rmul. rewrite !dhad_dzip. apply zip_full_same; assumption. Qed.

Lemma rsub_same A B : nr A = nr B -> nc A = nc B -> of_raw (rsub (to_raw A) (to_raw B)) == dsub A B.
Proof. intros. unfold rsub. rewrite !dsub_dzip. apply zip_full_same; assumption. Qed.

(* a 0-d tensor: scaling *)
Lemma rmul_scalar A z : of_raw (rmul (to_raw A) (zconst z)) == dscale A (zconst z).
Proof.
  unfold of_raw, rmul, to_raw, zconst, mkraw. simpl. apply BTeq_intro; simpl; rewrite ?bcast_nil_r; try reflexivity.
  intros I i j HI Hi Hj. unfold rval. ub. rewrite ?bcast_nil_r.
  rewrite bproj_id by assumption. rewrite (idx1 (nr A)), (idx1 (nc A)) by assumption. reflexivity.
Qed.

(* ---- a tensor of rank >= 2 as a batched matrix ------------------------------------------------------------------------------ *)

Lemma to_raw_of_raw r c rw bs : bsh r = c :: rw :: bs -> nr r = 1%nat -> nc r = 1%nat -> r == to_raw (of_raw r).
Proof.
  intros E N1 N2. unfold to_raw, of_raw, mkraw. rewrite E. apply BTeq_intro; simpl; try assumption.
  intros I i j HI Hi Hj. rewrite E in HI. rewrite N1 in Hi. rewrite N2 in Hj.
  destruct I as [|a [|b I]]; simpl in HI; try tauto.
  unfold rval. assert (i = 0)%nat by lia. assert (j = 0)%nat by lia. subst. reflexivity.
Qed.

Lemma of_raw_eq a b c rw bs : a == b -> bsh a = c :: rw :: bs -> nr a = 1%nat -> nc a = 1%nat -> of_raw a == of_raw b.
Proof.
  intros HE E N1 N2. pose proof HE as (H1 & H2 & H3 & H4). unfold of_raw. rewrite <- H1, E.
  apply BTeq_intro; simpl; try reflexivity.
  intros I i j HI Hi Hj. unfold rval. apply H4; [rewrite E; simpl; tauto| |]; lia.
Qed.

Lemma rmul_raw_mat X r : bsh r = nc X :: nr X :: tl (tl (bsh r)) -> nr r = 1%nat -> nc r = 1%nat ->
  bcompat (bsh X) (tl (tl (bsh r))) = true ->
  of_raw (rmul (to_raw X) r) == dhad X (of_raw r).
Proof.
  intros E N1 N2 CB.
  assert (R : r == to_raw (of_raw r)) by (eapply to_raw_of_raw; eassumption).
  assert (Q : rmul (to_raw X) r == rmul (to_raw X) (to_raw (of_raw r))).
  { unfold rmul. apply dhad_eq; [apply BTeq_refl|exact R| | |]; simpl; try congruence.
    rewrite E. simpl. rewrite !Nat.eqb_refl. simpl. exact CB. }
  eapply BTeq_trans; [eapply of_raw_eq; [exact Q| |reflexivity|reflexivity]|].
  - unfold rmul. simpl. rewrite E. simpl. destruct (Nat.eqb (nc X) 1), (Nat.eqb (nr X) 1); reflexivity.
  - apply rmul_same; unfold of_raw; rewrite E; reflexivity.
Qed.
