(* C02.ProofsMul — mul by a constant (python number / 0-d tensor / one-element tensor): every _mul_constant override
   (Diag, ConstantDiag, Identity, KroneckerProductDiag, Triangular, the Root family folding positive constants into the root,
   the Sum family mapping over its summands, LowRankRootAddedDiag, Mul, ConstantMul for the rest) returns an object
   denoting c * A. *)
From Coq Require Import List ZArith Lia Bool Arith.
Import ListNotations.
Require Import C02.Sums C02.Batch C02.Tensor C02.Dense C02.Op C02.Model C02.Spec.
Require Import C02.ProofsDense C02.ProofsBase C02.ProofsExpand C02.ProofsCtor C02.ProofsMT C02.ProofsMatmul C02.ProofsRaw.
Open Scope Z_scope.

(* classes whose _mul_constant is covered here (the Block* and Interpolated overrides are not), and the nesting depth of
   roots that a positive constant is pushed into (each level takes a square root) *)
Fixpoint mulc_cov (e : Op) : bool :=
  match e with
  | BlockDiag _ | BlockInter _ | Interp _ _ _ _ _ => false
  | Tri b _ => mulc_cov b
  | RootC _ r => mulc_cov r
  | SumC _ ops => (fix go (l : list Op) : bool := match l with [] => true | x :: r => mulc_cov x && go r end) ops
  | Mul l _ => mulc_cov l
  | _ => true
  end.

Fixpoint rdepth (e : Op) : nat :=
  match e with
  | Tri b _ => rdepth b
  | RootC _ r => S (rdepth r)
  | SumC _ ops => (fix go (l : list Op) : nat := match l with [] => 0%nat | x :: r => Nat.max (rdepth x) (go r) end) ops
  | Mul l _ => rdepth l
  | _ => 0%nat
  end.

(* z has exact iterated integer square roots down to depth n (torch computes other.sqrt() in floating point: the model and the
   correspondence use perfect squares) *)
Fixpoint sqn (n : nat) (z : Z) : Prop :=
  match n with
  | O => True
  | S m => 0 < z -> Z.sqrt z * Z.sqrt z = z /\ sqn m (Z.sqrt z)
  end.

Lemma sqn_le n m z : (m <= n)%nat -> sqn n z -> sqn m z.
Proof.
  revert m z. induction n as [|n IH]; intros m z Hm H; [assert (m = 0)%nat by lia; subst; exact I|].
  destruct m as [|m]; [exact I|]. simpl in *. intros Hz. destruct (H Hz) as (H1 & H2). split; [exact H1|].
  apply IH; [lia|exact H2].
Qed.

Definition scalar0 (c : BT) : Prop := bsh c = [] /\ nr c = 1%nat /\ nc c = 1%nat.

Lemma all_pos0 c : scalar0 c -> all_pos c = (0 <? c0 c).
Proof.
  intros (H1 & H2 & H3). unfold all_pos, dall, c0. rewrite H1, H2, H3. simpl. rewrite !andb_true_r. reflexivity.
Qed.

Lemma scalar0_sqrt c : scalar0 c -> scalar0 (dmap Z.sqrt c) /\ c0 (dmap Z.sqrt c) = Z.sqrt (c0 c).
Proof. intros (H1 & H2 & H3). repeat split; assumption. Qed.

Lemma go_cov_Forall ops :
  (fix go (l : list Op) : bool := match l with [] => true | x :: r => mulc_cov x && go r end) ops = true ->
  Forall (fun x => mulc_cov x = true) ops.
Proof.
  induction ops as [|x l IH]; intros H; constructor; apply andb_true_iff in H; destruct H; auto.
Qed.

Lemma go_depth_Forall ops n z :
  sqn ((fix go (l : list Op) : nat := match l with [] => 0%nat | x :: r => Nat.max (rdepth x) (go r) end) ops) z ->
  (forall m, (m <= n)%nat -> True) -> Forall (fun x => sqn (rdepth x) z) ops.
Proof.
  intros H _. induction ops as [|x l IH]; constructor.
  - eapply sqn_le; [|exact H]. apply Nat.le_max_l.
  - apply IH. eapply sqn_le; [|exact H]. apply Nat.le_max_r.
Qed.

Lemma ddiag_of_krondiag e : wf e -> is_diag e = true -> forall c, bsh c = [] ->
  ddiag (dscale (diag_of e) c) == dscale (denote e) c.
Proof.
  intros HW HD c HC. eapply BTeq_trans; [apply ddiag_dscale0; exact HC|].
  apply dscale0_eq; [exact HC|]. apply BTeq_sym. apply diag_of_correct; assumption.
Qed.

Lemma cdiag_mul_constant0 k n c r : scalar0 c -> nr k = 1%nat -> nc k = 1%nat ->
  cdiag_mul_constant k n c = Ok r -> denote r == dscale (dconstdiag k n) c.
Proof.
  intros (HC & _ & _) K1 K2 HX. unfold cdiag_mul_constant in HX.
  unfold rcompat, runsq_last, mkraw in HX. simpl in HX. rewrite HC in HX. simpl in HX. okinv HX.
  simpl. apply BTeq_intro; simpl; rewrite ?HC, ?bcast_nil_r; try reflexivity.
  intros I i j HI _ _. unfold rval. ub. rewrite HC. simpl. rewrite bproj_id by assumption.
  destruct (Nat.eqb i j); ring.
Qed.

Theorem alg_mul_constant_correct0 e : forall c r,
  wf e -> scalar0 c -> mulc_cov e = true -> sqn (rdepth e) (c0 c) ->
  alg_mul_constant e c = Ok r -> denote r == dscale (denote e) c.
Proof.
  induction e using Op_ind'; intros c0' r0 HW HC CV SQ HX; pose proof HC as (HC1 & HC2 & HC3);
    simpl in CV; try discriminate; simpl in HX; try (okinv HX; apply BTeq_refl).
  - (* Diag *)
    ifd HX. okinv HX. simpl. apply ddiag_dscale0. exact HC1.
  - (* CDiag *)
    unfold wf in HW. simpl in HW. apply andb_true_iff in HW. destruct HW as (K1 & K2). apply Nat.eqb_eq in K1, K2.
    eapply cdiag_mul_constant0; eassumption.
  - (* Ident *)
    eapply BTeq_trans; [eapply (cdiag_mul_constant0 (dones b 1 1)); try eassumption; reflexivity|].
    apply dscale0_eq; [exact HC1|]. apply BTeq_sym. apply deye_as_dconstdiag.
  - (* Tri *)
    apply wf_tri in HW. destruct HW as (HW & _). binv HX. rewrite (mk_tri_denote _ _ _ HX0). simpl.
    change (mul_dispatch (alg_mul_constant e) e (ARaw (runsq_last c0')) = Ok a) in E. unfold mul_dispatch in E.
    assert (B1 : bcompat (fullshape e) (bsh (runsq_last c0')) = true).
    { simpl. rewrite HC1. simpl. rewrite ?orb_true_r. reflexivity. }
    rewrite B1 in E. assert (N1 : Nat.eqb (rnumel (runsq_last c0')) 1 = true) by (unfold rnumel; simpl; rewrite HC1; reflexivity).
    rewrite N1 in E.
    assert (S0 : scalar0 (rscalar (runsq_last c0'))) by (repeat split).
    assert (V0 : c0 (rscalar (runsq_last c0')) = c0 c0').
    { unfold c0, rscalar, runsq_last, mkraw, rval. simpl. rewrite HC1. reflexivity. }
    eapply BTeq_trans; [apply (IHe _ _ HW S0 CV); [rewrite V0; exact SQ|exact E]|].
    apply dscale0_const; [reflexivity|exact HC1|exact V0].
  - (* RootC *)
    apply wf_rootc in HW. rewrite (all_pos0 _ HC) in HX. destruct (0 <? c0 c0') eqn:PZ.
    + apply Z.ltb_lt in PZ. simpl in SQ. destruct (SQ PZ) as (SQ1 & SQ2).
      destruct (scalar0_sqrt _ HC) as (S1 & V1).
      binv HX. rewrite (mk_rootc_denote _ _ _ HX0). simpl.
      pose proof (IHe _ _ HW S1 CV ltac:(rewrite V1; exact SQ2) E) as H1.
      eapply BTeq_trans; [apply dmm_eq; [exact H1|apply dtr_eq; exact H1| |]|].
      * simpl. apply bcompat_refl.
      * reflexivity.
      * apply dmm_dscale0_root; [apply S1|exact HC1|]. rewrite V1. exact SQ1.
    + okinv HX. apply BTeq_refl.
  - (* KronC *)
    destruct k; try (okinv HX; apply BTeq_refl).
    ifd HX. okinv HX. apply (ddiag_of_krondiag (KronC KKronDiag ops)); [exact HW|reflexivity|exact HC1].
  - (* SumC *)
    pose proof HW as HW0. apply wf_sumc in HW. destruct HW as (HW & Hne & S & rr & cc & HU & _).
    pose proof (go_cov_Forall _ CV) as CVs. pose proof (go_depth_Forall _ 0%nat _ SQ (fun _ _ => I)) as SQs.
    assert (MAIN : forall k' ops', mapM (fun x => alg_mul_constant x c0') ops = Ok ops' -> mk_sumc k' ops' = Ok r0 ->
                   denote r0 == dscale (denote (SumC k ops)) c0').
    { intros k' ops' HM HK. apply mapM_Forall2 in HM.
      assert (HF : Forall2 (fun x y => denote y == dscale (denote x) c0') ops ops').
      { apply (Forall2_from_IH (fun x => wf x /\ mulc_cov x = true /\ sqn (rdepth x) (c0 c0')) _ (fun x => alg_mul_constant x c0')); [| |exact HM].
        - eapply Forall_impl; [|exact H]. simpl. intros x Hx r (W1 & W2 & W3) Hr. eapply Hx; eassumption.
        - rewrite Forall_forall in HW, CVs, SQs. rewrite Forall_forall. intros x Hx. repeat split; auto. }
      assert (HD : same_dims_l rr cc ops').
      { unfold same_dims_l. unfold uniform in HU. rewrite Forall_forall in HU.
        clear -HF HU. induction HF as [|x y l l' Hxy HF IH]; constructor.
        - destruct (HU (denote x)) as (_ & E1 & E2); [left; reflexivity|].
          unfold rows, cols. rewrite (BTeq_nr _ _ Hxy), (BTeq_nc _ _ Hxy). simpl. split; assumption.
        - apply IH. intros A HA. apply HU. right. exact HA. }
      eapply BTeq_trans; [apply (mk_sumc_correct k' ops' r0 rr cc); [|exact HD|exact HK]|].
      - destruct HF; congruence.
      - simpl. apply (dsuml_dscale0 S rr cc); try assumption; [destruct ops; simpl; congruence|].
        apply Forall2_map. exact HF. }
    rewrite go_is_mapM in HX.
    destruct k; try (binv HX; eapply MAIN; eassumption).
    destruct (1 <? rnumel c0')%nat; [discriminate|].
    destruct (all_pos c0'); binv HX; eapply MAIN; eassumption.
  - (* Mul *)
    unfold wf in HW. simpl in HW. rewrite !andb_true_iff in HW. destruct HW as ((((W1 & W2) & EB) & ER) & EC).
    apply shape_eqb_eq in EB.
    destruct (1 <? rnumel c0')%nat; [discriminate|].
    rewrite (all_pos0 _ HC) in HX. destruct (0 <? c0 c0') eqn:PZ; [|okinv HX; apply BTeq_refl].
    binv HX. unfold mk_mul in HX0. ifd HX0. okinv HX0. simpl.
    pose proof (IHe1 _ _ W1 HC CV SQ E) as H1.
    eapply BTeq_trans; [apply dhad_eq; [exact H1|apply BTeq_refl| | |]|].
    + rewrite (BTeq_bsh _ _ H1). simpl. rewrite HC1, bcast_nil_r. change (bsh (denote e1)) with (batch e1). rewrite EB. apply bcompat_refl.
    + rewrite (BTeq_nr _ _ H1). simpl. apply Nat.eqb_eq in ER. exact ER.
    + rewrite (BTeq_nc _ _ H1). simpl. apply Nat.eqb_eq in EC. exact EC.
    + apply dhad_dscale0_l; [exact HC1|]. change (bsh (denote e1)) with (batch e1). rewrite EB. apply bcompat_refl.
Qed.
