(* C02.ProofsDense — algebra of the dense combinators (Tensor.v, Dense.v) up to [==]: congruences, and how the batch
   index maps (expand / unsqueeze / permute / sum over a batch dimension / transpose) commute with the combinators that
   act pointwise in the batch index. *)
From Coq Require Import List ZArith Lia Bool Arith.
Import ListNotations.
Require Import C02.Sums C02.Batch C02.Tensor C02.Dense.
Open Scope Z_scope.

Ltac ub := repeat (unfold bget; simpl).

Lemma BTeq_intro A B :
  bsh A = bsh B -> nr A = nr B -> nc A = nc B ->
  (forall I i j, inb (bsh A) I -> (i < nr A)%nat -> (j < nc A)%nat -> ent A I i j = ent B I i j) -> A == B.
Proof. intros. repeat split; assumption. Qed.

Lemma BTeq_bsh A B : A == B -> bsh A = bsh B. Proof. intros (H & _). exact H. Qed.
Lemma BTeq_nr A B : A == B -> nr A = nr B. Proof. intros (_ & H & _). exact H. Qed.
Lemma BTeq_nc A B : A == B -> nc A = nc B. Proof. intros (_ & _ & H & _). exact H. Qed.

(* ---- expand ------------------------------------------------------------------------------------------------ *)

Lemma dexpand_id A : dexpand (bsh A) A == A.
Proof.
  apply BTeq_intro; try reflexivity. simpl. intros I i j HI _ _. apply bget_in. exact HI.
Qed.

Lemma dexpand_id' A B : B = bsh A -> dexpand B A == A.
Proof. intros ->. apply dexpand_id. Qed.

Lemma bget_dexpand B A I i j : inb B I -> bget (dexpand B A) I i j = bget A I i j.
Proof. intros HI. unfold bget at 1. simpl. rewrite bproj_id by assumption. reflexivity. Qed.

Lemma dexpand_dexpand B C A : bsub (bsh A) B = true -> bsub B C = true -> dexpand C (dexpand B A) == dexpand C A.
Proof.
  intros H1 H2. apply BTeq_intro; try reflexivity. simpl. intros I i j HI _ _.
  ub. rewrite bproj_bproj by assumption. reflexivity.
Qed.

(* reading an expanded tensor through a further broadcast *)
Lemma bget_dexpand_sub B A C I i j : bsub (bsh A) B = true -> bsub B C = true -> inb C I ->
  bget (dexpand B A) I i j = bget A I i j.
Proof.
  intros H1 H2 HI. ub. rewrite bproj_bproj by assumption. reflexivity.
Qed.

(* ---- transpose ----------------------------------------------------------------------------------------------- *)

Lemma dtr_dexpand B A : dtr (dexpand B A) == dexpand B (dtr A).
Proof. apply BTeq_intro; reflexivity. Qed.

(* ---- congruences ---------------------------------------------------------------------------------------------- *)

Lemma dadd_eq A A' B B' : A == A' -> B == B' -> bcompat (bsh A) (bsh B) = true -> nr A = nr B -> nc A = nc B ->
  dadd A B == dadd A' B'.
Proof.
  intros HA HB HC Hr Hc.
  pose proof (BTeq_bsh _ _ HA) as E1. pose proof (BTeq_bsh _ _ HB) as E2.
  apply BTeq_intro; simpl; try (rewrite ?E1, ?E2; reflexivity); try apply (BTeq_nr _ _ HA); try apply (BTeq_nc _ _ HA).
  intros I i j HI Hi Hj. f_equal.
  - eapply bget_eq; eauto. apply bsub_bcast_l; assumption.
  - eapply bget_eq; eauto; [apply bsub_bcast_r; assumption|lia|lia].
Qed.

Lemma dhad_eq A A' B B' : A == A' -> B == B' -> bcompat (bsh A) (bsh B) = true -> nr A = nr B -> nc A = nc B ->
  dhad A B == dhad A' B'.
Proof.
  intros HA HB HC Hr Hc.
  pose proof (BTeq_bsh _ _ HA) as E1. pose proof (BTeq_bsh _ _ HB) as E2.
  apply BTeq_intro; simpl; try (rewrite ?E1, ?E2; reflexivity); try apply (BTeq_nr _ _ HA); try apply (BTeq_nc _ _ HA).
  intros I i j HI Hi Hj. f_equal.
  - eapply bget_eq; eauto. apply bsub_bcast_l; assumption.
  - eapply bget_eq; eauto; [apply bsub_bcast_r; assumption|lia|lia].
Qed.

Lemma dscale_eq A A' c : A == A' -> bcompat (bsh A) (bsh c) = true -> dscale A c == dscale A' c.
Proof.
  intros HA HC. pose proof (BTeq_bsh _ _ HA) as E1.
  apply BTeq_intro; simpl; try (rewrite ?E1; reflexivity); try apply (BTeq_nr _ _ HA); try apply (BTeq_nc _ _ HA).
  intros I i j HI Hi Hj. f_equal. eapply bget_eq; eauto. apply bsub_bcast_l; assumption.
Qed.

Lemma dmm_eq A A' B B' : A == A' -> B == B' -> bcompat (bsh A) (bsh B) = true -> nr B = nc A -> dmm A B == dmm A' B'.
Proof.
  intros HA HB HC HR. eapply BTeq_trans; [apply dmm_eq_r; eassumption|].
  apply dmm_eq_l; [|assumption]. rewrite <- (BTeq_bsh _ _ HB). assumption.
Qed.

Lemma dexpand_eq' B A A' : A == A' -> bsub (bsh A) B = true -> dexpand B A == dexpand B A'.
Proof. intros. apply dexpand_eq; assumption. Qed.

Lemma ddiag_eq d d' : d == d' -> (0 < nc d)%nat -> ddiag d == ddiag d'.
Proof.
  intros H Hc. pose proof H as (H1 & H2 & H3 & H4).
  apply BTeq_intro; simpl; try assumption.
  intros I i j HI Hi Hj. destruct (Nat.eqb i j); [|reflexivity]. apply H4; assumption.
Qed.

(* ---- batch-pointwise combinators commute with expand ------------------------------------------------------------- *)

Ltac bexp HX HY HC :=
  ub; rewrite ?(bproj_bproj _ _ _ HX), ?(bproj_bproj _ _ _ HY),
              ?(bproj_bproj _ _ _ (bsub_bcast_l _ _ HC)), ?(bproj_bproj _ _ _ (bsub_bcast_r _ _ HC)); try reflexivity.

Lemma dmm_dexpand B X Y : bsub (bsh X) B = true -> bsub (bsh Y) B = true ->
  dmm (dexpand B X) (dexpand B Y) == dexpand B (dmm X Y).
Proof.
  intros HX HY. destruct (bsub_lub _ _ _ HX HY) as [HL HC].
  apply BTeq_intro; simpl; try reflexivity; [apply bcast_refl|].
  rewrite bcast_refl. intros I i j HI Hi Hj. ub. apply zsum_ext. intros l Hl. bexp HX HY HC.
Qed.

Lemma dadd_dexpand B X Y : bsub (bsh X) B = true -> bsub (bsh Y) B = true ->
  dadd (dexpand B X) (dexpand B Y) == dexpand B (dadd X Y).
Proof.
  intros HX HY. destruct (bsub_lub _ _ _ HX HY) as [HL HC].
  apply BTeq_intro; simpl; try reflexivity; [apply bcast_refl|].
  rewrite bcast_refl. intros I i j HI Hi Hj. bexp HX HY HC.
Qed.

Lemma dhad_dexpand B X Y : bsub (bsh X) B = true -> bsub (bsh Y) B = true ->
  dhad (dexpand B X) (dexpand B Y) == dexpand B (dhad X Y).
Proof.
  intros HX HY. destruct (bsub_lub _ _ _ HX HY) as [HL HC].
  apply BTeq_intro; simpl; try reflexivity; [apply bcast_refl|].
  rewrite bcast_refl. intros I i j HI Hi Hj. bexp HX HY HC.
Qed.

Lemma dkron_dexpand B X Y : bsub (bsh X) B = true -> bsub (bsh Y) B = true ->
  dkron (dexpand B X) (dexpand B Y) == dexpand B (dkron X Y).
Proof.
  intros HX HY. destruct (bsub_lub _ _ _ HX HY) as [HL HC].
  apply BTeq_intro; simpl; try reflexivity; [apply bcast_refl|].
  rewrite bcast_refl. intros I i j HI Hi Hj. bexp HX HY HC.
Qed.

(* scaling: the constant may be expanded too, or kept *)
Lemma dscale_dexpand B X c : bsub (bsh X) B = true -> bsub (bsh c) B = true ->
  dscale (dexpand B X) (dexpand B c) == dexpand B (dscale X c).
Proof.
  intros HX HY. destruct (bsub_lub _ _ _ HX HY) as [HL HC].
  apply BTeq_intro; simpl; try reflexivity; [apply bcast_refl|].
  rewrite bcast_refl. intros I i j HI Hi Hj. bexp HX HY HC.
Qed.

Lemma bcast_sub_r B s : bsub s B = true -> bcast B s = B.
Proof.
  intros H. rewrite (bcast_comm B s) by (rewrite bcompat_sym; apply bsub_bcompat; assumption). apply bsub_bcast_eq. assumption.
Qed.

Lemma dscale_dexpand_l B X c : bsub (bsh X) B = true -> bsub (bsh c) B = true ->
  dscale (dexpand B X) c == dexpand B (dscale X c).
Proof.
  intros HX HY. destruct (bsub_lub _ _ _ HX HY) as [HL HC].
  apply BTeq_intro; simpl; try reflexivity; [apply bcast_sub_r; assumption|].
  rewrite bcast_sub_r by assumption. intros I i j HI Hi Hj. bexp HX HY HC.
Qed.

Lemma ddiag_dexpand B d : ddiag (dexpand B d) == dexpand B (ddiag d).
Proof. apply BTeq_intro; reflexivity. Qed.

Lemma dconstdiag_dexpand B c n : dconstdiag (dexpand B c) n == dexpand B (dconstdiag c n).
Proof. apply BTeq_intro; reflexivity. Qed.

Lemma deye_dexpand B b n : deye B n == dexpand B (deye b n).
Proof. apply BTeq_intro; reflexivity. Qed.

Lemma dzero_dexpand B b m n : dzero B m n == dexpand B (dzero b m n).
Proof. apply BTeq_intro; reflexivity. Qed.

(* ---- sums of lists ---------------------------------------------------------------------------------------------- *)

Definition uniform (S : shape) (r c : nat) (l : list BT) : Prop :=
  Forall (fun C => bsh C = S /\ nr C = r /\ nc C = c) l.

Lemma dsuml2 A B : dsuml [A; B] == dadd A B.
Proof.
  apply BTeq_intro; simpl; try reflexivity; [rewrite bcast_nil_r; reflexivity|].
  intros I i j _ _ _. ring.
Qed.

Lemma dsuml1 A : dsuml [A] == A.
Proof.
  apply BTeq_intro; simpl; try reflexivity; [apply bcast_nil_r|].
  rewrite bcast_nil_r. intros I i j HI _ _. rewrite bget_in by assumption. ring.
Qed.

Lemma sum_shape_uniform S r c l : uniform S r c l -> l <> [] -> fold_right (fun A s => bcast (bsh A) s) [] l = S.
Proof.
  induction l as [|A l IH]; [congruence|]. intros HU _. inversion HU as [|? ? HA HU']; subst. destruct HA as (E & _).
  simpl. destruct l as [|B l]; [simpl; rewrite bcast_nil_r; exact E|].
  rewrite IH by (assumption || congruence). rewrite E. apply bcast_refl.
Qed.

Definition sumu (S : shape) (r c : nat) (l : list BT) : BT :=
  mkBT S r c (fun I i j => zsuml (map (fun C => ent C I i j) l)).

Lemma dsuml_uniform S r c l : uniform S r c l -> l <> [] -> dsuml l == sumu S r c l.
Proof.
  intros HU Hl. pose proof (sum_shape_uniform _ _ _ _ HU Hl) as ES.
  apply BTeq_intro; simpl.
  - exact ES.
  - destruct l as [|A l]; [congruence|]. inversion HU as [|? ? HA _]. destruct HA as (_ & E & _). exact E.
  - destruct l as [|A l]; [congruence|]. inversion HU as [|? ? HA _]. destruct HA as (_ & _ & E). exact E.
  - rewrite ES. intros I i j HI _ _. f_equal. apply map_ext_in. intros C HC.
    unfold uniform in HU. rewrite Forall_forall in HU. destruct (HU C HC) as (E & _).
    apply bget_in. rewrite E. exact HI.
Qed.

Lemma zsuml_app l1 l2 : zsuml (l1 ++ l2) = zsuml l1 + zsuml l2.
Proof. induction l1 as [|x l IH]; simpl; [ring|]. rewrite IH. ring. Qed.

Lemma zsuml_map_ext {T} (f g : T -> Z) l : (forall x, In x l -> f x = g x) -> zsuml (map f l) = zsuml (map g l).
Proof. intros H. f_equal. apply map_ext_in. exact H. Qed.

Lemma zsuml_scale {T} (f : T -> Z) c l : zsuml (map (fun x => f x * c) l) = zsuml (map f l) * c.
Proof. induction l as [|x l IH]; simpl; [ring|]. rewrite IH. ring. Qed.

Lemma zsuml_Forall2 {T U} (f : T -> Z) (g : U -> Z) l l' :
  Forall2 (fun x y => f x = g y) l l' -> zsuml (map f l) = zsuml (map g l').
Proof. induction 1; simpl; [reflexivity|]. congruence. Qed.

(* pointwise equal lists of uniform tensors have equal sums *)
Lemma sumu_eq S r c l l' : Forall2 BTeq l l' -> uniform S r c l -> sumu S r c l == sumu S r c l'.
Proof.
  intros HF HU. apply BTeq_intro; simpl; try reflexivity.
  intros I i j HI Hi Hj. apply zsuml_Forall2.
  revert HU. induction HF as [|A A' l l' HA HF IH]; intros HU; [constructor|].
  inversion HU as [|? ? HB HU']; subst. destruct HB as (E1 & E2 & E3). constructor; [|apply IH; assumption].
  destruct HA as (_ & _ & _ & H4). apply H4; [rewrite E1; assumption| |]; lia.
Qed.

Lemma uniform_Forall2 S r c l l' : Forall2 BTeq l l' -> uniform S r c l -> uniform S r c l'.
Proof.
  intros HF. induction HF as [|A A' l l' HA HF IH]; intros HU; [constructor|].
  inversion HU as [|? ? HB HU']; subst. destruct HB as (E1 & E2 & E3). constructor; [|apply IH; assumption].
  destruct HA as (H1 & H2 & H3 & _). repeat split; congruence.
Qed.

Lemma dsuml_eq S r c l l' : Forall2 BTeq l l' -> uniform S r c l -> l <> [] -> dsuml l == dsuml l'.
Proof.
  intros HF HU Hl.
  assert (Hl' : l' <> []) by (destruct HF; congruence).
  eapply BTeq_trans; [apply (dsuml_uniform S r c); assumption|].
  eapply BTeq_trans; [apply sumu_eq; eassumption|].
  apply BTeq_sym. apply dsuml_uniform; [eapply uniform_Forall2; eassumption|assumption].
Qed.

(* ---- more on uniform sums ---------------------------------------------------------------------------------------- *)

Lemma uniform_map_dexpand S r c B l : uniform S r c l -> uniform B r c (map (dexpand B) l).
Proof.
  induction 1 as [|A l (E1 & E2 & E3) _ IH]; simpl; constructor; [|assumption]. repeat split; assumption.
Qed.

Lemma dexpand_sumu S r c B l : uniform S r c l -> sumu B r c (map (dexpand B) l) == dexpand B (sumu S r c l).
Proof.
  intros HU. apply BTeq_intro; simpl; try reflexivity.
  intros I i j HI _ _. ub. rewrite map_map. apply zsuml_map_ext. intros C HC.
  unfold uniform in HU. rewrite Forall_forall in HU. destruct (HU C HC) as (E & _). simpl. ub. rewrite E. reflexivity.
Qed.

Lemma dsuml_dexpand S r c B l l' :
  uniform S r c l -> l <> [] -> bsub S B = true -> Forall2 (fun A A' => A' == dexpand B A) l l' ->
  dsuml l' == dexpand B (dsuml l).
Proof.
  intros HU Hl HS HF.
  assert (HF' : Forall2 BTeq (map (dexpand B) l) l').
  { clear -HF. induction HF; simpl; constructor; [apply BTeq_sym; assumption|assumption]. }
  assert (Hl' : map (dexpand B) l <> []) by (destruct l; simpl; congruence).
  pose proof (uniform_map_dexpand _ _ _ B _ HU) as HU'.
  eapply BTeq_trans; [apply BTeq_sym; apply (dsuml_eq B r c _ _ HF' HU' Hl')|].
  eapply BTeq_trans; [apply (dsuml_uniform B r c); assumption|].
  eapply BTeq_trans; [apply (dexpand_sumu S); assumption|].
  apply dexpand_eq'; [apply BTeq_sym; apply dsuml_uniform; assumption|]. simpl. exact HS.
Qed.

Lemma dsuml_swap2 A B : bcompat (bsh A) (bsh B) = true -> nr A = nr B -> nc A = nc B -> dsuml [A; B] == dsuml [B; A].
Proof.
  intros HC Hr Hc. apply BTeq_intro; simpl; try congruence.
  - rewrite !bcast_nil_r. apply bcast_comm. assumption.
  - intros I i j _ _ _. ring.
Qed.

(* ---- Kronecker products --------------------------------------------------------------------------------------------- *)

Definition kfold (l : list BT) : BT := fold_right (fun x acc => dkron x acc) (deye [] 1) l.

Lemma dkron_eq A A' B B' : A == A' -> B == B' -> bcompat (bsh A) (bsh B) = true -> (0 < nr B)%nat -> (0 < nc B)%nat ->
  dkron A B == dkron A' B'.
Proof.
  intros HA HB HC Hr Hc.
  pose proof (BTeq_bsh _ _ HA) as E1. pose proof (BTeq_bsh _ _ HB) as E2.
  pose proof (BTeq_nr _ _ HA) as E3. pose proof (BTeq_nr _ _ HB) as E4.
  pose proof (BTeq_nc _ _ HA) as E5. pose proof (BTeq_nc _ _ HB) as E6.
  apply BTeq_intro; simpl; try congruence.
  intros I i j HI Hi Hj. rewrite <- E4, <- E6. f_equal.
  - eapply bget_eq; eauto; [apply bsub_bcast_l; assumption|apply div_lt_mul; assumption|apply div_lt_mul; assumption].
  - eapply bget_eq; eauto; [apply bsub_bcast_r; assumption|apply mod_lt_pos; assumption|apply mod_lt_pos; assumption].
Qed.

Lemma kfold_shape S l : Forall (fun A => bsh A = S) l -> l <> [] -> bsh (kfold l) = S.
Proof.
  induction l as [|A l IH]; [congruence|]. intros HU _. inversion HU as [|? ? E HU']; subst. simpl.
  destruct l as [|B l]; [simpl; apply bcast_nil_r|]. rewrite IH by (assumption || congruence). apply bcast_refl.
Qed.

Lemma kfold_pos l : Forall (fun A => (0 < nr A)%nat /\ (0 < nc A)%nat) l -> (0 < nr (kfold l))%nat /\ (0 < nc (kfold l))%nat.
Proof.
  induction 1 as [|A l (H1 & H2) _ (IH1 & IH2)]; simpl; [lia|]. split; nia.
Qed.

Lemma kfold_dexpand S B l l' :
  Forall (fun A => bsh A = S) l -> Forall (fun A => (0 < nr A)%nat /\ (0 < nc A)%nat) l -> l <> [] -> bsub S B = true ->
  Forall2 (fun A A' => A' == dexpand B A) l l' -> kfold l' == dexpand B (kfold l).
Proof.
  intros HU HP Hl HS HF. revert HU HP Hl.
  induction HF as [|A A' l l' HA HF IH]; intros HU HP Hl; [congruence|].
  inversion HU as [|? ? E HU']; subst. inversion HP as [|? ? (P1 & P2) HP']; subst. simpl.
  destruct l as [|C l].
  - inversion HF; subst. simpl.
    eapply BTeq_trans; [apply dkron_eq; [eassumption|apply BTeq_refl| | |]; simpl; try lia|].
    { rewrite (BTeq_bsh _ _ HA). simpl. destruct B; reflexivity. }
    apply BTeq_intro; simpl; try reflexivity; [apply bcast_nil_r|].
    rewrite bcast_nil_r. intros I i j HI _ _. ub. rewrite bcast_nil_r.
    rewrite !bproj_bproj by (assumption || apply bsub_refl). reflexivity.
  - assert (Hne : C :: l <> []) by congruence.
    specialize (IH HU' HP' Hne).
    pose proof (kfold_shape _ _ HU' Hne) as ES. destruct (kfold_pos _ HP') as (Q1 & Q2).
    eapply BTeq_trans; [apply dkron_eq; [eassumption|eassumption| | |]|].
    + rewrite (BTeq_bsh _ _ HA), (BTeq_bsh _ _ IH). simpl. apply bcompat_refl.
    + rewrite (BTeq_nr _ _ IH). simpl. exact Q1.
    + rewrite (BTeq_nc _ _ IH). simpl. exact Q2.
    + apply dkron_dexpand; [assumption|]. rewrite ES. assumption.
Qed.

(* ---- transposes -------------------------------------------------------------------------------------------------------- *)

Lemma dtr_ddiag d : dtr (ddiag d) == ddiag d.
Proof.
  apply BTeq_intro; simpl; try reflexivity. intros I i j _ _ _.
  destruct (Nat.eqb_spec j i) as [->|N]; [rewrite Nat.eqb_refl; reflexivity|].
  destruct (Nat.eqb_spec i j); [congruence|reflexivity].
Qed.

Lemma dtr_dconstdiag c n : dtr (dconstdiag c n) == dconstdiag c n.
Proof.
  apply BTeq_intro; simpl; try reflexivity. intros I i j _ _ _. rewrite (Nat.eqb_sym j i). reflexivity.
Qed.

Lemma dtr_deye b n : dtr (deye b n) == deye b n.
Proof.
  apply BTeq_intro; simpl; try reflexivity. intros I i j _ _ _. unfold zdelta. rewrite (Nat.eqb_sym j i). reflexivity.
Qed.

Lemma absdiff_sym i j : absdiff i j = absdiff j i.
Proof. unfold absdiff. destruct (Nat.ltb_spec i j), (Nat.ltb_spec j i); lia. Qed.

Lemma dtr_dtoeplitz c : dtr (dtoeplitz c) == dtoeplitz c.
Proof.
  apply BTeq_intro; simpl; try reflexivity. intros I i j _ _ _. rewrite absdiff_sym. reflexivity.
Qed.

Lemma dtr_dkron A B : dtr (dkron A B) == dkron (dtr A) (dtr B).
Proof. apply BTeq_intro; simpl; try reflexivity. Qed.

Lemma dtr_dscale A c : dtr (dscale A c) == dscale (dtr A) c.
Proof. apply BTeq_intro; simpl; try reflexivity. Qed.

Lemma dtr_dadd A B : nr A = nr B -> nc A = nc B -> dtr (dadd A B) == dadd (dtr A) (dtr B).
Proof. intros. apply BTeq_intro; simpl; try reflexivity. Qed.

Lemma dtr_sumu S r c l : dtr (sumu S r c l) == sumu S c r (map dtr l).
Proof.
  apply BTeq_intro; simpl; try reflexivity. intros I i j _ _ _. rewrite map_map. reflexivity.
Qed.

Lemma uniform_map_dtr S r c l : uniform S r c l -> uniform S c r (map dtr l).
Proof.
  induction 1 as [|A l (E1 & E2 & E3) _ IH]; simpl; constructor; [|assumption]. repeat split; assumption.
Qed.

Lemma dsuml_dtr S r c l l' : uniform S r c l -> l <> [] -> Forall2 (fun A A' => A' == dtr A) l l' -> dsuml l' == dtr (dsuml l).
Proof.
  intros HU Hl HF.
  assert (HF' : Forall2 BTeq (map dtr l) l').
  { clear -HF. induction HF; simpl; constructor; [apply BTeq_sym; assumption|assumption]. }
  assert (Hl' : map dtr l <> []) by (destruct l; simpl; congruence).
  pose proof (uniform_map_dtr _ _ _ _ HU) as HU'.
  eapply BTeq_trans; [apply BTeq_sym; apply (dsuml_eq S c r _ _ HF' HU' Hl')|].
  eapply BTeq_trans; [apply (dsuml_uniform S c r); assumption|].
  eapply BTeq_trans; [apply BTeq_sym; apply dtr_sumu|].
  apply dtr_eq. apply BTeq_sym. apply dsuml_uniform; assumption.
Qed.

Lemma kfold_dtr S l l' :
  Forall (fun A => bsh A = S) l -> Forall (fun A => (0 < nr A)%nat /\ (0 < nc A)%nat) l ->
  Forall2 (fun A A' => A' == dtr A) l l' -> kfold l' == dtr (kfold l).
Proof.
  intros HU HP HF. revert HU HP.
  induction HF as [|A A' l l' HA HF IH]; intros HU HP; [apply BTeq_sym; apply dtr_deye|].
  pose proof (Forall_inv HU) as E. pose proof (Forall_inv_tail HU) as HU'.
  pose proof (Forall_inv HP) as (P1 & P2). pose proof (Forall_inv_tail HP) as HP'.
  simpl. specialize (IH HU' HP'). destruct (kfold_pos _ HP') as (Q1 & Q2).
  eapply BTeq_trans; [apply dkron_eq; [exact HA|exact IH| | |]|].
  - rewrite (BTeq_bsh _ _ HA), (BTeq_bsh _ _ IH). simpl.
    destruct l as [|C l]; [simpl; destruct (bsh A); reflexivity|].
    rewrite (kfold_shape S) by (assumption || congruence). rewrite E. apply bcompat_refl.
  - rewrite (BTeq_nr _ _ IH). simpl. exact Q2.
  - rewrite (BTeq_nc _ _ IH). simpl. exact Q1.
  - apply BTeq_sym. apply dtr_dkron.
Qed.

Lemma dmm_sym_root R : dtr (dmm R (dtr R)) == dmm R (dtr R).
Proof.
  eapply BTeq_trans; [apply dmm_dtr; [simpl; apply bcompat_refl|reflexivity]|].
  apply dmm_eq_l; [simpl; apply bcompat_refl|apply dtr_dtr].
Qed.

(* ---- products with diagonal / identity / zero matrices ------------------------------------------------------------------ *)

Lemma dmm_ddiag_l d T : nr T = nr d ->
  dmm (ddiag d) T == mkBT (bcast (bsh d) (bsh T)) (nr T) (nc T) (fun I i j => bget d I i 0%nat * bget T I i j).
Proof.
  intros HR. apply BTeq_intro; simpl; try congruence.
  intros I i j HI Hi Hj. ub. rewrite (zsum_single _ i); [rewrite Nat.eqb_refl; reflexivity|assumption|].
  intros l Hl Hne. destruct (Nat.eqb_spec i l); [congruence|]. ring.
Qed.

Lemma dmm_ddiag_ddiag d d' : nr d = nr d' ->
  dmm (ddiag d) (ddiag d') == ddiag (mkBT (bcast (bsh d) (bsh d')) (nr d) 1 (fun I i _ => bget d I i 0%nat * bget d' I i 0%nat)).
Proof.
  intros HR. apply BTeq_intro; simpl; try congruence.
  intros I i j HI Hi Hj. ub. destruct (Nat.eqb_spec i j) as [->|N].
  - rewrite (zsum_single _ j); [rewrite !Nat.eqb_refl; reflexivity|assumption|].
    intros l Hl Hne. destruct (Nat.eqb_spec j l); [congruence|]. ring.
  - apply zsum_zero. intros l Hl. destruct (Nat.eqb_spec i l) as [->|]; [|ring].
    destruct (Nat.eqb_spec l j); [congruence|]. ring.
Qed.

Lemma dmm_deye_l b n O : nr O = n -> dmm (deye b n) O == dexpand (bcast b (bsh O)) O.
Proof.
  intros HR. apply BTeq_intro; simpl; try congruence.
  intros I i j HI Hi Hj. rewrite zsum_delta_l by assumption. reflexivity.
Qed.

Lemma dmm_dzero_l b m n O : dmm (dzero b m n) O == dzero (bcast b (bsh O)) m (nc O).
Proof.
  apply BTeq_intro; simpl; try reflexivity. intros I i j _ _ _. apply zsum_zero. intros l _. ub. ring.
Qed.

Lemma dconstdiag_as_ddiag c n : dconstdiag c n == ddiag (dcol_of_const c n).
Proof. apply BTeq_intro; reflexivity. Qed.

Lemma deye_as_ddiag b n : deye b n == ddiag (dones b n 1).
Proof. apply BTeq_intro; reflexivity. Qed.

Lemma dmm_dconstdiag c c' n : dmm (dconstdiag c n) (dconstdiag c' n) == dconstdiag (dhad c c') n.
Proof.
  apply BTeq_intro; simpl; try reflexivity.
  intros I i j HI Hi Hj. ub. destruct (Nat.eqb_spec i j) as [->|N].
  - rewrite (zsum_single _ j); [rewrite !Nat.eqb_refl; reflexivity|assumption|].
    intros l Hl Hne. destruct (Nat.eqb_spec j l); [congruence|]. ring.
  - apply zsum_zero. intros l Hl. destruct (Nat.eqb_spec i l) as [->|]; [|ring].
    destruct (Nat.eqb_spec l j); [congruence|]. ring.
Qed.

Lemma deye_as_dconstdiag b n : deye b n == dconstdiag (dones b 1 1) n.
Proof. apply BTeq_intro; reflexivity. Qed.

(* ---- algebra of the broadcasting sum ------------------------------------------------------------------------------------ *)

Lemma dadd_comm A B : bcompat (bsh A) (bsh B) = true -> nr A = nr B -> nc A = nc B -> dadd A B == dadd B A.
Proof.
  intros HC Hr Hc. apply BTeq_intro; simpl; try congruence; [apply bcast_comm; assumption|].
  intros I i j _ _ _. ring.
Qed.

Lemma dadd_assoc A B C :
  bcompat (bsh A) (bsh B) = true -> bcompat (bsh A) (bsh C) = true -> bcompat (bsh B) (bsh C) = true ->
  dadd (dadd A B) C == dadd A (dadd B C).
Proof.
  intros HAB HAC HBC.
  assert (HABC : bcompat (bcast (bsh A) (bsh B)) (bsh C) = true) by (apply bcompat_bcast_l; auto).
  apply BTeq_intro; simpl; try reflexivity; [symmetry; apply bcast_assoc|].
  intros I i j HI Hi Hj.
  set (BB := bcast (bcast (bsh A) (bsh B)) (bsh C)) in *.
  assert (SAB : bsub (bcast (bsh A) (bsh B)) BB = true) by (apply bsub_bcast_l; assumption).
  assert (SC : bsub (bsh C) BB = true) by (apply bsub_bcast_r; assumption).
  assert (SA : bsub (bsh A) BB = true) by (apply (bsub_trans _ _ _ (bsub_bcast_l _ _ HAB) SAB)).
  assert (SB : bsub (bsh B) BB = true) by (apply (bsub_trans _ _ _ (bsub_bcast_r _ _ HAB) SAB)).
  pose proof (bsub_bcast_l _ _ HAB) as SA'. pose proof (bsub_bcast_r _ _ HAB) as SB'.
  pose proof (bsub_bcast_l _ _ HBC) as SB''. pose proof (bsub_bcast_r _ _ HBC) as SC''.
  ub. rewrite !bproj_bproj by assumption. ring.
Qed.

Lemma dadd_dzero_r A b m n : bsub b (bsh A) = true -> dadd A (dzero b m n) == A.
Proof.
  intros HS. apply BTeq_intro; simpl; try reflexivity; [apply bcast_sub_r; assumption|].
  rewrite bcast_sub_r by assumption. intros I i j HI _ _. rewrite bget_in by assumption. ub. ring.
Qed.

Lemma dadd_dzero_l A b : bsub b (bsh A) = true -> dadd (dzero b (nr A) (nc A)) A == A.
Proof.
  intros HS. apply BTeq_intro; simpl; try reflexivity; [apply bsub_bcast_eq; assumption|].
  rewrite bsub_bcast_eq by assumption. intros I i j HI _ _. rewrite bget_in by assumption. ub. ring.
Qed.

Lemma fold_bcast_app l1 l2 :
  fold_right (fun A s => bcast (bsh A) s) [] (l1 ++ l2) =
  bcast (fold_right (fun A s => bcast (bsh A) s) [] l1) (fold_right (fun A s => bcast (bsh A) s) [] l2).
Proof.
  induction l1 as [|A l IH]; simpl; [reflexivity|]. rewrite IH. apply bcast_assoc.
Qed.

Lemma dsuml_app S1 S2 r c l1 l2 :
  uniform S1 r c l1 -> uniform S2 r c l2 -> l1 <> [] -> l2 <> [] -> bcompat S1 S2 = true ->
  dsuml (l1 ++ l2) == dadd (dsuml l1) (dsuml l2).
Proof.
  intros U1 U2 N1 N2 HC.
  pose proof (sum_shape_uniform _ _ _ _ U1 N1) as E1. pose proof (sum_shape_uniform _ _ _ _ U2 N2) as E2.
  unfold dsuml, dadd. apply BTeq_intro; cbn [bsh nr nc ent].
  - apply fold_bcast_app.
  - destruct l1; [congruence|]. reflexivity.
  - destruct l1; [congruence|]. reflexivity.
  - intros I i j HI _ _.
    rewrite map_app, zsuml_app. unfold bget at 3 4. cbn [bsh nr nc ent]. rewrite E1, E2. f_equal.
    + apply zsuml_map_ext. intros C HC'. unfold uniform in U1. rewrite Forall_forall in U1. destruct (U1 C HC') as (E & _).
      unfold bget. rewrite E. rewrite bproj_bproj by apply bsub_refl. reflexivity.
    + apply zsuml_map_ext. intros C HC'. unfold uniform in U2. rewrite Forall_forall in U2. destruct (U2 C HC') as (E & _).
      unfold bget. rewrite E. rewrite bproj_bproj by apply bsub_refl. reflexivity.
Qed.

Lemma dconstdiag_dadd c c' n : dconstdiag (dadd c c') n == dadd (dconstdiag c n) (dconstdiag c' n).
Proof.
  apply BTeq_intro; simpl; try reflexivity. intros I i j _ _ _. ub. destruct (Nat.eqb i j); ring.
Qed.

Lemma ddiag_dadd d d' : ddiag (dadd d d') == dadd (ddiag d) (ddiag d').
Proof.
  apply BTeq_intro; simpl; try reflexivity. intros I i j _ _ _. ub. destruct (Nat.eqb i j); ring.
Qed.

Lemma dadd_dexpand_r A B : bsub (bsh B) (bsh A) = true -> dadd A (dexpand (bsh A) B) == dadd A B.
Proof.
  intros HS. apply BTeq_intro; simpl; try reflexivity.
  - rewrite bcast_refl. symmetry. apply bcast_sub_r. assumption.
  - rewrite bcast_refl. intros I i j HI _ _. f_equal. ub. rewrite bproj_bproj by assumption. reflexivity.
Qed.

Lemma bcompat_sym_bcast a b c : bcompat a b = true -> bcompat a c = true -> bcompat b c = true -> bcompat a (bcast b c) = true.
Proof.
  intros H1 H2 H3. rewrite bcompat_sym. apply bcompat_bcast_l; [assumption|]. split; rewrite bcompat_sym; assumption.
Qed.

Lemma dadd_swap_r A B C :
  bcompat (bsh A) (bsh B) = true -> bcompat (bsh A) (bsh C) = true -> bcompat (bsh B) (bsh C) = true ->
  nr A = nr B -> nc A = nc B -> nr B = nr C -> nc B = nc C ->
  dadd (dadd A B) C == dadd (dadd A C) B.
Proof.
  intros HAB HAC HBC Hr0 Hc0 Hr Hc.
  eapply BTeq_trans; [apply dadd_assoc; assumption|].
  assert (H1 : dadd B C == dadd C B) by (apply dadd_comm; assumption).
  assert (H2 : dadd A (dadd B C) == dadd A (dadd C B)).
  { apply dadd_eq; [apply BTeq_refl|exact H1| | |]; simpl; try assumption. apply bcompat_sym_bcast; assumption. }
  eapply BTeq_trans; [exact H2|].
  apply BTeq_sym. apply dadd_assoc; try assumption. rewrite bcompat_sym. assumption.
Qed.

(* ---- scaling by a 0-d constant ---------------------------------------------------------------------------------------------- *)

Definition c0 (c : BT) : Z := ent c [] 0%nat 0%nat.

Lemma dscale0_ent A c I i j : bsh c = [] -> inb (bsh A) I -> ent (dscale A c) I i j = ent A I i j * c0 c.
Proof. intros HC HI. simpl. rewrite bget_in by assumption. unfold bget, c0. rewrite HC. reflexivity. Qed.

Lemma dscale0_shape A c : bsh c = [] -> bsh (dscale A c) = bsh A.
Proof. intros HC. simpl. rewrite HC. apply bcast_nil_r. Qed.

Ltac sc0 HC := apply BTeq_intro; simpl; rewrite ?HC, ?bcast_nil_r; try reflexivity.

Lemma ddiag_dscale0 d c : bsh c = [] -> ddiag (dscale d c) == dscale (ddiag d) c.
Proof. intros HC. sc0 HC. intros I i j HI _ _. ub. rewrite HC. destruct (Nat.eqb i j); ring. Qed.

Lemma dconstdiag_dscale0 k n c : bsh c = [] ->
  dconstdiag (mkBT (bsh k) 1 1 (fun I _ _ => ent k I 0%nat 0%nat * c0 c)) n == dscale (dconstdiag k n) c.
Proof.
  intros HC. sc0 HC. intros I i j HI _ _. ub. rewrite HC. rewrite bproj_id by assumption. unfold c0. simpl. destruct (Nat.eqb i j); ring.
Qed.

Lemma dscale0_eq A A' c : bsh c = [] -> A == A' -> dscale A c == dscale A' c.
Proof. intros HC HA. apply dscale_eq; [exact HA|]. rewrite HC. destruct (bsh A); reflexivity. Qed.

Lemma dscale0_const A c c' : bsh c = [] -> bsh c' = [] -> c0 c = c0 c' -> dscale A c == dscale A c'.
Proof.
  intros H1 H2 HE. apply BTeq_intro; simpl; rewrite ?H1, ?H2; try reflexivity.
  intros I i j _ _ _. ub. rewrite H1, H2. unfold c0 in HE. simpl. rewrite HE. reflexivity.
Qed.

Lemma dmm_dscale0_root R s c : bsh s = [] -> bsh c = [] -> c0 s * c0 s = c0 c ->
  dmm (dscale R s) (dtr (dscale R s)) == dscale (dmm R (dtr R)) c.
Proof.
  intros HS HC HE. apply BTeq_intro; simpl; rewrite ?HS, ?HC, ?bcast_nil_r, ?bcast_refl; try reflexivity.
  intros I i j HI _ _. ub. rewrite HS, HC, ?bcast_nil_r, ?bcast_refl. simpl.
  rewrite <- zsum_scale_r. apply zsum_ext. intros l _.
  rewrite !bproj_bproj by apply bsub_refl. unfold c0 in HE. rewrite <- HE. ring.
Qed.

Lemma dhad_dscale0_l L R c : bsh c = [] -> bcompat (bsh L) (bsh R) = true -> dhad (dscale L c) R == dscale (dhad L R) c.
Proof.
  intros HC HB. sc0 HC. intros I i j HI _ _. ub. rewrite HC, ?bcast_nil_r. simpl.
  rewrite (bproj_bproj _ _ _ (bsub_refl (bsh L))), (bproj_bproj _ _ _ (bsub_bcast_l _ _ HB)), (bproj_bproj _ _ _ (bsub_bcast_r _ _ HB)). ring.
Qed.

Lemma uniform_map_dscale0 S r c k l : bsh k = [] -> uniform S r c l -> uniform S r c (map (fun A => dscale A k) l).
Proof.
  intros HK. induction 1 as [|A l (E1 & E2 & E3) _ IH]; simpl; constructor; [|assumption].
  repeat split; simpl; try assumption. rewrite HK, bcast_nil_r. assumption.
Qed.

Lemma dscale0_sumu S r c k l : bsh k = [] -> uniform S r c l ->
  sumu S r c (map (fun A => dscale A k) l) == dscale (sumu S r c l) k.
Proof.
  intros HK HU. apply BTeq_intro; simpl; rewrite ?HK, ?bcast_nil_r; try reflexivity.
  intros I i j HI _ _. ub. rewrite HK. simpl. rewrite map_map.
  rewrite (bproj_id S) by assumption.
  rewrite <- zsuml_scale. apply zsuml_map_ext. intros A HA.
  unfold uniform in HU. rewrite Forall_forall in HU. destruct (HU A HA) as (E & _).
  simpl. ub. rewrite HK, E. rewrite bproj_id by assumption. reflexivity.
Qed.

Lemma dsuml_dscale0 S r c k l l' : bsh k = [] -> uniform S r c l -> l <> [] ->
  Forall2 (fun A A' => A' == dscale A k) l l' -> dsuml l' == dscale (dsuml l) k.
Proof.
  intros HK HU Hl HF.
  assert (HF' : Forall2 BTeq (map (fun A => dscale A k) l) l').
  { clear -HF. induction HF; simpl; constructor; [apply BTeq_sym; assumption|assumption]. }
  assert (Hl' : map (fun A => dscale A k) l <> []) by (destruct l; simpl; congruence).
  pose proof (uniform_map_dscale0 _ _ _ k _ HK HU) as HU'.
  eapply BTeq_trans; [apply BTeq_sym; apply (dsuml_eq S r c _ _ HF' HU' Hl')|].
  eapply BTeq_trans; [apply (dsuml_uniform S r c); assumption|].
  eapply BTeq_trans; [apply dscale0_sumu; assumption|].
  apply dscale0_eq; [assumption|]. apply BTeq_sym. apply dsuml_uniform; assumption.
Qed.


Lemma dsub_as_dadd A B k : bsh k = [] -> c0 k = (-1) -> dsub A B == dadd A (dscale B k).
Proof.
  intros HK HV. apply BTeq_intro; simpl; rewrite ?HK, ?bcast_nil_r; try reflexivity.
  intros I i j _ _ _. ub. rewrite HK. simpl. rewrite (bproj_bproj _ _ _ (bsub_refl (bsh B))).
  unfold c0 in HV. rewrite HV. ring.
Qed.

Lemma dsub_eq A A' B B' : A == A' -> B == B' -> bcompat (bsh A) (bsh B) = true -> nr A = nr B -> nc A = nc B ->
  dsub A B == dsub A' B'.
Proof.
  intros HA HB HC Hr Hc.
  pose proof (BTeq_bsh _ _ HA) as E1. pose proof (BTeq_bsh _ _ HB) as E2.
  apply BTeq_intro; simpl; try (rewrite ?E1, ?E2; reflexivity); try apply (BTeq_nr _ _ HA); try apply (BTeq_nc _ _ HA).
  intros I i j HI Hi Hj. f_equal.
  - eapply bget_eq; eauto. apply bsub_bcast_l; assumption.
  - eapply bget_eq; eauto; [apply bsub_bcast_r; assumption|lia|lia].
Qed.
