(* C02.ProofsMatmul — matmul with an operator right-hand side: the structured special cases (Diag, ConstantDiag,
   Identity, Zero, Triangular right-hand side) and MatmulLinearOperator denote the matrix product. *)
From Coq Require Import List ZArith Lia Bool Arith.
Import ListNotations.
Require Import C02.Sums C02.Batch C02.Tensor C02.Dense C02.Op C02.Model C02.Spec.
Require Import C02.ProofsDense C02.ProofsBase C02.ProofsExpand C02.ProofsCtor.
Open Scope Z_scope.

(* ---- Diag-class objects denote diagonal matrices, and diag_of reads their diagonal ---------------------------------- *)

Definition isdiagm (A : BT) : Prop := nr A = nc A /\ forall I i j, i <> j -> ent A I i j = 0.

Lemma isdiagm_ddiag A : isdiagm A -> A == ddiag (ddiagonal A).
Proof.
  intros (E & H). apply BTeq_intro; simpl; try congruence.
  intros I i j _ _ _. destruct (Nat.eqb_spec i j) as [->|N]; [reflexivity|apply H; assumption].
Qed.

Lemma isdiagm_dkron A B : isdiagm A -> isdiagm B -> (0 < nr B)%nat -> isdiagm (dkron A B).
Proof.
  intros (EA & HA) (EB & HB) HP. split; simpl; [congruence|].
  intros I i j N. ub. rewrite <- EB.
  destruct (Nat.eq_dec (i / nr B) (j / nr B)) as [Eq|Nq].
  - rewrite (HB _ (i mod nr B)%nat (j mod nr B)%nat); [ring|].
    intros Em. apply N. rewrite (Nat.div_mod i (nr B)), (Nat.div_mod j (nr B)) by lia. congruence.
  - rewrite HA by assumption. ring.
Qed.

Lemma diag_is_diag e : wf e -> is_diag e = true -> isdiagm (denote e).
Proof.
  induction e using Op_ind'; intros HW HD; simpl in HD; try discriminate.
  - split; simpl; [reflexivity|]. intros I i j N. destruct (Nat.eqb_spec i j); [congruence|reflexivity].
  - split; simpl; [reflexivity|]. intros I i j N. destruct (Nat.eqb_spec i j); [congruence|reflexivity].
  - split; simpl; [reflexivity|]. intros I i j N. unfold zdelta. destruct (Nat.eqb_spec i j); [congruence|reflexivity].
  - destruct k; try discriminate.
    pose proof HW as HW0. apply wf_kronc in HW. destruct HW as (HW & Hne & HP & S & HU).
    assert (HDs : Forall (fun x => is_diag x = true) ops).
    { unfold wf in HW0. simpl in HW0. rewrite !andb_true_iff in HW0. destruct HW0 as (_ & HDs). apply forallb_Forall. exact HDs. }
    rewrite denote_kronc. clear Hne HU HW0.
    induction ops as [|x l IH]; simpl.
    + split; simpl; [reflexivity|]. intros I i j N. unfold zdelta. destruct (Nat.eqb_spec i j); [congruence|reflexivity].
    + pose proof (Forall_inv H) as H1. pose proof (Forall_inv HW) as W1. pose proof (Forall_inv HDs) as D1.
      simpl in HP. pose proof (Forall_inv_tail HP) as HP'.
      apply isdiagm_dkron.
      * apply H1; assumption.
      * apply IH; [exact (Forall_inv_tail H)|exact (Forall_inv_tail HW)|exact HP'|exact (Forall_inv_tail HDs)].
      * apply (kfold_pos _ HP').
Qed.

Lemma diag_of_correct e : wf e -> is_diag e = true -> denote e == ddiag (diag_of e).
Proof.
  intros HW HD. destruct e; simpl in HD; try discriminate.
  - apply BTeq_refl.
  - apply dconstdiag_as_ddiag.
  - apply deye_as_ddiag.
  - destruct k; try discriminate. apply isdiagm_ddiag. apply diag_is_diag; [assumption|reflexivity].
Qed.

Lemma diag_of_shape e : is_diag e = true -> bsh (diag_of e) = batch e /\ nr (diag_of e) = rows e.
Proof. intros HD. destruct e; simpl in HD; try discriminate; split; reflexivity. Qed.

(* ---- DiagLinearOperator.matmul ------------------------------------------------------------------------------------------- *)

Lemma raw_col_mul d d' : nr d = nr d' ->
  raw_to_col (rmul (col_to_raw d) (col_to_raw d')) ==
  mkBT (bcast (bsh d) (bsh d')) (nr d) 1 (fun I i _ => bget d I i 0%nat * bget d' I i 0%nat).
Proof.
  intros HR. unfold raw_to_col, rmul, col_to_raw, mkraw. simpl.
  apply BTeq_intro; simpl; try reflexivity.
  - destruct (Nat.eqb_spec (nr d) 1); congruence.
  - intros I i j HI Hi Hj. ub. rewrite <- HR. revert Hi.
    destruct (Nat.eqb_spec (nr d) 1) as [E1|N1]; intros Hi; [|reflexivity].
    assert (i = 0)%nat by lia. subst. reflexivity.
Qed.

Theorem diag_matmul_correct e o : forall r,
  wf e -> is_diag e = true -> wf o -> cols e = rows o ->
  diag_matmul (diag_of e) e o = Ok r -> denote r == dmm (denote e) (denote o).
Proof.
  induction o using Op_ind'; intros r0 HE HD HO EC HX; simpl in HX.
  all: pose proof (diag_of_correct _ HE HD) as DE; destruct (diag_of_shape _ HD) as (DS & DR).
  all: assert (ER : rows e = cols e) by (destruct (diag_is_diag _ HE HD) as (Eq & _); exact Eq).
  all: try (
    (* the generic branch: another Diag-class object, or MatmulLinearOperator *)
    match type of HX with
    | (if ?c then _ else _) = _ => idtac
    | mk_matmul _ _ = _ => apply (mk_matmul_correct _ _ _) in HX; exact (proj1 HX)
    end).
  - (* Dense *)
    destruct (bcompat (bsh (diag_of e)) (bsh t) && Nat.eqb (nr (diag_of e)) (nr t)) eqn:C; [|discriminate]. okinv HX.
    apply andb_true_iff in C. destruct C as (C1 & C2). apply Nat.eqb_eq in C2.
    simpl. apply BTeq_sym. eapply BTeq_trans; [apply dmm_eq_l; [|exact DE]|].
    + change (bsh (denote e)) with (batch e). rewrite <- DS. exact C1.
    + apply dmm_ddiag_l. symmetry. exact C2.
  - (* Diag *)
    simpl in HX. destruct (rcompat (col_to_raw (diag_of e)) (col_to_raw d)) eqn:C; [|discriminate]. okinv HX.
    unfold wf in HO. simpl in HO. apply Nat.eqb_eq in HO.
    assert (EN : nr (diag_of e) = nr d) by (rewrite DR; unfold rows, cols in *; simpl in EC; congruence).
    simpl. apply BTeq_sym. eapply BTeq_trans; [apply dmm_eq_l; [|exact DE]|].
    + unfold rcompat in C. simpl in C. rewrite andb_true_iff in C. destruct C as (_ & C). change (bsh (denote e)) with (batch e). rewrite <- DS. exact C.
    + eapply BTeq_trans; [apply dmm_ddiag_ddiag; exact EN|]. apply ddiag_eq; [|simpl; lia].
      apply BTeq_sym. apply raw_col_mul. exact EN.
  - (* CDiag *)
    simpl in HX. destruct (rcompat (col_to_raw (diag_of e)) (col_to_raw (dcol_of_const c n))) eqn:C; [|discriminate]. okinv HX.
    assert (EN : nr (diag_of e) = n) by (rewrite DR; unfold rows, cols in *; simpl in EC; congruence).
    simpl. apply BTeq_sym. eapply BTeq_trans; [apply dmm_eq; [exact DE|apply dconstdiag_as_ddiag| |]|].
    + unfold rcompat in C. simpl in C. rewrite andb_true_iff in C. destruct C as (_ & C). change (bsh (denote e)) with (batch e). rewrite <- DS. exact C.
    + simpl. unfold rows, cols in *. simpl in EC. congruence.
    + eapply BTeq_trans; [apply dmm_ddiag_ddiag; simpl; exact EN|]. apply ddiag_eq; [|simpl; lia].
      apply BTeq_sym. apply (raw_col_mul (diag_of e) (dcol_of_const c n)). simpl. exact EN.
  - (* Ident *)
    simpl in HX. destruct (rcompat (col_to_raw (diag_of e)) (col_to_raw (dones b n 1))) eqn:C; [|discriminate]. okinv HX.
    assert (EN : nr (diag_of e) = n) by (rewrite DR; unfold rows, cols in *; simpl in EC; congruence).
    simpl. apply BTeq_sym. eapply BTeq_trans; [apply dmm_eq; [exact DE|apply deye_as_ddiag| |]|].
    + unfold rcompat in C. simpl in C. rewrite andb_true_iff in C. destruct C as (_ & C). change (bsh (denote e)) with (batch e). rewrite <- DS. exact C.
    + simpl. unfold rows, cols in *. simpl in EC. congruence.
    + eapply BTeq_trans; [apply dmm_ddiag_ddiag; simpl; exact EN|]. apply ddiag_eq; [|simpl; lia].
      apply BTeq_sym. apply (raw_col_mul (diag_of e) (dones b n 1)). simpl. exact EN.
  - (* Tri *)
    apply wf_tri in HO. destruct HO as (HO & _). binv HX.
    assert (HM : denote a == dmm (denote e) (denote o)) by (apply IHo; assumption).
    rewrite (mk_tri_denote _ _ _ HX0). exact HM.
  - (* KronC *)
    destruct k as [|u|].
    1,2: apply (mk_matmul_correct _ _ _) in HX; exact (proj1 HX).
    assert (DK : is_diag (KronC KKronDiag ops) = true) by reflexivity.
    change (match (if rcompat (col_to_raw (diag_of e)) (col_to_raw (diag_of (KronC KKronDiag ops)))
                   then Ok (Diag (raw_to_col (rmul (col_to_raw (diag_of e)) (col_to_raw (diag_of (KronC KKronDiag ops))))))
                   else Err EShape) with Ok a => Ok a | Err x => Err x end = Ok r0) in HX || idtac.
    match type of HX with (if ?c then _ else _) = _ => destruct c eqn:C; [|discriminate] end. okinv HX.
    pose proof (diag_of_correct _ HO DK) as DO. destruct (diag_of_shape _ DK) as (DS' & DR').
    assert (EN : nr (diag_of e) = nr (diag_of (KronC KKronDiag ops))) by (rewrite DR, DR'; congruence).
    apply BTeq_sym. eapply BTeq_trans; [apply dmm_eq; [exact DE|exact DO| |]|].
    + unfold rcompat in C. simpl in C. rewrite andb_true_iff in C. destruct C as (_ & C).
      change (bsh (denote e)) with (batch e). rewrite <- DS. exact C.
    + unfold rows, cols in *. congruence.
    + eapply BTeq_trans; [apply dmm_ddiag_ddiag; exact EN|]. apply ddiag_eq; [|simpl; lia].
      apply BTeq_sym. apply (raw_col_mul (diag_of e) (diag_of (KronC KKronDiag ops))). exact EN.
  - (* BlockDiag *) discriminate.
Qed.

(* ---- the public matmul ---------------------------------------------------------------------------------------------------- *)

(* ZeroLinearOperator.matmul takes the batch shape of the right operand only (finding C02-zero-matmul-drops-batch): the
   theorem needs the Zero's batch shape to broadcast INTO the right operand's *)
Definition safe_matmul (e o : Op) : bool := match e with Zero b _ _ => bsub b (batch o) | _ => true end.

Lemma cdiag_denote o : is_cdiag o = true -> denote o == dconstdiag (cvals_of o) (cols o).
Proof.
  destruct o; simpl; try discriminate; intros _; [apply BTeq_refl|apply deye_as_dconstdiag].
Qed.

Theorem alg_matmul_correct e o r :
  wf e -> wf o -> cols e = rows o -> safe_matmul e o = true -> alg_matmul e o = Ok r ->
  denote r == dmm (denote e) (denote o).
Proof.
  intros HE HO EC HS HX.
  destruct e; simpl in HX;
    try (apply (mk_matmul_correct _ _ _) in HX; exact (proj1 HX));
    try discriminate.
  - (* Diag *) apply (diag_matmul_correct (Diag d) o); try assumption; reflexivity.
  - (* CDiag *)
    destruct (is_cdiag o) eqn:CO.
    + unfold alg_mul_matrix in HX; try rewrite CO in HX.
      destruct (Nat.eqb n (cols o)) eqn:EN; [|discriminate]. apply Nat.eqb_eq in EN.
      destruct (bcompat (bsh c) (bsh (cvals_of o))) eqn:CB; [|discriminate]. okinv HX.
      simpl. apply BTeq_sym. eapply BTeq_trans; [apply dmm_eq_r; [| |apply cdiag_denote; exact CO]|].
      * simpl. destruct o; simpl in CO; try discriminate; exact CB.
      * simpl. symmetry. exact EC.
      * apply dmm_dconstdiag.
    + apply (diag_matmul_correct (CDiag c n) o); try assumption; reflexivity.
  - (* Ident *)
    destruct (shape_eqb bs (batch o)) eqn:EB.
    + okinv HX. apply shape_eqb_eq in EB. subst bs. apply BTeq_sym.
      eapply BTeq_trans; [apply dmm_deye_l; symmetry; exact EC|]. apply dexpand_id'. apply bcast_refl.
    + destruct (bcompat (batch o) bs) eqn:CB; [|discriminate].
      eapply BTeq_trans; [apply alg_expand_correct; [exact HO| |exact HX]|]; [apply bsub_bcast_l; exact CB|].
      apply BTeq_sym. eapply BTeq_trans; [apply dmm_deye_l; symmetry; exact EC|].
      rewrite (bcast_comm bs (bsh (denote o))) by (rewrite bcompat_sym; exact CB). apply BTeq_refl.
  - (* Zero *)
    destruct (Nat.eqb n (rows o)); [|discriminate]. okinv HX. simpl in HS.
    simpl. apply BTeq_sym. eapply BTeq_trans; [apply dmm_dzero_l|].
    change (bsh (denote o)) with (batch o). rewrite (bsub_bcast_eq _ _ HS). apply BTeq_refl.
  - (* KronC *)
    destruct k; try (apply (mk_matmul_correct _ _ _) in HX; exact (proj1 HX)).
    apply (diag_matmul_correct (KronC KKronDiag ops) o); try assumption; reflexivity.
Qed.
