(* C02.ProofsMatmul — matmul with an operator right-hand side: the structured special cases (Diag, ConstantDiag,
   Identity, Zero, Triangular right-hand side) and MatmulLinearOperator denote the matrix product. *)
From Coq Require Import List ZArith Lia Bool Arith.
Import ListNotations.
Require Import C02.Sums C02.Batch C02.Tensor C02.Dense C02.Op C02.Model C02.Spec.
Require Import C02.ProofsDense C02.ProofsBase C02.ProofsExpand C02.ProofsCtor C02.ProofsBlock.
Open Scope Z_scope.

(* ---- Diag-class objects denote diagonal matrices, and diag_of reads their diagonal ---------------------------------- *)

Definition isdiagm (A : BT) : Prop := nr A = nc A /\ forall I i j, i <> j -> ent A I i j = 0.

Lemma isdiagm_ddiag A : isdiagm A -> A == ddiag (ddiagonal A).
Proof.
  intros (E & H). apply BTeq_intro; simpl; try congruence.
  intros I i j _ _ _. destruct (Nat.eqb_spec i j) as [->|N]; [reflexivity|apply H; assumption].
Qed.

Lemma isdiagm_dkron A B : isdiagm A -> isdiagm B -> (0 < nr B)%nat -> isdiagm (dkron A B).
Proof.
  intros (EA & HA) (EB & HB) HP. split; simpl; [congruence|].
  intros I i j N. ub. rewrite <- EB.
  destruct (Nat.eq_dec (i / nr B) (j / nr B)) as [Eq|Nq].
  - rewrite (HB _ (i mod nr B)%nat (j mod nr B)%nat); [ring|].
    intros Em. apply N. rewrite (Nat.div_mod i (nr B)), (Nat.div_mod j (nr B)) by lia. congruence.
  - rewrite HA by assumption. ring.
Qed.

Lemma diag_is_diag e : wf e -> is_diag e = true -> isdiagm (denote e).
Proof.
  induction e using Op_ind'; intros HW HD; simpl in HD; try discriminate.
  - split; simpl; [reflexivity|]. intros I i j N. destruct (Nat.eqb_spec i j); [congruence|reflexivity].
  - split; simpl; [reflexivity|]. intros I i j N. destruct (Nat.eqb_spec i j); [congruence|reflexivity].
  - split; simpl; [reflexivity|]. intros I i j N. unfold zdelta. destruct (Nat.eqb_spec i j); [congruence|reflexivity].
  - destruct k; try discriminate.
    pose proof HW as HW0. apply wf_kronc in HW. destruct HW as (HW & Hne & HP & S & HU).
    assert (HDs : Forall (fun x => is_diag x = true) ops).
    { unfold wf in HW0. simpl in HW0. rewrite !andb_true_iff in HW0. destruct HW0 as (_ & HDs). apply forallb_Forall. exact HDs. }
    rewrite denote_kronc. clear Hne HU HW0.
    induction ops as [|x l IH]; simpl.
    + split; simpl; [reflexivity|]. intros I i j N. unfold zdelta. destruct (Nat.eqb_spec i j); [congruence|reflexivity].
    + pose proof (Forall_inv H) as H1. pose proof (Forall_inv HW) as W1. pose proof (Forall_inv HDs) as D1.
      simpl in HP. pose proof (Forall_inv_tail HP) as HP'.
      apply isdiagm_dkron.
      * apply H1; assumption.
      * apply IH; [exact (Forall_inv_tail H)|exact (Forall_inv_tail HW)|exact HP'|exact (Forall_inv_tail HDs)].
      * apply (kfold_pos _ HP').
Qed.

Lemma diag_of_correct e : wf e -> is_diag e = true -> denote e == ddiag (diag_of e).
Proof.
  intros HW HD. destruct e; simpl in HD; try discriminate.
  - apply BTeq_refl.
  - apply dconstdiag_as_ddiag.
  - apply deye_as_ddiag.
  - destruct k; try discriminate. apply isdiagm_ddiag. apply diag_is_diag; [assumption|reflexivity].
Qed.

Lemma diag_of_shape e : is_diag e = true -> bsh (diag_of e) = batch e /\ nr (diag_of e) = rows e.
Proof. intros HD. destruct e; simpl in HD; try discriminate; split; reflexivity. Qed.

(* ---- DiagLinearOperator.matmul ------------------------------------------------------------------------------------------- *)

Lemma raw_col_mul d d' : nr d = nr d' ->
  raw_to_col (rmul (col_to_raw d) (col_to_raw d')) ==
  mkBT (bcast (bsh d) (bsh d')) (nr d) 1 (fun I i _ => bget d I i 0%nat * bget d' I i 0%nat).
Proof.
  intros HR. unfold raw_to_col, rmul, col_to_raw, mkraw. simpl.
  apply BTeq_intro; simpl; try reflexivity.
  - destruct (Nat.eqb_spec (nr d) 1); congruence.
  - intros I i j HI Hi Hj. ub. rewrite <- HR. revert Hi.
    destruct (Nat.eqb_spec (nr d) 1) as [E1|N1]; intros Hi; [|reflexivity].
    assert (i = 0)%nat by lia. subst. reflexivity.
Qed.

Lemma wf_blockdiag b : wf (BlockDiag b) ->
  wf b /\ rows b = cols b /\ (0 < rows b)%nat /\ exists k bs, batch b = k :: bs /\ (0 < k)%nat.
Proof.
  unfold wf. simpl. rewrite !andb_true_iff, Nat.eqb_eq. intros (((W & S) & P) & K). unfold pos in *.
  apply Nat.ltb_lt in P. destruct (batch b) as [|k bs]; [discriminate|]. apply Nat.ltb_lt in K. repeat split; eauto.
Qed.

Theorem diag_matmul_correct_gen o : forall e r,
  wf e -> is_diag e = true -> wf o -> cols e = rows o ->
  diag_matmul (diag_of e) e o = Ok r -> denote r == dmm (denote e) (denote o).
Proof.
  induction o using Op_ind'; intros e r0 HE HD HO EC HX; simpl in HX.
  all: pose proof (diag_of_correct _ HE HD) as DE; destruct (diag_of_shape _ HD) as (DS & DR).
  all: assert (ER : rows e = cols e) by (destruct (diag_is_diag _ HE HD) as (Eq & _); exact Eq).
  all: try (
    (* the generic branch: another Diag-class object, or MatmulLinearOperator *)
    match type of HX with
    | (if ?c then _ else _) = _ => idtac
    | mk_matmul _ _ = _ => apply (mk_matmul_correct _ _ _) in HX; exact (proj1 HX)
    end).
  - (* Dense *)
    destruct (bcompat (bsh (diag_of e)) (bsh t) && Nat.eqb (nr (diag_of e)) (nr t)) eqn:C; [|discriminate]. okinv HX.
    apply andb_true_iff in C. destruct C as (C1 & C2). apply Nat.eqb_eq in C2.
    simpl. apply BTeq_sym. eapply BTeq_trans; [apply dmm_eq_l; [|exact DE]|].
    + change (bsh (denote e)) with (batch e). rewrite <- DS. exact C1.
    + apply dmm_ddiag_l. symmetry. exact C2.
  - (* Diag *)
    simpl in HX. destruct (rcompat (col_to_raw (diag_of e)) (col_to_raw d)) eqn:C; [|discriminate]. okinv HX.
    unfold wf in HO. simpl in HO. apply Nat.eqb_eq in HO.
    assert (EN : nr (diag_of e) = nr d) by (rewrite DR; unfold rows, cols in *; simpl in EC; congruence).
    simpl. apply BTeq_sym. eapply BTeq_trans; [apply dmm_eq_l; [|exact DE]|].
    + unfold rcompat in C. simpl in C. rewrite andb_true_iff in C. destruct C as (_ & C). change (bsh (denote e)) with (batch e). rewrite <- DS. exact C.
    + eapply BTeq_trans; [apply dmm_ddiag_ddiag; exact EN|]. apply ddiag_eq; [|simpl; lia].
      apply BTeq_sym. apply raw_col_mul. exact EN.
  - (* CDiag *)
    simpl in HX. destruct (rcompat (col_to_raw (diag_of e)) (col_to_raw (dcol_of_const c n))) eqn:C; [|discriminate]. okinv HX.
    assert (EN : nr (diag_of e) = n) by (rewrite DR; unfold rows, cols in *; simpl in EC; congruence).
    simpl. apply BTeq_sym. eapply BTeq_trans; [apply dmm_eq; [exact DE|apply dconstdiag_as_ddiag| |]|].
    + unfold rcompat in C. simpl in C. rewrite andb_true_iff in C. destruct C as (_ & C). change (bsh (denote e)) with (batch e). rewrite <- DS. exact C.
    + simpl. unfold rows, cols in *. simpl in EC. congruence.
    + eapply BTeq_trans; [apply dmm_ddiag_ddiag; simpl; exact EN|]. apply ddiag_eq; [|simpl; lia].
      apply BTeq_sym. apply (raw_col_mul (diag_of e) (dcol_of_const c n)). simpl. exact EN.
  - (* Ident *)
    simpl in HX. destruct (rcompat (col_to_raw (diag_of e)) (col_to_raw (dones b n 1))) eqn:C; [|discriminate]. okinv HX.
    assert (EN : nr (diag_of e) = n) by (rewrite DR; unfold rows, cols in *; simpl in EC; congruence).
    simpl. apply BTeq_sym. eapply BTeq_trans; [apply dmm_eq; [exact DE|apply deye_as_ddiag| |]|].
    + unfold rcompat in C. simpl in C. rewrite andb_true_iff in C. destruct C as (_ & C). change (bsh (denote e)) with (batch e). rewrite <- DS. exact C.
    + simpl. unfold rows, cols in *. simpl in EC. congruence.
    + eapply BTeq_trans; [apply dmm_ddiag_ddiag; simpl; exact EN|]. apply ddiag_eq; [|simpl; lia].
      apply BTeq_sym. apply (raw_col_mul (diag_of e) (dones b n 1)). simpl. exact EN.
  - (* Tri *)
    apply wf_tri in HO. destruct HO as (HO & _). binv HX.
    assert (HM : denote a == dmm (denote e) (denote o)) by (apply IHo; assumption).
    rewrite (mk_tri_denote _ _ _ HX0). exact HM.
  - (* KronC *)
    destruct k as [|u|].
    1,2: apply (mk_matmul_correct _ _ _) in HX; exact (proj1 HX).
    assert (DK : is_diag (KronC KKronDiag ops) = true) by reflexivity.
    change (match (if rcompat (col_to_raw (diag_of e)) (col_to_raw (diag_of (KronC KKronDiag ops)))
                   then Ok (Diag (raw_to_col (rmul (col_to_raw (diag_of e)) (col_to_raw (diag_of (KronC KKronDiag ops))))))
                   else Err EShape) with Ok a => Ok a | Err x => Err x end = Ok r0) in HX || idtac.
    match type of HX with (if ?c then _ else _) = _ => destruct c eqn:C; [|discriminate] end. okinv HX.
    pose proof (diag_of_correct _ HO DK) as DO. destruct (diag_of_shape _ DK) as (DS' & DR').
    assert (EN : nr (diag_of e) = nr (diag_of (KronC KKronDiag ops))) by (rewrite DR, DR'; congruence).
    apply BTeq_sym. eapply BTeq_trans; [apply dmm_eq; [exact DE|exact DO| |]|].
    + unfold rcompat in C. simpl in C. rewrite andb_true_iff in C. destruct C as (_ & C).
      change (bsh (denote e)) with (batch e). rewrite <- DS. exact C.
    + unfold rows, cols in *. congruence.
    + eapply BTeq_trans; [apply dmm_ddiag_ddiag; exact EN|]. apply ddiag_eq; [|simpl; lia].
      apply BTeq_sym. apply (raw_col_mul (diag_of e) (diag_of (KronC KKronDiag ops))). exact EN.
  - (* BlockDiag: Diag(d) @ BlockDiag(B) = BlockDiag(Diag(d cut per block) @ B) *)
    destruct (wf_blockdiag _ HO) as (WB & SQ & PB & k & bs & EBb & PK).
    rewrite EBb in HX. ifd HX. apply andb_true_iff in Q. destruct Q as (Q1 & Q2). apply shape_eqb_eq in Q1. apply Nat.eqb_eq in Q2.
    binv HX. injection HX0 as <-.
    set (d' := dview_blocks (diag_of e) k (rows o)) in *.
    assert (IH : denote a == dmm (ddiag d') (denote o)).
    { apply (IHo (Diag d') a); try assumption; reflexivity. }
    assert (ESa : bsh (denote a) = k :: bs).
    { rewrite (BTeq_bsh _ _ IH). unfold dmm, ddiag, d', dview_blocks; cbn [bsh]. rewrite Q1. change (bsh (denote o)) with (batch o). rewrite EBb. apply (bcast_refl (k :: bs)). }
    simpl denote.
    eapply BTeq_trans; [apply (dblockdiag_eq _ _ k bs IH ESa)|].
    + rewrite (BTeq_nr _ _ IH). simpl. exact PB.
    + rewrite (BTeq_nc _ _ IH). simpl. fold (cols o). rewrite <- SQ. exact PB.
    + eapply BTeq_trans; [apply BTeq_sym; apply (dmm_ddiag_dblockdiag (diag_of e) (denote o) k bs); try assumption;
                          try exact Q2; try (change (0 < cols o)%nat; rewrite <- SQ; exact PB)|].
      apply dmm_eq_l; [|apply BTeq_sym; exact DE].
      simpl. destruct (dblockdiag_shape (denote o) k bs EBb) as (T1 & _). rewrite T1, Q1. apply bcompat_refl.
Qed.

Theorem diag_matmul_correct e o r :
  wf e -> is_diag e = true -> wf o -> cols e = rows o ->
  diag_matmul (diag_of e) e o = Ok r -> denote r == dmm (denote e) (denote o).
Proof. apply diag_matmul_correct_gen. Qed.

(* ---- the public matmul ---------------------------------------------------------------------------------------------------- *)

(* ZeroLinearOperator.matmul takes the batch shape of the right operand only (finding C02-zero-matmul-drops-batch): the
   theorem needs the Zero's batch shape to broadcast INTO the right operand's.  BlockDiagLinearOperator.matmul recurses
   into the base operators, so the condition is recursive too *)
Fixpoint safe_matmul (e o : Op) {struct e} : bool :=
  match e with
  | Zero b _ _ => bsub b (batch o)
  | BlockDiag b =>
      match o with
      | BlockDiag b' => if shape_eqb (fullshape b) (fullshape b') then safe_matmul b b' else true
      | _ => if is_diag o then
               match batch b with
               | k :: _ => safe_matmul b (Diag (dview_blocks (diag_of o) k (cols b)))
               | [] => true
               end
             else true
      end
  | _ => true
  end.

Lemma cdiag_denote o : is_cdiag o = true -> denote o == dconstdiag (cvals_of o) (cols o).
Proof.
  destruct o; simpl; try discriminate; intros _; [apply BTeq_refl|apply deye_as_dconstdiag].
Qed.

Lemma blockdiag_blockdiag_case b b' r : wf (BlockDiag b) -> wf (BlockDiag b') -> fullshape b = fullshape b' ->
  denote r == dmm (denote b) (denote b') ->
  dblockdiag (denote r) == dmm (dblockdiag (denote b)) (dblockdiag (denote b')).
Proof.
  intros HB HB' FS HR.
  destruct (wf_blockdiag _ HB) as (WB & SQ & PB & k & bs & EBb & PK).
  destruct (wf_blockdiag _ HB') as (WB' & SQ' & PB' & _).
  unfold fullshape in FS. injection FS as FC FR FB.
  assert (EB' : bsh (denote b') = k :: bs) by (change (batch b' = k :: bs); congruence).
  assert (EB : bsh (denote b) = k :: bs) by exact EBb.
  apply BTeq_sym. eapply BTeq_trans.
  - apply (dmm_dblockdiag (denote b) (denote b') k bs EB EB').
    + change (rows b' = cols b). congruence.
    + change (0 < cols b)%nat. rewrite <- SQ. exact PB.
    + exact PB.
    + change (0 < cols b')%nat. rewrite <- SQ'. exact PB'.
  - apply (dblockdiag_eq _ _ k bs).
    + apply BTeq_sym. exact HR.
    + simpl. rewrite EB, EB'. apply bcast_refl.
    + exact PB.
    + change (0 < cols b')%nat. rewrite <- SQ'. exact PB'.
Qed.

Lemma blockdiag_diag_case b o k bs r : wf (BlockDiag b) -> wf o -> is_diag o = true -> batch b = k :: bs ->
  batch o = bs -> rows o = (k * cols b)%nat ->
  denote r == dmm (denote b) (ddiag (dview_blocks (diag_of o) k (cols b))) ->
  dblockdiag (denote r) == dmm (dblockdiag (denote b)) (denote o).
Proof.
  intros HB HO HD EBb EO ER HR.
  destruct (wf_blockdiag _ HB) as (WB & SQ & PB & _).
  pose proof (diag_of_correct _ HO HD) as DE. destruct (diag_of_shape _ HD) as (DS & DR).
  assert (EB : bsh (denote b) = k :: bs) by exact EBb.
  assert (PC : (0 < nc (denote b))%nat) by (change (0 < cols b)%nat; rewrite <- SQ; exact PB).
  destruct (dblockdiag_shape (denote b) k bs EB) as (T1 & T2 & T3).
  apply BTeq_sym. eapply BTeq_trans; [apply dmm_eq_r; [| |exact DE]|].
  - rewrite T1. change (bsh (denote o)) with (batch o). rewrite EO. apply bcompat_refl.
  - rewrite T3. exact ER.
  - eapply BTeq_trans.
    + apply (dmm_dblockdiag_ddiag (denote b) (diag_of o) k bs EB); try assumption.
      * congruence.
      * rewrite DR. exact ER.
    + apply (dblockdiag_eq _ _ k bs).
      * apply BTeq_sym. exact HR.
      * simpl. rewrite EB, DS, EO. apply bcast_refl.
      * exact PB.
      * simpl. exact PC.
Qed.

Theorem alg_matmul_correct e : forall o r,
  wf e -> wf o -> cols e = rows o -> safe_matmul e o = true -> alg_matmul e o = Ok r ->
  denote r == dmm (denote e) (denote o).
Proof.
  induction e using Op_ind'; intros o r0 HE HO EC HS HX.
  all: try (cbn [alg_matmul] in HX; apply (mk_matmul_correct _ _ _) in HX; exact (proj1 HX)).
  all: try discriminate.
  - (* Diag *) apply (diag_matmul_correct (Diag d) o); try assumption; reflexivity.
  - (* CDiag *)
    cbn [alg_matmul] in HX. destruct (is_cdiag o) eqn:CO.
    + unfold alg_mul_matrix in HX; try rewrite CO in HX.
      destruct (Nat.eqb n (cols o)) eqn:EN; [|discriminate]. apply Nat.eqb_eq in EN.
      destruct (bcompat (bsh c) (bsh (cvals_of o))) eqn:CB; [|discriminate]. okinv HX.
      simpl. apply BTeq_sym. eapply BTeq_trans; [apply dmm_eq_r; [| |apply cdiag_denote; exact CO]|].
      * simpl. destruct o; simpl in CO; try discriminate; exact CB.
      * simpl. symmetry. exact EC.
      * apply dmm_dconstdiag.
    + apply (diag_matmul_correct (CDiag c n) o); try assumption; reflexivity.
  - (* Ident *)
    cbn [alg_matmul] in HX. destruct (shape_eqb b (batch o)) eqn:EB.
    + okinv HX. apply shape_eqb_eq in EB. subst b. apply BTeq_sym.
      eapply BTeq_trans; [apply dmm_deye_l; symmetry; exact EC|]. apply dexpand_id'. apply bcast_refl.
    + destruct (bcompat (batch o) b) eqn:CB; [|discriminate].
      eapply BTeq_trans; [apply alg_expand_correct; [exact HO| |exact HX]|]; [apply bsub_bcast_l; exact CB|].
      apply BTeq_sym. eapply BTeq_trans; [apply dmm_deye_l; symmetry; exact EC|].
      rewrite (bcast_comm b (bsh (denote o))) by (rewrite bcompat_sym; exact CB). apply BTeq_refl.
  - (* Zero *)
    cbn [alg_matmul] in HX. destruct (Nat.eqb n (rows o)); [|discriminate]. okinv HX. simpl in HS.
    simpl. apply BTeq_sym. eapply BTeq_trans; [apply dmm_dzero_l|].
    change (bsh (denote o)) with (batch o). rewrite (bsub_bcast_eq _ _ HS). apply BTeq_refl.
  - (* KronC *)
    cbn [alg_matmul] in HX.
    destruct k; try (apply (mk_matmul_correct _ _ _) in HX; exact (proj1 HX)).
    apply (diag_matmul_correct (KronC KKronDiag ops) o); try assumption; reflexivity.
  - (* BlockDiag *)
    rename e into b.
    destruct (wf_blockdiag _ HE) as (WB & SQ & PB & k & bs & EBb & PK).
    destruct (is_blockdiag o) eqn:IB.
    + destruct o; try discriminate IB. rename o into b'.
      cbn [alg_matmul] in HX. cbn [safe_matmul] in HS.
      destruct (shape_eqb (fullshape b) (fullshape b')) eqn:FS.
      * apply shape_eqb_eq in FS.
        destruct (alg_matmul b b') as [r|] eqn:R; [|discriminate]. cbn [bind] in HX. okinv HX.
        destruct (wf_blockdiag _ HO) as (WB' & _).
        cbn [denote]. apply blockdiag_blockdiag_case; try assumption.
        apply IHe; try assumption.
        unfold fullshape in FS. injection FS as FC FR FB. congruence.
      * apply (mk_matmul_correct _ _ _) in HX. exact (proj1 HX).
    + assert (HX' : (if is_diag o then
                       match batch b with
                       | k :: bs =>
                           if shape_eqb (batch o) bs && Nat.eqb (rows o) (k * cols b) then
                             r <- alg_matmul b (Diag (dview_blocks (diag_of o) k (cols b))) ;; Ok (BlockDiag r)
                           else Err EBug
                       | [] => Err EBug
                       end
                     else mk_matmul (BlockDiag b) o) = Ok r0)
        by (destruct o; try discriminate IB; exact HX).
      assert (HS' : (if is_diag o then
                       match batch b with
                       | k :: _ => safe_matmul b (Diag (dview_blocks (diag_of o) k (cols b)))
                       | [] => true
                       end
                     else true) = true)
        by (destruct o; try discriminate IB; exact HS).
      clear HX HS. destruct (is_diag o) eqn:D.
      * rewrite EBb in HX', HS'.
        destruct (shape_eqb (batch o) bs && Nat.eqb (rows o) (k * cols b)) eqn:C; [|discriminate].
        apply andb_true_iff in C. destruct C as (C1 & C2). apply shape_eqb_eq in C1. apply Nat.eqb_eq in C2.
        destruct (alg_matmul b (Diag (dview_blocks (diag_of o) k (cols b)))) as [r|] eqn:R; [|discriminate].
        cbn [bind] in HX'. injection HX' as <-.
        cbn [denote]. apply (blockdiag_diag_case b o k bs); try assumption.
        change (ddiag (dview_blocks (diag_of o) k (cols b))) with (denote (Diag (dview_blocks (diag_of o) k (cols b)))).
        apply IHe; try assumption; reflexivity.
      * apply (mk_matmul_correct _ _ _) in HX'. exact (proj1 HX').
Qed.
