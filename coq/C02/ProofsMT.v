(* C02.ProofsMT — _transpose_nonbatch denotes the transposed matrix. *)
From Coq Require Import List ZArith Lia Bool Arith.
Import ListNotations.
Require Import C02.Sums C02.Batch C02.Tensor C02.Dense C02.Op C02.Model C02.ProofsDense C02.ProofsBase C02.ProofsExpand.
Open Scope Z_scope.

(* Diag-class objects denote symmetric matrices *)
Lemma diag_sym e : wf e -> is_diag e = true -> dtr (denote e) == denote e.
Proof.
  induction e using Op_ind'; intros HW HD; simpl in HD; try discriminate.
  - apply dtr_ddiag.
  - apply dtr_dconstdiag.
  - apply dtr_deye.
  - destruct k; try discriminate.
    pose proof HW as HW0. apply wf_kronc in HW. destruct HW as (HW & Hne & HP & S & HU).
    assert (HDs : Forall (fun x => is_diag x = true) ops).
    { unfold wf in HW0. simpl in HW0. rewrite !andb_true_iff in HW0. destruct HW0 as (_ & HDs). apply forallb_Forall. exact HDs. }
    rewrite denote_kronc. apply BTeq_sym. apply (kfold_dtr S); try assumption.
    apply Forall2_map. rewrite Forall_forall in H, HW, HDs. clear -H HW HDs.
    induction ops as [|x l IH]; constructor.
    + apply BTeq_sym. apply H; [left; reflexivity|apply HW; left; reflexivity|apply HDs; left; reflexivity].
    + apply IH; intros; [apply H; [right; assumption|assumption|assumption]|apply HW; right; assumption|apply HDs; right; assumption].
Qed.

Theorem alg_mT_correct e : forall r, wf e -> alg_mT e = Ok r -> denote r == dtr (denote e).
Proof.
  induction e using Op_ind'; intros r0 HW HX; simpl in HX; try discriminate.
  - (* Dense *) okinv HX. apply BTeq_refl.
  - (* Leaf *) destruct k; try discriminate. okinv HX. apply BTeq_refl.
  - (* Diag *) okinv HX. apply BTeq_sym. apply dtr_ddiag.
  - (* CDiag *) okinv HX. apply BTeq_sym. apply dtr_dconstdiag.
  - (* Ident *) okinv HX. apply BTeq_sym. apply dtr_deye.
  - (* Zero *) okinv HX. apply BTeq_intro; reflexivity.
  - (* Toep *) okinv HX. apply BTeq_sym. apply dtr_dtoeplitz.
  - (* Tri *) apply wf_tri in HW. destruct HW as (HW & _). binv HX. okinv HX0. simpl. apply IHe; assumption.
  - (* RootC *) okinv HX. simpl. apply BTeq_sym. apply dmm_sym_root.
  - (* KronC *)
    pose proof HW as HW0. apply wf_kronc in HW. destruct HW as (HW & Hne & HP & S & HU).
    destruct k as [|u|].
    + rewrite go_is_mapM in HX. binv HX. okinv HX0. apply mapM_Forall2 in E.
      rewrite !denote_kronc. apply (kfold_dtr S); try assumption. apply Forall2_map.
      apply (Forall2_from_IH wf _ alg_mT); [|exact HW|exact E].
      eapply Forall_impl; [|exact H]. simpl. intros x Hx r W Hr. apply Hx; assumption.
    + rewrite go_is_mapM in HX. binv HX. okinv HX0. apply mapM_Forall2 in E.
      rewrite !denote_kronc. apply (kfold_dtr S); try assumption. apply Forall2_map.
      apply (Forall2_from_IH wf _ alg_mT); [|exact HW|exact E].
      eapply Forall_impl; [|exact H]. simpl. intros x Hx r W Hr. apply Hx; assumption.
    + okinv HX. apply BTeq_sym. apply diag_sym; [exact HW0|reflexivity].
  - (* SumC *)
    apply wf_sumc in HW. destruct HW as (HW & Hne & S & rr & cc & HU & _).
    rewrite go_is_mapM in HX. binv HX. okinv HX0. apply mapM_Forall2 in E.
    simpl. apply (dsuml_dtr S rr cc); try assumption; [destruct ops; simpl; congruence|].
    apply Forall2_map. apply (Forall2_from_IH wf _ alg_mT); [|exact HW|exact E].
    eapply Forall_impl; [|exact H]. simpl. intros x Hx r W Hr. apply Hx; assumption.
  - (* Matmul *)
    apply wf_matmul in HW. destruct HW as (HW1 & HW2 & EB & EC).
    binv HX. binv HX0. okinv HX1. simpl.
    pose proof (IHe1 _ HW1 E) as H1. pose proof (IHe2 _ HW2 E0) as H2.
    eapply BTeq_trans; [apply dmm_eq; [exact H2|exact H1| |]|].
    + rewrite (BTeq_bsh _ _ H1), (BTeq_bsh _ _ H2). simpl. change (bsh (denote e1)) with (batch e1).
      change (bsh (denote e2)) with (batch e2). rewrite EB. apply bcompat_refl.
    + rewrite (BTeq_nr _ _ H1), (BTeq_nc _ _ H2). simpl. exact EC.
    + apply BTeq_sym. apply dmm_dtr.
      * change (bsh (denote e1)) with (batch e1). change (bsh (denote e2)) with (batch e2). rewrite EB. apply bcompat_refl.
      * symmetry. exact EC.
  - (* CMul *)
    apply wf_cmul in HW. destruct HW as (HW & C1 & C2 & CS).
    binv HX. okinv HX0. simpl. pose proof (IHe _ HW E) as H1.
    eapply BTeq_trans; [apply dscale_eq; [exact H1|]|].
    + rewrite (BTeq_bsh _ _ H1). simpl. rewrite bcompat_sym. apply bsub_bcompat. exact CS.
    + apply BTeq_sym. apply dtr_dscale.
Qed.
