(* C02.ProofsExpand — _expand_batch and the Sum-family constructors denote what torch's expand / + denote. *)
From Coq Require Import List ZArith Lia Bool Arith.
Import ListNotations.
Require Import C02.Sums C02.Batch C02.Tensor C02.Dense C02.Op C02.Model C02.ProofsDense C02.ProofsBase.
Open Scope Z_scope.

Lemma texpand_ok t B t' : texpand t B = Ok t' -> bsub (bsh t) B = true /\ t' = dexpand B t.
Proof. unfold texpand. destruct (bsub (bsh t) B); [|discriminate]. intros H. okinv H. auto. Qed.

(* the class checks of the Sum-family constructors only reorder two summands *)
Lemma sumc_checks_denote k ops r S rr cc :
  sumc_checks k ops = Ok r -> uniform S rr cc (map denote ops) -> denote r == dsuml (map denote ops).
Proof.
  intros H HU. unfold sumc_checks in H.
  destruct k; try (destruct ops; [discriminate|]; okinv H; apply BTeq_refl).
  all: destruct ops as [|x [|y [|z t]]]; try discriminate.
  all: repeat match type of H with (if ?c then _ else _) = _ => destruct c; try discriminate end.
  all: okinv H; try apply BTeq_refl.
  all: simpl in *; pose proof (Forall_inv HU) as HA; pose proof (Forall_inv (Forall_inv_tail HU)) as HB; simpl in HA, HB;
    destruct HA as (E1 & E2 & E3); destruct HB as (F1 & F2 & F3).
  all: apply dsuml_swap2; try congruence; rewrite F1, E1; apply bcompat_refl.
Qed.

Lemma sumc_checks_is_sum k ops r : sumc_checks k ops = Ok r -> exists k' ops', r = SumC k' ops'.
Proof.
  unfold sumc_checks. destruct k; try (destruct ops; [discriminate|]; intros H; okinv H; eauto).
  all: destruct ops as [|x [|y [|z t]]]; try discriminate.
  all: intros H; repeat match type of H with (if ?c then _ else _) = _ => destruct c; try discriminate end.
  all: okinv H; eauto.
Qed.

Definition expand_spec (B : shape) (x y : Op) : Prop := denote y == dexpand B (denote x).

Lemma go_is_mapM (f : Op -> result Op) l :
  (fix go (l : list Op) : result (list Op) :=
     match l with
     | [] => Ok []
     | x :: r => match f x with
                 | Ok y => match go r with Ok r' => Ok (y :: r') | Err e => Err e end
                 | Err e => Err e
                 end
     end) l = mapM f l.
Proof. induction l as [|x l IH]; simpl; [reflexivity|]. rewrite IH. reflexivity. Qed.

Theorem alg_expand_correct e : forall B r,
  wf e -> bsub (batch e) B = true -> alg_expand e B = Ok r -> denote r == dexpand B (denote e).
Proof.
  induction e using Op_ind'; intros B r0 HW HS HX; simpl in HX; try discriminate.
  - (* Dense *) binv HX. apply texpand_ok in E. destruct E as (_ & ->). okinv HX0. apply BTeq_refl.
  - (* Diag *) binv HX. apply texpand_ok in E. destruct E as (_ & ->). okinv HX0. simpl. apply ddiag_dexpand.
  - (* CDiag *) binv HX. apply texpand_ok in E. destruct E as (_ & ->). okinv HX0. simpl. apply dconstdiag_dexpand.
  - (* Ident *) okinv HX. simpl. apply deye_dexpand.
  - (* Zero *) okinv HX. simpl. apply dzero_dexpand.
  - (* Tri *)
    apply wf_tri in HW. destruct HW as (HW & _).
    destruct B as [|b0 B'].
    + okinv HX. simpl. apply BTeq_sym. apply dexpand_id'. symmetry. apply bsub_nil_r. exact HS.
    + binv HX. okinv HX0. simpl. apply IHe; assumption.
  - (* RootC *)
    apply wf_rootc in HW.
    assert (HS' : bsub (batch e) B = true) by (unfold batch in *; simpl in HS; rewrite bcast_refl in HS; exact HS).
    assert (HR : forall r', denote r' == dexpand B (denote e) -> dmm (denote r') (dtr (denote r')) == dexpand B (dmm (denote e) (dtr (denote e)))).
    { intros r' HE.
      eapply BTeq_trans; [apply dmm_eq; [exact HE|apply dtr_eq; exact HE| |]|].
      - simpl. apply bcompat_refl.
      - simpl. reflexivity.
      - eapply BTeq_trans; [apply dmm_eq_r; [simpl; apply bcompat_refl|reflexivity|apply dtr_dexpand]|].
        apply dmm_dexpand; exact HS'. }
    destruct B as [|b0 B'].
    + okinv HX. simpl. apply BTeq_sym. apply dexpand_id'. simpl. rewrite bcast_refl. symmetry. apply bsub_nil_r. exact HS'.
    + binv HX. okinv HX0. simpl. apply HR. apply IHe; assumption.
  - (* KronC *)
    apply wf_kronc in HW. destruct HW as (HW & Hne & HP & S & HU).
    rewrite go_is_mapM in HX. binv HX. okinv HX0. apply mapM_Forall2 in E.
    rewrite !denote_kronc.
    assert (ES : batch (KronC k ops) = S) by (apply batch_kronc; assumption).
    apply (kfold_dexpand S); try assumption.
    + destruct ops; simpl; congruence.
    + rewrite <- ES. exact HS.
    + apply Forall2_map.
      assert (HB : Forall (fun x => bsub (batch x) B = true) ops).
      { rewrite Forall_forall. intros x Hx. rewrite Forall_forall in HU.
        unfold batch. rewrite (HU (denote x)) by (apply in_map; assumption). rewrite <- ES. exact HS. }
      apply (Forall2_from_IH (fun x => wf x /\ bsub (batch x) B = true) _ (fun x => alg_expand x B)); [| |exact E].
      * eapply Forall_impl; [|exact H]. simpl. intros x Hx r (W1 & W2) Hr. eapply Hx; eassumption.
      * rewrite Forall_forall in HW, HB. rewrite Forall_forall. intros x Hx. split; auto.
  - (* SumC *)
    pose proof HW as HW0. apply wf_sumc in HW. destruct HW as (HW & Hne & S & rr & cc & HU & _).
    rewrite go_is_mapM in HX. binv HX. apply mapM_Forall2 in E.
    assert (ES : batch (SumC k ops) = S) by (eapply batch_sumc; eassumption).
    assert (HF : Forall2 (fun A A' => A' == dexpand B A) (map denote ops) (map denote a)).
    { apply Forall2_map.
      assert (HB : Forall (fun x => bsub (batch x) B = true) ops).
      { rewrite Forall_forall. intros x Hx. unfold uniform in HU. rewrite Forall_forall in HU.
        unfold batch. destruct (HU (denote x)) as (-> & _); [apply in_map; assumption|]. rewrite <- ES. exact HS. }
      apply (Forall2_from_IH (fun x => wf x /\ bsub (batch x) B = true) _ (fun x => alg_expand x B)); [| |exact E].
      * eapply Forall_impl; [|exact H]. simpl. intros x Hx r (W1 & W2) Hr. eapply Hx; eassumption.
      * rewrite Forall_forall in HW, HB. rewrite Forall_forall. intros x Hx. split; auto. }
    assert (HUa : uniform B rr cc (map denote a)).
    { eapply uniform_Forall2; [|apply (uniform_map_dexpand _ _ _ B _ HU)].
      clear -HF. induction HF; simpl; constructor; [apply BTeq_sym; assumption|assumption]. }
    eapply BTeq_trans; [eapply sumc_checks_denote; eassumption|].
    simpl. apply (dsuml_dexpand S rr cc); try assumption.
    + destruct ops; simpl; congruence.
    + rewrite <- ES. exact HS.
  - (* Matmul *)
    apply wf_matmul in HW. destruct HW as (HW1 & HW2 & EB & EC).
    assert (ES : batch (Matmul e1 e2) = batch e1).
    { unfold batch. simpl. change (bsh (denote e1)) with (batch e1). change (bsh (denote e2)) with (batch e2). rewrite <- EB. apply bcast_refl. }
    rewrite ES in HS.
    binv HX. binv HX0. okinv HX1. simpl.
    pose proof (IHe1 _ _ HW1 HS E) as H1. pose proof (IHe2 _ _ HW2 ltac:(rewrite <- EB; exact HS) E0) as H2.
    eapply BTeq_trans; [apply dmm_eq; [exact H1|exact H2| |]|].
    + rewrite (BTeq_bsh _ _ H1), (BTeq_bsh _ _ H2). simpl. apply bcompat_refl.
    + rewrite (BTeq_nr _ _ H2), (BTeq_nc _ _ H1). simpl. symmetry. exact EC.
    + apply dmm_dexpand; [exact HS|]. change (bsh (denote e2)) with (batch e2). rewrite <- EB. exact HS.
  - (* CMul *)
    apply wf_cmul in HW. destruct HW as (HW & C1 & C2 & CS).
    assert (ES : batch (CMul e c) = batch e).
    { unfold batch. simpl. apply bcast_sub_r. exact CS. }
    rewrite ES in HS.
    binv HX. pose proof (IHe _ _ HW HS E) as H1.
    assert (HCB : bsub (bsh c) B = true) by (eapply bsub_trans; eassumption).
    destruct B as [|b0 B'].
    + okinv HX0. simpl.
      eapply BTeq_trans; [apply dscale_eq; [exact H1|]|].
      * rewrite (BTeq_bsh _ _ H1). simpl. reflexivity.
      * apply dscale_dexpand_l; assumption.
    + binv HX0. apply texpand_ok in E0. destruct E0 as (_ & ->). okinv HX1. simpl.
      eapply BTeq_trans; [apply dscale_eq; [exact H1|]|].
      * rewrite (BTeq_bsh _ _ H1). exact (bcompat_refl (b0 :: B')).
      * apply dscale_dexpand; assumption.
Qed.
