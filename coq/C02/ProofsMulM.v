(* C02.ProofsMulM — elementwise operator * operator (mul -> _mul_matrix): Dense on either side multiplies the dense values,
   Diag-class objects keep only the diagonal of the other factor, ConstantDiag * ConstantDiag stays constant, everything else
   becomes a MulLinearOperator; the object denotes the Hadamard product.  IdentityLinearOperator._mul_matrix returns the other
   operand (finding C02-identity-mul-matrix) and is excluded. *)
From Coq Require Import List ZArith Lia Bool Arith.
Import ListNotations.
Require Import C02.Sums C02.Batch C02.Tensor C02.Dense C02.Op C02.Model C02.Spec.
Require Import C02.ProofsDense C02.ProofsBase C02.ProofsExpand C02.ProofsCtor C02.ProofsMT C02.ProofsMatmul C02.ProofsRaw C02.ProofsAdd.
Open Scope Z_scope.

Definition is_ident (e : Op) : bool := match e with Ident _ _ => true | _ => false end.

Lemma dhad_dconstdiag c c' n : dconstdiag (dhad c c') n == dhad (dconstdiag c n) (dconstdiag c' n).
Proof.
  apply BTeq_intro; simpl; try reflexivity. intros I i j _ _ _. ub. destruct (Nat.eqb i j); ring.
Qed.

Lemma dhad_ddiag_l d O : nr O = nr d -> nc O = nr d ->
  ddiag (mkBT (bcast (bsh d) (bsh O)) (nr d) 1 (fun I i _ => bget d I i 0%nat * bget (ddiagonal O) I i 0%nat)) == dhad (ddiag d) O.
Proof.
  intros Hr Hc. apply BTeq_intro; simpl; try reflexivity.
  intros I i j HI Hi Hj. ub. destruct (Nat.eqb_spec i j) as [->|N]; [reflexivity|ring].
Qed.

Lemma fullshape_compat_same e o : rows o = rows e -> cols o = cols e ->
  bcompat (fullshape e) (fullshape o) = bcompat (batch e) (batch o).
Proof. intros Hr Hc. unfold fullshape. simpl. rewrite Hr, Hc, !Nat.eqb_refl. reflexivity. Qed.

Theorem alg_mul_matrix_correct e o r :
  wf e -> wf o -> rows o = rows e -> cols o = cols e -> is_ident e = false ->
  bcompat (batch e) (batch o) = true ->
  alg_mul_matrix e o = Ok r -> denote r == dhad (denote e) (denote o).
Proof.
  intros HE HO HR HC NI CB HX.
  assert (DIAG : is_diag e = true -> diag_mul_matrix e o = Ok r -> denote r == dhad (denote e) (denote o)).
  { intros DE H. unfold diag_mul_matrix in H. ifd H. okinv H.
    destruct (diag_of_shape _ DE) as (S1 & R1). pose proof (diag_of_correct _ HE DE) as DEc.
    destruct (diag_is_diag _ HE DE) as (SQ & _).
    assert (EN : nr (diag_of e) = nr (ddiagonal (denote o))) by (simpl; unfold rows in *; congruence).
    simpl denote at 1.
    eapply BTeq_trans; [apply ddiag_eq; [apply (raw_col_mul (diag_of e) (ddiagonal (denote o))); exact EN|simpl; lia]|].
    eapply BTeq_trans; [apply (dhad_ddiag_l (diag_of e) (denote o)); unfold rows, cols in *; congruence|].
    apply dhad_eq; [apply BTeq_sym; exact DEc|apply BTeq_refl| | |]; simpl.
    - rewrite S1. exact CB.
    - unfold rows in *. congruence.
    - unfold rows, cols in *. congruence. }
  assert (GEN : (let e' := evalk e in let o' := evalk o in
                 if is_dense e' || is_dense o' then
                   if bcompat (fullshape e) (fullshape o) then Ok (Dense (dmul_full (denote e) (denote o))) else Err EShape
                 else mk_mul e' o') = Ok r -> denote r == dhad (denote e) (denote o)).
  { unfold evalk. simpl. intros H. destruct (is_dense e || is_dense o).
    - ifd H. okinv H. simpl. apply rmul_same; unfold rows, cols in *; congruence.
    - unfold mk_mul in H. ifd H. okinv H. apply BTeq_refl. }
  destruct e; simpl in NI; try discriminate; simpl in HX; try (apply GEN; exact HX).
  - (* Diag *) apply DIAG; [reflexivity|exact HX].
  - (* CDiag *)
    destruct (is_cdiag o) eqn:CO; [|apply DIAG; [reflexivity|exact HX]].
    ifd HX. ifd HX. okinv HX. apply Nat.eqb_eq in Q. simpl.
    eapply BTeq_trans; [apply dhad_dconstdiag|].
    apply dhad_eq; [apply BTeq_refl|apply BTeq_sym; rewrite Q; apply cdiag_denote; exact CO| | |]; simpl; try reflexivity.
    destruct o; simpl in CO; try discriminate; exact Q0.
  - (* KronC *) destruct k; try (apply GEN; exact HX). apply DIAG; [reflexivity|exact HX].
Qed.
