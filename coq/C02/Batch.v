(* C02.Batch — copied verbatim (logical path renamed) from coq/C01/Batch.v, which its owner declared stable,
   so that the C02 development is self-contained while other builders edit coq/C01 concurrently. *)
From Coq Require Import List ZArith Lia Bool Arith.
Import ListNotations.

Definition shape := list nat.
Definition bidx := list nat.

(* I is a valid index into batch shape bs *)
Fixpoint inb (bs : shape) (I : bidx) : Prop :=
  match bs, I with
  | [], [] => True
  | d :: bs', i :: I' => i < d /\ inb bs' I'
  | _, _ => False
  end.

Fixpoint inbb (bs : shape) (I : bidx) : bool :=
  match bs, I with
  | [], [] => true
  | d :: bs', i :: I' => (i <? d) && inbb bs' I'
  | _, _ => false
  end.

Lemma inbb_spec bs I : inbb bs I = true <-> inb bs I.
Proof.
  revert I; induction bs as [|d bs IH]; destruct I as [|i I]; simpl; try tauto; try (split; [discriminate|tauto]).
  rewrite andb_true_iff, Nat.ltb_lt, IH. tauto.
Qed.

Lemma inb_length bs I : inb bs I -> length I = length bs.
Proof. revert I; induction bs; destruct I; simpl; try tauto. intros [_ H]. f_equal; auto. Qed.

(* ---- broadcasting ------------------------------------------------------------------- *)

(* the broadcast of two shapes (total; meaningful when [bcompat a b = true]) *)
Fixpoint bcast (a b : shape) : shape :=
  match a, b with
  | [], _ => b
  | _, [] => a
  | x :: a', y :: b' => (if x =? 1 then y else x) :: bcast a' b'
  end.

Fixpoint bcompat (a b : shape) : bool :=
  match a, b with
  | x :: a', y :: b' => ((x =? y) || (x =? 1) || (y =? 1)) && bcompat a' b'
  | _, _ => true
  end.

(* torch.broadcast_shapes as a partial function: fails exactly when some aligned pair of sizes
   differs and neither is 1 *)
Definition broadcast_shapes (a b : shape) : option shape :=
  if bcompat a b then Some (bcast a b) else None.

(* a broadcasts INTO c without changing c (a can be expanded to c) *)
Fixpoint bsub (a c : shape) : bool :=
  match a, c with
  | [], _ => true
  | x :: a', y :: c' => ((x =? 1) || (x =? y)) && bsub a' c'
  | _ :: _, [] => false
  end.

(* the index of the broadcast tensor that position I of the expanded tensor reads: drop the extra
   outer dimensions, and read index 0 along dimensions of size 1 *)
Fixpoint bproj (bs : shape) (I : bidx) : bidx :=
  match bs with
  | [] => []
  | d :: bs' =>
      match I with
      | [] => 0 :: bproj bs' []
      | i :: I' => (if d =? 1 then 0 else i) :: bproj bs' I'
      end
  end.

Lemma bcast_nil_r a : bcast a [] = a.
Proof. destruct a; reflexivity. Qed.

Lemma bcast_assoc a b c : bcast a (bcast b c) = bcast (bcast a b) c.
Proof.
  revert b c; induction a as [|x a IH]; intros b c; simpl; [reflexivity|].
  destruct b as [|y b]; simpl; [reflexivity|].
  destruct c as [|z c]; simpl; [reflexivity|].
  rewrite IH. f_equal.
  destruct (x =? 1) eqn:E; [reflexivity|]. rewrite E. reflexivity.
Qed.

Lemma bcompat_sym a b : bcompat a b = bcompat b a.
Proof.
  revert b; induction a as [|x a IH]; destruct b as [|y b]; simpl; try reflexivity.
  rewrite IH. f_equal. rewrite (Nat.eqb_sym x y). destruct (y =? x), (x =? 1), (y =? 1); reflexivity.
Qed.

Lemma bcast_comm a b : bcompat a b = true -> bcast a b = bcast b a.
Proof.
  revert b; induction a as [|x a IH]; destruct b as [|y b]; simpl; try reflexivity.
  rewrite andb_true_iff. intros [H1 H2]. rewrite IH by assumption. f_equal.
  destruct (Nat.eqb_spec x 1), (Nat.eqb_spec y 1), (Nat.eqb_spec x y); simpl in *; try lia; discriminate.
Qed.

Lemma bcast_refl a : bcast a a = a.
Proof. induction a as [|x a IH]; simpl; [reflexivity|]. rewrite IH. destruct (Nat.eqb_spec x 1); congruence. Qed.

Lemma bcompat_refl a : bcompat a a = true.
Proof. induction a as [|x a IH]; simpl; [reflexivity|]. rewrite IH, Nat.eqb_refl. reflexivity. Qed.

Lemma bsub_refl a : bsub a a = true.
Proof. induction a as [|x a IH]; simpl; [reflexivity|]. rewrite IH, Nat.eqb_refl, orb_true_r. reflexivity. Qed.

Lemma bsub_nil_r a : bsub a [] = true -> a = [].
Proof. destruct a; simpl; [reflexivity|discriminate]. Qed.

Lemma bsub_trans a b c : bsub a b = true -> bsub b c = true -> bsub a c = true.
Proof.
  revert b c; induction a as [|x a IH]; intros b c; simpl; [reflexivity|].
  destruct b as [|y b]; [discriminate|]. destruct c as [|z c]; simpl; [discriminate|].
  rewrite !andb_true_iff. intros [H1 H2] [H3 H4]. split; [|eapply IH; eauto].
  destruct (Nat.eqb_spec x 1); simpl in *; [reflexivity|].
  destruct (Nat.eqb_spec x y); [subst|discriminate].
  destruct (Nat.eqb_spec y 1); simpl in *; [contradiction|assumption].
Qed.

Lemma bsub_bcast_l a b : bcompat a b = true -> bsub a (bcast a b) = true.
Proof.
  revert b; induction a as [|x a IH]; intros b; simpl; [reflexivity|].
  destruct b as [|y b]; simpl.
  - intros _. rewrite Nat.eqb_refl, orb_true_r. simpl. apply bsub_refl.
  - rewrite andb_true_iff. intros [H1 H2]. rewrite IH by assumption.
    destruct (Nat.eqb_spec x 1); simpl; [reflexivity|]. rewrite Nat.eqb_refl. reflexivity.
Qed.

Lemma bsub_bcast_r a b : bcompat a b = true -> bsub b (bcast a b) = true.
Proof.
  intros H. rewrite (bcast_comm a b H). apply bsub_bcast_l. rewrite bcompat_sym. exact H.
Qed.

Lemma bsub_bcast_eq a c : bsub a c = true -> bcast a c = c.
Proof.
  revert c; induction a as [|x a IH]; intros c; simpl; [reflexivity|].
  destruct c as [|y c]; [discriminate|]. rewrite andb_true_iff. intros [H1 H2].
  rewrite IH by assumption. f_equal.
  destruct (Nat.eqb_spec x 1); [reflexivity|]. simpl in H1. apply Nat.eqb_eq in H1. exact H1.
Qed.

Lemma bsub_bcompat a c : bsub a c = true -> bcompat a c = true.
Proof.
  revert c; induction a as [|x a IH]; intros c; simpl; [reflexivity|].
  destruct c as [|y c]; [discriminate|]. rewrite andb_true_iff. intros [H1 H2].
  rewrite IH by assumption. destruct (x =? 1), (x =? y), (y =? 1); simpl in *; try reflexivity; discriminate.
Qed.

Lemma cpt_spec x y : (x =? y) || (x =? 1) || (y =? 1) = true <-> (x = y \/ x = 1 \/ y = 1).
Proof. rewrite !orb_true_iff, !Nat.eqb_eq. tauto. Qed.

Lemma sub_spec x y : (x =? 1) || (x =? y) = true <-> (x = 1 \/ x = y).
Proof. rewrite !orb_true_iff, !Nat.eqb_eq. tauto. Qed.

(* three shapes broadcast together iff they do pairwise *)
Lemma bcompat_bcast_l a b c :
  bcompat a b = true -> bcompat (bcast a b) c = true <-> (bcompat a c = true /\ bcompat b c = true).
Proof.
  revert b c; induction a as [|x a IH]; intros b c; simpl.
  - intros _. tauto.
  - destruct b as [|y b]; simpl.
    + intros _. destruct c; simpl; tauto.
    + rewrite andb_true_iff. intros [H1 H2]. destruct c as [|z c]; simpl; [tauto|].
      rewrite !andb_true_iff, (IH b c H2), !cpt_spec. apply cpt_spec in H1.
      destruct (Nat.eqb_spec x 1); split; intros; repeat split; try tauto; lia.
Qed.

Lemma bsub_lub a b c : bsub a c = true -> bsub b c = true -> bsub (bcast a b) c = true /\ bcompat a b = true.
Proof.
  revert b c; induction a as [|x a IH]; intros b c; simpl.
  - intros _ H. split; [assumption|reflexivity].
  - destruct c as [|z c]; [discriminate|]. destruct b as [|y b]; simpl.
    + intros H _. split; [assumption|reflexivity].
    + rewrite !andb_true_iff. intros [H1 H2] [H3 H4]. destruct (IH b c H2 H4) as [H5 H6].
      rewrite H5, H6. rewrite sub_spec in *. rewrite cpt_spec.
      destruct (Nat.eqb_spec x 1); repeat split; lia.
Qed.

Lemma inb_bproj a c I : bsub a c = true -> inb c I -> inb a (bproj a I).
Proof.
  revert c I; induction a as [|x a IH]; intros c I; simpl; [tauto|].
  destruct c as [|y c]; [discriminate|]. destruct I as [|i I]; simpl; [tauto|].
  rewrite andb_true_iff. intros [H1 H2] [H3 H4]. split; [|eapply IH; eauto].
  destruct (Nat.eqb_spec x 1); [lia|]. simpl in H1. apply Nat.eqb_eq in H1. lia.
Qed.

Lemma bproj_id a I : inb a I -> bproj a I = I.
Proof.
  revert I; induction a as [|x a IH]; destruct I as [|i I]; simpl; try tauto.
  intros [H1 H2]. rewrite IH by assumption. destruct (Nat.eqb_spec x 1); [f_equal; lia|reflexivity].
Qed.

(* reading through two successive expansions = reading through one *)
Lemma bproj_bproj a c I : bsub a c = true -> bproj a (bproj c I) = bproj a I.
Proof.
  revert c I; induction a as [|x a IH]; intros c I; simpl; [reflexivity|].
  destruct c as [|y c]; [discriminate|]. rewrite andb_true_iff. intros [H1 H2].
  destruct I as [|i I]; simpl.
  - rewrite (IH c [] H2). destruct (x =? 1); reflexivity.
  - rewrite (IH c I H2). f_equal.
    destruct (Nat.eqb_spec x 1); [reflexivity|]. simpl in H1. apply Nat.eqb_eq in H1. subst y.
    destruct (Nat.eqb_spec x 1); [contradiction|reflexivity].
Qed.

Lemma bproj_length a I : length (bproj a I) = length a.
Proof. revert I; induction a as [|x a IH]; intros I; simpl; [reflexivity|]. destruct I; simpl; rewrite IH; reflexivity. Qed.

(* ---- number of elements, flat index (torch row-major order) ------------------------------ *)

Fixpoint bnumel (bs : shape) : nat := match bs with [] => 1 | d :: r => bnumel r * d end.

(* flat row-major position of batch index I (innermost-first lists: the head varies fastest) *)
Fixpoint bflat (bs : shape) (I : bidx) : nat :=
  match bs, I with
  | d :: bs', i :: I' => bflat bs' I' * d + i
  | _, _ => 0
  end.

Fixpoint bunflat (bs : shape) (k : nat) : bidx :=
  match bs with
  | [] => []
  | d :: bs' => (k mod d) :: bunflat bs' (k / d)
  end.

Lemma bflat_lt bs I : inb bs I -> bflat bs I < bnumel bs.
Proof.
  revert I; induction bs as [|d bs IH]; destruct I as [|i I]; simpl; try tauto; [lia|].
  intros [H1 H2]. specialize (IH I H2). nia.
Qed.

Lemma bunflat_bflat bs I : inb bs I -> bunflat bs (bflat bs I) = I.
Proof.
  revert I; induction bs as [|d bs IH]; destruct I as [|i I]; simpl; try tauto.
  intros [H1 H2].
  assert (Hm : (bflat bs I * d + i) mod d = i).
  { rewrite Nat.add_comm, Nat.mod_add by lia. apply Nat.mod_small; lia. }
  assert (Hd : (bflat bs I * d + i) / d = bflat bs I).
  { rewrite Nat.add_comm, Nat.div_add by lia. rewrite Nat.div_small by lia. lia. }
  rewrite Hm, Hd, IH by assumption. reflexivity.
Qed.

Lemma bunflat_inb bs k : k < bnumel bs -> inb bs (bunflat bs k).
Proof.
  revert k; induction bs as [|d bs IH]; intros k; simpl; [tauto|].
  intros H. assert (0 < d) by nia. split; [apply Nat.mod_upper_bound; lia|].
  apply IH. apply Nat.div_lt_upper_bound; nia.
Qed.

Lemma bflat_bunflat bs k : k < bnumel bs -> bflat bs (bunflat bs k) = k.
Proof.
  revert k; induction bs as [|d bs IH]; intros k; simpl; [lia|].
  intros H. assert (0 < d) by nia. rewrite IH by (apply Nat.div_lt_upper_bound; nia).
  rewrite (Nat.div_mod k d) at 3 by lia. lia.
Qed.

(* all batch indices of a shape in flat order *)
Definition all_bidx (bs : shape) : list bidx := map (bunflat bs) (seq 0 (bnumel bs)).

Lemma all_bidx_nth bs I : inb bs I -> nth (bflat bs I) (all_bidx bs) [] = I.
Proof.
  intros H. unfold all_bidx.
  rewrite (nth_indep _ [] (bunflat bs 0)) by (rewrite map_length, seq_length; apply bflat_lt; assumption).
  rewrite map_nth, seq_nth by (apply bflat_lt; assumption). simpl. apply bunflat_bflat. assumption.
Qed.

Lemma all_bidx_in bs I : In I (all_bidx bs) <-> inb bs I.
Proof.
  unfold all_bidx. rewrite in_map_iff. split.
  - intros [k [<- Hk]]. apply in_seq in Hk. apply bunflat_inb. lia.
  - intros H. exists (bflat bs I). split; [apply bunflat_bflat; assumption|].
    apply in_seq. pose proof (bflat_lt bs I H). lia.
Qed.

(* ---- torch's order --------------------------------------------------------------------- *)

(* torch.broadcast_shapes on shapes written in torch's (outermost-first) order *)
Definition torch_broadcast_shapes (a b : list nat) : option (list nat) :=
  option_map (@rev nat) (broadcast_shapes (rev a) (rev b)).

(* size of dimension k counted from the right (k = 0 is the last dimension), 1 if absent *)
Definition dim_r (s : list nat) (k : nat) : nat := nth k (rev s) 1.

(* torch's documented rule: align at the right; each aligned pair must be equal or contain a 1
   (absent dimensions count as 1); the result takes the non-1 size *)
Definition torch_rule (a b r : list nat) : Prop :=
  length r = Nat.max (length a) (length b) /\
  forall k, k < length r ->
    (dim_r a k = dim_r b k \/ dim_r a k = 1 \/ dim_r b k = 1) /\
    dim_r r k = (if dim_r a k =? 1 then dim_r b k else dim_r a k).

Lemma bcast_length a b : length (bcast a b) = Nat.max (length a) (length b).
Proof.
  revert b; induction a as [|x a IH]; destruct b as [|y b]; simpl; try reflexivity.
  rewrite IH. reflexivity.
Qed.

Lemma bcast_nth a b k : k < Nat.max (length a) (length b) ->
  nth k (bcast a b) 1 = (if nth k a 1 =? 1 then nth k b 1 else nth k a 1).
Proof.
  revert b k; induction a as [|x a IH]; intros b k; simpl.
  - destruct k; reflexivity.
  - destruct b as [|y b]; simpl.
    + intros H. destruct k as [|k]; [destruct (Nat.eqb_spec x 1); congruence|].
      destruct (Nat.eqb_spec (nth k a 1) 1) as [E|E]; [rewrite E|]; destruct k; reflexivity.
    + intros H. destruct k as [|k]; [reflexivity|]. apply IH. lia.
Qed.

Lemma bcompat_nth a b : bcompat a b = true <->
  forall k, k < Nat.max (length a) (length b) -> (nth k a 1 = nth k b 1 \/ nth k a 1 = 1 \/ nth k b 1 = 1).
Proof.
  revert b; induction a as [|x a IH]; intros b; simpl.
  - split; [|reflexivity]. intros _ k _. right; left. destruct k; reflexivity.
  - destruct b as [|y b]; simpl.
    + split; [|reflexivity]. intros _ k _. right; right. destruct k; reflexivity.
    + rewrite andb_true_iff, IH. split.
      * intros [H1 H2] k Hk. destruct k as [|k]; [|apply H2; lia].
        destruct (Nat.eqb_spec x y), (Nat.eqb_spec x 1), (Nat.eqb_spec y 1); simpl in H1; try discriminate; auto.
      * intros H. split; [|intros k Hk; apply (H (S k)); lia].
        specialize (H 0 ltac:(lia)). simpl in H.
        destruct (Nat.eqb_spec x y), (Nat.eqb_spec x 1), (Nat.eqb_spec y 1); simpl; try reflexivity; lia.
Qed.

(* the Gallina broadcast function agrees with torch's rule *)
Theorem torch_broadcast_shapes_correct a b r :
  torch_broadcast_shapes a b = Some r <-> torch_rule a b r.
Proof.
  unfold torch_broadcast_shapes, broadcast_shapes, torch_rule, dim_r.
  destruct (bcompat (rev a) (rev b)) eqn:E; simpl.
  - pose proof (proj1 (bcompat_nth _ _) E) as HC. rewrite !rev_length in HC.
    split.
    + intros H. inversion H; subst r. clear H.
      rewrite rev_length, bcast_length, !rev_length. split; [reflexivity|].
      intros k Hk. rewrite rev_involutive. split; [apply HC; assumption|].
      apply bcast_nth. rewrite !rev_length. assumption.
    + intros [HL HK]. f_equal.
      assert (Hrr : rev r = bcast (rev a) (rev b)).
      { apply (nth_ext _ _ 1 1).
        - rewrite rev_length, bcast_length, !rev_length. assumption.
        - intros k Hk. rewrite rev_length in Hk. destruct (HK k Hk) as [_ ->].
          symmetry. apply bcast_nth. rewrite !rev_length. lia. }
      rewrite <- Hrr. apply rev_involutive.
  - split; [discriminate|]. intros [HL HK]. exfalso.
    assert (bcompat (rev a) (rev b) = true); [|congruence].
    apply bcompat_nth. rewrite !rev_length. intros k Hk. apply HK. lia.
Qed.
