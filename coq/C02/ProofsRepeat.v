(* BatchRepeatLinearOperator.repeat: composing a repeat with the repeats an operator already carries *)
From Coq Require Import List ZArith Lia Bool Arith.
Import ListNotations.
Require Import C02.Sums C02.Batch C02.Tensor C02.Dense C02.ProofsDense C02.Op.

Lemma brep_nil_r S : brep S [] = S.
Proof. destruct S; reflexivity. Qed.

(* [brep] is associative: repeating a repeated shape = repeating once by the composed counts.  [brep rep s] is the library's
   rule: the existing counts are LEFT-padded with ones in torch's order (innermost-first: the new dimensions are appended)
   and multiplied entry by entry *)
Lemma brep_assoc S : forall rep s, brep (brep S rep) s = brep S (brep rep s).
Proof.
  induction S as [|d S IH]; intros rep s; [reflexivity|].
  destruct rep as [|r rep]; [simpl; reflexivity|].
  destruct s as [|x s]; [simpl; reflexivity|].
  simpl. rewrite IH, Nat.mul_assoc. reflexivity.
Qed.

Lemma mod_mul_mod i d r : (0 < d)%nat -> (0 < r)%nat -> ((i mod (d * r)) mod d = i mod d)%nat.
Proof.
  intros Hd Hr. rewrite Nat.mod_mul_r by lia.
  rewrite Nat.mul_comm, Nat.mod_add by lia. apply Nat.mod_mod. lia.
Qed.

Lemma bmod_brep S : Forall (fun d => (0 < d)%nat) S -> forall rep I, Forall (fun d => (0 < d)%nat) rep ->
  bmod S (bmod (brep S rep) I) = bmod S I.
Proof.
  induction 1 as [|d S Hd HS IH]; intros rep I HR; [reflexivity|].
  destruct rep as [|r rep].
  - simpl brep. destruct I as [|i I]; simpl.
    + rewrite Nat.mod_0_l by lia. f_equal. specialize (IH [] [] (Forall_nil _)). rewrite brep_nil_r in IH. exact IH.
    + rewrite Nat.mod_mod by lia. f_equal. specialize (IH [] I (Forall_nil _)). rewrite brep_nil_r in IH. exact IH.
  - inversion HR as [|? ? Hr HR']; subst. simpl brep. destruct I as [|i I]; simpl.
    + rewrite Nat.mod_0_l by lia. f_equal. apply IH. exact HR'.
    + rewrite mod_mul_mod by assumption. f_equal. apply IH. exact HR'.
Qed.

(* torch.Tensor.repeat composed with itself *)
Theorem drepeat_drepeat D rep s :
  Forall (fun d => (0 < d)%nat) (bsh D) -> Forall (fun d => (0 < d)%nat) rep ->
  drepeat (drepeat D rep) s == drepeat D (brep rep s).
Proof.
  intros HS HR. apply BTeq_intro; simpl; try reflexivity.
  - apply brep_assoc.
  - intros I i j _ _ _. rewrite bmod_brep by assumption. reflexivity.
Qed.

(* BatchRepeatLinearOperator(base, rep).repeat(sizes): BatchRepeatLinearOperator(base, batch_repeat = left-padded rep times sizes) *)
Definition alg_repeat_brepeat (b : Op) (rep s : shape) : Op := BRepeat b (brep rep s).

Theorem alg_repeat_brepeat_correct b rep s :
  Forall (fun d => (0 < d)%nat) (batch b) -> Forall (fun d => (0 < d)%nat) rep ->
  denote (alg_repeat_brepeat b rep s) == drepeat (denote (BRepeat b rep)) s.
Proof. intros HS HR. simpl. apply BTeq_sym. apply drepeat_drepeat; assumption. Qed.
