(* C02.ProofsSumBatch — _sum_batch (sum over a batch dimension) for the classes that override it: Dense, Diag, ConstantDiag,
   Identity (-> ConstantDiag), Zero, Triangular, and the Sum family (mapped over the summands). *)
From Coq Require Import List ZArith Lia Bool Arith.
Import ListNotations.
Require Import C02.Sums C02.Batch C02.Tensor C02.Dense C02.Op C02.Model C02.Spec.
Require Import C02.ProofsDense C02.ProofsBase C02.ProofsExpand C02.ProofsCtor.
Open Scope Z_scope.

Lemma zsum_if (c : bool) n f : zsum n (fun b => if c then f b else 0) = if c then zsum n f else 0.
Proof. destruct c; [reflexivity|]. apply zsum_zero. reflexivity. Qed.

Lemma inb_linsert Sh p I b : (p < length Sh)%nat -> inb (ldelete Sh p) I -> (b < nth p Sh 0)%nat -> inb Sh (linsert I p b).
Proof.
  revert p I. induction Sh as [|d Sh IH]; intros p I Hp HI Hb; [simpl in Hp; lia|].
  destruct p as [|p]; simpl in *.
  - destruct I as [|i I]; simpl; split; assumption.
  - destruct I as [|i I]; [destruct Sh; simpl in HI; contradiction|]. simpl in HI. destruct HI as (H1 & HI). simpl. split; [exact H1|]. apply IH; [lia|exact HI|exact Hb].
Qed.

Lemma dsumdim_eq A A' p : A == A' -> (p < length (bsh A))%nat -> dsumdim A p == dsumdim A' p.
Proof.
  intros HE Hp. destruct HE as (H1 & H2 & H3 & H4). apply BTeq_intro; simpl; try congruence.
  intros I i j HI Hi Hj. rewrite <- H1. apply zsum_ext. intros b Hb. apply H4; try assumption.
  apply inb_linsert; assumption.
Qed.

Lemma ddiag_dsumdim d p : ddiag (dsumdim d p) == dsumdim (ddiag d) p.
Proof.
  apply BTeq_intro; simpl; try reflexivity. intros I i j _ _ _. symmetry. apply zsum_if.
Qed.

Lemma dconstdiag_dsumdim c n p : dconstdiag (dsumdim c p) n == dsumdim (dconstdiag c n) p.
Proof.
  apply BTeq_intro; simpl; try reflexivity. intros I i j _ _ _. symmetry. apply zsum_if.
Qed.

Lemma deye_dsumdim b n p : dconstdiag (dsumdim (dones b 1 1) p) n == dsumdim (deye b n) p.
Proof.
  apply BTeq_intro; simpl; try reflexivity. intros I i j _ _ _. unfold zdelta.
  rewrite <- (zsum_if (Nat.eqb i j) (nth p b 0%nat) (fun _ => 1)). reflexivity.
Qed.

Lemma dzero_dsumdim b m n p : dzero (ldelete b p) m n == dsumdim (dzero b m n) p.
Proof.
  apply BTeq_intro; simpl; try reflexivity. intros I i j _ _ _. symmetry. apply zsum_zero. reflexivity.
Qed.

Lemma dsumdim_sumu S r c l p : uniform S r c l ->
  sumu (ldelete S p) r c (map (fun A => dsumdim A p) l) == dsumdim (sumu S r c l) p.
Proof.
  intros HU. apply BTeq_intro; simpl; try reflexivity.
  intros I i j _ _ _. rewrite map_map. simpl.
  rewrite (zsum_zsuml l (nth p S 0%nat) (fun C b => ent C (linsert I p b) i j)).
  apply zsuml_map_ext. intros C HC. unfold uniform in HU. rewrite Forall_forall in HU. destruct (HU C HC) as (E & _).
  rewrite E. reflexivity.
Qed.

Lemma uniform_map_dsumdim S r c l p : uniform S r c l -> uniform (ldelete S p) r c (map (fun A => dsumdim A p) l).
Proof.
  induction 1 as [|A l (E1 & E2 & E3) _ IH]; simpl; constructor; [|assumption]. repeat split; simpl; congruence.
Qed.

Lemma dsuml_dsumdim S r c l l' p : uniform S r c l -> l <> [] -> (p < length S)%nat ->
  Forall2 (fun A A' => A' == dsumdim A p) l l' -> dsuml l' == dsumdim (dsuml l) p.
Proof.
  intros HU Hl Hp HF.
  assert (HF' : Forall2 BTeq (map (fun A => dsumdim A p) l) l').
  { clear -HF. induction HF; simpl; constructor; [apply BTeq_sym; assumption|assumption]. }
  assert (Hl' : map (fun A => dsumdim A p) l <> []) by (destruct l; simpl; congruence).
  pose proof (uniform_map_dsumdim _ _ _ _ p HU) as HU'.
  eapply BTeq_trans; [apply BTeq_sym; apply (dsuml_eq (ldelete S p) r c _ _ HF' HU' Hl')|].
  eapply BTeq_trans; [apply (dsuml_uniform (ldelete S p) r c); assumption|].
  eapply BTeq_trans; [apply dsumdim_sumu; exact HU|].
  apply dsumdim_eq; [apply BTeq_sym; apply dsuml_uniform; assumption|]. simpl. exact Hp.
Qed.

(* the base class: SumBatchLinearOperator over the operator itself when the summed dimension is the last batch dimension *)
Lemma linsert_0 {T} (I : list T) (b : T) : linsert I 0 b = b :: I.
Proof. destruct I; reflexivity. Qed.

Lemma dsumbatch_dsumdim0 A : bsh A <> [] -> dsumbatch A == dsumdim A 0.
Proof.
  intros HN. unfold dsumbatch, dsumdim. destruct (bsh A) as [|k bs] eqn:E; [congruence|].
  apply BTeq_intro; simpl; try reflexivity.
  intros I i j _ _ _. apply zsum_ext. intros b _. rewrite linsert_0. reflexivity.
Qed.

Lemma base_sum_batch_correct0 e r : (0 < length (batch e))%nat -> base_sum_batch e 0 = Ok r -> denote r == dsumdim (denote e) 0.
Proof.
  intros HP HX. unfold base_sum_batch in HX. destruct (batch e) eqn:EB; [simpl in HP; lia|]. simpl in HX. okinv HX.
  simpl. apply dsumbatch_dsumdim0. change (bsh (denote e)) with (batch e). rewrite EB. discriminate.
Qed.

(* classes whose own _sum_batch override is proved for every batch position *)
Fixpoint sumb_own (e : Op) : bool :=
  match e with
  | Dense _ | Diag _ | CDiag _ _ | Ident _ _ | Zero _ _ _ => true
  | Tri b _ => sumb_own b
  | SumC KLRRAD _ => false
  | SumC _ ops => (fix go (l : list Op) : bool := match l with [] => true | x :: r => sumb_own x && go r end) ops
  | _ => false
  end.

Lemma sumb_own_go_Forall ops :
  (fix go (l : list Op) : bool := match l with [] => true | x :: r => sumb_own x && go r end) ops = true ->
  Forall (fun x => sumb_own x = true) ops.
Proof. induction ops as [|x l IH]; intros H; constructor; apply andb_true_iff in H; destruct H; auto. Qed.

Theorem alg_sum_batch_correct e : forall p r,
  wf e -> (p < length (batch e))%nat -> (sumb_own e = true \/ p = 0%nat) ->
  alg_sum_batch e p = Ok r -> denote r == dsumdim (denote e) p.
Proof.
  induction e using Op_ind'; intros p r0 HW HP HO HX; simpl in HX; try discriminate;
    try (destruct HO as [HO| ->]; [simpl in HO; discriminate|]; apply base_sum_batch_correct0; [exact HP|exact HX]).
  - (* Dense *) okinv HX. apply BTeq_refl.
  - (* Diag *) okinv HX. simpl. apply ddiag_dsumdim.
  - (* CDiag *) okinv HX. simpl. apply dconstdiag_dsumdim.
  - (* Ident *) okinv HX. simpl. apply deye_dsumdim.
  - (* Zero *) okinv HX. simpl. apply dzero_dsumdim.
  - (* Tri *) apply wf_tri in HW. destruct HW as (HW & _). binv HX. rewrite (mk_tri_denote _ _ _ HX0). simpl. apply IHe; assumption.
  - (* KronC *)
    destruct k; try discriminate;
      (destruct HO as [HO| ->]; [simpl in HO; discriminate|]; apply base_sum_batch_correct0; [exact HP|exact HX]).
  - (* SumC *)
    pose proof HW as HW0. apply wf_sumc in HW. destruct HW as (HW & Hne & S & rr & cc & HU & _).
    assert (ES : batch (SumC k ops) = S) by (eapply batch_sumc; eassumption).
    assert (HOs : Forall (fun x => sumb_own x = true \/ p = 0%nat) ops).
    { destruct HO as [HO| ->]; [|rewrite Forall_forall; intros; right; reflexivity].
      destruct k; simpl in HO; try discriminate; apply sumb_own_go_Forall in HO;
        (eapply Forall_impl; [|exact HO]; intros; left; assumption). }
    assert (MAIN : forall ops', mapM (fun x => alg_sum_batch x p) ops = Ok ops' -> mk_sumc k ops' = Ok r0 ->
                   denote r0 == dsumdim (denote (SumC k ops)) p).
    { intros ops' HM HK. apply mapM_Forall2 in HM.
      assert (HF : Forall2 (fun x y => denote y == dsumdim (denote x) p) ops ops').
      { apply (Forall2_from_IH (fun x => wf x /\ batch x = S /\ (sumb_own x = true \/ p = 0%nat)) _ (fun x => alg_sum_batch x p)); [| |exact HM].
        - eapply Forall_impl; [|exact H]. simpl. intros x Hx r (W1 & W2 & W3) Hr. apply Hx; try assumption. rewrite W2, <- ES. exact HP.
        - rewrite Forall_forall in HW, HOs. unfold uniform in HU. rewrite Forall_forall in HU. rewrite Forall_forall. intros x Hx. split; [auto|]. split; [|auto].
          unfold batch. destruct (HU (denote x)) as (Q & _); [apply in_map; exact Hx|exact Q]. }
      assert (HD : same_dims_l rr cc ops').
      { unfold same_dims_l. unfold uniform in HU. rewrite Forall_forall in HU.
        clear -HF HU. induction HF as [|x y l l' Hxy HF IH]; constructor.
        - destruct (HU (denote x)) as (_ & E1 & E2); [left; reflexivity|].
          unfold rows, cols. rewrite (BTeq_nr _ _ Hxy), (BTeq_nc _ _ Hxy). simpl. split; assumption.
        - apply IH. intros A HA. apply HU. right. exact HA. }
      eapply BTeq_trans; [apply (mk_sumc_correct k ops' r0 rr cc); [|exact HD|exact HK]|].
      - destruct HF; congruence.
      - simpl. apply (dsuml_dsumdim S rr cc); try assumption; [destruct ops; simpl; congruence|rewrite <- ES; exact HP|].
        apply Forall2_map. exact HF. }
    destruct k; try (rewrite go_is_mapM in HX; binv HX; eapply MAIN; eassumption).
    destruct HO as [HO| ->]; [simpl in HO; discriminate|]. apply base_sum_batch_correct0; [exact HP|exact HX].
Qed.
