(* C02.ProofsBatch — batch rewrites that re-index the batch dimensions (_unsqueeze_batch): every combinator that acts
   pointwise in the batch index commutes with a re-indexing of operands that share one batch shape. *)
From Coq Require Import List ZArith Lia Bool Arith.
Import ListNotations.
Require Import C02.Sums C02.Batch C02.Tensor C02.Dense C02.Op C02.Model C02.Spec.
Require Import C02.ProofsDense C02.ProofsBase C02.ProofsExpand C02.ProofsCtor.
Open Scope Z_scope.

(* re-index the batch: new shape S', entry at I read at (phi I) *)
Definition dbmap (S' : shape) (phi : bidx -> bidx) (A : BT) : BT := mkBT S' (nr A) (nc A) (fun I i j => ent A (phi I) i j).

Lemma dunsqueeze_dbmap A p : dunsqueeze A p = dbmap (linsert (bsh A) p 1%nat) (fun I => ldelete I p) A.
Proof. reflexivity. Qed.

Section Reindex.
Variable S S' : shape.
Variable phi : bidx -> bidx.
Hypothesis Hphi : forall I, inb S' I -> inb S (phi I).

Lemma dbmap_eq A A' : A == A' -> bsh A = S -> dbmap S' phi A == dbmap S' phi A'.
Proof.
  intros HE ES. destruct HE as (H1 & H2 & H3 & H4). apply BTeq_intro; simpl; try reflexivity; try assumption.
  intros I i j HI Hi Hj. apply H4; try assumption. rewrite ES. apply Hphi. exact HI.
Qed.

Lemma dbmap_dmm A B : bsh A = S -> bsh B = S -> dmm (dbmap S' phi A) (dbmap S' phi B) == dbmap S' phi (dmm A B).
Proof.
  intros EA EB. apply BTeq_intro; simpl; try reflexivity; [apply bcast_refl|].
  rewrite bcast_refl. intros I i j HI _ _. apply zsum_ext. intros l _. ub.
  rewrite EA, EB. rewrite (bproj_id S' I HI). rewrite (bproj_id S (phi I) (Hphi I HI)). reflexivity.
Qed.

Lemma dbmap_dkron A B : bsh A = S -> bsh B = S -> dkron (dbmap S' phi A) (dbmap S' phi B) == dbmap S' phi (dkron A B).
Proof.
  intros EA EB. apply BTeq_intro; simpl; try reflexivity; [apply bcast_refl|].
  rewrite bcast_refl. intros I i j HI _ _. ub.
  rewrite EA, EB. rewrite (bproj_id S' I HI). rewrite (bproj_id S (phi I) (Hphi I HI)). reflexivity.
Qed.

Lemma dbmap_dscale A c : bsh A = S -> bsh c = S -> dscale (dbmap S' phi A) (dbmap S' phi c) == dbmap S' phi (dscale A c).
Proof.
  intros EA EB. apply BTeq_intro; simpl; try reflexivity; [apply bcast_refl|].
  rewrite bcast_refl. intros I i j HI _ _. ub.
  rewrite EA, EB. rewrite (bproj_id S' I HI). rewrite (bproj_id S (phi I) (Hphi I HI)). reflexivity.
Qed.

Lemma dbmap_dtr A : dtr (dbmap S' phi A) == dbmap S' phi (dtr A).
Proof. apply BTeq_intro; reflexivity. Qed.

Lemma dbmap_ddiag d : ddiag (dbmap S' phi d) == dbmap S' phi (ddiag d).
Proof. apply BTeq_intro; reflexivity. Qed.

Lemma dbmap_dconstdiag c n : dconstdiag (dbmap S' phi c) n == dbmap S' phi (dconstdiag c n).
Proof. apply BTeq_intro; reflexivity. Qed.

Lemma dbmap_sumu r c l : uniform S r c l -> sumu S' r c (map (dbmap S' phi) l) == dbmap S' phi (sumu S r c l).
Proof.
  intros HU. apply BTeq_intro; simpl; try reflexivity.
  intros I i j HI _ _. rewrite map_map. reflexivity.
Qed.

Lemma uniform_map_dbmap r c l : uniform S r c l -> uniform S' r c (map (dbmap S' phi) l).
Proof.
  induction 1 as [|A l (E1 & E2 & E3) _ IH]; simpl; constructor; [|assumption]. repeat split; assumption.
Qed.

Lemma dsuml_dbmap r c l l' : uniform S r c l -> l <> [] ->
  Forall2 (fun A A' => A' == dbmap S' phi A) l l' -> dsuml l' == dbmap S' phi (dsuml l).
Proof.
  intros HU Hl HF.
  assert (HF' : Forall2 BTeq (map (dbmap S' phi) l) l').
  { clear -HF. induction HF; simpl; constructor; [apply BTeq_sym; assumption|assumption]. }
  assert (Hl' : map (dbmap S' phi) l <> []) by (destruct l; simpl; congruence).
  pose proof (uniform_map_dbmap _ _ _ HU) as HU'.
  eapply BTeq_trans; [apply BTeq_sym; apply (dsuml_eq S' r c _ _ HF' HU' Hl')|].
  eapply BTeq_trans; [apply (dsuml_uniform S' r c); assumption|].
  eapply BTeq_trans; [apply dbmap_sumu; exact HU|].
  apply dbmap_eq; [apply BTeq_sym; apply dsuml_uniform; assumption|]. simpl. reflexivity.
Qed.

Lemma kfold_dbmap l l' :
  Forall (fun A => bsh A = S) l -> Forall (fun A => (0 < nr A)%nat /\ (0 < nc A)%nat) l -> l <> [] ->
  Forall2 (fun A A' => A' == dbmap S' phi A) l l' -> kfold l' == dbmap S' phi (kfold l).
Proof.
  intros HU HP Hl HF. revert HU HP Hl.
  induction HF as [|A A' l l' HA HF IH]; intros HU HP Hl; [congruence|].
  pose proof (Forall_inv HU) as E. pose proof (Forall_inv_tail HU) as HU'.
  pose proof (Forall_inv HP) as (P1 & P2). pose proof (Forall_inv_tail HP) as HP'.
  simpl. destruct l as [|C l].
  - inversion HF; subst. simpl.
    eapply BTeq_trans; [apply dkron_eq; [exact HA|apply BTeq_refl| | |]; simpl; try lia|].
    { rewrite (BTeq_bsh _ _ HA). simpl. destruct S'; reflexivity. }
    apply BTeq_intro; simpl.
    + apply bcast_nil_r.
    + reflexivity.
    + reflexivity.
    + rewrite bcast_nil_r. intros I i j HI _ _. ub. rewrite ?E, ?bcast_nil_r.
      rewrite (bproj_id S' I HI), (bproj_id S (phi I) (Hphi I HI)). reflexivity.
  - assert (Hne : C :: l <> []) by congruence.
    specialize (IH HU' HP' Hne).
    pose proof (kfold_shape _ _ HU' Hne) as ES. destruct (kfold_pos _ HP') as (Q1 & Q2).
    eapply BTeq_trans; [apply dkron_eq; [exact HA|exact IH| | |]|].
    + rewrite (BTeq_bsh _ _ HA), (BTeq_bsh _ _ IH). simpl. apply bcompat_refl.
    + rewrite (BTeq_nr _ _ IH). simpl. exact Q1.
    + rewrite (BTeq_nc _ _ IH). simpl. exact Q2.
    + apply dbmap_dkron; assumption.
Qed.
End Reindex.

(* ---- unsqueeze --------------------------------------------------------------------------------------------------------- *)

Lemma inb_ldelete S p I : (p <= length S)%nat -> inb (linsert S p 1%nat) I -> inb S (ldelete I p).
Proof.
  revert p I. induction S as [|d S IH]; intros p I Hp HI.
  - destruct p as [|p]; [|simpl in Hp; lia]. simpl in HI. destruct I as [|i I]; [contradiction|]. destruct HI as (_ & HI).
    destruct I; [exact I|contradiction].
  - destruct p as [|p]; simpl in *.
    + destruct I as [|i I]; [contradiction|]. destruct HI as (_ & HI). exact HI.
    + destruct I as [|i I]; [contradiction|]. destruct HI as (H1 & HI). simpl. split; [exact H1|]. apply IH; [lia|exact HI].
Qed.

Theorem alg_unsqueeze_correct e : forall p r,
  wf e -> (p <= length (batch e))%nat -> alg_unsqueeze e p = Ok r -> denote r == dunsqueeze (denote e) p.
Proof.
  induction e using Op_ind'; intros p r0 HW HP HX; simpl in HX; try discriminate.
  - (* Dense *) okinv HX. apply BTeq_refl.
  - (* Diag *) okinv HX. simpl. apply BTeq_intro; reflexivity.
  - (* CDiag *) okinv HX. simpl. apply BTeq_intro; reflexivity.
  - (* Ident *) okinv HX. simpl. apply BTeq_intro; reflexivity.
  - (* Zero *) okinv HX. simpl. apply BTeq_intro; reflexivity.
  - (* Tri *) apply wf_tri in HW. destruct HW as (HW & _). binv HX. okinv HX0. simpl. apply IHe; assumption.
  - (* RootC *)
    apply wf_rootc in HW.
    assert (HP' : (p <= length (batch e))%nat) by (unfold batch in *; simpl in HP; rewrite bcast_refl in HP; exact HP).
    binv HX. rewrite (mk_rootc_denote _ _ _ HX0). simpl.
    pose proof (IHe _ _ HW HP' E) as H1. rewrite dunsqueeze_dbmap in *.
    set (S := bsh (denote e)) in *. simpl bsh. rewrite bcast_refl. fold S.
    assert (Hphi : forall I, inb (linsert S p 1%nat) I -> inb S (ldelete I p)) by (intros; apply inb_ldelete; assumption).
    eapply BTeq_trans; [apply dmm_eq; [exact H1|apply dtr_eq; exact H1| |]|].
    + simpl. apply bcompat_refl.
    + reflexivity.
    + eapply BTeq_trans; [apply dmm_eq_r; [simpl; apply bcompat_refl|reflexivity|apply dbmap_dtr]|].
      apply (dbmap_dmm S); try reflexivity. exact Hphi.
  - (* KronC *)
    pose proof HW as HW0. apply wf_kronc in HW. destruct HW as (HW & Hne & HPo & S & HU).
    rewrite go_is_mapM in HX. binv HX. okinv HX0. apply mapM_Forall2 in E.
    assert (ES : batch (KronC k ops) = S) by (apply batch_kronc; assumption).
    rewrite !denote_kronc. rewrite dunsqueeze_dbmap.
    rewrite (kfold_shape S) by (assumption || (destruct ops; simpl; congruence)).
    assert (Hphi : forall I, inb (linsert S p 1%nat) I -> inb S (ldelete I p)) by (intros; apply inb_ldelete; [rewrite <- ES; assumption|assumption]).
    apply (kfold_dbmap S); try assumption; [destruct ops; simpl; congruence|].
    apply Forall2_map.
    apply (Forall2_from_IH (fun x => wf x /\ batch x = S) _ (fun x => alg_unsqueeze x p)); [| |exact E].
    + eapply Forall_impl; [|exact H]. simpl. intros x Hx r (W1 & W2) Hr.
      pose proof (Hx p r W1 ltac:(rewrite W2, <- ES; exact HP) Hr) as Q. rewrite dunsqueeze_dbmap in Q. unfold batch in W2. rewrite W2 in Q. exact Q.
    + rewrite Forall_forall in HW, HU. rewrite Forall_forall. intros x Hx. split; [auto|]. unfold batch. apply HU. apply in_map. exact Hx.
  - (* SumC *)
    pose proof HW as HW0. apply wf_sumc in HW. destruct HW as (HW & Hne & S & rr & cc & HU & _).
    assert (ES : batch (SumC k ops) = S) by (eapply batch_sumc; eassumption).
    rewrite go_is_mapM in HX. binv HX. apply mapM_Forall2 in E.
    assert (Hphi : forall I, inb (linsert S p 1%nat) I -> inb S (ldelete I p)) by (intros; apply inb_ldelete; [rewrite <- ES; assumption|assumption]).
    assert (HF : Forall2 (fun A A' => A' == dbmap (linsert S p 1%nat) (fun I => ldelete I p) A) (map denote ops) (map denote a)).
    { apply Forall2_map.
      apply (Forall2_from_IH (fun x => wf x /\ batch x = S) _ (fun x => alg_unsqueeze x p)); [| |exact E].
      - eapply Forall_impl; [|exact H]. simpl. intros x Hx r (W1 & W2) Hr.
        pose proof (Hx p r W1 ltac:(rewrite W2, <- ES; exact HP) Hr) as Q. rewrite dunsqueeze_dbmap in Q. unfold batch in W2. rewrite W2 in Q. exact Q.
      - rewrite Forall_forall in HW. unfold uniform in HU. rewrite Forall_forall in HU. rewrite Forall_forall. intros x Hx. split; [auto|].
        unfold batch. destruct (HU (denote x)) as (Q & _); [apply in_map; exact Hx|exact Q]. }
    assert (HUa : uniform (linsert S p 1%nat) rr cc (map denote a)).
    { eapply uniform_Forall2; [|apply (uniform_map_dbmap S (linsert S p 1%nat) (fun I => ldelete I p) _ _ _ HU)].
      clear -HF. induction HF; simpl; constructor; [apply BTeq_sym; assumption|assumption]. }
    eapply BTeq_trans; [eapply sumc_checks_denote; eassumption|].
    rewrite dunsqueeze_dbmap. fold (batch (SumC k ops)). rewrite ES. simpl denote.
    apply (dsuml_dbmap S _ _ Hphi rr cc); try assumption. destruct ops; simpl; congruence.
  - (* Matmul *)
    apply wf_matmul in HW. destruct HW as (HW1 & HW2 & EB & EC).
    assert (ES : batch (Matmul e1 e2) = batch e1).
    { unfold batch. simpl. change (bsh (denote e1)) with (batch e1). change (bsh (denote e2)) with (batch e2). rewrite <- EB. apply bcast_refl. }
    rewrite ES in HP.
    binv HX. binv HX0. okinv HX1. simpl.
    pose proof (IHe1 _ _ HW1 HP E) as H1. pose proof (IHe2 _ _ HW2 ltac:(rewrite <- EB; exact HP) E0) as H2.
    rewrite dunsqueeze_dbmap in *. simpl bsh. change (bsh (denote e1)) with (batch e1) in *. change (bsh (denote e2)) with (batch e2) in *.
    rewrite <- EB in *. rewrite bcast_refl.
    assert (Hphi : forall I, inb (linsert (batch e1) p 1%nat) I -> inb (batch e1) (ldelete I p)) by (intros; apply inb_ldelete; assumption).
    eapply BTeq_trans; [apply dmm_eq; [exact H1|exact H2| |]|].
    + rewrite (BTeq_bsh _ _ H1), (BTeq_bsh _ _ H2). simpl. apply bcompat_refl.
    + rewrite (BTeq_nr _ _ H2), (BTeq_nc _ _ H1). simpl. symmetry. exact EC.
    + apply (dbmap_dmm (batch e1)); try reflexivity; [exact Hphi|]. symmetry. exact EB.
  - (* CMul *)
    apply wf_cmul in HW. destruct HW as (HW & C1 & C2 & CS).
    assert (ES : batch (CMul e c) = batch e) by (unfold batch; simpl; apply bcast_sub_r; exact CS).
    rewrite ES in HP.
    binv HX. binv HX0. apply texpand_ok in E0. destruct E0 as (_ & ->). okinv HX1.
    pose proof (IHe _ _ HW HP E) as H1. rewrite dunsqueeze_dbmap in H1. change (bsh (denote e)) with (batch e) in H1.
    set (S := batch e) in *. set (S1 := linsert S p 1%nat) in *. set (phi := fun I : bidx => ldelete I p) in *.
    assert (Hphi : forall I, inb S1 I -> inb S (phi I)) by (intros; apply inb_ldelete; assumption).
    assert (X1 : dscale (denote e) c == dscale (denote e) (dexpand S c)).
    { apply BTeq_intro; simpl; try reflexivity.
      - fold (batch e). fold S. rewrite bcast_refl. apply bcast_sub_r. exact CS.
      - fold (batch e). fold S. rewrite (bcast_sub_r _ _ CS). intros I i j HI _ _. ub.
        fold (batch e). fold S. rewrite (bproj_id S I HI). reflexivity. }
    assert (X2 : dunsqueeze (denote (CMul e c)) p == dbmap S1 phi (dscale (denote e) (dexpand S c))).
    { rewrite dunsqueeze_dbmap. fold (batch (CMul e c)). rewrite ES. fold S. fold S1. fold phi.
      apply (dbmap_eq S S1 phi Hphi); [exact X1|]. simpl. fold (batch e). fold S. apply bcast_sub_r. exact CS. }
    eapply BTeq_trans; [|apply BTeq_sym; exact X2].
    simpl denote. rewrite ES. fold S. rewrite dunsqueeze_dbmap. simpl bsh. fold S1. fold phi.
    eapply BTeq_trans; [apply dscale_eq; [exact H1|]|].
    + rewrite (BTeq_bsh _ _ H1). simpl. apply bcompat_refl.
    + apply (dbmap_dscale S S1 phi Hphi); reflexivity.
Qed.
