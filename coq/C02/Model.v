(* C02.Model — executable transcription of the type-dispatching composition methods of linear_operator:
     __add__ / __sub__ / mul (-> _mul_constant / _mul_matrix) / div / matmul with an operator right-hand side,
     add_diagonal / add_jitter, _expand_batch, _unsqueeze_batch, _permute_batch, _transpose_nonbatch, _sum_batch
   Each [alg_o] returns the OBJECT the library builds (result Op), following the isinstance chains of
   operators/_linear_operator.py and the overrides in the class files.  Definitions only.

   Conventions: batch shapes innermost-first; a RAW tensor of any rank is a 1 x 1 [BT] whose batch shape is the full
   tensor shape (innermost-first: the last torch dimension is the head of the list).

   Result kinds:
     Ok r             the library returns the object r
     Err EShape       the library raises because the shapes do not fit
     Err ENotSupported the library raises a declared refusal
     Err EBug         the library raises something that is not a declared refusal (AttributeError of Zero * 2.0, the
                      constructor check tripping in ConstantDiag * batch-of-constants, ...): the transcribed defects
     Err ENotModelled the case needs a class-specific method that this model does not transcribe yet
     Err EInvalid     an operand of a program step violates the constructor invariants [wfb] (the library's constructors
                      establish them; the model re-checks them before every step of a program, see [guard])           *)
From Coq Require Import List ZArith Lia Bool Arith.
Import ListNotations.
Require Import C02.Sums C02.Batch C02.Tensor C02.Dense C02.Op.
Open Scope Z_scope.

Inductive err := EShape | ENotSupported | EBug | ENotModelled | EInvalid.
Inductive result (A : Type) : Type := Ok (a : A) | Err (e : err).
Arguments Ok {A} a.
Arguments Err {A} e.

Definition bind {A B} (x : result A) (f : A -> result B) : result B :=
  match x with Ok a => f a | Err e => Err e end.
Notation "x <- a ;; b" := (bind a (fun x => b)) (at level 61, a at next level, right associativity).

Fixpoint mapM {A B} (f : A -> result B) (l : list A) : result (list B) :=
  match l with
  | [] => Ok []
  | x :: r => match f x with
              | Ok y => match mapM f r with Ok r' => Ok (y :: r') | Err e => Err e end
              | Err e => Err e
              end
  end.

(* ---- raw tensors ----------------------------------------------------------------------------------------- *)

Definition rdim (r : BT) : nat := length (bsh r).
Definition rnumel (r : BT) : nat := bnumel (bsh r).
Definition rval (r : BT) (I : bidx) : Z := ent r I 0%nat 0%nat.
Definition mkraw (s : shape) (f : bidx -> Z) : BT := mkBT s 1 1 (fun I _ _ => f I).

(* a batched matrix as a raw tensor and back (rank >= 2) *)
Definition to_raw (A : BT) : BT := mkraw (nc A :: nr A :: bsh A) (fun I => match I with j :: i :: I' => ent A I' i j | _ => 0 end).
Definition of_raw (r : BT) : BT :=
  match bsh r with
  | c :: r' :: bs => mkBT bs r' c (fun I i j => rval r (j :: i :: I))
  | _ => dzero [] 0 0
  end.
(* the single value of a one-element tensor as a 0-d tensor ( .squeeze() ) *)
Definition rscalar (r : BT) : BT := mkraw [] (fun _ => rval r (map (fun _ => 0%nat) (bsh r))).
Definition zconst (z : Z) : BT := mkraw [] (fun _ => z).
(* other.view( *other.shape[:-2] ) for a tensor whose last two sizes are 1 *)
Definition rview_batch (r : BT) : BT := mkraw (tl (tl (bsh r))) (fun I => rval r (0%nat :: 0%nat :: I)).
(* t.unsqueeze(-1) *)
Definition runsq_last (r : BT) : BT := mkraw (1%nat :: bsh r) (fun I => rval r (tl I)).
(* drop a last dimension of size 1 *)
Definition rdrop_last (r : BT) : BT := mkraw (tl (bsh r)) (fun I => rval r (0%nat :: I)).
(* a column vector (batch x n x 1) as a raw tensor (batch..., n) and back *)
Definition col_to_raw (d : BT) : BT := mkraw (nr d :: bsh d) (fun I => match I with i :: I' => ent d I' i 0%nat | [] => 0 end).
Definition raw_to_col (r : BT) : BT :=
  match bsh r with
  | n :: bs => mkBT bs n 1 (fun I i _ => rval r (i :: I))
  | [] => dzero [] 0 0
  end.

(* elementwise raw operations with torch broadcasting of the full shapes *)
Definition rmul (a b : BT) : BT := dhad a b.
Definition radd (a b : BT) : BT := dadd a b.
Definition rcompat (a b : BT) : bool := bcompat (bsh a) (bsh b).

(* ---- operands ---------------------------------------------------------------------------------------------- *)

Inductive Arg := APy (z : Z) | ARaw (r : BT) | AOp (e : Op).

Definition fullshape (e : Op) : shape := cols e :: rows e :: batch e.

(* evaluate_kernel() is the identity on every class modelled here (AddedDiag re-adds its two parts: same value, and the
   result is never a DenseLinearOperator, which is all that _mul_matrix asks) *)
Definition evalk (e : Op) : Op := e.

(* ---- _transpose_nonbatch ------------------------------------------------------------------------------------ *)

Fixpoint alg_mT (e : Op) : result Op :=
  match e with
  | Dense t => Ok (Dense (dtr t))
  | Leaf LUser t => Ok (Leaf LUser (dtr t))
  | Diag _ | CDiag _ _ | Ident _ _ => Ok e
  | Zero b m n => Ok (Zero b n m)
  | Toep _ => Ok e
  | Tri b u => b' <- alg_mT b ;; Ok (Tri b' (negb u))
  | RootC _ _ => Ok e
  | KronC KKronDiag _ => Ok e
  | KronC k ops =>
      ops' <- (fix go (l : list Op) : result (list Op) :=
                 match l with
                 | [] => Ok []
                 | x :: r => match alg_mT x with
                             | Ok y => match go r with Ok r' => Ok (y :: r') | Err e => Err e end
                             | Err e => Err e
                             end
                 end) ops ;;
      Ok (KronC (match k with KKronTri _ => KKronTri false | _ => k end) ops')
  | SumC k ops =>
      ops' <- (fix go (l : list Op) : result (list Op) :=
                 match l with
                 | [] => Ok []
                 | x :: r => match alg_mT x with
                             | Ok y => match go r with Ok r' => Ok (y :: r') | Err e => Err e end
                             | Err e => Err e
                             end
                 end) ops ;;
      Ok (SumC k ops')
  | Matmul l r => l' <- alg_mT l ;; r' <- alg_mT r ;; Ok (Matmul r' l')
  | CMul b c => b' <- alg_mT b ;; Ok (CMul b' c)
  | _ => Err ENotModelled          (* Mul returns self (documented for symmetric operands only): not modelled *)
  end.

(* ---- _expand_batch -------------------------------------------------------------------------------------------- *)

Definition texpand (t : BT) (B : shape) : result BT :=      (* tensor.expand( *B, ... ) *)
  if bsub (bsh t) B then Ok (dexpand B t) else Err EShape.

(* class checks of the Sum-family constructors (the expansion of the arguments is done by the callers) *)
Definition sumc_checks (k : sumk) (ops : list Op) : result Op :=
  match k with
  | KSum | KPsdSum | KSumKron => match ops with [] => Err EBug | _ => Ok (SumC k ops) end
  | KAddedDiag | KKPAD | KLRRAD =>
      match ops with
      | [x; y] =>
          if match k with
             | KLRRAD => (is_diag x && negb (is_lrroot y)) || (is_diag y && negb (is_lrroot x))
             | _ => false
             end
          then Err EBug
          else if is_diag x && is_diag y then Err EBug
          else if is_diag x then Ok (SumC k [y; x])
          else if is_diag y then Ok (SumC k [x; y])
          else Err EBug
      | _ => Err EBug
      end
  end.

Fixpoint alg_expand (e : Op) (B : shape) : result Op :=
  match e with
  | Dense t => t' <- texpand t B ;; Ok (Dense t')
  | Diag d => d' <- texpand d B ;; Ok (Diag d')
  | CDiag c n => c' <- texpand c B ;; Ok (CDiag c' n)
  | Ident n _ => Ok (Ident n B)
  | Zero _ m n => Ok (Zero B m n)
  | Tri b u => match B with [] => Ok e | _ => b' <- alg_expand b B ;; Ok (Tri b' u) end
  | RootC k r => match B with [] => Ok e | _ => r' <- alg_expand r B ;; Ok (RootC k r') end
  | KronC k ops =>
      ops' <- (fix go (l : list Op) : result (list Op) :=
                 match l with
                 | [] => Ok []
                 | x :: r => match alg_expand x B with
                             | Ok y => match go r with Ok r' => Ok (y :: r') | Err e => Err e end
                             | Err e => Err e
                             end
                 end) ops ;;
      Ok (KronC (match k with KKronTri _ => KKronTri false | _ => k end) ops')
  | SumC k ops =>
      ops' <- (fix go (l : list Op) : result (list Op) :=
                 match l with
                 | [] => Ok []
                 | x :: r => match alg_expand x B with
                             | Ok y => match go r with Ok r' => Ok (y :: r') | Err e => Err e end
                             | Err e => Err e
                             end
                 end) ops ;;
      sumc_checks k ops'
  | Matmul l r => l' <- alg_expand l B ;; r' <- alg_expand r B ;; Ok (Matmul l' r')
  | CMul b c =>
      b' <- alg_expand b B ;;
      match B with
      | [] => Ok (CMul b' c)
      | _ => c' <- texpand c B ;; Ok (CMul b' c')
      end
  | _ => Err ENotModelled
  end.

(* Constructor invariants ([wfb], Op.v) are established by the library's constructors.  The model RE-CHECKS them where an
   object that it built itself is passed on (arguments of the Sum-family / Matmul constructors, operands of every program
   step) and answers Err EInvalid if one fails.  On objects the library can build the checks always pass: Check.v compares
   "model returns / library returns" on every generated case, so a failing re-check shows up as a disagreement.  The
   theorems may therefore use the invariants of intermediate objects without a separate closure proof. *)

(* `lt._expand_batch(shape) if lt.batch_shape != shape else lt` *)
Definition expand_to (e : Op) (B : shape) : result Op :=
  if shape_eqb (batch e) B then Ok e else alg_expand e B.

(* torch.broadcast_shapes over the batch shapes of a list of operators *)
Fixpoint bcast_all (l : list Op) : result shape :=
  match l with
  | [] => Ok []
  | x :: r => s <- bcast_all r ;; if bcompat (batch x) s then Ok (bcast (batch x) s) else Err EShape
  end.

(* SumLinearOperator.__init__ and its subclasses: broadcast the batch shapes, expand every argument, class checks *)
Definition mk_sumc (k : sumk) (ops : list Op) : result Op :=
  if negb (forallb wfb ops) then Err EInvalid else      (* invariant re-check of the arguments, see [guard] *)
  B <- bcast_all ops ;;
  ops' <- mapM (fun x => expand_to x B) ops ;;
  sumc_checks k ops'.

(* MatmulLinearOperator(l, r) after the shape check of LinearOperator.matmul *)
Definition mk_matmul (l r : Op) : result Op :=
  if negb (wfb l && wfb r) then Err EInvalid           (* invariant re-check of the arguments, see [guard] *)
  else if negb (Nat.eqb (cols l) (rows r)) then Err EShape
  else if negb (bcompat (batch l) (batch r)) then Err EShape
  else
    let B := bcast (batch l) (batch r) in
    l' <- expand_to l B ;; r' <- expand_to r B ;; Ok (Matmul l' r').

(* TriangularLinearOperator(x, upper) *)
Definition mk_tri (x : Op) (u : bool) : result Op :=
  match x with
  | Tri y _ => Ok (Tri y u)
  | _ => if is_diag x then Err EBug else Ok (Tri x u)
  end.

(* RootLinearOperator-family constructor *)
Definition mk_rootc (k : rootk) (r : Op) : result Op :=
  match k with
  | KChol => if is_tri r || is_kron r then Ok (RootC k r) else Err EBug
  | _ => Ok (RootC k r)
  end.

(* MulLinearOperator(l, r): _check_args demands equal shapes *)
Definition mk_mul (l r : Op) : result Op :=
  if shape_eqb (fullshape l) (fullshape r) then Ok (Mul l r) else Err ENotSupported.

(* ---- add_diagonal ------------------------------------------------------------------------------------------------ *)

(* diag is a raw tensor: rank 0, or (..., k) *)
Definition diag_last (d : BT) : nat := hd 1%nat (bsh d).

(* DiagLinearOperator.add_diagonal: broadcast self._diag (batch..., n) with diag *)
Definition diag_add_diagonal (selfdiag : BT) (d : BT) : result Op :=
  let s := col_to_raw selfdiag in
  if rcompat s d then Ok (Diag (raw_to_col (radd s d))) else Err EShape.

(* the DiagLinearOperator / ConstantDiagLinearOperator that LinearOperator.add_diagonal builds for `diag` *)
Definition base_diag_tensor (e : Op) (d : BT) : result Op :=
  let n := cols e in
  if (0 <? rdim d)%nat && negb (Nat.eqb (diag_last d) 1) then
    (* diag.expand(self.shape[:-1]) *)
    if bsub (bsh d) (n :: batch e) then Ok (Diag (raw_to_col (dexpand (n :: batch e) d))) else Err EShape
  else
    (* diag.expand( *self.batch_shape, 1 ) *)
    if bsub (bsh d) (1%nat :: batch e) then Ok (CDiag (rdrop_last (dexpand (1%nat :: batch e) d)) n) else Err EShape.

(* the variant used by KroneckerProductLinearOperator / LowRankRootLinearOperator.add_diagonal (no batch expansion of a
   constant diagonal) *)
Definition kron_diag_tensor (e : Op) (d : BT) : result Op :=
  let n := cols e in
  match bsh d with
  | [] => Ok (CDiag d n)                                        (* diag.unsqueeze(-1) *)
  | k :: _ =>
      if Nat.eqb k 1 then Ok (CDiag (rdrop_last d) n)
      else if bsub (bsh d) (n :: batch e) then Ok (Diag (raw_to_col (dexpand (n :: batch e) d))) else Err EShape
  end.

(* ZeroLinearOperator.add_diagonal *)
Definition zero_add_diagonal (b : shape) (m n : nat) (d : BT) : result Op :=
  if negb (Nat.eqb m n) then Err ENotSupported
  else
    let target : option shape :=
      match b with
      | [b0] =>                                               (* ndimension() == 3: expand to (size(0), size(1)) *)
          match rdim d with
          | 0%nat | 1%nat | 2%nat => Some [m; b0]
          | _ => None
          end
      | _ =>                                                  (* expand to (size(0),) *)
          match rdim d with
          | 0%nat | 1%nat => Some [match b with [] => m | _ => last b 0%nat end]
          | _ => None
          end
      end in
    match target with
    | None => Err EBug
    | Some T =>
        if bsub (bsh d) T then
          let res := Diag (raw_to_col (dexpand T d)) in
          if shape_eqb (fullshape res) (n :: m :: b) then Ok res else Err EBug
        else Err EBug
    end.

Fixpoint alg_add_diagonal (e : Op) (d : BT) : result Op :=
  match e with
  | Diag _ | CDiag _ _ | Ident _ _ | KronC KKronDiag _ => diag_add_diagonal (diag_of e) d
  | Zero b m n => zero_add_diagonal b m n d
  | Tri b u => b' <- alg_add_diagonal b d ;; mk_tri b' u
  | SumC KAddedDiag [l; dg] => dg' <- alg_add_diagonal dg d ;; mk_sumc KAddedDiag [l; dg']
  | SumC KKPAD [l; dg] => dg' <- alg_add_diagonal dg d ;; mk_sumc KKPAD [l; dg']
  | SumC KLRRAD [l; dg] => dg' <- alg_add_diagonal dg d ;; mk_sumc KLRRAD [l; dg']
  | KronC _ _ =>
      if negb (Nat.eqb (rows e) (cols e)) then Err ENotSupported
      else dt <- kron_diag_tensor e d ;; mk_sumc KKPAD [e; dt]
  | RootC KLRRoot _ =>
      if negb (Nat.eqb (rows e) (cols e)) then Err ENotSupported
      else dt <- kron_diag_tensor e d ;; mk_sumc KLRRAD [e; dt]
  | Toep _ | BRepeat _ _ => Err ENotModelled           (* add_jitter overrides; add_diagonal itself is the base one *)
  | _ =>
      if negb (Nat.eqb (rows e) (cols e)) then Err ENotSupported
      else dt <- base_diag_tensor e d ;; mk_sumc KAddedDiag [e; dt]
  end.

Definition alg_add_jitter (e : Op) (v : Z) : result Op :=
  match e with
  | Toep _ | BRepeat _ _ => Err ENotModelled
  | _ => alg_add_diagonal e (zconst v)
  end.

(* ---- mul -> _mul_constant / _mul_matrix ----------------------------------------------------------------------------- *)

Definition all_pos (c : BT) : bool := dall (fun z => 0 <? z) c.

(* ConstantDiagLinearOperator._mul_constant: ConstantDiag(self.diag_values * other): diag_values is (batch..., 1), other is
   (cb...): torch aligns the trailing 1 with the LAST dimension of other; the constructor then demands size(-1) == 1 *)
Definition cdiag_mul_constant (c0 : BT) (n : nat) (c : BT) : result Op :=
  let dv := runsq_last c0 in
  if rcompat dv c then
    let p := rmul dv c in
    match bsh p with
    | k :: _ => if Nat.eqb k 1 then Ok (CDiag (rdrop_last p) n) else Err EBug
    | [] => Err EBug
    end
  else Err EBug.

(* _mul_matrix *)
Definition diag_mul_matrix (e o : Op) : result Op :=
  let a := col_to_raw (diag_of e) in
  let b := col_to_raw (ddiagonal (denote o)) in
  if rcompat a b then Ok (Diag (raw_to_col (rmul a b))) else Err EShape.

Definition dmul_full (A B : BT) : BT := of_raw (rmul (to_raw A) (to_raw B)).
Definition dadd_full (A B : BT) : BT := of_raw (radd (to_raw A) (to_raw B)).

Definition alg_mul_matrix (e o : Op) : result Op :=
  match e with
  | Ident _ _ => Ok o
  | CDiag c n =>
      if is_cdiag o then
        if Nat.eqb n (cols o) then
          if bcompat (bsh c) (bsh (cvals_of o)) then Ok (CDiag (dhad c (cvals_of o)) n) else Err EShape
        else Err EShape
      else diag_mul_matrix e o
  | Diag _ | KronC KKronDiag _ => diag_mul_matrix e o
  | _ =>
      let e' := evalk e in let o' := evalk o in
      if is_dense e' || is_dense o' then
        if bcompat (fullshape e) (fullshape o) then Ok (Dense (dmul_full (denote e) (denote o))) else Err EShape
      else mk_mul e' o'
  end.

(* LinearOperator.mul, parametrised by the object's own _mul_constant *)
Definition mul_dispatch (mc : BT -> result Op) (self : Op) (a : Arg) : result Op :=
  match a with
  | AOp o =>
      if is_zero o then Ok o
      else if bcompat (fullshape self) (fullshape o) then alg_mul_matrix self o else Err EShape
  | APy z => mc (zconst z)
  | ARaw r =>
      if bcompat (fullshape self) (bsh r) then
        if Nat.eqb (rnumel r) 1 then mc (rscalar r)
        else if (2 <=? rdim r)%nat && Nat.eqb (nth 0 (bsh r) 0%nat) 1 && Nat.eqb (nth 1 (bsh r) 0%nat) 1
                && shape_eqb (batch self) (tl (tl (bcast (fullshape self) (bsh r))))
        then mc (rview_batch r)
        else if (rdim r <? 2)%nat then Err ENotSupported
        else alg_mul_matrix self (Dense (of_raw r))
      else Err EShape
  end.

Fixpoint alg_mul_constant (e : Op) (c : BT) : result Op :=
  match e with
  | Diag d => if bcompat (bsh d) (bsh c) then Ok (Diag (dscale d c)) else Err EShape
  | KronC KKronDiag _ => if bcompat (batch e) (bsh c) then Ok (Diag (dscale (diag_of e) c)) else Err EShape
  | CDiag c0 n => cdiag_mul_constant c0 n c
  | Ident n b => cdiag_mul_constant (dones b 1 1) n c
  | Tri b u => r <- mul_dispatch (alg_mul_constant b) b (ARaw (runsq_last c)) ;; mk_tri r u
  | RootC k r =>
      if all_pos c then r' <- alg_mul_constant r (dmap Z.sqrt c) ;; mk_rootc k r'
      else Ok (CMul e c)
  | SumC k ops =>
      let go := (fix go (l : list Op) : result (list Op) :=
                   match l with
                   | [] => Ok []
                   | x :: r => match alg_mul_constant x c with
                               | Ok y => match go r with Ok r' => Ok (y :: r') | Err e => Err e end
                               | Err e => Err e
                               end
                   end) in
      match k with
      | KLRRAD =>
          if (1 <? rnumel c)%nat then Err EBug               (* `if other > 0` on a tensor with several elements *)
          else if all_pos c then ops' <- go ops ;; mk_sumc KLRRAD ops'
          else ops' <- go ops ;; mk_sumc KAddedDiag ops'
      | _ => ops' <- go ops ;; mk_sumc k ops'
      end
  | Mul l r =>
      if (1 <? rnumel c)%nat then Err EBug
      else if all_pos c then l' <- alg_mul_constant l c ;; mk_mul l' r
      else Ok (CMul e c)
  | BlockDiag b => Ok (BlockDiag (CMul b c))
  | BlockInter b => Ok (BlockInter (CMul b c))
  | Interp _ _ _ _ _ => Err ENotModelled
  | _ => Ok (CMul e c)
  end.

Definition alg_mul (e : Op) (a : Arg) : result Op :=
  match e with
  | Zero b m n =>                                             (* ZeroLinearOperator.mul: other.shape *)
      match a with
      | APy _ => Err EBug
      | ARaw r => if bcompat (fullshape e) (bsh r) then
                    match bcast (fullshape e) (bsh r) with
                    | c :: r' :: bs => Ok (Zero bs r' c)
                    | _ => Err EBug
                    end
                  else Err EShape
      | AOp o => if bcompat (fullshape e) (fullshape o) then
                   match bcast (fullshape e) (fullshape o) with
                   | c :: r' :: bs => Ok (Zero bs r' c)
                   | _ => Err EBug
                   end
                 else Err EShape
      end
  | _ => mul_dispatch (alg_mul_constant e) e a
  end.

(* div: ZeroLinearOperator refuses / returns itself; otherwise mul by the reciprocal 1.0 / other, which is computed by
   torch's float division and is an INPUT of the model ([rc]) *)
Definition alg_div (e : Op) (a : Arg) (rc : Arg) : result Op :=
  match a with
  | AOp o => if is_zero o then Err ENotSupported else Err ENotModelled
  | _ => match e with Zero _ _ _ => Ok e | _ => alg_mul e rc end
  end.

(* ---- __add__ -------------------------------------------------------------------------------------------------------- *)

Definition root_of (e : Op) : Op := match e with RootC _ r => r | _ => e end.

(* LinearOperator.__add__ (the base-class chain) *)
Definition base_add (e : Op) (a : Arg) : result Op :=
  match a with
  | AOp o =>
      if is_zero o then Ok e
      else if is_diag o then mk_sumc KAddedDiag [e; o]
      else if is_root o then                                  (* self.add_low_rank(other.root): value = self + R R^T *)
        let R := root_of o in
        Rt <- alg_mT R ;; lr <- mk_matmul R Rt ;; mk_sumc KSum [e; lr]
      else mk_sumc KSum [e; o]
  | ARaw r =>
      if (rdim r <? 2)%nat then Err ENotSupported
      else if bcompat (fullshape e) (bsh r) then mk_sumc KSum [e; Dense (of_raw r)] else Err EShape
  | APy z => if Z.eqb z 0 then Ok e else Err ENotSupported
  end.

Definition cdiag_add (e o : Op) : result Op :=                (* ConstantDiag + ConstantDiag *)
  if Nat.eqb (cols o) (cols e) then
    if bcompat (bsh (cvals_of e)) (bsh (cvals_of o)) then Ok (CDiag (dadd (cvals_of e) (cvals_of o)) (cols e)) else Err EShape
  else Err EShape.

Definition diag_add (e : Op) (a : Arg) : result Op :=         (* DiagLinearOperator.__add__ *)
  match a with
  | AOp o => if is_diag o then alg_add_diagonal e (col_to_raw (diag_of o)) else mk_sumc KAddedDiag [o; e]
  | ARaw r => if (rdim r <? 2)%nat then Err ENotSupported else mk_sumc KAddedDiag [Dense (of_raw r); e]
  | APy _ => Err ENotSupported
  end.

Definition any_diag_add (e : Op) (a : Arg) : result Op :=
  match e, a with
  | (CDiag _ _ | Ident _ _), AOp o => if is_cdiag o then cdiag_add e o else diag_add e a
  | _, _ => diag_add e a
  end.

Fixpoint alg_add (e : Op) (a : Arg) : result Op :=
  match e with
  | Zero _ _ _ =>
      match a with
      | AOp o => Ok o
      | ARaw r => if (rdim r <? 2)%nat then Err ENotModelled else Ok (Dense (of_raw r))
      | APy _ => Err ENotModelled
      end
  | Dense t =>
      match a with
      | AOp (Dense t') => if bcompat (fullshape e) (fullshape (Dense t')) then Ok (Dense (dadd_full t t')) else Err EShape
      | ARaw r => if bcompat (fullshape e) (bsh r) then Ok (Dense (of_raw (radd (to_raw t) r))) else Err EShape
      | _ => base_add e a
      end
  | Diag _ | CDiag _ _ | Ident _ _ | KronC KKronDiag _ => any_diag_add e a
  | Tri b u =>
      match a with
      | AOp o =>
          if is_diag o then inner <- mk_sumc KAddedDiag [b; o] ;; mk_tri inner u
          else match o with
               | Tri b' u' => if Bool.eqb u u' then s <- alg_add b (AOp b') ;; mk_tri s u else alg_add b a
               | _ => alg_add b a
               end
      | _ => alg_add b a
      end
  | SumC KAddedDiag [l; d] =>
      match a with
      | AOp o => if is_diag o then d' <- any_diag_add d a ;; mk_sumc KAddedDiag [l; d']
                 else l' <- alg_add l a ;; mk_sumc KAddedDiag [l'; d]
      | _ => l' <- alg_add l a ;; mk_sumc KAddedDiag [l'; d]
      end
  | SumC KKPAD [l; d] =>
      match a with
      | AOp o => if is_diag o then d' <- any_diag_add d a ;; mk_sumc KKPAD [l; d']
                 else l' <- alg_add l a ;; mk_sumc KKPAD [l'; d]
      | _ => l' <- alg_add l a ;; mk_sumc KKPAD [l'; d]
      end
  | SumC KLRRAD [l; d] =>
      match a with
      | AOp o => if is_diag o then d' <- any_diag_add d a ;; mk_sumc KLRRAD [l; d']
                 else l' <- alg_add l a ;; mk_sumc KAddedDiag [l'; d]
      | _ => l' <- alg_add l a ;; mk_sumc KAddedDiag [l'; d]
      end
  | SumC k ops =>
      match a with
      | AOp o =>
          if is_zero o then Ok e
          else if is_diag o then mk_sumc KAddedDiag [e; o]
          else match o with
               | SumC _ ops' => mk_sumc KSum (ops ++ ops')
               | _ => mk_sumc KSum (ops ++ [o])
               end
      | ARaw r =>
          if (rdim r <? 2)%nat then Err ENotSupported
          else if bcompat (fullshape e) (bsh r) then
            let S := bcast (fullshape e) (bsh r) in
            ne <- (if shape_eqb S (fullshape e) then Ok e else alg_expand e (tl (tl S))) ;;
            match ne with
            | SumC _ nops => mk_sumc KSum (nops ++ [Dense (of_raw (dexpand S r))])
            | _ => Err EBug
            end
          else Err EShape
      | APy _ => Err ENotSupported
      end
  | RootC KLRRoot _ =>
      match a with
      | AOp o => if is_diag o then mk_sumc KLRRAD [e; o] else base_add e a
      | _ => base_add e a
      end
  | KronC _ _ =>
      match a with
      | AOp o =>
          if is_krondiag o || is_cdiag o then mk_sumc KKPAD [e; o]
          else if is_kron o then mk_sumc KSumKron [e; o]
          else if is_diag o then alg_add_diagonal e (col_to_raw (diag_of o))
          else base_add e a
      | _ => base_add e a
      end
  | _ => base_add e a
  end.

(* __sub__ : self + other.mul(-1) *)
Definition alg_sub (e : Op) (a : Arg) : result Op :=
  match a with
  | AOp o => no <- alg_mul o (APy (-1)) ;; alg_add e (AOp no)
  | ARaw r => alg_add e (ARaw (dneg r))
  | APy _ => Err ENotSupported
  end.
(* __rsub__ : self.mul(-1) + other *)
Definition alg_rsub (e : Op) (a : Arg) : result Op :=
  ne <- alg_mul e (APy (-1)) ;; alg_add ne a.

(* ---- matmul with an operator right-hand side ---------------------------------------------------------------------------- *)

(* d.view( *base.shape[:-1] ): a diagonal of length k*m (batch bs) cut into k diagonals of length m (batch k :: bs) *)
Definition dview_blocks (d : BT) (k m : nat) : BT :=
  mkBT (k :: bsh d) m 1 (fun I i _ => match I with a :: I' => ent d I' (a * m + i)%nat 0%nat | [] => 0 end).

(* DiagLinearOperator.matmul(tensor): diag.unsqueeze(-1) * other *)
Definition diag_times_dense (dg t : BT) : BT :=
  mkBT (bcast (bsh dg) (bsh t)) (nr t) (nc t) (fun I i j => bget dg I i 0%nat * bget t I i j).

Fixpoint diag_matmul (selfdiag : BT) (self : Op) (o : Op) : result Op :=
  match o with
  | Dense t => if bcompat (bsh selfdiag) (bsh t) && Nat.eqb (nr selfdiag) (nr t) then Ok (Dense (diag_times_dense selfdiag t)) else Err EShape
  | Tri b u => r <- diag_matmul selfdiag self b ;; mk_tri r u
  | BlockDiag b =>
      (* diag_reshape = self._diag.view( *other.base_linear_op.shape[:-1] ); BlockDiag(Diag(diag_reshape) @ other.base_linear_op) *)
      match batch b with
      | k :: bs =>
          if shape_eqb (bsh selfdiag) bs && Nat.eqb (nr selfdiag) (k * rows b) then
            let d' := dview_blocks selfdiag k (rows b) in
            r <- diag_matmul d' (Diag d') b ;; Ok (BlockDiag r)
          else Err EBug
      | [] => Err EBug
      end
  | _ =>
      if is_diag o then
        let a := col_to_raw selfdiag in let b := col_to_raw (diag_of o) in
        if rcompat a b then Ok (Diag (raw_to_col (rmul a b))) else Err EShape
      else mk_matmul self o
  end.

Fixpoint alg_matmul (e o : Op) {struct e} : result Op :=
  match e with
  | Zero b m n => if Nat.eqb n (rows o) then Ok (Zero (batch o) m (cols o)) else Err EShape
  | Ident n b =>
      if shape_eqb b (batch o) then Ok o
      else if bcompat (batch o) b then alg_expand o (bcast (batch o) b) else Err EShape
  | CDiag c n =>
      if is_cdiag o then alg_mul_matrix e o else diag_matmul (diag_of e) e o
  | Diag _ | KronC KKronDiag _ => diag_matmul (diag_of e) e o
  | BlockDiag b =>
      (* BlockDiagLinearOperator.matmul: block by block against another BlockDiag with the same base shape; against a Diag-class
         operator the diagonal is cut into one diagonal per block ( .view ); otherwise the base-class matmul *)
      match o with
      | BlockDiag b' =>
          if shape_eqb (fullshape b) (fullshape b') then r <- alg_matmul b b' ;; Ok (BlockDiag r) else mk_matmul e o
      | _ =>
          if is_diag o then
            match batch b with
            | k :: bs =>
                if shape_eqb (batch o) bs && Nat.eqb (rows o) (k * cols b) then
                  r <- alg_matmul b (Diag (dview_blocks (diag_of o) k (cols b))) ;; Ok (BlockDiag r)
                else Err EBug
            | [] => Err EBug
            end
          else mk_matmul e o
      end
  | Interp _ _ _ _ _ => Err ENotModelled
  | _ => mk_matmul e o
  end.

(* ---- batch rewrites --------------------------------------------------------------------------------------------------------- *)

(* _unsqueeze_batch at innermost-first position p (torch dimension len(batch) - p) *)
Fixpoint alg_unsqueeze (e : Op) (p : nat) : result Op :=
  match e with
  | Dense t => Ok (Dense (dunsqueeze t p))
  | Diag d => Ok (Diag (dunsqueeze d p))
  | CDiag c n => Ok (CDiag (dunsqueeze c p) n)
  | Ident n b => Ok (Ident n (linsert b p 1%nat))
  | Zero b m n => Ok (Zero (linsert b p 1%nat) m n)
  | Tri b u => b' <- alg_unsqueeze b p ;; Ok (Tri b' u)
  | RootC k r => r' <- alg_unsqueeze r p ;; mk_rootc k r'
  | KronC k ops =>
      ops' <- (fix go (l : list Op) : result (list Op) :=
                 match l with
                 | [] => Ok []
                 | x :: r => match alg_unsqueeze x p with
                             | Ok y => match go r with Ok r' => Ok (y :: r') | Err e => Err e end
                             | Err e => Err e
                             end
                 end) ops ;;
      Ok (KronC (match k with KKronTri _ => KKronTri false | _ => k end) ops')
  | SumC k ops =>
      ops' <- (fix go (l : list Op) : result (list Op) :=
                 match l with
                 | [] => Ok []
                 | x :: r => match alg_unsqueeze x p with
                             | Ok y => match go r with Ok r' => Ok (y :: r') | Err e => Err e end
                             | Err e => Err e
                             end
                 end) ops ;;
      sumc_checks k ops'
  | Matmul l r => l' <- alg_unsqueeze l p ;; r' <- alg_unsqueeze r p ;; Ok (Matmul l' r')
  | CMul b c =>
      (* ConstantMul._unsqueeze_batch expands base and constant to self.batch_shape first; for the base that is its own
         batch shape (constructor invariant), an identity that is elided here *)
      b' <- alg_unsqueeze b p ;;
      c0 <- texpand c (batch e) ;;
      Ok (CMul b' (dunsqueeze c0 p))
  | _ => Err ENotModelled
  end.

(* _permute_batch: new innermost-first position k carries old position (nth k perm) *)
Fixpoint alg_permute (e : Op) (perm : list nat) : result Op :=
  match e with
  | Dense t => Ok (Dense (dpermute t perm))
  | Diag d => Ok (Diag (dpermute d perm))
  | CDiag c n => Ok (CDiag (dpermute c perm) n)
  | Ident n b => Ok (Ident n (lperm perm b 1%nat))
  | Zero b m n => Ok e                                        (* base method on integer arguments: nothing moves *)
  | Tri b u => b' <- alg_permute b perm ;; Ok (Tri b' u)
  | RootC k r => r' <- alg_permute r perm ;; mk_rootc k r'
  | KronC k ops =>
      ops' <- (fix go (l : list Op) : result (list Op) :=
                 match l with
                 | [] => Ok []
                 | x :: r => match alg_permute x perm with
                             | Ok y => match go r with Ok r' => Ok (y :: r') | Err e => Err e end
                             | Err e => Err e
                             end
                 end) ops ;;
      Ok (KronC (match k with KKronTri _ => KKronTri false | _ => k end) ops')
  | SumC k ops =>
      ops' <- (fix go (l : list Op) : result (list Op) :=
                 match l with
                 | [] => Ok []
                 | x :: r => match alg_permute x perm with
                             | Ok y => match go r with Ok r' => Ok (y :: r') | Err e => Err e end
                             | Err e => Err e
                             end
                 end) ops ;;
      sumc_checks k ops'
  | Matmul l r => l' <- alg_permute l perm ;; r' <- alg_permute r perm ;; Ok (Matmul l' r')
  | CMul b c =>
      b' <- alg_permute b perm ;;
      c0 <- texpand c (batch e) ;;
      Ok (CMul b' (dpermute c0 perm))
  | _ => Err ENotModelled
  end.

(* LinearOperator._sum_batch: SumBatchLinearOperator(self, block_dim=dim).  The Block constructor moves the block dimension to
   the last batch position (innermost position 0) with _permute_batch, keeping the order of the others *)
Definition move_perm (n p : nat) : list nat := p :: (seq 0 p ++ seq (S p) (n - S p)).
Definition base_sum_batch (e : Op) (p : nat) : result Op :=
  match batch e with
  | [] => Err EShape                                          (* base_linear_op must be a batch matrix *)
  | _ => if Nat.eqb p 0 then Ok (SumBatch e)
         else e' <- alg_permute e (move_perm (length (batch e)) p) ;; Ok (SumBatch e')
  end.

(* _sum_batch over innermost-first position p *)
Fixpoint alg_sum_batch (e : Op) (p : nat) : result Op :=
  match e with
  | Dense t => Ok (Dense (dsumdim t p))
  | Diag d => Ok (Diag (dsumdim d p))
  | CDiag c n => Ok (CDiag (dsumdim c p) n)
  | Ident n b => Ok (CDiag (dsumdim (dones b 1 1) p) n)
  | KronC KKronDiag _ => Err EBug                             (* self.__class__(tensor): constructor refuses *)
  | Zero b m n => Ok (Zero (ldelete b p) m n)
  | Tri b u => b' <- alg_sum_batch b p ;; mk_tri b' u
  | SumC KLRRAD _ => base_sum_batch e p                       (* SumBatchLinearOperator(self, dim) *)
  | SumC k ops =>
      ops' <- (fix go (l : list Op) : result (list Op) :=
                 match l with
                 | [] => Ok []
                 | x :: r => match alg_sum_batch x p with
                             | Ok y => match go r with Ok r' => Ok (y :: r') | Err e => Err e end
                             | Err e => Err e
                             end
                 end) ops ;;
      mk_sumc k ops'
  | Interp _ _ _ _ _ => Err ENotModelled                      (* own override *)
  | _ => base_sum_batch e p
  end.

(* transpose(d1, d2) of two batch dimensions: _permute_batch with the two positions swapped; ZeroLinearOperator overrides
   transpose and swaps its sizes itself *)
Definition swap_perm (n p q : nat) : list nat :=
  map (fun k => if Nat.eqb k p then q else if Nat.eqb k q then p else k) (seq 0 n).
Definition alg_transpose_batch (e : Op) (p q : nat) : result Op :=
  match e with
  | Zero b m n => Ok (Zero (lperm (swap_perm (length b) p q) b 1%nat) m n)
  | _ => alg_permute e (swap_perm (length (batch e)) p q)
  end.

(* public wrappers *)
Definition alg_expand_pub (e : Op) (B : shape) : result Op := alg_expand e B.

(* ---- programs ---------------------------------------------------------------------------------------------------------------- *)

Inductive binop := BAdd | BSub | BMul | BMatmul.

Inductive Prog :=
| PLeaf (e : Op)
| PBin (o : binop) (a b : Prog)                 (* a o b, both operators *)
| PBinT (o : binop) (a : Prog) (t : Arg)        (* a o t, t a python number or a tensor ([AOp] is not used here) *)
| PRBinT (o : binop) (t : Arg) (a : Prog)       (* t o a *)
| PDiv (a : Prog) (t rc : Arg)                  (* a / t, rc = 1.0 / t *)
| PExpand (a : Prog) (B : shape)
| PUnsqueeze (a : Prog) (p : nat)
| PPermute (a : Prog) (perm : list nat)
| PTransposeB (a : Prog) (p q : nat)
| PmT (a : Prog)
| PSumBatch (a : Prog) (p : nat)
| PAddDiagonal (a : Prog) (d : BT)
| PAddJitter (a : Prog) (v : Z).

Definition step_bin (o : binop) (x : Op) (a : Arg) : result Op :=
  match o with
  | BAdd => alg_add x a
  | BSub => alg_sub x a
  | BMul => alg_mul x a
  | BMatmul => match a with AOp y => alg_matmul x y | _ => Err ENotModelled end
  end.

Definition step_rbin (o : binop) (a : Arg) (x : Op) : result Op :=
  match o with
  | BAdd => alg_add x a                        (* __radd__ : self + other *)
  | BSub => alg_rsub x a                       (* __rsub__ *)
  | BMul => alg_mul x a                        (* __rmul__ : self.mul(other) *)
  | BMatmul => Err ENotModelled
  end.

(* every step of a program re-checks the constructor invariants of its operator operands: objects built by the
   library satisfy them (Check.v tests this on every generated case, code 5), the theorems use them *)
Definition guard {A} (x : Op) (k : result A) : result A := if wfb x then k else Err EInvalid.

Fixpoint eval_alg (p : Prog) : result Op :=
  match p with
  | PLeaf e => Ok e
  | PBin o a b => x <- eval_alg a ;; y <- eval_alg b ;; guard x (guard y (step_bin o x (AOp y)))
  | PBinT o a t => x <- eval_alg a ;; guard x (step_bin o x t)
  | PRBinT o t a => x <- eval_alg a ;; guard x (step_rbin o t x)
  | PDiv a t rc => x <- eval_alg a ;; guard x (alg_div x t rc)
  | PExpand a B => x <- eval_alg a ;; guard x (alg_expand_pub x B)
  | PUnsqueeze a q => x <- eval_alg a ;; guard x (alg_unsqueeze x q)
  | PPermute a perm => x <- eval_alg a ;; guard x (alg_permute x perm)
  | PTransposeB a p q => x <- eval_alg a ;; guard x (alg_transpose_batch x p q)
  | PmT a => x <- eval_alg a ;; guard x (alg_mT x)
  | PSumBatch a q => x <- eval_alg a ;; guard x (alg_sum_batch x q)
  | PAddDiagonal a d => x <- eval_alg a ;; guard x (alg_add_diagonal x d)
  | PAddJitter a v => x <- eval_alg a ;; guard x (alg_add_jitter x v)
  end.
