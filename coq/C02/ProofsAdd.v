(* C02.ProofsAdd — the type-dispatching __add__ (operator + operator): every branch of the base-class chain and of the
   overrides in Dense, Diag, ConstantDiag / Identity, Triangular, the Sum family (Sum, PsdSum, SumKronecker, AddedDiag,
   KroneckerProductAddedDiag, LowRankRootAddedDiag), LowRankRoot and the Kronecker family returns an object that denotes the
   broadcast sum of the two matrices. *)
From Coq Require Import List ZArith Lia Bool Arith.
Import ListNotations.
Require Import C02.Sums C02.Batch C02.Tensor C02.Dense C02.Op C02.Model C02.Spec.
Require Import C02.ProofsDense C02.ProofsBase C02.ProofsExpand C02.ProofsCtor C02.ProofsMT C02.ProofsMatmul C02.ProofsRaw.
Open Scope Z_scope.

(* ZeroLinearOperator is absorbed WITHOUT broadcasting (findings C02-zero-add-returns-other, C02-add-zero-returns-self):
   the theorem asks that no Zero sits where __add__ would return the other operand as it is ... *)
Fixpoint zpath (e : Op) : bool :=
  match e with
  | Zero _ _ _ => false
  | Tri b _ => zpath b
  | SumC (KAddedDiag | KKPAD | KLRRAD) (l :: _) => zpath l
  | _ => true
  end.
(* ... unless its batch shape already broadcasts into the other operand's *)
Definition zok (e o : Op) : bool := if is_zero o then bsub (batch o) (batch e) else true.

Lemma mk_sumc2_compat k x y r : mk_sumc k [x; y] = Ok r -> bcompat (batch x) (batch y) = true.
Proof.
  unfold mk_sumc. destruct (forallb wfb [x; y]); simpl; [|discriminate].
  destruct (bcompat (batch y) []) eqn:E0; simpl; [|discriminate].
  rewrite bcast_nil_r. destruct (bcompat (batch x) (batch y)); [reflexivity|discriminate].
Qed.

Lemma mk_sumc2_correct k x y r :
  rows y = rows x -> cols y = cols x -> mk_sumc k [x; y] = Ok r ->
  denote r == dadd (denote x) (denote y) /\ bcompat (batch x) (batch y) = true.
Proof.
  intros Hr Hc H. split; [|eapply mk_sumc2_compat; eassumption].
  eapply BTeq_trans; [apply (mk_sumc_correct k [x; y] r (rows x) (cols x)); [congruence| |exact H]|].
  - repeat constructor; assumption.
  - simpl. apply dsuml2.
Qed.

(* ---- Diag family ------------------------------------------------------------------------------------------------------- *)

Lemma raw_col_add d d' : nr d = nr d' ->
  ddiag (raw_to_col (radd (col_to_raw d) (col_to_raw d'))) == dadd (ddiag d) (ddiag d').
Proof.
  intros HR. unfold raw_to_col, radd, col_to_raw, mkraw. simpl.
  apply BTeq_intro; simpl; try reflexivity.
  - destruct (Nat.eqb_spec (nr d) 1); congruence.
  - destruct (Nat.eqb_spec (nr d) 1); congruence.
  - intros I i j HI Hi Hj. ub. rewrite <- HR. revert Hi Hj.
    destruct (Nat.eqb_spec (nr d) 1) as [E1|N1]; intros Hi Hj.
    + assert (i = 0)%nat by lia. assert (j = 0)%nat by lia. subst. simpl. ring.
    + destruct (Nat.eqb i j); ring.
Qed.

Lemma diag_add_diag e o r :
  wf e -> is_diag e = true -> wf o -> is_diag o = true -> rows o = rows e ->
  alg_add_diagonal e (col_to_raw (diag_of o)) = Ok r ->
  denote r == dadd (denote e) (denote o) /\ bcompat (batch e) (batch o) = true.
Proof.
  intros HE DE HO DO HR HX.
  assert (HX' : diag_add_diagonal (diag_of e) (col_to_raw (diag_of o)) = Ok r).
  { destruct e; simpl in DE; try discriminate; try exact HX. destruct k; try discriminate. exact HX. }
  clear HX. unfold diag_add_diagonal in HX'.
  destruct (rcompat (col_to_raw (diag_of e)) (col_to_raw (diag_of o))) eqn:C; [|discriminate]. okinv HX'.
  destruct (diag_of_shape _ DE) as (S1 & R1). destruct (diag_of_shape _ DO) as (S2 & R2).
  assert (EN : nr (diag_of e) = nr (diag_of o)) by congruence.
  assert (CB : bcompat (batch e) (batch o) = true).
  { unfold rcompat in C. simpl in C. rewrite andb_true_iff in C. destruct C as (_ & C). rewrite <- S1, <- S2. exact C. }
  split; [|exact CB].
  simpl denote at 1. eapply BTeq_trans; [apply raw_col_add; exact EN|].
  apply BTeq_sym. apply dadd_eq; try (apply diag_of_correct; assumption); try assumption.
  - unfold rows in HR. congruence.
  - destruct (diag_is_diag _ HE DE) as (Q1 & _). destruct (diag_is_diag _ HO DO) as (Q2 & _). unfold rows in HR. congruence.
Qed.

Lemma any_diag_add_correct e o r :
  wf e -> is_diag e = true -> wf o -> rows o = rows e -> cols o = cols e ->
  any_diag_add e (AOp o) = Ok r -> denote r == dadd (denote e) (denote o) /\ bcompat (batch e) (batch o) = true.
Proof.
  intros HE DE HO HR HC HX.
  assert (GEN : diag_add e (AOp o) = Ok r -> denote r == dadd (denote e) (denote o) /\ bcompat (batch e) (batch o) = true).
  { unfold diag_add. destruct (is_diag o) eqn:DO.
    - apply diag_add_diag; assumption.
    - intros H. apply mk_sumc2_correct in H; [|congruence|congruence]. destruct H as (H & CB).
      split; [|rewrite bcompat_sym; exact CB].
      eapply BTeq_trans; [exact H|]. apply dadd_comm; [exact CB| |]; unfold rows, cols in *; congruence. }
  destruct e; simpl in DE; try discriminate; simpl in HX; try (apply GEN; exact HX).
  - (* CDiag *)
    destruct (is_cdiag o) eqn:CO; [|apply GEN; exact HX].
    unfold cdiag_add in HX. destruct (Nat.eqb (cols o) (cols (CDiag c n))) eqn:EN; [|discriminate].
    destruct (bcompat (bsh (cvals_of (CDiag c n))) (bsh (cvals_of o))) eqn:CB; [|discriminate]. okinv HX.
    apply Nat.eqb_eq in EN. simpl in *.
    assert (CB' : bcompat (bsh c) (batch o) = true) by (destruct o; simpl in CO; try discriminate; exact CB).
    split; [|exact CB'].
    eapply BTeq_trans; [apply dconstdiag_dadd|].
    apply dadd_eq; [apply BTeq_refl|apply BTeq_sym; rewrite <- EN; apply cdiag_denote; exact CO| | |]; simpl; try reflexivity.
    destruct o; simpl in CO; try discriminate; exact CB.
  - (* Ident *)
    destruct (is_cdiag o) eqn:CO; [|apply GEN; exact HX].
    unfold cdiag_add in HX. destruct (Nat.eqb (cols o) (cols (Ident n bs))) eqn:EN; [|discriminate].
    destruct (bcompat (bsh (cvals_of (Ident n bs))) (bsh (cvals_of o))) eqn:CB; [|discriminate]. okinv HX.
    apply Nat.eqb_eq in EN. simpl in *.
    assert (CB' : bcompat bs (batch o) = true) by (destruct o; simpl in CO; try discriminate; exact CB).
    split; [|exact CB'].
    eapply BTeq_trans; [apply dconstdiag_dadd|].
    apply dadd_eq; [apply BTeq_sym; apply deye_as_dconstdiag|apply BTeq_sym; rewrite <- EN; apply cdiag_denote; exact CO| | |]; simpl; try reflexivity.
    destruct o; simpl in CO; try discriminate; exact CB.
Qed.

(* ---- the base-class chain --------------------------------------------------------------------------------------------- *)

Lemma zero_denote o : is_zero o = true -> exists b m n, o = Zero b m n.
Proof. destruct o; simpl; try discriminate. eauto. Qed.

Lemma base_add_correct e o r :
  wf e -> wf o -> rows o = rows e -> cols o = cols e -> zok e o = true ->
  base_add e (AOp o) = Ok r -> denote r == dadd (denote e) (denote o) /\ bcompat (batch e) (batch o) = true.
Proof.
  intros HE HO HR HC HZ HX. unfold base_add in HX. unfold zok in HZ.
  destruct (is_zero o) eqn:ZO.
  - okinv HX. destruct (zero_denote _ ZO) as (b & m & n & ->). simpl in *.
    split; [|rewrite bcompat_sym; apply bsub_bcompat; exact HZ].
    apply BTeq_sym. unfold rows, cols in *. simpl in *. apply dadd_dzero_r. exact HZ.
  - destruct (is_diag o) eqn:DO.
    + apply mk_sumc2_correct in HX; [|assumption|assumption]. exact HX.
    + destruct (is_root o) eqn:RO.
      * destruct o; simpl in RO; try discriminate. simpl in HX.
        binv HX. binv HX0.
        apply wf_rootc in HO. pose proof (mk_matmul_correct _ _ _ E0) as (M1 & M2 & M3).
        pose proof (alg_mT_correct _ _ HO E) as T1.
        assert (ML : denote a0 == denote (RootC k o)).
        { eapply BTeq_trans; [exact M1|]. simpl. apply dmm_eq_r; [exact M3|symmetry; exact M2|exact T1]. }
        apply mk_sumc2_correct in HX1.
        -- destruct HX1 as (H1 & CB). split.
           ++ eapply BTeq_trans; [exact H1|].
              apply dadd_eq; [apply BTeq_refl|exact ML|exact CB| |]; unfold rows, cols in *.
              ** rewrite (BTeq_nr _ _ ML). congruence.
              ** rewrite (BTeq_nc _ _ ML). congruence.
           ++ unfold batch in *. rewrite <- (BTeq_bsh _ _ ML). exact CB.
        -- unfold rows in *. rewrite (BTeq_nr _ _ ML). exact HR.
        -- unfold cols in *. rewrite (BTeq_nc _ _ ML). exact HC.
      * apply mk_sumc2_correct in HX; [|assumption|assumption]. exact HX.
Qed.

(* ---- Kronecker + diagonal: add_diagonal of the diagonal's entries --------------------------------------------------------- *)

Lemma kron_add_diag e o r :
  wf e -> is_kron e = true -> is_diag e = false -> wf o -> is_diag o = true -> rows o = rows e -> cols o = cols e ->
  alg_add_diagonal e (col_to_raw (diag_of o)) = Ok r ->
  denote r == dadd (denote e) (denote o) /\ bcompat (batch e) (batch o) = true.
Proof.
  intros HE KE DE HO DO HR HC HX.
  destruct (diag_of_shape _ DO) as (S2 & R2). pose proof (diag_of_correct _ HO DO) as DOc.
  destruct (diag_is_diag _ HO DO) as (SQ & _).
  assert (HX' : (if negb (Nat.eqb (rows e) (cols e)) then Err ENotSupported
                 else dt <- kron_diag_tensor e (col_to_raw (diag_of o)) ;; mk_sumc KKPAD [e; dt]) = Ok r).
  { destruct e; simpl in KE; try discriminate. destruct k; simpl in DE; try discriminate; exact HX. }
  clear HX. destruct (Nat.eqb (rows e) (cols e)) eqn:SQe; simpl in HX'; [|discriminate]. apply Nat.eqb_eq in SQe. binv HX'.
  unfold kron_diag_tensor in E. simpl in E.
  assert (EN : nr (diag_of o) = cols e) by (unfold rows, cols in *; congruence).
  assert (GOAL : rows a = rows e /\ cols a = cols e /\ dadd (denote e) (denote a) == dadd (denote e) (denote o) /\ bcompat (batch e) (batch o) = true).
  { destruct (Nat.eqb_spec (nr (diag_of o)) 1) as [E1|N1].
    - okinv E.
      assert (G : denote (CDiag (rdrop_last (col_to_raw (diag_of o))) (cols e)) == denote o).
      { simpl. eapply BTeq_trans; [|apply BTeq_sym; exact DOc].
        apply BTeq_intro; simpl; try congruence.
        intros I i j HI Hi Hj. assert (i = 0)%nat by lia. assert (j = 0)%nat by lia. subst. reflexivity. }
      unfold rows, cols in *. rewrite (BTeq_nr _ _ G), (BTeq_nc _ _ G). split; [congruence|split; [congruence|]].
      apply mk_sumc2_compat in HX'0. unfold batch in HX'0. rewrite (BTeq_bsh _ _ G) in HX'0.
      split; [|exact HX'0].
      apply dadd_eq; [apply BTeq_refl|exact G| | |]; try (simpl; congruence).
      rewrite (BTeq_bsh _ _ G). exact HX'0.
    - match type of E with (if ?c then _ else _) = _ => destruct c eqn:Q; [|discriminate] end.
      apply andb_true_iff in Q. destruct Q as (_ & SB).
      okinv E. rewrite S2 in SB.
      assert (G : denote (Diag (raw_to_col (dexpand (cols e :: batch e) (col_to_raw (diag_of o))))) == dexpand (batch e) (denote o)).
      { simpl. eapply BTeq_trans; [|apply dexpand_eq'; [apply BTeq_sym; exact DOc|simpl; rewrite S2; exact SB]].
        apply BTeq_intro; simpl; try congruence.
        intros I i j HI Hi Hj. unfold rval. ub. destruct (Nat.eqb_spec (nr (diag_of o)) 1); [contradiction|].
        reflexivity. }
      unfold rows, cols in *. rewrite (BTeq_nr _ _ G), (BTeq_nc _ _ G). simpl. split; [congruence|split; [congruence|]].
      split; [|rewrite bcompat_sym; apply bsub_bcompat; exact SB].
      eapply BTeq_trans; [apply dadd_eq; [apply BTeq_refl|exact G| | |]|].
      + simpl. exact (bcompat_refl (batch e)).
      + simpl. congruence.
      + simpl. congruence.
      + apply dadd_dexpand_r. exact SB. }
  destruct GOAL as (Hra & Hca & G & CBo).
  apply mk_sumc2_correct in HX'0; [|assumption|assumption]. destruct HX'0 as (H1 & CB).
  split; [|exact CBo]. eapply BTeq_trans; [exact H1|exact G].
Qed.

(* ---- Sum + Sum / Sum + operator: the appended list ---------------------------------------------------------------------- *)

Lemma bcast_all_app_compat l1 l2 B S1 S2 r c :
  bcast_all (l1 ++ l2) = Ok B -> uniform S1 r c (map denote l1) -> uniform S2 r c (map denote l2) ->
  l1 <> [] -> l2 <> [] -> bcompat S1 S2 = true.
Proof.
  revert B. induction l1 as [|x l IH]; intros B H U1 U2 N1 N2; [congruence|].
  simpl in H. binv H. destruct (bcompat (batch x) a) eqn:C; [|discriminate]. clear H0.
  pose proof (Forall_inv U1) as (Ex & _). simpl in U1. pose proof (Forall_inv_tail U1) as U1'.
  destruct l as [|y l].
  - simpl in E. pose proof (bcast_all_shape _ _ E) as ES.
    rewrite (sum_shape_uniform S2 r c) in ES; [|assumption|destruct l2; simpl; congruence].
    subst a. unfold batch in C. rewrite Ex in C. exact C.
  - eapply IH; try eassumption. congruence.
Qed.

Lemma sum_append_correct k e ops o ops2 r S2 rr cc :
  wf (SumC k ops) -> e = SumC k ops -> uniform S2 rr cc (map denote ops2) -> ops2 <> [] ->
  rows e = rr -> cols e = cc -> dsuml (map denote ops2) == denote o ->
  mk_sumc KSum (ops ++ ops2) = Ok r -> denote r == dadd (denote e) (denote o) /\ bcompat (batch e) (batch o) = true.
Proof.
  intros HW -> U2 N2 HR HC HO HX. pose proof HW as HW0.
  apply wf_sumc in HW. destruct HW as (HW & Hne & S & r1 & c1 & HU & _).
  assert (Er : r1 = rr /\ c1 = cc).
  { destruct ops as [|x l]; [congruence|]. pose proof (Forall_inv HU) as (_ & E1 & E2). unfold rows, cols in *. simpl in *. split; congruence. }
  destruct Er as (-> & ->).
  assert (CB : bcompat S S2 = true).
  { unfold mk_sumc in HX. destruct (forallb wfb (ops ++ ops2)); simpl in HX; [|discriminate]. binv HX.
    eapply bcast_all_app_compat; eassumption. }
  split.
  2: { rewrite (batch_sumc k ops S rr cc) by assumption. unfold batch. rewrite <- (BTeq_bsh _ _ HO).
       unfold dsuml; cbn [bsh]. rewrite (sum_shape_uniform S2 rr cc); [exact CB|assumption|destruct ops2; simpl; congruence]. }
  eapply BTeq_trans; [apply (mk_sumc_correct KSum (ops ++ ops2) r rr cc); [destruct ops; simpl; congruence| |exact HX]|].
  - unfold same_dims_l. apply Forall_app. split.
    + unfold uniform in HU. rewrite Forall_forall in HU. rewrite Forall_forall. intros y Hy.
      destruct (HU (denote y)) as (_ & E1 & E2); [apply in_map; assumption|]. split; assumption.
    + unfold uniform in U2. rewrite Forall_forall in U2. rewrite Forall_forall. intros y Hy.
      destruct (U2 (denote y)) as (_ & E1 & E2); [apply in_map; assumption|]. split; assumption.
  - rewrite map_app. eapply BTeq_trans; [apply (dsuml_app S S2 rr cc); try assumption; destruct ops, ops2; simpl; congruence|].
    simpl denote. apply dadd_eq; [apply BTeq_refl|exact HO| | |].
    + unfold dsuml; cbn [bsh]. rewrite (sum_shape_uniform S rr cc), (sum_shape_uniform S2 rr cc); try assumption; destruct ops, ops2; simpl; congruence.
    + rewrite (BTeq_nr _ _ HO). destruct ops as [|x l]; [congruence|]. simpl.
      pose proof (Forall_inv HU) as (_ & E1 & _). simpl in E1.
      destruct ops2 as [|y l2]; [congruence|]. pose proof (Forall_inv U2) as (_ & F1 & _). simpl in F1.
      rewrite <- (BTeq_nr _ _ HO). simpl. congruence.
    + destruct ops as [|x l]; [congruence|]. simpl.
      pose proof (Forall_inv HU) as (_ & _ & E1). simpl in E1.
      destruct ops2 as [|y l2]; [congruence|]. pose proof (Forall_inv U2) as (_ & _ & F1). simpl in F1.
      simpl. congruence.
Qed.

(* ---- the main theorem --------------------------------------------------------------------------------------------------------- *)

Lemma wf_added_diag k ops : wf (SumC k ops) -> (k = KAddedDiag \/ k = KKPAD \/ k = KLRRAD) ->
  exists l d, ops = [l; d] /\ wf l /\ wf d /\ is_diag d = true /\ is_diag l = false /\
              batch d = batch l /\ rows d = rows l /\ cols d = cols l /\ rows l = cols l.
Proof.
  intros HW HK. pose proof HW as HW0. apply wf_sumc in HW. destruct HW as (HW & _ & S & rr & cc & HU & _).
  unfold wf in HW0. simpl in HW0. rewrite !andb_true_iff in HW0. destruct HW0 as (_ & HK').
  assert (HK'' : match ops with [a; d] => negb (is_diag a) && is_diag d && Nat.eqb (rows a) (cols a) | _ => false end = true)
    by (destruct HK as [->|[->| ->]]; exact HK').
  destruct ops as [|l [|d [|z t]]]; try discriminate. exists l, d.
  rewrite !andb_true_iff, negb_true_iff, Nat.eqb_eq in HK''. destruct HK'' as ((D1 & D2) & D3).
  pose proof (Forall_inv HW) as W1. pose proof (Forall_inv (Forall_inv_tail HW)) as W2.
  pose proof (Forall_inv HU) as (E1 & E2 & E3). pose proof (Forall_inv (Forall_inv_tail HU)) as (F1 & F2 & F3).
  simpl in *. unfold batch, rows, cols in *. repeat split; try assumption; congruence.
Qed.

Lemma denote_sum2 k l d : denote (SumC k [l; d]) == dadd (denote l) (denote d).
Proof. simpl. apply dsuml2. Qed.

(* Sum / PsdSum / SumKronecker + operator *)
Lemma sum_plain_add_correct k ops o r0 :
  wf (SumC k ops) -> wf o -> rows o = rows (SumC k ops) -> cols o = cols (SumC k ops) -> zok (SumC k ops) o = true ->
  (if is_zero o then Ok (SumC k ops)
   else if is_diag o then mk_sumc KAddedDiag [SumC k ops; o]
   else match o with
        | SumC _ ops' => mk_sumc KSum (ops ++ ops')
        | _ => mk_sumc KSum (ops ++ [o])
        end) = Ok r0 -> denote r0 == dadd (denote (SumC k ops)) (denote o) /\ bcompat (batch (SumC k ops)) (batch o) = true.
Proof.
  intros HE HO HR HC ZK HG. unfold zok in ZK. destruct (is_zero o) eqn:Z0.
  - okinv HG. destruct (zero_denote _ Z0) as (b & m & n & ->).
    split; [|rewrite bcompat_sym; apply bsub_bcompat; exact ZK]. apply BTeq_sym.
    unfold rows, cols in *. simpl in HR, HC. apply dadd_dzero_r. exact ZK.
  - destruct (is_diag o) eqn:DO.
    + apply mk_sumc2_correct in HG; [exact HG|assumption|assumption].
    + assert (SINGLE : mk_sumc KSum (ops ++ [o]) = Ok r0 -> denote r0 == dadd (denote (SumC k ops)) (denote o) /\ bcompat (batch (SumC k ops)) (batch o) = true).
      { intros H1. apply (sum_append_correct k (SumC k ops) ops o [o] r0 (batch o) (rows (SumC k ops)) (cols (SumC k ops))); try assumption; try reflexivity.
        - constructor; [|constructor]. repeat split; assumption.
        - congruence.
        - apply dsuml1. }
      destruct o; try (apply SINGLE; exact HG).
      pose proof HO as HO0. apply wf_sumc in HO. destruct HO as (HO & Hne2 & S2 & r2 & c2 & HU2 & _).
      assert (Er : r2 = rows (SumC k ops) /\ c2 = cols (SumC k ops)).
      { destruct ops0 as [|x l]; [congruence|]. pose proof (Forall_inv HU2) as (_ & E1 & E2).
        unfold rows, cols in *. simpl in *. split; congruence. }
      destruct Er as (-> & ->).
      apply (sum_append_correct k (SumC k ops) ops (SumC k0 ops0) ops0 r0 S2 (rows (SumC k ops)) (cols (SumC k ops))); try assumption; try reflexivity.
      apply BTeq_refl.
Qed.

(* AddedDiag / KroneckerProductAddedDiag / LowRankRootAddedDiag + operator, given the theorem for the non-diagonal part l *)
Lemma added_diag_add_correct k k1 k2 l d o r0 :
  wf (SumC k [l; d]) -> (k = KAddedDiag \/ k = KKPAD \/ k = KLRRAD) ->
  wf o -> rows o = rows (SumC k [l; d]) -> cols o = cols (SumC k [l; d]) ->
  (forall r, alg_add l (AOp o) = Ok r -> denote r == dadd (denote l) (denote o) /\ bcompat (batch l) (batch o) = true) ->
  (if is_diag o then d' <- any_diag_add d (AOp o) ;; mk_sumc k1 [l; d']
   else l' <- alg_add l (AOp o) ;; mk_sumc k2 [l'; d]) = Ok r0 ->
  denote r0 == dadd (denote (SumC k [l; d])) (denote o) /\ bcompat (batch (SumC k [l; d])) (batch o) = true.
Proof.
  intros HE HK HO HR HC IHl HX.
  destruct (wf_added_diag _ _ HE HK) as (l0 & d0 & EQ & W1 & W2 & D2 & D1 & EB & ER & EC & SQ).
  injection EQ as <- <-.
  assert (Rl : rows o = rows l /\ cols o = cols l).
  { unfold rows, cols in *. simpl in HR, HC. split; congruence. }
  destruct Rl as (Rl & Cl).
  assert (CLD : bcompat (bsh (denote l)) (bsh (denote d)) = true).
  { change (bsh (denote l)) with (batch l). change (bsh (denote d)) with (batch d). rewrite EB. apply bcompat_refl. }
  assert (EBe : batch (SumC k [l; d]) = batch l).
  { unfold batch. simpl. rewrite bcast_nil_r. change (bsh (denote d)) with (batch d). rewrite EB. apply bcast_refl. }
  assert (GOAL : forall X, X == dadd (dadd (denote l) (denote d)) (denote o) -> bcompat (batch l) (batch o) = true ->
                 X == dadd (denote (SumC k [l; d])) (denote o) /\ bcompat (batch (SumC k [l; d])) (batch o) = true).
  { intros X HXe CB. split; [|rewrite EBe; exact CB].
    eapply BTeq_trans; [exact HXe|].
    apply dadd_eq; [apply BTeq_sym; apply denote_sum2|apply BTeq_refl| | |]; simpl.
    - change (bsh (denote d)) with (batch d). rewrite EB. change (bsh (denote l)) with (batch l). rewrite bcast_refl. exact CB.
    - unfold rows in *. congruence.
    - unfold cols in *. congruence. }
  destruct (is_diag o) eqn:DO; binv HX.
  - (* the diagonal operand is added to the diagonal part *)
    destruct (any_diag_add_correct d o a W2 D2 HO ltac:(congruence) ltac:(congruence) E) as (HD & CDO).
    apply mk_sumc2_correct in HX0;
      [|unfold rows in *; rewrite (BTeq_nr _ _ HD); simpl; congruence|unfold cols in *; rewrite (BTeq_nc _ _ HD); simpl; congruence].
    destruct HX0 as (H1 & CB1).
    assert (CLO : bcompat (batch l) (batch o) = true) by (rewrite <- EB; exact CDO).
    apply GOAL; [|exact CLO].
    eapply BTeq_trans; [exact H1|].
    eapply BTeq_trans; [apply dadd_eq; [apply BTeq_refl|exact HD|exact CB1| |]|].
    + rewrite (BTeq_nr _ _ HD). simpl. unfold rows in *. congruence.
    + rewrite (BTeq_nc _ _ HD). simpl. unfold cols in *. congruence.
    + apply BTeq_sym. apply dadd_assoc; [exact CLD|exact CLO|exact CDO].
  - (* the operand is added to the non-diagonal part *)
    destruct (IHl _ E) as (HL & CLO).
    apply mk_sumc2_correct in HX0;
      [|unfold rows in *; rewrite (BTeq_nr _ _ HL); simpl; congruence|unfold cols in *; rewrite (BTeq_nc _ _ HL); simpl; congruence].
    destruct HX0 as (H1 & CB1).
    apply GOAL; [|exact CLO].
    eapply BTeq_trans; [exact H1|].
    eapply BTeq_trans; [apply dadd_eq; [exact HL|apply BTeq_refl|exact CB1| |]|].
    + rewrite (BTeq_nr _ _ HL). simpl. unfold rows in *. congruence.
    + rewrite (BTeq_nc _ _ HL). simpl. unfold cols in *. congruence.
    + apply dadd_swap_r; try assumption; unfold rows, cols, batch in *; try congruence.
      * rewrite bcompat_sym, EB. exact CLO.
Qed.

(* ---- the main theorem --------------------------------------------------------------------------------------------------------- *)

Theorem alg_add_correct e : forall o r,
  wf e -> wf o -> rows o = rows e -> cols o = cols e -> zpath e = true -> zpath o = true -> zok e o = true ->
  alg_add e (AOp o) = Ok r -> denote r == dadd (denote e) (denote o) /\ bcompat (batch e) (batch o) = true.
Proof.
  induction e using Op_ind'; intros o r0 HE HO HR HC ZE ZO ZK HX; simpl in ZE; try discriminate;
    try (simpl in HX; apply (base_add_correct _ _ _ HE HO HR HC ZK HX)).
  - (* Dense *)
    simpl in HX. destruct o; try (apply (base_add_correct _ _ _ HE HO HR HC ZK HX)).
    ifd HX. okinv HX. simpl in Q. rewrite !andb_true_iff in Q. destruct Q as (_ & _ & Q).
    split; [|exact Q].
    simpl. apply radd_same; unfold rows, cols in *; simpl in *; congruence.
  - (* Diag *) simpl in HX. apply any_diag_add_correct; try assumption; reflexivity.
  - (* CDiag *) simpl in HX. apply any_diag_add_correct; try assumption; reflexivity.
  - (* Ident *) simpl in HX. apply any_diag_add_correct; try assumption; reflexivity.
  - (* Tri *)
    pose proof HE as HE0. apply wf_tri in HE. destruct HE as (HE & SQ). simpl in HX.
    destruct (is_diag o) eqn:DO.
    + binv HX. rewrite (mk_tri_denote _ _ _ HX0). apply mk_sumc2_correct in E; [exact E|assumption|assumption].
    + assert (GEN : forall r1, alg_add e (AOp o) = Ok r1 ->
                    denote r1 == dadd (denote (Tri e u)) (denote o) /\ bcompat (batch (Tri e u)) (batch o) = true).
      { intros r1 H1. apply IHe; assumption. }
      destruct o; try (apply GEN; exact HX).
      match type of HX with (if ?c then _ else _) = _ => destruct c; [|apply GEN; exact HX] end.
      binv HX. rewrite (mk_tri_denote _ _ _ HX0).
      apply wf_tri in HO. destruct HO as (HO & _). simpl in ZO.
      apply (IHe o a); try assumption.
      unfold zok. destruct o; simpl in ZO; try discriminate; reflexivity.
  - (* RootC *)
    destruct k; try (simpl in HX; apply (base_add_correct _ _ _ HE HO HR HC ZK HX)).
    assert (HX' : (if is_diag o then mk_sumc KLRRAD [RootC KLRRoot e; o] else base_add (RootC KLRRoot e) (AOp o)) = Ok r0) by exact HX.
    clear HX. destruct (is_diag o) eqn:DO; [|apply (base_add_correct _ _ _ HE HO HR HC ZK HX')].
    apply mk_sumc2_correct in HX'; [exact HX'|assumption|assumption].
  - (* KronC *)
    destruct k as [|u|].
    3: { simpl in HX. apply any_diag_add_correct; try assumption; reflexivity. }
    all: match type of HX with alg_add ?ee _ = _ =>
      assert (HX' : (if is_krondiag o || is_cdiag o then mk_sumc KKPAD [ee; o]
                     else if is_kron o then mk_sumc KSumKron [ee; o]
                     else if is_diag o then alg_add_diagonal ee (col_to_raw (diag_of o))
                     else base_add ee (AOp o)) = Ok r0) by exact HX end; clear HX.
    all: destruct (is_krondiag o || is_cdiag o) eqn:Q1;
      [apply mk_sumc2_correct in HX'; [exact HX'|assumption|assumption]|];
      destruct (is_kron o) eqn:Q2;
      [apply mk_sumc2_correct in HX'; [exact HX'|assumption|assumption]|];
      destruct (is_diag o) eqn:Q3;
      [apply kron_add_diag; try assumption; reflexivity|];
      apply (base_add_correct _ _ _ HE HO HR HC ZK HX').
  - (* SumC *)
    destruct k; try (simpl in HX; apply sum_plain_add_correct; assumption).
    all: pose proof HE as HE0.
    all: destruct (wf_added_diag _ _ HE) as (l & d & -> & W1 & W2 & D2 & D1 & EB & ER & EC & SQ); [tauto|].
    all: pose proof (Forall_inv H) as IHl.
    all: assert (ZL : zpath l = true) by exact ZE.
    all: simpl in HX.
    all: eapply added_diag_add_correct; try exact HX; try assumption; try tauto.
    all: intros r1 H1; apply IHl; try assumption; unfold rows, cols in *; simpl in HR, HC; try congruence.
    all: unfold zok in *; destruct (is_zero o); [|reflexivity].
    all: match type of ZK with bsub _ (batch ?ee) = true =>
           assert (EBe : batch ee = batch l) by
             (unfold batch; simpl; rewrite bcast_nil_r; change (bsh (denote d)) with (batch d); rewrite EB; apply bcast_refl) end.
    all: rewrite EBe in ZK; exact ZK.
Qed.
