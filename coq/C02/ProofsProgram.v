(* C02.ProofsProgram — multi-step programs: by induction on the program, the object the library ends up with denotes the
   value of the same program evaluated on dense tensors. *)
From Coq Require Import List ZArith Lia Bool Arith.
Import ListNotations.
Require Import C02.Sums C02.Batch C02.Tensor C02.Dense C02.Op C02.Model C02.Spec.
Require Import C02.ProofsDense C02.ProofsBase C02.ProofsExpand C02.ProofsCtor C02.ProofsMT C02.ProofsMatmul C02.ProofsRaw C02.ProofsAdd C02.ProofsMul C02.ProofsSub C02.ProofsMulM C02.ProofsBatch C02.ProofsAddDiag C02.ProofsPermute C02.ProofsSumBatch.
Open Scope Z_scope.

Definition scalar0b (d : BT) : bool :=
  match bsh d with [] => true | _ => false end && Nat.eqb (nr d) 1 && Nat.eqb (nc d) 1.

Lemma scalar0b_ok d : scalar0b d = true -> scalar0 d.
Proof.
  unfold scalar0b, scalar0. rewrite !andb_true_iff, !Nat.eqb_eq. intros ((H1 & H2) & H3).
  destruct (bsh d); [auto|discriminate].
Qed.

(* a tensor operand with matrix sizes (c columns, rw rows, not 1 x 1: a one-element or (b,1,1) tensor takes the constant path) *)
Definition rawmatb (r : BT) : bool :=
  match bsh r with
  | c :: rw :: _ => negb (Nat.eqb c 1 && Nat.eqb rw 1)
  | _ => false
  end && Nat.eqb (nr r) 1 && Nat.eqb (nc r) 1.

(* operations whose step theorem is proved *)
Fixpoint covered (p : Prog) : bool :=
  match p with
  | PLeaf _ => true
  | PBin BMatmul a b => covered a && covered b
  | PBin BAdd a b => covered a && covered b
  | PBin BSub a b => covered a && covered b
  | PBin BMul a b => covered a && covered b
  | PBinT BMul a (APy _) => covered a
  | PBinT BMul a (ARaw r) => covered a && (scalar0b r || rawmatb r)
  | PRBinT BMul (APy _) a => covered a
  | PRBinT BMul (ARaw r) a => covered a && scalar0b r
  | PDiv a (APy _) (APy _) => covered a
  | PDiv a (ARaw _) (APy _) => covered a
  | PExpand a _ => covered a
  | PUnsqueeze a _ => covered a
  | PPermute a _ => covered a
  | PSumBatch a _ => covered a
  | PTransposeB a _ _ => covered a
  | PAddJitter a _ => covered a
  | PAddDiagonal a d => covered a && scalar0b d
  | PmT a => covered a
  | _ => false
  end.

(* no step hits a recorded defect cell of the pinned library (known_findings.d/C02-*.json) *)
(* the side conditions of one step, read off the objects the two operands evaluate to *)
Definition same_size (x y : Op) : bool := Nat.eqb (rows y) (rows x) && Nat.eqb (cols y) (cols x).

Definition safe_add_step (x y : Op) : bool :=
  match x with
  | Zero b _ _ => false          (* Zero + y returns y as it is: see ProofsAdd (zpath) *)
  | _ => zpath x && zpath y && zok x y && same_size x y
  end.

(* x * z for a python number z: classes covered by ProofsMul, and z has the exact iterated square roots that the Root family
   will take (decidable: checked by computing them) *)
Fixpoint sqnb (n : nat) (z : Z) : bool :=
  match n with
  | O => true
  | S m => if 0 <? z then Z.eqb (Z.sqrt z * Z.sqrt z) z && sqnb m (Z.sqrt z) else true
  end.

Definition safe_mulc_step (x : Op) (z : Z) : bool :=
  negb (is_zero x) && mulc_cov x && sqnb (rdepth x) z.

(* x - y : the negated operand is an intermediate object; its invariants and side conditions are checked on the object itself *)
Definition safe_sub_step (x y : Op) : bool :=
  negb (is_zero y) && mulc_cov y && same_size x y &&
  match alg_mul y (APy (-1)) with
  | Ok ny => wfb ny && match x with Zero _ _ _ => false | _ => zpath x && zpath ny && zok x ny end
  | Err _ => true
  end.

(* x * y elementwise: Identity's _mul_matrix and the Zero shortcuts are recorded defects *)
Definition safe_mulm_step (x y : Op) : bool :=
  negb (is_zero x) && negb (is_zero y) && negb (is_ident x) && same_size x y.

Fixpoint safe (p : Prog) : bool :=
  match p with
  | PLeaf _ => true
  | PBin o a b =>
      safe a && safe b &&
      match o, eval_alg a, eval_alg b with
      | BMatmul, Ok x, Ok y => safe_matmul x y
      | BAdd, Ok x, Ok y => safe_add_step x y
      | BSub, Ok x, Ok y => safe_sub_step x y
      | BMul, Ok x, Ok y => safe_mulm_step x y
      | _, _, _ => true
      end
  | PBinT o a t =>
      safe a &&
      match o, t, eval_alg a with
      | BMul, APy z, Ok x => safe_mulc_step x z
      | BMul, ARaw r, Ok x =>
          if scalar0b r then safe_mulc_step x (c0 r)
          else negb (is_zero x) && negb (is_ident x) && Nat.eqb (nth 0 (bsh r) 0%nat) (cols x) && Nat.eqb (nth 1 (bsh r) 0%nat) (rows x)
      | _, _, _ => true
      end
  | PRBinT o t a =>
      safe a &&
      match o, t, eval_alg a with
      | BMul, APy z, Ok x => safe_mulc_step x z
      | BMul, ARaw r, Ok x => safe_mulc_step x (c0 r)
      | _, _, _ => true
      end
  | PDiv a _ rc =>
      safe a &&
      match rc, eval_alg a with
      | APy z, Ok x => safe_mulc_step x z
      | _, _ => true
      end
  | PAddDiagonal a _ | PAddJitter a _ =>
      safe a && match eval_alg a with Ok x => zpath x | Err _ => true end
  | PPermute a _ | PTransposeB a _ _ =>
      safe a && match eval_alg a with Ok x => zfree x | Err _ => true end
  | PSumBatch a q =>
      (* classes with their own _sum_batch for every position; the base class (-> SumBatchLinearOperator) for the last batch dim *)
      safe a && match eval_alg a with Ok x => sumb_own x || Nat.eqb q 0 | Err _ => true end
  | PExpand a _ | PUnsqueeze a _ | PmT a => safe a
  end.

(* the dense side of add_diagonal with a 0-d diagonal *)
Lemma dense_add_diagonal0 A d D : bsh d = [] -> dense_add_diagonal A d = Ok D ->
  nr A = nc A /\ D == dadd A (dconstdiag d (nc A)).
Proof.
  intros HD H. unfold dense_add_diagonal in H.
  destruct (Nat.eqb (nr A) (nc A)) eqn:SQ; simpl in H; [|discriminate]. apply Nat.eqb_eq in SQ. split; [exact SQ|].
  rewrite HD in H. simpl in H. rewrite Nat.eqb_refl in H.
  unfold dense_add, dense_ew in H. simpl argval in H.
  set (DDm := ddiag (raw_to_col (dexpand (nr A :: bsh A) d))) in *.
  assert (E1 : nr A = nr DDm) by reflexivity. assert (E2 : nc A = nc DDm) by (simpl; exact (eq_sym SQ)).
  rewrite (rcompat_same A DDm E1 E2) in H. simpl bsh in H. rewrite bcompat_refl in H. okinv H.
  eapply BTeq_trans; [apply radd_same; assumption|].
  assert (E3 : DDm == dexpand (bsh A) (dconstdiag d (nc A))).
  { apply BTeq_intro; simpl; try congruence. intros I i j HI _ _. unfold rval. ub. rewrite HD. reflexivity. }
  eapply BTeq_trans; [apply dadd_eq; [apply BTeq_refl|exact E3| | |]; simpl; try congruence; apply bcompat_refl|].
  apply (dadd_dexpand_r A (dconstdiag d (nc A))). simpl. rewrite HD. reflexivity.
Qed.

Lemma sqnb_sqn n z : sqnb n z = true -> sqn n z.
Proof.
  revert z. induction n as [|n IH]; intros z H; simpl in *; [exact I|].
  intros Hz. apply Z.ltb_lt in Hz. rewrite Hz in H. apply andb_true_iff in H. destruct H as (H1 & H2).
  apply Z.eqb_eq in H1. split; [exact H1|apply IH; exact H2].
Qed.

(* one multiplication step by a python number *)
Lemma mul_py_step x z r X D :
  wf x -> safe_mulc_step x z = true -> alg_mul x (APy z) = Ok r -> denote x == X -> dense_mul X (APy z) = Ok D -> denote r == D.
Proof.
  intros W HS HA H1 HD. unfold safe_mulc_step in HS. rewrite !andb_true_iff, negb_true_iff in HS. destruct HS as ((NZ & CV) & SQ).
  assert (HA' : alg_mul_constant x (zconst z) = Ok r).
  { destruct x; simpl in NZ; try discriminate; exact HA. }
  unfold dense_mul, dense_ew in HD. simpl argval in HD.
  assert (RC : rcompat (to_raw X) (zconst z) = true) by (unfold rcompat; simpl; reflexivity).
  rewrite RC in HD. okinv HD.
  eapply BTeq_trans; [apply (alg_mul_constant_correct0 x (zconst z) r W); try assumption; [repeat split|apply sqnb_sqn; exact SQ]|].
  eapply BTeq_trans; [apply dscale0_eq; [reflexivity|exact H1]|].
  apply BTeq_sym. apply rmul_scalar.
Qed.

(* one multiplication step by a 0-d tensor *)
Lemma mul_raw0_step x r0 r X D :
  wf x -> scalar0 r0 -> safe_mulc_step x (c0 r0) = true -> alg_mul x (ARaw r0) = Ok r -> denote x == X ->
  dense_mul X (ARaw r0) = Ok D -> denote r == D.
Proof.
  intros W (R1 & R2 & R3) HS HA H1 HD. unfold safe_mulc_step in HS. rewrite !andb_true_iff, negb_true_iff in HS. destruct HS as ((NZ & CV) & SQ).
  assert (HA' : alg_mul_constant x (rscalar r0) = Ok r).
  { assert (HM : mul_dispatch (alg_mul_constant x) x (ARaw r0) = Ok r) by (destruct x; simpl in NZ; try discriminate; exact HA).
    unfold mul_dispatch in HM. rewrite R1 in HM. unfold rnumel in HM. rewrite R1 in HM. simpl in HM. exact HM. }
  assert (S0 : scalar0 (rscalar r0)) by (repeat split).
  assert (V0 : c0 (rscalar r0) = c0 r0) by (unfold c0, rscalar, mkraw, rval; simpl; rewrite R1; reflexivity).
  unfold dense_mul, dense_ew in HD. simpl argval in HD.
  assert (RC : rcompat (to_raw X) r0 = true) by (unfold rcompat; rewrite R1; reflexivity).
  rewrite RC in HD. okinv HD.
  eapply BTeq_trans; [apply (alg_mul_constant_correct0 x (rscalar r0) r W S0 CV); [rewrite V0; apply sqnb_sqn; exact SQ|exact HA']|].
  eapply BTeq_trans; [apply dscale0_eq; [reflexivity|exact H1]|].
  eapply BTeq_trans; [apply (dscale0_const X (rscalar r0) (zconst (c0 r0))); [reflexivity|reflexivity|exact V0]|].
  eapply BTeq_trans; [apply BTeq_sym; apply rmul_scalar|].
  (* the raw product only reads the single entry of r0 *)
  unfold of_raw, rmul, to_raw, zconst, mkraw. simpl. rewrite R1. simpl.
  apply BTeq_intro; simpl; try reflexivity.
  intros I i j _ _ _. unfold rval, c0. ub. rewrite ?R1. reflexivity.
Qed.

(* one multiplication step by a tensor with the operand's matrix sizes *)
Lemma mul_rawmat_step x r0 r X D :
  wf x -> rawmatb r0 = true -> is_zero x = false -> is_ident x = false ->
  nth 0 (bsh r0) 0%nat = cols x -> nth 1 (bsh r0) 0%nat = rows x ->
  alg_mul x (ARaw r0) = Ok r -> denote x == X -> dense_mul X (ARaw r0) = Ok D -> denote r == D.
Proof.
  intros W RM NZ NI EC ER HA H1 HD.
  unfold rawmatb in RM. rewrite !andb_true_iff, !Nat.eqb_eq in RM. destruct RM as ((RM & N1) & N2).
  destruct (bsh r0) as [|c [|rw bs]] eqn:EB; try discriminate. simpl in EC, ER. subst c rw.
  rewrite negb_true_iff in RM.
  assert (HM : mul_dispatch (alg_mul_constant x) x (ARaw r0) = Ok r) by (destruct x; simpl in NZ; try discriminate; exact HA).
  unfold mul_dispatch in HM. ifd HM.
  assert (NE : Nat.eqb (rnumel r0) 1 = false).
  { unfold rnumel. rewrite EB. simpl. apply andb_false_iff in RM. apply Nat.eqb_neq. intros HN.
    destruct RM as [RM|RM]; apply Nat.eqb_neq in RM; destruct (cols x), (rows x), (bnumel bs); simpl in *; try lia; nia. }
  rewrite NE in HM. unfold rdim in HM. rewrite EB in HM. simpl in HM. rewrite RM in HM. simpl in HM.
  assert (CB : bcompat (batch x) bs = true).
  { unfold fullshape in Q. rewrite EB in Q. simpl in Q. rewrite !Nat.eqb_refl in Q. simpl in Q. exact Q. }
  assert (EB' : bsh r0 = nc X :: nr X :: tl (tl (bsh r0))).
  { rewrite EB. simpl. unfold cols, rows. rewrite (BTeq_nc _ _ H1), (BTeq_nr _ _ H1). reflexivity. }
  unfold dense_mul, dense_ew in HD. simpl argval in HD. ifd HD. okinv HD.
  eapply BTeq_trans; [apply (alg_mul_matrix_correct x (Dense (of_raw r0)) r W); try assumption; try reflexivity|].
  - unfold rows. simpl. unfold of_raw. rewrite EB. reflexivity.
  - unfold cols. simpl. unfold of_raw. rewrite EB. reflexivity.
  - unfold batch at 2. simpl. unfold of_raw. rewrite EB. exact CB.
  - eapply BTeq_trans; [|apply BTeq_sym; apply rmul_raw_mat; try assumption].
    + apply dhad_eq; [exact H1|apply BTeq_refl| | |]; simpl; unfold of_raw; rewrite EB; simpl; try reflexivity. exact CB.
    + rewrite EB. simpl. rewrite <- (BTeq_bsh _ _ H1). exact CB.
Qed.

Lemma guard_ok {A} x (k : result A) r : guard x k = Ok r -> wf x /\ k = Ok r.
Proof. unfold guard, wf. destruct (wfb x); [auto|discriminate]. Qed.

Theorem program_correct p : forall r D,
  covered p = true -> safe p = true -> eval_alg p = Ok r -> eval_dense p = Ok D -> denote r == D.
Proof.
  induction p; intros r0 D HC HS HA HD; simpl in HC; try discriminate.
  - (* leaf *) simpl in HA, HD. okinv HA. okinv HD. apply BTeq_refl.
  - (* binary, operator operands *)
    destruct o; try discriminate.
    + (* add *)
      apply andb_true_iff in HC. destruct HC as (C1 & C2).
      simpl in HA, HD, HS. binv HA. binv HA0. apply guard_ok in HA1. destruct HA1 as (W1 & HA1).
      apply guard_ok in HA1. destruct HA1 as (W2 & HA1). simpl in HA1.
      rewrite E, E0 in HS. rewrite !andb_true_iff in HS. destruct HS as ((S1 & S2) & S3).
      binv HD. binv HD0. simpl in HD1.
      pose proof (IHp1 _ _ C1 S1 E E1) as H1. pose proof (IHp2 _ _ C2 S2 E0 E2) as H2.
      unfold safe_add_step in S3.
      assert (S3' : zpath a = true /\ zpath a0 = true /\ zok a a0 = true /\ same_size a a0 = true).
      { destruct a; try discriminate; rewrite !andb_true_iff in S3; tauto. }
      destruct S3' as (Z1 & Z2 & Z3 & Z4). unfold same_size in Z4. rewrite andb_true_iff, !Nat.eqb_eq in Z4. destruct Z4 as (R1 & R2).
      destruct (alg_add_correct a a0 r0 W1 W2 R1 R2 Z1 Z2 Z3 HA1) as (HR & CB).
      assert (Er : nr a2 = nr a1 /\ nc a2 = nc a1).
      { unfold rows, cols in *. rewrite <- (BTeq_nr _ _ H1), <- (BTeq_nr _ _ H2), <- (BTeq_nc _ _ H1), <- (BTeq_nc _ _ H2). split; assumption. }
      destruct Er as (Er & Ec).
      rewrite (dense_add_op a1 (Dense a2)) in HD1 by (simpl; assumption).
      ifd HD1. okinv HD1.
      eapply BTeq_trans; [exact HR|].
      eapply BTeq_trans; [apply dadd_eq; [exact H1|exact H2|exact CB| |]; unfold rows, cols in *; congruence|].
      apply BTeq_sym. apply radd_same; congruence.
    + (* sub *)
      apply andb_true_iff in HC. destruct HC as (C1 & C2).
      simpl in HA, HD, HS. binv HA. binv HA0. apply guard_ok in HA1. destruct HA1 as (W1 & HA1).
      apply guard_ok in HA1. destruct HA1 as (W2 & HA1). simpl in HA1.
      rewrite E, E0 in HS. rewrite !andb_true_iff in HS. destruct HS as ((S1 & S2) & S3).
      binv HD. binv HD0. simpl in HD1.
      pose proof (IHp1 _ _ C1 S1 E E1) as H1. pose proof (IHp2 _ _ C2 S2 E0 E2) as H2.
      unfold safe_sub_step in S3. rewrite !andb_true_iff, negb_true_iff in S3. destruct S3 as (((NZ & CV) & Z4) & S3).
      unfold same_size in Z4. rewrite andb_true_iff, !Nat.eqb_eq in Z4. destruct Z4 as (R1 & R2).
      assert (HSUB : alg_sub a (AOp a0) = Ok r0) by exact HA1. clear HA1.
      destruct (alg_mul a0 (APy (-1))) as [ny|] eqn:EM.
      2: { unfold alg_sub in HSUB. rewrite EM in HSUB. discriminate. }
      assert (S3' : wf ny /\ zpath a = true /\ zpath ny = true /\ zok a ny = true).
      { rewrite andb_true_iff in S3. destruct S3 as (WN & S3). destruct a; try discriminate; rewrite !andb_true_iff in S3; unfold wf; tauto. }
      destruct S3' as (WN & Z1 & Z2 & Z3).
      destruct (alg_sub_correct a a0 ny r0 W1 W2 R1 R2 NZ CV EM WN Z1 Z2 Z3 HSUB) as (HR & CB).
      assert (Er : nr a2 = nr a1 /\ nc a2 = nc a1).
      { unfold rows, cols in *. rewrite <- (BTeq_nr _ _ H1), <- (BTeq_nr _ _ H2), <- (BTeq_nc _ _ H1), <- (BTeq_nc _ _ H2). split; assumption. }
      destruct Er as (Er & Ec).
      unfold dense_sub, dense_ew in HD1. simpl argval in HD1. rewrite rcompat_same in HD1 by congruence.
      ifd HD1. okinv HD1.
      eapply BTeq_trans; [exact HR|].
      eapply BTeq_trans; [apply dsub_eq; [exact H1|exact H2|exact CB| |]; unfold rows, cols in *; congruence|].
      apply BTeq_sym. apply rsub_same; congruence.
    + (* elementwise mul *)
      apply andb_true_iff in HC. destruct HC as (C1 & C2).
      simpl in HA, HD, HS. binv HA. binv HA0. apply guard_ok in HA1. destruct HA1 as (W1 & HA1).
      apply guard_ok in HA1. destruct HA1 as (W2 & HA1). simpl in HA1.
      rewrite E, E0 in HS. rewrite !andb_true_iff in HS. destruct HS as ((S1 & S2) & S3).
      binv HD. binv HD0. simpl in HD1.
      pose proof (IHp1 _ _ C1 S1 E E1) as H1. pose proof (IHp2 _ _ C2 S2 E0 E2) as H2.
      unfold safe_mulm_step in S3. rewrite !andb_true_iff, !negb_true_iff in S3. destruct S3 as (((NZ1 & NZ2) & NI) & Z4).
      unfold same_size in Z4. rewrite andb_true_iff, !Nat.eqb_eq in Z4. destruct Z4 as (R1 & R2).
      assert (HA2 : (if bcompat (fullshape a) (fullshape a0) then alg_mul_matrix a a0 else Err EShape) = Ok r0).
      { destruct a; simpl in NZ1; try discriminate; unfold alg_mul, mul_dispatch in HA1; rewrite NZ2 in HA1; exact HA1. }
      ifd HA2. rewrite (fullshape_compat_same _ _ R1 R2) in Q.
      assert (Er : nr a2 = nr a1 /\ nc a2 = nc a1).
      { unfold rows, cols in *. rewrite <- (BTeq_nr _ _ H1), <- (BTeq_nr _ _ H2), <- (BTeq_nc _ _ H1), <- (BTeq_nc _ _ H2). split; assumption. }
      destruct Er as (Er & Ec).
      unfold dense_mul, dense_ew in HD1. simpl argval in HD1. rewrite rcompat_same in HD1 by congruence.
      ifd HD1. okinv HD1.
      eapply BTeq_trans; [apply (alg_mul_matrix_correct a a0 r0); assumption|].
      eapply BTeq_trans; [apply dhad_eq; [exact H1|exact H2|exact Q| |]; unfold rows, cols in *; congruence|].
      apply BTeq_sym. apply rmul_same; congruence.
    + (* matmul *)
    apply andb_true_iff in HC. destruct HC as (C1 & C2).
    simpl in HA, HD, HS. binv HA. binv HA0. apply guard_ok in HA1. destruct HA1 as (W1 & HA1).
    apply guard_ok in HA1. destruct HA1 as (W2 & HA1). simpl in HA1.
    rewrite E, E0 in HS. rewrite !andb_true_iff in HS. destruct HS as ((S1 & S2) & S3).
    binv HD. binv HD0. simpl in HD1. unfold dense_matmul in HD1.
    destruct (Nat.eqb (nc a1) (nr a2) && bcompat (bsh a1) (bsh a2)) eqn:CC; [|discriminate]. okinv HD1.
    apply andb_true_iff in CC. destruct CC as (CC1 & CC2). apply Nat.eqb_eq in CC1.
    pose proof (IHp1 _ _ C1 S1 E E1) as H1. pose proof (IHp2 _ _ C2 S2 E0 E2) as H2.
    eapply BTeq_trans; [apply (alg_matmul_correct a a0); try assumption|].
    * unfold cols, rows. rewrite (BTeq_nc _ _ H1), (BTeq_nr _ _ H2). exact CC1.
    * apply dmm_eq; try assumption.
      -- rewrite (BTeq_bsh _ _ H1), (BTeq_bsh _ _ H2). exact CC2.
      -- rewrite (BTeq_nc _ _ H1), (BTeq_nr _ _ H2). symmetry. exact CC1.
  - (* operator * python number / 0-d tensor *)
    destruct o; try discriminate. destruct t; try discriminate.
    + simpl in HA, HD, HS. binv HA. apply guard_ok in HA0. destruct HA0 as (W & HA0). simpl in HA0.
      rewrite E in HS. apply andb_true_iff in HS. destruct HS as (S1 & S2).
      binv HD. simpl in HD0. pose proof (IHp _ _ HC S1 E E0) as H1.
      eapply mul_py_step; eassumption.
    + apply andb_true_iff in HC. destruct HC as (HC & SR).
      simpl in HA, HD, HS. binv HA. apply guard_ok in HA0. destruct HA0 as (W & HA0). simpl in HA0.
      rewrite E in HS. apply andb_true_iff in HS. destruct HS as (S1 & S2).
      binv HD. simpl in HD0. pose proof (IHp _ _ HC S1 E E0) as H1.
      destruct (scalar0b r) eqn:S0.
      * apply scalar0b_ok in S0. eapply mul_raw0_step; eassumption.
      * simpl in SR. rewrite !andb_true_iff, !negb_true_iff, !Nat.eqb_eq in S2. destruct S2 as (((Z1 & Z2) & Z3) & Z4).
        eapply mul_rawmat_step; eassumption.
  - (* python number / 0-d tensor * operator *)
    destruct o; try discriminate. destruct t; try discriminate.
    + simpl in HA, HD, HS. binv HA. apply guard_ok in HA0. destruct HA0 as (W & HA0). simpl in HA0.
      rewrite E in HS. apply andb_true_iff in HS. destruct HS as (S1 & S2).
      binv HD. simpl in HD0. pose proof (IHp _ _ HC S1 E E0) as H1.
      eapply mul_py_step; eassumption.
    + apply andb_true_iff in HC. destruct HC as (HC & SR). apply scalar0b_ok in SR.
      simpl in HA, HD, HS. binv HA. apply guard_ok in HA0. destruct HA0 as (W & HA0). simpl in HA0.
      rewrite E in HS. apply andb_true_iff in HS. destruct HS as (S1 & S2).
      binv HD. simpl in HD0. pose proof (IHp _ _ HC S1 E E0) as H1.
      eapply mul_raw0_step; eassumption.
  - (* division by a python number / tensor whose reciprocal rc is a python number *)
    assert (HCa : covered p = true /\ exists z, rc = APy z /\ (forall o, t <> AOp o)).
    { destruct t; try discriminate; destruct rc; try discriminate; (split; [exact HC|eexists; split; [reflexivity|intros o; discriminate]]). }
    destruct HCa as (HCa & z & -> & NT).
    simpl in HA, HD, HS. binv HA. apply guard_ok in HA0. destruct HA0 as (W & HA0).
    rewrite E in HS. apply andb_true_iff in HS. destruct HS as (S1 & S2).
    binv HD. pose proof (IHp _ _ HCa S1 E E0) as H1.
    assert (HA1 : alg_mul a (APy z) = Ok r0).
    { unfold alg_div in HA0. destruct t; try (exfalso; eapply NT; reflexivity);
        unfold safe_mulc_step in S2; rewrite !andb_true_iff, negb_true_iff in S2; destruct S2 as ((NZ & _) & _);
        destruct a; simpl in NZ; try discriminate; exact HA0. }
    eapply mul_py_step; eassumption.
  - (* expand *)
    simpl in HA, HD, HS. binv HA. apply guard_ok in HA0. destruct HA0 as (W & HA0).
    binv HD. unfold dense_expand in HD0. destruct (bsub (bsh a0) B) eqn:SB; [|discriminate]. okinv HD0.
    pose proof (IHp _ _ HC HS E E0) as H1.
    eapply BTeq_trans; [apply (alg_expand_correct a B); try assumption|].
    + unfold batch. rewrite (BTeq_bsh _ _ H1). exact SB.
    + apply dexpand_eq'; [exact H1|]. rewrite (BTeq_bsh _ _ H1). exact SB.
  - (* unsqueeze *)
    simpl in HA, HD, HS. binv HA. apply guard_ok in HA0. destruct HA0 as (W & HA0).
    binv HD. unfold dense_unsqueeze in HD0. ifd HD0. okinv HD0. apply Nat.leb_le in Q.
    pose proof (IHp _ _ HC HS E E0) as H1.
    eapply BTeq_trans; [apply (alg_unsqueeze_correct a p0); try assumption|].
    + unfold batch. rewrite (BTeq_bsh _ _ H1). exact Q.
    + rewrite !dunsqueeze_dbmap. rewrite (BTeq_bsh _ _ H1).
      apply (dbmap_eq (bsh a0)); [|exact H1|exact (BTeq_bsh _ _ H1)].
      intros I HI. apply inb_ldelete; assumption.
  - (* permute *)
    simpl in HA, HD, HS. binv HA. apply guard_ok in HA0. destruct HA0 as (W & HA0).
    rewrite E in HS. apply andb_true_iff in HS. destruct HS as (S1 & S2).
    binv HD. unfold dense_permute in HD0. ifd HD0. okinv HD0.
    pose proof (IHp _ _ HC S1 E E0) as H1.
    eapply BTeq_trans; [apply (alg_permute_correct a perm); try assumption|].
    + unfold batch. rewrite (BTeq_bsh _ _ H1). exact Q.
    + rewrite !dpermute_dbmap. rewrite (BTeq_bsh _ _ H1).
      apply (dbmap_eq (bsh a0)); [|exact H1|exact (BTeq_bsh _ _ H1)].
      intros I HI. apply lunperm_inb; assumption.
  - (* transpose of two batch dimensions *)
    simpl in HA, HD, HS. binv HA. apply guard_ok in HA0. destruct HA0 as (W & HA0).
    rewrite E in HS. apply andb_true_iff in HS. destruct HS as (S1 & S2).
    binv HD. unfold dense_permute in HD0. ifd HD0. okinv HD0.
    pose proof (IHp _ _ HC S1 E E0) as H1.
    assert (EL : length (batch a) = length (bsh a0)) by (unfold batch; rewrite (BTeq_bsh _ _ H1); reflexivity).
    assert (HA1 : alg_permute a (swap_perm (length (bsh a0)) p0 q) = Ok r0).
    { rewrite <- EL. destruct a; simpl in S2; try discriminate; exact HA0. }
    eapply BTeq_trans; [apply (alg_permute_correct a (swap_perm (length (bsh a0)) p0 q)); try assumption|].
    + rewrite EL. exact Q.
    + rewrite !dpermute_dbmap. rewrite (BTeq_bsh _ _ H1).
      apply (dbmap_eq (bsh a0)); [|exact H1|exact (BTeq_bsh _ _ H1)].
      intros I HI. apply lunperm_inb; assumption.
  - (* mT *)
    simpl in HA, HD, HS. binv HA. apply guard_ok in HA0. destruct HA0 as (W & HA0).
    binv HD. okinv HD0. pose proof (IHp _ _ HC HS E E0) as H1.
    eapply BTeq_trans; [apply (alg_mT_correct a); assumption|]. apply dtr_eq. exact H1.
  - (* sum over a batch dimension *)
    simpl in HA, HD, HS. binv HA. apply guard_ok in HA0. destruct HA0 as (W & HA0).
    rewrite E in HS. apply andb_true_iff in HS. destruct HS as (HS & SO).
    binv HD. unfold dense_sum_batch in HD0. ifd HD0. okinv HD0. apply Nat.ltb_lt in Q.
    pose proof (IHp _ _ HC HS E E0) as H1.
    eapply BTeq_trans; [apply (alg_sum_batch_correct a p0); try assumption|].
    + unfold batch. rewrite (BTeq_bsh _ _ H1). exact Q.
    + apply orb_true_iff in SO. destruct SO as [SO|SO]; [left; exact SO|right; apply Nat.eqb_eq; exact SO].
    + apply dsumdim_eq; [exact H1|]. rewrite (BTeq_bsh _ _ H1). exact Q.
  - (* add_diagonal, 0-d diagonal *)
    apply andb_true_iff in HC. destruct HC as (HC & SD). apply scalar0b_ok in SD.
    simpl in HA, HD, HS. binv HA. apply guard_ok in HA0. destruct HA0 as (W & HA0).
    rewrite E in HS. apply andb_true_iff in HS. destruct HS as (S1 & S2).
    binv HD. pose proof (IHp _ _ HC S1 E E0) as H1.
    destruct (dense_add_diagonal0 _ _ _ (proj1 SD) HD0) as (SQ & HDD).
    eapply BTeq_trans; [apply (alg_add_diagonal_correct0 a d r0); assumption|].
    eapply BTeq_trans; [|apply BTeq_sym; exact HDD].
    unfold cols. rewrite (BTeq_nc _ _ H1).
    apply dadd_eq; [exact H1|apply BTeq_refl| | |]; simpl.
    + rewrite (proj1 SD). destruct (bsh (denote a)); reflexivity.
    + rewrite (BTeq_nr _ _ H1). congruence.
    + rewrite (BTeq_nc _ _ H1). reflexivity.
  - (* add_jitter *)
    simpl in HA, HD, HS. binv HA. apply guard_ok in HA0. destruct HA0 as (W & HA0).
    rewrite E in HS. apply andb_true_iff in HS. destruct HS as (S1 & S2).
    binv HD. pose proof (IHp _ _ HC S1 E E0) as H1.
    assert (HA1 : alg_add_diagonal a (zconst v) = Ok r0).
    { unfold alg_add_jitter in HA0. destruct a; try discriminate; exact HA0. }
    unfold dense_add_jitter in HD0.
    assert (SD : scalar0 (zconst v)) by (repeat split).
    destruct (dense_add_diagonal0 _ _ _ (proj1 SD) HD0) as (SQ & HDD).
    eapply BTeq_trans; [apply (alg_add_diagonal_correct0 a (zconst v) r0); assumption|].
    eapply BTeq_trans; [|apply BTeq_sym; exact HDD].
    unfold cols. rewrite (BTeq_nc _ _ H1).
    apply dadd_eq; [exact H1|apply BTeq_refl| | |]; simpl.
    + destruct (bsh (denote a)); reflexivity.
    + rewrite (BTeq_nr _ _ H1). congruence.
    + rewrite (BTeq_nc _ _ H1). reflexivity.
Qed.
