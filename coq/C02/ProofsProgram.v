(* C02.ProofsProgram — multi-step programs: by induction on the program, the object the library ends up with denotes the
   value of the same program evaluated on dense tensors. *)
From Coq Require Import List ZArith Lia Bool Arith.
Import ListNotations.
Require Import C02.Sums C02.Batch C02.Tensor C02.Dense C02.Op C02.Model C02.Spec.
Require Import C02.ProofsDense C02.ProofsBase C02.ProofsExpand C02.ProofsCtor C02.ProofsMT C02.ProofsMatmul C02.ProofsRaw C02.ProofsAdd C02.ProofsMul.
Open Scope Z_scope.

(* operations whose step theorem is proved *)
Fixpoint covered (p : Prog) : bool :=
  match p with
  | PLeaf _ => true
  | PBin BMatmul a b => covered a && covered b
  | PBin BAdd a b => covered a && covered b
  | PBinT BMul a (APy _) => covered a
  | PRBinT BMul (APy _) a => covered a
  | PExpand a _ => covered a
  | PmT a => covered a
  | _ => false
  end.

(* no step hits a recorded defect cell of the pinned library (known_findings.d/C02-*.json) *)
(* the side conditions of one step, read off the objects the two operands evaluate to *)
Definition same_size (x y : Op) : bool := Nat.eqb (rows y) (rows x) && Nat.eqb (cols y) (cols x).

Definition safe_add_step (x y : Op) : bool :=
  match x with
  | Zero b _ _ => false          (* Zero + y returns y as it is: see ProofsAdd (zpath) *)
  | _ => zpath x && zpath y && zok x y && same_size x y
  end.

(* x * z for a python number z: classes covered by ProofsMul, and z has the exact iterated square roots that the Root family
   will take (decidable: checked by computing them) *)
Fixpoint sqnb (n : nat) (z : Z) : bool :=
  match n with
  | O => true
  | S m => if 0 <? z then Z.eqb (Z.sqrt z * Z.sqrt z) z && sqnb m (Z.sqrt z) else true
  end.

Definition safe_mulc_step (x : Op) (z : Z) : bool :=
  negb (is_zero x) && mulc_cov x && sqnb (rdepth x) z.

Fixpoint safe (p : Prog) : bool :=
  match p with
  | PLeaf _ => true
  | PBin o a b =>
      safe a && safe b &&
      match o, eval_alg a, eval_alg b with
      | BMatmul, Ok x, Ok y => safe_matmul x y
      | BAdd, Ok x, Ok y => safe_add_step x y
      | _, _, _ => true
      end
  | PBinT o a t =>
      safe a &&
      match o, t, eval_alg a with
      | BMul, APy z, Ok x => safe_mulc_step x z
      | _, _, _ => true
      end
  | PRBinT o t a =>
      safe a &&
      match o, t, eval_alg a with
      | BMul, APy z, Ok x => safe_mulc_step x z
      | _, _, _ => true
      end
  | PDiv a _ _ | PExpand a _ | PUnsqueeze a _ | PPermute a _ | PTransposeB a _ _ | PmT a
  | PSumBatch a _ | PAddDiagonal a _ | PAddJitter a _ => safe a
  end.

Lemma sqnb_sqn n z : sqnb n z = true -> sqn n z.
Proof.
  revert z. induction n as [|n IH]; intros z H; simpl in *; [exact I|].
  intros Hz. apply Z.ltb_lt in Hz. rewrite Hz in H. apply andb_true_iff in H. destruct H as (H1 & H2).
  apply Z.eqb_eq in H1. split; [exact H1|apply IH; exact H2].
Qed.

(* one multiplication step by a python number *)
Lemma mul_py_step x z r X D :
  wf x -> safe_mulc_step x z = true -> alg_mul x (APy z) = Ok r -> denote x == X -> dense_mul X (APy z) = Ok D -> denote r == D.
Proof.
  intros W HS HA H1 HD. unfold safe_mulc_step in HS. rewrite !andb_true_iff, negb_true_iff in HS. destruct HS as ((NZ & CV) & SQ).
  assert (HA' : alg_mul_constant x (zconst z) = Ok r).
  { destruct x; simpl in NZ; try discriminate; exact HA. }
  unfold dense_mul, dense_ew in HD. simpl argval in HD.
  assert (RC : rcompat (to_raw X) (zconst z) = true) by (unfold rcompat; simpl; reflexivity).
  rewrite RC in HD. okinv HD.
  eapply BTeq_trans; [apply (alg_mul_constant_correct0 x (zconst z) r W); try assumption; [repeat split|apply sqnb_sqn; exact SQ]|].
  eapply BTeq_trans; [apply dscale0_eq; [reflexivity|exact H1]|].
  apply BTeq_sym. apply rmul_scalar.
Qed.

Lemma guard_ok {A} x (k : result A) r : guard x k = Ok r -> wf x /\ k = Ok r.
Proof. unfold guard, wf. destruct (wfb x); [auto|discriminate]. Qed.

Theorem program_correct p : forall r D,
  covered p = true -> safe p = true -> eval_alg p = Ok r -> eval_dense p = Ok D -> denote r == D.
Proof.
  induction p; intros r0 D HC HS HA HD; simpl in HC; try discriminate.
  - (* leaf *) simpl in HA, HD. okinv HA. okinv HD. apply BTeq_refl.
  - (* binary, operator operands *)
    destruct o; try discriminate.
    + (* add *)
      apply andb_true_iff in HC. destruct HC as (C1 & C2).
      simpl in HA, HD, HS. binv HA. binv HA0. apply guard_ok in HA1. destruct HA1 as (W1 & HA1).
      apply guard_ok in HA1. destruct HA1 as (W2 & HA1). simpl in HA1.
      rewrite E, E0 in HS. rewrite !andb_true_iff in HS. destruct HS as ((S1 & S2) & S3).
      binv HD. binv HD0. simpl in HD1.
      pose proof (IHp1 _ _ C1 S1 E E1) as H1. pose proof (IHp2 _ _ C2 S2 E0 E2) as H2.
      unfold safe_add_step in S3.
      assert (S3' : zpath a = true /\ zpath a0 = true /\ zok a a0 = true /\ same_size a a0 = true).
      { destruct a; try discriminate; rewrite !andb_true_iff in S3; tauto. }
      destruct S3' as (Z1 & Z2 & Z3 & Z4). unfold same_size in Z4. rewrite andb_true_iff, !Nat.eqb_eq in Z4. destruct Z4 as (R1 & R2).
      destruct (alg_add_correct a a0 r0 W1 W2 R1 R2 Z1 Z2 Z3 HA1) as (HR & CB).
      assert (Er : nr a2 = nr a1 /\ nc a2 = nc a1).
      { unfold rows, cols in *. rewrite <- (BTeq_nr _ _ H1), <- (BTeq_nr _ _ H2), <- (BTeq_nc _ _ H1), <- (BTeq_nc _ _ H2). split; assumption. }
      destruct Er as (Er & Ec).
      rewrite (dense_add_op a1 (Dense a2)) in HD1 by (simpl; assumption).
      ifd HD1. okinv HD1.
      eapply BTeq_trans; [exact HR|].
      eapply BTeq_trans; [apply dadd_eq; [exact H1|exact H2|exact CB| |]; unfold rows, cols in *; congruence|].
      apply BTeq_sym. apply radd_same; congruence.
    + (* matmul *)
    apply andb_true_iff in HC. destruct HC as (C1 & C2).
    simpl in HA, HD, HS. binv HA. binv HA0. apply guard_ok in HA1. destruct HA1 as (W1 & HA1).
    apply guard_ok in HA1. destruct HA1 as (W2 & HA1). simpl in HA1.
    rewrite E, E0 in HS. rewrite !andb_true_iff in HS. destruct HS as ((S1 & S2) & S3).
    binv HD. binv HD0. simpl in HD1. unfold dense_matmul in HD1.
    destruct (Nat.eqb (nc a1) (nr a2) && bcompat (bsh a1) (bsh a2)) eqn:CC; [|discriminate]. okinv HD1.
    apply andb_true_iff in CC. destruct CC as (CC1 & CC2). apply Nat.eqb_eq in CC1.
    pose proof (IHp1 _ _ C1 S1 E E1) as H1. pose proof (IHp2 _ _ C2 S2 E0 E2) as H2.
    eapply BTeq_trans; [apply (alg_matmul_correct a a0); try assumption|].
    * unfold cols, rows. rewrite (BTeq_nc _ _ H1), (BTeq_nr _ _ H2). exact CC1.
    * apply dmm_eq; try assumption.
      -- rewrite (BTeq_bsh _ _ H1), (BTeq_bsh _ _ H2). exact CC2.
      -- rewrite (BTeq_nc _ _ H1), (BTeq_nr _ _ H2). symmetry. exact CC1.
  - (* operator * python number *)
    destruct o; try discriminate. destruct t; try discriminate.
    simpl in HA, HD, HS. binv HA. apply guard_ok in HA0. destruct HA0 as (W & HA0). simpl in HA0.
    rewrite E in HS. apply andb_true_iff in HS. destruct HS as (S1 & S2).
    binv HD. simpl in HD0. pose proof (IHp _ _ HC S1 E E0) as H1.
    eapply mul_py_step; eassumption.
  - (* python number * operator *)
    destruct o; try discriminate. destruct t; try discriminate.
    simpl in HA, HD, HS. binv HA. apply guard_ok in HA0. destruct HA0 as (W & HA0). simpl in HA0.
    rewrite E in HS. apply andb_true_iff in HS. destruct HS as (S1 & S2).
    binv HD. simpl in HD0. pose proof (IHp _ _ HC S1 E E0) as H1.
    eapply mul_py_step; eassumption.
  - (* expand *)
    simpl in HA, HD, HS. binv HA. apply guard_ok in HA0. destruct HA0 as (W & HA0).
    binv HD. unfold dense_expand in HD0. destruct (bsub (bsh a0) B) eqn:SB; [|discriminate]. okinv HD0.
    pose proof (IHp _ _ HC HS E E0) as H1.
    eapply BTeq_trans; [apply (alg_expand_correct a B); try assumption|].
    + unfold batch. rewrite (BTeq_bsh _ _ H1). exact SB.
    + apply dexpand_eq'; [exact H1|]. rewrite (BTeq_bsh _ _ H1). exact SB.
  - (* mT *)
    simpl in HA, HD, HS. binv HA. apply guard_ok in HA0. destruct HA0 as (W & HA0).
    binv HD. okinv HD0. pose proof (IHp _ _ HC HS E E0) as H1.
    eapply BTeq_trans; [apply (alg_mT_correct a); assumption|]. apply dtr_eq. exact H1.
Qed.
