(* C02.Sums — copied verbatim (logical path renamed) from coq/C01/Sums.v, which its owner declared stable,
   so that the C02 development is self-contained while other builders edit coq/C01 concurrently. *)
From Coq Require Import List ZArith Lia Bool Arith.
Import ListNotations.
Open Scope Z_scope.

(* zsum n f = f 0 + f 1 + ... + f (n-1) *)
Fixpoint zsum (n : nat) (f : nat -> Z) : Z :=
  match n with O => 0 | S k => zsum k f + f k end.

Lemma zsum_ext n f g : (forall i, (i < n)%nat -> f i = g i) -> zsum n f = zsum n g.
Proof.
  induction n as [|n IH]; simpl; intros H; [reflexivity|].
  rewrite IH, (H n); auto with arith.
Qed.

Lemma zsum_zero n f : (forall i, (i < n)%nat -> f i = 0) -> zsum n f = 0.
Proof.
  induction n as [|n IH]; simpl; intros H; [reflexivity|].
  rewrite IH, (H n); auto with arith.
Qed.

Lemma zsum_add n f g : zsum n (fun i => f i + g i) = zsum n f + zsum n g.
Proof. induction n as [|n IH]; simpl; [reflexivity|]. rewrite IH. ring. Qed.

Lemma zsum_sub n f g : zsum n (fun i => f i - g i) = zsum n f - zsum n g.
Proof. induction n as [|n IH]; simpl; [reflexivity|]. rewrite IH. ring. Qed.

Lemma zsum_scale_l n c f : zsum n (fun i => c * f i) = c * zsum n f.
Proof. induction n as [|n IH]; simpl; [ring|]. rewrite IH. ring. Qed.

Lemma zsum_scale_r n c f : zsum n (fun i => f i * c) = zsum n f * c.
Proof. induction n as [|n IH]; simpl; [ring|]. rewrite IH. ring. Qed.

(* only index k contributes *)
Lemma zsum_single n k f :
  (k < n)%nat -> (forall i, (i < n)%nat -> i <> k -> f i = 0) -> zsum n f = f k.
Proof.
  induction n as [|n IH]; simpl; intros Hk H; [lia|].
  destruct (Nat.eq_dec k n) as [->|Hne].
  - rewrite zsum_zero; [ring|]. intros i Hi. apply H; lia.
  - rewrite IH; [|lia|intros i Hi Hik; apply H; lia]. rewrite (H n); [ring|lia|lia].
Qed.

Lemma zsum_swap n m (f : nat -> nat -> Z) :
  zsum n (fun i => zsum m (fun j => f i j)) = zsum m (fun j => zsum n (fun i => f i j)).
Proof.
  induction n as [|n IH]; simpl.
  - symmetry. apply zsum_zero. reflexivity.
  - rewrite IH, <- zsum_add. reflexivity.
Qed.

Lemma zsum_app a b f : zsum (a + b) f = zsum a f + zsum b (fun i => f (a + i)%nat).
Proof.
  induction b as [|b IH]; simpl.
  - rewrite Nat.add_0_r. ring.
  - rewrite Nat.add_succ_r. simpl. rewrite IH. ring.
Qed.

(* Σ_{J < n*N} F J = Σ_{a<n} Σ_{J'<N} F (a*N + J') *)
Lemma zsum_split_mul n N F :
  zsum (n * N) F = zsum n (fun a => zsum N (fun J => F (a * N + J)%nat)).
Proof.
  induction n as [|n IH]; simpl; [reflexivity|].
  rewrite Nat.add_comm, zsum_app, IH. reflexivity.
Qed.

(* Kronecker-delta style helpers *)
Definition zdelta (a b : nat) : Z := if Nat.eqb a b then 1 else 0.

Lemma zsum_delta_l n k f : (k < n)%nat -> zsum n (fun i => zdelta k i * f i) = f k.
Proof.
  intros Hk. rewrite (zsum_single n k); [unfold zdelta; rewrite Nat.eqb_refl; ring|assumption|].
  intros i _ Hne. unfold zdelta. destruct (Nat.eqb_spec k i); [congruence|ring].
Qed.

Lemma zsum_delta_r n k f : (k < n)%nat -> zsum n (fun i => f i * zdelta i k) = f k.
Proof.
  intros Hk. rewrite (zsum_single n k); [unfold zdelta; rewrite Nat.eqb_refl; ring|assumption|].
  intros i _ Hne. unfold zdelta. destruct (Nat.eqb_spec i k); [congruence|ring].
Qed.

Lemma zsum_delta_out_l n k f : (n <= k)%nat -> zsum n (fun i => zdelta k i * f i) = 0.
Proof.
  intros Hk. apply zsum_zero. intros i Hi. unfold zdelta.
  destruct (Nat.eqb_spec k i); [lia|ring].
Qed.

(* sums over list of summands (used for Sum / Cat) *)
Fixpoint zsuml (l : list Z) : Z := match l with [] => 0 | x :: r => x + zsuml r end.

Lemma zsum_zsuml {A} (l : list A) n (f : A -> nat -> Z) :
  zsum n (fun i => zsuml (map (fun a => f a i) l)) = zsuml (map (fun a => zsum n (f a)) l).
Proof.
  induction l as [|a l IH]; simpl.
  - apply zsum_zero. reflexivity.
  - rewrite zsum_add, IH. reflexivity.
Qed.

(* nat div/mod facts in the shape the index-map proofs use them *)
Lemma divmod_mul_add q m i : (i < m)%nat -> ((q * m + i) / m = q)%nat /\ ((q * m + i) mod m = i)%nat.
Proof.
  intros H. split.
  - rewrite Nat.add_comm, Nat.div_add by lia. rewrite Nat.div_small by lia. lia.
  - rewrite Nat.add_comm, Nat.mod_add by lia. apply Nat.mod_small; lia.
Qed.

Lemma div_lt_mul a m n : (a < m * n)%nat -> (a / n < m)%nat.
Proof.
  intros H. destruct n as [|n]; [lia|].
  apply Nat.div_lt_upper_bound; lia.
Qed.

Lemma mod_lt_pos a n : (0 < n)%nat -> (a mod n < n)%nat.
Proof. intros. apply Nat.mod_upper_bound. lia. Qed.

Lemma div_mod_eq a n : (0 < n)%nat -> (a = (a / n) * n + a mod n)%nat.
Proof. intros H. rewrite (Nat.div_mod a n) at 1 by lia. lia. Qed.
