(* C02.Property — theorem statements only; proofs are in Proofs*.v.

   Notation: [denote e] is the dense batched matrix an operator object represents, [==] equality of batched matrices
   (same batch shape, same sizes, same entries), [wf] the invariants the library's constructors establish. *)
From Coq Require Import List ZArith Lia Bool Arith.
Import ListNotations.
Require Import C02.Sums C02.Batch C02.Tensor C02.Dense C02.Op C02.Model C02.Spec.
Require Import C02.ProofsDense C02.ProofsBase C02.ProofsExpand C02.ProofsCtor C02.ProofsMT C02.ProofsMatmul C02.ProofsRaw C02.ProofsAdd
               C02.ProofsMul C02.ProofsSub C02.ProofsMulM C02.ProofsBatch C02.ProofsAddDiag C02.ProofsPermute C02.ProofsSumBatch C02.ProofsProgram C02.ProofsRepeat.

(* the Gallina broadcast function used everywhere in the model and the specification is torch's documented rule *)
Theorem C02_broadcast_shapes_is_torch_rule a b r :
  torch_broadcast_shapes a b = Some r <-> torch_rule a b r.
Proof. exact (torch_broadcast_shapes_correct a b r). Qed.

(* _expand_batch (Dense, Diag, ConstantDiag, Identity, Zero, Triangular, Root family, Kronecker family, Sum family,
   Matmul, ConstantMul; any nesting): the returned object denotes torch's expand of the matrix *)
Theorem C02_expand_partial e B r :
  wf e -> bsub (batch e) B = true -> alg_expand e B = Ok r -> denote r == dexpand B (denote e).
Proof. exact (alg_expand_correct e B r). Qed.

(* _transpose_nonbatch (same classes + Toeplitz, user subclasses): the returned object denotes the transposed matrix *)
Theorem C02_transpose_partial e r : wf e -> alg_mT e = Ok r -> denote r == dtr (denote e).
Proof. exact (alg_mT_correct e r). Qed.

(* SumLinearOperator / AddedDiag / KroneckerProductAddedDiag / LowRankRootAddedDiag / PsdSum / SumKronecker constructors on ANY
   list of operands with broadcastable batch shapes: the object denotes the broadcast sum of its arguments *)
Theorem C02_sum_constructor k ops r rr cc :
  ops <> [] -> same_dims_l rr cc ops -> mk_sumc k ops = Ok r -> denote r == dsuml (map denote ops).
Proof. exact (mk_sumc_correct k ops r rr cc). Qed.

(* MatmulLinearOperator(l, r): denotes the (batch-broadcast) matrix product, and is only built when torch.matmul is defined *)
Theorem C02_matmul_constructor l r m :
  mk_matmul l r = Ok m ->
  denote m == dmm (denote l) (denote r) /\ cols l = rows r /\ bcompat (batch l) (batch r) = true.
Proof. exact (mk_matmul_correct l r m). Qed.

(* matmul with an operator right-hand side, including the structured results of Diag / ConstantDiag / Identity / Zero /
   KroneckerProductDiag left operands (Dense, Diag, Triangular results), and the three BlockDiag fast paths
   ( BlockDiag @ BlockDiag block by block when the base shapes agree, Diag-class @ BlockDiag and BlockDiag @ Diag-class with
   the diagonal cut into one diagonal per block by .view ), recursively through nested bases — every class pair of the
   model except the Interpolated override.  [safe_matmul] excludes the recorded defect C02-zero-matmul-drops-batch
   (recursively, since the block fast paths call matmul on the bases). *)
Theorem C02_matmul_partial e o r :
  wf e -> wf o -> cols e = rows o -> safe_matmul e o = true -> alg_matmul e o = Ok r ->
  denote r == dmm (denote e) (denote o).
Proof. exact (alg_matmul_correct e o r). Qed.

(* operator + operator, the whole class-pair table of the model: the base-class chain (Zero absorbed, Diag -> AddedDiag,
   Root -> add_low_rank value, else Sum) and the overrides of Dense, Diag, ConstantDiag / Identity, Triangular, Sum / PsdSum /
   SumKronecker (lists appended), AddedDiag / KroneckerProductAddedDiag / LowRankRootAddedDiag (diagonal operands merged into the
   diagonal part, others into the linear part), LowRankRoot (-> LowRankRootAddedDiag) and the Kronecker family
   (-> KroneckerProductAddedDiag / SumKronecker / add_diagonal): the returned object denotes the broadcast sum, and is only
   returned when the batch shapes broadcast.  [zpath] / [zok] exclude the recorded Zero-absorption defects
   (C02-zero-add-returns-other, C02-add-zero-returns-self). *)
Theorem C02_add_partial e o r :
  wf e -> wf o -> rows o = rows e -> cols o = cols e -> zpath e = true -> zpath o = true -> zok e o = true ->
  alg_add e (AOp o) = Ok r -> denote r == dadd (denote e) (denote o) /\ bcompat (batch e) (batch o) = true.
Proof. exact (alg_add_correct e o r). Qed.

(* operator * constant (python number, 0-d tensor): every _mul_constant override of the model except Block* / Interpolated:
   Diag, ConstantDiag, Identity, KroneckerProductDiag (-> Diag), Triangular (re-dispatch through mul on the factor), Root /
   LowRankRoot / Chol (positive constants folded into the root: exact when the constant has the integer square roots [sqn]),
   the Sum family (mapped over the summands), LowRankRootAddedDiag (sign test), Mul, and ConstantMul for the rest: the
   returned object denotes c * A.  Batches of constants are NOT covered: see the four recorded defects
   C02-{cdiag,triangular,truth-value,block}-mul-batch-constants. *)
Theorem C02_mul_constant_partial e c r :
  wf e -> scalar0 c -> mulc_cov e = true -> sqn (rdepth e) (c0 c) ->
  alg_mul_constant e c = Ok r -> denote r == dscale (denote e) c.
Proof. exact (alg_mul_constant_correct0 e c r). Qed.

(* operator - operator : self + other.mul(-1).  The negated operand [no] is the object other.mul(-1) builds; its constructor
   invariants and the Zero-absorption side conditions are decidable and are checked on that object (ProofsProgram.safe). *)
Theorem C02_sub_partial e o no r :
  wf e -> wf o -> rows o = rows e -> cols o = cols e -> is_zero o = false -> mulc_cov o = true ->
  alg_mul o (APy (-1)) = Ok no -> wf no -> zpath e = true -> zpath no = true -> zok e no = true ->
  alg_sub e (AOp o) = Ok r -> denote r == dsub (denote e) (denote o) /\ bcompat (batch e) (batch o) = true.
Proof. exact (alg_sub_correct e o no r). Qed.

(* elementwise operator * operator (_mul_matrix): Dense on either side, the Diag family (keeps the diagonal of the other
   factor), ConstantDiag * ConstantDiag, and MulLinearOperator for the rest (its value; the numerical root decompositions it
   performs are not modelled).  Identity is excluded: finding C02-identity-mul-matrix. *)
Theorem C02_mul_matrix_partial e o r :
  wf e -> wf o -> rows o = rows e -> cols o = cols e -> is_ident e = false -> bcompat (batch e) (batch o) = true ->
  alg_mul_matrix e o = Ok r -> denote r == dhad (denote e) (denote o).
Proof. exact (alg_mul_matrix_correct e o r). Qed.

(* _unsqueeze_batch (Dense, Diag, ConstantDiag, Identity, Zero, Triangular, Root family, Kronecker family, Sum family,
   Matmul, ConstantMul; any nesting) *)
Theorem C02_unsqueeze_partial e p r :
  wf e -> (p <= length (batch e))%nat -> alg_unsqueeze e p = Ok r -> denote r == dunsqueeze (denote e) p.
Proof. exact (alg_unsqueeze_correct e p r). Qed.

(* _permute_batch (permute / transpose of batch dimensions), same classes; [zfree]: ZeroLinearOperator keeps its sizes
   (finding C02-zero-permute-noop) *)
Theorem C02_permute_partial e perm r :
  wf e -> zfree e = true -> is_permb perm (length (batch e)) = true -> alg_permute e perm = Ok r ->
  denote r == dpermute (denote e) perm.
Proof. exact (alg_permute_correct e perm r). Qed.

(* _sum_batch (sum over a batch dimension): the overrides of Dense, Diag, ConstantDiag, Identity (-> ConstantDiag), Zero,
   Triangular and the Sum family (mapped over the summands; correct BECAUSE the Sum constructors expand every summand to the
   common batch shape, see C02_sum_batch_needs_expansion) for every batch position [sumb_own]; the base class
   (SumBatchLinearOperator over the operator, any class) when the summed dimension is the last batch dimension (p = 0; for the
   other positions the Block constructor first permutes the batch: model + correspondence only).  KroneckerProductDiag raises:
   finding C02-krondiag-sum-batch. *)
Theorem C02_sum_batch_partial e p r :
  wf e -> (p < length (batch e))%nat -> (sumb_own e = true \/ p = 0%nat) ->
  alg_sum_batch e p = Ok r -> denote r == dsumdim (denote e) p.
Proof. exact (alg_sum_batch_correct e p r). Qed.

(* why SumLinearOperator.__init__ must expand its operands: mapping _sum_batch over UNEXPANDED summands (batch shapes (3) and (1):
   an object the constructors never build, [wfb] rejects it) counts the size-1 summand once instead of three times.  A finite
   witness, checked by computation. *)
Theorem C02_sum_batch_needs_expansion :
  exists ops r, wfb (SumC KSum ops) = false /\ alg_sum_batch (SumC KSum ops) 0 = Ok r /\
                ent (denote r) [] 0%nat 0%nat <> ent (dsumdim (denote (SumC KSum ops)) 0) [] 0%nat 0%nat.
Proof.
  exists [Dense (dones [3%nat] 1 1); Dense (dones [1%nat] 1 1)]. eexists. split; [reflexivity|]. split; [reflexivity|].
  vm_compute. discriminate.
Qed.

(* BatchRepeatLinearOperator(base, rep).repeat(sizes) returns BatchRepeatLinearOperator(base, rep' ) where rep' multiplies the
   new sizes into the existing repeat counts LEFT-padded with ones ( [brep rep s] ; innermost-first the new batch dimensions are
   appended): the object denotes torch's repeat of the repeated matrix, for any ranks ( [drepeat] pads the shape of its
   argument like torch.Tensor.repeat; the constructor's unsqueeze of the base to the new rank is elided by meaning ).
   The first repeat of any other class is BatchRepeatLinearOperator(self, sizes), whose denotation is [drepeat] by definition.
   Not part of the Prog language: repeat steps are compared by the direct predicate only. *)
Theorem C02_repeat_repeat_partial b rep s :
  Forall (fun d => (0 < d)%nat) (batch b) -> Forall (fun d => (0 < d)%nat) rep ->
  denote (alg_repeat_brepeat b rep s) == drepeat (denote (BRepeat b rep)) s.
Proof. exact (alg_repeat_brepeat_correct b rep s). Qed.

(* the padding side matters: op.repeat(3,1,1).repeat(2,1,1,1) has batch shape (2,3); padding the existing counts on the other
   side (innermost-first: a one PREPENDED) gives (6,1) *)
Example C02_repeat_padding_side : brep [3%nat] [1%nat; 2%nat] = [3%nat; 2%nat] /\ brep (1%nat :: [3%nat]) [1%nat; 2%nat] = [1%nat; 6%nat].
Proof. split; reflexivity. Qed.

(* add_jitter / add_diagonal with a 0-d diagonal, every override of the model (base -> AddedDiag with a ConstantDiag, Diag
   family, Triangular, the three added-diagonal classes, Kronecker -> KroneckerProductAddedDiag, LowRankRoot ->
   LowRankRootAddedDiag): the object denotes A + c I.  ZeroLinearOperator.add_diagonal is a recorded defect (zpath). *)
Theorem C02_add_diagonal0_partial e d r :
  wf e -> scalar0 d -> zpath e = true -> alg_add_diagonal e d = Ok r ->
  denote r == dadd (denote e) (dconstdiag d (cols e)).
Proof. exact (alg_add_diagonal_correct0 e d r). Qed.

(* MULTI-STEP PROGRAMS (the unbounded quantifier of the property), by induction on the program: for every program built from
   the covered operations (see ProofsProgram.covered: leaves of ANY class, +, -, elementwise *, @, * and / by a python number or 0-d tensor in either
   order, * by a tensor with the operand's matrix sizes, expand, unsqueeze, permute, transpose of batch dimensions, sum over a batch dimension, .mT, add_jitter, add_diagonal
   with a 0-d diagonal) in which no step
   hits a recorded defect cell, if the library-side evaluation (eval_alg: the objects the dispatching methods build, step
   after step) returns an object r and the same program is defined on dense tensors (eval_dense: torch semantics), then r
   denotes exactly the dense value.  Operations outside [covered] are listed in design_notes/C02.md. *)
Theorem C02_program_partial p r D :
  covered p = true -> safe p = true -> eval_alg p = Ok r -> eval_dense p = Ok D -> denote r == D.
Proof. exact (program_correct p r D). Qed.

(* hypotheses are satisfiable *)
Example C02_expand_example :
  exists e B r, wf e /\ bsub (batch e) B = true /\ alg_expand e B = Ok r.
Proof.
  exists (SumC KAddedDiag [Dense (dzero [] 2 2); Diag (dones [] 2 1)]), [3%nat].
  eexists. repeat split; reflexivity.
Qed.

Example C02_program_example :
  exists p r D, covered p = true /\ safe p = true /\ eval_alg p = Ok r /\ eval_dense p = Ok D.
Proof.
  exists (PAddJitter (PBin BSub (PBinT BMul (PBin BAdd (PmT (PBin BMatmul (PExpand (PLeaf (Diag (dones [] 2 1))) [3%nat])
                                                                         (PLeaf (Dense (dzero [] 2 2)))))
                                                         (PLeaf (RootC KRoot (Dense (dones [] 2 1))))) (APy 4))
                             (PUnsqueeze (PLeaf (KronC KKron [Dense (dones [] 2 1); Dense (dones [] 1 2)])) 0%nat)) 2).
  eexists. eexists. repeat split; reflexivity.
Qed.
