(* C02.Property — theorem statements only; proofs are in Proofs*.v.

   Notation: [denote e] is the dense batched matrix an operator object represents, [==] equality of batched matrices
   (same batch shape, same sizes, same entries), [wf] the invariants the library's constructors establish. *)
From Coq Require Import List ZArith Lia Bool Arith.
Import ListNotations.
Require Import C02.Sums C02.Batch C02.Tensor C02.Dense C02.Op C02.Model C02.Spec.
Require Import C02.ProofsDense C02.ProofsBase C02.ProofsExpand C02.ProofsCtor C02.ProofsMT C02.ProofsMatmul.

(* the Gallina broadcast function used everywhere in the model and the specification is torch's documented rule *)
Theorem C02_broadcast_shapes_is_torch_rule a b r :
  torch_broadcast_shapes a b = Some r <-> torch_rule a b r.
Proof. exact (torch_broadcast_shapes_correct a b r). Qed.

(* _expand_batch (Dense, Diag, ConstantDiag, Identity, Zero, Triangular, Root family, Kronecker family, Sum family,
   Matmul, ConstantMul; any nesting): the returned object denotes torch's expand of the matrix *)
Theorem C02_expand_partial e B r :
  wf e -> bsub (batch e) B = true -> alg_expand e B = Ok r -> denote r == dexpand B (denote e).
Proof. exact (alg_expand_correct e B r). Qed.

(* _transpose_nonbatch (same classes + Toeplitz, user subclasses): the returned object denotes the transposed matrix *)
Theorem C02_transpose_partial e r : wf e -> alg_mT e = Ok r -> denote r == dtr (denote e).
Proof. exact (alg_mT_correct e r). Qed.

(* SumLinearOperator / AddedDiag / KroneckerProductAddedDiag / LowRankRootAddedDiag / PsdSum / SumKronecker constructors on ANY
   list of operands with broadcastable batch shapes: the object denotes the broadcast sum of its arguments *)
Theorem C02_sum_constructor k ops r rr cc :
  Forall wf ops -> ops <> [] -> same_dims_l rr cc ops -> mk_sumc k ops = Ok r -> denote r == dsuml (map denote ops).
Proof. exact (mk_sumc_correct k ops r rr cc). Qed.

(* MatmulLinearOperator(l, r): denotes the (batch-broadcast) matrix product, and is only built when torch.matmul is defined *)
Theorem C02_matmul_constructor l r m :
  wf l -> wf r -> mk_matmul l r = Ok m ->
  denote m == dmm (denote l) (denote r) /\ cols l = rows r /\ bcompat (batch l) (batch r) = true.
Proof. exact (mk_matmul_correct l r m). Qed.

(* matmul with an operator right-hand side, including the structured results of Diag / ConstantDiag / Identity / Zero /
   KroneckerProductDiag left operands (Dense, Diag, Triangular results) — every class pair of the model except the
   BlockDiag / Interpolated overrides.  [safe_matmul] excludes the recorded defect C02-zero-matmul-drops-batch. *)
Theorem C02_matmul_partial e o r :
  wf e -> wf o -> cols e = rows o -> safe_matmul e o = true -> alg_matmul e o = Ok r ->
  denote r == dmm (denote e) (denote o).
Proof. exact (alg_matmul_correct e o r). Qed.

(* hypotheses are satisfiable *)
Example C02_expand_example :
  exists e B r, wf e /\ bsub (batch e) B = true /\ alg_expand e B = Ok r.
Proof.
  exists (SumC KAddedDiag [Dense (dzero [] 2 2); Diag (dones [] 2 1)]), [3%nat].
  eexists. repeat split; reflexivity.
Qed.
