(* C02.ProofsPermute — _permute_batch (permute / transpose of batch dimensions) re-indexes the batch like torch's permute.
   ZeroLinearOperator keeps its sizes (finding C02-zero-permute-noop): [zfree] excludes it. *)
From Coq Require Import List ZArith Lia Bool Arith.
Import ListNotations.
Require Import C02.Sums C02.Batch C02.Tensor C02.Dense C02.Op C02.Model C02.Spec.
Require Import C02.ProofsDense C02.ProofsBase C02.ProofsExpand C02.ProofsCtor C02.ProofsBatch.
Open Scope Z_scope.

Lemma dpermute_dbmap A perm : dpermute A perm = dbmap (lperm perm (bsh A) 1%nat) (lunperm perm) A.
Proof. reflexivity. Qed.

(* ---- index facts ---------------------------------------------------------------------------------------------------------- *)

Lemma inb_nth Sh I : inb Sh I <-> (length I = length Sh /\ forall k, (k < length Sh)%nat -> (nth k I 0 < nth k Sh 1)%nat).
Proof.
  revert I. induction Sh as [|d Sh IH]; intros I; destruct I as [|i I]; simpl.
  - split; [intros _; split; [reflexivity|intros k Hk; lia]|intros _; exact Logic.I].
  - split; [contradiction|intros (H & _); discriminate].
  - split; [contradiction|intros (H & _); discriminate].
  - rewrite IH. split.
    + intros (H1 & H2 & H3). split; [congruence|]. intros k Hk. destruct k; [exact H1|apply H3; lia].
    + intros (H1 & H2). split; [apply (H2 0%nat); lia|]. split; [congruence|]. intros k Hk. apply (H2 (Datatypes.S k)). lia.
Qed.

Lemma find_perm old perm a : In old perm ->
  exists k, find (fun kp : nat * nat => Nat.eqb (snd kp) old) (combine (seq a (length perm)) perm) = Some ((a + k)%nat, old)
            /\ (k < length perm)%nat /\ nth k perm 0%nat = old.
Proof.
  revert a. induction perm as [|x l IH]; intros a HI; [contradiction|]. simpl.
  destruct (Nat.eqb_spec x old) as [->|N].
  - exists 0%nat. rewrite Nat.add_0_r. repeat split. lia.
  - destruct HI as [->|HI]; [congruence|]. destruct (IH (S a) HI) as (k & F & Hk & Hn).
    exists (S k). rewrite F. repeat split; [f_equal; f_equal; lia|lia|exact Hn].
Qed.

Lemma is_permb_spec perm n : is_permb perm n = true -> length perm = n /\ forall k, (k < n)%nat -> In k perm.
Proof.
  unfold is_permb. rewrite andb_true_iff, Nat.eqb_eq, forallb_forall. intros (H1 & H2). split; [exact H1|].
  intros k Hk. specialize (H2 k). rewrite in_seq in H2. specialize (H2 ltac:(lia)).
  apply existsb_exists in H2. destruct H2 as (x & Hx & E). apply Nat.eqb_eq in E. subst. exact Hx.
Qed.

Lemma nth_map_lt {T U} (f : T -> U) l k d d' : (k < length l)%nat -> nth k (map f l) d = f (nth k l d').
Proof.
  revert k. induction l as [|x l IH]; intros k Hk; simpl in *; [lia|]. destruct k; [reflexivity|apply IH; lia].
Qed.

Lemma lunperm_inb Sh perm I : is_permb perm (length Sh) = true -> inb (lperm perm Sh 1%nat) I -> inb Sh (lunperm perm I).
Proof.
  intros HP HI. destruct (is_permb_spec _ _ HP) as (HL & HIn).
  apply inb_nth in HI. destruct HI as (L1 & HI). unfold lperm in L1, HI. rewrite map_length in L1, HI.
  apply inb_nth. unfold lunperm. rewrite map_length, seq_length. split; [exact HL|].
  intros old Hold. rewrite nth_map_seq by lia.
  destruct (find_perm old perm 0%nat (HIn old Hold)) as (k & F & Hk & Hn). simpl in F. rewrite F.
  specialize (HI k Hk). rewrite (nth_map_lt _ perm k 1%nat 0%nat Hk), Hn in HI. exact HI.
Qed.

(* ---- the theorem ------------------------------------------------------------------------------------------------------------ *)

Fixpoint zfree (e : Op) : bool :=
  match e with
  | Zero _ _ _ => false
  | Tri b _ | RootC _ b | CMul b _ | BlockDiag b | BlockInter b | SumBatch b | BRepeat b _ | Interp b _ _ _ _ => zfree b
  | KronC _ ops | SumC _ ops | Cat ops _ => (fix go (l : list Op) : bool := match l with [] => true | x :: r => zfree x && go r end) ops
  | Matmul l r | Mul l r => zfree l && zfree r
  | _ => true
  end.

Lemma zfree_go_Forall ops :
  (fix go (l : list Op) : bool := match l with [] => true | x :: r => zfree x && go r end) ops = true ->
  Forall (fun x => zfree x = true) ops.
Proof. induction ops as [|x l IH]; intros H; constructor; apply andb_true_iff in H; destruct H; auto. Qed.

Theorem alg_permute_correct e : forall perm r,
  wf e -> zfree e = true -> is_permb perm (length (batch e)) = true -> alg_permute e perm = Ok r ->
  denote r == dpermute (denote e) perm.
Proof.
  induction e using Op_ind'; intros perm r0 HW ZF HP HX; simpl in ZF; try discriminate; simpl in HX; try discriminate.
  - (* Dense *) okinv HX. apply BTeq_refl.
  - (* Diag *) okinv HX. simpl. apply BTeq_intro; reflexivity.
  - (* CDiag *) okinv HX. simpl. apply BTeq_intro; reflexivity.
  - (* Ident *) okinv HX. simpl. apply BTeq_intro; reflexivity.
  - (* Tri *) apply wf_tri in HW. destruct HW as (HW & _). binv HX. okinv HX0. simpl. apply IHe; assumption.
  - (* RootC *)
    apply wf_rootc in HW.
    assert (HP' : is_permb perm (length (batch e)) = true) by (unfold batch in *; simpl in HP; rewrite bcast_refl in HP; exact HP).
    binv HX. rewrite (mk_rootc_denote _ _ _ HX0). simpl.
    pose proof (IHe _ _ HW ZF HP' E) as H1. rewrite dpermute_dbmap in *.
    set (S := bsh (denote e)) in *. simpl bsh. rewrite bcast_refl. fold S.
    assert (Hphi : forall I, inb (lperm perm S 1%nat) I -> inb S (lunperm perm I)) by (intros; apply lunperm_inb; assumption).
    eapply BTeq_trans; [apply dmm_eq; [exact H1|apply dtr_eq; exact H1| |]|].
    + simpl. apply bcompat_refl.
    + reflexivity.
    + eapply BTeq_trans; [apply dmm_eq_r; [simpl; apply bcompat_refl|reflexivity|apply dbmap_dtr]|].
      apply (dbmap_dmm S); try reflexivity. exact Hphi.
  - (* KronC *)
    pose proof HW as HW0. apply wf_kronc in HW. destruct HW as (HW & Hne & HPo & S & HU).
    pose proof (zfree_go_Forall _ ZF) as ZFs.
    rewrite go_is_mapM in HX. binv HX. okinv HX0. apply mapM_Forall2 in E.
    assert (ES : batch (KronC k ops) = S) by (apply batch_kronc; assumption).
    rewrite !denote_kronc. rewrite dpermute_dbmap.
    rewrite (kfold_shape S) by (assumption || (destruct ops; simpl; congruence)).
    assert (Hphi : forall I, inb (lperm perm S 1%nat) I -> inb S (lunperm perm I)) by (intros; apply lunperm_inb; [rewrite <- ES; assumption|assumption]).
    apply (kfold_dbmap S); try assumption; [destruct ops; simpl; congruence|].
    apply Forall2_map.
    apply (Forall2_from_IH (fun x => wf x /\ batch x = S /\ zfree x = true) _ (fun x => alg_permute x perm)); [| |exact E].
    + eapply Forall_impl; [|exact H]. simpl. intros x Hx r (W1 & W2 & W3) Hr.
      pose proof (Hx perm r W1 W3 ltac:(rewrite W2, <- ES; exact HP) Hr) as Q. rewrite dpermute_dbmap in Q. unfold batch in W2. rewrite W2 in Q. exact Q.
    + rewrite Forall_forall in HW, HU, ZFs. rewrite Forall_forall. intros x Hx. split; [auto|]. split; [|auto]. unfold batch. apply HU. apply in_map. exact Hx.
  - (* SumC *)
    pose proof HW as HW0. apply wf_sumc in HW. destruct HW as (HW & Hne & S & rr & cc & HU & _).
    pose proof (zfree_go_Forall _ ZF) as ZFs.
    assert (ES : batch (SumC k ops) = S) by (eapply batch_sumc; eassumption).
    rewrite go_is_mapM in HX. binv HX. apply mapM_Forall2 in E.
    assert (Hphi : forall I, inb (lperm perm S 1%nat) I -> inb S (lunperm perm I)) by (intros; apply lunperm_inb; [rewrite <- ES; assumption|assumption]).
    assert (HF : Forall2 (fun A A' => A' == dbmap (lperm perm S 1%nat) (lunperm perm) A) (map denote ops) (map denote a)).
    { apply Forall2_map.
      apply (Forall2_from_IH (fun x => wf x /\ batch x = S /\ zfree x = true) _ (fun x => alg_permute x perm)); [| |exact E].
      - eapply Forall_impl; [|exact H]. simpl. intros x Hx r (W1 & W2 & W3) Hr.
        pose proof (Hx perm r W1 W3 ltac:(rewrite W2, <- ES; exact HP) Hr) as Q. rewrite dpermute_dbmap in Q. unfold batch in W2. rewrite W2 in Q. exact Q.
      - rewrite Forall_forall in HW, ZFs. unfold uniform in HU. rewrite Forall_forall in HU. rewrite Forall_forall. intros x Hx. split; [auto|]. split; [|auto].
        unfold batch. destruct (HU (denote x)) as (Q & _); [apply in_map; exact Hx|exact Q]. }
    assert (HUa : uniform (lperm perm S 1%nat) rr cc (map denote a)).
    { eapply uniform_Forall2; [|apply (uniform_map_dbmap S (lperm perm S 1%nat) (lunperm perm) _ _ _ HU)].
      clear -HF. induction HF; simpl; constructor; [apply BTeq_sym; assumption|assumption]. }
    eapply BTeq_trans; [eapply sumc_checks_denote; eassumption|].
    rewrite dpermute_dbmap. fold (batch (SumC k ops)). rewrite ES. simpl denote.
    apply (dsuml_dbmap S _ _ Hphi rr cc); try assumption. destruct ops; simpl; congruence.
  - (* Matmul *)
    apply wf_matmul in HW. destruct HW as (HW1 & HW2 & EB & EC).
    apply andb_true_iff in ZF. destruct ZF as (ZF1 & ZF2).
    assert (ES : batch (Matmul e1 e2) = batch e1).
    { unfold batch. simpl. change (bsh (denote e1)) with (batch e1). change (bsh (denote e2)) with (batch e2). rewrite <- EB. apply bcast_refl. }
    rewrite ES in HP.
    binv HX. binv HX0. okinv HX1. simpl.
    pose proof (IHe1 _ _ HW1 ZF1 HP E) as H1. pose proof (IHe2 _ _ HW2 ZF2 ltac:(rewrite <- EB; exact HP) E0) as H2.
    rewrite dpermute_dbmap in *. simpl bsh. change (bsh (denote e1)) with (batch e1) in *. change (bsh (denote e2)) with (batch e2) in *.
    rewrite <- EB in *. rewrite bcast_refl.
    assert (Hphi : forall I, inb (lperm perm (batch e1) 1%nat) I -> inb (batch e1) (lunperm perm I)) by (intros; apply lunperm_inb; assumption).
    eapply BTeq_trans; [apply dmm_eq; [exact H1|exact H2| |]|].
    + rewrite (BTeq_bsh _ _ H1), (BTeq_bsh _ _ H2). simpl. apply bcompat_refl.
    + rewrite (BTeq_nr _ _ H2), (BTeq_nc _ _ H1). simpl. symmetry. exact EC.
    + apply (dbmap_dmm (batch e1)); try reflexivity; [exact Hphi|]. symmetry. exact EB.
  - (* CMul *)
    apply wf_cmul in HW. destruct HW as (HW & C1 & C2 & CS).
    assert (ES : batch (CMul e c) = batch e) by (unfold batch; simpl; apply bcast_sub_r; exact CS).
    rewrite ES in HP.
    binv HX. binv HX0. apply texpand_ok in E0. destruct E0 as (_ & ->). okinv HX1.
    pose proof (IHe _ _ HW ZF HP E) as H1. rewrite dpermute_dbmap in H1. change (bsh (denote e)) with (batch e) in H1.
    set (S := batch e) in *. set (S1 := lperm perm S 1%nat) in *. set (phi := lunperm perm) in *.
    assert (Hphi : forall I, inb S1 I -> inb S (phi I)) by (intros; apply lunperm_inb; assumption).
    assert (X1 : dscale (denote e) c == dscale (denote e) (dexpand S c)).
    { apply BTeq_intro; simpl; try reflexivity.
      - fold (batch e). fold S. rewrite bcast_refl. apply bcast_sub_r. exact CS.
      - fold (batch e). fold S. rewrite (bcast_sub_r _ _ CS). intros I i j HI _ _. ub.
        fold (batch e). fold S. rewrite (bproj_id S I HI). reflexivity. }
    assert (X2 : dpermute (denote (CMul e c)) perm == dbmap S1 phi (dscale (denote e) (dexpand S c))).
    { rewrite dpermute_dbmap. fold (batch (CMul e c)). rewrite ES. fold S. fold S1. fold phi.
      apply (dbmap_eq S S1 phi Hphi); [exact X1|]. simpl. fold (batch e). fold S. apply bcast_sub_r. exact CS. }
    eapply BTeq_trans; [|apply BTeq_sym; exact X2].
    simpl denote. rewrite ES. fold S. rewrite dpermute_dbmap. simpl bsh. fold S1. fold phi.
    eapply BTeq_trans; [apply dscale_eq; [exact H1|]|].
    + rewrite (BTeq_bsh _ _ H1). simpl. apply bcompat_refl.
    + apply (dbmap_dscale S S1 phi Hphi); reflexivity.
Qed.

(* ---- transpose of two batch dimensions ----------------------------------------------------------------------------------------- *)

Lemma swap_perm_is_perm n p q : (p < n)%nat -> (q < n)%nat -> is_permb (swap_perm n p q) n = true.
Proof.
  intros Hp Hq. unfold is_permb, swap_perm. rewrite map_length, seq_length, Nat.eqb_refl. simpl.
  apply forallb_forall. intros k Hk. apply in_seq in Hk. apply existsb_exists.
  destruct (Nat.eq_dec k p) as [->|N1].
  - exists p. split; [|apply Nat.eqb_refl]. apply in_map_iff. exists q. split; [|apply in_seq; lia].
    destruct (Nat.eqb_spec q p); [congruence|]. rewrite Nat.eqb_refl. reflexivity.
  - destruct (Nat.eq_dec k q) as [->|N2].
    + exists q. split; [|apply Nat.eqb_refl]. apply in_map_iff. exists p. split; [|apply in_seq; lia]. rewrite Nat.eqb_refl. reflexivity.
    + exists k. split; [|apply Nat.eqb_refl]. apply in_map_iff. exists k. split; [|apply in_seq; lia].
      destruct (Nat.eqb_spec k p); [congruence|]. destruct (Nat.eqb_spec k q); [congruence|]. reflexivity.
Qed.

Theorem alg_transpose_batch_correct e p q r :
  wf e -> zfree e = true -> (p < length (batch e))%nat -> (q < length (batch e))%nat ->
  alg_transpose_batch e p q = Ok r -> denote r == dpermute (denote e) (swap_perm (length (batch e)) p q).
Proof.
  intros HW ZF Hp Hq HX.
  assert (HX' : alg_permute e (swap_perm (length (batch e)) p q) = Ok r).
  { destruct e; simpl in ZF; try discriminate; exact HX. }
  apply alg_permute_correct; try assumption. apply swap_perm_is_perm; assumption.
Qed.
