(* C02.ProofsBase — shared machinery: inversion of the result monad, mapM, unpacking of the constructor invariants. *)
From Coq Require Import List ZArith Lia Bool Arith.
Import ListNotations.
Require Import C02.Sums C02.Batch C02.Tensor C02.Dense C02.Op C02.Model C02.ProofsDense.
Open Scope Z_scope.

Lemma bind_ok {A B} (x : result A) (f : A -> result B) r :
  bind x f = Ok r -> exists a, x = Ok a /\ f a = Ok r.
Proof. destruct x as [a|e]; simpl; [eauto|discriminate]. Qed.

Ltac binv H :=
  let a := fresh "a" in let H1 := fresh "E" in let H2 := fresh H in
  apply bind_ok in H; destruct H as (a & H1 & H2).

Ltac okinv H := injection H as H; subst.

(* case analysis on the test of an `if` at the head of an equation, keeping only the branch that can return Ok *)
Ltac ifd H :=
  match type of H with
  | (if ?c then _ else _) = _ => let Q := fresh "Q" in destruct c eqn:Q; try discriminate
  end.

Lemma mapM_Forall2 {A B} (f : A -> result B) l l' : mapM f l = Ok l' -> Forall2 (fun x y => f x = Ok y) l l'.
Proof.
  revert l'. induction l as [|x l IH]; intros l'; simpl.
  - intros H. okinv H. constructor.
  - destruct (f x) as [y|] eqn:E; [|discriminate]. destruct (mapM f l) as [r|] eqn:E2; [|discriminate].
    intros H. okinv H. constructor; [assumption|apply IH; reflexivity].
Qed.

Lemma Forall2_length {A B} (R : A -> B -> Prop) l l' : Forall2 R l l' -> length l = length l'.
Proof. induction 1; simpl; congruence. Qed.

Lemma Forall2_impl_Forall {A B} (P : A -> Prop) (R Q : A -> B -> Prop) l l' :
  Forall P l -> Forall2 R l l' -> (forall x y, P x -> R x y -> Q x y) -> Forall2 Q l l'.
Proof.
  intros HP HR HI. induction HR as [|x y l l' HR1 HR IH]; [constructor|].
  inversion HP; subst. constructor; auto.
Qed.

Lemma Forall2_map {A B C D} (R : C -> D -> Prop) (f : A -> C) (g : B -> D) l l' :
  Forall2 (fun x y => R (f x) (g y)) l l' -> Forall2 R (map f l) (map g l').
Proof. induction 1; simpl; constructor; assumption. Qed.

Lemma Forall2_from_IH {T U} (P : T -> Prop) (Q : T -> U -> Prop) (f : T -> result U) l l' :
  Forall (fun x => forall r, P x -> f x = Ok r -> Q x r) l -> Forall P l ->
  Forall2 (fun x y => f x = Ok y) l l' -> Forall2 Q l l'.
Proof.
  intros HI HP HF. induction HF as [|x y l l' Hxy HF IH]; [constructor|].
  pose proof (Forall_inv HI) as I1. pose proof (Forall_inv_tail HI) as I2.
  pose proof (Forall_inv HP) as P1. pose proof (Forall_inv_tail HP) as P2.
  constructor; [apply I1; assumption|apply IH; assumption].
Qed.

(* ---- constructor invariants ------------------------------------------------------------------------------------------ *)

Lemma forallb_Forall {A} (p : A -> bool) l : forallb p l = true <-> Forall (fun x => p x = true) l.
Proof. rewrite forallb_forall, Forall_forall. reflexivity. Qed.

Lemma wf_sumc k ops : wf (SumC k ops) ->
  Forall wf ops /\ ops <> [] /\
  exists S r c, uniform S r c (map denote ops) /\ S = batch (hd (Dense (dzero [] 0 0)) ops).
Proof.
  unfold wf. simpl. rewrite !andb_true_iff. intros ((H1 & H2) & _).
  split; [apply forallb_Forall; exact H1|].
  destruct ops as [|x r]; [discriminate|]. split; [congruence|].
  rewrite andb_true_iff in H2. destruct H2 as (H2 & H3).
  exists (batch x), (rows x), (cols x). split; [|reflexivity].
  simpl. constructor; [repeat split|].
  unfold all_batch in H2. unfold same_size_as in H3. rewrite forallb_forall in H2, H3.
  unfold uniform. rewrite Forall_forall. intros C HC. apply in_map_iff in HC. destruct HC as (y & <- & Hy).
  specialize (H2 y Hy). specialize (H3 y Hy). apply shape_eqb_eq in H2.
  rewrite andb_true_iff, !Nat.eqb_eq in H3. destruct H3. repeat split; assumption.
Qed.

Lemma wf_kronc k ops : wf (KronC k ops) ->
  Forall wf ops /\ ops <> [] /\
  Forall (fun A => (0 < nr A)%nat /\ (0 < nc A)%nat) (map denote ops) /\
  exists S, Forall (fun A => bsh A = S) (map denote ops).
Proof.
  unfold wf. simpl. rewrite !andb_true_iff. intros (((H1 & H2) & H3) & _).
  split; [apply forallb_Forall; exact H1|].
  destruct ops as [|x r]; [discriminate|]. split; [congruence|]. split.
  - rewrite forallb_forall in H2. rewrite Forall_forall. intros C HC. apply in_map_iff in HC. destruct HC as (y & <- & Hy).
    specialize (H2 y Hy). unfold pos in H2. rewrite andb_true_iff, !Nat.ltb_lt in H2. exact H2.
  - exists (batch x). simpl. constructor; [reflexivity|].
    unfold all_batch in H3. rewrite forallb_forall in H3. rewrite Forall_forall. intros C HC.
    apply in_map_iff in HC. destruct HC as (y & <- & Hy). apply shape_eqb_eq. apply H3. exact Hy.
Qed.

Lemma wf_matmul l r : wf (Matmul l r) -> wf l /\ wf r /\ batch l = batch r /\ cols l = rows r.
Proof.
  unfold wf. simpl. rewrite !andb_true_iff, shape_eqb_eq, Nat.eqb_eq. tauto.
Qed.

Lemma wf_cmul b c : wf (CMul b c) -> wf b /\ nr c = 1%nat /\ nc c = 1%nat /\ bsub (bsh c) (batch b) = true.
Proof.
  unfold wf. simpl. rewrite !andb_true_iff, !Nat.eqb_eq. tauto.
Qed.

Lemma wf_tri b u : wf (Tri b u) -> wf b /\ rows b = cols b.
Proof. unfold wf. simpl. rewrite !andb_true_iff, Nat.eqb_eq. tauto. Qed.

Lemma wf_rootc k r : wf (RootC k r) -> wf r.
Proof. unfold wf. simpl. tauto. Qed.

(* the shape of a Kronecker / sum object *)
Lemma batch_kronc k ops S : Forall (fun A => bsh A = S) (map denote ops) -> ops <> [] -> batch (KronC k ops) = S.
Proof.
  intros HU Hl. unfold batch. simpl.
  change (fold_right (fun x acc => dkron (denote x) acc) (deye [] 1) ops) with
    ((fix go l := match l with [] => deye [] 1 | x :: r => dkron (denote x) (go r) end) ops).
  assert (E : forall l, (fix go l := match l with [] => deye [] 1 | x :: r => dkron (denote x) (go r) end) l = kfold (map denote l)).
  { induction l as [|x l IH]; simpl; [reflexivity|]. rewrite IH. reflexivity. }
  rewrite E. apply kfold_shape; [assumption|]. destruct ops; simpl; congruence.
Qed.

Lemma denote_kronc k ops : denote (KronC k ops) = kfold (map denote ops).
Proof.
  simpl. induction ops as [|x l IH]; simpl; [reflexivity|]. rewrite IH. reflexivity.
Qed.

Lemma batch_sumc k ops S r c : uniform S r c (map denote ops) -> ops <> [] -> batch (SumC k ops) = S.
Proof.
  intros HU Hl. unfold batch. simpl. apply (sum_shape_uniform S r c); [assumption|]. destruct ops; simpl; congruence.
Qed.

Lemma mk_tri_denote x u r : mk_tri x u = Ok r -> denote r = denote x.
Proof.
  destruct x; simpl; intros H; try discriminate; try (okinv H; reflexivity).
  destruct k; simpl in H; try discriminate; okinv H; reflexivity.
Qed.

Lemma mk_rootc_denote k x r : mk_rootc k x = Ok r -> r = RootC k x.
Proof.
  unfold mk_rootc. destruct k; try (intros H; okinv H; reflexivity).
  destruct (is_tri x || is_kron x); [|discriminate]. intros H; okinv H; reflexivity.
Qed.
