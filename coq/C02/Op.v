(* C02.Op — operator OBJECTS as the library holds them, [denote] (the ONE dense batched matrix an object represents)
   and [wfb] (the invariants the library's constructors establish: children of a Sum / Matmul / Kronecker / Mul
   object have been expanded to ONE common batch shape, sizes fit, ...).

   One constructor per class FAMILY: the classes of a family share their constructor and differ by a tag, because the
   C02 methods dispatch on the family (isinstance) and rebuild with [self.__class__]:
     SumC   k ops : SumLinearOperator and its subclasses PsdSum, SumKronecker, AddedDiag, KroneckerProductAddedDiag,
                    LowRankRootAddedDiag.  For the three added-diagonal classes ops = [_linear_op; _diag_tensor].
     RootC  k r   : RootLinearOperator, LowRankRootLinearOperator, CholLinearOperator (lower factor; the upper
                    orientation is a defect recorded under C01 and excluded here)
     KronC  k ops : KroneckerProductLinearOperator, ...Triangular (upper flag), ...Diag
   The classes that define none of the C02 methods themselves are merged into [Leaf].

   Batch shapes are innermost-first (Batch.v).  Vectors are n x 1 [BT]s, batches of constants are 1 x 1 [BT]s. *)
From Coq Require Import List ZArith Lia Bool Arith.
Import ListNotations.
Require Import C02.Sums C02.Batch C02.Tensor C02.Dense.
Open Scope Z_scope.

Inductive leafk := LUser | LKernel | LPerm | LTransPerm | LMasked.
Inductive sumk := KSum | KPsdSum | KSumKron | KAddedDiag | KKPAD | KLRRAD.
Inductive rootk := KRoot | KLRRoot | KChol.
Inductive kronk := KKron | KKronTri (upper : bool) | KKronDiag.

Inductive Op : Type :=
| Dense (t : BT)
| Leaf (k : leafk) (t : BT)
| Diag (d : BT)                               (* batch x n x 1 *)
| CDiag (c : BT) (n : nat)                    (* ConstantDiag: c is batch x 1 x 1 *)
| Ident (n : nat) (bs : shape)
| Zero (bs : shape) (m n : nat)
| Toep (col : BT)                             (* batch x n x 1 *)
| Tri (base : Op) (upper : bool)              (* TriangularLinearOperator(_tensor, upper) *)
| RootC (k : rootk) (r : Op)
| KronC (k : kronk) (ops : list Op)
| SumC (k : sumk) (ops : list Op)
| Matmul (l r : Op)
| Mul (l r : Op)
| CMul (base : Op) (c : BT)                   (* ConstantMul: c is 1 x 1 with a batch shape that expands to base's *)
| BlockDiag (base : Op)                       (* innermost batch dimension of base = blocks *)
| BlockInter (base : Op)
| SumBatch (base : Op)
| BRepeat (base : Op) (rep : shape)
| Cat (ops : list Op) (dim : catdim)
| Interp (base : Op) (li lv ri rv : BT).

Section Ind.
Variable P : Op -> Prop.
Hypothesis HDense : forall t, P (Dense t).
Hypothesis HLeaf : forall k t, P (Leaf k t).
Hypothesis HDiag : forall d, P (Diag d).
Hypothesis HCDiag : forall c n, P (CDiag c n).
Hypothesis HIdent : forall n b, P (Ident n b).
Hypothesis HZero : forall b m n, P (Zero b m n).
Hypothesis HToep : forall c, P (Toep c).
Hypothesis HTri : forall b u, P b -> P (Tri b u).
Hypothesis HRootC : forall k r, P r -> P (RootC k r).
Hypothesis HKronC : forall k ops, Forall P ops -> P (KronC k ops).
Hypothesis HSumC : forall k ops, Forall P ops -> P (SumC k ops).
Hypothesis HMatmul : forall l r, P l -> P r -> P (Matmul l r).
Hypothesis HMul : forall l r, P l -> P r -> P (Mul l r).
Hypothesis HCMul : forall b c, P b -> P (CMul b c).
Hypothesis HBlockDiag : forall b, P b -> P (BlockDiag b).
Hypothesis HBlockInter : forall b, P b -> P (BlockInter b).
Hypothesis HSumBatch : forall b, P b -> P (SumBatch b).
Hypothesis HBRepeat : forall b rep, P b -> P (BRepeat b rep).
Hypothesis HCat : forall ops d, Forall P ops -> P (Cat ops d).
Hypothesis HInterp : forall b li lv ri rv, P b -> P (Interp b li lv ri rv).

Fixpoint Op_ind' (e : Op) : P e :=
  let list_ind := fix list_ind (l : list Op) : Forall P l :=
    match l with [] => Forall_nil P | x :: r => Forall_cons x (Op_ind' x) (list_ind r) end in
  match e with
  | Dense t => HDense t
  | Leaf k t => HLeaf k t
  | Diag d => HDiag d
  | CDiag c n => HCDiag c n
  | Ident n b => HIdent n b
  | Zero b m n => HZero b m n
  | Toep c => HToep c
  | Tri b u => HTri b u (Op_ind' b)
  | RootC k r => HRootC k r (Op_ind' r)
  | KronC k ops => HKronC k ops (list_ind ops)
  | SumC k ops => HSumC k ops (list_ind ops)
  | Matmul l r => HMatmul l r (Op_ind' l) (Op_ind' r)
  | Mul l r => HMul l r (Op_ind' l) (Op_ind' r)
  | CMul b c => HCMul b c (Op_ind' b)
  | BlockDiag b => HBlockDiag b (Op_ind' b)
  | BlockInter b => HBlockInter b (Op_ind' b)
  | SumBatch b => HSumBatch b (Op_ind' b)
  | BRepeat b rep => HBRepeat b rep (Op_ind' b)
  | Cat ops d => HCat ops d (list_ind ops)
  | Interp b li lv ri rv => HInterp b li lv ri rv (Op_ind' b)
  end.
End Ind.

(* ---- the documented meaning ---------------------------------------------------------------------------- *)

Fixpoint denote (e : Op) : BT :=
  match e with
  | Dense t | Leaf _ t => t
  | Diag d => ddiag d
  | CDiag c n => dconstdiag c n
  | Ident n b => deye b n
  | Zero b m n => dzero b m n
  | Toep col => dtoeplitz col
  | Tri b _ => denote b
  | RootC _ r => let R := denote r in dmm R (dtr R)
  | KronC _ ops => fold_right (fun x acc => dkron (denote x) acc) (deye [] 1) ops
  | SumC _ ops => dsuml (map denote ops)
  | Matmul l r => dmm (denote l) (denote r)
  | Mul l r => dhad (denote l) (denote r)
  | CMul b c => dscale (denote b) c
  | BlockDiag b => dblockdiag (denote b)
  | BlockInter b => dblockinter (denote b)
  | SumBatch b => dsumbatch (denote b)
  | BRepeat b rep => drepeat (denote b) rep
  | Cat ops d => dcat (map denote ops) d
  | Interp b li lv ri rv =>
      let K := denote b in dmm (dinterp li lv (nr K)) (dmm K (dtr (dinterp ri rv (nc K))))
  end.

(* shape of the object ( _size() ; C01_size proves the per-class transcription equal to this ) *)
Definition batch (e : Op) : shape := bsh (denote e).
Definition rows (e : Op) : nat := nr (denote e).
Definition cols (e : Op) : nat := nc (denote e).

(* ---- isinstance ------------------------------------------------------------------------------------------- *)
(* class lattice of the library: DiagLinearOperator < TriangularLinearOperator; ConstantDiag, Identity < Diag;
   KroneckerProductDiag < Diag and < KroneckerProductTriangular < KroneckerProduct; Chol, LowRankRoot < Root;
   AddedDiag, PsdSum, SumKronecker < Sum; KroneckerProductAddedDiag, LowRankRootAddedDiag < AddedDiag *)
Definition is_zero (e : Op) : bool := match e with Zero _ _ _ => true | _ => false end.
Definition is_dense (e : Op) : bool := match e with Dense _ => true | _ => false end.
Definition is_diag (e : Op) : bool :=
  match e with Diag _ | CDiag _ _ | Ident _ _ | KronC KKronDiag _ => true | _ => false end.
Definition is_cdiag (e : Op) : bool := match e with CDiag _ _ | Ident _ _ => true | _ => false end.
Definition is_krondiag (e : Op) : bool := match e with KronC KKronDiag _ => true | _ => false end.
Definition is_tri (e : Op) : bool := match e with Tri _ _ => true | _ => is_diag e end.
Definition is_root (e : Op) : bool := match e with RootC _ _ => true | _ => false end.
Definition is_lrroot (e : Op) : bool := match e with RootC KLRRoot _ => true | _ => false end.
Definition is_kron (e : Op) : bool := match e with KronC _ _ => true | _ => false end.
Definition is_sum (e : Op) : bool := match e with SumC _ _ => true | _ => false end.
Definition is_added_diag (e : Op) : bool :=
  match e with SumC KAddedDiag _ | SumC KKPAD _ | SumC KLRRAD _ => true | _ => false end.
Definition is_blockdiag (e : Op) : bool := match e with BlockDiag _ => true | _ => false end.

(* ._diag of a Diag-class object: the diagonal as a column vector *)
Definition diag_of (e : Op) : BT :=
  match e with
  | Diag d => d
  | CDiag c n => dcol_of_const c n
  | Ident n b => dones b n 1
  | _ => ddiagonal (denote e)          (* KroneckerProductDiag: _kron_diag of the factors, by meaning *)
  end.
(* .diag_values of a ConstantDiag-class object *)
Definition cvals_of (e : Op) : BT :=
  match e with CDiag c _ => c | Ident _ b => dones b 1 1 | _ => dones [] 1 1 end.

(* ---- constructor invariants --------------------------------------------------------------------------------- *)

Definition pos (n : nat) : bool := (0 <? n)%nat.
Definition all_batch (S : shape) (l : list Op) : bool := forallb (fun x => shape_eqb (batch x) S) l.

Definition idx_okb (idx : BT) (bound : nat) : bool :=
  forallb (fun I => forallb (fun i => forallb (fun a => (0 <=? ent idx I i a) && (Z.to_nat (ent idx I i a) <? bound)%nat)
                                               (seq 0 (nc idx))) (seq 0 (nr idx))) (all_bidx (bsh idx)).

Definition same_size_as (x : Op) (l : list Op) : bool :=
  forallb (fun y => Nat.eqb (rows y) (rows x) && Nat.eqb (cols y) (cols x)) l.

Fixpoint wfb (e : Op) : bool :=
  match e with
  | Dense _ | Leaf _ _ => true
  | Diag d => Nat.eqb (nc d) 1
  | CDiag c n => Nat.eqb (nr c) 1 && Nat.eqb (nc c) 1
  | Ident _ _ | Zero _ _ _ => true
  | Toep col => Nat.eqb (nc col) 1
  | Tri b _ => wfb b && Nat.eqb (rows b) (cols b)
  | RootC _ r => wfb r
  | KronC k ops =>
      forallb wfb ops && forallb (fun x => pos (rows x) && pos (cols x)) ops &&
      match ops with [] => false | x :: r => all_batch (batch x) r end &&
      match k with KKronDiag => forallb is_diag ops | _ => true end
  | SumC k ops =>
      forallb wfb ops &&
      match ops with
      | [] => false
      | x :: r => all_batch (batch x) r && same_size_as x r
      end &&
      match k with
      | KAddedDiag | KKPAD | KLRRAD =>
          match ops with [a; d] => negb (is_diag a) && is_diag d && Nat.eqb (rows a) (cols a) | _ => false end
      | _ => true
      end
  | Matmul l r => wfb l && wfb r && shape_eqb (batch l) (batch r) && Nat.eqb (cols l) (rows r)
  | Mul l r => wfb l && wfb r && shape_eqb (batch l) (batch r) && Nat.eqb (rows l) (rows r) && Nat.eqb (cols l) (cols r)
  | CMul b c => wfb b && Nat.eqb (nr c) 1 && Nat.eqb (nc c) 1 && bsub (bsh c) (batch b)
  | BlockDiag b => wfb b && Nat.eqb (rows b) (cols b) && pos (rows b) && match batch b with k :: _ => pos k | [] => false end
  | BlockInter b | SumBatch b => wfb b && match batch b with k :: _ => pos k | [] => false end
  | BRepeat b rep => wfb b && Nat.eqb (length (batch b)) (length rep) && forallb pos (batch b)
  | Cat ops d =>
      forallb wfb ops &&
      match ops with
      | [] | [_] => false
      | x :: r =>
          match d with
          | CatRows => forallb (fun y => shape_eqb (batch y) (batch x) && Nat.eqb (cols y) (cols x)) r
          | CatCols => forallb (fun y => shape_eqb (batch y) (batch x) && Nat.eqb (rows y) (rows x)) r
          | CatBatch p =>
              (p <? length (batch x))%nat &&
              forallb (fun y => shape_eqb (bset (batch y) p 0%nat) (bset (batch x) p 0%nat) &&
                                Nat.eqb (length (batch y)) (length (batch x)) &&
                                Nat.eqb (rows y) (rows x) && Nat.eqb (cols y) (cols x)) r
          end
      end
  | Interp b li lv ri rv =>
      wfb b &&
      shape_eqb (bsh lv) (bsh li) && shape_eqb (bsh ri) (bsh li) && shape_eqb (bsh rv) (bsh li) &&
      Nat.eqb (nr lv) (nr li) && Nat.eqb (nc lv) (nc li) && Nat.eqb (nr rv) (nr ri) && Nat.eqb (nc rv) (nc ri) &&
      shape_eqb (batch b) (bsh li) && idx_okb li (rows b) && idx_okb ri (cols b)
  end.

Definition wf (e : Op) : Prop := wfb e = true.

(* class name, for information only (never a pass/fail criterion) *)
Definition cls_code (e : Op) : nat :=
  match e with
  | Dense _ => 1 | Leaf LUser _ => 2 | Leaf LKernel _ => 3 | Leaf LPerm _ => 4 | Leaf LTransPerm _ => 5 | Leaf LMasked _ => 6
  | Diag _ => 7 | CDiag _ _ => 8 | Ident _ _ => 9 | Zero _ _ _ => 10 | Toep _ => 11 | Tri _ _ => 12
  | RootC KChol _ => 13 | RootC KRoot _ => 14 | RootC KLRRoot _ => 15
  | KronC KKron _ => 16 | KronC (KKronTri _) _ => 17 | KronC KKronDiag _ => 18
  | SumC KKPAD _ => 19 | SumC KSumKron _ => 20 | SumC KAddedDiag _ => 21 | SumC KLRRAD _ => 22 | SumC KSum _ => 23 | SumC KPsdSum _ => 24
  | Matmul _ _ => 25 | Mul _ _ => 26 | CMul _ _ => 27
  | BlockDiag _ => 28 | BlockInter _ => 29 | SumBatch _ => 30 | BRepeat _ _ => 31 | Cat _ _ => 32 | Interp _ _ _ _ _ => 33
  end%nat.
