(* C02.Spec — the dense side: the same operations evaluated on dense batched matrices with torch broadcasting semantics
   (the right-hand sides of the C02 theorems), and the dense evaluation of programs. Definitions only. *)
From Coq Require Import List ZArith Lia Bool Arith.
Import ListNotations.
Require Import C02.Sums C02.Batch C02.Tensor C02.Dense C02.Op C02.Model.
Open Scope Z_scope.

(* the value of an operand as a raw tensor (a python number is a 0-d tensor) *)
Definition argval (a : Arg) : BT :=
  match a with APy z => zconst z | ARaw r => r | AOp o => to_raw (denote o) end.

(* elementwise binary operation of torch: broadcast the FULL shapes *)
Definition dense_ew (f : BT -> BT -> BT) (A : BT) (y : BT) : result BT :=
  let x := to_raw A in
  if rcompat x y then Ok (of_raw (f x y)) else Err EShape.

Definition rsub (a b : BT) : BT := dsub a b.

Definition dense_add (A : BT) (a : Arg) : result BT := dense_ew radd A (argval a).
Definition dense_sub (A : BT) (a : Arg) : result BT := dense_ew rsub A (argval a).
Definition dense_rsub (A : BT) (a : Arg) : result BT := dense_ew (fun x y => rsub y x) A (argval a).
Definition dense_mul (A : BT) (a : Arg) : result BT := dense_ew rmul A (argval a).

(* torch.matmul of two (batched) matrices *)
Definition dense_matmul (A B : BT) : result BT :=
  if Nat.eqb (nc A) (nr B) && bcompat (bsh A) (bsh B) then Ok (dmm A B) else Err EShape.

Definition dense_expand (A : BT) (B : shape) : result BT :=
  if bsub (bsh A) B then Ok (dexpand B A) else Err EShape.

Definition dense_unsqueeze (A : BT) (p : nat) : result BT :=
  if (p <=? length (bsh A))%nat then Ok (dunsqueeze A p) else Err EShape.

Definition is_permb (perm : list nat) (n : nat) : bool :=
  Nat.eqb (length perm) n && forallb (fun k => existsb (Nat.eqb k) perm) (seq 0 n).

Definition dense_permute (A : BT) (perm : list nat) : result BT :=
  if is_permb perm (length (bsh A)) then Ok (dpermute A perm) else Err EShape.

Definition dense_sum_batch (A : BT) (p : nat) : result BT :=
  if (p <? length (bsh A))%nat then Ok (dsumdim A p) else Err EShape.

(* A + diag_embed(d broadcast to A.shape[:-1]) *)
Definition dense_add_diagonal (A : BT) (d : BT) : result BT :=
  if negb (Nat.eqb (nr A) (nc A)) then Err EShape
  else
    let s := nr A :: bsh A in
    if bcompat s (bsh d) then
      let S := bcast s (bsh d) in
      match S with
      | k :: _ => if Nat.eqb k (nr A) then dense_add A (ARaw (to_raw (ddiag (raw_to_col (dexpand S d))))) else Err EShape
      | [] => Err EShape
      end
    else Err EShape.

Definition dense_add_jitter (A : BT) (v : Z) : result BT := dense_add_diagonal A (zconst v).

Definition dstep_bin (o : binop) (X : BT) (a : Arg) : result BT :=
  match o with
  | BAdd => dense_add X a
  | BSub => dense_sub X a
  | BMul => dense_mul X a
  | BMatmul => match a with AOp y => dense_matmul X (denote y) | _ => Err ENotModelled end
  end.

Definition dstep_rbin (o : binop) (a : Arg) (X : BT) : result BT :=
  match o with
  | BAdd => dense_add X a
  | BSub => dense_rsub X a
  | BMul => dense_mul X a
  | BMatmul => Err ENotModelled
  end.

Fixpoint eval_dense (p : Prog) : result BT :=
  match p with
  | PLeaf e => Ok (denote e)
  | PBin o a b => x <- eval_dense a ;; y <- eval_dense b ;; dstep_bin o x (AOp (Dense y))
  | PBinT o a t => x <- eval_dense a ;; dstep_bin o x t
  | PRBinT o t a => x <- eval_dense a ;; dstep_rbin o t x
  | PDiv a t rc => x <- eval_dense a ;; dense_mul x rc
  | PExpand a B => x <- eval_dense a ;; dense_expand x B
  | PUnsqueeze a q => x <- eval_dense a ;; dense_unsqueeze x q
  | PPermute a perm => x <- eval_dense a ;; dense_permute x perm
  | PTransposeB a p q => x <- eval_dense a ;; dense_permute x (swap_perm (length (bsh x)) p q)
  | PmT a => x <- eval_dense a ;; Ok (dtr x)
  | PSumBatch a q => x <- eval_dense a ;; dense_sum_batch x q
  | PAddDiagonal a d => x <- eval_dense a ;; dense_add_diagonal x d
  | PAddJitter a v => x <- eval_dense a ;; dense_add_jitter x v
  end.
