(* C02.ProofsCtor — the constructors (Sum family, Matmul) with their argument broadcasting denote the dense sum / product. *)
From Coq Require Import List ZArith Lia Bool Arith.
Import ListNotations.
Require Import C02.Sums C02.Batch C02.Tensor C02.Dense C02.Op C02.Model C02.ProofsDense C02.ProofsBase C02.ProofsExpand.
Open Scope Z_scope.

Lemma expand_to_correct e B r : wf e -> bsub (batch e) B = true -> expand_to e B = Ok r -> denote r == dexpand B (denote e).
Proof.
  intros HW HS. unfold expand_to. destruct (shape_eqb (batch e) B) eqn:E.
  - intros H. okinv H. apply shape_eqb_eq in E. apply BTeq_sym. apply dexpand_id'. symmetry. exact E.
  - apply alg_expand_correct; assumption.
Qed.

Lemma bcast_all_shape ops B : bcast_all ops = Ok B -> B = fold_right (fun A s => bcast (bsh A) s) [] (map denote ops).
Proof.
  revert B. induction ops as [|x l IH]; simpl; intros B H.
  - okinv H. reflexivity.
  - binv H. destruct (bcompat (batch x) a); [|discriminate]. okinv H0. rewrite (IH _ E). reflexivity.
Qed.

Lemma bcast_all_sub ops B : bcast_all ops = Ok B -> Forall (fun x => bsub (batch x) B = true) ops.
Proof.
  revert B. induction ops as [|x l IH]; simpl; intros B H; [constructor|].
  binv H. destruct (bcompat (batch x) a) eqn:EC; [|discriminate]. okinv H0.
  constructor; [apply bsub_bcast_l; assumption|].
  eapply Forall_impl; [|apply IH; exact E]. simpl. intros y Hy.
  eapply bsub_trans; [exact Hy|apply bsub_bcast_r; assumption].
Qed.

Definition same_dims_l (r c : nat) (ops : list Op) : Prop := Forall (fun y => rows y = r /\ cols y = c) ops.

(* the general (broadcasting) sum is the uniform sum of the expanded summands *)
Lemma dsuml_as_sumu B r c l :
  B = fold_right (fun A s => bcast (bsh A) s) [] l -> Forall (fun A => nr A = r /\ nc A = c) l -> l <> [] ->
  dsuml l == sumu B r c (map (dexpand B) l).
Proof.
  intros -> HD Hl. apply BTeq_intro; simpl; try reflexivity.
  - destruct l as [|A l]; [congruence|]. apply (Forall_inv HD).
  - destruct l as [|A l]; [congruence|]. apply (Forall_inv HD).
  - intros I i j _ _ _. rewrite map_map. reflexivity.
Qed.

Theorem mk_sumc_correct k ops r rr cc :
  ops <> [] -> same_dims_l rr cc ops -> mk_sumc k ops = Ok r ->
  denote r == dsuml (map denote ops).
Proof.
  intros Hne HD H. unfold mk_sumc in H.
  destruct (forallb wfb ops) eqn:HWb; simpl in H; [|discriminate].
  assert (HW : Forall wf ops) by (apply forallb_Forall; exact HWb).
  binv H. binv H0.
  pose proof (bcast_all_shape _ _ E) as ES. pose proof (bcast_all_sub _ _ E) as HB.
  apply mapM_Forall2 in E0.
  assert (HF : Forall2 (fun x y => denote y == dexpand a (denote x)) ops a0).
  { apply (Forall2_from_IH (fun x => wf x /\ bsub (batch x) a = true) _ (fun x => expand_to x a)); [| |exact E0].
    - rewrite Forall_forall. intros x _ r0 (W1 & W2) Hr. eapply expand_to_correct; eassumption.
    - rewrite Forall_forall in HW, HB. rewrite Forall_forall. intros x Hx. split; auto. }
  assert (HDl : Forall (fun A => nr A = rr /\ nc A = cc) (map denote ops)).
  { unfold same_dims_l in HD. rewrite Forall_forall in HD. rewrite Forall_forall. intros A HA.
    apply in_map_iff in HA. destruct HA as (y & <- & Hy). apply HD. exact Hy. }
  assert (HU : uniform a rr cc (map (dexpand a) (map denote ops))).
  { clear -HDl. induction HDl as [|A l (E1 & E2) _ IH]; simpl; constructor; [repeat split; assumption|assumption]. }
  assert (HF' : Forall2 BTeq (map (dexpand a) (map denote ops)) (map denote a0)).
  { rewrite map_map. apply Forall2_map. clear -HF. induction HF; constructor; [apply BTeq_sym; assumption|assumption]. }
  assert (HU' : uniform a rr cc (map denote a0)) by (eapply uniform_Forall2; eassumption).
  assert (Hne' : map (dexpand a) (map denote ops) <> []) by (destruct ops; simpl; congruence).
  eapply BTeq_trans; [eapply sumc_checks_denote; eassumption|].
  eapply BTeq_trans; [apply BTeq_sym; apply (dsuml_eq a rr cc _ _ HF' HU Hne')|].
  eapply BTeq_trans; [apply (dsuml_uniform a rr cc); assumption|].
  apply BTeq_sym. apply dsuml_as_sumu; [assumption|assumption|destruct ops; simpl; congruence].
Qed.

Lemma mk_sumc_is_sum k ops r : mk_sumc k ops = Ok r -> exists k' ops', r = SumC k' ops'.
Proof. unfold mk_sumc. destruct (forallb wfb ops); simpl; [|discriminate]. intros H. binv H. binv H0. eapply sumc_checks_is_sum. eassumption. Qed.

Theorem mk_matmul_correct l r m :
  mk_matmul l r = Ok m -> denote m == dmm (denote l) (denote r) /\ cols l = rows r /\ bcompat (batch l) (batch r) = true.
Proof.
  unfold mk_matmul. destruct (wfb l && wfb r) eqn:HWb; simpl; [|discriminate].
  apply andb_true_iff in HWb. destruct HWb as (HL & HR).
  destruct (Nat.eqb (cols l) (rows r)) eqn:EC; simpl; [|discriminate]. apply Nat.eqb_eq in EC.
  destruct (bcompat (batch l) (batch r)) eqn:EB; simpl; [|discriminate].
  intros H. binv H. binv H0. okinv H1. split; [|split; [assumption|reflexivity]].
  pose proof (expand_to_correct _ _ _ HL (bsub_bcast_l _ _ EB) E) as H1.
  pose proof (expand_to_correct _ _ _ HR (bsub_bcast_r _ _ EB) E0) as H2.
  simpl. eapply BTeq_trans; [apply dmm_eq; [exact H1|exact H2| |]|].
  - rewrite (BTeq_bsh _ _ H1), (BTeq_bsh _ _ H2). simpl. apply bcompat_refl.
  - rewrite (BTeq_nr _ _ H2), (BTeq_nc _ _ H1). simpl. symmetry. exact EC.
  - eapply BTeq_trans; [apply dmm_dexpand; [apply bsub_bcast_l|apply bsub_bcast_r]; exact EB|].
    apply dexpand_id'. reflexivity.
Qed.
