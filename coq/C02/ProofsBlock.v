(* C02.ProofsBlock — block-diagonal products: the fast paths BlockDiag @ BlockDiag (block by block), BlockDiag @ Diag and
   Diag @ BlockDiag (the diagonal is cut into one diagonal per block) denote the matrix product. *)
From Coq Require Import List ZArith Lia Bool Arith.
Import ListNotations.
Require Import C02.Sums C02.Batch C02.Tensor C02.Dense C02.Op C02.Model C02.Spec.
Require Import C02.ProofsDense C02.ProofsBase.
Open Scope Z_scope.

Lemma dblockdiag_shape A k bs : bsh A = k :: bs -> bsh (dblockdiag A) = bs /\ nr (dblockdiag A) = (k * nr A)%nat /\ nc (dblockdiag A) = (k * nc A)%nat.
Proof. intros E. unfold dblockdiag. rewrite E. repeat split. Qed.

Lemma dblockdiag_ent A k bs I i j : bsh A = k :: bs ->
  ent (dblockdiag A) I i j = if Nat.eqb (i / nr A) (j / nc A) then ent A ((i / nr A)%nat :: I) (i mod nr A) (j mod nc A) else 0.
Proof. intros E. unfold dblockdiag. rewrite E. reflexivity. Qed.

Lemma dblockdiag_eq A A' k bs : A == A' -> bsh A = k :: bs -> (0 < nr A)%nat -> (0 < nc A)%nat -> dblockdiag A == dblockdiag A'.
Proof.
  intros HE E Pr Pc. pose proof HE as (H1 & H2 & H3 & H4).
  assert (E' : bsh A' = k :: bs) by congruence.
  destruct (dblockdiag_shape A k bs E) as (S1 & S2 & S3). destruct (dblockdiag_shape A' k bs E') as (T1 & T2 & T3).
  apply BTeq_intro; try congruence.
  rewrite S1, S2, S3. intros I i j HI Hi Hj. rewrite (dblockdiag_ent A k bs), (dblockdiag_ent A' k bs) by assumption.
  rewrite <- H2, <- H3. destruct (Nat.eqb (i / nr A) (j / nc A)); [|reflexivity].
  apply H4.
  - rewrite E. simpl. split; [apply div_lt_mul; assumption|exact HI].
  - apply mod_lt_pos. assumption.
  - apply mod_lt_pos. assumption.
Qed.

(* BlockDiag(A) @ BlockDiag(B) = BlockDiag(A @ B) *)
Lemma dmm_dblockdiag A B k bs : bsh A = k :: bs -> bsh B = k :: bs -> nr B = nc A -> (0 < nc A)%nat -> (0 < nr A)%nat -> (0 < nc B)%nat ->
  dmm (dblockdiag A) (dblockdiag B) == dblockdiag (dmm A B).
Proof.
  intros EA EB ER PA PR PB.
  destruct (dblockdiag_shape A k bs EA) as (S1 & S2 & S3). destruct (dblockdiag_shape B k bs EB) as (T1 & T2 & T3).
  assert (EM : bsh (dmm A B) = k :: bs) by (simpl; rewrite EA, EB; apply bcast_refl).
  destruct (dblockdiag_shape (dmm A B) k bs EM) as (U1 & U2 & U3).
  apply BTeq_intro.
  - unfold dmm at 1; cbn [bsh]. rewrite S1, T1, U1. apply bcast_refl.
  - unfold dmm at 1; cbn [nr]. rewrite S2, U2. reflexivity.
  - unfold dmm at 1; cbn [nc]. rewrite T3, U3. reflexivity.
  - intros I i j HI Hi Hj.
    change (bsh (dmm (dblockdiag A) (dblockdiag B))) with (bcast (bsh (dblockdiag A)) (bsh (dblockdiag B))) in HI.
    change (nr (dmm (dblockdiag A) (dblockdiag B))) with (nr (dblockdiag A)) in Hi.
    change (nc (dmm (dblockdiag A) (dblockdiag B))) with (nc (dblockdiag B)) in Hj.
    rewrite S1, T1, bcast_refl in HI. rewrite S2 in Hi. rewrite T3 in Hj.
    rewrite (dblockdiag_ent (dmm A B) k bs) by assumption.
    change (nr (dmm A B)) with (nr A). change (nc (dmm A B)) with (nc B).
    change (ent (dmm (dblockdiag A) (dblockdiag B)) I i j) with
      (zsum (nc (dblockdiag A)) (fun l => bget (dblockdiag A) I i l * bget (dblockdiag B) I l j)).
    rewrite S3.
    rewrite (zsum_split_mul k (nc A)).
    rewrite (zsum_single _ (i / nr A)%nat).
    + (* the block of row i *)
      destruct (Nat.eqb_spec (i / nr A) (j / nc B)) as [Eq|Nq].
      * assert (HIn : inb (k :: bs) ((i / nr A)%nat :: I)) by (simpl; split; [apply div_lt_mul; assumption|exact HI]).
        change (ent (dmm A B) ((i / nr A)%nat :: I) (i mod nr A) (j mod nc B)) with
          (zsum (nc A) (fun l => bget A ((i / nr A)%nat :: I) (i mod nr A) l * bget B ((i / nr A)%nat :: I) l (j mod nc B))).
        apply zsum_ext. intros l Hl. unfold bget.
        rewrite S1, T1, EA, EB. rewrite (bproj_id bs I HI). rewrite (bproj_id (k :: bs) _ HIn).
        rewrite (dblockdiag_ent A k bs), (dblockdiag_ent B k bs) by assumption.
        rewrite ER. destruct (divmod_mul_add (i / nr A) (nc A) l Hl) as (D1 & D2). rewrite D1, D2, Nat.eqb_refl, Eq, Nat.eqb_refl. reflexivity.
      * apply zsum_zero. intros l Hl. unfold bget. rewrite S1, T1, (bproj_id bs I HI).
        rewrite (dblockdiag_ent A k bs), (dblockdiag_ent B k bs) by assumption.
        rewrite ER. destruct (divmod_mul_add (i / nr A) (nc A) l Hl) as (D1 & D2). rewrite D1, D2, Nat.eqb_refl.
        destruct (Nat.eqb_spec (i / nr A) (j / nc B)); [contradiction|]. ring.
    + apply div_lt_mul. exact Hi.
    + intros a Ha Hne. apply zsum_zero. intros l Hl. unfold bget. rewrite S1, (bproj_id bs I HI).
      rewrite (dblockdiag_ent A k bs) by assumption.
      destruct (divmod_mul_add a (nc A) l Hl) as (D1 & D2). rewrite D1.
      destruct (Nat.eqb_spec (i / nr A) a); [congruence|]. ring.
Qed.

Lemma dmm_ddiag_r T d : nc T = nr d ->
  dmm T (ddiag d) == mkBT (bcast (bsh T) (bsh d)) (nr T) (nr d) (fun I i j => bget T I i j * bget d I j 0%nat).
Proof.
  intros HR. apply BTeq_intro; simpl; try congruence.
  intros I i j HI Hi Hj. ub. rewrite HR. rewrite (zsum_single _ j); [rewrite Nat.eqb_refl; reflexivity|assumption|].
  intros l Hl Hne. destruct (Nat.eqb_spec l j); [congruence|]. ring.
Qed.

(* Diag(d) @ BlockDiag(B) = BlockDiag(Diag(d cut per block) @ B) *)
Lemma dmm_ddiag_dblockdiag d B k bs : bsh B = k :: bs -> bsh d = bs -> nr d = (k * nr B)%nat -> (0 < nr B)%nat -> (0 < nc B)%nat ->
  dmm (ddiag d) (dblockdiag B) == dblockdiag (dmm (ddiag (dview_blocks d k (nr B))) B).
Proof.
  intros EB ED EN PR PC.
  destruct (dblockdiag_shape B k bs EB) as (T1 & T2 & T3).
  set (M := dmm (ddiag (dview_blocks d k (nr B))) B).
  assert (EM : bsh M = k :: bs) by (unfold M, dmm, ddiag, dview_blocks; cbn [bsh]; rewrite ED, EB; apply (bcast_refl (k :: bs))).
  destruct (dblockdiag_shape M k bs EM) as (U1 & U2 & U3).
  eapply BTeq_trans; [apply dmm_ddiag_l; rewrite T2; symmetry; exact EN|].
  apply BTeq_intro; cbn [bsh nr nc ent].
  - rewrite T1, ED, U1. apply bcast_refl.
  - rewrite T2, U2. reflexivity.
  - rewrite T3, U3. reflexivity.
  - rewrite T1, ED, bcast_refl, T2, T3. intros I i j HI Hi Hj.
    rewrite (dblockdiag_ent M k bs) by assumption. change (nr M) with (nr B). change (nc M) with (nc B).
    unfold bget. rewrite T1, ED, (bproj_id bs I HI). rewrite (dblockdiag_ent B k bs) by assumption.
    destruct (Nat.eqb (i / nr B) (j / nc B)); [|ring].
    assert (HIn : inb (k :: bs) ((i / nr B)%nat :: I)) by (simpl; split; [apply div_lt_mul; assumption|exact HI]).
    unfold M.
    change (ent (dmm (ddiag (dview_blocks d k (nr B))) B) ((i / nr B)%nat :: I) (i mod nr B) (j mod nc B)) with
      (zsum (nr B) (fun l => bget (ddiag (dview_blocks d k (nr B))) ((i / nr B)%nat :: I) (i mod nr B) l * bget B ((i / nr B)%nat :: I) l (j mod nc B))).
    rewrite (zsum_single _ (i mod nr B)%nat); [| apply mod_lt_pos; assumption|].
    + unfold bget. simpl bsh. rewrite ED, EB. pose proof (bproj_id (k :: bs) _ HIn) as BP. rewrite BP.
      simpl. rewrite Nat.eqb_refl. rewrite <- (div_mod_eq i (nr B) PR). reflexivity.
    + intros l Hl Hne. unfold bget. simpl. destruct (Nat.eqb_spec (i mod nr B) l); [congruence|]. ring.
Qed.

(* BlockDiag(A) @ Diag(d) = BlockDiag(A @ Diag(d cut per block)) *)
Lemma dmm_dblockdiag_ddiag A d k bs : bsh A = k :: bs -> bsh d = bs -> nr d = (k * nc A)%nat -> (0 < nr A)%nat -> (0 < nc A)%nat ->
  dmm (dblockdiag A) (ddiag d) == dblockdiag (dmm A (ddiag (dview_blocks d k (nc A)))).
Proof.
  intros EA ED EN PR PC.
  destruct (dblockdiag_shape A k bs EA) as (T1 & T2 & T3).
  set (M := dmm A (ddiag (dview_blocks d k (nc A)))).
  assert (EM : bsh M = k :: bs) by (unfold M, dmm, ddiag, dview_blocks; cbn [bsh]; rewrite ED, EA; apply (bcast_refl (k :: bs))).
  destruct (dblockdiag_shape M k bs EM) as (U1 & U2 & U3).
  eapply BTeq_trans; [apply dmm_ddiag_r; rewrite T3; symmetry; exact EN|].
  apply BTeq_intro; cbn [bsh nr nc ent].
  - rewrite T1, ED, U1. apply bcast_refl.
  - rewrite T2, U2. reflexivity.
  - rewrite EN, U3. reflexivity.
  - rewrite T1, ED, bcast_refl, T2, EN. intros I i j HI Hi Hj.
    rewrite (dblockdiag_ent M k bs) by assumption. change (nr M) with (nr A). change (nc M) with (nc A).
    unfold bget. rewrite T1, ED, (bproj_id bs I HI). rewrite (dblockdiag_ent A k bs) by assumption.
    destruct (Nat.eqb_spec (i / nr A) (j / nc A)) as [Eq|Nq]; [|ring].
    assert (HIn : inb (k :: bs) ((i / nr A)%nat :: I)) by (simpl; split; [apply div_lt_mul; assumption|exact HI]).
    unfold M.
    change (ent (dmm A (ddiag (dview_blocks d k (nc A)))) ((i / nr A)%nat :: I) (i mod nr A) (j mod nc A)) with
      (zsum (nc A) (fun l => bget A ((i / nr A)%nat :: I) (i mod nr A) l * bget (ddiag (dview_blocks d k (nc A))) ((i / nr A)%nat :: I) l (j mod nc A))).
    rewrite (zsum_single _ (j mod nc A)%nat); [| apply mod_lt_pos; assumption|].
    + unfold bget. simpl bsh. rewrite ED, EA. pose proof (bproj_id (k :: bs) _ HIn) as BP. rewrite BP.
      simpl. rewrite Nat.eqb_refl. rewrite Eq. rewrite <- (div_mod_eq j (nc A) PC). reflexivity.
    + intros l Hl Hne. unfold bget. simpl. destruct (Nat.eqb_spec l (j mod nc A)); [congruence|]. ring.
Qed.
