(* C02.Check — comparators used by the generated case shards (gen/cases_*.v): the model's result object, densified by
   [denote], against the implementation's observed result; and the Coq dense specification against the same
   observation (which validates Spec.v against torch). *)
From Coq Require Import List ZArith Lia Bool Arith.
Import ListNotations.
Require Import C02.Sums C02.Batch C02.Tensor C02.Dense C02.Op C02.Model C02.Spec.
Open Scope Z_scope.

Inductive Obs := ObsErr | ObsT (bs : shape) (r c : nat) (t : table).

(* a raw tensor from its torch shape (innermost-first) and its row-major data *)
Definition raw_of_list (s : shape) (l : list Z) : BT := mkraw s (fun I => nth (bflat s I) l 0).

(* model vs implementation:
     0 agree (same shape and entries, or both raise)     1 shapes / entries differ
     2 model returns, implementation raised               3 model raises, implementation returned
     4 the model does not transcribe this case            5 the model's result violates the constructor invariants *)
Definition check_case (p : Prog) (o : Obs) : nat :=
  match eval_alg p with
  | Ok r =>
      match o with
      | ObsT bs rr cc t => if negb (wfb r) then 5%nat else if BT_matches (denote r) bs rr cc t then 0%nat else 1%nat
      | ObsErr => 2%nat
      end
  | Err ENotModelled => 4%nat
  | Err _ => match o with ObsErr => 0%nat | _ => 3%nat end
  end.

(* dense specification vs implementation (the implementation's value was already compared with torch by the harness):
     0 agree   1 differ   2 spec defined, implementation raised   3 spec undefined, implementation returned   4 n/a *)
Definition check_spec (p : Prog) (o : Obs) : nat :=
  match eval_dense p with
  | Ok D =>
      match o with
      | ObsT bs rr cc t => if BT_matches D bs rr cc t then 0%nat else 1%nat
      | ObsErr => 2%nat
      end
  | Err ENotModelled => 4%nat
  | Err _ => match o with ObsErr => 0%nat | _ => 3%nat end
  end.

Definition case : Type := (Prog * Obs)%type.

Definition run_cases (l : list case) : list nat := map (fun c => check_case (fst c) (snd c)) l.
Definition run_spec (l : list case) : list nat := map (fun c => check_spec (fst c) (snd c)) l.

(* class code of the model's result (information only) *)
Definition result_class (p : Prog) : nat := match eval_alg p with Ok r => cls_code r | Err _ => 0%nat end.
