(* C02.Dense — the dense (torch) side: combinators on batched integer matrices that give the documented meaning
   of every operator class and of every operation of property C02 (elementwise +, *, scaling by a batch of
   constants, Kronecker products, block layouts, batch sum / repeat / permute / unsqueeze, concatenation ...).
   Definitions only (plus trivial shape facts); the algebra is in ProofsDense.v.

   The combinators [dkron dsuml dblockdiag dblockinter dsumbatch drepeat dcat dinterp dtoeplitz dconstdiag] are the
   ones of coq/C01/OpExpr.v (same definitions, so that the two developments denote the same matrices). *)
From Coq Require Import List ZArith Lia Bool Arith.
Import ListNotations.
Require Import C02.Sums C02.Batch C02.Tensor.
Open Scope Z_scope.

Definition shape_eqb (a b : shape) : bool := if list_eq_dec Nat.eq_dec a b then true else false.
Lemma shape_eqb_eq a b : shape_eqb a b = true <-> a = b.
Proof. unfold shape_eqb. destruct (list_eq_dec Nat.eq_dec a b); split; congruence. Qed.
Lemma shape_eqb_refl a : shape_eqb a a = true.
Proof. apply shape_eqb_eq. reflexivity. Qed.

Definition absdiff (i j : nat) : nat := if (i <? j)%nat then (j - i)%nat else (i - j)%nat.

(* ---- elementwise ------------------------------------------------------------------------------ *)

(* constant (per batch member) times matrix; c is a 1 x 1 BT whose batch shape broadcasts with A's *)
Definition dscale (A c : BT) : BT :=
  mkBT (bcast (bsh A) (bsh c)) (nr A) (nc A) (fun I i j => bget A I i j * bget c I 0%nat 0%nat).

(* the constant z as a 1 x 1 tensor without batch dimensions *)
Definition dconst (z : Z) : BT := mkBT [] 1 1 (fun _ _ _ => z).

Definition dneg (A : BT) : BT := mkBT (bsh A) (nr A) (nc A) (fun I i j => - ent A I i j).
Definition dsub (A B : BT) : BT :=
  mkBT (bcast (bsh A) (bsh B)) (nr A) (nc A) (fun I i j => bget A I i j - bget B I i j).

(* entrywise map (sqrt of a batch of constants) *)
Definition dmap (f : Z -> Z) (A : BT) : BT := mkBT (bsh A) (nr A) (nc A) (fun I i j => f (ent A I i j)).

(* all entries satisfy p (decidable: finitely many in-range entries) *)
Definition dall (p : Z -> bool) (A : BT) : bool :=
  forallb (fun I => forallb (fun i => forallb (fun j => p (ent A I i j)) (seq 0 (nc A))) (seq 0 (nr A))) (all_bidx (bsh A)).

(* A * v for a 1-D tensor v of length nc A (torch broadcasting aligns v with the LAST dimension: a row) *)
Definition drowvec (v : list Z) : BT := mkBT [] 1 (length v) (fun _ _ j => nth j v 0).
Definition dhad_row (A : BT) (v : list Z) : BT :=
  mkBT (bsh A) (nr A) (nc A) (fun I i j => ent A I i j * nth j v 0).

(* the diagonal of a matrix as a column vector (batch x n x 1) *)
Definition ddiagonal (A : BT) : BT := mkBT (bsh A) (nr A) 1 (fun I i _ => ent A I i i).

(* column vectors: elementwise product / sum with batch broadcasting are dhad / dadd on n x 1 matrices *)

(* ---- structured meanings ------------------------------------------------------------------------ *)

Definition dkron (A B : BT) : BT :=
  mkBT (bcast (bsh A) (bsh B)) (nr A * nr B) (nc A * nc B)
       (fun I i j => bget A I (i / nr B) (j / nc B) * bget B I (i mod nr B) (j mod nc B)).

Definition dsuml (l : list BT) : BT :=
  mkBT (fold_right (fun A s => bcast (bsh A) s) [] l)
       (match l with [] => 0%nat | A :: _ => nr A end) (match l with [] => 0%nat | A :: _ => nc A end)
       (fun I i j => zsuml (map (fun A => bget A I i j) l)).

Definition dblockdiag (A : BT) : BT :=
  match bsh A with
  | k :: bs => mkBT bs (k * nr A) (k * nc A)
                 (fun I i j => if Nat.eqb (i / nr A) (j / nc A) then ent A ((i / nr A)%nat :: I) (i mod nr A) (j mod nc A) else 0)
  | [] => dzero [] 0 0
  end.
Definition dblockinter (A : BT) : BT :=
  match bsh A with
  | k :: bs => mkBT bs (nr A * k) (nc A * k)
                 (fun I i j => if Nat.eqb (i mod k) (j mod k) then ent A ((i mod k)%nat :: I) (i / k) (j / k) else 0)
  | [] => dzero [] 0 0
  end.
Definition dsumbatch (A : BT) : BT :=
  match bsh A with
  | k :: bs => mkBT bs (nr A) (nc A) (fun I i j => zsum k (fun b => ent A (b :: I) i j))
  | [] => dzero [] 0 0
  end.

Fixpoint brep (bs rep : shape) : shape :=
  match bs, rep with
  | d :: bs', r :: rep' => (d * r)%nat :: brep bs' rep'
  | [], _ => rep
  | _, [] => bs
  end.
Fixpoint bmod (bs : shape) (I : bidx) : bidx :=
  match bs, I with
  | d :: bs', i :: I' => (i mod d)%nat :: bmod bs' I'
  | d :: bs', [] => 0%nat :: bmod bs' []
  | [], _ => []
  end.
Definition drepeat (A : BT) (rep : shape) : BT :=
  mkBT (brep (bsh A) rep) (nr A) (nc A) (fun I i j => ent A (bmod (bsh A) I) i j).

Inductive catdim := CatRows | CatCols | CatBatch (p : nat).   (* p: position in the innermost-first batch shape *)

Fixpoint cat_rows_ent (l : list BT) (I : bidx) (i j : nat) : Z :=
  match l with
  | [] => 0
  | A :: r => if (i <? nr A)%nat then bget A I i j else cat_rows_ent r I (i - nr A) j
  end.
Fixpoint cat_cols_ent (l : list BT) (I : bidx) (i j : nat) : Z :=
  match l with
  | [] => 0
  | A :: r => if (j <? nc A)%nat then bget A I i j else cat_cols_ent r I i (j - nc A)
  end.
Fixpoint bset (I : bidx) (p v : nat) : bidx :=
  match I, p with
  | [], _ => []
  | _ :: I', O => v :: I'
  | i :: I', S p' => i :: bset I' p' v
  end.
Fixpoint cat_batch_ent (l : list BT) (p : nat) (I : bidx) (i j : nat) : Z :=
  match l with
  | [] => 0
  | A :: r => let d := nth p (bsh A) 0%nat in
              if (nth p I 0 <? d)%nat then ent A I i j else cat_batch_ent r p (bset I p (nth p I 0 - d)%nat) i j
  end.
Definition sumn (l : list nat) : nat := fold_right Nat.add 0%nat l.
Definition dcat (l : list BT) (d : catdim) : BT :=
  match l with
  | [] => dzero [] 0 0
  | A :: _ =>
      match d with
      | CatRows => mkBT (bsh A) (sumn (map nr l)) (nc A) (cat_rows_ent l)
      | CatCols => mkBT (bsh A) (nr A) (sumn (map nc l)) (cat_cols_ent l)
      | CatBatch p => mkBT (bset (bsh A) p (sumn (map (fun B => nth p (bsh B) 0%nat) l))) (nr A) (nc A) (cat_batch_ent l p)
      end
  end.

Definition dinterp (idx val : BT) (ncols : nat) : BT :=
  mkBT (bsh idx) (nr idx) ncols
       (fun I i c => zsum (nc idx) (fun a => if Nat.eqb (Z.to_nat (ent idx I i a)) c then ent val I i a else 0)).

Definition dtoeplitz (col : BT) : BT :=
  mkBT (bsh col) (nr col) (nr col) (fun I i j => ent col I (absdiff i j) 0%nat).
Definition dconstdiag (c : BT) (n : nat) : BT :=
  mkBT (bsh c) n n (fun I i j => if Nat.eqb i j then ent c I 0%nat 0%nat else 0).

(* a batch of constants as a column of n equal entries (ConstantDiagLinearOperator._diag) *)
Definition dcol_of_const (c : BT) (n : nat) : BT := mkBT (bsh c) n 1 (fun I _ _ => ent c I 0%nat 0%nat).
Definition dones (bs : shape) (r c : nat) : BT := mkBT bs r c (fun _ _ _ => 1).

(* ---- batch-dimension manipulation (positions count from the INNERMOST batch dimension) --------------- *)

(* insert v at position p of a list (unsqueeze: v = 1; index: v = 0) *)
Fixpoint linsert {T} (l : list T) (p : nat) (v : T) : list T :=
  match p, l with
  | O, _ => v :: l
  | S p', x :: r => x :: linsert r p' v
  | S _, [] => [v]
  end.
Fixpoint ldelete {T} (l : list T) (p : nat) : list T :=
  match p, l with
  | _, [] => []
  | O, _ :: r => r
  | S p', x :: r => x :: ldelete r p'
  end.

Definition dunsqueeze (A : BT) (p : nat) : BT :=
  mkBT (linsert (bsh A) p 1%nat) (nr A) (nc A) (fun I i j => ent A (ldelete I p) i j).
Definition dsqueeze (A : BT) (p : nat) : BT :=        (* select index 0 along a batch dimension of size 1 *)
  mkBT (ldelete (bsh A) p) (nr A) (nc A) (fun I i j => ent A (linsert I p 0%nat) i j).
(* sum / product over batch position p *)
Definition dsumdim (A : BT) (p : nat) : BT :=
  mkBT (ldelete (bsh A) p) (nr A) (nc A) (fun I i j => zsum (nth p (bsh A) 0%nat) (fun b => ent A (linsert I p b) i j)).
Fixpoint zprod (n : nat) (f : nat -> Z) : Z := match n with O => 1 | S k => zprod k f * f k end.
Definition dproddim (A : BT) (p : nat) : BT :=
  mkBT (ldelete (bsh A) p) (nr A) (nc A) (fun I i j => zprod (nth p (bsh A) 0%nat) (fun b => ent A (linsert I p b) i j)).
(* permutation of batch positions: new position k carries old position (nth k perm) *)
Definition lperm {T} (perm : list nat) (l : list T) (d : T) : list T := map (fun k => nth k l d) perm.
(* inverse image: old index from new index *)
Definition lunperm (perm : list nat) (I : bidx) : bidx :=
  map (fun old => match find (fun kp => Nat.eqb (snd kp) old) (combine (seq 0 (length perm)) perm) with
                  | Some (k, _) => nth k I 0%nat | None => 0%nat end) (seq 0 (length perm)).
Definition dpermute (A : BT) (perm : list nat) : BT :=
  mkBT (lperm perm (bsh A) 1%nat) (nr A) (nc A) (fun I i j => ent A (lunperm perm I) i j).

(* move batch position p to the innermost position (what BlockLinearOperator.__init__ does for block_dim != -3) *)
Definition dmove_in (A : BT) (p : nat) : BT :=
  mkBT (nth p (bsh A) 1%nat :: ldelete (bsh A) p) (nr A) (nc A)
       (fun I i j => match I with b :: I' => ent A (linsert I' p b) i j | [] => 0 end).

(* shape facts used everywhere *)
Definition same_dims (A B : BT) : bool := Nat.eqb (nr A) (nr B) && Nat.eqb (nc A) (nc B).
Definition same_shape (A B : BT) : bool := shape_eqb (bsh A) (bsh B) && same_dims A B.
Definition is_square (A : BT) : bool := Nat.eqb (nr A) (nc A).
