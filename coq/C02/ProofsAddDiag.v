(* C02.ProofsAddDiag — add_jitter / add_diagonal with a 0-d diagonal (the constant c on every diagonal entry): the Diag family
   adds it to its own diagonal, the added-diagonal classes to their diagonal part, Kronecker / LowRankRoot build their
   added-diagonal classes, Triangular recurses into its factor, everything else becomes an AddedDiagLinearOperator with a
   ConstantDiag: the object denotes A + c I. *)
From Coq Require Import List ZArith Lia Bool Arith.
Import ListNotations.
Require Import C02.Sums C02.Batch C02.Tensor C02.Dense C02.Op C02.Model C02.Spec.
Require Import C02.ProofsDense C02.ProofsBase C02.ProofsExpand C02.ProofsCtor C02.ProofsMT C02.ProofsMatmul C02.ProofsRaw C02.ProofsAdd C02.ProofsMul.
Open Scope Z_scope.

Lemma raw_col_add0 sd d : bsh d = [] ->
  ddiag (raw_to_col (radd (col_to_raw sd) d)) == dadd (ddiag sd) (dconstdiag d (nr sd)).
Proof.
  intros HD. unfold raw_to_col, radd, col_to_raw, mkraw. simpl. rewrite HD. simpl.
  apply BTeq_intro; simpl; rewrite ?HD, ?bcast_nil_r; try reflexivity.
  intros I i j HI Hi Hj. ub. rewrite HD. simpl. rewrite bproj_id by assumption.
  rewrite (idx1 (nr sd)) by assumption. destruct (Nat.eqb i j); ring.
Qed.

Lemma cdiag_expand0 d bs n : bsh d = [] ->
  dconstdiag (rdrop_last (dexpand (1%nat :: bs) d)) n == dexpand bs (dconstdiag d n).
Proof.
  intros HD. apply BTeq_intro; simpl; try reflexivity.
  intros I i j HI _ _. unfold rval. ub. rewrite HD. reflexivity.
Qed.

Lemma diag_add_diagonal0 e d r :
  wf e -> is_diag e = true -> scalar0 d -> alg_add_diagonal e d = Ok r ->
  denote r == dadd (denote e) (dconstdiag d (cols e)).
Proof.
  intros HE DE (HD & _ & _) HX.
  assert (HX' : diag_add_diagonal (diag_of e) d = Ok r).
  { destruct e; simpl in DE; try discriminate; try exact HX. destruct k; try discriminate. exact HX. }
  clear HX. unfold diag_add_diagonal in HX'. ifd HX'. okinv HX'.
  destruct (diag_of_shape _ DE) as (S1 & R1). destruct (diag_is_diag _ HE DE) as (SQ & _).
  simpl denote at 1. eapply BTeq_trans; [apply raw_col_add0; exact HD|].
  assert (EN : nr (diag_of e) = cols e) by (unfold rows, cols in *; congruence).
  rewrite EN. apply dadd_eq; [apply BTeq_sym; apply diag_of_correct; assumption|apply BTeq_refl| | |]; simpl.
  - rewrite HD. destruct (bsh (diag_of e)); reflexivity.
  - unfold rows, cols in *. congruence.
  - unfold rows, cols in *. congruence.
Qed.

Lemma base_add_diagonal0 : forall e d r, wf e -> scalar0 d ->
    (if negb (Nat.eqb (rows e) (cols e)) then Err ENotSupported
     else dt <- base_diag_tensor e d ;; mk_sumc KAddedDiag [e; dt]) = Ok r ->
    denote r == dadd (denote e) (dconstdiag d (cols e)).
Proof.
  intros e d r HE (HD & D2 & D3) HX. destruct (Nat.eqb (rows e) (cols e)) eqn:SQ; simpl in HX; [|discriminate].
    apply Nat.eqb_eq in SQ. binv HX. unfold base_diag_tensor in E. unfold rdim in E. rewrite HD in E. simpl in E. okinv E.
    apply mk_sumc2_correct in HX0; [|unfold rows, cols in *; simpl; congruence|reflexivity].
    destruct HX0 as (H1 & CB). eapply BTeq_trans; [exact H1|].
    simpl denote at 2.
    eapply BTeq_trans; [apply dadd_eq; [apply BTeq_refl|apply cdiag_expand0; exact HD| | |]; simpl|].
    - apply bcompat_refl.
    - unfold rows, cols in *. congruence.
    - reflexivity.
    - change (bsh (denote e)) with (batch e).
      apply (dadd_dexpand_r (denote e) (dconstdiag d (cols e))). simpl. rewrite HD. reflexivity. 
Qed.

Lemma kron_add_diagonal0 : forall e d r k, wf e -> scalar0 d ->
    (if negb (Nat.eqb (rows e) (cols e)) then Err ENotSupported
     else dt <- kron_diag_tensor e d ;; mk_sumc k [e; dt]) = Ok r ->
    denote r == dadd (denote e) (dconstdiag d (cols e)).
Proof.
  intros e d r k HE (HD & D2 & D3) HX. destruct (Nat.eqb (rows e) (cols e)) eqn:SQ; simpl in HX; [|discriminate].
    apply Nat.eqb_eq in SQ. binv HX. unfold kron_diag_tensor in E. rewrite HD in E. okinv E.
    apply mk_sumc2_correct in HX0; [exact (proj1 HX0)|unfold rows, cols in *; simpl; congruence|reflexivity]. 
Qed.

Theorem alg_add_diagonal_correct0 e : forall d r,
  wf e -> scalar0 d -> zpath e = true -> alg_add_diagonal e d = Ok r ->
  denote r == dadd (denote e) (dconstdiag d (cols e)).
Proof.
  pose proof base_add_diagonal0 as BASE. pose proof kron_add_diagonal0 as KRON.
  induction e using Op_ind'; intros dd r0 HE HD ZE HX; simpl in ZE; try discriminate;
    try (simpl in HX; apply (BASE _ _ _ HE HD HX)).
  - (* Diag *) apply diag_add_diagonal0; try assumption; reflexivity.
  - (* CDiag *) apply diag_add_diagonal0; try assumption; reflexivity.
  - (* Ident *) apply diag_add_diagonal0; try assumption; reflexivity.
  - (* Tri *)
    apply wf_tri in HE. destruct HE as (HE & SQ). simpl in HX. binv HX. rewrite (mk_tri_denote _ _ _ HX0).
    apply IHe; assumption.
  - (* RootC *)
    destruct k; try (simpl in HX; apply (BASE _ _ _ HE HD HX)).
    simpl in HX. apply (KRON _ _ _ KLRRAD HE HD HX).
  - (* KronC *)
    destruct k as [|u|].
    3: { apply diag_add_diagonal0; try assumption; reflexivity. }
    all: simpl in HX; apply (KRON _ _ _ KKPAD HE HD HX).
  - (* SumC *)
    destruct k; try (simpl in HX; destruct ops as [|x [|y [|z t]]]; apply (BASE _ _ _ HE HD HX)).
    all: pose proof HE as HE0.
    all: destruct (wf_added_diag _ _ HE) as (l & dg & -> & W1 & W2 & D2 & D1 & EB & ER & EC & SQ); [tauto|].
    all: simpl in HX; binv HX.
    all: pose proof (diag_add_diagonal0 dg dd a W2 D2 HD E) as HDG.
    all: apply mk_sumc2_correct in HX0;
      [|unfold rows in *; rewrite (BTeq_nr _ _ HDG); simpl; congruence|unfold cols in *; rewrite (BTeq_nc _ _ HDG); simpl; congruence].
    all: destruct HX0 as (H1 & CB1).
    all: destruct HD as (HD1 & HD2 & HD3).
    all: assert (CLD : bcompat (bsh (denote l)) (bsh (denote dg)) = true)
      by (change (bsh (denote l)) with (batch l); change (bsh (denote dg)) with (batch dg); rewrite EB; apply bcompat_refl).
    all: assert (CN : forall X : BT, bcompat (bsh X) (bsh (dconstdiag dd (cols dg))) = true)
      by (intros X; simpl; rewrite HD1; destruct (bsh X); reflexivity).
    all: eapply BTeq_trans; [exact H1|].
    all: eapply BTeq_trans; [apply dadd_eq; [apply BTeq_refl|exact HDG|exact CB1| |]|];
      [rewrite (BTeq_nr _ _ HDG); simpl; unfold rows in *; congruence
      |rewrite (BTeq_nc _ _ HDG); simpl; unfold cols in *; congruence|].
    all: eapply BTeq_trans; [apply BTeq_sym; apply dadd_assoc; [exact CLD|apply CN|apply CN]|].
    all: apply dadd_eq; [apply BTeq_sym; apply denote_sum2| | | |]; simpl.
    all: try (rewrite HD1; match goal with |- bcompat ?s [] = true => destruct s; reflexivity end).
    all: try (unfold rows, cols in *; simpl; congruence).
    all: assert (EQC : cols dg = nc (denote l)) by (unfold cols in *; congruence); rewrite EQC; apply BTeq_refl.
Qed.
