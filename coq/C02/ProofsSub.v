(* C02.ProofsSub — __sub__ : self + other.mul(-1) denotes the broadcast difference. *)
From Coq Require Import List ZArith Lia Bool Arith.
Import ListNotations.
Require Import C02.Sums C02.Batch C02.Tensor C02.Dense C02.Op C02.Model C02.Spec.
Require Import C02.ProofsDense C02.ProofsBase C02.ProofsExpand C02.ProofsCtor C02.ProofsMT C02.ProofsMatmul C02.ProofsRaw C02.ProofsAdd C02.ProofsMul.
Open Scope Z_scope.

Lemma sqn_neg n z : z <= 0 -> sqn n z.
Proof. destruct n; simpl; [trivial|]. intros H1 H2. lia. Qed.

(* the negated operand [no] is an intermediate object: its invariants and the Zero-absorption side conditions are decidable and
   are checked on the concrete object (see ProofsProgram.safe) *)
Theorem alg_sub_correct e o no r :
  wf e -> wf o -> rows o = rows e -> cols o = cols e ->
  is_zero o = false -> mulc_cov o = true ->
  alg_mul o (APy (-1)) = Ok no -> wf no -> zpath e = true -> zpath no = true -> zok e no = true ->
  alg_sub e (AOp o) = Ok r -> denote r == dsub (denote e) (denote o) /\ bcompat (batch e) (batch o) = true.
Proof.
  intros HE HO HR HC NZ CV HM WN ZE ZN ZK HX.
  unfold alg_sub in HX. rewrite HM in HX. simpl in HX.
  assert (HM' : alg_mul_constant o (zconst (-1)) = Ok no).
  { destruct o; simpl in NZ; try discriminate; exact HM. }
  assert (S0 : scalar0 (zconst (-1))) by (repeat split).
  pose proof (alg_mul_constant_correct0 o (zconst (-1)) no HO S0 CV (sqn_neg (rdepth o) (c0 (zconst (-1))) ltac:(unfold c0, zconst, mkraw; simpl; lia)) HM') as HN.
  assert (RN : rows no = rows e /\ cols no = cols e).
  { unfold rows, cols in *. rewrite (BTeq_nr _ _ HN), (BTeq_nc _ _ HN). simpl. split; assumption. }
  destruct RN as (RN & CN).
  destruct (alg_add_correct e no r HE WN RN CN ZE ZN ZK HX) as (HA & CB).
  assert (BN : batch no = batch o).
  { unfold batch. rewrite (BTeq_bsh _ _ HN). simpl. apply bcast_nil_r. }
  rewrite BN in CB. split; [|exact CB].
  eapply BTeq_trans; [exact HA|].
  eapply BTeq_trans; [apply dadd_eq; [apply BTeq_refl|exact HN| | |]|].
  - unfold batch in *. rewrite BN. exact CB.
  - unfold rows in *. congruence.
  - unfold cols in *. congruence.
  - apply BTeq_sym. apply dsub_as_dadd; reflexivity.
Qed.
