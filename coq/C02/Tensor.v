(* C02.Tensor — copied verbatim (logical path renamed) from coq/C01/Tensor.v, which its owner declared stable,
   so that the C02 development is self-contained while other builders edit coq/C01 concurrently. *)
From Coq Require Import List ZArith Lia Bool Arith.
Import ListNotations.
Require Import C02.Sums C02.Batch.
Open Scope Z_scope.

Record BT := mkBT { bsh : shape; nr : nat; nc : nat; ent : bidx -> nat -> nat -> Z }.

Definition BTeq (A B : BT) : Prop :=
  bsh A = bsh B /\ nr A = nr B /\ nc A = nc B /\
  forall I i j, inb (bsh A) I -> (i < nr A)%nat -> (j < nc A)%nat -> ent A I i j = ent B I i j.

Infix "==" := BTeq (at level 70, no associativity).

Lemma BTeq_refl A : A == A.
Proof. repeat split. Qed.

Lemma BTeq_sym A B : A == B -> B == A.
Proof.
  intros (H1 & H2 & H3 & H4). repeat split; try congruence.
  intros I i j HI Hi Hj. symmetry. apply H4; congruence.
Qed.

Lemma BTeq_trans A B C : A == B -> B == C -> A == C.
Proof.
  intros (H1 & H2 & H3 & H4) (G1 & G2 & G3 & G4). repeat split; try congruence.
  intros I i j HI Hi Hj. rewrite H4 by assumption. apply G4; congruence.
Qed.

(* entry of A seen from position I of a (possibly larger) broadcast batch shape *)
Definition bget (A : BT) (I : bidx) (i j : nat) : Z := ent A (bproj (bsh A) I) i j.

Lemma bget_eq A B C I i j :
  A == B -> bsub (bsh A) C = true -> inb C I -> (i < nr A)%nat -> (j < nc A)%nat -> bget A I i j = bget B I i j.
Proof.
  intros (H1 & H2 & H3 & H4) HS HI Hi Hj. unfold bget. rewrite <- H1. apply H4; try assumption.
  eapply inb_bproj; eauto.
Qed.

Lemma bget_in A I i j : inb (bsh A) I -> bget A I i j = ent A I i j.
Proof. intros H. unfold bget. rewrite bproj_id by assumption. reflexivity. Qed.

(* ---- dense torch operations (the specification side) ------------------------------------ *)

(* torch.matmul of batched matrices: batch shapes broadcast *)
Definition dmm (A X : BT) : BT :=
  mkBT (bcast (bsh A) (bsh X)) (nr A) (nc X)
       (fun I i j => zsum (nc A) (fun l => bget A I i l * bget X I l j)).

(* A.mT *)
Definition dtr (A : BT) : BT := mkBT (bsh A) (nc A) (nr A) (fun I i j => ent A I j i).

(* A + B, A * B (elementwise), with batch broadcasting; matrix sizes must agree *)
Definition dadd (A B : BT) : BT :=
  mkBT (bcast (bsh A) (bsh B)) (nr A) (nc A) (fun I i j => bget A I i j + bget B I i j).
Definition dhad (A B : BT) : BT :=
  mkBT (bcast (bsh A) (bsh B)) (nr A) (nc A) (fun I i j => bget A I i j * bget B I i j).

(* expand to a larger batch shape *)
Definition dexpand (B : shape) (A : BT) : BT := mkBT B (nr A) (nc A) (fun I i j => bget A I i j).

(* zeros / identity / embedding of a vector as a diagonal *)
Definition dzero (B : shape) (m n : nat) : BT := mkBT B m n (fun _ _ _ => 0).
Definition deye (B : shape) (n : nat) : BT := mkBT B n n (fun _ i j => zdelta i j).
(* d : (batch, n, 1)  |->  diag_embed *)
Definition ddiag (d : BT) : BT := mkBT (bsh d) (nr d) (nr d) (fun I i j => if Nat.eqb i j then ent d I i 0%nat else 0).

Lemma dtr_dtr A : dtr (dtr A) == A.
Proof. repeat split. Qed.

Lemma dtr_eq A B : A == B -> dtr A == dtr B.
Proof.
  intros (H1 & H2 & H3 & H4). unfold dtr. repeat split; simpl; try assumption.
  intros I i j HI Hi Hj. apply H4; assumption.
Qed.

Lemma dmm_eq_r A X Y : bcompat (bsh A) (bsh X) = true -> nr X = nc A -> X == Y -> dmm A X == dmm A Y.
Proof.
  intros HC HR HE. pose proof HE as (H1 & H2 & H3 & H4). unfold dmm. repeat split; simpl; try congruence.
  intros I i j HI Hi Hj. apply zsum_ext. intros l Hl. f_equal.
  eapply bget_eq; eauto; [apply bsub_bcast_r; assumption|lia].
Qed.

Lemma dmm_eq_l A B X : bcompat (bsh A) (bsh X) = true -> A == B -> dmm A X == dmm B X.
Proof.
  intros HC HE. pose proof HE as (H1 & H2 & H3 & H4). unfold dmm. repeat split; simpl; try congruence.
  intros I i j HI Hi Hj. rewrite <- H3. apply zsum_ext. intros l Hl. f_equal.
  eapply bget_eq; eauto. apply bsub_bcast_l; assumption.
Qed.

(* (A B) X = A (B X), including the batch shapes *)
Lemma dmm_assoc A B X :
  bcompat (bsh A) (bsh B) = true -> bcompat (bcast (bsh A) (bsh B)) (bsh X) = true -> nr B = nc A ->
  dmm (dmm A B) X == dmm A (dmm B X).
Proof.
  intros HAB HABX HR.
  destruct (proj1 (bcompat_bcast_l _ _ _ HAB) HABX) as [HAX HBX].
  unfold dmm at 1 3. repeat split; simpl; [symmetry; apply bcast_assoc|].
  intros I i j HI Hi Hj.
  set (BB := bcast (bcast (bsh A) (bsh B)) (bsh X)) in *.
  assert (SAB : bsub (bcast (bsh A) (bsh B)) BB = true) by (apply bsub_bcast_l; assumption).
  assert (SX : bsub (bsh X) BB = true) by (apply bsub_bcast_r; assumption).
  assert (SA : bsub (bsh A) BB = true) by (apply (bsub_trans _ _ _ (bsub_bcast_l _ _ HAB) SAB)).
  assert (SB : bsub (bsh B) BB = true) by (apply (bsub_trans _ _ _ (bsub_bcast_r _ _ HAB) SAB)).
  assert (SBX : bsub (bcast (bsh B) (bsh X)) BB = true) by (apply (proj1 (bsub_lub _ _ _ SB SX))).
  pose proof (bsub_bcast_l _ _ HAB) as SA'. pose proof (bsub_bcast_r _ _ HAB) as SB'.
  pose proof (bsub_bcast_l _ _ HBX) as SB''. pose proof (bsub_bcast_r _ _ HBX) as SX''.
  unfold bget at 1. simpl.
  transitivity (zsum (nc B) (fun l => zsum (nc A) (fun k => bget A I i k * bget B I k l * bget X I l j))).
  { apply zsum_ext. intros l Hl. rewrite <- zsum_scale_r. apply zsum_ext. intros k Hk.
    unfold bget. simpl. rewrite !bproj_bproj by assumption. reflexivity. }
  rewrite zsum_swap. apply zsum_ext. intros k Hk.
  unfold bget at 4. simpl. rewrite <- zsum_scale_l. apply zsum_ext. intros l Hl.
  unfold bget. simpl. rewrite !bproj_bproj by assumption. ring.
Qed.

Lemma dmm_dtr A X : bcompat (bsh A) (bsh X) = true -> nr X = nc A ->
  dtr (dmm A X) == dmm (dtr X) (dtr A).
Proof.
  intros HC HR. unfold dmm, dtr. repeat split; simpl; [apply bcast_comm; assumption|].
  intros I i j HI Hi Hj. rewrite HR. apply zsum_ext. intros l Hl. unfold bget. simpl. ring.
Qed.

Lemma dexpand_eq B A A' : bsub (bsh A) B = true -> A == A' -> dexpand B A == dexpand B A'.
Proof.
  intros HS HE. pose proof HE as (H1 & H2 & H3 & H4). unfold dexpand. repeat split; simpl; try assumption.
  intros I i j HI Hi Hj. eapply bget_eq; eauto.
Qed.

(* multiplying by the expanded tensor is multiplying by the tensor *)
Lemma dmm_expand_r A X B : bcompat (bsh A) (bsh X) = true -> B = bcast (bsh A) (bsh X) ->
  dmm A (dexpand B X) == dmm A X.
Proof.
  intros HC ->. unfold dmm, dexpand. simpl.
  assert (SX : bsub (bsh X) (bcast (bsh A) (bsh X)) = true) by (apply bsub_bcast_r; assumption).
  assert (SA : bsub (bsh A) (bcast (bsh A) (bsh X)) = true) by (apply bsub_bcast_l; assumption).
  repeat split; simpl.
  - rewrite bcast_assoc, bcast_refl. reflexivity.
  - intros I i j HI Hi Hj. apply zsum_ext. intros l Hl. f_equal. unfold bget at 1. simpl.
    rewrite bproj_bproj by assumption. reflexivity.
Qed.

(* ---- tabulated tensors: literals and memoisation ------------------------------------------- *)

(* a table is indexed [flat batch position][row][column] *)
Definition table := list (list (list Z)).

Definition tget (t : table) (b i j : nat) : Z := nth j (nth i (nth b t []) []) 0.

Definition of_table (bs : shape) (r c : nat) (t : table) : BT :=
  mkBT bs r c (fun I i j => tget t (bflat bs I) i j).

Definition tabulate (A : BT) : table :=
  map (fun I => map (fun i => map (fun j => ent A I i j) (seq 0 (nc A))) (seq 0 (nr A))) (all_bidx (bsh A)).

(* memoise: same tensor, entries computed once *)
Definition freeze (A : BT) : BT := of_table (bsh A) (nr A) (nc A) (tabulate A).

Lemma nth_map_seq {T} (f : nat -> T) n k d : (k < n)%nat -> nth k (map f (seq 0 n)) d = f k.
Proof.
  intros H. rewrite (nth_indep _ d (f 0%nat)) by (rewrite map_length, seq_length; assumption).
  rewrite map_nth, seq_nth by assumption. reflexivity.
Qed.

Lemma freeze_eq A : freeze A == A.
Proof.
  unfold freeze, of_table, tabulate. repeat split; simpl.
  intros I i j HI Hi Hj. unfold tget.
  rewrite (nth_indep _ [] (map (fun i0 => map (fun j0 => ent A [] i0 j0) (seq 0 (nc A))) (seq 0 (nr A))))
    by (rewrite map_length; unfold all_bidx; rewrite map_length, seq_length; apply bflat_lt; assumption).
  rewrite (map_nth (fun I0 => map (fun i0 => map (fun j0 => ent A I0 i0 j0) (seq 0 (nc A))) (seq 0 (nr A))) (all_bidx (bsh A)) []).
  rewrite all_bidx_nth by assumption.
  rewrite nth_map_seq by assumption. rewrite nth_map_seq by assumption. reflexivity.
Qed.

(* comparison of a tensor with an observed table (used by the correspondence shards) *)
Definition row_eqb (f : nat -> Z) (l : list Z) : bool :=
  (fix go (k : nat) (l : list Z) : bool :=
     match l with [] => true | x :: r => Z.eqb (f k) x && go (S k) r end) 0%nat l.

Definition BT_matches (A : BT) (bs : shape) (r c : nat) (t : table) : bool :=
  (if list_eq_dec Nat.eq_dec (bsh A) bs then true else false) && Nat.eqb (nr A) r && Nat.eqb (nc A) c &&
  Nat.eqb (length t) (bnumel bs) &&
  forallb (fun k => let I := bunflat bs k in
                    let rows := nth k t [] in
                    Nat.eqb (length rows) r &&
                    forallb (fun i => let row := nth i rows [] in
                                      Nat.eqb (length row) c &&
                                      forallb (fun j => Z.eqb (ent A I i j) (nth j row 0)) (seq 0 c))
                            (seq 0 r))
          (seq 0 (bnumel bs)).

(* what a successful comparison means: the model tensor IS the observed tensor *)
Lemma BT_matches_sound A bs r c t : BT_matches A bs r c t = true -> A == of_table bs r c t.
Proof.
  unfold BT_matches. rewrite !andb_true_iff. intros [[[[H1 H2] H3] H4] H5].
  destruct (list_eq_dec Nat.eq_dec (bsh A) bs) as [E|]; [|discriminate].
  apply Nat.eqb_eq in H2, H3. unfold of_table. repeat split; simpl; try assumption.
  intros I i j HI Hi Hj. rewrite forallb_forall in H5.
  rewrite E in HI. pose proof (bflat_lt bs I HI) as HL.
  specialize (H5 (bflat bs I)). rewrite in_seq in H5. specialize (H5 ltac:(lia)). simpl in H5.
  rewrite andb_true_iff in H5. destruct H5 as [_ H5]. rewrite forallb_forall in H5.
  specialize (H5 i). rewrite in_seq in H5. specialize (H5 ltac:(lia)). simpl in H5.
  rewrite andb_true_iff in H5. destruct H5 as [_ H5]. rewrite forallb_forall in H5.
  specialize (H5 j). rewrite in_seq in H5. specialize (H5 ltac:(lia)).
  rewrite bunflat_bflat in H5 by assumption. apply Z.eqb_eq in H5. exact H5.
Qed.
