(* C01.OpExpr — operator expressions: a deep embedding of the linear_operator classes, the
   well-formedness conditions their constructors impose, and [denote]: the ONE dense batched matrix an
   expression represents under the documented meaning of each structure.
   STABLE (see design_notes/C01.md): C02/C03/C07/C14/C19 may import this file (and Sums, Batch, Tensor).

   One constructor per class built by harness/opbuild.py.  Batch shapes are innermost-first (Batch.v).
   Vectors (diagonals, Toeplitz columns, permutations) are [BT]s with one column; scalars per batch member
   (constants) are 1 x 1 [BT]s. *)
From Coq Require Import List ZArith Lia Bool Arith.
Import ListNotations.
Require Import C01.Sums C01.Batch C01.Tensor.
Open Scope Z_scope.

Inductive catdim := CatRows | CatCols | CatBatch (p : nat).   (* p: position in the innermost-first batch shape *)

Inductive OpExpr : Type :=
| Dense (t : BT)
| Diag (d : BT)                               (* d : batch x n x 1 *)
| ConstantDiag (c : BT) (n : nat)             (* c : batch x 1 x 1 *)
| Identity (n : nat) (batch : shape)
| Zero (batch : shape) (m n : nat)
| Toeplitz (col : BT)                         (* batch x n x 1, symmetric Toeplitz from its first column *)
| Triangular (t : BT) (upper : bool)
| Chol (t : BT) (upper : bool)                (* upper: R^T R, lower: L L^T *)
| Root (r : OpExpr)                           (* R R^T *)
| LowRankRoot (r : OpExpr)
| Kron (ops : list OpExpr)
| KronTriangular (ops : list OpExpr) (upper : bool)
| KronDiag (ops : list OpExpr)
| KronAddedDiag (kron diag : OpExpr)
| SumKron (a b : OpExpr)
| AddedDiag (base diag : OpExpr)
| LowRankRootAddedDiag (root diag : OpExpr)
| Sum (ops : list OpExpr)
| PsdSum (ops : list OpExpr)
| Matmul (l r : OpExpr)
| Mul (l r : OpExpr)                          (* Hadamard product *)
| ConstantMul (base : OpExpr) (c : BT)        (* c : batch x 1 x 1 *)
| BlockDiag (base : OpExpr)                   (* innermost batch dimension of base = blocks *)
| BlockInterleaved (base : OpExpr)
| SumBatch (base : OpExpr)
| BatchRepeat (base : OpExpr) (rep : shape)
| Cat (ops : list OpExpr) (dim : catdim)
| Interpolated (base : OpExpr) (li lv ri rv : BT)   (* W_l K W_r^T; indices / values : batch x n x k *)
| Masked (base : OpExpr) (rmask cmask : list bool)
| Permutation (perm : BT)                     (* batch x n x 1 ; (P x)[i] = x[perm i] *)
| TransposePermutation (m : nat)              (* vec(A) |-> vec(A^T) for m x m matrices *)
| Kernel (x1 x2 : BT) (square : bool)         (* polynomial kernel: x1 x2^T, optionally squared entrywise *)
| UserMinimal (t : BT).                       (* user subclass: only _matmul, _size, _transpose_nonbatch *)

(* induction principle that reaches the operators inside lists *)
Section Ind.
Variable P : OpExpr -> Prop.
Hypothesis HDense : forall t, P (Dense t).
Hypothesis HDiag : forall d, P (Diag d).
Hypothesis HConstantDiag : forall c n, P (ConstantDiag c n).
Hypothesis HIdentity : forall n b, P (Identity n b).
Hypothesis HZero : forall b m n, P (Zero b m n).
Hypothesis HToeplitz : forall c, P (Toeplitz c).
Hypothesis HTriangular : forall t u, P (Triangular t u).
Hypothesis HChol : forall t u, P (Chol t u).
Hypothesis HRoot : forall r, P r -> P (Root r).
Hypothesis HLowRankRoot : forall r, P r -> P (LowRankRoot r).
Hypothesis HKron : forall ops, Forall P ops -> P (Kron ops).
Hypothesis HKronTriangular : forall ops u, Forall P ops -> P (KronTriangular ops u).
Hypothesis HKronDiag : forall ops, Forall P ops -> P (KronDiag ops).
Hypothesis HKronAddedDiag : forall k d, P k -> P d -> P (KronAddedDiag k d).
Hypothesis HSumKron : forall a b, P a -> P b -> P (SumKron a b).
Hypothesis HAddedDiag : forall a b, P a -> P b -> P (AddedDiag a b).
Hypothesis HLowRankRootAddedDiag : forall a b, P a -> P b -> P (LowRankRootAddedDiag a b).
Hypothesis HSum : forall ops, Forall P ops -> P (Sum ops).
Hypothesis HPsdSum : forall ops, Forall P ops -> P (PsdSum ops).
Hypothesis HMatmul : forall l r, P l -> P r -> P (Matmul l r).
Hypothesis HMul : forall l r, P l -> P r -> P (Mul l r).
Hypothesis HConstantMul : forall b c, P b -> P (ConstantMul b c).
Hypothesis HBlockDiag : forall b, P b -> P (BlockDiag b).
Hypothesis HBlockInterleaved : forall b, P b -> P (BlockInterleaved b).
Hypothesis HSumBatch : forall b, P b -> P (SumBatch b).
Hypothesis HBatchRepeat : forall b rep, P b -> P (BatchRepeat b rep).
Hypothesis HCat : forall ops d, Forall P ops -> P (Cat ops d).
Hypothesis HInterpolated : forall b li lv ri rv, P b -> P (Interpolated b li lv ri rv).
Hypothesis HMasked : forall b rm cm, P b -> P (Masked b rm cm).
Hypothesis HPermutation : forall p, P (Permutation p).
Hypothesis HTransposePermutation : forall m, P (TransposePermutation m).
Hypothesis HKernel : forall x1 x2 sq, P (Kernel x1 x2 sq).
Hypothesis HUserMinimal : forall t, P (UserMinimal t).

Fixpoint OpExpr_ind' (e : OpExpr) : P e :=
  let list_ind := fix list_ind (l : list OpExpr) : Forall P l :=
    match l with [] => Forall_nil P | x :: r => Forall_cons x (OpExpr_ind' x) (list_ind r) end in
  match e with
  | Dense t => HDense t
  | Diag d => HDiag d
  | ConstantDiag c n => HConstantDiag c n
  | Identity n b => HIdentity n b
  | Zero b m n => HZero b m n
  | Toeplitz c => HToeplitz c
  | Triangular t u => HTriangular t u
  | Chol t u => HChol t u
  | Root r => HRoot r (OpExpr_ind' r)
  | LowRankRoot r => HLowRankRoot r (OpExpr_ind' r)
  | Kron ops => HKron ops (list_ind ops)
  | KronTriangular ops u => HKronTriangular ops u (list_ind ops)
  | KronDiag ops => HKronDiag ops (list_ind ops)
  | KronAddedDiag k d => HKronAddedDiag k d (OpExpr_ind' k) (OpExpr_ind' d)
  | SumKron a b => HSumKron a b (OpExpr_ind' a) (OpExpr_ind' b)
  | AddedDiag a b => HAddedDiag a b (OpExpr_ind' a) (OpExpr_ind' b)
  | LowRankRootAddedDiag a b => HLowRankRootAddedDiag a b (OpExpr_ind' a) (OpExpr_ind' b)
  | Sum ops => HSum ops (list_ind ops)
  | PsdSum ops => HPsdSum ops (list_ind ops)
  | Matmul l r => HMatmul l r (OpExpr_ind' l) (OpExpr_ind' r)
  | Mul l r => HMul l r (OpExpr_ind' l) (OpExpr_ind' r)
  | ConstantMul b c => HConstantMul b c (OpExpr_ind' b)
  | BlockDiag b => HBlockDiag b (OpExpr_ind' b)
  | BlockInterleaved b => HBlockInterleaved b (OpExpr_ind' b)
  | SumBatch b => HSumBatch b (OpExpr_ind' b)
  | BatchRepeat b rep => HBatchRepeat b rep (OpExpr_ind' b)
  | Cat ops d => HCat ops d (list_ind ops)
  | Interpolated b li lv ri rv => HInterpolated b li lv ri rv (OpExpr_ind' b)
  | Masked b rm cm => HMasked b rm cm (OpExpr_ind' b)
  | Permutation p => HPermutation p
  | TransposePermutation m => HTransposePermutation m
  | Kernel x1 x2 sq => HKernel x1 x2 sq
  | UserMinimal t => HUserMinimal t
  end.
End Ind.

(* ---- dense building blocks of the documented meanings -------------------------------------- *)

Definition absdiff (i j : nat) : nat := if (i <? j)%nat then (j - i)%nat else (i - j)%nat.

(* Kronecker product of two batched matrices *)
Definition dkron (A B : BT) : BT :=
  mkBT (bcast (bsh A) (bsh B)) (nr A * nr B) (nc A * nc B)
       (fun I i j => bget A I (i / nr B) (j / nc B) * bget B I (i mod nr B) (j mod nc B)).

(* sum of a list of batched matrices of equal matrix size (batch shapes broadcast) *)
Definition dsuml (l : list BT) : BT :=
  mkBT (fold_right (fun A s => bcast (bsh A) s) [] l)
       (match l with [] => 0%nat | A :: _ => nr A end) (match l with [] => 0%nat | A :: _ => nc A end)
       (fun I i j => zsuml (map (fun A => bget A I i j) l)).

(* scalar (per batch member) times matrix; the scalar c is a 1 x 1 BT *)
Definition dscale (A c : BT) : BT :=
  mkBT (bsh A) (nr A) (nc A) (fun I i j => ent A I i j * bget c I 0%nat 0%nat).

(* innermost batch dimension -> diagonal blocks / interleaved blocks / summed *)
Definition dblockdiag (A : BT) : BT :=
  match bsh A with
  | k :: bs => mkBT bs (k * nr A) (k * nc A)
                 (fun I i j => if Nat.eqb (i / nr A) (j / nc A) then ent A ((i / nr A)%nat :: I) (i mod nr A) (j mod nc A) else 0)
  | [] => dzero [] 0 0
  end.
Definition dblockinter (A : BT) : BT :=
  match bsh A with
  | k :: bs => mkBT bs (nr A * k) (nc A * k)
                 (fun I i j => if Nat.eqb (i mod k) (j mod k) then ent A ((i mod k)%nat :: I) (i / k) (j / k) else 0)
  | [] => dzero [] 0 0
  end.
Definition dsumbatch (A : BT) : BT :=
  match bsh A with
  | k :: bs => mkBT bs (nr A) (nc A) (fun I i j => zsum k (fun b => ent A (b :: I) i j))
  | [] => dzero [] 0 0
  end.

(* torch.Tensor.repeat along batch dimensions: shapes multiply (the base is padded with outer 1s),
   the entry at I is the base entry at I mod base-shape *)
Fixpoint brep (bs rep : shape) : shape :=
  match bs, rep with
  | d :: bs', r :: rep' => (d * r)%nat :: brep bs' rep'
  | [], _ => rep
  | _, [] => bs
  end.
Fixpoint bmod (bs : shape) (I : bidx) : bidx :=
  match bs, I with
  | d :: bs', i :: I' => (i mod d)%nat :: bmod bs' I'
  | d :: bs', [] => 0%nat :: bmod bs' []
  | [], _ => []
  end.
Definition drepeat (A : BT) (rep : shape) : BT :=
  mkBT (brep (bsh A) rep) (nr A) (nc A) (fun I i j => ent A (bmod (bsh A) I) i j).

(* torch.cat along rows / columns / a batch dimension *)
Fixpoint cat_rows_ent (l : list BT) (I : bidx) (i j : nat) : Z :=
  match l with
  | [] => 0
  | A :: r => if (i <? nr A)%nat then bget A I i j else cat_rows_ent r I (i - nr A) j
  end.
Fixpoint cat_cols_ent (l : list BT) (I : bidx) (i j : nat) : Z :=
  match l with
  | [] => 0
  | A :: r => if (j <? nc A)%nat then bget A I i j else cat_cols_ent r I i (j - nc A)
  end.
(* replace component p of I *)
Fixpoint bset (I : bidx) (p v : nat) : bidx :=
  match I, p with
  | [], _ => []
  | _ :: I', O => v :: I'
  | i :: I', S p' => i :: bset I' p' v
  end.
Fixpoint cat_batch_ent (l : list BT) (p : nat) (I : bidx) (i j : nat) : Z :=
  match l with
  | [] => 0
  | A :: r => let d := nth p (bsh A) 0%nat in
              if (nth p I 0 <? d)%nat then ent A I i j else cat_batch_ent r p (bset I p (nth p I 0 - d)%nat) i j
  end.
Definition sumn (l : list nat) : nat := fold_right Nat.add 0%nat l.
Definition dcat (l : list BT) (d : catdim) : BT :=
  match l with
  | [] => dzero [] 0 0
  | A :: _ =>
      match d with
      | CatRows => mkBT (bsh A) (sumn (map nr l)) (nc A) (cat_rows_ent l)
      | CatCols => mkBT (bsh A) (nr A) (sumn (map nc l)) (cat_cols_ent l)
      | CatBatch p => mkBT (bset (bsh A) p (sumn (map (fun B => nth p (bsh B) 0%nat) l))) (nr A) (nc A) (cat_batch_ent l p)
      end
  end.

(* interpolation matrix W (batch x n x ncols) from indices / values (batch x n x k):
   W[i, c] = sum of val[i,a] over the a with idx[i,a] = c   (duplicates add) *)
Definition dinterp (idx val : BT) (ncols : nat) : BT :=
  mkBT (bsh idx) (nr idx) ncols
       (fun I i c => zsum (nc idx) (fun a => if Nat.eqb (Z.to_nat (ent idx I i a)) c then ent val I i a else 0)).

(* boolean masks: positions of the true entries *)
Fixpoint mask_sel (m : list bool) (k : nat) : nat :=     (* index of the k-th true entry *)
  match m with
  | [] => 0%nat
  | true :: r => match k with O => 0%nat | S k' => S (mask_sel r k') end
  | false :: r => S (mask_sel r k)
  end.
Definition mask_count (m : list bool) : nat := length (filter (fun b => b) m).
Definition dmask (A : BT) (rm cm : list bool) : BT :=
  mkBT (bsh A) (mask_count rm) (mask_count cm) (fun I i j => ent A I (mask_sel rm i) (mask_sel cm j)).

Definition dperm (p : BT) : BT :=
  mkBT (bsh p) (nr p) (nr p) (fun I i j => zdelta (Z.to_nat (ent p I i 0%nat)) j).
Definition dtransperm (m : nat) : BT :=
  mkBT [] (m * m) (m * m) (fun _ r c => zdelta ((r mod m) * m + r / m) c).

Definition dtoeplitz (col : BT) : BT :=
  mkBT (bsh col) (nr col) (nr col) (fun I i j => ent col I (absdiff i j) 0%nat).
Definition dconstdiag (c : BT) (n : nat) : BT :=
  mkBT (bsh c) n n (fun I i j => if Nat.eqb i j then ent c I 0%nat 0%nat else 0).
Definition dkernel (x1 x2 : BT) (sq : bool) : BT :=
  let k := dmm x1 (dtr x2) in if sq then dhad k k else k.

(* ---- the documented meaning ------------------------------------------------------------------ *)

Fixpoint denote (e : OpExpr) : BT :=
  match e with
  | Dense t => t
  | Diag d => ddiag d
  | ConstantDiag c n => dconstdiag c n
  | Identity n b => deye b n
  | Zero b m n => dzero b m n
  | Toeplitz col => dtoeplitz col
  | Triangular t _ => t
  | Chol t upper => if upper then dmm (dtr t) t else dmm t (dtr t)
  | Root r | LowRankRoot r => let R := denote r in dmm R (dtr R)
  | Kron ops | KronTriangular ops _ | KronDiag ops =>
      fold_right (fun x acc => dkron (denote x) acc) (deye [] 1) ops
  | KronAddedDiag a b | SumKron a b | AddedDiag a b | LowRankRootAddedDiag a b => dadd (denote a) (denote b)
  | Sum ops | PsdSum ops => dsuml (map denote ops)
  | Matmul l r => dmm (denote l) (denote r)
  | Mul l r => dhad (denote l) (denote r)
  | ConstantMul b c => dscale (denote b) c
  | BlockDiag b => dblockdiag (denote b)
  | BlockInterleaved b => dblockinter (denote b)
  | SumBatch b => dsumbatch (denote b)
  | BatchRepeat b rep => drepeat (denote b) rep
  | Cat ops d => dcat (map denote ops) d
  | Interpolated b li lv ri rv =>
      let K := denote b in
      let Wl := dinterp li lv (nr K) in
      let Wr := dinterp ri rv (nc K) in
      dmm Wl (dmm K (dtr Wr))
  | Masked b rm cm => dmask (denote b) rm cm
  | Permutation p => dperm p
  | TransposePermutation m => dtransperm m
  | Kernel x1 x2 sq => dkernel x1 x2 sq
  | UserMinimal t => t
  end.

Definition shape_of (e : OpExpr) : shape * nat * nat := let D := denote e in (bsh D, nr D, nc D).

(* ---- what the constructors accept -------------------------------------------------------------- *)

Definition shape_eqb (a b : shape) : bool := if list_eq_dec Nat.eq_dec a b then true else false.
Lemma shape_eqb_eq a b : shape_eqb a b = true <-> a = b.
Proof. unfold shape_eqb. destruct (list_eq_dec Nat.eq_dec a b); split; congruence. Qed.

Definition is_diag_cls (e : OpExpr) : bool :=
  match e with Diag _ | ConstantDiag _ _ | Identity _ _ | KronDiag _ => true | _ => false end.
Definition is_triangular_cls (e : OpExpr) : bool := match e with Triangular _ _ => true | _ => false end.
Definition is_plain_diag_cls (e : OpExpr) : bool := match e with Diag _ => true | _ => false end.
Definition is_root_cls (e : OpExpr) : bool := match e with Root _ | LowRankRoot _ | Chol _ _ => true | _ => false end.
Definition is_lowrank_cls (e : OpExpr) : bool := match e with LowRankRoot _ => true | _ => false end.
Definition is_kron_cls (e : OpExpr) : bool := match e with Kron _ | KronTriangular _ _ | KronDiag _ => true | _ => false end.

(* entries of an index tensor are valid positions < bound *)
Definition idx_okb (idx : BT) (bound : nat) : bool :=
  forallb (fun I => forallb (fun i => forallb (fun a => (0 <=? ent idx I i a) && (Z.to_nat (ent idx I i a) <? bound)%nat)
                                               (seq 0 (nc idx))) (seq 0 (nr idx))) (all_bidx (bsh idx)).

(* perm is a permutation of 0..n-1 in every batch member *)
Definition perm_okb (p : BT) : bool :=
  forallb (fun I => forallb (fun i => (0 <=? ent p I i 0%nat) && (Z.to_nat (ent p I i 0%nat) <? nr p)%nat &&
                                      forallb (fun j => Nat.eqb i j || negb (Z.eqb (ent p I i 0%nat) (ent p I j 0%nat))) (seq 0 (nr p)))
                            (seq 0 (nr p))) (all_bidx (bsh p)).

Definition pos (n : nat) : bool := (0 <? n)%nat.

Fixpoint wfb (e : OpExpr) : bool :=
  match e with
  | Dense t | UserMinimal t => true
  | Diag d => Nat.eqb (nc d) 1
  | ConstantDiag c n => Nat.eqb (nr c) 1 && Nat.eqb (nc c) 1
  | Identity n b => true
  | Zero b m n => true
  | Toeplitz col => Nat.eqb (nc col) 1
  | Triangular t _ | Chol t _ => Nat.eqb (nr t) (nc t)
  | Root r | LowRankRoot r => wfb r
  | Kron ops =>
      forallb wfb ops &&
      forallb (fun x => pos (nr (denote x)) && pos (nc (denote x))) ops &&
      (fix pw (l : list OpExpr) : bool :=
         match l with [] => true | x :: r => forallb (fun y => bcompat (bsh (denote x)) (bsh (denote y))) r && pw r end) ops
  | KronTriangular ops _ =>
      forallb wfb ops && forallb is_triangular_cls ops &&
      forallb (fun x => pos (nr (denote x)) && pos (nc (denote x))) ops &&
      (fix pw (l : list OpExpr) : bool :=
         match l with [] => true | x :: r => forallb (fun y => bcompat (bsh (denote x)) (bsh (denote y))) r && pw r end) ops
  | KronDiag ops =>
      forallb wfb ops && forallb is_plain_diag_cls ops &&
      forallb (fun x => pos (nr (denote x)) && pos (nc (denote x))) ops &&
      (fix pw (l : list OpExpr) : bool :=
         match l with [] => true | x :: r => forallb (fun y => bcompat (bsh (denote x)) (bsh (denote y))) r && pw r end) ops
  | KronAddedDiag a b =>
      wfb a && wfb b && is_kron_cls a && is_diag_cls b &&
      Nat.eqb (nr (denote a)) (nr (denote b)) && Nat.eqb (nc (denote a)) (nc (denote b)) &&
      bcompat (bsh (denote a)) (bsh (denote b))
  | SumKron a b =>
      wfb a && wfb b && is_kron_cls a && is_kron_cls b &&
      Nat.eqb (nr (denote a)) (nr (denote b)) && Nat.eqb (nc (denote a)) (nc (denote b)) &&
      bcompat (bsh (denote a)) (bsh (denote b))
  | AddedDiag a b =>
      wfb a && wfb b && negb (is_diag_cls a) && is_diag_cls b &&
      Nat.eqb (nr (denote a)) (nr (denote b)) && Nat.eqb (nc (denote a)) (nc (denote b)) &&
      bcompat (bsh (denote a)) (bsh (denote b))
  | LowRankRootAddedDiag a b =>
      wfb a && wfb b && is_lowrank_cls a && is_diag_cls b &&
      Nat.eqb (nr (denote a)) (nr (denote b)) && Nat.eqb (nc (denote a)) (nc (denote b)) &&
      bcompat (bsh (denote a)) (bsh (denote b))
  | Sum ops | PsdSum ops =>
      forallb wfb ops &&
      match ops with
      | [] => false
      | x :: r => forallb (fun y => Nat.eqb (nr (denote y)) (nr (denote x)) && Nat.eqb (nc (denote y)) (nc (denote x))) r
      end &&
      (fix pw (l : list OpExpr) : bool :=
         match l with [] => true | x :: r => forallb (fun y => bcompat (bsh (denote x)) (bsh (denote y))) r && pw r end) ops
  | Matmul l r =>
      wfb l && wfb r && Nat.eqb (nc (denote l)) (nr (denote r)) && bcompat (bsh (denote l)) (bsh (denote r))
  | Mul l r =>
      wfb l && wfb r && is_root_cls l && is_root_cls r &&
      shape_eqb (bsh (denote l)) (bsh (denote r)) &&
      Nat.eqb (nr (denote l)) (nr (denote r)) && Nat.eqb (nc (denote l)) (nc (denote r))
  | ConstantMul b c => wfb b && Nat.eqb (nr c) 1 && Nat.eqb (nc c) 1 && bsub (bsh c) (bsh (denote b))
  | BlockDiag b =>      (* a DiagLinearOperator base is accepted: the metaclass then returns a DiagLinearOperator *)
      wfb b && Nat.eqb (nr (denote b)) (nc (denote b)) && pos (nr (denote b)) &&
      match bsh (denote b) with k :: _ => pos k | [] => false end
  | BlockInterleaved b | SumBatch b =>
      wfb b && match bsh (denote b) with k :: _ => pos k | [] => false end
  | BatchRepeat b rep => wfb b && (length (bsh (denote b)) <=? length rep)%nat && forallb pos (bsh (denote b))
  | Cat ops d =>
      forallb wfb ops &&
      match ops with
      | [] | [_] => false
      | x :: r =>
          let X := denote x in
          match d with
          | CatRows => forallb (fun y => shape_eqb (bsh (denote y)) (bsh X) && Nat.eqb (nc (denote y)) (nc X)) r
          | CatCols => forallb (fun y => shape_eqb (bsh (denote y)) (bsh X) && Nat.eqb (nr (denote y)) (nr X)) r
          | CatBatch p =>
              (p <? length (bsh X))%nat &&
              forallb (fun y => shape_eqb (bset (bsh (denote y)) p 0%nat) (bset (bsh X) p 0%nat) &&
                                Nat.eqb (length (bsh (denote y))) (length (bsh X)) &&
                                Nat.eqb (nr (denote y)) (nr X) && Nat.eqb (nc (denote y)) (nc X)) r
          end
      end
  | Interpolated b li lv ri rv =>
      wfb b &&
      shape_eqb (bsh lv) (bsh li) && shape_eqb (bsh ri) (bsh li) && shape_eqb (bsh rv) (bsh li) &&
      Nat.eqb (nr lv) (nr li) && Nat.eqb (nc lv) (nc li) && Nat.eqb (nr rv) (nr ri) && Nat.eqb (nc rv) (nc ri) &&
      bsub (bsh (denote b)) (bsh li) && idx_okb li (nr (denote b)) && idx_okb ri (nc (denote b))
  | Masked b rm cm =>
      wfb b && Nat.eqb (length rm) (nr (denote b)) && Nat.eqb (length cm) (nc (denote b))
  | Permutation p => Nat.eqb (nc p) 1 && perm_okb p
  | TransposePermutation m => pos m
  | Kernel x1 x2 _ => Nat.eqb (nc x1) (nc x2) && bcompat (bsh x1) (bsh x2)
  end.

Definition wf (e : OpExpr) : Prop := wfb e = true.
