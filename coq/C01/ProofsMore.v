(* C01.ProofsMore — further classes: TransposePermutation, Masked, Kronecker products of diagonals,
   block-diagonal of a diagonal operator (metaclass dispatch). *)
From Coq Require Import List ZArith Lia Bool Arith.
Import ListNotations.
Require Import C01.Sums C01.Batch C01.Tensor C01.OpExpr C01.Model.
Require Import C01.ProofsBase C01.ProofsAlg C01.ProofsKron C01.ProofsStruct.
Open Scope Z_scope.

(* ---- TransposePermutation ----------------------------------------------------------------------- *)

Definition tperm (m r : nat) : nat := ((r mod m) * m + r / m)%nat.

Lemma tperm_lt m r : (r < m * m)%nat -> (tperm m r < m * m)%nat.
Proof.
  intros H. assert (m0 : (0 < m)%nat) by nia. unfold tperm.
  assert (r mod m < m)%nat by (apply Nat.mod_upper_bound; lia).
  assert (r / m < m)%nat by (apply div_lt_mul; exact H). nia.
Qed.

Lemma tperm_invol m r : (r < m * m)%nat -> tperm m (tperm m r) = r.
Proof.
  intros H. assert (m0 : (0 < m)%nat) by nia. unfold tperm.
  assert (H1 : (r / m < m)%nat) by (apply div_lt_mul; exact H).
  destruct (divmod_mul_add (r mod m) m (r / m) H1) as [D1 D2]. rewrite D1, D2.
  rewrite (Nat.div_mod r m) at 3 by lia. lia.
Qed.

Lemma acts_transperm m : acts (transperm_mm m) (dtransperm m).
Proof.
  intros X [H1 H2]. simpl in H1. unfold transperm_mm, dmm, dtransperm. repeat split; simpl.
  intros I i j HI Hi Hj. fold (tperm m i).
  transitivity (zsum (m * m) (fun l => zdelta (tperm m i) l * bget X I l j)); [|apply zsum_ext; intros l Hl; reflexivity].
  rewrite zsum_delta_l by (apply tperm_lt; exact Hi). rewrite bget_in by exact HI. reflexivity.
Qed.

Lemma dtr_dtransperm m : dtr (dtransperm m) == dtransperm m.
Proof.
  unfold dtr, dtransperm. repeat split; simpl. intros I i j _ Hi Hj. fold (tperm m j) (tperm m i). unfold zdelta.
  destruct (Nat.eqb_spec (tperm m j) i) as [E|E], (Nat.eqb_spec (tperm m i) j) as [E'|E']; try reflexivity; exfalso.
  - apply E'. rewrite <- E. apply tperm_invol. exact Hj.
  - apply E. rewrite <- E'. apply tperm_invol. exact Hi.
Qed.

(* ---- Masked ---------------------------------------------------------------------------------------- *)

Lemma zsum_shift n f : zsum (S n) f = f 0%nat + zsum n (fun i => f (S i)).
Proof.
  induction n as [|n IH]; [simpl; ring|]. change (zsum (S (S n)) f) with (zsum (S n) f + f (S n)). rewrite IH. simpl. ring.
Qed.

Lemma mask_sum cm : forall (f : nat -> Z) (g : nat -> Z),
  zsum (length cm) (fun l => f l * (if nth l cm false then g (mask_rank cm l) else 0))
  = zsum (mask_count cm) (fun k => f (mask_sel cm k) * g k).
Proof.
  induction cm as [|b cm IH]; intros f g; [reflexivity|].
  change (length (b :: cm)) with (S (length cm)). rewrite zsum_shift.
  destruct b.
  - change (mask_count (true :: cm)) with (S (mask_count cm)). rewrite zsum_shift. simpl. f_equal.
    rewrite <- (IH (fun l => f (S l)) (fun k => g (S k))). apply zsum_ext. intros l Hl. reflexivity.
  - change (mask_count (false :: cm)) with (mask_count cm). simpl. 
    rewrite <- (IH (fun l => f (S l)) g). ring_simplify. apply zsum_ext. intros l Hl. reflexivity.
Qed.

Lemma mask_sel_lt m k : (k < mask_count m)%nat -> (mask_sel m k < length m)%nat.
Proof.
  unfold mask_count. revert k; induction m as [|b m IH]; intros k Hk; [simpl in Hk; lia|].
  destruct b; simpl in *.
  - destruct k; [lia|]. apply Nat.succ_lt_mono in Hk. specialize (IH k Hk). lia.
  - specialize (IH k Hk). lia.
Qed.

Lemma acts_masked g B rm cm :
  length rm = nr B -> length cm = nc B -> acts g B ->
  acts (fun X => mask_rows rm (fr (g (mask_expand cm X)))) (dmask B rm cm).
Proof.
  intros HR HN HG X [H1 H2]. simpl in H1, H2.
  set (R := fr (g (mask_expand cm X))).
  assert (HRe : R == dmm B (mask_expand cm X)).
  { apply fr_eq'. apply HG. split; [simpl; exact HN|simpl; exact H2]. }
  destruct HRe as (r1 & r2 & r3 & r4). clearbody R. simpl in r1, r2, r3.
  unfold mask_rows, dmm, dmask. split; [exact r1|]. split; [reflexivity|]. split; [exact r3|].
  simpl. intros I i j HI Hi Hj. rewrite r1 in HI. rewrite r3 in Hj.
  assert (Hs : (mask_sel rm i < nr B)%nat) by (rewrite <- HR; apply mask_sel_lt; exact Hi).
  rewrite r4; [|rewrite r1; exact HI|rewrite r2; exact Hs|rewrite r3; exact Hj].
  simpl. rewrite <- HN.
  exact (mask_sum cm (fun l => bget B I (mask_sel rm i) l) (fun k => bget X I k j)).
Qed.

Lemma dtr_dmask B rm cm : dtr (dmask B rm cm) == dmask (dtr B) cm rm.
Proof. repeat split. Qed.

Lemma dmask_eq B B' rm cm : length rm = nr B -> length cm = nc B -> B == B' -> dmask B rm cm == dmask B' rm cm.
Proof.
  intros HR HN (e1 & e2 & e3 & e4). unfold dmask. repeat split; simpl; try assumption.
  intros I i j HI Hi Hj. apply e4; [exact HI|rewrite <- HR; apply mask_sel_lt; exact Hi|rewrite <- HN; apply mask_sel_lt; exact Hj].
Qed.

(* ---- Kronecker products of diagonal matrices / block diagonal of a diagonal ------------------------- *)

Lemma divmod_inj i j n : (0 < n)%nat -> (i / n = j / n)%nat -> (i mod n = j mod n)%nat -> i = j.
Proof. intros Hn H1 H2. rewrite (Nat.div_mod i n), (Nat.div_mod j n) by lia. rewrite H1, H2. reflexivity. Qed.

Lemma dkron_ddiag d T : (0 < nr T)%nat ->
  dkron (ddiag d) (ddiag T)
  == ddiag (mkBT (bcast (bsh d) (bsh T)) (nr d * nr T) 1
                 (fun I i _ => bget d I (i / nr T)%nat 0%nat * bget T I (i mod nr T)%nat 0%nat)).
Proof.
  intros HT. unfold dkron, ddiag. repeat split; simpl.
  intros I i j HI Hi Hj. unfold bget. simpl.
  destruct (Nat.eqb_spec i j) as [->|Hne].
  - rewrite !Nat.eqb_refl. reflexivity.
  - destruct (Nat.eqb_spec (i / nr T) (j / nr T)) as [E1|E1]; [|ring].
    destruct (Nat.eqb_spec (i mod nr T) (j mod nr T)) as [E2|E2]; [|ring].
    exfalso. apply Hne. eapply divmod_inj; eauto.
Qed.

Lemma kron_diag_vec_shape ds : nc (kron_diag_vec ds) = 1%nat /\ nr (kron_diag_vec ds) = prodn (map nr ds) /\
  bsh (kron_diag_vec ds) = bcast_all (map bsh ds).
Proof. induction ds as [|d ds (I1 & I2 & I3)]; simpl; [auto|]. rewrite I2, I3. auto. Qed.

Lemma kronl_ddiag ds : forallb (fun d => pos (nr d)) ds = true -> pwc (map bsh ds) = true ->
  kronl (map ddiag ds) == ddiag (kron_diag_vec ds).
Proof.
  induction ds as [|d ds IH]; intros HPos HP.
  - simpl. unfold deye, ddiag, dones. repeat split.
  - simpl in HPos. apply andb_true_iff in HPos. destruct HPos as [HP0 HPos].
    change (pwc (map bsh (d :: ds))) with (forallb (fun y => bcompat (bsh d) y) (map bsh ds) && pwc (map bsh ds)) in HP.
    apply andb_true_iff in HP. destruct HP as [HP1 HP2].
    destruct (kron_diag_vec_shape ds) as (S1 & S2 & S3).
    simpl map. simpl kronl. eapply BTeq_trans; [apply dkron_eq; [|apply BTeq_refl|apply IH; assumption]|].
    + simpl. destruct (kronl_shape (map ddiag ds)) as (K1 & _). rewrite K1. rewrite map_map. simpl.
      apply bcompat_bcast_all; [|rewrite forallb_map in *]; assumption.
    + simpl kron_diag_vec. apply dkron_ddiag. rewrite S2. apply prodn_pos. rewrite forallb_map. exact HPos.
Qed.

Lemma flatten_ddiag v k bs : bsh v = k :: bs -> (0 < nr v)%nat -> dblockdiag (ddiag v) == ddiag (flatten_diag v).
Proof.
  intros HS Hn. unfold dblockdiag, flatten_diag, ddiag, blocks_of, sz_b. simpl. rewrite HS. simpl.
  repeat split; simpl. intros I i j HI Hi Hj.
  destruct (Nat.eqb_spec i j) as [->|Hne].
  - rewrite !Nat.eqb_refl. reflexivity.
  - destruct (Nat.eqb_spec (i / nr v) (j / nr v)) as [E1|E1]; [|reflexivity].
    destruct (Nat.eqb_spec (i mod nr v) (j mod nr v)) as [E2|E2]; [|reflexivity].
    exfalso. apply Hne. eapply divmod_inj; eauto.
Qed.

(* ---- interpolation ---------------------------------------------------------------------------------- *)

(* all entries of an index tensor are valid positions < bound *)
Lemma idx_okb_spec idx bound I i a : idx_okb idx bound = true -> inb (bsh idx) I -> (i < nr idx)%nat -> (a < nc idx)%nat ->
  (Z.to_nat (ent idx I i a) < bound)%nat.
Proof.
  unfold idx_okb. rewrite forallb_forall. intros H HI Hi Ha.
  specialize (H I (proj2 (all_bidx_in _ _) HI)). rewrite forallb_forall in H.
  assert (Hin : In i (seq 0 (nr idx))) by (apply in_seq; lia).
  specialize (H i Hin). rewrite forallb_forall in H.
  assert (Hin2 : In a (seq 0 (nc idx))) by (apply in_seq; lia).
  specialize (H a Hin2). apply andb_true_iff in H. destruct H as [_ H].
  apply Nat.ltb_lt in H. exact H.
Qed.

(* left_interp (gather-sum) = W R *)
Lemma interp_gather_correct idx val n : bsh val = bsh idx -> idx_okb idx n = true ->
  acts (interp_gather idx val) (dinterp idx val n).
Proof.
  intros HV HOK R [H1 H2]. simpl in H1, H2. unfold interp_gather, dmm, dinterp. repeat split; simpl.
  intros I i col HI Hi Hc.
  assert (HIi : inb (bsh idx) (bproj (bsh idx) I)) by (eapply inb_bproj; [apply bsub_bcast_l; exact H2|exact HI]).
  transitivity (zsum n (fun c => zsum (nc idx) (fun a =>
      (if Nat.eqb (Z.to_nat (bget idx I i a)) c then bget val I i a else 0) * bget R I c col))).
  - rewrite zsum_swap. apply zsum_ext. intros a Ha.
    rewrite (zsum_single n (Z.to_nat (bget idx I i a))).
    + rewrite Nat.eqb_refl. reflexivity.
    + apply idx_okb_spec; assumption.
    + intros c _ Hne. destruct (Nat.eqb_spec (Z.to_nat (bget idx I i a)) c); [congruence|ring].
  - apply zsum_ext. intros c Hc'. unfold bget at 4. simpl. rewrite zsum_scale_r. f_equal. apply zsum_ext. intros a Ha.
    unfold bget. rewrite HV. reflexivity.
Qed.

(* left_t_interp (scatter-sum, duplicates add) = W^T X *)
Lemma interp_scatter_correct idx val n : bsh val = bsh idx ->
  acts (fun X => interp_scatter idx val X n) (dtr (dinterp idx val n)).
Proof.
  intros HV X [H1 H2]. simpl in H1, H2. unfold interp_scatter, dmm, dtr, dinterp. repeat split; simpl.
  intros I c col HI Hc Hcol. apply zsum_ext. intros i Hi. rewrite <- zsum_scale_r.
  apply zsum_ext. intros a Ha. unfold bget. rewrite HV.
  destruct (Nat.eqb_spec (Z.to_nat (ent idx (bproj (bsh idx) I) i a)) c); ring.
Qed.

(* W_l K W_r^T applied right to left *)
Lemma acts_interp f K Wl Wr :
  acts f K -> nc Wl = nr K -> nc Wr = nc K -> bsh Wr = bsh Wl -> bsub (bsh K) (bsh Wl) = true ->
  acts (fun X => dmm Wl (fr (f (fr (dmm (dtr Wr) X))))) (dmm Wl (dmm K (dtr Wr))).
Proof.
  intros HF H1 H2 H3 H4.
  assert (HC : bcompat (bsh K) (bsh Wl) = true) by (apply bsub_bcompat; exact H4).
  apply (acts_comp (dmm Wl) (fun X => f (fr (dmm (dtr Wr) X))) Wl (dmm K (dtr Wr))).
  - apply acts_dmm.
  - apply (acts_comp f (dmm (dtr Wr)) K (dtr Wr) HF); [apply acts_dmm|simpl; symmetry; exact H2|simpl; rewrite H3; exact HC].
  - simpl. exact H1.
  - simpl. rewrite H3, (bsub_bcast_eq _ _ H4). apply bcompat_refl.
Qed.

Lemma interp_meaning_eq Wl Wl' K Wr Wr' :
  Wl' == Wl -> Wr' == Wr -> nc Wl = nr K -> nc Wr = nc K -> bsh Wr = bsh Wl -> bsub (bsh K) (bsh Wl) = true ->
  dmm Wl' (dmm K (dtr Wr')) == dmm Wl (dmm K (dtr Wr)).
Proof.
  intros HL HR H1 H2 H3 H4. destruct (BTeq_shape _ _ HL) as (l1 & l2 & l3). destruct (BTeq_shape _ _ HR) as (r1 & r2 & r3).
  assert (HC : bcompat (bsh K) (bsh Wl) = true) by (apply bsub_bcompat; exact H4).
  eapply BTeq_trans; [apply dmm_eq_l; [|exact HL]|].
  - simpl. rewrite l1, r1, H3, (bsub_bcast_eq _ _ H4). apply bcompat_refl.
  - apply dmm_eq_r; [simpl; rewrite r1, H3, (bsub_bcast_eq _ _ H4); apply bcompat_refl|simpl; symmetry; exact H1|].
    apply dmm_eq_r; [simpl; rewrite r1, H3; exact HC|simpl; congruence|apply dtr_eq; exact HR].
Qed.

(* transpose of W_l K W_r^T *)
Lemma dtr_interp Wl K Wr : nc Wl = nr K -> nc Wr = nc K -> bsh Wr = bsh Wl -> bsub (bsh K) (bsh Wl) = true ->
  dtr (dmm Wl (dmm K (dtr Wr))) == dmm Wr (dmm (dtr K) (dtr Wl)).
Proof.
  intros H1 H2 H3 H4.
  assert (HC : bcompat (bsh K) (bsh Wl) = true) by (apply bsub_bcompat; exact H4).
  eapply BTeq_trans; [apply dmm_dtr; [simpl; rewrite H3, (bsub_bcast_eq _ _ H4); apply bcompat_refl|simpl; symmetry; exact H1]|].
  eapply BTeq_trans; [apply dmm_eq_l; [simpl; rewrite H3, (bsub_bcast_eq _ _ H4); apply bcompat_refl|apply dmm_dtr; [simpl; rewrite H3; exact HC|simpl; exact H2]]|].
  eapply BTeq_trans; [apply dmm_assoc; [simpl; rewrite H3; rewrite bcompat_sym; exact HC|simpl|simpl; symmetry; exact H2]|].
  - rewrite H3. rewrite (bcast_sub_r _ _ H4). apply bcompat_refl.
  - apply dmm_eq_l; [simpl; rewrite H3, (bsub_bcast_eq _ _ H4); apply bcompat_refl|apply dtr_dtr].
Qed.

(* ---- concatenation along rows / columns ---------------------------------------------------------- *)

#[local] Opaque fr.

Section Cat.
Context {T : Type}.
Variable f : T -> BT -> BT.
Variable D : T -> BT.

Lemma bget_same_batch A B I i j : bsh A = B -> bget A (bproj B I) i j = bget A I i j.
Proof. intros <-. unfold bget. rewrite bproj_bproj by apply bsub_refl. reflexivity. Qed.

(* cat_dim = -2: the results are stacked *)
Lemma cat_rows_results (B : shape) X : bcompat B (bsh X) = true -> forall ops,
  (forall x, In x ops -> acts (f x) (D x) /\ bsh (D x) = B /\ nc (D x) = nr X) ->
  forall I i j, inb (bcast B (bsh X)) I -> (i < sumn (map (fun x => nr (D x)) ops))%nat -> (j < nc X)%nat ->
    cat_rows_ent (map (fun x => fr (f x X)) ops) I i j
    = zsum (nr X) (fun l => cat_rows_ent (map D ops) (bproj B I) i l * bget X I l j).
Proof.
  intros HC. induction ops as [|x ops IH]; intros HA I i j HI Hi Hj; [simpl in Hi; lia|].
  destruct (HA x (or_introl eq_refl)) as (Hx & HB & HN).
  simpl map. set (R := fr (f x X)).
  assert (HR : R == dmm (D x) X) by (apply fr_eq'; apply Hx; split; [symmetry; exact HN|rewrite HB; exact HC]).
  clearbody R.
  destruct HR as (r1 & r2 & r3 & r4). simpl in r1, r2, r3. rewrite HB in r1.
  cbn [cat_rows_ent]. rewrite r2.
  destruct (Nat.ltb_spec i (nr (D x))) as [Hlt|Hge].
  - unfold bget at 1. rewrite r1, (bproj_id _ I HI).
    rewrite r4; [|rewrite r1; exact HI|rewrite r2; exact Hlt|rewrite r3; exact Hj].
    simpl. rewrite HN. apply zsum_ext. intros l Hl. rewrite (bget_same_batch (D x) B I i l HB). reflexivity.
  - simpl in Hi. apply IH; [intros y Hy; apply HA; right; exact Hy|exact HI|lia|exact Hj].
Qed.

Lemma acts_cat_rows x ops :
  (forall y, In y (x :: ops) -> acts (f y) (D y) /\ bsh (D y) = bsh (D x) /\ nc (D y) = nc (D x)) ->
  acts (fun X => dcat_rows (map (fun y => fr (f y X)) (x :: ops))) (dcat (map D (x :: ops)) CatRows).
Proof.
  intros HA X [H1 H2]. simpl in H1, H2.
  assert (HA' : forall y, In y (x :: ops) -> acts (f y) (D y) /\ bsh (D y) = bsh (D x) /\ nc (D y) = nr X).
  { intros y Hy. destruct (HA y Hy) as (a & b & c). split; [exact a|split; [exact b|congruence]]. }
  destruct (HA' x (or_introl eq_refl)) as (Hx & _ & HN).
  assert (HR : fr (f x X) == dmm (D x) X) by (apply fr_eq'; apply Hx; split; [symmetry; exact HN|exact H2]).
  destruct (BTeq_shape _ _ HR) as (r1 & r2 & r3). simpl in r1, r2, r3.
  assert (ES : sumn (map nr (map (fun y => fr (f y X)) (x :: ops))) = sumn (map nr (map D (x :: ops)))).
  { rewrite !map_map. f_equal. apply map_ext_in. intros y Hy. destruct (HA' y Hy) as (Hy1 & Hy2 & Hy3).
    assert (HRy : fr (f y X) == dmm (D y) X) by (apply fr_eq'; apply Hy1; split; [symmetry; exact Hy3|rewrite Hy2; exact H2]).
    destruct (BTeq_shape _ _ HRy) as (_ & s2 & _). exact s2. }
  unfold dcat_rows, dcat, dmm. cbn [map].
  split; [exact r1|]. split; [exact ES|]. split; [exact r3|].
  intros I i j HI Hi Hj. cbn [bsh nr nc] in HI, Hi, Hj. rewrite r1 in HI. rewrite r3 in Hj. cbv beta iota delta [ent bget]. fold bget.
  change (fr (f x X) :: map (fun y => fr (f y X)) ops) with (map (fun y => fr (f y X)) (x :: ops)).
  change (D x :: map D ops) with (map D (x :: ops)).
  rewrite (cat_rows_results (bsh (D x)) X H2 (x :: ops) HA' I i j HI); [|rewrite <- map_map with (g := nr); rewrite <- ES; exact Hi|exact Hj].
  rewrite HN. apply zsum_ext. intros l Hl. reflexivity.
Qed.

(* cat_dim = -1: the right-hand side is cut into row blocks, the partial products are added *)
Variable len : T -> nat.
Definition pieces (X : BT) : list T -> nat -> list BT :=
  fix go (l : list T) (off : nat) : list BT :=
    match l with
    | [] => []
    | x :: r => fr (f x (drows X off (len x))) :: go r (off + len x)%nat
    end.

Lemma cat_cols_pieces (B : shape) (m : nat) X : bcompat B (bsh X) = true -> forall x ops off,
  (forall y, In y (x :: ops) -> acts (f y) (D y) /\ bsh (D y) = B /\ nr (D y) = m /\ len y = nc (D y)) ->
  let S := dsum_pieces (pieces X (x :: ops) off) in
  bsh S = bcast B (bsh X) /\ nr S = m /\ nc S = nc X /\
  forall I i j, inb (bcast B (bsh X)) I -> (i < m)%nat -> (j < nc X)%nat ->
    ent S I i j = zsum (sumn (map (fun y => nc (D y)) (x :: ops)))
                       (fun c => cat_cols_ent (map D (x :: ops)) (bproj B I) i c * bget X I (off + c)%nat j).
Proof.
  intros HC x ops. revert x. induction ops as [|y ops IH]; intros x off HA.
  - destruct (HA x (or_introl eq_refl)) as (Hx & HB & HM & HL).
    assert (HR : fr (f x (drows X off (len x))) == dmm (D x) (drows X off (len x))).
    { apply fr_eq'. apply Hx. split; [simpl; exact HL|simpl; rewrite HB; exact HC]. }
    destruct HR as (r1 & r2 & r3 & r4). simpl in r1, r2, r3. rewrite HB in r1.
    simpl. split; [exact r1|]. split; [congruence|]. split; [exact r3|].
    intros I i j HI Hi Hj. rewrite r4; [|rewrite r1; exact HI|rewrite r2, HM; exact Hi|rewrite r3; exact Hj].
    simpl. rewrite Nat.add_0_r. apply zsum_ext. intros l Hl.
    destruct (Nat.ltb_spec l (nc (D x))); [|lia]. rewrite (bget_same_batch (D x) B I i l HB). reflexivity.
  - destruct (HA x (or_introl eq_refl)) as (Hx & HB & HM & HL).
    assert (HR : fr (f x (drows X off (len x))) == dmm (D x) (drows X off (len x))).
    { apply fr_eq'. apply Hx. split; [simpl; exact HL|simpl; rewrite HB; exact HC]. }
    destruct HR as (r1 & r2 & r3 & r4). simpl in r1, r2, r3. rewrite HB in r1.
    destruct (IH y (off + len x)%nat (fun z Hz => HA z (or_intror Hz))) as (s1 & s2 & s3 & s4).
    set (P1 := fr (f x (drows X off (len x)))) in *.
    change (dsum_pieces (pieces X (x :: y :: ops) off)) with (dadd P1 (dsum_pieces (pieces X (y :: ops) (off + len x)))).
    set (S' := dsum_pieces (pieces X (y :: ops) (off + len x))) in *.
    cbn [dadd bsh nr nc ent]. rewrite r1, s1, bcast_refl.
    split; [reflexivity|]. split; [congruence|]. split; [exact r3|].
    intros I i j HI Hi Hj. unfold bget. rewrite r1, s1, (bproj_id _ I HI).
    rewrite r4; [|rewrite r1; exact HI|rewrite r2, HM; exact Hi|rewrite r3; exact Hj].
    rewrite (s4 I i j HI Hi Hj).
    change (sumn (map (fun z => nc (D z)) (x :: y :: ops))) with (nc (D x) + sumn (map (fun z => nc (D z)) (y :: ops)))%nat.
    rewrite zsum_app. f_equal.
    + simpl. apply zsum_ext. intros l Hl. destruct (Nat.ltb_spec l (nc (D x))); [|lia].
      rewrite (bget_same_batch (D x) B I i l HB). unfold bget. reflexivity.
    + apply zsum_ext. intros c Hc. change (map D (x :: y :: ops)) with (D x :: map D (y :: ops)).
      cbn [cat_cols_ent]. destruct (Nat.ltb_spec (nc (D x) + c) (nc (D x))); [lia|].
      replace (nc (D x) + c - nc (D x))%nat with c by lia. rewrite HL.
      replace (off + (nc (D x) + c))%nat with (off + nc (D x) + c)%nat by lia. reflexivity.
Qed.

Lemma acts_cat_cols x ops :
  (forall y, In y (x :: ops) -> acts (f y) (D y) /\ bsh (D y) = bsh (D x) /\ nr (D y) = nr (D x) /\ len y = nc (D y)) ->
  acts (fun X => dsum_pieces (pieces X (x :: ops) 0)) (dcat (map D (x :: ops)) CatCols).
Proof.
  intros HA X [H1 H2]. simpl in H1, H2.
  destruct (cat_cols_pieces (bsh (D x)) (nr (D x)) X H2 x ops 0%nat HA) as (s1 & s2 & s3 & s4).
  unfold dmm, dcat. cbn [map]. cbn [bsh nr nc ent].
  split; [exact s1|]. split; [exact s2|]. split; [exact s3|].
  intros I i j HI Hi Hj. rewrite s1 in HI. rewrite s2 in Hi. rewrite s3 in Hj.
  rewrite (s4 I i j HI Hi Hj). rewrite map_map. apply zsum_ext. intros c Hc. reflexivity.
Qed.

End Cat.

(* ---- transposition / congruence of concatenations ------------------------------------------------- *)

Lemma cat_rows_cols_tr l I i j : cat_rows_ent l I j i = cat_cols_ent (map dtr l) I i j.
Proof.
  revert j; induction l as [|A l IH]; intros j; [reflexivity|]. simpl. destruct (Nat.ltb_spec j (nr A)); [reflexivity|apply IH].
Qed.
Lemma cat_cols_rows_tr l I i j : cat_cols_ent l I j i = cat_rows_ent (map dtr l) I i j.
Proof.
  revert i; induction l as [|A l IH]; intros i; [reflexivity|]. simpl. destruct (Nat.ltb_spec i (nc A)); [reflexivity|apply IH].
Qed.

Lemma dtr_dcat_rows A l : dtr (dcat (A :: l) CatRows) == dcat (map dtr (A :: l)) CatCols.
Proof.
  unfold dtr, dcat. cbn [map]. split; [reflexivity|]. split; [reflexivity|]. split; [simpl; rewrite map_map; reflexivity|].
  intros I i j _ _ _. cbn [ent]. apply (cat_rows_cols_tr (A :: l)).
Qed.
Lemma dtr_dcat_cols A l : dtr (dcat (A :: l) CatCols) == dcat (map dtr (A :: l)) CatRows.
Proof.
  unfold dtr, dcat. cbn [map]. split; [reflexivity|]. split; [simpl; rewrite map_map; reflexivity|]. split; [reflexivity|].
  intros I i j _ _ _. cbn [ent]. apply (cat_cols_rows_tr (A :: l)).
Qed.

Lemma cat_rows_ent_eq B n l l' : Forall2 BTeq l l' -> (forall A, In A l -> bsh A = B /\ nc A = n) ->
  forall I i j, inb B I -> (i < sumn (map nr l))%nat -> (j < n)%nat -> cat_rows_ent l I i j = cat_rows_ent l' I i j.
Proof.
  induction 1 as [|A A' l l' HA HF IH]; intros HS I i j HI Hi Hj; [reflexivity|].
  destruct (HS A (or_introl eq_refl)) as [S1 S2]. destruct (BTeq_shape _ _ HA) as (a1 & a2 & a3).
  simpl. rewrite <- a2. destruct (Nat.ltb_spec i (nr A)).
  - eapply BTeq_bget; [exact HA|rewrite S1; apply bsub_refl|exact HI|assumption|lia].
  - simpl in Hi. apply IH; [intros C HC; apply HS; right; exact HC|exact HI|lia|exact Hj].
Qed.
Lemma cat_cols_ent_eq B m l l' : Forall2 BTeq l l' -> (forall A, In A l -> bsh A = B /\ nr A = m) ->
  forall I i j, inb B I -> (i < m)%nat -> (j < sumn (map nc l))%nat -> cat_cols_ent l I i j = cat_cols_ent l' I i j.
Proof.
  induction 1 as [|A A' l l' HA HF IH]; intros HS I i j HI Hi Hj; [reflexivity|].
  destruct (HS A (or_introl eq_refl)) as [S1 S2]. destruct (BTeq_shape _ _ HA) as (a1 & a2 & a3).
  simpl. rewrite <- a3. destruct (Nat.ltb_spec j (nc A)).
  - eapply BTeq_bget; [exact HA|rewrite S1; apply bsub_refl|exact HI|lia|assumption].
  - simpl in Hj. apply IH; [intros C HC; apply HS; right; exact HC|exact HI|exact Hi|lia].
Qed.

Lemma dcat_rows_eq A l A' l' : Forall2 BTeq (A :: l) (A' :: l') -> (forall C, In C (A :: l) -> bsh C = bsh A /\ nc C = nc A) ->
  dcat (A :: l) CatRows == dcat (A' :: l') CatRows.
Proof.
  intros HF HS. destruct (Forall2_shapes _ _ HF) as (E1 & E2 & E3). inversion HF; subst.
  destruct (BTeq_shape _ _ H2) as (a1 & a2 & a3).
  unfold dcat. split; [exact a1|]. split; [cbn [nr]; rewrite E2; reflexivity|]. split; [exact a3|].
  cbn [bsh nr nc ent]. intros I i j HI Hi Hj. apply (cat_rows_ent_eq (bsh A) (nc A)); assumption.
Qed.
Lemma dcat_cols_eq A l A' l' : Forall2 BTeq (A :: l) (A' :: l') -> (forall C, In C (A :: l) -> bsh C = bsh A /\ nr C = nr A) ->
  dcat (A :: l) CatCols == dcat (A' :: l') CatCols.
Proof.
  intros HF HS. destruct (Forall2_shapes _ _ HF) as (E1 & E2 & E3). inversion HF; subst.
  destruct (BTeq_shape _ _ H2) as (a1 & a2 & a3).
  unfold dcat. split; [exact a1|]. split; [exact a2|]. split; [cbn [nc]; rewrite E3; reflexivity|].
  cbn [bsh nr nc ent]. intros I i j HI Hi Hj. apply (cat_cols_ent_eq (bsh A) (nr A)); assumption.
Qed.

(* ---- the _diag vector of the diagonal classes -------------------------------------------------------- *)

Lemma drowscale_eq d d' X : d == d' -> nc d = 1%nat -> bcompat (bsh d) (bsh X) = true -> nr X = nr d -> drowscale d X == drowscale d' X.
Proof.
  intros HE H1 HC HN. destruct (BTeq_shape _ _ HE) as (e1 & e2 & e3). unfold drowscale. repeat split; simpl; try congruence.
  intros I i j HI Hi Hj. f_equal. destruct HE as (_ & _ & _ & e4). unfold bget. rewrite <- e1.
  apply e4; [eapply inb_bproj; [apply bsub_bcast_l; exact HC|exact HI]|lia|lia].
Qed.

Lemma acts_diag_fr v : nc v = 1%nat -> acts (drowscale (fr v)) (ddiag v).
Proof.
  intros H1 X [H2 H3]. simpl in H2, H3.
  destruct (BTeq_shape _ _ (fr_eq v)) as (e1 & e2 & e3).
  eapply BTeq_trans; [apply drowscale_eq; [apply fr_eq|congruence|rewrite e1; exact H3|congruence]|].
  apply BTeq_sym. apply dmm_ddiag; assumption.
Qed.
