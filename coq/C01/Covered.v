(* C01.Covered — the constructors (and flag values) the theorems of Property.v speak about.
   [coveredb e = true] iff every node of e is
     a class whose multiplication code is transcribed in Model.mm AND whose lemma is proved.  (Up to round 3 two cells of the
     originally pinned library were excluded and refuted - Chol _ true: _matmul computed R R^T; Zero with a batch shape: the
     batch shape was dropped.  Both are repaired in the tree under test (fix commits), Model.v follows the repaired code and
     both cells are covered now.)
   NOT covered (yet): Mul over operands whose root is itself a structured operator (the model then uses the root's dense
   meaning); BatchRepeat over a RECTANGULAR base that really tiles a batch dimension of size > 1 (the branch of _matmul
   that relies on broadcasting is wrong exactly there, finding C01-batchrepeat-rect-tiling; without such tiling it is covered); Cat along a batch dimension with an EMPTY
   piece (size 0 along the concatenated dimension). *)
From Coq Require Import List ZArith Bool Arith.
Import ListNotations.
Require Import C01.Sums C01.Batch C01.Tensor C01.OpExpr.

(* MulLinearOperator operands whose root is a plain tensor (what opbuild builds): RootLinearOperator / LowRankRoot over a dense
   root, or a lower Cholesky operator *)
Definition simple_root (e : OpExpr) : bool :=
  match e with
  | Root (Dense _) | LowRankRoot (Dense _) => true
  | Chol _ u => negb u
  | _ => false
  end.

(* BatchRepeat: no batch dimension of size > 1 is really repeated (only size-1 / new leading dimensions are): the case in which
   the broadcasting branch of BatchRepeatLinearOperator._matmul (rectangular base) is right *)
Fixpoint notile (bs rep : shape) : bool :=
  match bs, rep with
  | d :: bs', r :: rep' => (Nat.eqb d 1 || Nat.eqb r 1) && notile bs' rep'
  | _, _ => true
  end.

Fixpoint coveredb (e : OpExpr) : bool :=
  match e with
  | Dense _ | UserMinimal _ | Diag _ | ConstantDiag _ _ | Identity _ _ | Toeplitz _ | Triangular _ _ => true
  | Kernel _ _ _ | TransposePermutation _ | Permutation _ => true
  | Zero _ _ _ | Chol _ _ => true
  | Root r | LowRankRoot r => coveredb r
  | Kron ops | KronTriangular ops _ | Sum ops | PsdSum ops | KronDiag ops => forallb coveredb ops
  | KronAddedDiag a b | SumKron a b | AddedDiag a b | LowRankRootAddedDiag a b | Matmul a b => coveredb a && coveredb b
  | ConstantMul b _ | BlockDiag b | BlockInterleaved b | SumBatch b | Masked b _ _ | Interpolated b _ _ _ _ => coveredb b
  | Cat ops d =>
      forallb coveredb ops &&
      match d with      (* along a batch dimension: no empty piece *)
      | CatBatch p => forallb (fun y => pos (nth p (bsh (denote y)) 0%nat)) ops
      | _ => true
      end
  | BatchRepeat b rep =>      (* the square branch of _matmul, or the broadcasting branch without genuine tiling *)
      coveredb b && (Nat.eqb (nr (denote b)) (nc (denote b)) || notile (bsh (denote b)) rep)
  | Mul l r => simple_root l && simple_root r
  end.

Definition covered (e : OpExpr) : Prop := coveredb e = true.
