(* C01.Covered — the constructors (and flag values) the theorems of Property.v speak about.
   [coveredb e = true] iff every node of e is
     - a class whose multiplication code is transcribed in Model.mm AND whose lemma is proved, and
     - not one of the two cells where the pinned library is known to be defective:
         Chol _ true      (CholLinearOperator(upper=True): _matmul computes R R^T, the meaning is R^T R)
         Zero (_ :: _)    (ZeroLinearOperator with a batch shape: _matmul drops the operator's batch shape)
       both refuted in Property.v (C01_chol_upper_refuted, C01_zero_batch_refuted).
   NOT covered (yet): Cat along a batch dimension (its [mm] is the specification, Model.spec_mm); Mul over operands whose root is
   itself a structured operator (the model then uses the root's dense meaning); BatchRepeat over a
   rectangular base (the branch of _matmul that relies on broadcasting: wrong whenever a batch dimension of size > 1 is
   really repeated, finding C01-batchrepeat-rect-tiling). *)
From Coq Require Import List ZArith Bool Arith.
Import ListNotations.
Require Import C01.Sums C01.Batch C01.Tensor C01.OpExpr.

(* MulLinearOperator operands whose root is a plain tensor (what opbuild builds): RootLinearOperator / LowRankRoot over a dense
   root, or a lower Cholesky operator *)
Definition simple_root (e : OpExpr) : bool :=
  match e with
  | Root (Dense _) | LowRankRoot (Dense _) => true
  | Chol _ u => negb u
  | _ => false
  end.

Fixpoint coveredb (e : OpExpr) : bool :=
  match e with
  | Dense _ | UserMinimal _ | Diag _ | ConstantDiag _ _ | Identity _ _ | Toeplitz _ | Triangular _ _ => true
  | Kernel _ _ _ | TransposePermutation _ | Permutation _ => true
  | Zero b _ _ => match b with [] => true | _ :: _ => false end
  | Chol _ u => negb u
  | Root r | LowRankRoot r => coveredb r
  | Kron ops | KronTriangular ops _ | Sum ops | PsdSum ops | KronDiag ops => forallb coveredb ops
  | KronAddedDiag a b | SumKron a b | AddedDiag a b | LowRankRootAddedDiag a b | Matmul a b => coveredb a && coveredb b
  | ConstantMul b _ | BlockDiag b | BlockInterleaved b | SumBatch b | Masked b _ _ | Interpolated b _ _ _ _ => coveredb b
  | Cat ops d => match d with CatBatch _ => false | _ => forallb coveredb ops end
  | BatchRepeat b _ => coveredb b && Nat.eqb (nr (denote b)) (nc (denote b))   (* the square branch of _matmul *)
  | Mul l r => simple_root l && simple_root r
  end.

Definition covered (e : OpExpr) : Prop := coveredb e = true.
