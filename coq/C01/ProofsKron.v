(* C01.ProofsKron — the Kronecker "vec trick" (kronecker_product_linear_operator.py _matmul / _t_matmul):
   for ANY number of factors, any factor operators (given by functions that act as their matrices), any
   batch shapes and any number of right-hand-side columns, the loop computes (K1 (x) K2 (x) ... (x) Kk) X. *)
From Coq Require Import List ZArith Lia Bool Arith.
Import ListNotations.
Require Import C01.Sums C01.Batch C01.Tensor C01.OpExpr C01.Model C01.ProofsBase C01.ProofsAlg.
Open Scope Z_scope.

Definition kronl (Ks : list BT) : BT := fold_right dkron (deye [] 1) Ks.

Lemma kronl_shape Ks :
  bsh (kronl Ks) = bcast_all (map bsh Ks) /\ nr (kronl Ks) = prodn (map nr Ks) /\ nc (kronl Ks) = prodn (map nc Ks).
Proof.
  induction Ks as [|K Ks (I1 & I2 & I3)]; simpl; [auto|]. rewrite I1, I2, I3. auto.
Qed.

Lemma prodn_pos l : forallb pos l = true -> (0 < prodn l)%nat.
Proof.
  induction l as [|x l IH]; simpl; [lia|]. rewrite andb_true_iff. intros [H1 H2].
  unfold pos in H1. apply Nat.ltb_lt in H1. specialize (IH H2). nia.
Qed.

(* entry of a Kronecker product seen from a larger batch *)
Lemma bget_dkron A B C I i j :
  bcompat (bsh A) (bsh B) = true -> bsub (bcast (bsh A) (bsh B)) C = true -> inb C I ->
  bget (dkron A B) I i j = bget A I (i / nr B)%nat (j / nc B)%nat * bget B I (i mod nr B)%nat (j mod nc B)%nat.
Proof.
  intros HC HS HI. unfold dkron. rewrite bget_mk. unfold bget.
  rewrite !bproj_bproj; [reflexivity| |]; [apply bsub_bcast_r|apply bsub_bcast_l]; exact HC.
Qed.

Section Run.
Context {T : Type}.
Variable f : T -> BT -> BT.
Variable K : T -> BT.

Definition runlist (ops : list T) := map (fun x => (f x, nr (K x), nc (K x))) ops.
Definition Ks (ops : list T) := map K ops.

Lemma kron_run_inv (B : shape) (c : nat) : forall ops,
  (forall x, In x ops -> acts (f x) (K x)) ->
  (forall x, In x ops -> (0 < nr (K x))%nat /\ (0 < nc (K x))%nat /\ bsub (bsh (K x)) B = true) ->
  pwc (map bsh (Ks ops)) = true ->
  forall P res, (0 < P)%nat -> nc res = c -> nr res = (prodn (map nc (Ks ops)) * P)%nat -> bsh res = B ->
  let out := kron_run (runlist ops) c res in
  bsh out = B /\ nr out = (P * prodn (map nr (Ks ops)))%nat /\ nc out = c /\
  forall I p i col, inb B I -> (p < P)%nat -> (i < prodn (map nr (Ks ops)))%nat -> (col < c)%nat ->
    ent out I (p * prodn (map nr (Ks ops)) + i)%nat col
    = zsum (prodn (map nc (Ks ops))) (fun J => bget (kronl (Ks ops)) I i J * ent res I (J * P + p)%nat col).
Proof.
  induction ops as [|x ops IH]; intros HA HK HP P res P0 Hc Hr Hb.
  - simpl. split; [exact Hb|]. split; [simpl in Hr; lia|]. split; [exact Hc|].
    intros I p i col HI Hp Hi Hcol. assert (i = 0%nat) by lia. subst i.
    unfold bget. simpl. unfold zdelta. simpl. replace (p * 1 + 0)%nat with p by lia.
    destruct (ent res I p col); reflexivity.
  - simpl runlist. simpl kron_run.
    set (mK := nr (K x)) in *. set (nK := nc (K x)) in *.
    set (M' := prodn (map nr (Ks ops))). set (N' := prodn (map nc (Ks ops))).
    destruct (HK x (or_introl eq_refl)) as (m0 & n0 & SB). fold mK in m0. fold nK in n0.
    change (pwc (map bsh (Ks (x :: ops)))) with (forallb (fun y => bcompat (bsh (K x)) y) (map bsh (Ks ops)) && pwc (map bsh (Ks ops))) in HP.
    apply andb_true_iff in HP. destruct HP as [HP1 HP2].
    assert (HrN : nr res = (nK * (N' * P))%nat) by (rewrite Hr; simpl; fold nK N'; lia).
    set (Q := (N' * P)%nat).
    assert (HQ : (nr res / nK)%nat = Q) by (rewrite HrN, Nat.mul_comm, Nat.div_mul by lia; reflexivity).
    unfold kron_step. rewrite HQ.
    set (V := mkBT (bsh res) nK (Q * c) (fun I a u => ent res I (a * Q + u / c)%nat (u mod c)%nat)).
    set (F := fr (f x (fr V))).
    assert (HV : F == dmm (K x) V).
    { apply fr_eq'. eapply BTeq_trans.
      - apply (HA x (or_introl eq_refl)). split; [reflexivity|]. simpl. rewrite Hb. apply bsub_bcompat; exact SB.
      - apply dmm_eq_r; [simpl; rewrite Hb; apply bsub_bcompat; exact SB|reflexivity|apply fr_eq]. }
    assert (FS : bsh F = B).
    { destruct HV as (F1 & _). rewrite F1. simpl. rewrite Hb. apply (bsub_bcast_eq _ _ SB). }
    assert (FE : forall I i u, inb B I -> (i < mK)%nat -> (u < Q * c)%nat ->
                 ent F I i u = zsum nK (fun a => bget (K x) I i a * ent res I (a * Q + u / c)%nat (u mod c)%nat)).
    { intros I i u HI Hi Hu. destruct HV as (F1 & F2 & F3 & F4).
      rewrite F4; [|rewrite FS; exact HI|rewrite F2; exact Hi|rewrite F3; exact Hu].
      simpl. fold nK. apply zsum_ext. intros a Ha. f_equal. unfold bget. simpl. rewrite Hb, (bproj_id B I HI). reflexivity. }
    clearbody F.
    set (res1 := mkBT (bsh F) (Q * mK) c (fun I r col => ent F I (r mod mK)%nat (r / mK * c + col)%nat)).
    assert (E0 : (0 < P * mK)%nat) by nia.
    assert (E3 : nc res1 = c) by reflexivity.
    assert (E4 : nr res1 = (prodn (map nc (Ks ops)) * (P * mK))%nat) by (simpl; fold N'; unfold Q; lia).
    assert (E5 : bsh res1 = B) by exact FS.
    destruct (IH (fun y Hy => HA y (or_intror Hy)) (fun y Hy => HK y (or_intror Hy)) HP2 (P * mK)%nat res1 E0 E3 E4 E5)
      as (O1 & O2 & O3 & O4).
    fold M' N' in O2, O4.
    split; [exact O1|]. split; [rewrite O2; simpl; fold mK M'; lia|]. split; [exact O3|].
    intros I p i col HI Hp Hi Hcol. simpl in Hi. fold mK M' in Hi.
    assert (M0 : (0 < M')%nat) by nia.
    set (i1 := (i / M')%nat). set (i' := (i mod M')%nat).
    assert (Hi1 : (i1 < mK)%nat) by (apply div_lt_mul; exact Hi).
    assert (Hi' : (i' < M')%nat) by (apply Nat.mod_upper_bound; lia).
    assert (Ei : i = (i1 * M' + i')%nat) by (apply div_mod_eq; exact M0).
    assert (Di : (i / M')%nat = i1) by reflexivity. assert (Dm : (i mod M')%nat = i') by reflexivity.
    clearbody i1 i'.
    simpl map. simpl prodn. fold mK nK M' N'.
    replace (p * (mK * M') + i)%nat with ((p * mK + i1) * M' + i')%nat by (rewrite Ei; ring).
    rewrite O4; [|exact HI|nia|exact Hi'|exact Hcol].
    (* expand the entries of res1 *)
    transitivity (zsum N' (fun J' => bget (kronl (Ks ops)) I i' J' *
                    zsum nK (fun a => bget (K x) I i1 a * ent res I ((a * N' + J') * P + p)%nat col))).
    { apply zsum_ext. intros J' HJ'. f_equal. simpl.
      assert (E1 : ((J' * (P * mK) + (p * mK + i1)) mod mK = i1)%nat).
      { replace (J' * (P * mK) + (p * mK + i1))%nat with ((J' * P + p) * mK + i1)%nat by lia. apply (divmod_mul_add _ _ _ Hi1). }
      assert (E2 : ((J' * (P * mK) + (p * mK + i1)) / mK = J' * P + p)%nat).
      { replace (J' * (P * mK) + (p * mK + i1))%nat with ((J' * P + p) * mK + i1)%nat by lia. apply (divmod_mul_add _ _ _ Hi1). }
      rewrite E1, E2.
      assert (Hq : (J' * P + p < N' * P)%nat) by nia.
      assert (Hqc : ((J' * P + p) * c + col < Q * c)%nat) by (unfold Q; nia).
      rewrite (FE I i1 ((J' * P + p) * c + col)%nat HI Hi1 Hqc).
      apply zsum_ext. intros a Ha. f_equal.
      destruct (divmod_mul_add (J' * P + p) c col Hcol) as [D1 D2]. rewrite D1, D2.
      f_equal. unfold Q. lia. }
    (* right-hand side: split J = a * N' + J' *)
    rewrite zsum_split_mul.
    transitivity (zsum nK (fun a => zsum N' (fun J' => bget (kronl (Ks ops)) I i' J' * (bget (K x) I i1 a * ent res I ((a * N' + J') * P + p)%nat col)))).
    { rewrite zsum_swap. apply zsum_ext. intros J' HJ'. rewrite <- zsum_scale_l. reflexivity. }
    apply zsum_ext. intros a Ha. apply zsum_ext. intros J' HJ'.
    assert (N0 : (0 < N')%nat) by lia.
    destruct (kronl_shape (Ks ops)) as (KS1 & KS2 & KS3). fold M' in KS2. fold N' in KS3.
    assert (HCk : bcompat (bsh (K x)) (bsh (kronl (Ks ops))) = true) by (rewrite KS1; apply bcompat_bcast_all; assumption).
    assert (SBk : bsub (bsh (kronl (Ks ops))) B = true).
    { rewrite KS1. clear - HK. induction ops as [|y ops IHo]; simpl; [reflexivity|].
      apply (proj1 (bsub_lub _ _ _ (proj2 (proj2 (HK y (or_intror (or_introl eq_refl))))) (IHo (fun z Hz => HK z (match Hz with or_introl e => or_introl e | or_intror h => or_intror (or_intror h) end))))). }
    change (kronl (Ks (x :: ops))) with (dkron (K x) (kronl (Ks ops))).
    rewrite (bget_dkron (K x) (kronl (Ks ops)) B I i (a * N' + J')%nat HCk (proj1 (bsub_lub _ _ _ SB SBk)) HI).
    rewrite KS2, KS3, Di, Dm.
    destruct (divmod_mul_add a N' J' HJ') as [D1 D2]. rewrite D1, D2. ring.
Qed.

(* the loop of _matmul / _t_matmul over all factors, started on the expanded right-hand side *)
Theorem kron_run_correct ops :
  (forall x, In x ops -> acts (f x) (K x)) ->
  (forall x, In x ops -> (0 < nr (K x))%nat /\ (0 < nc (K x))%nat) ->
  pwc (map bsh (Ks ops)) = true ->
  acts (fun X => kron_run (runlist ops) (nc X) (dexpand (bcast (bsh (kronl (Ks ops))) (bsh X)) X)) (kronl (Ks ops)).
Proof.
  intros HA HK HP X [H1 H2].
  destruct (kronl_shape (Ks ops)) as (KS1 & KS2 & KS3).
  set (B := bcast (bsh (kronl (Ks ops))) (bsh X)).
  assert (SK : bsub (bsh (kronl (Ks ops))) B = true) by (apply bsub_bcast_l; exact H2).
  assert (HK' : forall x, In x ops -> (0 < nr (K x))%nat /\ (0 < nc (K x))%nat /\ bsub (bsh (K x)) B = true).
  { intros x Hx. destruct (HK x Hx) as [h1 h2]. repeat split; try assumption.
    eapply bsub_trans; [|exact SK]. rewrite KS1. apply bsub_bcast_all; [exact HP|]. apply in_map. apply in_map. exact Hx. }
  destruct (kron_run_inv B (nc X) ops HA HK' HP 1%nat (dexpand B X)) as (O1 & O2 & O3 & O4); try reflexivity; try lia.
  { simpl. rewrite H1, KS3. lia. }
  unfold dmm. split; [exact O1|]. split; [rewrite O2, KS2; simpl; lia|]. split; [exact O3|].
  intros I i j HI Hi Hj. rewrite O1 in HI. rewrite O2 in Hi. rewrite O3 in Hj.
  specialize (O4 I 0%nat i j HI ltac:(lia) ltac:(lia) Hj). simpl in O4. rewrite O4. simpl. rewrite KS3.
  apply zsum_ext. intros J HJ. f_equal. rewrite Nat.mul_1_r, Nat.add_0_r. reflexivity.
Qed.

End Run.

(* transposition and congruence of Kronecker products *)
Lemma dtr_dkron A B : dtr (dkron A B) == dkron (dtr A) (dtr B).
Proof. repeat split. Qed.

Lemma dkron_eq A A' B B' : bcompat (bsh A) (bsh B) = true -> A == A' -> B == B' -> dkron A B == dkron A' B'.
Proof.
  intros HC HA HB. pose proof HA as (a1 & a2 & a3 & a4). pose proof HB as (b1 & b2 & b3 & b4).
  unfold dkron. repeat split; simpl; try congruence.
  intros I i j HI Hi Hj. rewrite <- b2, <- b3.
  destruct (Nat.eq_dec (nr B) 0) as [Z|Z]; [rewrite Z in Hi; lia|].
  destruct (Nat.eq_dec (nc B) 0) as [Z'|Z']; [rewrite Z' in Hj; lia|].
  f_equal.
  - eapply BTeq_bget; eauto; [apply bsub_bcast_l; exact HC|apply div_lt_mul; exact Hi|apply div_lt_mul; exact Hj].
  - eapply BTeq_bget; eauto; [apply bsub_bcast_r; exact HC|apply Nat.mod_upper_bound; exact Z|apply Nat.mod_upper_bound; exact Z'].
Qed.
