(* C01.ProofsMain — the structural induction: for every covered, well-formed operator expression, of ANY
   nesting, the transcribed _matmul / _t_matmul act as the dense matrix the expression denotes (resp. its
   transpose), on every right-hand side torch.matmul accepts (all sizes, all broadcastable batch shapes). *)
From Coq Require Import List ZArith Lia Bool Arith.
Import ListNotations.
Require Import C01.Sums C01.Batch C01.Tensor C01.OpExpr C01.Model C01.Covered.
Require Import C01.ProofsBase C01.ProofsAlg C01.ProofsKron C01.ProofsStruct C01.ProofsMore C01.ProofsPerm C01.ProofsRepeat C01.ProofsMul C01.ProofsSize C01.ProofsCatBatch.
Open Scope Z_scope.

(* f acts as D and D is symmetric: f acts as the transpose too *)
Lemma acts_sym_mt f D t : dtr D == D -> acts f D -> acts f (mt t D).
Proof. intros HS HA. destruct t; simpl; [|exact HA]. eapply acts_eq; [apply BTeq_sym; exact HS|exact HA]. Qed.

(* ---- leaves -------------------------------------------------------------------------------------- *)

Lemma acts_diag d : nc d = 1%nat -> acts (drowscale d) (ddiag d).
Proof. intros H X [H1 H2]. apply BTeq_sym. apply dmm_ddiag; assumption. Qed.

Lemma acts_constdiag c n : acts (dcscale c) (dconstdiag c n).
Proof. intros X [H1 H2]. apply BTeq_sym. apply dmm_dconstdiag. exact H1. Qed.

Lemma acts_identity n b : acts (fun X => dexpand (bcast (bsh X) b) X) (deye b n).
Proof.
  intros X [H1 H2]. simpl in *. rewrite (bcast_comm (bsh X) b) by (rewrite bcompat_sym; exact H2).
  apply BTeq_sym. apply dmm_eye_l; assumption.
Qed.

Lemma acts_zero b m' Z : bsh Z = b -> nr Z = m' -> (forall I i j, ent Z I i j = 0) ->
  acts (fun X => dzero (bcast (bsh X) b) m' (nc X)) Z.
Proof.
  intros HS HR HZ X [H1 H2]. unfold dmm, dzero. rewrite HS in *.
  split; [simpl; apply bcast_comm; rewrite bcompat_sym; exact H2|]. repeat split; simpl; try congruence.
  intros I i j _ _ _. symmetry. apply zsum_zero. intros l _. unfold bget. rewrite HZ. ring.
Qed.

Lemma acts_toeplitz col : acts (toeplitz_mm col) (dtoeplitz col).
Proof. intros X [H1 H2]. apply toeplitz_circulant_correct. exact H1. Qed.

Lemma pw_fix_pwc ops :
  (fix pw (l : list OpExpr) : bool :=
     match l with [] => true | x :: r => forallb (fun y => bcompat (bsh (denote x)) (bsh (denote y))) r && pw r end) ops
  = pwc (map bsh (map denote ops)).
Proof.
  induction ops as [|x ops IH]; [reflexivity|]. simpl. rewrite IH. f_equal.
  rewrite !forallb_map. reflexivity.
Qed.

(* Kronecker product of diagonal operators = diagonal of the Kronecker product of the diagonals (_kron_diag) *)
Lemma krondiag_denote ops :
  forallb wfb ops = true -> forallb is_plain_diag_cls ops = true ->
  forallb (fun x => pos (nr (denote x)) && pos (nc (denote x))) ops = true -> pwc (map bsh (map denote ops)) = true ->
  kronl (map denote ops) == ddiag (kron_diag_vec (map diag_of ops)).
Proof.
  intros HW HD HPos HP.
  assert (E : map denote ops = map ddiag (map diag_of ops)).
  { rewrite map_map. apply map_ext_in. intros x Hx. rewrite forallb_forall in HD. specialize (HD x Hx).
    destruct x; try discriminate. reflexivity. }
  rewrite E in *. apply kronl_ddiag.
  - rewrite forallb_map. rewrite forallb_forall in *. intros x Hx. specialize (HPos x Hx). specialize (HD x Hx).
    destruct x; try discriminate. simpl in *. apply andb_true_iff in HPos. apply HPos.
  - rewrite map_map in HP. rewrite map_map. rewrite map_map in HP. exact HP.
Qed.

(* the _diag vector of a diagonal-class operator (DiagLinearOperator family) *)
Lemma diagv_correct d : wf d -> is_diag_cls d = true -> denote d == ddiag (diagv d) /\ nc (diagv d) = 1%nat.
Proof.
  unfold wf. intros HW HD. destruct d; try discriminate; simpl in HW; bsplit.
  - split; [apply BTeq_refl|assumption].
  - split; [|reflexivity]. unfold dconstdiag, ddiag. repeat split.
  - split; [|reflexivity]. unfold deye, ddiag, dones. repeat split.
  - split; [|apply (kron_diag_vec_shape (map diag_of ops))]. simpl denote. rewrite denote_kron_fold.
    rewrite pw_fix_pwc in *. apply krondiag_denote; assumption.
Qed.

Lemma acts_diagv d : wf d -> is_diag_cls d = true -> acts (drowscale (diagv d)) (denote d).
Proof.
  intros HW HD. destruct (diagv_correct d HW HD) as [H1 H2].
  eapply acts_eq; [apply BTeq_sym; exact H1|apply acts_diag; exact H2].
Qed.

Lemma dsuml_two A B : nr B = nr A -> nc B = nc A -> bcompat (bsh A) (bsh B) = true -> dsuml [A; B] == dadd A B.
Proof.
  intros HR HN HC. eapply BTeq_trans; [apply dsuml_cons; reflexivity|].
  apply dadd_eq; try assumption; [simpl; rewrite bcast_nil_r; exact HC|apply BTeq_refl|apply dsuml_one].
Qed.

Lemma dtr_dadd A B : dtr (dadd A B) == dadd (dtr A) (dtr B).
Proof. repeat split. Qed.

(* two summands given by functions *)
Lemma acts_two f g A B t :
  acts f (mt t A) -> acts g (mt t B) -> nr B = nr A -> nc B = nc A -> bcompat (bsh A) (bsh B) = true ->
  acts (fun X => dsuml [f X; g X]) (mt t (dadd A B)).
Proof.
  intros HF HG HR HN HC.
  assert (HD : dsuml [mt t A; mt t B] == mt t (dadd A B)).
  { eapply BTeq_trans; [apply dsuml_two; destruct t; simpl; assumption|].
    destruct t; simpl; [apply BTeq_sym; apply dtr_dadd|apply BTeq_refl]. }
  eapply acts_eq; [exact HD|].
  pose proof (acts_dsuml [false] (fun b : bool => if b then f else g) (fun b : bool => if b then mt t A else mt t B) true) as HL.
  simpl in HL. apply HL.
  - intros b [<-|[<-|[]]]; assumption.
  - destruct t; simpl; rewrite HR, HN, !Nat.eqb_refl; reflexivity.
  - rewrite !mt_shape, HC. reflexivity.
Qed.

(* ---- Kronecker products ------------------------------------------------------------------------- *)

Lemma kronl_dtr Ks : pwc (map bsh Ks) = true -> kronl (map dtr Ks) == dtr (kronl Ks).
Proof.
  induction Ks as [|K Ks IH]; intros HP; [apply BTeq_sym; apply dtr_deye|].
  change (pwc (map bsh (K :: Ks))) with (forallb (fun y => bcompat (bsh K) y) (map bsh Ks) && pwc (map bsh Ks)) in HP.
  apply andb_true_iff in HP. destruct HP as [HP1 HP2].
  simpl. eapply BTeq_trans; [|apply BTeq_sym; apply dtr_dkron].
  apply dkron_eq; [|apply BTeq_refl|apply IH; exact HP2].
  destruct (kronl_shape (map dtr Ks)) as (S1 & _). rewrite S1. simpl. rewrite map_map. simpl.
  rewrite <- map_map with (f := fun x => x) (g := bsh). rewrite map_id.
  apply bcompat_bcast_all; assumption.
Qed.

Lemma kronl_mt t Ks : pwc (map bsh Ks) = true -> kronl (map (mt t) Ks) == mt t (kronl Ks).
Proof.
  intros HP. destruct t; simpl; [apply kronl_dtr; exact HP|]. rewrite map_id. apply BTeq_refl.
Qed.


Lemma mt_dims t A : (nr (mt t A) = if t then nc A else nr A) /\ (nc (mt t A) = if t then nr A else nc A).
Proof. destruct t; split; reflexivity. Qed.

Lemma acts_kron_ops t ops :
  forallb wfb ops = true ->
  forallb (fun x => pos (nr (denote x)) && pos (nc (denote x))) ops = true ->
  pwc (map bsh (map denote ops)) = true ->
  (forall x, In x ops -> acts (mm t x) (mt t (denote x))) ->
  acts (fun X => kron_run (map (fun x => (mm t x, if t then sz_n (sz x) else sz_m (sz x), if t then sz_m (sz x) else sz_n (sz x))) ops)
                  (nc X) (dexpand (bcast (bcast_all (map (fun x => sz_b (sz x)) ops)) (bsh X)) X))
       (mt t (kronl (map denote ops))).
Proof.
  intros HW HPos HP HA.
  set (K := fun x => mt t (denote x)).
  assert (EK : map bsh (Ks K ops) = map bsh (map denote ops)).
  { unfold Ks, K. rewrite !map_map. apply map_ext. intros x. apply mt_shape. }
  assert (HKr : acts (fun X => kron_run (runlist (mm t) K ops) (nc X) (dexpand (bcast (bsh (kronl (Ks K ops))) (bsh X)) X)) (kronl (Ks K ops))).
  { apply kron_run_correct.
    - exact HA.
    - intros x Hx. rewrite forallb_forall in HPos. specialize (HPos x Hx). bsplit. unfold pos in *.
      apply Nat.ltb_lt in H, H0. unfold K. destruct (mt_dims t (denote x)) as [E1 E2]. rewrite E1, E2. destruct t; split; assumption.
    - rewrite EK. exact HP. }
  assert (ER : runlist (mm t) K ops
               = map (fun x => (mm t x, if t then sz_n (sz x) else sz_m (sz x), if t then sz_m (sz x) else sz_n (sz x))) ops).
  { unfold runlist. apply map_ext_in. intros x Hx. rewrite (sz_correct x (wfb_all_in ops x HW Hx)). unfold K.
    destruct (mt_dims t (denote x)) as [E1 E2]. rewrite E1, E2. destruct t; reflexivity. }
  assert (EB : bsh (kronl (Ks K ops)) = bcast_all (map (fun x => sz_b (sz x)) ops)).
  { destruct (kronl_shape (Ks K ops)) as (S1 & _). rewrite S1, EK, map_map. f_equal. apply map_ext_in. intros x Hx.
    rewrite (sz_correct x (wfb_all_in ops x HW Hx)). reflexivity. }
  rewrite ER, EB in HKr.
  eapply acts_eq; [|exact HKr].
  unfold Ks, K. rewrite <- (map_map denote (mt t)). apply kronl_mt. exact HP.
Qed.

(* the induction statement *)
Definition mm_ok (e : OpExpr) : Prop := wf e -> covered e -> forall t, acts (mm t e) (mt t (denote e)).

(* ---- sums of operator lists ----------------------------------------------------------------------- *)

Lemma acts_sum_ops tf x ops :
  forallb (fun y => Nat.eqb (nr (denote y)) (nr (denote x)) && Nat.eqb (nc (denote y)) (nc (denote x))) ops = true ->
  pwc (map bsh (map denote (x :: ops))) = true ->
  (forall y, In y (x :: ops) -> acts (mm tf y) (mt tf (denote y))) ->
  acts (fun X => dsuml (map (fun y => mm tf y X) (x :: ops))) (mt tf (dsuml (map denote (x :: ops)))).
Proof.
  intros HD HP HA.
  assert (HE : dsuml (map (fun y => mt tf (denote y)) (x :: ops)) == mt tf (dsuml (map denote (x :: ops)))).
  { rewrite <- (map_map denote (mt tf)). destruct tf; simpl mt.
    - apply BTeq_sym. apply dtr_dsuml.
    - rewrite map_id. apply BTeq_refl. }
  eapply acts_eq; [exact HE|].
  apply (acts_dsuml ops (mm tf) (fun y => mt tf (denote y)) x HA).
  - unfold dims_as. rewrite forallb_map. rewrite forallb_forall in *. intros y Hy. specialize (HD y Hy). bsplit.
    destruct (mt_dims tf (denote y)) as [E1 E2]. destruct (mt_dims tf (denote x)) as [E3 E4]. rewrite E1, E2, E3, E4.
    destruct tf; apply andb_true_iff; split; apply Nat.eqb_eq; congruence.
  - rewrite <- HP. f_equal. rewrite map_map. apply map_ext. intros y. apply mt_shape.
Qed.

Ltac ihs :=
  repeat match goal with
         | IH : mm_ok ?e, HW : wfb ?e = true, HC : coveredb ?e = true |- _ =>
             let F := fresh "IHf" in pose proof (IH HW HC) as F; clear IH
         end.

Ltac useih := match goal with IH : forall t : bool, acts (mm t ?e) _ |- acts (mm ?b ?e) _ => exact (IH b) end.

(* the four "operator + diagonal" classes share AddedDiagLinearOperator._matmul and SumLinearOperator._t_matmul *)
Lemma acts_added_diag (tf : bool) a d :
  wf d -> covered d -> is_diag_cls d = true ->
  nr (denote a) = nr (denote d) -> nc (denote a) = nc (denote d) -> bcompat (bsh (denote a)) (bsh (denote d)) = true ->
  (forall t, acts (mm t a) (mt t (denote a))) -> (forall t, acts (mm t d) (mt t (denote d))) ->
  acts (fun X => if tf then dsuml [mm true a X; mm true d X] else dadd (mm false a X) (drowscale (diagv d) X))
       (mt tf (dadd (denote a) (denote d))).
Proof.
  intros HW HC HD HR HN HB HA HDd. destruct tf.
  - apply (acts_two (mm true a) (mm true d) (denote a) (denote d) true); try (symmetry; assumption); try assumption; auto.
  - apply (acts_dadd (mm false a) (drowscale (diagv d)) (denote a) (denote d)); try (symmetry; assumption); try assumption.
    + apply (HA false).
    + apply acts_diagv; assumption.
Qed.

(* ---- concatenation ---------------------------------------------------------------------------------- *)

Lemma acts_cat_rowsdir (tf : bool) x ops :
  forallb wfb (x :: ops) = true ->
  forallb (fun y => shape_eqb (bsh (denote y)) (bsh (denote x)) && Nat.eqb (nc (denote y)) (nc (denote x))) ops = true ->
  (forall y, In y (x :: ops) -> forall t, acts (mm t y) (mt t (denote y))) ->
  acts (mm tf (Cat (x :: ops) CatRows)) (mt tf (dcat (map denote (x :: ops)) CatRows)).
Proof.
  intros HW HS HA.
  assert (HS' : forall y, In y (x :: ops) -> bsh (denote y) = bsh (denote x) /\ nc (denote y) = nc (denote x)).
  { intros y [<-|Hy]; [auto|]. rewrite forallb_forall in HS. specialize (HS y Hy). bsplit. auto. }
  destruct tf.
  - (* transposed: the transposed object concatenates along columns *)
    intros X HX. cbn [mm].
    change (dsum_pieces (pieces (mm true) (fun y => sz_m (sz y)) X (x :: ops) 0) == dmm (mt true (dcat (map denote (x :: ops)) CatRows)) X).
    revert X HX. eapply acts_eq; [|apply (acts_cat_cols (mm true) (fun y => dtr (denote y)) (fun y => sz_m (sz y)) x ops)].
    + simpl mt. rewrite <- (map_map denote dtr). apply BTeq_sym. apply dtr_dcat_rows.
    + intros y Hy. destruct (HS' y Hy) as [S1 S2]. split; [apply (HA y Hy true)|]. split; [exact S1|]. split; [exact S2|].
      rewrite (sz_correct y (wfb_all_in _ y HW Hy)). reflexivity.
  - intros X HX. cbn [mm]. revert X HX.
    apply (acts_cat_rows (mm false) denote x ops). intros y Hy. destruct (HS' y Hy) as [S1 S2].
    split; [apply (HA y Hy false)|]. split; assumption.
Qed.

Lemma acts_cat_colsdir (tf : bool) x ops :
  forallb wfb (x :: ops) = true ->
  forallb (fun y => shape_eqb (bsh (denote y)) (bsh (denote x)) && Nat.eqb (nr (denote y)) (nr (denote x))) ops = true ->
  (forall y, In y (x :: ops) -> forall t, acts (mm t y) (mt t (denote y))) ->
  acts (mm tf (Cat (x :: ops) CatCols)) (mt tf (dcat (map denote (x :: ops)) CatCols)).
Proof.
  intros HW HS HA.
  assert (HS' : forall y, In y (x :: ops) -> bsh (denote y) = bsh (denote x) /\ nr (denote y) = nr (denote x)).
  { intros y [<-|Hy]; [auto|]. rewrite forallb_forall in HS. specialize (HS y Hy). bsplit. auto. }
  destruct tf.
  - intros X HX. cbn [mm]. revert X HX.
    eapply acts_eq; [|apply (acts_cat_rows (mm true) (fun y => dtr (denote y)) x ops)].
    + simpl mt. rewrite <- (map_map denote dtr). apply BTeq_sym. apply dtr_dcat_cols.
    + intros y Hy. destruct (HS' y Hy) as [S1 S2]. split; [apply (HA y Hy true)|]. split; [exact S1|exact S2].
  - intros X HX. cbn [mm].
    change (dsum_pieces (pieces (mm false) (fun y => sz_n (sz y)) X (x :: ops) 0) == dmm (mt false (dcat (map denote (x :: ops)) CatCols)) X).
    revert X HX. apply (acts_cat_cols (mm false) denote (fun y => sz_n (sz y)) x ops).
    intros y Hy. destruct (HS' y Hy) as [S1 S2]. split; [apply (HA y Hy false)|]. split; [exact S1|]. split; [exact S2|].
    rewrite (sz_correct y (wfb_all_in _ y HW Hy)). reflexivity.
Qed.

(* concatenation along a batch dimension (cat_dim < -2): expand, narrow per piece, multiply, torch.cat *)
Lemma acts_cat_batchdir (tf : bool) p x ops :
  wf (Cat (x :: ops) (CatBatch p)) ->
  forallb (fun y => pos (nth p (bsh (denote y)) 0%nat)) (x :: ops) = true ->
  (forall y, In y (x :: ops) -> forall t, acts (mm t y) (mt t (denote y))) ->
  acts (mm tf (Cat (x :: ops) (CatBatch p))) (mt tf (dcat (map denote (x :: ops)) (CatBatch p))).
Proof.
  intros HW HPos HA. pose proof HW as HW0. unfold wf in HW. cbn [wfb] in HW.
  destruct ops as [|x2 ops]; [rewrite andb_false_r in HW; discriminate|].
  set (L := x :: x2 :: ops) in *.
  apply andb_true_iff in HW. destruct HW as [HWl HW]. apply andb_true_iff in HW. destruct HW as [HP HS].
  apply Nat.ltb_lt in HP.
  assert (HS' : forall y, In y L -> bset (bsh (denote y)) p 0%nat = bset (bsh (denote x)) p 0%nat /\
                                    nr (denote y) = nr (denote x) /\ nc (denote y) = nc (denote x)).
  { intros y [<-|Hy]; [auto|]. rewrite forallb_forall in HS. specialize (HS y Hy). bsplit. auto. }
  assert (HLen : forall y, In y L -> nth p (sz_b (sz y)) 0%nat = nth p (bsh (denote y)) 0%nat /\ (0 < nth p (bsh (denote y)) 0)%nat).
  { intros y Hy. rewrite (sz_correct y (wfb_all_in L y HWl Hy)). split; [reflexivity|].
    rewrite forallb_forall in HPos. specialize (HPos y Hy). unfold pos in HPos. apply Nat.ltb_lt in HPos. exact HPos. }
  destruct tf.
  - (* the transposed object keeps the concatenated batch dimension *)
    eapply acts_eq; [apply BTeq_sym; apply (dtr_dcat_batch p (denote x) (map denote (x2 :: ops)))|].
    change (map dtr (denote x :: map denote (x2 :: ops))) with (map dtr (map denote L)). rewrite (map_map denote dtr).
    assert (ESZ : sz_b (sz (Cat L (CatBatch p))) = bsh (dcat (map (fun y => dtr (denote y)) L) (CatBatch p))).
    { rewrite (sz_correct _ HW0). unfold shp, sz_b. cbn [fst denote dcat L map bsh dtr]. rewrite !map_map. reflexivity. }
    intros X HX.
    change (mm true (Cat L (CatBatch p)) X)
      with (dcat (bpieces (mm true) (fun y => nth p (sz_b (sz y)) 0%nat) p (dexpand (bcast (sz_b (sz (Cat L (CatBatch p)))) (bsh X)) X) L 0) (CatBatch p)).
    rewrite ESZ. revert X HX.
    apply (acts_cat_batch (mm true) (fun y => dtr (denote y)) (fun y => nth p (sz_b (sz y)) 0%nat) p x (x2 :: ops)); [exact HP|simpl; lia|].
    intros y Hy. destruct (HS' y Hy) as (s1 & s2 & s3). destruct (HLen y Hy) as (l1 & l2).
    split; [apply (HA y Hy true)|]. cbn [dtr bsh nr nc]. unfold bdim. cbn [dtr bsh]. rewrite l1. auto.
  - assert (ESZ : sz_b (sz (Cat L (CatBatch p))) = bsh (dcat (map denote L) (CatBatch p))).
    { rewrite (sz_correct _ HW0). reflexivity. }
    intros X HX.
    change (mm false (Cat L (CatBatch p)) X)
      with (dcat (bpieces (mm false) (fun y => nth p (sz_b (sz y)) 0%nat) p (dexpand (bcast (sz_b (sz (Cat L (CatBatch p)))) (bsh X)) X) L 0) (CatBatch p)).
    rewrite ESZ. revert X HX.
    apply (acts_cat_batch (mm false) denote (fun y => nth p (sz_b (sz y)) 0%nat) p x (x2 :: ops)); [exact HP|simpl; lia|].
    intros y Hy. destruct (HS' y Hy) as (s1 & s2 & s3). destruct (HLen y Hy) as (l1 & l2).
    split; [apply (HA y Hy false)|]. unfold bdim. rewrite l1. auto.
Qed.

(* ---- Hadamard products of root-form operands ------------------------------------------------------ *)

Lemma simple_root_denote e : simple_root e = true ->
  denote e = dmm (root_dense e) (dtr (root_dense e)) /\ coveredb e = true.
Proof.
  destruct e; try discriminate; simpl.
  - destruct upper; [discriminate|]. auto.
  - destruct e; try discriminate. auto.
  - destruct e; try discriminate. auto.
Qed.

Lemma gram_fr T : dmm (fr T) (dtr (fr T)) == dmm T (dtr T).
Proof.
  destruct (BTeq_shape _ _ (fr_eq T)) as (e1 & e2 & e3).
  eapply BTeq_trans; [apply dmm_eq_l; [change (bsh (dtr (fr T))) with (bsh (fr T)); apply bcompat_refl|apply fr_eq]|].
  apply dmm_eq_r; [change (bsh (dtr (fr T))) with (bsh (fr T)); rewrite e1; apply bcompat_refl
                  |change (nr (dtr (fr T))) with (nc (fr T)); exact e3|apply dtr_eq; apply fr_eq].
Qed.

Lemma acts_mul_case l r :
  simple_root l = true -> acts (mm false r) (denote r) ->
  bsh (denote l) = bsh (denote r) -> nr (denote l) = nr (denote r) -> nr (denote r) = nc (denote r) ->
  acts (mul_mm (fr (root_dense l)) (mm false r) (bsh (denote r))) (dhad (denote l) (denote r)).
Proof.
  intros HS HA HB HN HSq. destruct (simple_root_denote l HS) as [HD _].
  set (T := root_dense l) in *. destruct (BTeq_shape _ _ (fr_eq T)) as (e1 & e2 & e3).
  assert (BT1 : bsh T = bsh (denote r)) by (rewrite <- HB, HD; simpl; rewrite bcast_refl; reflexivity).
  assert (NT : nr T = nr (denote r)) by (rewrite <- HN, HD; reflexivity).
  eapply acts_eq; [|apply (acts_mul (fr T) (denote r) (mm false r) HA); congruence].
  rewrite HD. apply dhad_eq; [simpl; rewrite bcast_refl, BT1; apply bcompat_refl|simpl; congruence| |apply gram_fr|apply BTeq_refl].
  simpl. congruence.
Qed.

Lemma gram_sym_mt (tf : bool) A B : dtr A == A -> dtr B == B -> bcompat (bsh A) (bsh B) = true -> nr B = nr A -> nc B = nc A ->
  mt tf (dhad A B) == dhad A B.
Proof.
  intros HA HB HC HR HN. destruct tf; simpl; [|apply BTeq_refl].
  eapply BTeq_trans; [apply dtr_dhad|]. apply dhad_eq; simpl; assumption.
Qed.

(* ---- the induction -------------------------------------------------------------------------------- *)


Lemma covered_all_in ops x : forallb coveredb ops = true -> In x ops -> covered x.
Proof. intros H Hx. rewrite forallb_forall in H. apply H. exact Hx. Qed.

Lemma blocks_of_sz b k bs : wf b -> bsh (denote b) = k :: bs -> blocks_of (sz b) = k.
Proof. intros HW HS. rewrite (sz_correct b HW). unfold blocks_of, shp, sz_b. simpl. rewrite HS. reflexivity. Qed.

Theorem mm_correct e : mm_ok e.
Proof.
  induction e using OpExpr_ind'; unfold mm_ok, wf, covered; intros HW HC tf; simpl in HW, HC; try discriminate; bsplit.
  - (* Dense *) apply acts_dmm.
  - (* Diag *) simpl. apply acts_sym_mt; [apply dtr_ddiag|apply acts_diag; assumption].
  - (* ConstantDiag *) simpl. apply acts_sym_mt; [apply dtr_dconstdiag|apply acts_constdiag].
  - (* Identity *) simpl. apply acts_sym_mt; [apply dtr_deye|apply acts_identity].
  - (* Zero *) simpl. destruct tf; simpl; apply acts_zero; reflexivity.
  - (* Toeplitz *) simpl. apply acts_sym_mt; [apply dtr_dtoeplitz|apply acts_toeplitz].
  - (* Triangular *) apply acts_dmm.
  - (* Chol *) destruct u; simpl.
    + (* upper: R^T (R X) *)
      eapply acts_eq; [|apply (acts_root (dmm (dtr t)) (dmm t) (dtr t) tf); [apply acts_dmm|eapply acts_eq; [apply BTeq_sym; apply dtr_dtr|apply acts_dmm]]].
      apply mt_eq. apply dmm_eq_r; [apply bcompat_refl|reflexivity|apply dtr_dtr].
    + apply (acts_root (dmm t) (dmm (dtr t)) t tf); apply acts_dmm.
  - (* Root *) simpl. apply (acts_root (mm false e) (mm true e) (denote e) tf); [apply (IHe HW HC false)|apply (IHe HW HC true)].
  - (* LowRankRoot *) simpl. apply (acts_root (mm false e) (mm true e) (denote e) tf); [apply (IHe HW HC false)|apply (IHe HW HC true)].
  - (* Kron *) cbn [mm denote sz sz_b fst]. rewrite denote_kron_fold. rewrite pw_fix_pwc in *.
    apply acts_kron_ops; try assumption.
    intros x Hx. rewrite Forall_forall in H. apply (H x Hx); [eapply wfb_all_in; eauto|eapply covered_all_in; eauto].
  - (* KronTriangular *) cbn [mm denote sz sz_b fst]. rewrite denote_kron_fold. rewrite pw_fix_pwc in *.
    apply acts_kron_ops; try assumption.
    intros x Hx. rewrite Forall_forall in H. apply (H x Hx); [eapply wfb_all_in; eauto|eapply covered_all_in; eauto].
  - (* KronDiag *) cbn [mm denote]. rewrite denote_kron_fold. rewrite pw_fix_pwc in *.
    assert (HK : kronl (map denote ops) == ddiag (kron_diag_vec (map diag_of ops))) by (apply krondiag_denote; assumption).
    eapply acts_eq; [apply mt_eq; apply BTeq_sym; exact HK|].
    apply acts_sym_mt; [apply dtr_ddiag|]. apply acts_diag_fr. apply (kron_diag_vec_shape (map diag_of ops)).
  - (* KronAddedDiag *) ihs. apply (acts_added_diag tf e1 e2); assumption.
  - (* SumKron *) ihs. cbn [mm denote].
    apply (acts_two (mm tf e1) (mm tf e2) (denote e1) (denote e2) tf); try (symmetry; assumption); try assumption; useih.
  - (* AddedDiag *) ihs. apply (acts_added_diag tf e1 e2); assumption.
  - (* LowRankRootAddedDiag *) ihs. apply (acts_added_diag tf e1 e2); assumption.
  - (* Sum *) destruct ops as [|x ops]; [discriminate|]. cbn [mm denote]. rewrite pw_fix_pwc in *.
    apply acts_sum_ops; try assumption; [simpl; rewrite !forallb_map; assumption|].
    intros y Hy. rewrite Forall_forall in H. apply (H y Hy); [eapply wfb_all_in; eauto|eapply covered_all_in; eauto].
  - (* PsdSum *) destruct ops as [|x ops]; [discriminate|]. cbn [mm denote]. rewrite pw_fix_pwc in *.
    apply acts_sum_ops; try assumption; [simpl; rewrite !forallb_map; assumption|].
    intros y Hy. rewrite Forall_forall in H. apply (H y Hy); [eapply wfb_all_in; eauto|eapply covered_all_in; eauto].
  - (* Matmul *) ihs. cbn [mm denote]. destruct tf.
    + apply (acts_matmul_t (mm true e1) (mm true e2) (denote e1) (denote e2)); try assumption; useih.
    + apply (acts_comp (mm false e1) (mm false e2) (denote e1) (denote e2)); try assumption; useih.
  - (* Mul *) destruct (simple_root_denote e1) as [D1 C1]; [assumption|]. destruct (simple_root_denote e2) as [D2 C2]; [assumption|].
    pose proof (IHe1 ltac:(assumption) C1 false) as A1. pose proof (IHe2 ltac:(assumption) C2 false) as A2. simpl mt in A1, A2.
    assert (Sq1 : nr (denote e1) = nc (denote e1)) by (rewrite D1; reflexivity).
    assert (Sq2 : nr (denote e2) = nc (denote e2)) by (rewrite D2; reflexivity).
    assert (Sy1 : dtr (denote e1) == denote e1) by (rewrite D1; apply dmm_AAt_sym).
    assert (Sy2 : dtr (denote e2) == denote e2) by (rewrite D2; apply dmm_AAt_sym).
    match goal with HE : bsh (denote e1) = bsh (denote e2) |- _ => pose proof HE as HBs end.
    cbn [denote]. eapply acts_eq; [apply BTeq_sym; apply (gram_sym_mt tf); [exact Sy1|exact Sy2|rewrite HBs; apply bcompat_refl|congruence|congruence]|].
    cbn [mm denote sz]. rewrite (sz_correct e1) by assumption. unfold shp, sz_b. cbn [fst].
    destruct (root_cols e1 <? root_cols e2)%nat.
    + eapply acts_eq; [apply dhad_comm; [rewrite HBs; apply bcompat_refl|congruence|congruence]|].
      apply acts_mul_case; try assumption; congruence.
    + rewrite HBs. apply acts_mul_case; try assumption.
  - (* ConstantMul *) ihs. cbn [mm denote].
    eapply acts_eq; [|apply (acts_dscale (mm tf e) (mt tf (denote e)) c); [useih|rewrite mt_shape; assumption]].
    destruct tf; simpl; [apply BTeq_sym; apply dtr_dscale|apply BTeq_refl].
  - (* BlockDiag *) ihs. cbn [mm denote].
    destruct (bsh (denote e)) as [|k bs] eqn:HS; [discriminate|].
    unfold pos in *. repeat match goal with HH : (0 <? _)%nat = true |- _ => apply Nat.ltb_lt in HH end.
    destruct (is_diag_cls e) eqn:HD.
    + (* metaclass: a DiagLinearOperator *)
      destruct (diagv_correct e) as [HV HV1]; [assumption|assumption|].
      destruct (BTeq_shape _ _ HV) as (v1 & v2 & v3). simpl in v1, v2, v3.
      assert (HF : dblockdiag (denote e) == ddiag (flatten_diag (diagv e))).
      { eapply BTeq_trans; [apply dblockdiag_eq; exact HV|]. apply (flatten_ddiag (diagv e) k bs); congruence. }
      eapply acts_eq; [apply mt_eq; apply BTeq_sym; exact HF|].
      apply acts_sym_mt; [apply dtr_ddiag|]. apply acts_diag_fr. unfold flatten_diag. rewrite <- v1, HS. reflexivity.
    + rewrite (blocks_of_sz e k bs) by assumption.
      eapply acts_eq; [|apply (acts_blockdiag (mm tf e) (mt tf (denote e)) k bs); [rewrite mt_shape; exact HS|assumption| | |useih]].
      * destruct tf; simpl; [apply BTeq_sym; apply dtr_dblockdiag|apply BTeq_refl].
      * destruct (mt_dims tf (denote e)) as [E1 E2]. rewrite E1. destruct tf; congruence.
      * destruct (mt_dims tf (denote e)) as [E1 E2]. rewrite E2. destruct tf; congruence.
  - (* BlockInterleaved *) ihs. cbn [mm denote].
    destruct (bsh (denote e)) as [|k bs] eqn:HS; [discriminate|].
    rewrite (blocks_of_sz e k bs) by assumption.
    unfold pos in *. repeat match goal with HH : (0 <? _)%nat = true |- _ => apply Nat.ltb_lt in HH end.
    eapply acts_eq; [|apply (acts_blockinter (mm tf e) (mt tf (denote e)) k bs); [rewrite mt_shape; exact HS|assumption|useih]].
    destruct tf; simpl; [apply BTeq_sym; apply dtr_dblockinter|apply BTeq_refl].
  - (* SumBatch *) ihs. cbn [mm denote].
    destruct (bsh (denote e)) as [|k bs] eqn:HS; [discriminate|].
    rewrite (blocks_of_sz e k bs) by assumption.
    unfold pos in *. repeat match goal with HH : (0 <? _)%nat = true |- _ => apply Nat.ltb_lt in HH end.
    eapply acts_eq; [|apply (acts_sumbatch (mm tf e) (mt tf (denote e)) k bs); [rewrite mt_shape; exact HS|assumption|useih]].
    destruct tf; simpl; [apply BTeq_sym; apply dtr_dsumbatch|apply BTeq_refl].
  - (* BatchRepeat *) ihs. intros X HX. cbn [mm denote sz]. rewrite (sz_correct e) by assumption. unfold shp, sz_b, sz_m, sz_n. cbn [fst snd].
    assert (HA : acts (mm tf e) (mt tf (denote e))) by useih.
    assert (HE : drepeat (mt tf (denote e)) rep == mt tf (drepeat (denote e) rep)).
    { destruct tf; simpl; [apply BTeq_sym; apply dtr_drepeat|apply BTeq_refl]. }
    destruct (Nat.eqb (nr (denote e)) (nc (denote e))) eqn:ESq.
    + (* is_square: the repeated batches are folded into columns *)
      pose proof (acts_batchrepeat_square (mm tf e) (mt tf (denote e)) rep HA) as HL.
      rewrite mt_shape in HL. specialize (HL ltac:(assumption) ltac:(apply Nat.leb_le; assumption)).
      apply (acts_eq _ _ _ HE HL X HX).
    + (* rectangular: broadcasting of the base product; right when no batch dimension of size > 1 is really repeated *)
      match goal with HO : _ || _ = true |- _ => simpl in HO end.
      pose proof (acts_batchrepeat_rect (mm tf e) (mt tf (denote e)) rep HA) as HL.
      rewrite mt_shape in HL. specialize (HL ltac:(assumption) ltac:(apply Nat.leb_le; assumption) ltac:(assumption)).
      apply (acts_eq _ _ _ HE HL X HX).
  - (* Cat *) destruct ops as [|x ops]; [discriminate|]. destruct ops as [|x2 ops]; [discriminate|].
    assert (HA : forall y, In y (x :: x2 :: ops) -> forall t, acts (mm t y) (mt t (denote y))).
    { intros y Hy t'. rewrite Forall_forall in H. apply (H y Hy); [eapply wfb_all_in; eauto|eapply covered_all_in; eauto]. }
    destruct d; [apply acts_cat_rowsdir; assumption|apply acts_cat_colsdir; assumption|].
    apply acts_cat_batchdir; [|assumption|exact HA].
    unfold wf. cbn [wfb]. apply andb_true_iff; split; assumption.
  - (* Interpolated *) ihs. cbn [mm denote]. rewrite (sz_correct e) by assumption. unfold shp, sz_m, sz_n. cbn [fst snd].
    set (K := denote e) in *. set (Wl := dinterp li lv (nr K)). set (Wr := dinterp ri rv (nc K)).
    assert (B1 : bsh Wr = bsh Wl) by (unfold Wl, Wr; simpl; assumption).
    assert (B2 : bsub (bsh K) (bsh Wl) = true) by (unfold Wl; simpl; assumption).
    destruct (BTeq_shape _ _ (fr_eq Wl)) as (l1 & l2 & l3). destruct (BTeq_shape _ _ (fr_eq Wr)) as (r1 & r2 & r3).
    destruct tf; simpl mt.
    + eapply acts_eq; [|apply (acts_interp (mm true e) (dtr K) (fr Wr) (fr Wl)); [useih|rewrite r3; reflexivity|rewrite l3; reflexivity|congruence|rewrite r1, B1; exact B2]].
      eapply BTeq_trans; [apply (interp_meaning_eq Wr (fr Wr) (dtr K) Wl (fr Wl)); try apply fr_eq; try reflexivity; [congruence|rewrite B1; exact B2]|].
      apply BTeq_sym. apply dtr_interp; try reflexivity; assumption.
    + eapply acts_eq; [|apply (acts_interp (mm false e) K (fr Wl) (fr Wr)); [useih|rewrite l3; reflexivity|rewrite r3; reflexivity|congruence|rewrite l1; exact B2]].
      apply interp_meaning_eq; try apply fr_eq; try reflexivity; assumption.
  - (* Masked *) ihs. cbn [mm denote]. destruct tf; simpl mt.
    + eapply acts_eq; [apply BTeq_sym; apply dtr_dmask|]. apply (acts_masked (mm true e) (dtr (denote e)) cm rm); try assumption. useih.
    + apply (acts_masked (mm false e) (denote e) rm cm); try assumption. useih.
  - (* Permutation *) cbn [mm denote]. destruct tf; simpl mt; [apply acts_perm_inv|apply acts_perm]; assumption.
  - (* TransposePermutation *) simpl. apply acts_sym_mt; [apply dtr_dtransperm|apply acts_transperm].
  - (* Kernel *) cbn [mm denote]. destruct tf; simpl mt; [|apply acts_dmm].
    eapply acts_eq; [apply BTeq_sym; apply dtr_dkernel; assumption|apply acts_dmm].
  - (* UserMinimal *) apply acts_dmm.
Qed.
