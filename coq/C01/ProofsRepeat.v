(* C01.ProofsRepeat — BatchRepeatLinearOperator: folding the repeated batch dimensions into columns. *)
From Coq Require Import List ZArith Lia Bool Arith.
Import ListNotations.
Require Import C01.Sums C01.Batch C01.Tensor C01.OpExpr C01.Model.
Require Import C01.Covered C01.ProofsBase C01.ProofsAlg.
Open Scope Z_scope.

(* Bout = rp * pbs dimension-wise, all pbs dimensions positive *)
Fixpoint tiles (pbs rp Bout : shape) : Prop :=
  match pbs, rp, Bout with
  | [], [], [] => True
  | d :: p, r :: rp', o :: B' => (0 < d)%nat /\ o = (r * d)%nat /\ tiles p rp' B'
  | _, _, _ => False
  end.

Lemma tiles_mod pbs : forall rp Bout I, tiles pbs rp Bout -> inb Bout I -> inb pbs (bmodi pbs I).
Proof.
  induction pbs as [|d p IH]; intros [|r rp] [|o B] [|i I]; simpl; try tauto.
  intros (H1 & H2 & H3) (H4 & H5). split; [apply Nat.mod_upper_bound; lia|eapply IH; eauto].
Qed.

Lemma tiles_div pbs : forall rp Bout I, tiles pbs rp Bout -> inb Bout I -> inb rp (bdivi pbs I).
Proof.
  induction pbs as [|d p IH]; intros [|r rp] [|o B] [|i I]; simpl; try tauto.
  intros (H1 & H2 & H3) (H4 & H5). split; [apply Nat.div_lt_upper_bound; nia|eapply IH; eauto].
Qed.

Lemma tiles_comb pbs : forall rp Bout I, tiles pbs rp Bout -> inb Bout I -> bcomb pbs (bdivi pbs I) (bmodi pbs I) = I.
Proof.
  induction pbs as [|d p IH]; intros [|r rp] [|o B] [|i I]; simpl; try tauto.
  intros (H1 & H2 & H3) (H4 & H5). f_equal; [|eapply IH; eauto].
  rewrite (Nat.div_mod i d) at 3 by lia. lia.
Qed.

(* all-ones padding *)
Lemma tiles_ones B : tiles (bpad_to [] B) (bquot B (bpad_to [] B)) B.
Proof. induction B as [|o B IH]; cbn [bpad_to bquot tiles]; [exact I|]. rewrite Nat.div_1_r. repeat split; [lia|lia|exact IH]. Qed.

Lemma bcast_cons_nil_r a : bcast a [] = a.
Proof. destruct a; reflexivity. Qed.

Lemma tiles_repeat bs : forall rep xs, forallb pos bs = true -> (length bs <= length rep)%nat ->
  let Bout := bcast (brep bs rep) xs in
  tiles (bpad_to bs Bout) (bquot Bout (bpad_to bs Bout)) Bout.
Proof.
  induction bs as [|s bs IH]; intros rep xs HP HL.
  - cbn [brep]. apply tiles_ones.
  - destruct rep as [|r rep]; [simpl in HL; lia|]. simpl in HP. apply andb_true_iff in HP. destruct HP as [Hs HP].
    unfold pos in Hs. apply Nat.ltb_lt in Hs. simpl in HL.
    destruct xs as [|x xs]; cbn [brep bcast bpad_to bquot tiles].
    + split; [exact Hs|]. split; [replace ((s * r) / s)%nat with r by (rewrite Nat.mul_comm, Nat.div_mul; lia); lia|].
      specialize (IH rep [] HP ltac:(lia)). rewrite bcast_cons_nil_r in IH. exact IH.
    + split; [exact Hs|]. split.
      * destruct (Nat.eqb_spec (s * r) 1) as [E1|E1]; [destruct (proj1 (Nat.eq_mul_1 s r) E1) as [Es Er]; subst; rewrite Nat.div_1_r; lia|replace ((s * r) / s)%nat with r by (rewrite Nat.mul_comm, Nat.div_mul; lia); lia].
      * apply IH; [exact HP|lia].
Qed.

(* reading the base at I mod pbs = reading the repeated tensor at I *)
Lemma repeat_index bs : forall rep xs I, forallb pos bs = true -> (length bs <= length rep)%nat ->
  let Bout := bcast (brep bs rep) xs in
  inb Bout I -> bproj bs (bmodi (bpad_to bs Bout) I) = bmod bs (bproj (brep bs rep) I).
Proof.
  induction bs as [|s bs IH]; intros rep xs I HP HL; simpl; [reflexivity|].
  destruct rep as [|r rep]; [simpl in HL; lia|]. simpl in HP. apply andb_true_iff in HP. destruct HP as [Hs HP].
  unfold pos in Hs. apply Nat.ltb_lt in Hs. simpl in HL.
  destruct xs as [|x xs]; destruct I as [|i I]; simpl; try tauto.
  - intros [Hi HI]. f_equal.
    + destruct (Nat.eqb_spec s 1); [subst; rewrite Nat.mod_1_r; destruct (Nat.eqb_spec (1 * r) 1); reflexivity|].
      destruct (Nat.eqb_spec (s * r) 1) as [E1|E1]; [destruct (proj1 (Nat.eq_mul_1 s r) E1); lia|reflexivity].
    + specialize (IH rep [] I HP ltac:(lia)). rewrite bcast_cons_nil_r in IH. apply IH. exact HI.
  - intros [Hi HI]. f_equal.
    + destruct (Nat.eqb_spec s 1); [subst; rewrite Nat.mod_1_r; destruct (Nat.eqb_spec (1 * r) 1); reflexivity|].
      destruct (Nat.eqb_spec (s * r) 1) as [E1|E1]; [destruct (proj1 (Nat.eq_mul_1 s r) E1); lia|reflexivity].
    + apply (IH rep xs I HP ltac:(lia)). exact HI.
Qed.

Lemma bpad_to_sub bs : forall B, (length bs <= length B)%nat -> bsub bs (bpad_to bs B) = true.
Proof.
  induction bs as [|s bs IH]; intros B HL; [reflexivity|]. destruct B as [|o B]; [simpl in HL; lia|]. simpl.
  rewrite Nat.eqb_refl, orb_true_r. simpl. apply IH. simpl in HL. lia.
Qed.

Lemma bpad_to_length bs : forall B, length (bpad_to bs B) = length B.
Proof. intros B. revert bs. induction B as [|o B IH]; intros bs; [reflexivity|]. simpl. destruct bs; simpl; rewrite IH; reflexivity. Qed.

Lemma brep_length bs : forall rep, (length bs <= length rep)%nat -> length (brep bs rep) = length rep.
Proof.
  induction bs as [|s bs IH]; intros rep HL; [reflexivity|]. destruct rep as [|r rep]; [simpl in HL; lia|]. simpl. rewrite IH; [reflexivity|simpl in HL; lia].
Qed.

(* the square branch of BatchRepeatLinearOperator._matmul *)
Lemma acts_batchrepeat_square g B rep :
  acts g B -> forallb pos (bsh B) = true -> (length (bsh B) <= length rep)%nat ->
  acts (fun X => let Bout := bcast (brep (bsh B) rep) (bsh X) in
                 let pbs := bpad_to (bsh B) Bout in
                 let rp := bquot Bout pbs in
                 brep_back pbs rp Bout (nc X) (fr (g (fr (brep_to_cols pbs rp (nc X) (dexpand Bout X))))))
       (drepeat B rep).
Proof.
  intros HG HP HL X [H1 H2]. simpl in H1, H2. cbv beta zeta.
  set (bs := bsh B) in *. set (Bout := bcast (brep bs rep) (bsh X)).
  set (pbs := bpad_to bs Bout). set (rp := bquot Bout pbs). set (c := nc X). set (Rn := bnumel rp).
  assert (HT : tiles pbs rp Bout) by (apply tiles_repeat; assumption).
  assert (HLen : (length bs <= length Bout)%nat).
  { unfold Bout. rewrite bcast_length, brep_length by exact HL. lia. }
  assert (HSub : bsub bs pbs = true) by (apply bpad_to_sub; exact HLen).
  set (Y := brep_to_cols pbs rp c (dexpand Bout X)).
  assert (HZ : fr (g (fr Y)) == dmm B Y).
  { apply fr_eq'. eapply BTeq_trans.
    - apply HG. split; [simpl; exact H1|simpl; apply bsub_bcompat; exact HSub].
    - apply dmm_eq_r; [simpl; apply bsub_bcompat; exact HSub|simpl; exact H1|apply fr_eq]. }
  set (Z := fr (g (fr Y))) in *. clearbody Z.
  destruct HZ as (z1 & z2 & z3 & z4). simpl in z1, z2, z3. fold bs in z1. rewrite (bsub_bcast_eq _ _ HSub) in z1.
  unfold brep_back, dmm, drepeat. fold bs Rn. unfold BTeq. cbn [bsh nr nc ent].
  split; [reflexivity|]. split; [exact z2|]. split; [reflexivity|].
  intros I i col HI Hi Hcol. rewrite z2 in Hi.
  assert (T1 := tiles_mod _ _ _ I HT HI). assert (T2 := tiles_div _ _ _ I HT HI). assert (T3 := tiles_comb _ _ _ I HT HI).
  assert (HF : (bflat rp (bdivi pbs I) < Rn)%nat) by (apply bflat_lt; exact T2).
  rewrite z4; [|rewrite z1; exact T1|rewrite z2; exact Hi|rewrite z3; unfold Rn in *; nia].
  cbn [dmm ent]. apply zsum_ext. intros l Hl. f_equal.
  - unfold bget. cbn [bsh ent drepeat]. fold bs. f_equal. apply (repeat_index bs rep (bsh X) I HP HL HI).
  - unfold bget at 1. cbn [bsh ent Y brep_to_cols]. rewrite (bproj_id pbs _ T1). fold Rn.
    destruct (divmod_mul_add col Rn _ HF) as [D1 D2]. rewrite D1, D2.
    rewrite (bunflat_bflat rp _ T2), T3. reflexivity.
Qed.

Lemma bmod_inb bs : forall I, forallb pos bs = true -> inb bs (bmod bs I).
Proof.
  induction bs as [|s bs IH]; intros I HP; [destruct I; exact Logic.I|]. simpl in HP. apply andb_true_iff in HP. destruct HP as [Hs HP].
  unfold pos in Hs. apply Nat.ltb_lt in Hs. destruct I as [|i I]; simpl; (split; [|apply IH; exact HP]); [lia|apply Nat.mod_upper_bound; lia].
Qed.

Lemma drepeat_eq A A' rep : forallb pos (bsh A) = true -> A == A' -> drepeat A rep == drepeat A' rep.
Proof.
  intros HP (e1 & e2 & e3 & e4). unfold drepeat. rewrite <- e1. repeat split; simpl; try assumption.
  intros I i j HI Hi Hj. apply e4; [apply bmod_inb; exact HP|assumption|assumption].
Qed.

Lemma dtr_drepeat A rep : dtr (drepeat A rep) == drepeat (dtr A) rep.
Proof. repeat split. Qed.

(* ---- the broadcasting branch (rectangular base), when no batch dimension of size > 1 is really repeated ------------- *)

Lemma notile_sub bs : forall rep, notile bs rep = true -> (length bs <= length rep)%nat -> bsub bs (brep bs rep) = true.
Proof.
  induction bs as [|d bs IH]; intros rep HN HL; [reflexivity|]. destruct rep as [|r rep]; [simpl in HL; lia|].
  simpl in *. apply andb_true_iff in HN. destruct HN as [H1 H2]. rewrite (IH rep H2 ltac:(lia)), andb_true_r.
  apply orb_true_iff in H1. destruct H1 as [H1|H1]; apply Nat.eqb_eq in H1; subst.
  - reflexivity.
  - rewrite Nat.mul_1_r, Nat.eqb_refl. apply orb_true_r.
Qed.

Lemma bsub_bcompat_trans a c x : bsub a c = true -> bcompat c x = true -> bcompat a x = true.
Proof.
  revert c x; induction a as [|u a IH]; intros c x HS HC; [reflexivity|].
  destruct c as [|v c]; [discriminate|]. destruct x as [|w x]; [reflexivity|].
  simpl in *. apply andb_true_iff in HS. destruct HS as [S1 S2]. apply andb_true_iff in HC. destruct HC as [C1 C2].
  rewrite (IH c x S2 C2), andb_true_r.
  apply sub_spec in S1. apply cpt_spec in C1. apply cpt_spec. lia.
Qed.

Lemma notile_index bs : forall rep xs I, forallb pos bs = true -> (length bs <= length rep)%nat -> notile bs rep = true ->
  inb (bcast (brep bs rep) xs) I -> bmod bs (bproj (brep bs rep) I) = bproj bs I.
Proof.
  induction bs as [|s bs IH]; intros rep xs I HP HL HN; simpl; [reflexivity|].
  destruct rep as [|r rep]; [simpl in HL; lia|]. simpl in HP, HN, HL.
  apply andb_true_iff in HP. destruct HP as [Hs HP]. apply andb_true_iff in HN. destruct HN as [HN1 HN].
  unfold pos in Hs. apply Nat.ltb_lt in Hs.
  assert (Hcomp : forall i, (s = 1 \/ (r = 1 /\ i < s))%nat -> ((if (s * r =? 1)%nat then 0 else i) mod s = if (s =? 1)%nat then 0 else i)%nat).
  { intros i [->|[-> Hi]].
    - rewrite Nat.mod_1_r. reflexivity.
    - rewrite Nat.mul_1_r. destruct (Nat.eqb_spec s 1); [subst; reflexivity|]. apply Nat.mod_small. exact Hi. }
  apply orb_true_iff in HN1.
  destruct xs as [|x xs]; destruct I as [|i I]; simpl; try tauto.
  - intros [Hi HI]. f_equal.
    + apply Hcomp. destruct (Nat.eqb_spec s 1) as [E1|E1]; [left; exact E1|right].
      destruct HN1 as [E|E]; [try discriminate E; apply Nat.eqb_eq in E; contradiction|apply Nat.eqb_eq in E]. subst r. split; [reflexivity|lia].
    + specialize (IH rep [] I HP ltac:(lia) HN). rewrite bcast_cons_nil_r in IH. apply IH. exact HI.
  - intros [Hi HI]. f_equal.
    + apply Hcomp. destruct (Nat.eqb_spec s 1) as [E1|E1]; [left; exact E1|right].
      destruct HN1 as [E|E]; [try discriminate E; apply Nat.eqb_eq in E; contradiction|apply Nat.eqb_eq in E]. subst r. split; [reflexivity|].
      rewrite Nat.mul_1_r in Hi. destruct (Nat.eqb_spec s 1); [contradiction|exact Hi].
    + apply (IH rep xs I HP ltac:(lia) HN). exact HI.
Qed.

Lemma acts_batchrepeat_rect g B rep :
  acts g B -> forallb pos (bsh B) = true -> (length (bsh B) <= length rep)%nat -> notile (bsh B) rep = true ->
  acts (fun X => dexpand (bcast (brep (bsh B) rep) (bsh X)) (g X)) (drepeat B rep).
Proof.
  intros HG HP HL HN X [H1 H2]. simpl in H1, H2.
  set (bs := bsh B) in *. set (S := brep bs rep) in *. set (Bout := bcast S (bsh X)).
  assert (HsubS : bsub bs S = true) by (apply notile_sub; assumption).
  assert (HCB : bcompat bs (bsh X) = true) by (eapply bsub_bcompat_trans; eauto).
  assert (HgX : g X == dmm B X) by (apply HG; split; assumption).
  assert (SS : bsub S Bout = true) by (apply bsub_bcast_l; exact H2).
  assert (SX : bsub (bsh X) Bout = true) by (apply bsub_bcast_r; exact H2).
  assert (SB : bsub bs Bout = true) by (eapply bsub_trans; eauto).
  assert (SBX : bsub (bcast bs (bsh X)) Bout = true) by (apply (proj1 (bsub_lub _ _ _ SB SX))).
  destruct (BTeq_shape _ _ HgX) as (g1 & g2 & g3). simpl in g1, g2, g3. fold bs in g1.
  unfold dexpand, dmm, drepeat. fold bs S Bout. unfold BTeq. cbn [bsh nr nc ent].
  split; [reflexivity|]. split; [exact g2|]. split; [exact g3|].
  intros I i j HI Hi Hj.
  rewrite (BTeq_bget (g X) (dmm B X) Bout I i j HgX); [|rewrite g1; exact SBX|exact HI|exact Hi|exact Hj].
  unfold bget at 1. cbn [dmm bsh ent]. fold bs.
  apply zsum_ext. intros l Hl. f_equal.
  - unfold bget. cbn [bsh ent]. fold bs S. rewrite bproj_bproj by (apply bsub_bcast_l; exact HCB).
    f_equal. symmetry. apply (notile_index bs rep (bsh X) I HP HL HN HI).
  - unfold bget. rewrite bproj_bproj by (apply bsub_bcast_r; exact HCB). reflexivity.
Qed.
