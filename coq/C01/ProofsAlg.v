(* C01.ProofsAlg — sums, scalings, products: the compositional operator classes. *)
From Coq Require Import List ZArith Lia Bool Arith.
Import ListNotations.
Require Import C01.Sums C01.Batch C01.Tensor C01.OpExpr C01.Model C01.ProofsBase.
Open Scope Z_scope.

Ltac dim_case :=
  repeat match goal with
         | |- context [Nat.eqb ?x ?y] => destruct (Nat.eqb_spec x y)
         | H : context [Nat.eqb ?x ?y] |- _ => destruct (Nat.eqb_spec x y)
         end; simpl in *; try congruence; try lia; try discriminate.

Lemma bcast_dist a b x : bcompat a b = true -> bcompat a x = true -> bcompat b x = true ->
  bcast (bcast a x) (bcast b x) = bcast (bcast a b) x.
Proof.
  revert b x; induction a as [|p a IH]; intros b x HAB HAX HBX.
  - simpl. rewrite (bcast_comm b x HBX). apply bcast_absorb_l.
  - destruct b as [|q b].
    + rewrite bcast_nil_r. simpl (bcast [] x). apply bcast_absorb.
    + destruct x as [|r x].
      * rewrite !bcast_nil_r. reflexivity.
      * simpl in *. rewrite !andb_true_iff in *. destruct HAB as [H1 H2], HAX as [H3 H4], HBX as [H5 H6].
        rewrite IH by assumption. f_equal. apply cpt_spec in H1, H3, H5. dim_case.
Qed.

(* ---- sums ------------------------------------------------------------------------------------- *)

Lemma dadd_eq A A' B B' : bcompat (bsh A) (bsh B) = true -> nr B = nr A -> nc B = nc A ->
  A == A' -> B == B' -> dadd A B == dadd A' B'.
Proof.
  intros HC HR HN HA HB. pose proof HA as (a1 & a2 & a3 & a4). pose proof HB as (b1 & b2 & b3 & b4).
  unfold dadd. repeat split; simpl; try congruence.
  intros I i j HI Hi Hj. f_equal.
  - eapply BTeq_bget; eauto. apply bsub_bcast_l; exact HC.
  - eapply BTeq_bget; eauto; [apply bsub_bcast_r; exact HC|lia|lia].
Qed.

(* (A + B) X = A X + B X *)
Lemma dmm_dadd_l A B X :
  nr B = nr A -> nc B = nc A -> bcompat (bsh A) (bsh B) = true -> bcompat (bcast (bsh A) (bsh B)) (bsh X) = true ->
  dmm (dadd A B) X == dadd (dmm A X) (dmm B X).
Proof.
  intros HR HN HC HCX. destruct (proj1 (bcompat_bcast_l _ _ _ HC) HCX) as [HAX HBX].
  unfold dmm, dadd. repeat split; simpl; [symmetry; apply bcast_dist; assumption|].
  intros I i j HI Hi Hj.
  set (BB := bcast (bcast (bsh A) (bsh B)) (bsh X)) in *.
  assert (SAB : bsub (bcast (bsh A) (bsh B)) BB = true) by (apply bsub_bcast_l; assumption).
  assert (SX : bsub (bsh X) BB = true) by (apply bsub_bcast_r; assumption).
  assert (SA : bsub (bsh A) BB = true) by (apply (bsub_trans _ _ _ (bsub_bcast_l _ _ HC) SAB)).
  assert (SB : bsub (bsh B) BB = true) by (apply (bsub_trans _ _ _ (bsub_bcast_r _ _ HC) SAB)).
  assert (SAX : bsub (bcast (bsh A) (bsh X)) BB = true) by (apply (proj1 (bsub_lub _ _ _ SA SX))).
  assert (SBX : bsub (bcast (bsh B) (bsh X)) BB = true) by (apply (proj1 (bsub_lub _ _ _ SB SX))).
  pose proof (bsub_bcast_l _ _ HC) as SA'. pose proof (bsub_bcast_r _ _ HC) as SB'.
  pose proof (bsub_bcast_l _ _ HAX) as SA2. pose proof (bsub_bcast_r _ _ HAX) as SX2.
  pose proof (bsub_bcast_l _ _ HBX) as SB3. pose proof (bsub_bcast_r _ _ HBX) as SX3.
  unfold bget. simpl. rewrite HN, <- zsum_add. apply zsum_ext. intros l Hl.
  rewrite !bproj_bproj by assumption. ring.
Qed.

Lemma bcompat_bcast3 a b x : bcompat a b = true -> bcompat a x = true -> bcompat b x = true ->
  bcompat (bcast a x) (bcast b x) = true.
Proof.
  intros H1 H2 H3. apply bcompat_bcast_l; [assumption|]. split.
  - apply bcompat_bcast_r; [assumption|]. split; assumption.
  - apply bcompat_bcast_self_r. assumption.
Qed.

Lemma acts_dadd f g A B :
  acts f A -> acts g B -> nr B = nr A -> nc B = nc A -> bcompat (bsh A) (bsh B) = true ->
  acts (fun X => dadd (f X) (g X)) (dadd A B).
Proof.
  intros HF HG HR HN HC X [H1 H2]. simpl in H1, H2.
  destruct (proj1 (bcompat_bcast_l _ _ _ HC) H2) as [HAX HBX].
  assert (Hf : f X == dmm A X) by (apply HF; split; assumption).
  assert (Hg : g X == dmm B X) by (apply HG; split; [congruence|assumption]).
  destruct (BTeq_shape _ _ Hf) as (S1 & S2 & S3). destruct (BTeq_shape _ _ Hg) as (T1 & T2 & T3). simpl in *.
  eapply BTeq_trans; [apply dadd_eq; [| | |exact Hf|exact Hg]|]; try congruence.
  - rewrite S1, T1. apply bcompat_bcast3; assumption.
  - apply BTeq_sym. apply dmm_dadd_l; assumption.
Qed.

(* ---- lists of summands ------------------------------------------------------------------------- *)

Fixpoint pwc (l : list shape) : bool :=
  match l with [] => true | x :: r => forallb (fun y => bcompat x y) r && pwc r end.

Definition dims_as (A : BT) (l : list BT) : bool :=
  forallb (fun B => Nat.eqb (nr B) (nr A) && Nat.eqb (nc B) (nc A)) l.

Lemma bsh_dsuml l : bsh (dsuml l) = bcast_all (map bsh l).
Proof. unfold dsuml, bcast_all. simpl. induction l; simpl; [reflexivity|]. rewrite IHl. reflexivity. Qed.

(* x compatible with every member  ->  compatible with their broadcast *)
Lemma bcompat_bcast_all x l : pwc l = true -> forallb (fun y => bcompat x y) l = true -> bcompat x (bcast_all l) = true.
Proof.
  revert x; induction l as [|a l IH]; simpl; intros x HP HF; [apply bcompat_nil_r|].
  apply andb_true_iff in HP. destruct HP as [HP1 HP2]. apply andb_true_iff in HF. destruct HF as [HF1 HF2].
  apply bcompat_bcast_r; [apply IH; assumption|]. split; [assumption|apply IH; assumption].
Qed.

Lemma bcompat_bcast_all_inv x l : pwc l = true -> bcompat (bcast_all l) x = true -> forallb (fun y => bcompat y x) l = true.
Proof.
  induction l as [|a l IH]; simpl; intros HP HC; [reflexivity|].
  apply andb_true_iff in HP. destruct HP as [HP1 HP2].
  apply bcompat_bcast_l in HC; [|apply bcompat_bcast_all; assumption]. destruct HC as [H1 H2].
  rewrite H1. simpl. apply IH; assumption.
Qed.

Lemma bsub_bcast_all a l : pwc l = true -> In a l -> bsub a (bcast_all l) = true.
Proof.
  induction l as [|b l IH]; simpl; intros HP HI; [contradiction|].
  apply andb_true_iff in HP. destruct HP as [HP1 HP2].
  assert (HC : bcompat b (bcast_all l) = true) by (apply bcompat_bcast_all; assumption).
  destruct HI as [<-|HI]; [apply bsub_bcast_l; exact HC|].
  eapply bsub_trans; [apply IH; assumption|apply bsub_bcast_r; exact HC].
Qed.

Lemma pwc_bcast_x l x : pwc l = true -> forallb (fun y => bcompat y x) l = true -> pwc (map (fun y => bcast y x) l) = true.
Proof.
  induction l as [|a l IH]; simpl; intros HP HF; [reflexivity|].
  apply andb_true_iff in HP. destruct HP as [HP1 HP2]. apply andb_true_iff in HF. destruct HF as [HF1 HF2].
  rewrite IH by assumption. rewrite andb_true_r.
  rewrite forallb_forall in *. intros y Hy. apply in_map_iff in Hy. destruct Hy as [b [<- Hb]].
  apply bcompat_bcast3; auto.
Qed.

(* dsuml (A :: l) = A + dsuml l *)
Lemma dsuml_cons A l : pwc (map bsh l) = true -> dsuml (A :: l) == dadd A (dsuml l).
Proof.
  intros HP. unfold dadd. repeat split; simpl.
  intros I i j HI Hi Hj. f_equal. unfold bget at 2. simpl.
  f_equal. apply map_ext_in. intros B HB. unfold bget. f_equal.
  symmetry. apply bproj_bproj.
  change (fold_right (fun A0 s => bcast (bsh A0) s) [] l) with (bsh (dsuml l)). rewrite bsh_dsuml.
  apply bsub_bcast_all; [exact HP|apply in_map; exact HB].
Qed.

Lemma dsuml_one A : dsuml [A] == A.
Proof.
  unfold dsuml. repeat split; simpl; [apply bcast_nil_r|].
  intros I i j HI Hi Hj. rewrite bcast_nil_r in HI. rewrite bget_in by assumption. ring.
Qed.

(* right-nested binary sums *)
Fixpoint dsumr (l : list BT) : BT :=
  match l with [] => dzero [] 0 0 | [A] => A | A :: r => dadd A (dsumr r) end.

Lemma dims_as_trans A B l : nr B = nr A -> nc B = nc A -> dims_as A l = true -> dims_as B l = true.
Proof.
  intros H1 H2 H. unfold dims_as in *. rewrite forallb_forall in *. intros C HC. specialize (H C HC).
  bsplit. apply andb_true_iff; split; apply Nat.eqb_eq; congruence.
Qed.

Lemma dsumr_shape A l : dims_as A l = true -> bsh (dsumr (A :: l)) = bcast_all (map bsh (A :: l)) /\ nr (dsumr (A :: l)) = nr A /\ nc (dsumr (A :: l)) = nc A.
Proof.
  revert A; induction l as [|B l IH]; intros A HD; simpl in *; [rewrite bcast_nil_r; auto|].
  apply andb_true_iff in HD. destruct HD as [HD1 HD2]. bsplit.
  assert (HD' : dims_as B l = true) by (eapply dims_as_trans; eauto).
  destruct (IH B HD') as (S1 & S2 & S3). simpl in S1. rewrite S1. auto.
Qed.

Lemma dsuml_dsumr A l : dims_as A l = true -> pwc (map bsh (A :: l)) = true -> dsuml (A :: l) == dsumr (A :: l).
Proof.
  revert A; induction l as [|B l IH]; intros A HD HP; [apply dsuml_one|].
  change (pwc (map bsh (A :: B :: l))) with (forallb (fun y => bcompat (bsh A) y) (map bsh (B :: l)) && pwc (map bsh (B :: l))) in HP.
  apply andb_true_iff in HP. destruct HP as [HP1 HP2].
  change (dims_as A (B :: l)) with ((Nat.eqb (nr B) (nr A) && Nat.eqb (nc B) (nc A)) && dims_as A l) in HD.
  apply andb_true_iff in HD. destruct HD as [HD1 HD2]. bsplit.
  assert (HD' : dims_as B l = true) by (eapply dims_as_trans; eauto).
  eapply BTeq_trans; [apply dsuml_cons; exact HP2|].
  change (dsumr (A :: B :: l)) with (dadd A (dsumr (B :: l))).
  destruct (dsumr_shape B l HD') as (S1 & S2 & S3).
  apply dadd_eq.
  - rewrite bsh_dsuml. apply bcompat_bcast_all; [exact HP2|exact HP1].
  - simpl. assumption.
  - simpl. assumption.
  - apply BTeq_refl.
  - apply IH; assumption.
Qed.

Lemma acts_dsumr {T} (l : list T) (f : T -> BT -> BT) (D : T -> BT) a :
  (forall x, In x (a :: l) -> acts (f x) (D x)) ->
  dims_as (D a) (map D l) = true -> pwc (map (fun x => bsh (D x)) (a :: l)) = true ->
  acts (fun X => dsumr (map (fun x => f x X) (a :: l))) (dsumr (map D (a :: l))).
Proof.
  revert a; induction l as [|b l IH]; intros a HA HD HP.
  - simpl. apply HA. left; reflexivity.
  - change (pwc (map (fun x => bsh (D x)) (a :: b :: l)))
      with (forallb (fun y => bcompat (bsh (D a)) y) (map (fun x => bsh (D x)) (b :: l)) && pwc (map (fun x => bsh (D x)) (b :: l))) in HP.
    apply andb_true_iff in HP. destruct HP as [HP1 HP2].
    change (dims_as (D a) (map D (b :: l))) with ((Nat.eqb (nr (D b)) (nr (D a)) && Nat.eqb (nc (D b)) (nc (D a))) && dims_as (D a) (map D l)) in HD.
    apply andb_true_iff in HD. destruct HD as [HD1 HD2]. bsplit.
    assert (HD' : dims_as (D b) (map D l) = true) by (eapply dims_as_trans; eauto).
    destruct (dsumr_shape (D b) (map D l) HD') as (S1 & S2 & S3).
    change (dsumr (map D (a :: b :: l))) with (dadd (D a) (dsumr (map D (b :: l)))).
    change (fun X => dsumr (map (fun x => f x X) (a :: b :: l)))
      with (fun X => dadd (f a X) ((fun X => dsumr (map (fun x => f x X) (b :: l))) X)).
    apply acts_dadd.
    + apply HA. left; reflexivity.
    + apply IH; [intros x Hx; apply HA; right; exact Hx|exact HD'|exact HP2].
    + simpl map. rewrite S2. assumption.
    + simpl map. rewrite S3. assumption.
    + simpl map. rewrite S1. rewrite <- map_map with (f := D) (g := bsh) in HP1, HP2.
      apply bcompat_bcast_all; [exact HP2|exact HP1].
Qed.

Lemma acts_dsuml {T} (l : list T) (f : T -> BT -> BT) (D : T -> BT) a :
  (forall x, In x (a :: l) -> acts (f x) (D x)) ->
  dims_as (D a) (map D l) = true -> pwc (map (fun x => bsh (D x)) (a :: l)) = true ->
  acts (fun X => dsuml (map (fun x => f x X) (a :: l))) (dsuml (map D (a :: l))).
Proof.
  intros HA HD HP X [H1 H2].
  assert (HPm : pwc (map bsh (map D (a :: l))) = true) by (rewrite map_map; exact HP).
  assert (Hlr : dsuml (map D (a :: l)) == dsumr (map D (a :: l))) by (apply dsuml_dsumr; assumption).
  destruct (BTeq_shape _ _ Hlr) as (L1 & L2 & L3).
  rewrite bsh_dsuml in H2. pose proof (bcompat_bcast_all_inv _ _ HPm H2) as HX.
  assert (Hres : forall x, In x (a :: l) -> f x X == dmm (D x) X).
  { intros x Hx. apply HA; [exact Hx|]. split.
    - simpl in H1. rewrite H1. destruct Hx as [<-|Hx]; [reflexivity|].
      unfold dims_as in HD. rewrite forallb_forall in HD. specialize (HD (D x) (in_map D _ _ Hx)). bsplit. symmetry; assumption.
    - rewrite forallb_forall in HX. apply HX. apply in_map. apply in_map. exact Hx. }
  (* the results form a legal list of summands *)
  assert (RD : dims_as (f a X) (map (fun x => f x X) l) = true).
  { unfold dims_as in *. rewrite forallb_forall in *. intros R HR. apply in_map_iff in HR. destruct HR as [x [<- Hx]].
    destruct (BTeq_shape _ _ (Hres x (or_intror Hx))) as (_ & r2 & r3).
    destruct (BTeq_shape _ _ (Hres a (or_introl eq_refl))) as (_ & a2 & a3).
    specialize (HD (D x) (in_map D _ _ Hx)). bsplit. simpl in *.
    apply andb_true_iff; split; apply Nat.eqb_eq; congruence. }
  assert (RP : pwc (map bsh (map (fun x => f x X) (a :: l))) = true).
  { rewrite map_map.
    rewrite (map_ext_in (fun x => bsh (f x X)) (fun x => bcast (bsh (D x)) (bsh X))).
    - rewrite <- (map_map (fun x => bsh (D x)) (fun y => bcast y (bsh X))). apply pwc_bcast_x; [exact HP|].
      rewrite map_map in HX. exact HX.
    - intros x Hx. destruct (BTeq_shape _ _ (Hres x Hx)) as (r1 & _ & _). exact r1. }
  eapply BTeq_trans; [apply (dsuml_dsumr (f a X) (map (fun x => f x X) l) RD RP)|].
  eapply BTeq_trans; [apply (acts_dsumr l f D a HA HD HP X)|].
  - split; [simpl in *; congruence|]. rewrite <- L1. rewrite bsh_dsuml. exact H2.
  - apply dmm_eq_l; [rewrite <- L1, bsh_dsuml; exact H2|apply BTeq_sym; exact Hlr].
Qed.

Lemma dtr_dsuml l : dtr (dsuml l) == dsuml (map dtr l).
Proof.
  unfold dtr, dsuml. repeat split; simpl.
  - induction l; simpl; [reflexivity|]. rewrite IHl. reflexivity.
  - destruct l; reflexivity.
  - destruct l; reflexivity.
  - intros I i j _ _ _. rewrite map_map. reflexivity.
Qed.

(* ---- scalar multiples --------------------------------------------------------------------------- *)

Lemma bcast_sub_r a c : bsub c a = true -> bcast a c = a.
Proof. intros H. rewrite bcast_comm by (rewrite bcompat_sym; apply bsub_bcompat; exact H). apply bsub_bcast_eq. exact H. Qed.

Lemma dmm_dscale A c X : bsub (bsh c) (bsh A) = true -> bcompat (bsh A) (bsh X) = true ->
  dmm (dscale A c) X == dmulc (dmm A X) c.
Proof.
  intros HS HC. unfold dmm, dscale, dmulc. 
  assert (SA : bsub (bsh A) (bcast (bsh A) (bsh X)) = true) by (apply bsub_bcast_l; exact HC).
  assert (Sc : bsub (bsh c) (bcast (bsh A) (bsh X)) = true) by (eapply bsub_trans; eauto).
  repeat split; simpl; [symmetry; apply bcast_sub_r; exact Sc|].
  intros I i j HI Hi Hj. unfold bget. simpl. rewrite <- zsum_scale_r. apply zsum_ext. intros l Hl.
  rewrite !bproj_bproj by assumption.
  rewrite (bproj_id (bcast (bsh A) (bsh X)) I HI). ring.
Qed.

Lemma dmulc_eq R R' c : bcompat (bsh R) (bsh c) = true -> R == R' -> dmulc R c == dmulc R' c.
Proof.
  intros HC HE. pose proof HE as (e1 & e2 & e3 & e4). unfold dmulc. repeat split; simpl; try congruence.
  intros I i j HI Hi Hj. f_equal. eapply BTeq_bget; eauto. apply bsub_bcast_l; exact HC.
Qed.

Lemma dtr_dscale A c : dtr (dscale A c) == dscale (dtr A) c.
Proof. repeat split. Qed.

Lemma acts_dscale f A c :
  acts f A -> bsub (bsh c) (bsh A) = true -> acts (fun X => dmulc (f X) c) (dscale A c).
Proof.
  intros HF HS X [H1 H2]. simpl in H1, H2.
  assert (Hf : f X == dmm A X) by (apply HF; split; assumption).
  destruct (BTeq_shape _ _ Hf) as (S1 & S2 & S3). simpl in *.
  eapply BTeq_trans; [apply dmulc_eq; [|exact Hf]|].
  - rewrite S1. rewrite bcompat_sym. apply bsub_bcompat. eapply bsub_trans; [exact HS|]. apply bsub_bcast_l; exact H2.
  - apply BTeq_sym. apply dmm_dscale; assumption.
Qed.

(* ---- Gram products are symmetric ------------------------------------------------------------- *)

Lemma dmm_AAt_sym A : dtr (dmm A (dtr A)) == dmm A (dtr A).
Proof.
  eapply BTeq_trans; [apply dmm_dtr; [apply bcompat_refl|reflexivity]|].
  apply dmm_eq_l; [apply bcompat_refl|apply dtr_dtr].
Qed.

Lemma dmm_AtA_sym A : dtr (dmm (dtr A) A) == dmm (dtr A) A.
Proof.
  eapply BTeq_trans; [apply dmm_dtr; [apply bcompat_refl|reflexivity]|].
  apply dmm_eq_r; [apply bcompat_refl|reflexivity|apply dtr_dtr].
Qed.

(* root form: f acts as R, g acts as R^T  ==>  X |-> f (g X) acts as R R^T (and as its transpose) *)
Lemma acts_root f g R t : acts f R -> acts g (dtr R) -> acts (fun X => f (fr (g X))) (mt t (dmm R (dtr R))).
Proof.
  intros HF HG. eapply acts_eq; [|apply (acts_comp f g R (dtr R) HF HG); [reflexivity|apply bcompat_refl]].
  destruct t; simpl; [apply BTeq_sym; apply dmm_AAt_sym|apply BTeq_refl].
Qed.

(* product: f acts as L / L^T, g acts as R / R^T *)
Lemma acts_matmul_t fl gr L R :
  acts fl (dtr L) -> acts gr (dtr R) -> nc L = nr R -> bcompat (bsh L) (bsh R) = true ->
  acts (fun X => gr (fr (fl X))) (dtr (dmm L R)).
Proof.
  intros HL HR HN HC. eapply acts_eq; [|apply (acts_comp gr fl (dtr R) (dtr L) HR HL)].
  - apply BTeq_sym. apply dmm_dtr; [exact HC|symmetry; exact HN].
  - simpl. symmetry. exact HN.
  - simpl. rewrite bcompat_sym. exact HC.
Qed.

(* ---- kernels -------------------------------------------------------------------------------------- *)

Lemma dhad_eq A A' B B' : bcompat (bsh A) (bsh B) = true -> nr B = nr A -> nc B = nc A ->
  A == A' -> B == B' -> dhad A B == dhad A' B'.
Proof.
  intros HC HR HN HA HB. pose proof HA as (a1 & a2 & a3 & a4). pose proof HB as (b1 & b2 & b3 & b4).
  unfold dhad. repeat split; simpl; try congruence.
  intros I i j HI Hi Hj. f_equal.
  - eapply BTeq_bget; eauto. apply bsub_bcast_l; exact HC.
  - eapply BTeq_bget; eauto; [apply bsub_bcast_r; exact HC|lia|lia].
Qed.

Lemma dtr_dhad A B : dtr (dhad A B) == dhad (dtr A) (dtr B).
Proof. repeat split. Qed.

Lemma dtr_dkernel x1 x2 sq : nc x1 = nc x2 -> bcompat (bsh x1) (bsh x2) = true ->
  dtr (dkernel x1 x2 sq) == dkernel x2 x1 sq.
Proof.
  intros HN HC. unfold dkernel.
  assert (HK : dtr (dmm x1 (dtr x2)) == dmm x2 (dtr x1)).
  { eapply BTeq_trans; [apply dmm_dtr; [exact HC|simpl; symmetry; exact HN]|].
    apply dmm_eq_l; [simpl; rewrite bcompat_sym; exact HC|apply dtr_dtr]. }
  destruct sq; [|exact HK].
  eapply BTeq_trans; [apply dtr_dhad|]. apply dhad_eq; try reflexivity; try exact HK. simpl. apply bcompat_refl.
Qed.
