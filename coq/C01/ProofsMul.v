(* C01.ProofsMul — MulLinearOperator: Hadamard product with a root-form left operand. *)
From Coq Require Import List ZArith Lia Bool Arith.
Import ListNotations.
Require Import C01.Sums C01.Batch C01.Tensor C01.OpExpr C01.Model.
Require Import C01.ProofsBase C01.ProofsAlg.
Open Scope Z_scope.

(* (L L^T o R) X  =  rowsum_a ( L[:,a] o (R ((X o L[:,a]) )) ) *)
Lemma acts_mul L R g : acts g R -> bsh L = bsh R -> nr L = nr R -> nr R = nc R ->
  acts (mul_mm L g (bsh R)) (dhad (dmm L (dtr L)) R).
Proof.
  intros HG HB HN HSq X [H1 H2]. simpl in H1, H2. rewrite HB, bcast_refl, bcast_refl in H2.
  unfold mul_mm.
  set (k := nc L). set (c := nc X). set (n := nr L). set (Bout := bcast (bsh R) (bsh X)).
  set (W := mkBT Bout n (k * c) (fun I i u => bget X I i (u mod c)%nat * bget L I i (u / c)%nat)).
  assert (SR : bsub (bsh R) Bout = true) by (apply bsub_bcast_l; exact H2).
  assert (SX : bsub (bsh X) Bout = true) by (apply bsub_bcast_r; exact H2).
  assert (HV : fr (g (fr W)) == dmm R W).
  { apply fr_eq'. eapply BTeq_trans.
    - apply HG. split; [simpl; unfold n; congruence|simpl; apply bsub_bcompat; exact SR].
    - apply dmm_eq_r; [simpl; apply bsub_bcompat; exact SR|simpl; unfold n; congruence|apply fr_eq]. }
  set (V := fr (g (fr W))) in *. clearbody V.
  destruct HV as (v1 & v2 & v3 & v4). simpl in v1, v2, v3. fold Bout in v1. rewrite (bsub_bcast_eq _ _ SR) in v1.
  unfold BTeq, dmm, dhad, dtr. cbn [bsh nr nc ent]. rewrite HB, !bcast_refl. fold Bout.
  split; [exact v1|]. split; [reflexivity|]. split; [reflexivity|].
  rewrite v1. intros I i col HI Hi Hcol. fold n in Hi. fold c in Hcol.
  transitivity (zsum k (fun a => zsum (nc R) (fun l => bget R I i l * (bget X I l col * bget L I l a)) * bget L I i a)).
  - apply zsum_ext. intros a Ha.
    assert (Hu : (a * c + col < k * c)%nat) by nia.
    rewrite v4; [|rewrite v1; exact HI|rewrite v2; unfold n in Hi; congruence|rewrite v3; exact Hu].
    f_equal. cbn [dmm ent]. apply zsum_ext. intros l Hl. f_equal.
    unfold bget at 1. cbn [bsh ent W]. rewrite (bproj_id Bout I HI).
    destruct (divmod_mul_add a c col Hcol) as [D1 D2]. rewrite D1, D2. reflexivity.
  - (* right-hand side *)
    transitivity (zsum (nc R) (fun l => zsum k (fun a => bget L I i a * bget L I l a) * bget R I i l * bget X I l col)).
    + transitivity (zsum k (fun a => zsum (nc R) (fun l => bget R I i l * (bget X I l col * bget L I l a) * bget L I i a))).
      { apply zsum_ext. intros a Ha. symmetry. apply zsum_scale_r. }
      rewrite zsum_swap. apply zsum_ext. intros l Hl.
      replace (zsum k (fun a => bget L I i a * bget L I l a) * bget R I i l * bget X I l col)
        with (zsum k (fun a => bget L I i a * bget L I l a) * (bget R I i l * bget X I l col)) by ring.
      rewrite <- zsum_scale_r. apply zsum_ext. intros a Ha. ring.
    + rewrite <- HSq. unfold n in *. rewrite <- HN. apply zsum_ext. intros l Hl. f_equal.
      unfold bget. cbn [bsh ent]. rewrite HB. rewrite !bproj_bproj by (apply bsub_refl). reflexivity.
Qed.

Lemma dhad_comm A B : bcompat (bsh A) (bsh B) = true -> nr B = nr A -> nc B = nc A -> dhad A B == dhad B A.
Proof.
  intros HC HR HN. unfold dhad. repeat split; simpl; [apply bcast_comm; exact HC|congruence|congruence|].
  intros I i j _ _ _. ring.
Qed.
