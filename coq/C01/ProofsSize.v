(* C01.ProofsSize — _size() of every class is the shape of the dense matrix it denotes. *)
From Coq Require Import List ZArith Lia Bool Arith.
Import ListNotations.
Require Import C01.Sums C01.Batch C01.Tensor C01.OpExpr C01.Model C01.ProofsBase C01.ProofsAlg C01.ProofsKron.
Open Scope Z_scope.

Definition shp (A : BT) : sz3 := (bsh A, nr A, nc A).

Lemma denote_kron_fold ops :
  fold_right (fun x acc => dkron (denote x) acc) (deye [] 1) ops = kronl (map denote ops).
Proof. induction ops; simpl; [reflexivity|]. rewrite IHops. reflexivity. Qed.

Lemma wfb_all_in ops x : forallb wfb ops = true -> In x ops -> wf x.
Proof. intros H Hx. rewrite forallb_forall in H. apply H. exact Hx. Qed.

Lemma map_sz ops : Forall (fun x => wf x -> sz x = shp (denote x)) ops -> forallb wfb ops = true ->
  forall g : sz3 -> nat, map (fun x => g (sz x)) ops = map (fun x => g (shp (denote x))) ops.
Proof.
  intros HF HW g. apply map_ext_in. intros x Hx. rewrite Forall_forall in HF. rewrite (HF x Hx); [reflexivity|].
  eapply wfb_all_in; eauto.
Qed.
Lemma map_sz_b ops : Forall (fun x => wf x -> sz x = shp (denote x)) ops -> forallb wfb ops = true ->
  map (fun x => sz_b (sz x)) ops = map bsh (map denote ops).
Proof.
  intros HF HW. rewrite map_map. apply map_ext_in. intros x Hx. rewrite Forall_forall in HF. rewrite (HF x Hx); [reflexivity|].
  eapply wfb_all_in; eauto.
Qed.

Ltac ih :=
  repeat match goal with
         | IH : wfb ?e = true -> sz ?e = _, H : wfb ?e = true |- _ => rewrite (IH H); clear IH
         end.
Ltac lst_facts :=
  match goal with
  | HF : Forall _ ?ops, HW : forallb wfb ?ops = true |- _ =>
      pose proof (map_sz_b ops HF HW) as EB;
      pose proof (map_sz ops HF HW sz_m) as EM;
      pose proof (map_sz ops HF HW sz_n) as EN
  end.

Theorem sz_correct e : wf e -> sz e = shp (denote e).
Proof.
  unfold wf. induction e using OpExpr_ind'; intros HW; simpl in HW; bsplit; unfold shp; simpl; try reflexivity; ih.
  - (* Chol *) destruct u; simpl; rewrite bcast_refl; congruence.
  - (* Root *) simpl. rewrite bcast_refl. reflexivity.
  - (* LowRankRoot *) simpl. rewrite bcast_refl. reflexivity.
  - (* Kron *) lst_facts. rewrite denote_kron_fold. destruct (kronl_shape (map denote ops)) as (K1 & K2 & K3). rewrite K1, K2, K3.
    rewrite EB, !map_map, EM, EN. reflexivity.
  - (* KronTriangular *) lst_facts. rewrite denote_kron_fold. destruct (kronl_shape (map denote ops)) as (K1 & K2 & K3). rewrite K1, K2, K3.
    rewrite EB, !map_map, EM, EN. reflexivity.
  - (* KronDiag *) lst_facts. rewrite denote_kron_fold. destruct (kronl_shape (map denote ops)) as (K1 & K2 & K3). rewrite K1, K2, K3.
    rewrite EB, !map_map, EM.
    f_equal. f_equal. apply map_ext_in. intros x Hx.
    match goal with HD : forallb is_plain_diag_cls ops = true |- _ => rewrite forallb_forall in HD; specialize (HD x Hx) end.
    destruct x; try discriminate. reflexivity.
  - (* KronAddedDiag *) reflexivity.
  - (* SumKron *) reflexivity.
  - (* AddedDiag *) reflexivity.
  - (* LowRankRootAddedDiag *) reflexivity.
  - (* Sum *) lst_facts. rewrite EB. change (fold_right (fun (A : BT) (s : shape) => bcast (bsh A) s) [] (map denote ops)) with (bsh (dsuml (map denote ops))). rewrite bsh_dsuml. destruct ops as [|x ops]; [discriminate|]. simpl.
    simpl in EM, EN. injection EM as EM1 _. injection EN as EN1 _. rewrite EM1, EN1. reflexivity.
  - (* PsdSum *) lst_facts. rewrite EB. change (fold_right (fun (A : BT) (s : shape) => bcast (bsh A) s) [] (map denote ops)) with (bsh (dsuml (map denote ops))). rewrite bsh_dsuml. destruct ops as [|x ops]; [discriminate|]. simpl.
    simpl in EM, EN. injection EM as EM1 _. injection EN as EN1 _. rewrite EM1, EN1. reflexivity.
  - (* Matmul *) reflexivity.
  - (* Mul *) unfold shp. simpl. match goal with HE : bsh (denote e1) = bsh (denote e2) |- _ => rewrite <- HE end. rewrite bcast_refl. reflexivity.
  - (* ConstantMul *) reflexivity.
  - (* BlockDiag *) unfold shp, sz_b, sz_m, sz_n, dblockdiag; simpl. destruct (bsh (denote e)) as [|k bs]; [discriminate|]. simpl.
    f_equal; [f_equal|]; apply Nat.mul_comm.
  - (* BlockInterleaved *) unfold shp, sz_b, sz_m, sz_n, dblockinter; simpl. destruct (bsh (denote e)) as [|k bs]; [discriminate|]. reflexivity.
  - (* SumBatch *) unfold shp, sz_b, sz_m, sz_n, dsumbatch; simpl. destruct (bsh (denote e)) as [|k bs]; [discriminate|]. reflexivity.
  - (* BatchRepeat *) reflexivity.
  - (* Cat *) destruct ops as [|x ops]; [discriminate|]. destruct ops as [|y ops]; [discriminate|].
    set (l := x :: y :: ops) in *.
    match goal with HF : Forall _ l, HW : forallb wfb l = true |- _ =>
      assert (E1 : map (fun z => sz_m (sz z)) l = map nr (map denote l)) by (rewrite map_map; apply (map_sz l HF HW sz_m));
      assert (E2 : map (fun z => sz_n (sz z)) l = map nc (map denote l)) by (rewrite map_map; apply (map_sz l HF HW sz_n));
      assert (E3 : forall p, map (fun z => nth p (sz_b (sz z)) 0%nat) l = map (fun B => nth p (bsh B) 0%nat) (map denote l))
        by (intros p; rewrite map_map; apply (map_sz l HF HW (fun s => nth p (sz_b s) 0%nat)));
      assert (Ex : sz x = shp (denote x))
        by (apply (Forall_inv HF); unfold l in HW; simpl in HW; apply andb_true_iff in HW; apply HW)
    end.
    destruct d; rewrite ?E1, ?E2, ?E3, Ex; reflexivity.
  - (* Interpolated *)
    match goal with HE : bsh ri = bsh li |- _ => rewrite HE end.
    match goal with HS : bsub (bsh (denote e)) (bsh li) = true |- _ => rewrite (bsub_bcast_eq _ _ HS) end.
    rewrite bcast_refl. reflexivity.
  - (* Masked *) reflexivity.
  - (* Kernel *) destruct sq; simpl; [rewrite bcast_refl|]; reflexivity.
Qed.
