(* C01.ProofsCatBatch — concatenation along a BATCH dimension (CatLinearOperator with cat_dim < -2).
   _matmul expands the right-hand side to the output batch shape, narrows it along the concatenated batch
   dimension piece by piece, multiplies every piece with its own operator and concatenates the results along
   that dimension.  This is multiplication with the dense tensor torch.cat(pieces, dim) - for any number of
   pieces, any piece sizes >= 1, any position of the dimension, any broadcasting right-hand side. *)
From Coq Require Import List ZArith Lia Bool Arith.
Import ListNotations.
Require Import C01.Sums C01.Batch C01.Tensor C01.OpExpr C01.Model.
Require Import C01.ProofsBase.
Open Scope Z_scope.

#[local] Opaque fr.

(* ---- replacing one component of a batch index / shape ---------------------------------------------- *)

Lemma bset_length (I : list nat) p v : length (bset I p v) = length I.
Proof. revert p; induction I as [|i I IH]; intros p; [reflexivity|]. destruct p; simpl; [reflexivity|]. rewrite IH. reflexivity. Qed.

Lemma nth_bset_same (I : list nat) p v : (p < length I)%nat -> nth p (bset I p v) 0%nat = v.
Proof.
  revert p; induction I as [|i I IH]; intros p H; [simpl in H; lia|].
  destruct p; simpl; [reflexivity|]. apply IH. simpl in H. lia.
Qed.

Lemma bset_bset (I : list nat) p a b : bset (bset I p a) p b = bset I p b.
Proof. revert p; induction I as [|i I IH]; intros p; [reflexivity|]. destruct p; simpl; [reflexivity|]. rewrite IH. reflexivity. Qed.

Lemma bset_nth (I : list nat) p : bset I p (nth p I 0%nat) = I.
Proof. revert p; induction I as [|i I IH]; intros p; [reflexivity|]. destruct p; simpl; [reflexivity|]. rewrite IH. reflexivity. Qed.

Lemma inb_bset_change F p s s' I v :
  (p < length F)%nat -> inb (bset F p s) I -> (v < s')%nat -> inb (bset F p s') (bset I p v).
Proof.
  revert p I; induction F as [|x F IH]; intros p I HP HI Hv; [simpl in HP; lia|].
  destruct p; destruct I as [|i I]; simpl in *; try tauto.
  destruct HI as [H1 HI]. split; [exact H1|]. apply IH; [lia|exact HI|lia].
Qed.

Lemma inb_bset B I p d v : inb B I -> (v < d)%nat -> inb (bset B p d) (bset I p v).
Proof.
  revert I p; induction B as [|x B IH]; intros I p HI Hv; destruct I as [|i I]; simpl in *; try tauto.
  destruct HI as [H1 HI]. destruct p; simpl; [split; assumption|]. split; [exact H1|]. apply IH; assumption.
Qed.

Lemma bsub_bset a c p d : bsub a c = true -> bsub (bset a p d) (bset c p d) = true.
Proof.
  revert c p; induction a as [|x a IH]; intros c p H; [reflexivity|].
  destruct c as [|y c]; [discriminate|]. simpl in H. apply andb_true_iff in H. destruct H as [H1 H2].
  destruct p; simpl.
  - rewrite Nat.eqb_refl, orb_true_r, H2. reflexivity.
  - rewrite H1. apply IH. exact H2.
Qed.

Lemma inb_nth_lt B I p : inb B I -> (p < length B)%nat -> (nth p I 0 < nth p B 0)%nat.
Proof.
  revert I p; induction B as [|x B IH]; intros I p HI LB; [simpl in LB; lia|].
  destruct I as [|i I]; [contradiction|]. destruct HI as [H1 H2]. destruct p; simpl; [exact H1|]. apply IH; [exact H2|simpl in LB; lia].
Qed.

(* projecting onto a shape whose component p was replaced *)
Lemma bproj_bset a I p d d' v : (p < length I)%nat -> (d = 1 -> v = 0)%nat ->
  bproj (bset a p d) (bset I p v) = bset (bproj (bset a p d') I) p v.
Proof.
  revert I p; induction a as [|x a IH]; intros I p HP Hd; [destruct p; reflexivity|].
  destruct I as [|i I]; [simpl in HP; lia|].
  destruct p; simpl.
  - f_equal. destruct (Nat.eqb_spec d 1); [symmetry; auto|reflexivity].
  - f_equal. apply IH; [simpl in HP; lia|exact Hd].
Qed.

Lemma nth_bproj a I p : (p < length a)%nat -> (p < length I)%nat -> nth p a 0%nat <> 1%nat -> nth p (bproj a I) 0%nat = nth p I 0%nat.
Proof.
  revert I p; induction a as [|x a IH]; intros I p H1 H2 H3; [simpl in H1; lia|].
  destruct I as [|i I]; [simpl in H2; lia|]. destruct p; simpl in *.
  - destruct (Nat.eqb_spec x 1); [contradiction|reflexivity].
  - apply IH; lia || assumption.
Qed.

Lemma nth_bcast_l a b p : (p < length a)%nat -> nth p a 0%nat <> 1%nat -> nth p (bcast a b) 0%nat = nth p a 0%nat.
Proof.
  revert b p; induction a as [|x a IH]; intros b p H1 H2; [simpl in H1; lia|].
  destruct b as [|y b]; [reflexivity|]. destruct p; simpl in *.
  - destruct (Nat.eqb_spec x 1); [contradiction|reflexivity].
  - apply IH; lia || assumption.
Qed.

(* ---- the dense statement ------------------------------------------------------------------------- *)

Definition bdim (p : nat) (A : BT) : nat := nth p (bsh A) 0%nat.

(* per-piece dense products with the narrowed right-hand side *)
Fixpoint cb_pieces (p : nat) (Xe : BT) (Ds : list BT) (off : nat) : list BT :=
  match Ds with
  | [] => []
  | D :: r => dmm D (bnarrow p off (bdim p D) Xe) :: cb_pieces p Xe r (off + bdim p D)
  end.

Definition piece_ok (p : nat) (F Bout : shape) (m n : nat) (D : BT) : Prop :=
  bsh D = bset F p (bdim p D) /\ nr D = m /\ nc D = n /\ bsub (bsh D) (bset Bout p (bdim p D)) = true.

Lemma cb_entries p F Bout Xe m n Jf I :
  bsh Xe = Bout -> (p < length I)%nat -> (p < length Jf)%nat -> inb Bout I ->
  (forall d v, (d = 1 -> v = 0)%nat -> bproj (bset F p d) (bset I p v) = bset Jf p v) ->
  forall Ds off v, Forall (piece_ok p F Bout m n) Ds -> (v < sumn (map (bdim p) Ds))%nat ->
  forall i j,
    cat_batch_ent (cb_pieces p Xe Ds off) p (bset I p v) i j
    = zsum n (fun l => cat_batch_ent Ds p (bset Jf p v) i l * ent Xe (bset I p (v + off)%nat) l j).
Proof.
  intros HXe HpI HpJ HI HJ. induction Ds as [|D r IH]; intros off v HF Hv i j; [simpl in Hv; lia|].
  pose proof (Forall_inv HF) as HD. pose proof (Forall_inv_tail HF) as HF'. destruct HD as (D1 & D2 & D3 & D4).
  assert (HLen : length I = length Bout) by (apply inb_length; exact HI).
  cbn [cb_pieces cat_batch_ent]. set (d := bdim p D) in *.
  assert (EB : bsh (dmm D (bnarrow p off d Xe)) = bset Bout p d).
  { simpl. rewrite HXe. apply bsub_bcast_eq. exact D4. }
  rewrite EB. rewrite !nth_bset_same by (rewrite ?bset_length; lia).
  fold (bdim p D). fold d.
  destruct (Nat.ltb_spec v d) as [Hlt|Hge].
  - cbn [dmm ent]. rewrite D3. apply zsum_ext. intros l Hl. f_equal.
    + unfold bget. rewrite D1. fold d. rewrite (HJ d v) by lia. reflexivity.
    + unfold bget. cbn [bnarrow bsh ent]. rewrite HXe.
      rewrite bproj_id by (apply inb_bset; assumption).
      rewrite nth_bset_same by lia. rewrite bset_bset. reflexivity.
  - rewrite !bset_bset. simpl in Hv. fold (bdim p D) in Hv. fold d in Hv.
    rewrite (IH (off + d)%nat (v - d)%nat HF' ltac:(lia) i j).
    apply zsum_ext. intros l Hl. replace (v - d + (off + d))%nat with (v + off)%nat by lia. reflexivity.
Qed.

Lemma sumn_pos_two (l : list nat) : (2 <= length l)%nat -> Forall (fun d => 0 < d)%nat l -> (1 < sumn l)%nat.
Proof.
  destruct l as [|a [|b l]]; simpl; intros HL HF; try lia.
  inversion HF as [|? ? Ha HF']; subst. inversion HF' as [|? ? Hb _]; subst. lia.
Qed.

Lemma cb_pieces_bdims p Xe Bout : bsh Xe = Bout -> (p < length Bout)%nat -> forall Ds off,
  Forall (fun D => bsub (bsh D) (bset Bout p (bdim p D)) = true) Ds ->
  map (bdim p) (cb_pieces p Xe Ds off) = map (bdim p) Ds.
Proof.
  intros HXe HP. induction Ds as [|D r IH]; intros off HF; [reflexivity|].
  pose proof (Forall_inv HF) as HD. pose proof (Forall_inv_tail HF) as HF'. cbn [cb_pieces map]. rewrite (IH _ HF'). f_equal.
  unfold bdim at 1. simpl. rewrite HXe, (bsub_bcast_eq _ _ HD). apply nth_bset_same. exact HP.
Qed.

(* torch.cat over the per-piece products = product with the concatenated tensor *)
Lemma dcat_batch_dmm p D0 Ds X :
  let L := D0 :: Ds in
  let C := dcat L (CatBatch p) in
  (p < length (bsh D0))%nat ->
  Forall (fun D => bset (bsh D) p 0%nat = bset (bsh D0) p 0%nat /\ nr D = nr D0 /\ nc D = nc D0) L ->
  (1 < sumn (map (bdim p) L))%nat ->
  okrhs C X ->
  dcat (cb_pieces p (dexpand (bcast (bsh C) (bsh X)) X) L 0) (CatBatch p) == dmm C X.
Proof.
  intros L C HP HF HS [HX1 HX2].
  set (S := sumn (map (bdim p) L)) in *. set (F := bset (bsh D0) p 0%nat).
  assert (EC : bsh C = bset F p S) by (unfold C, F; simpl; rewrite bset_bset; reflexivity).
  set (Bout := bcast (bsh C) (bsh X)) in *. set (Xe := dexpand Bout X).
  assert (HsubC : bsub (bsh C) Bout = true) by (apply bsub_bcast_l; exact HX2).
  assert (LF : length F = length (bsh D0)) by (unfold F; apply bset_length).
  assert (LB : (p < length Bout)%nat).
  { unfold Bout. rewrite bcast_length, EC, bset_length. lia. }
  assert (NB : nth p Bout 0%nat = S).
  { unfold Bout. rewrite nth_bcast_l; rewrite EC; rewrite ?bset_length, ?nth_bset_same; lia. }
  assert (HPO : Forall (piece_ok p F Bout (nr D0) (nc D0)) L).
  { rewrite Forall_forall in *. intros D HD. destruct (HF D HD) as (a1 & a2 & a3).
    assert (E1 : bsh D = bset F p (bdim p D)).
    { unfold F. rewrite <- a1, bset_bset. symmetry. apply bset_nth. }
    split; [exact E1|]. split; [exact a2|]. split; [exact a3|].
    rewrite E1 at 1. replace (bset F p (bdim p D)) with (bset (bsh C) p (bdim p D)) by (rewrite EC; apply bset_bset).
    apply bsub_bset. exact HsubC. }
  assert (HBD : map (bdim p) (cb_pieces p Xe L 0) = map (bdim p) L).
  { apply (cb_pieces_bdims p Xe Bout eq_refl LB). rewrite Forall_forall in *. intros D HD. destruct (HPO D HD) as (_ & _ & _ & H4). exact H4. }
  assert (HD0 : piece_ok p F Bout (nr D0) (nc D0) D0) by (rewrite Forall_forall in HPO; apply HPO; left; reflexivity).
  destruct HD0 as (d1 & _ & _ & d4).
  (* shapes *)
  unfold dcat at 1. cbn [cb_pieces L]. fold L.
  change (dmm D0 (bnarrow p 0 (bdim p D0) Xe) :: cb_pieces p Xe Ds (0 + bdim p D0)) with (cb_pieces p Xe L 0).
  change (fun B : BT => nth p (bsh B) 0%nat) with (bdim p). rewrite HBD. fold S.
  assert (EB0 : bsh (dmm D0 (bnarrow p 0 (bdim p D0) Xe)) = bset Bout p (bdim p D0)).
  { simpl. apply bsub_bcast_eq. exact d4. }
  rewrite EB0, bset_bset.
  assert (EBS : bset Bout p S = Bout) by (rewrite <- NB; apply bset_nth).
  rewrite EBS.
  split; [reflexivity|]. split; [reflexivity|]. split; [reflexivity|].
  cbn [bsh nr nc ent]. intros I i j HI Hi Hj.
  assert (HLI : length I = length Bout) by (apply inb_length; exact HI).
  set (Jf := bproj (bsh C) I).
  assert (HJf : nth p Jf 0%nat = nth p I 0%nat).
  { unfold Jf. apply nth_bproj; rewrite ?EC, ?bset_length, ?nth_bset_same; lia. }
  assert (HvS : (nth p I 0 < S)%nat).
  { rewrite <- NB. apply inb_nth_lt; assumption. }
  pose proof (cb_entries p F Bout Xe (nr D0) (nc D0) Jf I eq_refl ltac:(lia)
                ltac:(unfold Jf; rewrite bproj_length, EC, bset_length; lia) HI) as HE.
  specialize (HE ltac:(intros d v Hdv; unfold Jf; rewrite EC; apply bproj_bset; [lia|exact Hdv])).
  specialize (HE L 0%nat (nth p I 0%nat) HPO HvS i j).
  rewrite bset_nth in HE. rewrite HE. rewrite Nat.add_0_r, bset_nth.
  unfold C at 1. cbn [dcat L nc]. apply zsum_ext. intros l Hl. f_equal.
  unfold bget. fold C. fold Jf. unfold C. cbn [dcat L ent]. fold L.
  rewrite <- HJf. rewrite bset_nth. reflexivity.
Qed.

(* ---- congruence and transposition of the dense concatenation ------------------------------------------- *)

Lemma cat_batch_ent_eq p F m n l l' : (p < length F)%nat -> Forall2 BTeq l l' ->
  (forall A, In A l -> bsh A = bset F p (bdim p A) /\ nr A = m /\ nc A = n) ->
  forall I i j, inb (bset F p (sumn (map (bdim p) l))) I -> (i < m)%nat -> (j < n)%nat ->
    cat_batch_ent l p I i j = cat_batch_ent l' p I i j.
Proof.
  intros HP. induction 1 as [|A A' l l' HA HF IH]; intros HS I i j HI Hi Hj; [reflexivity|].
  destruct (HS A (or_introl eq_refl)) as (S1 & S2 & S3). destruct HA as (a1 & a2 & a3 & a4).
  cbn [cat_batch_ent]. rewrite <- a1. fold (bdim p A).
  cbn [map sumn] in HI.
  destruct (Nat.ltb_spec (nth p I 0%nat) (bdim p A)) as [Hlt|Hge].
  - apply a4; [|lia|lia]. rewrite S1. rewrite <- (bset_nth I p). eapply inb_bset_change; eauto.
  - apply IH; [intros C HC; apply HS; right; exact HC| |exact Hi|exact Hj].
    assert (HvS : (nth p I 0 < bdim p A + sumn (map (bdim p) l))%nat).
    { pose proof (inb_nth_lt _ _ p HI ltac:(rewrite bset_length; exact HP)) as HN. rewrite nth_bset_same in HN by exact HP. exact HN. }
    eapply inb_bset_change; [exact HP|exact HI|lia].
Qed.

Lemma dcat_batch_eq p A l A' l' :
  (p < length (bsh A))%nat -> Forall2 BTeq (A :: l) (A' :: l') ->
  (forall C, In C (A :: l) -> bset (bsh C) p 0%nat = bset (bsh A) p 0%nat /\ nr C = nr A /\ nc C = nc A) ->
  dcat (A :: l) (CatBatch p) == dcat (A' :: l') (CatBatch p).
Proof.
  intros HP HF HS. destruct (Forall2_shapes _ _ HF) as (E1 & E2 & E3).
  inversion HF as [|? ? ? ? HA HF']; subst. destruct (BTeq_shape _ _ HA) as (a1 & a2 & a3).
  assert (ED : map (bdim p) (A :: l) = map (bdim p) (A' :: l')).
  { unfold bdim. rewrite <- (map_map bsh (fun s => nth p s 0%nat)), <- (map_map bsh (fun s => nth p s 0%nat) (A' :: l')), E1. reflexivity. }
  unfold dcat. change (fun B : BT => nth p (bsh B) 0%nat) with (bdim p). rewrite <- ED, <- a1.
  split; [reflexivity|]. split; [exact a2|]. split; [exact a3|].
  cbn [bsh nr nc ent]. intros I i j HI Hi Hj.
  set (F := bset (bsh A) p 0%nat).
  apply (cat_batch_ent_eq p F (nr A) (nc A)); try assumption.
  - unfold F. rewrite bset_length. exact HP.
  - intros C HC. destruct (HS C HC) as (s1 & s2 & s3). split; [|auto].
    unfold F. rewrite <- s1, bset_bset. symmetry. apply bset_nth.
  - unfold F. rewrite bset_bset. exact HI.
Qed.

Lemma cat_batch_ent_tr l p I i j : cat_batch_ent (map dtr l) p I i j = cat_batch_ent l p I j i.
Proof.
  revert I; induction l as [|A l IH]; intros I; [reflexivity|]. simpl.
  destruct (Nat.ltb_spec (nth p I 0%nat) (nth p (bsh A) 0%nat)); [reflexivity|apply IH].
Qed.

Lemma dtr_dcat_batch p A l : dtr (dcat (A :: l) (CatBatch p)) == dcat (map dtr (A :: l)) (CatBatch p).
Proof.
  unfold dtr, dcat. cbn [map]. split; [simpl; rewrite map_map; reflexivity|]. split; [reflexivity|]. split; [reflexivity|].
  intros I i j _ _ _. cbn [ent]. symmetry. apply (cat_batch_ent_tr (A :: l)).
Qed.

(* ---- the transcribed loop ------------------------------------------------------------------------------ *)

Section CatBatch.
Context {T : Type}.
Variable f : T -> BT -> BT.
Variable D : T -> BT.
Variable len : T -> nat.

Definition bpieces (p : nat) (Xe : BT) : list T -> nat -> list BT :=
  fix gob (l : list T) (off : nat) : list BT :=
    match l with
    | [] => []
    | x :: r => fr (f x (bnarrow p off (len x) Xe)) :: gob r (off + len x)%nat
    end.

Lemma bpieces_cb p Bout Xe n : bsh Xe = Bout -> nr Xe = n -> forall l off,
  (forall y, In y l -> acts (f y) (D y) /\ nc (D y) = n /\ len y = bdim p (D y) /\
                       bsub (bsh (D y)) (bset Bout p (bdim p (D y))) = true) ->
  Forall2 BTeq (bpieces p Xe l off) (cb_pieces p Xe (map D l) off).
Proof.
  intros HB HN. induction l as [|x l IH]; intros off HA; [constructor|].
  destruct (HA x (or_introl eq_refl)) as (a1 & a2 & a3 & a4).
  cbn [bpieces map cb_pieces]. rewrite a3. constructor.
  - apply fr_eq'. apply a1. split; [simpl; congruence|]. simpl. rewrite HB. apply bsub_bcompat. exact a4.
  - apply IH. intros y Hy. apply HA. right. exact Hy.
Qed.

Lemma acts_cat_batch p x ops :
  (p < length (bsh (D x)))%nat -> (1 <= length ops)%nat ->
  (forall y, In y (x :: ops) -> acts (f y) (D y) /\ bset (bsh (D y)) p 0%nat = bset (bsh (D x)) p 0%nat /\
                                nr (D y) = nr (D x) /\ nc (D y) = nc (D x) /\ len y = bdim p (D y) /\ (0 < len y)%nat) ->
  acts (fun X => dcat (bpieces p (dexpand (bcast (bsh (dcat (map D (x :: ops)) (CatBatch p))) (bsh X)) X) (x :: ops) 0) (CatBatch p))
       (dcat (map D (x :: ops)) (CatBatch p)).
Proof.
  intros HP HL HA X HX. pose proof HX as [HX1 HX2].
  set (C := dcat (map D (x :: ops)) (CatBatch p)) in *.
  set (Bout := bcast (bsh C) (bsh X)). set (Xe := dexpand Bout X).
  assert (HFa : Forall (fun B => bset (bsh B) p 0%nat = bset (bsh (D x)) p 0%nat /\ nr B = nr (D x) /\ nc B = nc (D x)) (map D (x :: ops))).
  { rewrite Forall_forall. intros B HB. apply in_map_iff in HB. destruct HB as [y [<- Hy]].
    destruct (HA y Hy) as (_ & b1 & b2 & b3 & _). auto. }
  assert (HS : (1 < sumn (map (bdim p) (map D (x :: ops))))%nat).
  { apply sumn_pos_two; [rewrite !map_length; simpl; lia|].
    rewrite Forall_forall. intros d Hd. rewrite map_map in Hd. apply in_map_iff in Hd. destruct Hd as [y [<- Hy]].
    destruct (HA y Hy) as (_ & _ & _ & _ & b4 & b5). lia. }
  eapply BTeq_trans; [|apply (dcat_batch_dmm p (D x) (map D ops) X HP HFa HS HX)].
  set (S := sumn (map (bdim p) (map D (x :: ops)))) in *. set (F := bset (bsh (D x)) p 0%nat).
  assert (EC : bsh C = bset F p S) by (unfold C, F; simpl; rewrite bset_bset; reflexivity).
  assert (HsubC : bsub (bsh C) Bout = true) by (apply bsub_bcast_l; exact HX2).
  assert (HPieces : forall y, In y (x :: ops) -> bsub (bsh (D y)) (bset Bout p (bdim p (D y))) = true).
  { intros y Hy. destruct (HA y Hy) as (_ & b1 & _).
    assert (E1 : bsh (D y) = bset F p (bdim p (D y))) by (unfold F; rewrite <- b1, bset_bset; symmetry; apply bset_nth).
    rewrite E1 at 1. replace (bset F p (bdim p (D y))) with (bset (bsh C) p (bdim p (D y))) by (rewrite EC; apply bset_bset).
    apply bsub_bset. exact HsubC. }
  assert (HFB : Forall2 BTeq (bpieces p Xe (x :: ops) 0) (cb_pieces p Xe (map D (x :: ops)) 0)).
  { apply (bpieces_cb p Bout Xe (nr X) eq_refl eq_refl). intros y Hy. destruct (HA y Hy) as (a1 & b1 & b2 & b3 & b4 & b5).
    split; [exact a1|]. split; [|split; [exact b4|apply HPieces; exact Hy]].
    rewrite b3. unfold C in HX1. simpl in HX1. congruence. }
  assert (LB : (p < length Bout)%nat) by (unfold Bout; rewrite bcast_length, EC, bset_length; unfold F; rewrite bset_length; lia).
  change (map D (x :: ops)) with (D x :: map D ops) in *. cbn [bpieces] in *. cbn [cb_pieces] in *.
  apply dcat_batch_eq; [| exact HFB |].
  - inversion HFB as [|? ? ? ? H0 _]; subst. destruct (BTeq_shape _ _ H0) as (s1 & _). rewrite s1. simpl.
    rewrite (bsub_bcast_eq _ _ (HPieces x (or_introl eq_refl))), bset_length. exact LB.
  - (* every piece has the shape of the output batch with component p replaced *)
    assert (HG : forall l off P, (forall y, In y l -> In y (x :: ops)) -> In P (bpieces p Xe l off) ->
                   bset (bsh P) p 0%nat = bset Bout p 0%nat /\ nr P = nr (D x) /\ nc P = nc X).
    { induction l as [|y l IH]; intros off P Hin HPin; [contradiction|]. cbn [bpieces] in HPin. destruct HPin as [<-|HPin].
      - destruct (HA y (Hin y (or_introl eq_refl))) as (a1 & b1 & b2 & b3 & b4 & b5).
        assert (HR : fr (f y (bnarrow p off (len y) Xe)) == dmm (D y) (bnarrow p off (len y) Xe)).
        { apply fr_eq'. apply a1. split; [simpl; unfold C in HX1; simpl in HX1; congruence|]. simpl. rewrite b4. apply bsub_bcompat. apply HPieces. apply Hin. left. reflexivity. }
        destruct (BTeq_shape _ _ HR) as (s1 & s2 & s3). rewrite s1, s2, s3. simpl.
        rewrite b4, (bsub_bcast_eq _ _ (HPieces y (Hin y (or_introl eq_refl)))), bset_bset. auto.
      - apply (IH (off + len y)%nat P); [intros z Hz; apply Hin; right; exact Hz|exact HPin]. }
    intros P HPin.
    destruct (HG (x :: ops) 0%nat P (fun y Hy => Hy) HPin) as (g1 & g2 & g3).
    destruct (HG (x :: ops) 0%nat (fr (f x (bnarrow p 0 (len x) Xe))) (fun y Hy => Hy) (or_introl eq_refl)) as (h1 & h2 & h3).
    split; [congruence|]. split; congruence.
Qed.

End CatBatch.
