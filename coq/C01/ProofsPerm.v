(* C01.ProofsPerm — PermutationLinearOperator: gather with perm / with the inverse permutation. *)
From Coq Require Import List ZArith Lia Bool Arith.
Import ListNotations.
Require Import C01.Sums C01.Batch C01.Tensor C01.OpExpr C01.Model.
Require Import C01.ProofsBase C01.ProofsAlg.
Open Scope Z_scope.

(* a permutation of 0..n-1 given as a function nat -> nat *)
Definition is_perm (n : nat) (s : nat -> nat) : Prop :=
  (forall i, (i < n)%nat -> (s i < n)%nat) /\ (forall i j, (i < n)%nat -> (j < n)%nat -> s i = s j -> i = j).

(* first position k < n (scanning from 0) with s k = v, else 0 *)
Definition find_pos (n : nat) (s : nat -> nat) (v : nat) : nat :=
  fold_right (fun k acc => if Nat.eqb (s k) v then k else acc) 0%nat (seq 0 n).

Lemma find_pos_spec_gen s v : forall len start, (exists k, (start <= k < start + len)%nat /\ s k = v) ->
  let r := fold_right (fun k acc => if Nat.eqb (s k) v then k else acc) 0%nat (seq start len) in
  (start <= r < start + len)%nat /\ s r = v.
Proof.
  induction len as [|len IH]; intros start [k [Hk Hs]]; [exfalso; lia|]. simpl.
  destruct (Nat.eqb_spec (s start) v) as [E|E]; [split; [lia|exact E]|].
  destruct (IH (S start)) as [H1 H2]; [exists k; split; [|exact Hs]; destruct (Nat.eq_dec k start); [subst; contradiction|lia]|].
  split; [lia|exact H2].
Qed.

Lemma find_pos_spec n s v : (exists k, (k < n)%nat /\ s k = v) -> (find_pos n s v < n)%nat /\ s (find_pos n s v) = v.
Proof.
  intros [k [Hk Hs]]. destruct (find_pos_spec_gen s v n 0%nat) as [H1 H2]; [exists k; split; [lia|exact Hs]|].
  unfold find_pos. split; [lia|exact H2].
Qed.

(* pigeonhole: an injective map of 0..n-1 into itself is onto *)
Lemma perm_surj n s : is_perm n s -> forall v, (v < n)%nat -> exists k, (k < n)%nat /\ s k = v.
Proof.
  intros [HR HI] v Hv.
  assert (ND : NoDup (map s (seq 0 n))).
  { clear Hv v. assert (G : forall len start, (start + len <= n)%nat -> NoDup (map s (seq start len))).
    { induction len as [|len IH]; intros start Hle; [constructor|]. simpl. constructor; [|apply IH; lia].
      intros Hin. apply in_map_iff in Hin. destruct Hin as [j [Hj1 Hj2]]. apply in_seq in Hj2.
      assert (j = start) by (apply HI; try lia; exact Hj1). lia. }
    apply (G n 0%nat). lia. }
  assert (INC : incl (map s (seq 0 n)) (seq 0 n)).
  { intros x Hx. apply in_map_iff in Hx. destruct Hx as [j [<- Hj]]. apply in_seq in Hj. apply in_seq. specialize (HR j). lia. }
  assert (INC2 : incl (seq 0 n) (map s (seq 0 n))).
  { apply NoDup_length_incl; [exact ND|rewrite map_length; lia|exact INC]. }
  assert (Hin : In v (map s (seq 0 n))) by (apply INC2; apply in_seq; lia).
  apply in_map_iff in Hin. destruct Hin as [k [Hk1 Hk2]]. apply in_seq in Hk2. exists k. split; [lia|exact Hk1].
Qed.

Lemma find_pos_inv n s : is_perm n s ->
  (forall v, (v < n)%nat -> (find_pos n s v < n)%nat /\ s (find_pos n s v) = v) /\
  (forall k, (k < n)%nat -> find_pos n s (s k) = k).
Proof.
  intros HP. split.
  - intros v Hv. apply find_pos_spec. apply perm_surj; assumption.
  - intros k Hk. destruct HP as [HR HI].
    destruct (find_pos_spec n s (s k)) as [H1 H2]; [exists k; auto|]. apply HI; assumption.
Qed.

Lemma find_pos_is_perm n s : is_perm n s -> is_perm n (find_pos n s).
Proof.
  intros HP. destruct (find_pos_inv n s HP) as [H1 H2]. split.
  - intros v Hv. apply H1. exact Hv.
  - intros i j Hi Hj E. destruct (H1 i Hi) as [_ Ei]. destruct (H1 j Hj) as [_ Ej]. rewrite <- Ei, <- Ej, E. reflexivity.
Qed.

(* ---- permutation tensors ------------------------------------------------------------------------ *)

Definition sfun (p : BT) (I : bidx) (i : nat) : nat := Z.to_nat (ent p I i 0%nat).

Lemma perm_okb_spec p I : perm_okb p = true -> inb (bsh p) I ->
  is_perm (nr p) (sfun p I) /\ (forall i, (i < nr p)%nat -> 0 <= ent p I i 0%nat).
Proof.
  unfold perm_okb. rewrite forallb_forall. intros H HI.
  specialize (H I (proj2 (all_bidx_in _ _) HI)). rewrite forallb_forall in H.
  assert (G : forall i, (i < nr p)%nat -> 0 <= ent p I i 0%nat /\ (sfun p I i < nr p)%nat /\
             forall j, (j < nr p)%nat -> ent p I i 0%nat = ent p I j 0%nat -> i = j).
  { intros i Hi. assert (Hin : In i (seq 0 (nr p))) by (apply in_seq; lia). specialize (H i Hin).
    apply andb_true_iff in H. destruct H as [H H3]. apply andb_true_iff in H. destruct H as [H1 H2].
    apply Z.leb_le in H1. apply Nat.ltb_lt in H2. split; [exact H1|]. split; [exact H2|].
    intros j Hj E. rewrite forallb_forall in H3. assert (Hjn : In j (seq 0 (nr p))) by (apply in_seq; lia).
    specialize (H3 j Hjn). apply orb_true_iff in H3. destruct H3 as [H3|H3]; [apply Nat.eqb_eq in H3; exact H3|].
    apply negb_true_iff in H3. apply Z.eqb_neq in H3. contradiction. }
  split; [split|].
  - intros i Hi. apply G. exact Hi.
  - intros i j Hi Hj E. destruct (G i Hi) as (a1 & _ & a3). destruct (G j Hj) as (b1 & _ & _).
    apply a3; [exact Hj|]. unfold sfun in E. apply Z2Nat.inj in E; assumption.
  - intros i Hi. apply G. exact Hi.
Qed.

Lemma fold_right_ext_in {A B} (f g : A -> B -> B) a l : (forall k acc, In k l -> f k acc = g k acc) ->
  fold_right f a l = fold_right g a l.
Proof.
  induction l as [|x l IH]; intros H; [reflexivity|]. simpl. rewrite IH by (intros k acc Hk; apply H; right; exact Hk).
  apply H. left. reflexivity.
Qed.

Lemma inv_fold p I i : perm_okb p = true -> inb (bsh p) I ->
  fold_right (fun k acc => if Z.eqb (ent p I k 0%nat) (Z.of_nat i) then k else acc) 0%nat (seq 0 (nr p))
  = find_pos (nr p) (sfun p I) i.
Proof.
  intros HP HI. destruct (perm_okb_spec p I HP HI) as [_ H0]. unfold find_pos.
  apply fold_right_ext_in. intros k acc Hk. apply in_seq in Hk. unfold sfun.
  destruct (Z.eqb_spec (ent p I k 0%nat) (Z.of_nat i)) as [E|E].
  - rewrite E, Nat2Z.id, Nat.eqb_refl. reflexivity.
  - destruct (Nat.eqb_spec (Z.to_nat (ent p I k 0%nat)) i) as [E'|E']; [|reflexivity].
    exfalso. apply E. rewrite <- E'. rewrite Z2Nat.id; [reflexivity|apply H0; lia].
Qed.

Lemma inv_perm_find p I i : perm_okb p = true -> inb (bsh p) I ->
  ent (inv_perm p) I i 0%nat = Z.of_nat (find_pos (nr p) (sfun p I) i).
Proof. intros HP HI. unfold inv_perm. simpl. rewrite (inv_fold p I i HP HI). reflexivity. Qed.

(* P x : row i of the result is row perm[i] of x *)
Lemma acts_perm p : perm_okb p = true -> acts (perm_mm p) (dperm p).
Proof.
  intros HP X [H1 H2]. simpl in H1, H2. unfold perm_mm, dmm, dperm. repeat split; simpl.
  intros I i j HI Hi Hj.
  assert (HIp : inb (bsh p) (bproj (bsh p) I)) by (eapply inb_bproj; [apply bsub_bcast_l; exact H2|exact HI]).
  destruct (perm_okb_spec p _ HP HIp) as [[HR _] _].
  transitivity (zsum (nr p) (fun l => zdelta (Z.to_nat (bget p I i 0%nat)) l * bget X I l j)); [|apply zsum_ext; intros l Hl; reflexivity].
  rewrite zsum_delta_l; [reflexivity|]. apply (HR i Hi).
Qed.

(* P^T x : gather with the inverse permutation *)
Lemma acts_perm_inv p : perm_okb p = true -> acts (perm_mm (inv_perm p)) (dtr (dperm p)).
Proof.
  intros HP X [H1 H2]. simpl in H1, H2. unfold perm_mm, dmm, dtr, dperm. repeat split; simpl.
  intros I i j HI Hi Hj.
  assert (HIp : inb (bsh p) (bproj (bsh p) I)) by (eapply inb_bproj; [apply bsub_bcast_l; exact H2|exact HI]).
  destruct (perm_okb_spec p _ HP HIp) as [HPm _]. destruct (find_pos_inv _ _ HPm) as [F1 F2]. destruct HPm as [HR HIj].
  destruct (F1 i Hi) as [G1 G2].
  rewrite (inv_fold p _ i HP HIp), Nat2Z.id.
  set (r := find_pos (nr p) (sfun p (bproj (bsh p) I)) i) in *.
  transitivity (zsum (nr p) (fun l => zdelta (sfun p (bproj (bsh p) I) l) i * bget X I l j)); [|apply zsum_ext; intros l Hl; reflexivity].
  rewrite (zsum_single (nr p) r); [unfold zdelta; rewrite G2, Nat.eqb_refl; ring|exact G1|].
  intros l Hl Hne. unfold zdelta. destruct (Nat.eqb_spec (sfun p (bproj (bsh p) I) l) i) as [E|E]; [|ring].
  exfalso. apply Hne. apply HIj; [exact Hl|exact G1|congruence].
Qed.

(* the inverse permutation tensor is a permutation tensor, and denotes the transposed matrix *)
Lemma inv_perm_ok p : perm_okb p = true -> perm_okb (inv_perm p) = true.
Proof.
  intros HP. unfold perm_okb. rewrite forallb_forall. intros I HIn. apply all_bidx_in in HIn. simpl in HIn.
  destruct (perm_okb_spec p I HP HIn) as [HPm _]. destruct (find_pos_inv _ _ HPm) as [F1 F2].
  rewrite forallb_forall. intros i Hi. apply in_seq in Hi. simpl in Hi. cbn [nr inv_perm].
  rewrite (inv_perm_find p I i HP HIn). destruct (F1 i ltac:(lia)) as [G1 G2].
  apply andb_true_iff. split; [apply andb_true_iff; split|].
  - apply Z.leb_le. lia.
  - rewrite Nat2Z.id. apply Nat.ltb_lt. exact G1.
  - rewrite forallb_forall. intros j Hj. apply in_seq in Hj. simpl in Hj. rewrite (inv_perm_find p I j HP HIn).
    destruct (Nat.eqb_spec i j) as [E|E]; [reflexivity|]. simpl. apply negb_true_iff. apply Z.eqb_neq. intros EQ.
    apply Nat2Z.inj in EQ. apply E. destruct (F1 j ltac:(lia)) as [_ G4]. rewrite <- G2, <- G4, EQ. reflexivity.
Qed.

Lemma dperm_inv p : perm_okb p = true -> dperm (inv_perm p) == dtr (dperm p).
Proof.
  intros HP. unfold dperm, dtr. repeat split; simpl. intros I i j HI Hi Hj.
  destruct (perm_okb_spec p I HP HI) as [HPm _]. destruct (find_pos_inv _ _ HPm) as [F1 F2].
  rewrite (inv_fold p I i HP HI), Nat2Z.id. unfold zdelta. fold (sfun p I j).
  destruct (F1 i Hi) as [G1 G2].
  destruct (Nat.eqb_spec (find_pos (nr p) (sfun p I) i) j) as [E|E], (Nat.eqb_spec (sfun p I j) i) as [E'|E']; try reflexivity; exfalso.
  - apply E'. rewrite <- E. exact G2.
  - apply E. rewrite <- E'. apply F2. exact Hj.
Qed.

Lemma forallb_ext_in {A} (f g : A -> bool) l : (forall x, In x l -> f x = g x) -> forallb f l = forallb g l.
Proof.
  induction l as [|x l IH]; intros H; [reflexivity|]. simpl. rewrite (H x (or_introl eq_refl)), IH; [reflexivity|].
  intros y Hy. apply H. right. exact Hy.
Qed.

Lemma perm_okb_eq p q : p == q -> nc p = 1%nat -> perm_okb p = perm_okb q.
Proof.
  intros (e1 & e2 & e3 & e4) H1. unfold perm_okb. rewrite <- e1, <- e2.
  apply forallb_ext_in. intros I HI. apply all_bidx_in in HI.
  apply forallb_ext_in. intros i Hi. apply in_seq in Hi.
  rewrite <- (e4 I i 0%nat HI ltac:(lia) ltac:(lia)). f_equal.
  apply forallb_ext_in. intros j Hj. apply in_seq in Hj.
  rewrite <- (e4 I j 0%nat HI ltac:(lia) ltac:(lia)). reflexivity.
Qed.

Lemma dperm_eq p q : p == q -> nc p = 1%nat -> dperm p == dperm q.
Proof.
  intros (e1 & e2 & e3 & e4) H1. unfold dperm. repeat split; simpl; try assumption.
  intros I i j HI Hi Hj. rewrite (e4 I i 0%nat HI Hi ltac:(lia)). reflexivity.
Qed.
