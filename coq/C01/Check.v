(* C01.Check — comparators used by the generated correspondence shards (gen/cases_*.v).
   A case is an operator expression (literal tensors from the generated input) plus a list of queries,
   each with what the REAL operator returned; [bad_cases] lists the (case, query) pairs where the Gallina
   model (Model.v) computes something else.  Everything is exact in Z. *)
From Coq Require Import List ZArith Lia Bool Arith Uint63.
Import ListNotations.
Require Import C01.Sums C01.Batch C01.Tensor C01.OpExpr C01.Model C01.Covered.
Open Scope Z_scope.

(* ---- compact literals ---------------------------------------------------------------------------------
   The shards write every tensor as flat row-major data in chunks of primitive 63-bit integers (sign-magnitude
   coded): primitive integer literals elaborate about three times faster than nested lists of Z numerals,
   and the elaboration of the literals dominates the compile time of a shard. *)
Definition zi (x : int) : Z :=       (* sign-magnitude: 2 |v| + (1 if v < 0) *)
  let v := Uint63.to_Z x in if Z.even v then (v / 2)%Z else (- (v / 2))%Z.

(* n consecutive pieces of length k *)
Fixpoint pieces_of {T} (n k : nat) (l : list T) : list (list T) :=
  match n with O => [] | S n' => firstn k l :: pieces_of n' k (skipn k l) end.

Definition untable (bs : shape) (r c : nat) (chunks : list (list int)) : table :=
  map (fun m => pieces_of r c m) (pieces_of (bnumel bs) (r * c) (map zi (concat chunks))).

Definition of_flat (bs : shape) (r c : nat) (chunks : list (list int)) : BT := of_table bs r c (untable bs r c chunks).

(* what the implementation returned: a tensor (batch shape innermost-first, rows, cols, entries in
   torch's row-major order) or an exception *)
Inductive obs := ObsT (bs : shape) (r c : nat) (t : table) | ObsErr.

Definition ObsF (bs : shape) (r c : nat) (chunks : list (list int)) : obs := ObsT bs r c (untable bs r c chunks).

Inductive query :=
| QMatmul (X : BT)      (* op @ X / op.matmul(X); a 1-D rhs is given as its n x 1 matrix, the 1-D result as m x 1 *)
| QRmatmul (Y : BT)     (* Y @ op, Y at least 2-D *)
| QRmatvec (v : BT)     (* v @ op, v 1-D given as n x 1; result given as n' x 1 *)
| QTMatmul (X : BT)     (* op.mT @ X *)
| QTmmInternal (X : BT) (* op._t_matmul(X): internal; reached publicly below Root-like parents and in backward *)
| QToDense              (* op.to_dense() *)
| QTToDense             (* op.mT.to_dense() *)
| QSize                 (* op.shape (= size(), batch_shape + matrix_shape); observed as ObsT bs m n [] *)
| QAccessors.           (* op.dim() (= ndimension()) and op.numel(); observed as ObsT [] dim numel [] *)

Definition shape_eqb3 (s : sz3) (bs : shape) (m n : nat) : bool :=
  shape_eqb (sz_b s) bs && Nat.eqb (sz_m s) m && Nat.eqb (sz_n s) n.

Definition run_query (e : OpExpr) (q : query) (o : obs) : bool :=
  match o with
  | ObsErr => false
  | ObsT bs r c t =>
      match q with
      | QMatmul X => BT_matches (pub_matmul e X) bs r c t
      | QRmatmul Y => BT_matches (pub_rmatmul e Y) bs r c t
      | QRmatvec v => BT_matches (pub_rmatvec e v) bs r c t
      | QTMatmul X => BT_matches (pub_matmul (tr e) X) bs r c t
      | QTmmInternal X => BT_matches (mm true e X) bs r c t
      | QToDense => BT_matches (td e) bs r c t
      | QTToDense => BT_matches (td (tr e)) bs r c t
      | QSize => shape_eqb3 (pub_shape e) bs r c
      | QAccessors => Nat.eqb (pub_dim e) r && Nat.eqb (pub_numel e) c
      end
  end.

Definition case := (OpExpr * list (query * obs))%type.

Fixpoint bad_queries (e : OpExpr) (qs : list (query * obs)) (j : nat) : list nat :=
  match qs with
  | [] => []
  | (q, o) :: r => if run_query e q o then bad_queries e r (S j) else j :: bad_queries e r (S j)
  end.

(* code = 100 * case index + query index ; query index 99 = the expression is not well formed (wfb) *)
Fixpoint bad_cases (cs : list case) (i : nat) : list nat :=
  match cs with
  | [] => []
  | (e, qs) :: r =>
      (if wfb e then [] else [(100 * i + 99)%nat]) ++
      map (fun j => (100 * i + j)%nat) (bad_queries e qs 0) ++ bad_cases r (S i)
  end.

(* how many of the cases lie inside the theorems' [covered] predicate *)
Definition count_covered (cs : list case) : nat := length (filter (fun c => coveredb (fst c)) cs).
