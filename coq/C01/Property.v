(* C01 — every operator acts exactly as the dense matrix it represents.
   Only theorem statements live here; each is closed by [exact]/[apply] of a lemma proved in Proofs*.v.

   Vocabulary (OpExpr.v, Model.v, Tensor.v, ProofsBase.v):
     denote e        the ONE dense batched matrix the constructor arguments of e denote (documented meaning)
     mm false e X    what e._matmul(X) computes          mm true e X    what e._t_matmul(X) computes
     sz e            what e._size() returns
     dmm D X         torch.matmul(D, X) with batch broadcasting;  mt t D = D^T if t else D
     A == B          same batch shape, same matrix size, same entries (at every in-range position)
     okrhs D X       X is a right-hand side torch.matmul accepts for D: nr X = nc D and the batch shapes broadcast
     wf e            the constructor arguments are what the constructors accept (shapes fit)
     covered e       every node of e is a class whose code is transcribed and proved (Covered.v lists the rest) *)
From Coq Require Import List ZArith Lia Bool Arith.
Import ListNotations.
Require Import C01.Sums C01.Batch C01.Tensor C01.OpExpr C01.Model C01.Covered.
Require Import C01.ProofsBase C01.ProofsAlg C01.ProofsKron C01.ProofsStruct C01.ProofsMore C01.ProofsPerm C01.ProofsRepeat C01.ProofsMul C01.ProofsSize C01.ProofsCatBatch C01.ProofsMain C01.ProofsTr.
Open Scope Z_scope.

(* MAIN THEOREM (partial: restricted to [covered]).  For every operator expression of ANY nesting depth built
   from the covered classes, every matrix size and every batch shape: multiplying with the operator
   (t = false) or with its transpose (t = true) is multiplying with the dense matrix it denotes - values,
   matrix shape and broadcast batch shape.  Missing cells: see Covered.v. *)
Theorem C01_matmul_partial : forall e, wf e -> covered e ->
  forall (t : bool) X, okrhs (mt t (denote e)) X -> mm t e X == dmm (mt t (denote e)) X.
Proof. intros e HW HC t X HX. exact (mm_correct e HW HC t X HX). Qed.

(* the PUBLIC product op @ X / op.matmul(X): class overrides (Diag family, Identity, Zero; Interpolated's gather /
   scatter sums) or Matmul.apply -> _matmul.  A 1-D right-hand side is its n x 1 matrix (unsqueeze / squeeze). *)
Theorem C01_matmul_public_partial : forall e, wf e -> covered e ->
  forall X, okrhs (denote e) X -> pub_matmul e X == dmm (denote e) X.
Proof. intros e HW HC X HX. exact (pub_correct e HW HC X HX). Qed.

(* _transpose_nonbatch: the transposed operator expression is again well formed and covered and denotes the
   transposed matrix (so op.mT @ X, by the main theorem applied to tr e, is D^T X) *)
Theorem C01_transpose_partial : forall e, wf e -> covered e ->
  wf (tr e) /\ covered (tr e) /\ denote (tr e) == dtr (denote e).
Proof. exact tr_correct. Qed.

(* to_dense(): the class overrides and the base-class default (matmul with the identity on the smaller side,
   double transpose when rows < cols) return the denoted matrix *)
Theorem C01_to_dense_partial : forall e, wf e -> covered e -> td e == denote e.
Proof. exact td_correct. Qed.

(* X @ op  (rmatmul = op.mT.matmul(X.mT).mT) is the dense product X D, batch shapes broadcasting *)
Theorem C01_rmatmul_partial : forall e Y, wf e -> covered e ->
  nc Y = nr (denote e) -> bcompat (bsh Y) (bsh (denote e)) = true -> pub_rmatmul e Y == dmm Y (denote e).
Proof. exact rmatmul_correct. Qed.

(* v @ op for a 1-D v (represented by its n x 1 matrix; rmatmul = op.mT.matmul(v)) is D^T v, i.e. the row vector v D *)
Theorem C01_rmatvec_partial : forall e v, wf e -> covered e ->
  nr v = nr (denote e) -> bcompat (bsh (denote e)) (bsh v) = true -> pub_rmatvec e v == dmm (dtr (denote e)) v.
Proof. exact rmatvec_correct. Qed.

(* the base-class default _t_matmul (self.mT._matmul(rhs)) computes what the flag-carrying model computes *)
Theorem C01_t_matmul_default_partial : forall e X, wf e -> covered e -> okrhs (dtr (denote e)) X ->
  mm true e X == mm false (tr e) X.
Proof. intros e X. exact (mm_true_tr e X). Qed.

(* _size() of EVERY class (no restriction to [covered]) is the shape of the dense matrix *)
Theorem C01_size : forall e, wf e -> sz e = (bsh (denote e), nr (denote e), nc (denote e)).
Proof. exact sz_correct. Qed.

(* the public size accessors of EVERY class: shape / size() (= batch_shape + matrix_shape), dim() / ndimension() and numel()
   are those of the dense tensor *)
Theorem C01_size_accessors : forall e, wf e ->
  pub_shape e = (bsh (denote e), nr (denote e), nc (denote e)) /\
  pub_dim e = (length (bsh (denote e)) + 2)%nat /\
  pub_numel e = (bnumel (bsh (denote e)) * nr (denote e) * nc (denote e))%nat.
Proof. exact accessors_correct. Qed.

(* Kronecker "vec trick": the factor loop of _matmul/_t_matmul computes (K1 (x) ... (x) Kk) X for ANY number of
   factors, any factor maps f that act as matrices K (nested operators), any sizes, batches, column counts *)
Theorem C01_kron_run_correct : forall (T : Type) (f : T -> BT -> BT) (K : T -> BT) (ops : list T),
  (forall x, In x ops -> acts (f x) (K x)) ->
  (forall x, In x ops -> (0 < nr (K x))%nat /\ (0 < nc (K x))%nat) ->
  pwc (map bsh (map K ops)) = true ->
  forall X, okrhs (kronl (map K ops)) X ->
    kron_run (map (fun x => (f x, nr (K x), nc (K x))) ops) (nc X) (dexpand (bcast (bsh (kronl (map K ops))) (bsh X)) X)
    == dmm (kronl (map K ops)) X.
Proof. intros T f K ops HA HK HP X HX. exact (kron_run_correct f K ops HA HK HP X HX). Qed.

(* symmetric Toeplitz product through the circulant embedding of length 2n-1 (circular convolution): all n *)
Theorem C01_toeplitz_circulant_correct : forall col X, nr X = nr col -> toeplitz_mm col X == dmm (dtoeplitz col) X.
Proof. exact toeplitz_circulant_correct. Qed.

(* add a block batch dimension, multiply blockwise, remove it = multiply with the block-diagonal /
   interleaved / batch-summed matrix: any block count, block size, batch shape, inner operator g *)
Theorem C01_block_diag_roundtrip : forall g Bm k bs,
  bsh Bm = k :: bs -> (0 < k)%nat -> (0 < nr Bm)%nat -> (0 < nc Bm)%nat -> acts g Bm ->
  acts (fun X => blk_remove_diag k (fr (g (blk_add_diag k X)))) (dblockdiag Bm).
Proof. exact acts_blockdiag. Qed.
Theorem C01_block_interleaved_roundtrip : forall g Bm k bs,
  bsh Bm = k :: bs -> (0 < k)%nat -> acts g Bm ->
  acts (fun X => blk_remove_inter k (fr (g (blk_add_inter k X)))) (dblockinter Bm).
Proof. exact acts_blockinter. Qed.
Theorem C01_sum_batch_roundtrip : forall g Bm k bs,
  bsh Bm = k :: bs -> (0 < k)%nat -> acts g Bm ->
  acts (fun X => blk_remove_sum (fr (g (blk_add_sum k X)))) (dsumbatch Bm).
Proof. exact acts_sumbatch. Qed.

(* boolean-mask operators: expand the rhs into the unmasked positions, multiply, select the masked rows *)
Theorem C01_masked_correct : forall g B rm cm, length rm = nr B -> length cm = nc B -> acts g B ->
  acts (fun X => mask_rows rm (fr (g (mask_expand cm X)))) (dmask B rm cm).
Proof. exact acts_masked. Qed.

(* interpolation: the gather-sum is W R, the scatter-sum (duplicate indices add) is W^T X *)
Theorem C01_interp_gather_correct : forall idx val n, bsh val = bsh idx -> idx_okb idx n = true ->
  acts (interp_gather idx val) (dinterp idx val n).
Proof. exact interp_gather_correct. Qed.
Theorem C01_interp_t_scatter_correct : forall idx val n, bsh val = bsh idx ->
  acts (fun X => interp_scatter idx val X n) (dtr (dinterp idx val n)).
Proof. exact interp_scatter_correct. Qed.

(* concatenation along rows (results stacked) and along columns (rhs cut into row blocks, partial products added) *)
Theorem C01_cat_rows_correct : forall (T : Type) (f : T -> BT -> BT) (D : T -> BT) x ops,
  (forall y, In y (x :: ops) -> acts (f y) (D y) /\ bsh (D y) = bsh (D x) /\ nc (D y) = nc (D x)) ->
  acts (fun X => dcat_rows (map (fun y => fr (f y X)) (x :: ops))) (dcat (map D (x :: ops)) CatRows).
Proof. intros T f D. exact (acts_cat_rows f D). Qed.
Theorem C01_cat_cols_correct : forall (T : Type) (f : T -> BT -> BT) (D : T -> BT) (len : T -> nat) x ops,
  (forall y, In y (x :: ops) -> acts (f y) (D y) /\ bsh (D y) = bsh (D x) /\ nr (D y) = nr (D x) /\ len y = nc (D y)) ->
  acts (fun X => dsum_pieces (pieces f len X (x :: ops) 0)) (dcat (map D (x :: ops)) CatCols).
Proof. intros T f D len. exact (acts_cat_cols f D len). Qed.

(* concatenation along a BATCH dimension (cat_dim < -2): expand the rhs to the output batch shape, narrow it per piece,
   multiply every piece with its own operator, torch.cat along that dimension = multiply with the concatenated tensor:
   any number (>= 2) of pieces of any sizes >= 1, any position p of the dimension, any broadcasting right-hand side *)
Theorem C01_cat_batch_correct : forall (T : Type) (f : T -> BT -> BT) (D : T -> BT) (len : T -> nat) p x ops,
  (p < length (bsh (D x)))%nat -> (1 <= length ops)%nat ->
  (forall y, In y (x :: ops) -> acts (f y) (D y) /\ bset (bsh (D y)) p 0%nat = bset (bsh (D x)) p 0%nat /\
                                nr (D y) = nr (D x) /\ nc (D y) = nc (D x) /\ len y = nth p (bsh (D y)) 0%nat /\ (0 < len y)%nat) ->
  acts (fun X => dcat (bpieces f len p (dexpand (bcast (bsh (dcat (map D (x :: ops)) (CatBatch p))) (bsh X)) X) (x :: ops) 0) (CatBatch p))
       (dcat (map D (x :: ops)) (CatBatch p)).
Proof. intros T f D len. exact (acts_cat_batch f D len). Qed.

(* Kronecker product of diagonal operators: _kron_diag builds the diagonal of the Kronecker product *)
Theorem C01_kron_diag_correct : forall ds, forallb (fun d => pos (nr d)) ds = true -> pwc (map bsh ds) = true ->
  kronl (map ddiag ds) == ddiag (kron_diag_vec ds).
Proof. exact kronl_ddiag. Qed.

(* BatchRepeat (square case): split every batch index I = R * base + S, move the repeat part R into extra columns
   (column' = col * numel + flat R), multiply ONCE with the base, move back = multiply with the tiled tensor;
   any rank, any base batch shape, any repeat counts, any broadcasting right-hand side *)
Theorem C01_batch_repeat_roundtrip : forall g B rep,
  acts g B -> forallb pos (bsh B) = true -> (length (bsh B) <= length rep)%nat ->
  acts (fun X => let Bout := bcast (brep (bsh B) rep) (bsh X) in
                 let pbs := bpad_to (bsh B) Bout in
                 let rp := bquot Bout pbs in
                 brep_back pbs rp Bout (nc X) (fr (g (fr (brep_to_cols pbs rp (nc X) (dexpand Bout X))))))
       (drepeat B rep).
Proof. exact acts_batchrepeat_square. Qed.

(* BatchRepeat over a RECTANGULAR base (the branch of _matmul that relies on broadcasting: base product, then expand) is right
   whenever no batch dimension of size > 1 is really repeated (only size-1 / new leading dimensions are) *)
Theorem C01_batch_repeat_broadcast_correct : forall g B rep,
  acts g B -> forallb pos (bsh B) = true -> (length (bsh B) <= length rep)%nat -> notile (bsh B) rep = true ->
  acts (fun X => dexpand (bcast (brep (bsh B) rep) (bsh X)) (g X)) (drepeat B rep).
Proof. exact acts_batchrepeat_rect. Qed.

(* Mul (root form): (L L^T o R) X = rowsum_a ( L[:,a] o (R (X o L[:,a])) ), any rank of the root, sizes, batches *)
Theorem C01_mul_root_formula : forall L R g, acts g R -> bsh L = bsh R -> nr L = nr R -> nr R = nc R ->
  acts (mul_mm L g (bsh R)) (dhad (dmm L (dtr L)) R).
Proof. exact acts_mul. Qed.

(* permutation operators: gather with perm is P X; gather with the sorted-index inverse is P^T X (pigeonhole: an injective
   map of 0..n-1 into itself is onto), all n, all batch shapes *)
Theorem C01_permutation_correct : forall p, perm_okb p = true ->
  acts (perm_mm p) (dperm p) /\ acts (perm_mm (inv_perm p)) (dtr (dperm p)) /\
  perm_okb (inv_perm p) = true /\ dperm (inv_perm p) == dtr (dperm p).
Proof.
  intros p HP. split; [apply acts_perm; exact HP|]. split; [apply acts_perm_inv; exact HP|].
  split; [apply inv_perm_ok; exact HP|apply dperm_inv; exact HP].
Qed.

(* the library's batch-shape rule (torch.broadcast_shapes as used by _matmul_broadcast_shape) is torch's
   documented rule: align at the right, sizes equal or 1, result takes the non-1 size; for ALL shapes *)
Theorem C01_broadcast_shapes : forall a b r, torch_broadcast_shapes a b = Some r <-> torch_rule a b r.
Proof. exact torch_broadcast_shapes_correct. Qed.

(* ---- non-vacuity ------------------------------------------------------------------------------------ *)

(* a nested, batched expression inside [covered] with a legal broadcasting right-hand side *)
Example C01_nonvacuous :
  let A := of_table [2%nat] 2 2 [[[1; 2]; [3; 4]]; [[0; 1]; [1; 0]]] in
  let d := of_table [] 2 1 [[[2]; [3]]] in
  let col := of_table [] 2 1 [[[2]; [1]]] in
  let e := Sum [Kron [Dense A; Toeplitz col]; BlockDiag (Dense (of_table [2%nat] 2 2 [[[1; 0]; [0; 1]]; [[1; 1]; [1; 1]]]));
                Matmul (Root (Diag (of_table [] 4 1 [[[1]; [2]; [3]; [4]]]))) (ConstantMul (Identity 4 []) (of_table [] 1 1 [[[5]]]));
                Masked (Cat [Dense (of_table [] 5 2 [[[1;2];[3;4];[5;6];[7;8];[9;0]]]); Dense (of_table [] 5 3 [[[1;0;0];[0;1;0];[0;0;1];[1;1;1];[2;2;2]]])] CatCols)
                       [true; true; false; true; true] [true; false; true; true; true];
                Interpolated (TransposePermutation 2) (of_table [] 4 1 [[[0];[2];[2];[3]]]) (of_table [] 4 1 [[[1];[2];[1];[1]]])
                             (of_table [] 4 2 [[[0;1];[1;1];[3;0];[2;2]]]) (of_table [] 4 2 [[[1;1];[1;2];[1;1];[1;1]]]);
                BatchRepeat (Mul (Root (Dense (of_table [] 4 2 [[[1;0];[0;1];[1;1];[2;1]]]))) (Root (Dense (of_table [] 4 1 [[[1];[2];[3];[4]]])))) [2%nat];
                Permutation (of_table [] 4 1 [[[2];[0];[3];[1]]])] in
  let X := of_table [2%nat; 3%nat] 4 1 [[[1];[0];[0];[0]]; [[0];[1];[0];[0]]; [[1];[1];[0];[0]]; [[0];[0];[1];[0]]; [[0];[0];[0];[1]]; [[1];[1];[1];[1]]] in
  wf e /\ covered e /\ okrhs (denote e) X.
Proof. vm_compute. repeat split. Qed.

(* a concatenation along the OUTER of two batch dimensions (pieces of sizes 1 and 2) inside [covered], with a right-hand side
   that broadcasts along it *)
Example C01_nonvacuous_cat_batch :
  let A := of_table [2%nat; 1%nat] 2 2 [[[1; 2]; [3; 4]]; [[0; 1]; [1; 0]]] in
  let B := of_table [2%nat; 2%nat] 2 1 [[[1]; [2]]; [[3]; [4]]; [[5]; [6]]; [[7]; [8]]] in
  let e := Cat [Dense A; Toeplitz B] (CatBatch 1) in
  let X := of_table [1%nat; 1%nat; 2%nat] 2 1 [[[1]; [0]]; [[0]; [1]]] in
  wf e /\ covered e /\ okrhs (denote e) X.
Proof. vm_compute. repeat split. Qed.

(* a rectangular base with a size-1 batch dimension repeated 3 times and a new leading dimension of 2: inside [covered] *)
Example C01_nonvacuous_batch_repeat_rect :
  let e := BatchRepeat (Dense (of_table [1%nat] 2 3 [[[1; 2; 3]; [4; 5; 6]]])) [3%nat; 2%nat] in
  let X := of_table [3%nat] 3 1 [[[1]; [0]; [0]]; [[0]; [1]; [0]]; [[0]; [0]; [1]]] in
  wf e /\ covered e /\ okrhs (denote e) X /\ nr (denote e) <> nc (denote e).
Proof. vm_compute. repeat split. discriminate. Qed.

(* the two cells that were excluded (and refuted) on the originally pinned tree - an upper-orientation Cholesky operator and a
   batched Zero operator - are inside [covered] on the repaired code *)
Example C01_nonvacuous_chol_upper_zero_batch :
  let e := Sum [Chol (of_table [] 2 2 [[[1; 2]; [0; 3]]]) true;
                Matmul (Dense (of_table [2%nat] 2 3 [[[1;0;2];[0;1;1]]; [[1;1;1];[2;0;1]]])) (Zero [2%nat] 3 2)] in
  let X := of_table [] 2 1 [[[1]; [1]]] in
  wf e /\ covered e /\ okrhs (denote e) X.
Proof. vm_compute. repeat split. Qed.
