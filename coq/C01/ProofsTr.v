(* C01.ProofsTr — _transpose_nonbatch, to_dense and left multiplication.
   tr e denotes the transposed matrix (and stays well formed / covered); to_dense (class overrides and the
   base-class default "matmul with the identity on the smaller side") returns the denoted matrix;
   X @ op (rmatmul = double transpose) is the dense product. *)
From Coq Require Import List ZArith Lia Bool Arith.
Import ListNotations.
Require Import C01.Sums C01.Batch C01.Tensor C01.OpExpr C01.Model C01.Covered.
Require Import C01.ProofsBase C01.ProofsAlg C01.ProofsKron C01.ProofsStruct C01.ProofsMore C01.ProofsPerm C01.ProofsRepeat C01.ProofsMul C01.ProofsSize C01.ProofsCatBatch C01.ProofsMain.
Open Scope Z_scope.

(* ---- congruences of the dense combinators ----------------------------------------------------- *)

Lemma kronl_eq Ks Ks' : Forall2 BTeq Ks Ks' -> pwc (map bsh Ks) = true -> kronl Ks == kronl Ks'.
Proof.
  induction 1 as [|K K' Ks Ks' HK HF IH]; intros HP; [apply BTeq_refl|].
  change (pwc (map bsh (K :: Ks))) with (forallb (fun y => bcompat (bsh K) y) (map bsh Ks) && pwc (map bsh Ks)) in HP.
  apply andb_true_iff in HP. destruct HP as [HP1 HP2].
  simpl. apply dkron_eq; [|exact HK|apply IH; exact HP2].
  destruct (kronl_shape Ks) as (S1 & _). rewrite S1. apply bcompat_bcast_all; assumption.
Qed.

Lemma dsuml_eq A l A' l' : Forall2 BTeq (A :: l) (A' :: l') -> dims_as A l = true -> pwc (map bsh (A :: l)) = true ->
  dsuml (A :: l) == dsuml (A' :: l').
Proof.
  intros HF HD HP. destruct (Forall2_shapes _ _ HF) as (E1 & E2 & E3).
  split; [rewrite !bsh_dsuml, E1; reflexivity|]. simpl in E2, E3. injection E2 as E2 _. injection E3 as E3 _.
  split; [exact E2|]. split; [exact E3|].
  intros I i j HI Hi Hj. simpl in Hi, Hj. cbn [ent dsuml].
  rewrite bsh_dsuml in HI.
  assert (HG : forall m m', Forall2 BTeq m m' -> (forall B, In B m -> In B (A :: l)) ->
               zsuml (map (fun B => bget B I i j) m) = zsuml (map (fun B => bget B I i j) m')).
  { induction 1 as [|B B' m m' HB HF' IH]; intros Hin; [reflexivity|]. simpl. f_equal.
    - assert (HBin : In B (A :: l)) by (apply Hin; left; reflexivity).
      eapply BTeq_bget; [exact HB| |exact HI| |].
      + apply bsub_bcast_all; [exact HP|apply in_map; exact HBin].
      + destruct HBin as [<-|HBl]; [exact Hi|]. unfold dims_as in HD. rewrite forallb_forall in HD. specialize (HD B HBl). bsplit. lia.
      + destruct HBin as [<-|HBl]; [exact Hj|]. unfold dims_as in HD. rewrite forallb_forall in HD. specialize (HD B HBl). bsplit. lia.
    - apply IH. intros C HC. apply Hin. right. exact HC. }
  apply (HG (A :: l) (A' :: l') HF). auto.
Qed.

(* ---- _transpose_nonbatch -------------------------------------------------------------------------- *)

Definition tr_ok (e : OpExpr) : Prop := wf e -> covered e -> wf (tr e) /\ covered (tr e) /\ denote (tr e) == dtr (denote e).

Lemma tr_cls e :
  is_diag_cls (tr e) = is_diag_cls e /\ is_kron_cls (tr e) = is_kron_cls e /\ is_lowrank_cls (tr e) = is_lowrank_cls e /\
  is_triangular_cls (tr e) = is_triangular_cls e /\ is_plain_diag_cls (tr e) = is_plain_diag_cls e /\ is_root_cls (tr e) = is_root_cls e.
Proof. destruct e; repeat split; reflexivity. Qed.

Lemma tr_shape e : denote (tr e) == dtr (denote e) ->
  bsh (denote (tr e)) = bsh (denote e) /\ nr (denote (tr e)) = nc (denote e) /\ nc (denote (tr e)) = nr (denote e).
Proof. intros H. destruct (BTeq_shape _ _ H) as (S1 & S2 & S3). auto. Qed.

Lemma tr_list ops : Forall tr_ok ops -> forallb wfb ops = true -> forallb coveredb ops = true ->
  forallb wfb (map tr ops) = true /\ forallb coveredb (map tr ops) = true /\
  Forall2 BTeq (map denote (map tr ops)) (map dtr (map denote ops)).
Proof.
  induction 1 as [|x ops Hx HF IH]; simpl; intros HW HC; [repeat split; constructor|].
  apply andb_true_iff in HW. destruct HW as [HW1 HW2]. apply andb_true_iff in HC. destruct HC as [HC1 HC2].
  destruct (Hx HW1 HC1) as (T1 & T2 & T3). destruct (IH HW2 HC2) as (L1 & L2 & L3).
  unfold wf, covered in *. rewrite T1, T2, L1, L2. repeat split. constructor; assumption.
Qed.

Lemma Forall2_In_l {A B} (R : A -> B -> Prop) l l' x : Forall2 R l l' -> In x l -> exists y, In y l' /\ R x y.
Proof.
  induction 1 as [|a b l l' Hab HF IH]; intros Hin; [contradiction|].
  destruct Hin as [<-|Hin]; [exists b; split; [left; reflexivity|exact Hab]|].
  destruct (IH Hin) as [y [Hy1 Hy2]]. exists y. split; [right; exact Hy1|exact Hy2].
Qed.

(* what the list facts give about shapes *)
Lemma tr_list_shapes ops : Forall2 BTeq (map denote (map tr ops)) (map dtr (map denote ops)) ->
  map bsh (map denote (map tr ops)) = map bsh (map denote ops) /\
  forall x, In x ops -> nr (denote (tr x)) = nc (denote x) /\ nc (denote (tr x)) = nr (denote x) /\ bsh (denote (tr x)) = bsh (denote x).
Proof.
  intros HF. destruct (Forall2_shapes _ _ HF) as (E1 & E2 & E3). split.
  - rewrite E1. rewrite !map_map. reflexivity.
  - clear E1 E2 E3. induction ops as [|y ops IH]; intros x Hx; [contradiction|].
    simpl in HF. inversion HF; subst. destruct Hx as [<-|Hx]; [|apply IH; assumption].
    destruct (BTeq_shape _ _ H2) as (S1 & S2 & S3). auto.
Qed.

Lemma kron_tr_case ops :
  Forall tr_ok ops -> forallb wfb ops = true -> forallb coveredb ops = true ->
  forallb (fun x => pos (nr (denote x)) && pos (nc (denote x))) ops = true ->
  pwc (map bsh (map denote ops)) = true ->
  forallb wfb (map tr ops) = true /\ forallb coveredb (map tr ops) = true /\
  forallb (fun x => pos (nr (denote x)) && pos (nc (denote x))) (map tr ops) = true /\
  pwc (map bsh (map denote (map tr ops))) = true /\
  kronl (map denote (map tr ops)) == dtr (kronl (map denote ops)).
Proof.
  intros HF HW HC HPos HP. destruct (tr_list ops HF HW HC) as (L1 & L2 & L3).
  destruct (tr_list_shapes ops L3) as (E1 & E2).
  split; [exact L1|]. split; [exact L2|]. split; [|split].
  - rewrite forallb_map. rewrite forallb_forall in *. intros x Hx. specialize (HPos x Hx).
    destruct (E2 x Hx) as (S1 & S2 & _). rewrite S1, S2. rewrite andb_comm. exact HPos.
  - rewrite E1. exact HP.
  - eapply BTeq_trans; [apply kronl_eq; [exact L3|rewrite E1; exact HP]|]. apply kronl_dtr. exact HP.
Qed.

Lemma sum_tr_case x ops :
  Forall tr_ok (x :: ops) -> forallb wfb (x :: ops) = true -> forallb coveredb (x :: ops) = true ->
  forallb (fun y => Nat.eqb (nr (denote y)) (nr (denote x)) && Nat.eqb (nc (denote y)) (nc (denote x))) ops = true ->
  pwc (map bsh (map denote (x :: ops))) = true ->
  forallb wfb (map tr (x :: ops)) = true /\ forallb coveredb (map tr (x :: ops)) = true /\
  forallb (fun y => Nat.eqb (nr (denote y)) (nr (denote (tr x))) && Nat.eqb (nc (denote y)) (nc (denote (tr x)))) (map tr ops) = true /\
  pwc (map bsh (map denote (map tr (x :: ops)))) = true /\
  dsuml (map denote (map tr (x :: ops))) == dtr (dsuml (map denote (x :: ops))).
Proof.
  intros HF HW HC HD HP. destruct (tr_list (x :: ops) HF HW HC) as (L1 & L2 & L3).
  destruct (tr_list_shapes (x :: ops) L3) as (E1 & E2).
  assert (HD' : forallb (fun y => Nat.eqb (nr (denote y)) (nr (denote (tr x))) && Nat.eqb (nc (denote y)) (nc (denote (tr x)))) (map tr ops) = true).
  { rewrite forallb_map. rewrite forallb_forall in *. intros y Hy. specialize (HD y Hy). bsplit.
    destruct (E2 y (or_intror Hy)) as (S1 & S2 & _). destruct (E2 x (or_introl eq_refl)) as (S3 & S4 & _).
    rewrite S1, S2, S3, S4. apply andb_true_iff; split; apply Nat.eqb_eq; assumption. }
  split; [exact L1|]. split; [exact L2|]. split; [exact HD'|]. split; [rewrite E1; exact HP|].
  eapply BTeq_trans; [|apply BTeq_sym; apply dtr_dsuml].
  change (map denote (map tr (x :: ops))) with (denote (tr x) :: map denote (map tr ops)).
  change (map dtr (map denote (x :: ops))) with (dtr (denote x) :: map dtr (map denote ops)).
  apply dsuml_eq; [exact L3| |].
  - unfold dims_as. rewrite !forallb_map. rewrite forallb_map in HD'. exact HD'.
  - change (denote (tr x) :: map denote (map tr ops)) with (map denote (map tr (x :: ops))). rewrite E1. exact HP.
Qed.

Lemma krondiag_sym ops : wf (KronDiag ops) -> denote (KronDiag ops) == dtr (denote (KronDiag ops)).
Proof.
  intros HW. destruct (diagv_correct (KronDiag ops) HW eq_refl) as [HK _].
  eapply BTeq_trans; [exact HK|]. eapply BTeq_trans; [apply BTeq_sym; apply dtr_ddiag|]. apply dtr_eq. apply BTeq_sym. exact HK.
Qed.

Lemma cat_tr_rows x ops :
  Forall tr_ok (x :: ops) -> forallb wfb (x :: ops) = true -> forallb coveredb (x :: ops) = true ->
  forallb (fun y => shape_eqb (bsh (denote y)) (bsh (denote x)) && Nat.eqb (nc (denote y)) (nc (denote x))) ops = true ->
  forallb wfb (map tr (x :: ops)) = true /\ forallb coveredb (map tr (x :: ops)) = true /\
  forallb (fun y => shape_eqb (bsh (denote y)) (bsh (denote (tr x))) && Nat.eqb (nr (denote y)) (nr (denote (tr x)))) (map tr ops) = true /\
  dcat (map denote (map tr (x :: ops))) CatCols == dtr (dcat (map denote (x :: ops)) CatRows).
Proof.
  intros HF HW HC HS. destruct (tr_list (x :: ops) HF HW HC) as (L1 & L2 & L3).
  destruct (tr_list_shapes (x :: ops) L3) as (E1 & E2).
  assert (HS' : forall y, In y (x :: ops) -> bsh (denote y) = bsh (denote x) /\ nc (denote y) = nc (denote x)).
  { intros y [<-|Hy]; [auto|]. rewrite forallb_forall in HS. specialize (HS y Hy). bsplit. auto. }
  split; [exact L1|]. split; [exact L2|]. split.
  - rewrite forallb_map. rewrite forallb_forall. intros y Hy.
    destruct (E2 y (or_intror Hy)) as (a1 & a2 & a3). destruct (E2 x (or_introl eq_refl)) as (b1 & b2 & b3).
    destruct (HS' y (or_intror Hy)) as [c1 c2]. rewrite a1, a3, b1, b3, c1, c2.
    apply andb_true_iff; split; [apply shape_eqb_eq; reflexivity|apply Nat.eqb_refl].
  - change (map denote (map tr (x :: ops))) with (denote (tr x) :: map denote (map tr ops)).
    eapply BTeq_trans; [apply (dcat_cols_eq _ _ (dtr (denote x)) (map dtr (map denote ops))); [exact L3|]|apply BTeq_sym; apply (dtr_dcat_rows (denote x) (map denote ops))].
    intros C HCin. change (denote (tr x) :: map denote (map tr ops)) with (map denote (map tr (x :: ops))) in HCin.
    rewrite map_map in HCin. apply in_map_iff in HCin. destruct HCin as [y [<- Hy]].
    destruct (E2 y Hy) as (a1 & a2 & a3). destruct (E2 x (or_introl eq_refl)) as (b1 & b2 & b3). destruct (HS' y Hy) as [c1 c2].
    split; congruence.
Qed.

Lemma cat_tr_cols x ops :
  Forall tr_ok (x :: ops) -> forallb wfb (x :: ops) = true -> forallb coveredb (x :: ops) = true ->
  forallb (fun y => shape_eqb (bsh (denote y)) (bsh (denote x)) && Nat.eqb (nr (denote y)) (nr (denote x))) ops = true ->
  forallb wfb (map tr (x :: ops)) = true /\ forallb coveredb (map tr (x :: ops)) = true /\
  forallb (fun y => shape_eqb (bsh (denote y)) (bsh (denote (tr x))) && Nat.eqb (nc (denote y)) (nc (denote (tr x)))) (map tr ops) = true /\
  dcat (map denote (map tr (x :: ops))) CatRows == dtr (dcat (map denote (x :: ops)) CatCols).
Proof.
  intros HF HW HC HS. destruct (tr_list (x :: ops) HF HW HC) as (L1 & L2 & L3).
  destruct (tr_list_shapes (x :: ops) L3) as (E1 & E2).
  assert (HS' : forall y, In y (x :: ops) -> bsh (denote y) = bsh (denote x) /\ nr (denote y) = nr (denote x)).
  { intros y [<-|Hy]; [auto|]. rewrite forallb_forall in HS. specialize (HS y Hy). bsplit. auto. }
  split; [exact L1|]. split; [exact L2|]. split.
  - rewrite forallb_map. rewrite forallb_forall. intros y Hy.
    destruct (E2 y (or_intror Hy)) as (a1 & a2 & a3). destruct (E2 x (or_introl eq_refl)) as (b1 & b2 & b3).
    destruct (HS' y (or_intror Hy)) as [c1 c2]. rewrite a2, a3, b2, b3, c1, c2.
    apply andb_true_iff; split; [apply shape_eqb_eq; reflexivity|apply Nat.eqb_refl].
  - change (map denote (map tr (x :: ops))) with (denote (tr x) :: map denote (map tr ops)).
    eapply BTeq_trans; [apply (dcat_rows_eq _ _ (dtr (denote x)) (map dtr (map denote ops))); [exact L3|]|apply BTeq_sym; apply (dtr_dcat_cols (denote x) (map denote ops))].
    intros C HCin. change (denote (tr x) :: map denote (map tr ops)) with (map denote (map tr (x :: ops))) in HCin.
    rewrite map_map in HCin. apply in_map_iff in HCin. destruct HCin as [y [<- Hy]].
    destruct (E2 y Hy) as (a1 & a2 & a3). destruct (E2 x (or_introl eq_refl)) as (b1 & b2 & b3). destruct (HS' y Hy) as [c1 c2].
    split; congruence.
Qed.

Lemma cat_tr_batch p x ops :
  Forall tr_ok (x :: ops) -> forallb wfb (x :: ops) = true -> forallb coveredb (x :: ops) = true ->
  (p <? length (bsh (denote x)))%nat = true ->
  forallb (fun y => shape_eqb (bset (bsh (denote y)) p 0%nat) (bset (bsh (denote x)) p 0%nat) &&
                    Nat.eqb (length (bsh (denote y))) (length (bsh (denote x))) &&
                    Nat.eqb (nr (denote y)) (nr (denote x)) && Nat.eqb (nc (denote y)) (nc (denote x))) ops = true ->
  forallb (fun y => pos (nth p (bsh (denote y)) 0%nat)) (x :: ops) = true ->
  forallb wfb (map tr (x :: ops)) = true /\ forallb coveredb (map tr (x :: ops)) = true /\
  (p <? length (bsh (denote (tr x))))%nat = true /\
  forallb (fun y => shape_eqb (bset (bsh (denote y)) p 0%nat) (bset (bsh (denote (tr x))) p 0%nat) &&
                    Nat.eqb (length (bsh (denote y))) (length (bsh (denote (tr x)))) &&
                    Nat.eqb (nr (denote y)) (nr (denote (tr x))) && Nat.eqb (nc (denote y)) (nc (denote (tr x)))) (map tr ops) = true /\
  forallb (fun y => pos (nth p (bsh (denote y)) 0%nat)) (map tr (x :: ops)) = true /\
  dcat (map denote (map tr (x :: ops))) (CatBatch p) == dtr (dcat (map denote (x :: ops)) (CatBatch p)).
Proof.
  intros HF HW HC HP HS HPos. destruct (tr_list (x :: ops) HF HW HC) as (L1 & L2 & L3).
  destruct (tr_list_shapes (x :: ops) L3) as (E1 & E2).
  assert (HS' : forall y, In y (x :: ops) -> bset (bsh (denote y)) p 0%nat = bset (bsh (denote x)) p 0%nat /\
                 length (bsh (denote y)) = length (bsh (denote x)) /\ nr (denote y) = nr (denote x) /\ nc (denote y) = nc (denote x)).
  { intros y [<-|Hy]; [auto|]. rewrite forallb_forall in HS. specialize (HS y Hy). bsplit. auto. }
  destruct (E2 x (or_introl eq_refl)) as (b1 & b2 & b3).
  split; [exact L1|]. split; [exact L2|]. split; [rewrite b3; exact HP|]. split; [|split].
  - rewrite forallb_map. rewrite forallb_forall. intros y Hy.
    destruct (E2 y (or_intror Hy)) as (a1 & a2 & a3). destruct (HS' y (or_intror Hy)) as (c1 & c2 & c3 & c4).
    rewrite a1, a2, a3, b1, b2, b3, c1, c2, c3, c4.
    repeat (apply andb_true_iff; split); try apply Nat.eqb_refl. apply shape_eqb_eq. reflexivity.
  - rewrite forallb_map. rewrite forallb_forall in *. intros y Hy. destruct (E2 y Hy) as (a1 & a2 & a3). rewrite a3. apply HPos. exact Hy.
  - change (map denote (map tr (x :: ops))) with (denote (tr x) :: map denote (map tr ops)).
    eapply BTeq_trans; [apply (dcat_batch_eq p _ _ (dtr (denote x)) (map dtr (map denote ops))); [|exact L3|]
                       |apply BTeq_sym; apply (dtr_dcat_batch p (denote x) (map denote ops))].
    + rewrite b3. apply Nat.ltb_lt. exact HP.
    + intros C HCin. change (denote (tr x) :: map denote (map tr ops)) with (map denote (map tr (x :: ops))) in HCin.
      rewrite map_map in HCin. apply in_map_iff in HCin. destruct HCin as [y [<- Hy]].
      destruct (E2 y Hy) as (a1 & a2 & a3). destruct (HS' y Hy) as (c1 & c2 & c3 & c4).
      rewrite a1, a2, a3, b1, b2, b3. auto.
Qed.

Ltac trih :=
  repeat match goal with
         | IH : tr_ok ?e, HW : wfb ?e = true, HC : coveredb ?e = true |- _ =>
             let T1 := fresh "TW" in let T2 := fresh "TC" in let T3 := fresh "TD" in
             destruct (IH HW HC) as (T1 & T2 & T3); clear IH;
             let S1 := fresh "SB" in let S2 := fresh "SR" in let S3 := fresh "SC" in
             destruct (tr_shape e T3) as (S1 & S2 & S3)
         end.

Lemma tr_two a b :
  nr (denote a) = nr (denote b) -> nc (denote a) = nc (denote b) -> bcompat (bsh (denote a)) (bsh (denote b)) = true ->
  denote (tr a) == dtr (denote a) -> denote (tr b) == dtr (denote b) ->
  dadd (denote (tr a)) (denote (tr b)) == dtr (dadd (denote a) (denote b)).
Proof.
  intros HR HN HC TA TB. destruct (tr_shape a TA) as (S1 & S2 & S3). destruct (tr_shape b TB) as (S4 & S5 & S6).
  eapply BTeq_trans; [apply dadd_eq; [| | |exact TA|exact TB]|apply BTeq_sym; apply dtr_dadd]; try congruence.
Qed.

Ltac tsplit := split; [|split].
Ltac rwshapes :=
  repeat match goal with
         | H : bsh (denote (tr ?e)) = _ |- context [bsh (denote (tr ?e))] => rewrite H
         | H : nr (denote (tr ?e)) = _ |- context [nr (denote (tr ?e))] => rewrite H
         | H : nc (denote (tr ?e)) = _ |- context [nc (denote (tr ?e))] => rewrite H
         end.
Ltac wfsolve :=
  simpl; rwshapes; repeat (apply andb_true_iff; split); try assumption; try (apply Nat.eqb_eq; congruence); try congruence;
  try (apply negb_true_iff; congruence).

Theorem tr_correct e : tr_ok e.
Proof.
  induction e using OpExpr_ind'; unfold tr_ok, wf, covered; intros HW HC; simpl in HW, HC; try discriminate; bsplit; trih.
  - (* Dense *) tsplit; [reflexivity|reflexivity|]. simpl. apply fr_eq.
  - (* Diag *) tsplit; [simpl; apply Nat.eqb_eq; assumption|reflexivity|]. apply BTeq_sym. apply dtr_ddiag.
  - (* ConstantDiag *) tsplit; [simpl; rewrite H, H0; reflexivity|reflexivity|]. apply BTeq_sym. apply dtr_dconstdiag.
  - (* Identity *) tsplit; [reflexivity|reflexivity|]. apply BTeq_sym. apply dtr_deye.
  - (* Zero *) tsplit; [reflexivity|reflexivity|]. simpl. repeat split.
  - (* Toeplitz *) tsplit; [simpl; apply Nat.eqb_eq; assumption|reflexivity|]. apply BTeq_sym. apply dtr_dtoeplitz.
  - (* Triangular *) tsplit; [simpl; apply Nat.eqb_eq; symmetry; assumption|reflexivity|]. simpl. apply fr_eq.
  - (* Chol *) tsplit; [simpl; apply Nat.eqb_eq; assumption|reflexivity|].
    destruct u; simpl; apply BTeq_sym; [apply dmm_AtA_sym|apply dmm_AAt_sym].
  - (* Root *) tsplit; [assumption|assumption|]. simpl. apply BTeq_sym. apply dmm_AAt_sym.
  - (* LowRankRoot *) tsplit; [assumption|assumption|]. simpl. apply BTeq_sym. apply dmm_AAt_sym.
  - (* Kron *) rewrite pw_fix_pwc in *.
    destruct (kron_tr_case ops) as (K1 & K2 & K3 & K4 & K5); try assumption.
    unfold wf, covered. cbn [tr wfb coveredb denote]. rewrite !denote_kron_fold, pw_fix_pwc, K1, K2, K3, K4.
    tsplit; [reflexivity|reflexivity|exact K5].
  - (* KronTriangular *) rewrite pw_fix_pwc in *.
    destruct (kron_tr_case ops) as (K1 & K2 & K3 & K4 & K5); try assumption.
    unfold wf, covered. cbn [tr wfb coveredb denote]. rewrite !denote_kron_fold, pw_fix_pwc, K1, K2, K3, K4.
    assert (HT : forallb is_triangular_cls (map tr ops) = true).
    { rewrite forallb_map. rewrite forallb_forall in *. intros x Hx. destruct (tr_cls x) as (_ & _ & _ & E & _). rewrite E. auto. }
    rewrite HT. tsplit; [reflexivity|reflexivity|exact K5].
  - (* KronDiag *) rewrite pw_fix_pwc in *.
    tsplit; [|simpl; assumption|apply krondiag_sym].
    + unfold wf. simpl. rewrite pw_fix_pwc. repeat (apply andb_true_iff; split); assumption.
    + unfold wf. simpl. rewrite pw_fix_pwc. repeat (apply andb_true_iff; split); assumption.
  - (* KronAddedDiag *)
    destruct (tr_cls e1) as (_ & CK & _). destruct (tr_cls e2) as (CD & _).
    tsplit; [wfsolve|wfsolve|simpl; apply tr_two; assumption].
  - (* SumKron *)
    destruct (tr_cls e1) as (_ & CK & _). destruct (tr_cls e2) as (_ & CK2 & _).
    tsplit; [wfsolve|wfsolve|simpl; apply tr_two; assumption].
  - (* AddedDiag *)
    destruct (tr_cls e1) as (CD1 & _). destruct (tr_cls e2) as (CD & _).
    tsplit; [wfsolve|wfsolve|simpl; apply tr_two; assumption].
  - (* LowRankRootAddedDiag *)
    destruct (tr_cls e1) as (_ & _ & CL & _). destruct (tr_cls e2) as (CD & _).
    tsplit; [wfsolve|wfsolve|simpl; apply tr_two; assumption].
  - (* Sum *) destruct ops as [|x ops]; [discriminate|]. rewrite pw_fix_pwc in *.
    assert (HP : pwc (map bsh (map denote (x :: ops))) = true) by (simpl; rewrite !forallb_map; assumption).
    destruct (sum_tr_case x ops) as (K1 & K2 & K3 & K4 & K5); try assumption.
    unfold wf, covered. cbn [tr wfb coveredb denote]. rewrite pw_fix_pwc. cbn [map] in *. rewrite K1, K2, K3, K4.
    tsplit; [reflexivity|reflexivity|exact K5].
  - (* PsdSum *) destruct ops as [|x ops]; [discriminate|]. rewrite pw_fix_pwc in *.
    assert (HP : pwc (map bsh (map denote (x :: ops))) = true) by (simpl; rewrite !forallb_map; assumption).
    destruct (sum_tr_case x ops) as (K1 & K2 & K3 & K4 & K5); try assumption.
    unfold wf, covered. cbn [tr wfb coveredb denote]. rewrite pw_fix_pwc. cbn [map] in *. rewrite K1, K2, K3, K4.
    tsplit; [reflexivity|reflexivity|exact K5].
  - (* Matmul *)
    tsplit; [wfsolve|wfsolve|]. 
    + rewrite bcompat_sym. assumption.
    + simpl. eapply BTeq_trans; [|apply BTeq_sym; apply dmm_dtr; [assumption|symmetry; assumption]].
      eapply BTeq_trans; [apply dmm_eq_l; [rewrite SB, SB0, bcompat_sym; assumption|exact TD]|].
      apply dmm_eq_r; [simpl; rewrite SB0, bcompat_sym; assumption|simpl; congruence|exact TD0].
  - (* Mul *) destruct (simple_root_denote e1) as [D1 C1]; [assumption|]. destruct (simple_root_denote e2) as [D2 C2]; [assumption|].
    tsplit; [unfold wf; simpl; repeat (apply andb_true_iff; split); try assumption; try (apply shape_eqb_eq; assumption); apply Nat.eqb_eq; assumption
            |unfold covered; simpl; apply andb_true_iff; split; assumption|].
    simpl tr. simpl denote. apply BTeq_sym. apply (gram_sym_mt true).
    + rewrite D1. apply dmm_AAt_sym.
    + rewrite D2. apply dmm_AAt_sym.
    + match goal with HE : bsh (denote e1) = bsh (denote e2) |- _ => rewrite HE end. apply bcompat_refl.
    + congruence.
    + congruence.
  - (* ConstantMul *)
    tsplit; [wfsolve|wfsolve|]. simpl. eapply BTeq_trans; [apply dscale_eq; exact TD|apply BTeq_sym; apply dtr_dscale].
  - (* BlockDiag *)
    destruct (tr_cls e) as (CD & _).
    tsplit; [wfsolve|wfsolve|]. simpl. eapply BTeq_trans; [apply dblockdiag_eq; exact TD|apply BTeq_sym; apply dtr_dblockdiag].
  - (* BlockInterleaved *)
    tsplit; [wfsolve|wfsolve|]. simpl. eapply BTeq_trans; [apply dblockinter_eq; exact TD|apply BTeq_sym; apply dtr_dblockinter].
  - (* SumBatch *)
    tsplit; [wfsolve|wfsolve|]. simpl. eapply BTeq_trans; [apply dsumbatch_eq; exact TD|apply BTeq_sym; apply dtr_dsumbatch].
  - (* BatchRepeat *)
    tsplit; [wfsolve| |].
    { unfold covered. simpl. rwshapes. rewrite (Nat.eqb_sym (nc (denote e)) (nr (denote e))). apply andb_true_iff; split; assumption. }
    simpl. eapply BTeq_trans; [apply drepeat_eq; [rewrite SB; assumption|exact TD]|apply BTeq_sym; apply dtr_drepeat].
  - (* Cat *) destruct ops as [|x ops]; [discriminate|]. destruct ops as [|x2 ops]; [discriminate|].
    destruct d; try discriminate.
    + destruct (cat_tr_rows x (x2 :: ops)) as (K1 & K2 & K3 & K4); try assumption.
      unfold wf, covered. cbn [tr wfb coveredb denote]. cbn [map] in *. rewrite K1, K2, K3. tsplit; [reflexivity|reflexivity|exact K4].
    + destruct (cat_tr_cols x (x2 :: ops)) as (K1 & K2 & K3 & K4); try assumption.
      unfold wf, covered. cbn [tr wfb coveredb denote]. cbn [map] in *. rewrite K1, K2, K3. tsplit; [reflexivity|reflexivity|exact K4].
    + bsplit. destruct (cat_tr_batch p x (x2 :: ops)) as (K1 & K2 & K3 & K4 & K5 & K6); try assumption.
      unfold wf, covered. cbn [tr wfb coveredb denote]. cbn [map] in *. rewrite K1, K2, K3, K4, K5. tsplit; [reflexivity|reflexivity|exact K6].
  - (* Interpolated *)
    tsplit; [|assumption|].
    + unfold wf. simpl. rwshapes. repeat (apply andb_true_iff; split); try assumption; try (apply shape_eqb_eq; congruence);
        try (apply Nat.eqb_eq; congruence); congruence.
    + simpl. rewrite SR, SC.
      set (K := denote e) in *. set (Wl := dinterp li lv (nr K)). set (Wr := dinterp ri rv (nc K)).
      assert (B1 : bsh Wr = bsh Wl) by (unfold Wl, Wr; simpl; assumption).
      assert (B2 : bsub (bsh K) (bsh Wl) = true) by (unfold Wl; simpl; assumption).
      assert (HCk : bcompat (bsh K) (bsh Wl) = true) by (apply bsub_bcompat; exact B2).
      eapply BTeq_trans; [|apply BTeq_sym; apply dtr_interp; try reflexivity; assumption].
      apply dmm_eq_r; [change (bcompat (bsh Wr) (bcast (bsh (denote (tr e))) (bsh Wl)) = true);
                       rewrite SB, B1, (bsub_bcast_eq _ _ B2); apply bcompat_refl|exact SR|].
      apply dmm_eq_l; [change (bcompat (bsh (denote (tr e))) (bsh Wl) = true); rewrite SB; exact HCk|exact TD].
  - (* Masked *)
    tsplit; [wfsolve|wfsolve|]. simpl.
    eapply BTeq_trans; [apply dmask_eq; [congruence|congruence|exact TD]|apply BTeq_sym; apply dtr_dmask].
  - (* Permutation *)
    assert (HE : perm_okb (fr (inv_perm p)) = true).
    { rewrite (perm_okb_eq (fr (inv_perm p)) (inv_perm p) (fr_eq _) eq_refl). apply inv_perm_ok. assumption. }
    tsplit; [unfold wf; simpl wfb; rewrite HE; reflexivity|reflexivity|].
    simpl denote. eapply BTeq_trans; [apply dperm_eq; [apply fr_eq|reflexivity]|apply dperm_inv; assumption].
  - (* TransposePermutation *) tsplit; [assumption|reflexivity|]. apply BTeq_sym. apply dtr_dtransperm.
  - (* Kernel *)
    tsplit; [wfsolve|reflexivity|]. 
    + rewrite bcompat_sym. assumption.
    + simpl. apply BTeq_sym. apply dtr_dkernel; assumption.
  - (* UserMinimal *) tsplit; [reflexivity|reflexivity|]. simpl. apply fr_eq.
Qed.

(* ---- consequences ------------------------------------------------------------------------------- *)

(* the base-class default _t_matmul (self.mT._matmul(rhs)) and the flag-carrying model agree *)
Theorem mm_true_tr e X : wf e -> covered e -> okrhs (dtr (denote e)) X -> mm true e X == mm false (tr e) X.
Proof.
  intros HW HC HX. destruct (tr_correct e HW HC) as (TW & TC & TD). destruct (tr_shape e TD) as (S1 & S2 & S3).
  eapply BTeq_trans; [apply (mm_correct e HW HC true X HX)|]. apply BTeq_sym.
  destruct HX as [H1 H2]. simpl in H1, H2.
  eapply BTeq_trans; [apply (mm_correct (tr e) TW TC false X); split; simpl; [congruence|rewrite S1; exact H2]|].
  simpl mt. apply dmm_eq_l; [rewrite S1; exact H2|exact TD].
Qed.

(* the public matmul (class overrides included) acts as the denoted matrix *)
Theorem pub_correct e : wf e -> covered e -> acts (pub_matmul e) (denote e).
Proof.
  induction e using OpExpr_ind'; intros HW HC; try exact (mm_correct _ HW HC false).
  unfold wf, covered in HW, HC. simpl in HW, HC. bsplit.
  specialize (IHe H HC). cbn [pub_matmul denote]. rewrite (sz_correct e H). unfold shp, sz_n. cbn [snd].
  set (K := denote e) in *. set (Wl := dinterp li lv (nr K)). set (Wr := dinterp ri rv (nc K)).
  assert (B1 : bsh Wr = bsh Wl) by (unfold Wl, Wr; simpl; assumption).
  assert (B2 : bsub (bsh K) (bsh Wl) = true) by (unfold Wl; simpl; assumption).
  assert (HCk : bcompat (bsh K) (bsh Wl) = true) by (apply bsub_bcompat; exact B2).
  apply (acts_comp (interp_gather li lv) (fun X => pub_matmul e (fr (interp_scatter ri rv X (nc K)))) Wl (dmm K (dtr Wr))).
  - apply interp_gather_correct; assumption.
  - apply (acts_comp (pub_matmul e) (fun X => interp_scatter ri rv X (nc K)) K (dtr Wr) IHe).
    + apply interp_scatter_correct. congruence.
    + reflexivity.
    + change (bcompat (bsh K) (bsh Wr) = true). rewrite B1. exact HCk.
  - reflexivity.
  - change (bcompat (bsh Wl) (bcast (bsh K) (bsh Wr)) = true). rewrite B1, (bsub_bcast_eq _ _ B2). apply bcompat_refl.
Qed.

(* X @ op :  op.mT.matmul(X.mT).mT *)
Theorem rmatmul_correct e Y : wf e -> covered e -> nc Y = nr (denote e) -> bcompat (bsh Y) (bsh (denote e)) = true ->
  pub_rmatmul e Y == dmm Y (denote e).
Proof.
  intros HW HC HN HB. destruct (tr_correct e HW HC) as (TW & TC & TD). destruct (tr_shape e TD) as (S1 & S2 & S3).
  unfold pub_rmatmul.
  assert (HB' : bcompat (bsh (denote e)) (bsh Y) = true) by (rewrite bcompat_sym; exact HB).
  assert (H1 : pub_matmul (tr e) (fr (dtr Y)) == dmm (dtr (denote e)) (dtr Y)).
  { eapply BTeq_trans; [apply (pub_correct (tr e) TW TC); split; simpl; [congruence|rewrite S1; exact HB']|].
    eapply BTeq_trans; [apply dmm_eq_l; [simpl; rewrite S1; exact HB'|exact TD]|].
    apply dmm_eq_r; [exact HB'|simpl; exact HN|apply fr_eq]. }
  eapply BTeq_trans; [apply dtr_eq; exact H1|].
  eapply BTeq_trans; [apply dmm_dtr; [exact HB'|simpl; exact HN]|].
  eapply BTeq_trans; [apply dmm_eq_l; [simpl; exact HB|apply dtr_dtr]|].
  apply dmm_eq_r; [exact HB|simpl; symmetry; exact HN|apply dtr_dtr].
Qed.

(* v @ op for a 1-D v (as an n x 1 matrix):  op.mT.matmul(v)  is  D^T v *)
Theorem rmatvec_correct e v : wf e -> covered e -> nr v = nr (denote e) -> bcompat (bsh (denote e)) (bsh v) = true ->
  pub_rmatvec e v == dmm (dtr (denote e)) v.
Proof.
  intros HW HC HN HB. destruct (tr_correct e HW HC) as (TW & TC & TD). destruct (tr_shape e TD) as (S1 & S2 & S3).
  unfold pub_rmatvec.
  eapply BTeq_trans; [apply (pub_correct (tr e) TW TC); split; [congruence|rewrite S1; exact HB]|].
  apply dmm_eq_l; [rewrite S1; exact HB|exact TD].
Qed.

(* shape / size() / dim() / numel() / batch_shape / matrix_shape: all derived from _size() *)
Theorem accessors_correct e : wf e ->
  pub_shape e = (bsh (denote e), nr (denote e), nc (denote e)) /\
  pub_dim e = (length (bsh (denote e)) + 2)%nat /\
  pub_numel e = (bnumel (bsh (denote e)) * nr (denote e) * nc (denote e))%nat.
Proof. intros HW. unfold pub_shape, pub_dim, pub_numel. rewrite (sz_correct e HW). repeat split. Qed.

(* LinearOperator.to_dense (default): matmul with the identity on the smaller side *)
Lemma default_to_dense_correct e : wf e -> covered e -> default_to_dense e == denote e.
Proof.
  intros HW HC. unfold default_to_dense. rewrite (sz_correct e HW). unfold shp, sz_b, sz_m, sz_n. simpl.
  destruct (tr_correct e HW HC) as (TW & TC & TD). destruct (tr_shape e TD) as (S1 & S2 & S3).
  destruct (Nat.ltb_spec (nr (denote e)) (nc (denote e))).
  - assert (H1 : pub_matmul (tr e) (deye (bsh (denote e)) (nr (denote e))) == dtr (denote e)).
    { eapply BTeq_trans; [apply (pub_correct (tr e) TW TC); split; simpl; [congruence|rewrite S1; apply bcompat_refl]|].
      eapply BTeq_trans; [apply dmm_eq_l; [simpl; rewrite S1; apply bcompat_refl|exact TD]|].
      apply (dmm_eye_r (dtr (denote e))). }
    eapply BTeq_trans; [apply dtr_eq; exact H1|apply dtr_dtr].
  - eapply BTeq_trans; [apply (pub_correct e HW HC); split; simpl; [reflexivity|apply bcompat_refl]|].
    apply dmm_eye_r.
Qed.

Lemma dmulc_dscale R B c : R == B -> bsub (bsh c) (bsh B) = true -> dmulc R c == dscale B c.
Proof.
  intros (e1 & e2 & e3 & e4) HS. unfold dmulc, dscale. rewrite e1.
  split; [apply bcast_sub_r; exact HS|]. split; [exact e2|]. split; [exact e3|].
  simpl. intros I i j HI Hi Hj. rewrite (bcast_sub_r _ _ HS) in HI. rewrite <- e1 in HI.
  rewrite (bget_in R I i j HI). rewrite e4 by assumption. reflexivity.
Qed.

Lemma td_two Ta Tb A B : Ta == A -> Tb == B -> nr A = nr B -> nc A = nc B -> bcompat (bsh A) (bsh B) = true ->
  dsuml [Ta; Tb] == dadd A B.
Proof.
  intros HA HB HR HN HC. destruct (BTeq_shape _ _ HA) as (a1 & a2 & a3). destruct (BTeq_shape _ _ HB) as (b1 & b2 & b3).
  eapply BTeq_trans; [apply dsuml_two; congruence|]. apply dadd_eq; try congruence.
Qed.

Lemma td_list ops : Forall (fun e => wf e -> covered e -> td e == denote e) ops ->
  forallb wfb ops = true -> forallb coveredb ops = true -> Forall2 BTeq (map td ops) (map denote ops).
Proof.
  induction 1 as [|x ops Hx HF IH]; simpl; intros HW HC; [constructor|].
  apply andb_true_iff in HW. destruct HW as [HW1 HW2]. apply andb_true_iff in HC. destruct HC as [HC1 HC2].
  constructor; [apply Hx; assumption|apply IH; assumption].
Qed.

Lemma td_sum x ops : Forall (fun e => wf e -> covered e -> td e == denote e) (x :: ops) ->
  forallb wfb (x :: ops) = true -> forallb coveredb (x :: ops) = true ->
  forallb (fun y => Nat.eqb (nr (denote y)) (nr (denote x)) && Nat.eqb (nc (denote y)) (nc (denote x))) ops = true ->
  pwc (map bsh (map denote (x :: ops))) = true ->
  dsuml (map td (x :: ops)) == dsuml (map denote (x :: ops)).
Proof.
  intros HF HW HC HD HP. pose proof (td_list _ HF HW HC) as HL. destruct (Forall2_shapes _ _ HL) as (E1 & E2 & E3).
  change (map td (x :: ops)) with (td x :: map td ops). change (map denote (x :: ops)) with (denote x :: map denote ops).
  apply dsuml_eq; [exact HL| |change (td x :: map td ops) with (map td (x :: ops)); rewrite E1; exact HP].
  simpl in E2, E3. injection E2 as E2a E2b. injection E3 as E3a E3b.
  unfold dims_as. rewrite forallb_map. rewrite forallb_forall in *. intros y Hy. specialize (HD y Hy). bsplit.
  assert (Hy2 : nr (td y) = nr (denote y) /\ nc (td y) = nc (denote y)).
  { clear - HL Hy. inversion HL; subst. clear HL H2. induction ops as [|z ops IH]; [contradiction|].
    simpl in H4. inversion H4; subst. destruct Hy as [<-|Hy]; [destruct (BTeq_shape _ _ H2) as (_ & s2 & s3); auto|apply IH; assumption]. }
  destruct Hy2 as [Y1 Y2]. rewrite Y1, Y2, E2a, E3a. apply andb_true_iff; split; apply Nat.eqb_eq; assumption.
Qed.

Theorem td_correct e : wf e -> covered e -> td e == denote e.
Proof.
  induction e using OpExpr_ind'; unfold wf, covered; intros HW HC;
    try (apply default_to_dense_correct; assumption); simpl in HW, HC; try discriminate; bsplit;
    try (simpl; apply BTeq_refl).
  - (* Root *) simpl. specialize (IHe HW HC).
    assert (HR : fr (td e) == denote e) by (apply fr_eq'; exact IHe). destruct (BTeq_shape _ _ HR) as (S1 & S2 & S3).
    eapply BTeq_trans; [apply dmm_eq_l; [change (bsh (dtr (fr (td e)))) with (bsh (fr (td e))); apply bcompat_refl|exact HR]|].
    apply dmm_eq_r; [change (bsh (dtr (fr (td e)))) with (bsh (fr (td e))); rewrite S1; apply bcompat_refl|change (nr (dtr (fr (td e)))) with (nc (fr (td e))); rewrite S3; reflexivity|apply dtr_eq; exact HR].
  - (* LowRankRoot *) simpl. specialize (IHe HW HC).
    assert (HR : fr (td e) == denote e) by (apply fr_eq'; exact IHe). destruct (BTeq_shape _ _ HR) as (S1 & S2 & S3).
    eapply BTeq_trans; [apply dmm_eq_l; [change (bsh (dtr (fr (td e)))) with (bsh (fr (td e))); apply bcompat_refl|exact HR]|].
    apply dmm_eq_r; [change (bsh (dtr (fr (td e)))) with (bsh (fr (td e))); rewrite S1; apply bcompat_refl|change (nr (dtr (fr (td e)))) with (nc (fr (td e))); rewrite S3; reflexivity|apply dtr_eq; exact HR].
  - (* KronDiag *) rewrite pw_fix_pwc in *.
    assert (HWk : wf (KronDiag ops)) by (unfold wf; simpl; rewrite pw_fix_pwc; repeat (apply andb_true_iff; split); assumption).
    destruct (diagv_correct (KronDiag ops) HWk eq_refl) as [HK _]. apply BTeq_sym. exact HK.
  - (* KronAddedDiag *) simpl. apply td_two; [apply IHe1; assumption|apply IHe2; assumption|assumption..].
  - (* SumKron *) simpl. apply td_two; [apply IHe1; assumption|apply IHe2; assumption|assumption..].
  - (* AddedDiag *) simpl. apply td_two; [apply IHe1; assumption|apply IHe2; assumption|assumption..].
  - (* LowRankRootAddedDiag *) simpl. apply td_two; [apply IHe1; assumption|apply IHe2; assumption|assumption..].
  - (* Sum *) destruct ops as [|x ops]; [discriminate|]. rewrite pw_fix_pwc in *. cbn [td denote].
    apply td_sum; try assumption. simpl; rewrite !forallb_map; assumption.
  - (* PsdSum *) destruct ops as [|x ops]; [discriminate|]. rewrite pw_fix_pwc in *. cbn [td denote].
    apply td_sum; try assumption. simpl; rewrite !forallb_map; assumption.
  - (* Matmul *) simpl. 
    assert (HL : fr (td e1) == denote e1) by (apply fr_eq'; apply IHe1; assumption).
    assert (HR : fr (td e2) == denote e2) by (apply fr_eq'; apply IHe2; assumption).
    destruct (BTeq_shape _ _ HL) as (a1 & a2 & a3). destruct (BTeq_shape _ _ HR) as (b1 & b2 & b3).
    eapply BTeq_trans; [apply dmm_eq_l; [rewrite a1, b1; assumption|exact HL]|].
    apply dmm_eq_r; [rewrite b1; assumption|congruence|exact HR].
  - (* Mul *) destruct (simple_root_denote e1) as [D1 C1]; [assumption|]. destruct (simple_root_denote e2) as [D2 C2]; [assumption|].
    specialize (IHe1 ltac:(assumption) C1). specialize (IHe2 ltac:(assumption) C2).
    destruct (BTeq_shape _ _ IHe1) as (a1 & a2 & a3). destruct (BTeq_shape _ _ IHe2) as (b1 & b2 & b3).
    simpl td. simpl denote. apply dhad_eq; try assumption; try congruence.
    rewrite a1, b1. match goal with HE : bsh (denote e1) = bsh (denote e2) |- _ => rewrite HE end. apply bcompat_refl.
  - (* ConstantMul *) simpl. apply dmulc_dscale; [apply IHe; assumption|assumption].
  - (* BlockDiag *) cbn [td]. destruct (is_diag_cls e) eqn:HD.
    + destruct (bsh (denote e)) as [|k bs] eqn:HS; [discriminate|].
      unfold pos in *. repeat match goal with HH : (0 <? _)%nat = true |- _ => apply Nat.ltb_lt in HH end.
      destruct (diagv_correct e) as [HV HV1]; [assumption|assumption|].
      destruct (BTeq_shape _ _ HV) as (v1 & v2 & v3). simpl in v1, v2, v3.
      apply BTeq_sym. simpl denote. eapply BTeq_trans; [apply dblockdiag_eq; exact HV|].
      apply (flatten_ddiag (diagv e) k bs); congruence.
    + apply default_to_dense_correct; unfold wf, covered; simpl; repeat (apply andb_true_iff; split); try assumption;
        try (apply Nat.eqb_eq; assumption).
  - (* SumBatch *) simpl. apply dsumbatch_eq. apply IHe; assumption.
  - (* Cat *) destruct ops as [|x ops]; [discriminate|]. destruct ops as [|x2 ops]; [discriminate|].
    assert (HCc : forallb coveredb (x :: x2 :: ops) = true) by (destruct d; try discriminate; assumption).
    pose proof (td_list _ H ltac:(assumption) HCc) as HL. destruct (Forall2_shapes _ _ HL) as (E1 & E2 & E3).
    cbn [td denote]. cbn [map] in *.
    assert (HSh : forall C, In C (td x :: td x2 :: map td ops) -> exists y, In y (x :: x2 :: ops) /\ C = td y).
    { intros C HCin. change (td x :: td x2 :: map td ops) with (map td (x :: x2 :: ops)) in HCin.
      apply in_map_iff in HCin. destruct HCin as [y [<- Hy]]. exists y. auto. }
    assert (HTy : forall y, In y (x :: x2 :: ops) -> bsh (td y) = bsh (denote y) /\ nr (td y) = nr (denote y) /\ nc (td y) = nc (denote y)).
    { intros y Hy. rewrite Forall_forall in H. apply BTeq_shape. apply (H y Hy); [eapply wfb_all_in; eauto|eapply covered_all_in; eauto]. }
    destruct d; try discriminate.
    + apply dcat_rows_eq; [exact HL|]. intros C HCin. destruct (HSh C HCin) as [y [Hy ->]].
      destruct (HTy y Hy) as (a1 & a2 & a3). destruct (HTy x (or_introl eq_refl)) as (b1 & b2 & b3).
      destruct Hy as [<-|Hy]; [auto|]. match goal with HH : forallb _ (x2 :: ops) = true |- _ => rewrite forallb_forall in HH; specialize (HH y Hy) end. bsplit. split; congruence.
    + apply dcat_cols_eq; [exact HL|]. intros C HCin. destruct (HSh C HCin) as [y [Hy ->]].
      destruct (HTy y Hy) as (a1 & a2 & a3). destruct (HTy x (or_introl eq_refl)) as (b1 & b2 & b3).
      destruct Hy as [<-|Hy]; [auto|]. match goal with HH : forallb _ (x2 :: ops) = true |- _ => rewrite forallb_forall in HH; specialize (HH y Hy) end. bsplit. split; congruence.
    + bsplit. destruct (HTy x (or_introl eq_refl)) as (b1 & b2 & b3).
      apply dcat_batch_eq; [rewrite b1; match goal with HH : (p <? _)%nat = true |- _ => apply Nat.ltb_lt in HH; exact HH end|exact HL|].
      intros C HCin. destruct (HSh C HCin) as [y [Hy ->]]. destruct (HTy y Hy) as (a1 & a2 & a3). rewrite a1, a2, a3, b1, b2, b3.
      destruct Hy as [<-|Hy]; [auto|].
      match goal with HH : forallb _ (x2 :: ops) = true |- _ => rewrite forallb_forall in HH; specialize (HH y Hy) end. bsplit. auto.
  - (* Masked *) simpl. specialize (IHe H HC). destruct (BTeq_shape _ _ IHe) as (a1 & a2 & a3).
    apply dmask_eq; [congruence|congruence|exact IHe].
Qed.
