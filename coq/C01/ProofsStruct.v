(* C01.ProofsStruct — index-map kernels: symmetric Toeplitz product by circulant embedding,
   block-diagonal / interleaved / batch-sum operators (add a block batch dimension, multiply, remove it). *)
From Coq Require Import List ZArith Lia Bool Arith.
Import ListNotations.
Require Import C01.Sums C01.Batch C01.Tensor C01.OpExpr C01.Model C01.ProofsBase C01.ProofsAlg.
Open Scope Z_scope.

(* ---- Toeplitz ------------------------------------------------------------------------------------ *)

Lemma absdiff_le i k : (k <= i)%nat -> absdiff i k = (i - k)%nat.
Proof. intros H. unfold absdiff. destruct (Nat.ltb_spec i k); [lia|reflexivity]. Qed.
Lemma absdiff_gt i k : (i < k)%nat -> absdiff i k = (k - i)%nat.
Proof. intros H. unfold absdiff. destruct (Nat.ltb_spec i k); [reflexivity|lia]. Qed.
Lemma absdiff_sym i k : absdiff i k = absdiff k i.
Proof. unfold absdiff. destruct (Nat.ltb_spec i k), (Nat.ltb_spec k i); lia. Qed.

(* the circulant embedding of length 2n-1 reproduces T[i,k] = col[|i-k|] on the first n rows/columns *)
Theorem toeplitz_circulant_correct col X :
  nr X = nr col -> toeplitz_mm col X == dmm (dtoeplitz col) X.
Proof.
  intros HN. unfold toeplitz_mm, dmm, dtoeplitz. repeat split; cbn [bsh nr nc ent].
  intros I i j HI Hi Hj.
  set (n := nr col) in *. set (L := (2 * n - 1)%nat).
  assert (EL : L = (n + (n - 1))%nat) by (unfold L; lia).
  rewrite EL, zsum_app. rewrite <- EL.
  rewrite (zsum_zero (n - 1)); [|intros k Hk; destruct (Nat.ltb_spec (n + k) n); [lia|ring]].
  rewrite Z.add_0_r. apply zsum_ext. intros k Hk.
  destruct (Nat.ltb_spec k n) as [_|]; [|lia]. f_equal.
  unfold bget at 3. simpl.
  destruct (Nat.le_gt_cases k i) as [Hki|Hki].
  - assert (E : ((i + L - k) mod L = i - k)%nat).
    { replace (i + L - k)%nat with ((i - k) + 1 * L)%nat by lia. rewrite Nat.mod_add by lia. apply Nat.mod_small. lia. }
    rewrite E. destruct (Nat.ltb_spec (i - k) n); [|lia]. rewrite absdiff_le by exact Hki. reflexivity.
  - assert (E : ((i + L - k) mod L = L - (k - i))%nat) by (replace (i + L - k)%nat with (L - (k - i))%nat by lia; apply Nat.mod_small; lia).
    rewrite E. destruct (Nat.ltb_spec (L - (k - i)) n); [lia|].
    rewrite absdiff_gt by exact Hki. unfold bget. f_equal. lia.
Qed.

Lemma dtr_dtoeplitz col : dtr (dtoeplitz col) == dtoeplitz col.
Proof. unfold dtr, dtoeplitz. repeat split; simpl. intros I i j _ _ _. rewrite absdiff_sym. reflexivity. Qed.

(* ---- a block batch dimension ------------------------------------------------------------------- *)

Lemma bget_cons A k bs b I i j : bsh A = k :: bs -> (b < k)%nat -> bget A (b :: I) i j = ent A (b :: bproj bs I) i j.
Proof.
  intros HS Hb. unfold bget. rewrite HS. simpl. destruct (Nat.eqb_spec k 1); [|reflexivity].
  f_equal. f_equal. lia.
Qed.

Lemma bcast_cons_same k a b : bcast (k :: a) (k :: b) = k :: bcast a b.
Proof. simpl. destruct (k =? 1)%nat; reflexivity. Qed.

Lemma bcompat_cons_same k a b : bcompat (k :: a) (k :: b) = bcompat a b.
Proof. simpl. rewrite Nat.eqb_refl. reflexivity. Qed.

(* block diagonal *)
Lemma acts_blockdiag g Bm k bs :
  bsh Bm = k :: bs -> (0 < k)%nat -> (0 < nr Bm)%nat -> (0 < nc Bm)%nat -> acts g Bm ->
  acts (fun X => blk_remove_diag k (fr (g (blk_add_diag k X)))) (dblockdiag Bm).
Proof.
  intros HS k0 m0 n0 HG X [H1 H2]. unfold dblockdiag in *. rewrite HS in *. simpl in H1, H2.
  set (m := nr Bm) in *. set (n := nc Bm) in *.
  assert (Hdiv : (nr X / k = n)%nat) by (rewrite H1; rewrite Nat.mul_comm; apply Nat.div_mul; lia).
  set (R := fr (g (blk_add_diag k X))).
  assert (HR : R == dmm Bm (blk_add_diag k X)).
  { apply fr_eq'. apply HG. split; [simpl; exact Hdiv|]. simpl. rewrite HS, bcompat_cons_same. exact H2. }
  assert (RS : bsh R = k :: bcast bs (bsh X)) by (destruct HR as (r1 & _); rewrite r1; simpl; rewrite HS; apply bcast_cons_same).
  assert (RR : nr R = m) by (destruct HR as (_ & r2 & _); exact r2).
  assert (RC : nc R = nc X) by (destruct HR as (_ & _ & r3 & _); exact r3).
  assert (RE : forall b I i j, (b < k)%nat -> inb (bcast bs (bsh X)) I -> (i < m)%nat -> (j < nc X)%nat ->
               ent R (b :: I) i j = zsum n (fun l => ent Bm (b :: bproj bs I) i l * bget X I (b * n + l)%nat j)).
  { intros b I i j Hb HI Hi Hj. destruct HR as (_ & _ & _ & r4).
    rewrite r4; [|rewrite RS; simpl; auto|rewrite RR; exact Hi|rewrite RC; exact Hj].
    simpl. fold n. apply zsum_ext. intros l Hl. rewrite (bget_cons Bm k bs _ _ _ _ HS Hb). f_equal.
    unfold bget. simpl. rewrite Hdiv. destruct (Nat.eqb_spec k 1) as [E|E]; [|reflexivity]. f_equal. f_equal. lia. }
  clearbody R.
  unfold blk_remove_diag. rewrite RS. unfold dmm. split; [reflexivity|]. split; [simpl; rewrite RR; fold m; lia|]. split; [exact RC|].
  simpl. intros I i j HI Hi Hj. rewrite RR in *.
  assert (Hb : (i / m < k)%nat) by (apply div_lt_mul; lia).
  assert (Hm : (i mod m < m)%nat) by (apply Nat.mod_upper_bound; lia).
  rewrite (RE _ _ _ _ Hb HI Hm); [|rewrite <- RC; exact Hj].
  fold n. rewrite zsum_split_mul.
  rewrite (zsum_single k (i / m)%nat); [|exact Hb|].
  - apply zsum_ext. intros l Hl.
    destruct (divmod_mul_add (i / m) n l Hl) as [D1 D2]. unfold bget at 2. simpl. fold m n. rewrite D1, D2, Nat.eqb_refl.
    reflexivity.
  - intros b Hbk Hne. apply zsum_zero. intros l Hl.
    destruct (divmod_mul_add b n l Hl) as [D1 D2]. unfold bget at 1. simpl. fold m n. rewrite D1.
    destruct (Nat.eqb_spec (i / m) b); [congruence|ring].
Qed.

Lemma dtr_dblockdiag A : dtr (dblockdiag A) == dblockdiag (dtr A).
Proof.
  unfold dblockdiag. simpl. destruct (bsh A) as [|k bs]; [repeat split|].
  unfold dtr. repeat split; simpl. intros I i j _ _ _.
  rewrite Nat.eqb_sym. destruct (Nat.eqb_spec (i / nc A) (j / nr A)) as [E|E]; [rewrite E|]; reflexivity.
Qed.

(* interleaved blocks: row = i * k + b *)
Lemma acts_blockinter g Bm k bs :
  bsh Bm = k :: bs -> (0 < k)%nat -> acts g Bm ->
  acts (fun X => blk_remove_inter k (fr (g (blk_add_inter k X)))) (dblockinter Bm).
Proof.
  intros HS k0 HG X [H1 H2]. unfold dblockinter in *. rewrite HS in *. simpl in H1, H2.
  set (m := nr Bm) in *. set (n := nc Bm) in *.
  assert (Hdiv : (nr X / k = n)%nat) by (rewrite H1; apply Nat.div_mul; lia).
  set (R := fr (g (blk_add_inter k X))).
  assert (HR : R == dmm Bm (blk_add_inter k X)).
  { apply fr_eq'. apply HG. split; [simpl; exact Hdiv|]. simpl. rewrite HS, bcompat_cons_same. exact H2. }
  assert (RS : bsh R = k :: bcast bs (bsh X)) by (destruct HR as (r1 & _); rewrite r1; simpl; rewrite HS; apply bcast_cons_same).
  assert (RR : nr R = m) by (destruct HR as (_ & r2 & _); exact r2).
  assert (RC : nc R = nc X) by (destruct HR as (_ & _ & r3 & _); exact r3).
  assert (RE : forall b I i j, (b < k)%nat -> inb (bcast bs (bsh X)) I -> (i < m)%nat -> (j < nc X)%nat ->
               ent R (b :: I) i j = zsum n (fun l => ent Bm (b :: bproj bs I) i l * bget X I (l * k + b)%nat j)).
  { intros b I i j Hb HI Hi Hj. destruct HR as (_ & _ & _ & r4).
    rewrite r4; [|rewrite RS; simpl; auto|rewrite RR; exact Hi|rewrite RC; exact Hj].
    simpl. fold n. apply zsum_ext. intros l Hl. rewrite (bget_cons Bm k bs _ _ _ _ HS Hb). f_equal.
    unfold bget. simpl. destruct (Nat.eqb_spec k 1) as [E|E]; [|reflexivity]. f_equal. lia. }
  clearbody R.
  unfold blk_remove_inter. rewrite RS. unfold dmm. split; [reflexivity|]. split; [simpl; rewrite RR; reflexivity|]. split; [exact RC|].
  simpl. intros I i j HI Hi Hj. rewrite RR in *.
  assert (Hb : (i mod k < k)%nat) by (apply Nat.mod_upper_bound; lia).
  assert (Hm : (i / k < m)%nat) by (apply div_lt_mul; lia).
  rewrite (RE _ _ _ _ Hb HI Hm); [|rewrite <- RC; exact Hj].
  fold n. rewrite zsum_split_mul. apply zsum_ext. intros l Hl.
  rewrite (zsum_single k (i mod k)%nat); [|exact Hb|].
  - destruct (divmod_mul_add l k (i mod k) Hb) as [D1 D2]. unfold bget at 2. simpl. fold m n. rewrite D1, D2, Nat.eqb_refl.
    reflexivity.
  - intros b Hbk Hne. destruct (divmod_mul_add l k b Hbk) as [D1 D2]. unfold bget at 1. simpl. fold m n. rewrite D2.
    destruct (Nat.eqb_spec (i mod k) b); [congruence|ring].
Qed.

Lemma dtr_dblockinter A : dtr (dblockinter A) == dblockinter (dtr A).
Proof.
  unfold dblockinter. simpl. destruct (bsh A) as [|k bs]; [repeat split|].
  unfold dtr. repeat split; simpl. intros I i j _ _ _.
  rewrite Nat.eqb_sym. destruct (Nat.eqb_spec (i mod k) (j mod k)) as [E|E]; [rewrite E|]; reflexivity.
Qed.

(* batch sum *)
Lemma acts_sumbatch g Bm k bs :
  bsh Bm = k :: bs -> (0 < k)%nat -> acts g Bm ->
  acts (fun X => blk_remove_sum (fr (g (blk_add_sum k X)))) (dsumbatch Bm).
Proof.
  intros HS k0 HG X [H1 H2]. unfold dsumbatch in *. rewrite HS in *. simpl in H1, H2.
  set (m := nr Bm) in *. set (n := nc Bm) in *.
  set (R := fr (g (blk_add_sum k X))).
  assert (HR : R == dmm Bm (blk_add_sum k X)).
  { apply fr_eq'. apply HG. split; [simpl; exact H1|]. simpl. rewrite HS, bcompat_cons_same. exact H2. }
  assert (RS : bsh R = k :: bcast bs (bsh X)) by (destruct HR as (r1 & _); rewrite r1; simpl; rewrite HS; apply bcast_cons_same).
  assert (RR : nr R = m) by (destruct HR as (_ & r2 & _); exact r2).
  assert (RC : nc R = nc X) by (destruct HR as (_ & _ & r3 & _); exact r3).
  assert (RE : forall b I i j, (b < k)%nat -> inb (bcast bs (bsh X)) I -> (i < m)%nat -> (j < nc X)%nat ->
               ent R (b :: I) i j = zsum n (fun l => ent Bm (b :: bproj bs I) i l * bget X I l j)).
  { intros b I i j Hb HI Hi Hj. destruct HR as (_ & _ & _ & r4).
    rewrite r4; [|rewrite RS; simpl; auto|rewrite RR; exact Hi|rewrite RC; exact Hj].
    simpl. fold n. apply zsum_ext. intros l Hl. rewrite (bget_cons Bm k bs _ _ _ _ HS Hb). f_equal. }
  clearbody R.
  unfold blk_remove_sum. rewrite RS. unfold dmm. split; [reflexivity|]. split; [simpl; rewrite RR; reflexivity|]. split; [exact RC|].
  simpl. intros I i j HI Hi Hj. rewrite RR in *.
  rewrite (zsum_ext k _ (fun b => zsum n (fun l => ent Bm (b :: bproj bs I) i l * bget X I l j))).
  - rewrite zsum_swap. fold n. apply zsum_ext. intros l Hl. unfold bget at 2. simpl. rewrite zsum_scale_r. reflexivity.
  - intros b Hb. apply RE; [exact Hb|exact HI|exact Hi|rewrite <- RC; exact Hj].
Qed.

Lemma dtr_dsumbatch A : dtr (dsumbatch A) == dsumbatch (dtr A).
Proof. unfold dsumbatch. simpl. destruct (bsh A) as [|k bs]; repeat split. Qed.

(* ---- congruences ---------------------------------------------------------------------------------- *)

Lemma dscale_eq A A' c : A == A' -> dscale A c == dscale A' c.
Proof.
  intros (e1 & e2 & e3 & e4). unfold dscale. repeat split; simpl; try assumption.
  intros I i j HI Hi Hj. rewrite e4 by assumption. reflexivity.
Qed.

Lemma dblockdiag_eq A A' : A == A' -> dblockdiag A == dblockdiag A'.
Proof.
  intros (e1 & e2 & e3 & e4). unfold dblockdiag. rewrite <- e1, <- e2, <- e3.
  destruct (bsh A) as [|k bs] eqn:HS; [apply BTeq_refl|].
  repeat split; simpl. intros I i j HI Hi Hj.
  destruct (Nat.eqb_spec (i / nr A) (j / nc A)); [|reflexivity].
  destruct (Nat.eq_dec (nr A) 0) as [Z|Z]; [rewrite Z in Hi; lia|].
  destruct (Nat.eq_dec (nc A) 0) as [Z'|Z']; [rewrite Z' in Hj; lia|].
  apply e4; [simpl; split; [apply div_lt_mul; exact Hi|exact HI]
            |apply Nat.mod_upper_bound; exact Z|apply Nat.mod_upper_bound; exact Z'].
Qed.

Lemma dblockinter_eq A A' : A == A' -> dblockinter A == dblockinter A'.
Proof.
  intros (e1 & e2 & e3 & e4). unfold dblockinter. rewrite <- e1, <- e2, <- e3.
  destruct (bsh A) as [|k bs] eqn:HS; [apply BTeq_refl|].
  repeat split; simpl. intros I i j HI Hi Hj.
  destruct (Nat.eqb_spec (i mod k) (j mod k)); [|reflexivity].
  destruct (Nat.eq_dec k 0) as [Z|Z]; [rewrite Z in Hi; lia|].
  apply e4; [simpl; split; [apply Nat.mod_upper_bound; exact Z|exact HI]
            |apply div_lt_mul; exact Hi|apply div_lt_mul; exact Hj].
Qed.

Lemma dsumbatch_eq A A' : A == A' -> dsumbatch A == dsumbatch A'.
Proof.
  intros (e1 & e2 & e3 & e4). unfold dsumbatch. rewrite <- e1, <- e2, <- e3.
  destruct (bsh A) as [|k bs] eqn:HS; [apply BTeq_refl|].
  repeat split; simpl. intros I i j HI Hi Hj. apply zsum_ext. intros b Hb.
  apply e4; [simpl; split; assumption|assumption|assumption].
Qed.

