(* C01.Model — executable transcription of what the library RUNS when an operator is multiplied,
   transposed, densified or asked for its size.  Definitions only (no proofs); everything computes
   under vm_compute.  Proofs*.v relate these functions to [denote] (OpExpr.v).

     sz e            e._size()                       as (batch shape innermost-first, rows, cols)
     tr e            e._transpose_nonbatch()         as an operator expression
     mm false e X    e._matmul(X)                    X a (batched) matrix, already 2-D (Matmul.forward unsqueezes)
     mm true  e X    e._t_matmul(X)
     pub_matmul      e.matmul(X) = e @ X             class overrides (Diag family, Identity, Zero: same code as
                                                     their _matmul; Interpolated: gather / scatter sums)
                                                     or  Matmul.apply -> _matmul
     pub_rmatmul     X @ e   = e.mT.matmul(X.mT).mT  (1-D: e.mT.matmul(X))
     td e            e.to_dense()                    class override or the base-class default
                                                     (matmul with the identity on the smaller side)

   Classes whose [_t_matmul] is the base-class default [self.mT._matmul(rhs)] (Triangular, UserMinimal,
   Block*, SumBatch, Cat, BatchRepeat, Kernel, Permutation ...) are unfolded one class level: the
   transposed object's [_matmul] runs the same code with [child._transpose_nonbatch()._matmul] in place
   of [child._matmul]; this is written [mm true child].  That this substitution is sound is the lemma
   [mm_true_tr] (Proofs): mm true e X == mm false (tr e) X.

   [fr] (= Tensor.freeze) memoises an intermediate tensor (the library materialises it); it is the
   identity up to ==.

   Torch primitives modelled by their mathematical meaning: matmul (dmm), elementwise * and + with
   broadcasting, expand, view/reshape/transpose/permute of contiguous tensors (flat row-major index maps),
   cat / narrow / boolean-mask indexing, gather / index_select, sparse bdsmm (as the dense product with
   the scatter-assembled matrix), fft/ifft (the pair fft -> pointwise product -> ifft is replaced by the
   circular convolution it computes). *)
From Coq Require Import List ZArith Lia Bool Arith.
Import ListNotations.
Require Import C01.Sums C01.Batch C01.Tensor C01.OpExpr.
Open Scope Z_scope.

Definition fr := freeze.
Definition mt (t : bool) (A : BT) : BT := if t then dtr A else A.

(* ---- elementwise primitives -------------------------------------------------------------------- *)

(* d.unsqueeze(-1) * X       d : batch x n x 1 *)
Definition drowscale (d X : BT) : BT :=
  mkBT (bcast (bsh d) (bsh X)) (nr X) (nc X) (fun I i j => bget d I i 0%nat * bget X I i j).
(* c.expand(.., n).unsqueeze(-1) * X       c : batch x 1 x 1 *)
Definition dcscale (c X : BT) : BT :=
  mkBT (bcast (bsh c) (bsh X)) (nr X) (nc X) (fun I i j => bget c I 0%nat 0%nat * bget X I i j).
(* R * c.view( *c.shape, 1, 1) *)
Definition dmulc (R c : BT) : BT :=
  mkBT (bcast (bsh R) (bsh c)) (nr R) (nc R) (fun I i j => bget R I i j * bget c I 0%nat 0%nat).
Definition dones (B : shape) (n : nat) : BT := mkBT B n 1 (fun _ _ _ => 1).

(* ---- sizes --------------------------------------------------------------------------------------- *)

Definition sz3 := (shape * nat * nat)%type.
Definition sz_b (s : sz3) : shape := fst (fst s).
Definition sz_m (s : sz3) : nat := snd (fst s).
Definition sz_n (s : sz3) : nat := snd s.

Definition prodn (l : list nat) : nat := fold_right Nat.mul 1%nat l.
Definition bcast_all (l : list shape) : shape := fold_right bcast [] l.

(* utils/broadcasting.py _matmul_broadcast_shape for a matrix rhs: None = RuntimeError *)
Definition matmul_broadcast_shape (a b : sz3) : option sz3 :=
  if negb (Nat.eqb (sz_n a) (sz_m b)) then None
  else match broadcast_shapes (sz_b a) (sz_b b) with
       | Some B => Some (B, sz_m a, sz_n b)
       | None => None
       end.

Fixpoint sz (e : OpExpr) : sz3 :=
  match e with
  | Dense t | UserMinimal t => (bsh t, nr t, nc t)
  | Diag d => (bsh d, nr d, nr d)
  | ConstantDiag c n => (bsh c, n, n)
  | Identity n b => (b, n, n)
  | Zero b m n => (b, m, n)
  | Toeplitz col => (bsh col, nr col, nr col)
  | Triangular t _ => (bsh t, nr t, nc t)
  | Chol t _ => (bsh t, nr t, nr t)
  | Root r | LowRankRoot r => let s := sz r in (sz_b s, sz_m s, sz_m s)
  | Kron ops | KronTriangular ops _ =>
      (bcast_all (map (fun x => sz_b (sz x)) ops), prodn (map (fun x => sz_m (sz x)) ops), prodn (map (fun x => sz_n (sz x)) ops))
  | KronDiag ops =>
      let N := prodn (map (fun x => sz_m (sz x)) ops) in (bcast_all (map (fun x => sz_b (sz x)) ops), N, N)
  | KronAddedDiag a b | SumKron a b | AddedDiag a b | LowRankRootAddedDiag a b =>
      (bcast (sz_b (sz a)) (sz_b (sz b)), sz_m (sz a), sz_n (sz a))
  | Sum ops | PsdSum ops =>
      (bcast_all (map (fun x => sz_b (sz x)) ops),
       match ops with x :: _ => sz_m (sz x) | [] => 0%nat end, match ops with x :: _ => sz_n (sz x) | [] => 0%nat end)
  | Matmul l r => (bcast (sz_b (sz l)) (sz_b (sz r)), sz_m (sz l), sz_n (sz r))
  | Mul l r => sz l
  | ConstantMul b _ => sz b
  | BlockDiag b | BlockInterleaved b =>
      let s := sz b in match sz_b s with k :: bs => (bs, (sz_m s * k)%nat, (sz_n s * k)%nat) | [] => ([], 0%nat, 0%nat) end
  | SumBatch b => let s := sz b in match sz_b s with k :: bs => (bs, sz_m s, sz_n s) | [] => ([], 0%nat, 0%nat) end
  | BatchRepeat b rep => let s := sz b in (brep (sz_b s) rep, sz_m s, sz_n s)
  | Cat ops d =>
      match ops with
      | [] => ([], 0%nat, 0%nat)
      | x :: _ =>
          let s := sz x in
          match d with
          | CatRows => (sz_b s, sumn (map (fun y => sz_m (sz y)) ops), sz_n s)
          | CatCols => (sz_b s, sz_m s, sumn (map (fun y => sz_n (sz y)) ops))
          | CatBatch p => (bset (sz_b s) p (sumn (map (fun y => nth p (sz_b (sz y)) 0%nat) ops)), sz_m s, sz_n s)
          end
      end
  | Interpolated b li _ ri _ => (bsh li, nr li, nr ri)
  | Masked b rm cm => (sz_b (sz b), mask_count rm, mask_count cm)
  | Permutation p => (bsh p, nr p, nr p)
  | TransposePermutation m => ([], (m * m)%nat, (m * m)%nat)
  | Kernel x1 x2 _ => (bcast (bsh x1) (bsh x2), nr x1, nr x2)
  end.

(* ---- _transpose_nonbatch ---------------------------------------------------------------------- *)

(* inverse permutation (perm.sort(dim=-1) indices): position of value i *)
Definition inv_perm (p : BT) : BT :=
  mkBT (bsh p) (nr p) 1
       (fun I i _ => Z.of_nat (fold_right (fun k acc => if Z.eqb (ent p I k 0%nat) (Z.of_nat i) then k else acc) 0%nat (seq 0 (nr p)))).

Fixpoint tr (e : OpExpr) : OpExpr :=
  match e with
  | Dense t => Dense (fr (dtr t))
  | UserMinimal t => UserMinimal (fr (dtr t))
  | Diag _ | ConstantDiag _ _ | Identity _ _ | Chol _ _ | Root _ | LowRankRoot _ | KronDiag _ | Mul _ _
  | TransposePermutation _ => e
  | Zero b m n => Zero b n m
  | Toeplitz col => Toeplitz col
  | Triangular t u => Triangular (fr (dtr t)) (negb u)
  | Kron ops => Kron (map tr ops)
  | KronTriangular ops u => KronTriangular (map tr ops) u
  | KronAddedDiag a b => KronAddedDiag (tr a) (tr b)
  | SumKron a b => SumKron (tr a) (tr b)
  | AddedDiag a b => AddedDiag (tr a) (tr b)
  | LowRankRootAddedDiag a b => LowRankRootAddedDiag (tr a) (tr b)
  | Sum ops => Sum (map tr ops)
  | PsdSum ops => PsdSum (map tr ops)
  | Matmul l r => Matmul (tr r) (tr l)
  | ConstantMul b c => ConstantMul (tr b) c
  | BlockDiag b => BlockDiag (tr b)
  | BlockInterleaved b => BlockInterleaved (tr b)
  | SumBatch b => SumBatch (tr b)
  | BatchRepeat b rep => BatchRepeat (tr b) rep
  | Cat ops d => Cat (map tr ops) (match d with CatRows => CatCols | CatCols => CatRows | CatBatch p => CatBatch p end)
  | Interpolated b li lv ri rv => Interpolated (tr b) ri rv li lv
  | Masked b rm cm => Masked (tr b) cm rm
  | Permutation p => Permutation (fr (inv_perm p))
  | Kernel x1 x2 sq => Kernel x2 x1 sq
  end.

(* ---- index-map kernels ------------------------------------------------------------------------- *)

(* utils/toeplitz.py toeplitz_matmul(col, col, X):  c_r_rev = [col, reversed col[1:]] (length 2n-1),
   X zero-padded to 2n-1 rows, circular convolution (what ifft(fft(.)*fft(.)) computes), first n rows *)
Definition toeplitz_mm (col X : BT) : BT :=
  let n := nr col in
  let L := (2 * n - 1)%nat in
  mkBT (bcast (bsh col) (bsh X)) n (nc X)
       (fun I i j =>
          zsum L (fun k =>
                    (let s := ((i + L - k) mod L)%nat in
                     if (s <? n)%nat then bget col I s 0%nat else bget col I (L - s)%nat 0%nat)
                    * (if (k <? n)%nat then bget X I k j else 0))).

(* kronecker_product_linear_operator.py _matmul / _t_matmul, one factor:
     res = res.view( *B, nK, -1); factor = K._matmul(res);
     factor.view( *B, mK, -1, c).transpose(-3, -2).reshape( *B, -1, c)          (c = num_cols, kept fixed) *)
Definition kron_step (mmK : BT -> BT) (mK nK c : nat) (res : BT) : BT :=
  let Q := (nr res / nK)%nat in
  let V := mkBT (bsh res) nK (Q * c) (fun I a u => ent res I (a * Q + u / c)%nat (u mod c)%nat) in
  let F := fr (mmK (fr V)) in
  mkBT (bsh F) (Q * mK) c (fun I r col => ent F I (r mod mK)%nat ((r / mK) * c + col)%nat).

Fixpoint kron_run (fs : list ((BT -> BT) * nat * nat)) (c : nat) (res : BT) : BT :=
  match fs with
  | [] => res
  | (f, m, n) :: r => kron_run r c (kron_step f m n c res)
  end.

(* _kron_diag: diag[l * T + u] = lead[l] * trail[u] *)
Definition diag_of (e : OpExpr) : BT := match e with Diag d => d | _ => dones [] 0 end.
Fixpoint kron_diag_vec (ds : list BT) : BT :=
  match ds with
  | [] => dones [] 1
  | d :: r => let T := kron_diag_vec r in
              mkBT (bcast (bsh d) (bsh T)) (nr d * nr T) 1
                   (fun I i _ => bget d I (i / nr T)%nat 0%nat * bget T I (i mod nr T)%nat 0%nat)
  end.

(* the _diag of a DiagLinearOperator-family child (used by AddedDiag._matmul) *)
Definition diagv (e : OpExpr) : BT :=
  match e with
  | Diag d => d
  | ConstantDiag c n => mkBT (bsh c) n 1 (fun I _ _ => ent c I 0%nat 0%nat)
  | Identity n b => dones b n
  | KronDiag ops => kron_diag_vec (map diag_of ops)
  | _ => dones [] 0
  end.

(* block_diag: view( *batch, k, rows/k, cols)  /  reshape( *batch, k*rows, cols) *)
Definition blk_add_diag (k : nat) (X : BT) : BT :=
  let r := (nr X / k)%nat in
  mkBT (k :: bsh X) r (nc X) (fun I i j => match I with b :: I' => ent X I' (b * r + i)%nat j | [] => 0 end).
Definition blk_remove_diag (k : nat) (R : BT) : BT :=
  match bsh R with
  | _ :: bs => mkBT bs (nr R * k) (nc R) (fun I i j => ent R ((i / nr R)%nat :: I) (i mod nr R)%nat j)
  | [] => R
  end.
(* block_interleaved: view( *batch, rows/k, k, cols).transpose(-2,-3)  /  transpose back, reshape *)
Definition blk_add_inter (k : nat) (X : BT) : BT :=
  mkBT (k :: bsh X) (nr X / k) (nc X) (fun I i j => match I with b :: I' => ent X I' (i * k + b)%nat j | [] => 0 end).
Definition blk_remove_inter (k : nat) (R : BT) : BT :=
  match bsh R with
  | _ :: bs => mkBT bs (nr R * k) (nc R) (fun I i j => ent R ((i mod k)%nat :: I) (i / k)%nat j)
  | [] => R
  end.
(* sum_batch: insert a block dimension and expand  /  sum(-3) *)
Definition blk_add_sum (k : nat) (X : BT) : BT :=
  mkBT (k :: bsh X) (nr X) (nc X) (fun I i j => match I with _ :: I' => ent X I' i j | [] => 0 end).
Definition blk_remove_sum (R : BT) : BT :=
  match bsh R with
  | k :: bs => mkBT bs (nr R) (nc R) (fun I i j => zsum k (fun b => ent R (b :: I) i j))
  | [] => R
  end.

Definition blocks_of (s : sz3) : nat := match sz_b s with k :: _ => k | [] => 0%nat end.

(* _MetaBlockDiagLinearOperator.__call__: BlockDiagLinearOperator(<DiagLinearOperator>) returns
   DiagLinearOperator(base._diag.flatten(-2, -1)) *)
Definition flatten_diag (d : BT) : BT :=
  match bsh d with
  | _ :: bs => mkBT bs (blocks_of (bsh d, 0%nat, 0%nat) * nr d) 1 (fun I i _ => ent d ((i / nr d)%nat :: I) (i mod nr d)%nat 0%nat)
  | [] => d
  end.

(* rows [start, start+len) of X  (rhs[..., start:start+len, :]) *)
Definition drows (X : BT) (start len : nat) : BT :=
  mkBT (bsh X) len (nc X) (fun I i j => ent X I (start + i)%nat j).
(* rhs.narrow(cat_dim, start, len) along the batch dimension at position p (innermost-first) *)
Definition bnarrow (p start len : nat) (X : BT) : BT :=
  mkBT (bset (bsh X) p len) (nr X) (nc X) (fun I i j => ent X (bset I p (nth p I 0%nat + start)%nat) i j).
(* torch.cat(dim=-2) of results *)
Definition dcat_rows (l : list BT) : BT :=
  match l with
  | [] => dzero [] 0 0
  | A :: _ => mkBT (bsh A) (sumn (map nr l)) (nc A) (cat_rows_ent l)
  end.

(* masked: zeros with res[..., mask, :] = X  /  R[..., mask, :] *)
Fixpoint mask_rank (m : list bool) (i : nat) : nat :=      (* number of true entries before position i *)
  match m, i with
  | _, O => 0%nat
  | [], _ => 0%nat
  | b :: r, S i' => ((if b then 1 else 0) + mask_rank r i')%nat
  end.
Definition mask_expand (m : list bool) (X : BT) : BT :=
  mkBT (bsh X) (length m) (nc X) (fun I i j => if nth i m false then ent X I (mask_rank m i) j else 0).
Definition mask_rows (m : list bool) (R : BT) : BT :=
  mkBT (bsh R) (mask_count m) (nc R) (fun I i j => ent R I (mask_sel m i) j).

(* permutation: expanded_rhs[batch, perm, :] *)
Definition perm_mm (p X : BT) : BT :=
  mkBT (bcast (bsh p) (bsh X)) (nr p) (nc X) (fun I i j => bget X I (Z.to_nat (bget p I i 0%nat)) j).
(* rhs.unflatten(-2, (m, m)).transpose(-3, -2).flatten(-3, -2) *)
Definition transperm_mm (m : nat) (X : BT) : BT :=
  mkBT (bsh X) (m * m) (nc X) (fun I r j => ent X I ((r mod m) * m + r / m)%nat j).

(* interpolation: utils/interpolation.py left_t_interp (scatter-sum, duplicates add) and left_interp (gather-sum),
   used by InterpolatedLinearOperator.matmul; the _matmul/_t_matmul paths build sparse matrices
   (make_sparse_from_indices_and_values) and multiply with sparse.bdsmm, modelled as dense products with [dinterp] *)
Definition interp_scatter (idx val X : BT) (out : nat) : BT :=
  mkBT (bcast (bsh idx) (bsh X)) out (nc X)
       (fun I c col => zsum (nr idx) (fun i => zsum (nc idx) (fun a =>
            if Nat.eqb (Z.to_nat (bget idx I i a)) c then bget val I i a * bget X I i col else 0))).
Definition interp_gather (idx val R : BT) : BT :=
  mkBT (bcast (bsh idx) (bsh R)) (nr idx) (nc R)
       (fun I i col => zsum (nc idx) (fun a => bget val I i a * bget R I (Z.to_nat (bget idx I i a)) col)).

(* right-nested sum of the per-piece products of CatLinearOperator._matmul (cat_dim = -1) *)
Fixpoint dsum_pieces (l : list BT) : BT :=
  match l with [] => dzero [] 0 0 | [A] => A | A :: r => dadd A (dsum_pieces r) end.

(* batch_repeat_linear_operator.py (square case): _move_repeat_batches_to_columns / _move_repeat_batches_back.
   Batch shapes innermost-first.  pbs = base batch shape padded with 1s to the length of the output batch shape,
   rp = output batch // pbs (the per-dimension repeat counts), every output batch index I splits as I = R * pbs + S.
   The repeat parts R go to the columns:  column' = col * numel(rp) + flat(R)  (row-major, innermost fastest). *)
Fixpoint bpad_to (bs Bout : shape) : shape :=      (* padding_dims + base.batch_shape, innermost first *)
  match Bout with
  | [] => []
  | _ :: B' => match bs with [] => 1%nat :: bpad_to [] B' | s :: bs' => s :: bpad_to bs' B' end
  end.
Fixpoint bquot (a b : shape) : shape :=
  match a, b with x :: a', y :: b' => (x / y)%nat :: bquot a' b' | _, _ => [] end.
Fixpoint bcomb (pbs : shape) (R S : bidx) : bidx :=
  match pbs, R, S with d :: p', r :: R', s :: S' => (r * d + s)%nat :: bcomb p' R' S' | _, _, _ => [] end.
Fixpoint bdivi (pbs : shape) (I : bidx) : bidx :=
  match pbs, I with d :: p', i :: I' => (i / d)%nat :: bdivi p' I' | _, _ => [] end.
Fixpoint bmodi (pbs : shape) (I : bidx) : bidx :=
  match pbs, I with d :: p', i :: I' => (i mod d)%nat :: bmodi p' I' | _, _ => [] end.
Definition brep_to_cols (pbs rp : shape) (c : nat) (Xe : BT) : BT :=
  let Rn := bnumel rp in
  mkBT pbs (nr Xe) (c * Rn) (fun S i u => ent Xe (bcomb pbs (bunflat rp (u mod Rn)%nat) S) i (u / Rn)%nat).
Definition brep_back (pbs rp Bout : shape) (c : nat) (Z : BT) : BT :=
  let Rn := bnumel rp in
  mkBT Bout (nr Z) c (fun I i col => ent Z (bmodi pbs I) i (col * Rn + bflat rp (bdivi pbs I))%nat).

(* mul_linear_operator.py: (A o B) X for A = L L^T in root form:
     left_res[i, a, c] = X[i, c] * L[i, a];  view(n, rank * m);  right._matmul;  view(n, rank, m);  * L[i, a];  sum over a *)
Definition root_cols (e : OpExpr) : nat :=       (* _root_decomposition_size(): root.size(-1) *)
  match e with Root r | LowRankRoot r => sz_n (sz r) | Chol A _ => nc A | _ => 0%nat end.
Definition root_dense (e : OpExpr) : BT :=       (* self.root.to_dense(); for a non-dense root operator its dense MEANING is used *)
  match e with
  | Root r | LowRankRoot r => match r with Dense t => t | _ => denote r end
  | Chol A _ => A
  | _ => dzero [] 0 0
  end.
Definition mul_mm (L : BT) (g : BT -> BT) (Bs : shape) (X : BT) : BT :=
  let k := nc L in
  let c := nc X in
  let n := nr L in
  let W := mkBT (bcast Bs (bsh X)) n (k * c) (fun I i u => bget X I i (u mod c)%nat * bget L I i (u / c)%nat) in
  let V := fr (g (fr W)) in
  mkBT (bsh V) n c (fun I i col => zsum k (fun a => ent V I i (a * c + col)%nat * bget L I i a)).

(* ---- _matmul / _t_matmul --------------------------------------------------------------------- *)

(* classes whose multiplication is NOT yet transcribed are given their specification here (and are
   outside [covered], Proofs.v): the correspondence then still compares the implementation with the
   dense meaning inside Coq, but no theorem speaks about their code path. *)
Definition spec_mm (t : bool) (e : OpExpr) (X : BT) : BT := dmm (mt t (denote e)) X.

Fixpoint mm (t : bool) (e : OpExpr) (X : BT) {struct e} : BT :=
  match e with
  | Dense A | UserMinimal A => dmm (mt t A) X
  | Diag d => drowscale d X
  | ConstantDiag c n => dcscale c X
  | Identity n b => dexpand (bcast (bsh X) b) X
  | Zero b m n => dzero (bcast (bsh X) b) (if t then n else m) (nc X)   (* torch.broadcast_shapes(rhs batch, self.batch_shape) *)
  | Toeplitz col => toeplitz_mm col X
  | Triangular A _ => dmm (mt t A) X
  | Chol A u =>      (* upper: root._t_matmul(root._matmul(rhs)) = R^T (R X);  lower: RootLinearOperator._matmul = L (L^T X) *)
      if u then dmm (dtr A) (fr (dmm A X)) else dmm A (fr (dmm (dtr A) X))
  | Root r | LowRankRoot r => mm false r (fr (mm true r X))
  | Kron ops | KronTriangular ops _ =>
      let B := bcast (sz_b (sz e)) (bsh X) in
      kron_run (map (fun x => (mm t x, if t then sz_n (sz x) else sz_m (sz x), if t then sz_m (sz x) else sz_n (sz x))) ops)
               (nc X) (dexpand B X)
  | KronDiag ops => drowscale (fr (kron_diag_vec (map diag_of ops))) X
  | KronAddedDiag a d | AddedDiag a d | LowRankRootAddedDiag a d =>
      if t then dsuml [mm true a X; mm true d X]
      else dadd (mm false a X) (drowscale (diagv d) X)
  | SumKron a b => dsuml [mm t a X; mm t b X]
  | Sum ops | PsdSum ops => dsuml (map (fun x => mm t x X) ops)
  | Matmul l r => if t then mm true r (fr (mm true l X)) else mm false l (fr (mm false r X))
  | ConstantMul b c => dmulc (mm t b X) c
  | BlockDiag b =>
      if is_diag_cls b then drowscale (fr (flatten_diag (diagv b))) X
      else let k := blocks_of (sz b) in blk_remove_diag k (fr (mm t b (blk_add_diag k X)))
  | BlockInterleaved b =>
      let k := blocks_of (sz b) in blk_remove_inter k (fr (mm t b (blk_add_inter k X)))
  | SumBatch b =>
      let k := blocks_of (sz b) in blk_remove_sum (fr (mm t b (blk_add_sum k X)))
  | Masked b rm cm =>
      if t then mask_rows cm (fr (mm true b (mask_expand rm X)))
      else mask_rows rm (fr (mm false b (mask_expand cm X)))
  | Permutation p => perm_mm (if t then inv_perm p else p) X
  | TransposePermutation m => transperm_mm m X
  | Kernel x1 x2 sq => if t then dmm (dkernel x2 x1 sq) X else dmm (dkernel x1 x2 sq) X
  | Interpolated b li lv ri rv =>
      let Wl := fr (dinterp li lv (sz_m (sz b))) in
      let Wr := fr (dinterp ri rv (sz_n (sz b))) in
      if t then dmm Wr (fr (mm true b (fr (dmm (dtr Wl) X))))
      else dmm Wl (fr (mm false b (fr (dmm (dtr Wr) X))))
  | Cat ops d =>
      let pieces := (fix go (l : list OpExpr) (off : nat) : list BT :=
                       match l with
                       | [] => []
                       | x :: r => let len := if t then sz_m (sz x) else sz_n (sz x) in
                                   fr (mm t x (drows X off len)) :: go r (off + len)%nat
                       end) in
      match d, t with
      | CatRows, false | CatCols, true => dcat_rows (map (fun x => fr (mm t x X)) ops)
      | CatRows, true | CatCols, false => dsum_pieces (pieces ops 0%nat)
      | CatBatch p, _ =>
          (* cat_dim < -2: rhs.expand(output batch shape); per piece rhs.narrow(cat_dim, curr_idx, size), t._matmul;
             torch.cat(res_list, dim=cat_dim)   (the transposed object keeps the cat dimension) *)
          let Xe := dexpand (bcast (sz_b (sz e)) (bsh X)) X in
          dcat ((fix gob (l : list OpExpr) (off : nat) : list BT :=
                   match l with
                   | [] => []
                   | x :: r => let len := nth p (sz_b (sz x)) 0%nat in
                               fr (mm t x (bnarrow p off len Xe)) :: gob r (off + len)%nat
                   end) ops 0%nat) (CatBatch p)
      end
  | BatchRepeat b rep =>
      let s := sz e in
      let Bout := bcast (sz_b s) (bsh X) in
      if Nat.eqb (sz_m s) (sz_n s)
      then (* is_square: fold the repeated batches into columns of one product with the base *)
        let pbs := bpad_to (sz_b (sz b)) Bout in
        let rp := bquot Bout pbs in
        brep_back pbs rp Bout (nc X) (fr (mm t b (fr (brep_to_cols pbs rp (nc X) (dexpand Bout X)))))
      else (* rely on broadcasting of the base product *)
        dexpand Bout (mm t b X)
  | Mul l r =>
      (* the constructor puts the operand with the larger root on the left *)
      if (root_cols l <? root_cols r)%nat
      then mul_mm (fr (root_dense r)) (mm false l) (sz_b (sz e)) X
      else mul_mm (fr (root_dense l)) (mm false r) (sz_b (sz e)) X
  end.

(* ---- public entry points ---------------------------------------------------------------------- *)

(* e.matmul(X) for a tensor X that is at least 2-D.  Diag / ConstantDiag / Identity / KronDiag override
   matmul with the code that their _matmul calls; Zero.matmul returns a ZeroLinearOperator of the rhs's
   batch shape (densified by the observer); everything else: shape check, Matmul.apply -> _matmul. *)
Fixpoint pub_matmul (e : OpExpr) (X : BT) : BT :=
  match e with
  | Interpolated b li lv ri rv =>
      (* InterpolatedLinearOperator.matmul: left_interp(li, lv, base.matmul(left_t_interp(ri, rv, X, base.size(-1)))) *)
      interp_gather li lv (fr (pub_matmul b (fr (interp_scatter ri rv X (sz_n (sz b))))))
  | _ => mm false e X
  end.

(* 1-D rhs: Matmul.forward does unsqueeze(-1) / squeeze(-1) around _matmul; a vector is represented by its
   n x 1 matrix and the flag travels outside the model (Check.v compares the squeezed shape). *)

(* X @ e  for a >= 2-D X:  e.mT.matmul(X.mT).mT *)
Definition pub_rmatmul (e : OpExpr) (Y : BT) : BT := dtr (pub_matmul (tr e) (fr (dtr Y))).
(* v @ e  for a 1-D v (given as n x 1): e.mT.matmul(v) *)
Definition pub_rmatvec (e : OpExpr) (v : BT) : BT := pub_matmul (tr e) v.

(* ---- size accessors ------------------------------------------------------------------------------ *)

(* LinearOperator.shape / size() = self._size();  batch_shape = shape[:-2];  matrix_shape = shape[-2:];
   dim() = ndimension() = len(self.size());  numel() = self.shape.numel();  size(-1), size(-2) index the shape *)
Definition pub_shape (e : OpExpr) : sz3 := sz e.
Definition pub_dim (e : OpExpr) : nat := (length (sz_b (sz e)) + 2)%nat.
Definition pub_numel (e : OpExpr) : nat := (bnumel (sz_b (sz e)) * sz_m (sz e) * sz_n (sz e))%nat.

(* ---- to_dense ------------------------------------------------------------------------------------ *)

(* LinearOperator.to_dense: matmul with the identity on the smaller side *)
Definition default_to_dense (e : OpExpr) : BT :=
  let s := sz e in
  if (sz_m s <? sz_n s)%nat
  then dtr (pub_matmul (tr e) (deye (sz_b s) (sz_m s)))
  else pub_matmul e (deye (sz_b s) (sz_n s)).

Fixpoint td (e : OpExpr) : BT :=
  match e with
  | Dense t => t
  | Diag d => ddiag d
  | ConstantDiag c n => dconstdiag c n
  | Identity n b => deye b n
  | KronDiag ops => ddiag (kron_diag_vec (map diag_of ops))
  | Zero b m n => dzero b m n
  | Triangular t _ => t
  | Chol t upper => if upper then dmm (dtr t) t else dmm t (dtr t)
  | Root r | LowRankRoot r => let R := fr (td r) in dmm R (dtr R)
  | KronAddedDiag a b | SumKron a b | AddedDiag a b | LowRankRootAddedDiag a b => dsuml [td a; td b]
  | Sum ops | PsdSum ops => dsuml (map td ops)
  | Matmul l r => dmm (fr (td l)) (fr (td r))
  | Mul l r => dhad (td l) (td r)
  | ConstantMul b c => dmulc (td b) c
  | SumBatch b => dsumbatch (td b)
  | Cat ops d => dcat (map td ops) d
  | Masked b rm cm => dmask (td b) rm cm
  | BlockDiag b => if is_diag_cls b then ddiag (flatten_diag (diagv b)) else default_to_dense e
  | Toeplitz _ | Kron _ | KronTriangular _ _ | BlockInterleaved _ | BatchRepeat _ _
  | Interpolated _ _ _ _ _ | Permutation _ | TransposePermutation _ | Kernel _ _ _ | UserMinimal _ =>
      default_to_dense e
  end.
