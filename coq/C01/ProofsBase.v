(* C01.ProofsBase — algebra of batched matrices up to ==, and the notion "f acts as the matrix D". *)
From Coq Require Import List ZArith Lia Bool Arith.
Import ListNotations.
Require Import C01.Sums C01.Batch C01.Tensor C01.OpExpr C01.Model.
Open Scope Z_scope.

(* ---- boolean hypotheses ---------------------------------------------------------------------- *)
Ltac bsplit :=
  repeat match goal with
         | H : _ && _ = true |- _ => apply andb_true_iff in H; destruct H
         | H : Nat.eqb _ _ = true |- _ => apply Nat.eqb_eq in H
         | H : shape_eqb _ _ = true |- _ => apply shape_eqb_eq in H
         | H : negb _ = true |- _ => apply negb_true_iff in H
         end.

(* ---- lists ---- *)
Lemma forallb_map {A B} (g : A -> B) (p : B -> bool) l : forallb p (map g l) = forallb (fun x => p (g x)) l.
Proof. induction l; simpl; [reflexivity|]. rewrite IHl. reflexivity. Qed.

(* ---- more about broadcasting ----------------------------------------------------------------- *)

Lemma bcast_absorb a b : bcast (bcast a b) b = bcast a b.
Proof.
  revert b; induction a as [|x a IH]; intros b; simpl; [apply bcast_refl|].
  destruct b as [|y b]; simpl; [reflexivity|]. rewrite IH. f_equal.
  destruct (Nat.eqb_spec x 1); [destruct (Nat.eqb_spec y 1); reflexivity|].
  destruct (Nat.eqb_spec x 1); [contradiction|reflexivity].
Qed.

Lemma bcast_absorb_l a b : bcast a (bcast a b) = bcast a b.
Proof. rewrite bcast_assoc, bcast_refl. reflexivity. Qed.

Lemma bcompat_bcast_self a b : bcompat a b = true -> bcompat a (bcast a b) = true.
Proof. intros H. apply bsub_bcompat. apply bsub_bcast_l. exact H. Qed.

Lemma bcompat_bcast_self_r a b : bcompat a b = true -> bcompat b (bcast a b) = true.
Proof. intros H. apply bsub_bcompat. apply bsub_bcast_r. exact H. Qed.

Lemma bcompat_nil_r a : bcompat a [] = true.
Proof. destruct a; reflexivity. Qed.

Lemma bsub_nil a : bsub [] a = true.
Proof. reflexivity. Qed.

Lemma bcompat_sub a b c : bsub a c = true -> bsub b c = true -> bcompat a b = true.
Proof. intros H1 H2. exact (proj2 (bsub_lub _ _ _ H1 H2)). Qed.

(* compat with a broadcast = compat with both parts *)
Lemma bcompat_bcast_r a b c : bcompat b c = true ->
  bcompat a (bcast b c) = true <-> (bcompat a b = true /\ bcompat a c = true).
Proof.
  intros H. rewrite (bcompat_sym a (bcast b c)), (bcompat_bcast_l b c a H), (bcompat_sym b a), (bcompat_sym c a). tauto.
Qed.

Lemma inb_bproj_bcast_l a b I : bcompat a b = true -> inb (bcast a b) I -> inb a (bproj a I).
Proof. intros H. apply inb_bproj. apply bsub_bcast_l. exact H. Qed.

(* ---- basic facts about == ---------------------------------------------------------------------- *)

Lemma BTeq_shape A B : A == B -> bsh A = bsh B /\ nr A = nr B /\ nc A = nc B.
Proof. intros (H1 & H2 & H3 & _). auto. Qed.

Lemma fr_eq A : fr A == A.
Proof. apply freeze_eq. Qed.

Lemma fr_eq' A B : A == B -> fr A == B.
Proof. intros H. eapply BTeq_trans; [apply fr_eq|exact H]. Qed.

Lemma bget_mk S r c f I i j : bget (mkBT S r c f) I i j = f (bproj S I) i j.
Proof. reflexivity. Qed.

(* reading A at a position of a larger batch: what == gives *)
Lemma BTeq_bget A B C I i j :
  A == B -> bsub (bsh A) C = true -> inb C I -> (i < nr A)%nat -> (j < nc A)%nat -> bget A I i j = bget B I i j.
Proof. intros. eapply bget_eq; eauto. Qed.

(* ---- "acts as" ---------------------------------------------------------------------------------- *)

Definition okrhs (D X : BT) : Prop := nr X = nc D /\ bcompat (bsh D) (bsh X) = true.
Definition acts (f : BT -> BT) (D : BT) : Prop := forall X, okrhs D X -> f X == dmm D X.

Lemma acts_eq f D D' : D == D' -> acts f D -> acts f D'.
Proof.
  intros HE HA X [H1 H2]. destruct (BTeq_shape _ _ HE) as (S1 & S2 & S3).
  eapply BTeq_trans; [apply HA; split; congruence|].
  apply dmm_eq_l; [congruence|exact HE].
Qed.

Lemma acts_ext f g D : (forall X, okrhs D X -> f X == g X) -> acts g D -> acts f D.
Proof. intros H HA X HX. eapply BTeq_trans; [apply H; exact HX|apply HA; exact HX]. Qed.

Lemma acts_dmm D : acts (dmm D) D.
Proof. intros X _. apply BTeq_refl. Qed.

(* shape of a product, as facts *)
Lemma dmm_shape A X : bsh (dmm A X) = bcast (bsh A) (bsh X) /\ nr (dmm A X) = nr A /\ nc (dmm A X) = nc X.
Proof. repeat split. Qed.

(* the result of f (which acts as D) is a legal rhs for an operator L with nc L = nr D, compatible batches *)
Lemma okrhs_after L D X Y :
  okrhs D X -> Y == dmm D X -> nc L = nr D -> bcompat (bsh L) (bsh D) = true -> bcompat (bcast (bsh L) (bsh D)) (bsh X) = true ->
  okrhs L Y.
Proof.
  intros [H1 H2] HY HL HC HC2. destruct (BTeq_shape _ _ HY) as (S1 & S2 & S3). simpl in *.
  split; [congruence|]. rewrite S1.
  apply (proj1 (bcompat_bcast_l _ _ _ HC)) in HC2. destruct HC2 as [HLX HDX].
  apply bcompat_bcast_r; [exact H2|]. split; assumption.
Qed.

(* composition: (L R) X = L (R X) *)
Lemma acts_comp f g L R :
  acts f L -> acts g R -> nc L = nr R -> bcompat (bsh L) (bsh R) = true ->
  acts (fun X => f (fr (g X))) (dmm L R).
Proof.
  intros HF HG HN HC X [H1 H2]. simpl in H1, H2.
  destruct (proj1 (bcompat_bcast_l _ _ _ HC) H2) as [HLX HRX].
  assert (HgX : g X == dmm R X) by (apply HG; split; assumption).
  assert (HY : fr (g X) == dmm R X) by (apply fr_eq'; exact HgX).
  assert (OK : okrhs L (fr (g X))) by (eapply okrhs_after; eauto; split; assumption).
  eapply BTeq_trans; [apply HF; exact OK|].
  eapply BTeq_trans; [apply dmm_eq_r; [| |exact HY]|].
  - destruct OK as [_ O2]. exact O2.
  - destruct OK as [O1 _]. exact O1.
  - apply BTeq_sym. apply dmm_assoc; [exact HC|exact H2|symmetry; exact HN].
Qed.

(* ---- transpose facts --------------------------------------------------------------------------- *)

Lemma mt_shape t A : bsh (mt t A) = bsh A.
Proof. destruct t; reflexivity. Qed.

Lemma mt_eq t A B : A == B -> mt t A == mt t B.
Proof. destruct t; simpl; [apply dtr_eq|auto]. Qed.

Lemma mt_mt t A : mt t (mt t A) == A.
Proof. destruct t; simpl; [apply dtr_dtr|apply BTeq_refl]. Qed.

(* ---- identity and zero ------------------------------------------------------------------------- *)

Lemma dmm_eye_l b n X : nr X = n -> bcompat b (bsh X) = true -> dmm (deye b n) X == dexpand (bcast b (bsh X)) X.
Proof.
  intros HN HC. unfold dmm, dexpand, deye. repeat split; simpl; [congruence|].
  intros I i j HI Hi Hj.
  transitivity (zsum n (fun l => zdelta i l * bget X I l j)); [apply zsum_ext; intros l Hl; reflexivity|].
  rewrite zsum_delta_l by assumption. reflexivity.
Qed.

Lemma dmm_eye_r A : dmm A (deye (bsh A) (nc A)) == A.
Proof.
  unfold dmm, deye. repeat split; simpl; [apply bcast_refl|].
  intros I i j HI Hi Hj. rewrite bcast_refl in HI.
  transitivity (zsum (nc A) (fun l => bget A I i l * zdelta l j)); [apply zsum_ext; intros l Hl; reflexivity|].
  rewrite zsum_delta_r by assumption. apply bget_in. exact HI.
Qed.

Lemma dtr_deye b n : dtr (deye b n) == deye b n.
Proof.
  unfold dtr, deye. repeat split; simpl. intros I i j _ _ _. unfold zdelta. rewrite Nat.eqb_sym. reflexivity.
Qed.

Lemma dtr_dzero b m n : dtr (dzero b m n) == dzero b n m.
Proof. repeat split. Qed.

Lemma dmm_dzero_l b m n X : nr X = n -> dmm (dzero b m n) X == dzero (bcast b (bsh X)) m (nc X).
Proof.
  intros HN. unfold dmm, dzero. repeat split; simpl. intros I i j _ _ _.
  apply zsum_zero. intros l _. unfold bget. simpl. ring.
Qed.

(* ---- diagonal scalings ------------------------------------------------------------------------ *)

Lemma dmm_ddiag d X : nc d = 1%nat -> nr X = nr d -> dmm (ddiag d) X == drowscale d X.
Proof.
  intros Hd HN. unfold dmm, ddiag, drowscale. repeat split; simpl; [congruence|].
  intros I i j HI Hi Hj. unfold bget at 1. simpl.
  rewrite (zsum_single _ i); [rewrite Nat.eqb_refl; reflexivity|assumption|].
  intros l _ Hne. destruct (Nat.eqb_spec i l); [congruence|ring].
Qed.

Lemma dtr_ddiag d : dtr (ddiag d) == ddiag d.
Proof.
  unfold dtr, ddiag. repeat split; simpl. intros I i j _ _ _.
  destruct (Nat.eqb_spec j i), (Nat.eqb_spec i j); subst; try reflexivity; congruence.
Qed.

Lemma dmm_dconstdiag c n X : nr X = n -> dmm (dconstdiag c n) X == dcscale c X.
Proof.
  intros HN. unfold dmm, dconstdiag, dcscale. repeat split; simpl; [congruence|].
  intros I i j HI Hi Hj. unfold bget at 1. simpl.
  rewrite (zsum_single _ i); [rewrite Nat.eqb_refl; reflexivity|assumption|].
  intros l _ Hne. destruct (Nat.eqb_spec i l); [congruence|ring].
Qed.

Lemma dtr_dconstdiag c n : dtr (dconstdiag c n) == dconstdiag c n.
Proof.
  unfold dtr, dconstdiag. repeat split; simpl. intros I i j _ _ _. rewrite Nat.eqb_sym. reflexivity.
Qed.

Lemma Forall2_shapes l l' : Forall2 BTeq l l' -> map bsh l = map bsh l' /\ map nr l = map nr l' /\ map nc l = map nc l'.
Proof.
  induction 1 as [|A A' l l' HA HF (I1 & I2 & I3)]; [auto|]. destruct (BTeq_shape _ _ HA) as (S1 & S2 & S3).
  simpl. rewrite I1, I2, I3, S1, S2, S3. auto.
Qed.

