(* C06 — executable model (definitions only) of the factorisation queries of linear_operator:

     cholesky(upper) / root_decomposition(method) / root_inv_decomposition(method) /
     eigh, eigvalsh, diagonalization(method) / svd

   as implemented by  operators/_linear_operator.py  and the class overrides in
   kronecker_product_, kronecker_product_added_diag_, sum_kronecker_, diag_, identity_, chol_, root_,
   constant_mul_, block_diag_, block_interleaved_, batch_repeat_, added_diag_, triangular_linear_operator.py.

   Polymorphic in the arithmetic record `Arith F` of C16 (instances: PrimFloat for the correspondence shards,
   any rcfType for the theorems).  One batch MEMBER is modelled (a batched operator is the list of its members: every
   override acts member-wise; BlockDiag/BlockInterleaved consume the last batch dimension = the list of blocks;
   BatchRepeat copies members).

   Numerical primitives the library delegates to are ORACLES (record `oracles`), specified by contracts in the
   theorems and replayed from the implementation's own calls in the correspondence:
     o_eigh     torch.linalg.eigh on a dense symmetric matrix            -> (evals, evecs)
     o_lz_diag  functions/_diagonalization.py Diagonalization.apply      -> (evals, evecs n x k)
     o_lz_root  functions/_root_decomposition.py RootDecomposition.apply -> (root n x k, inverse root n x k)
     o_pivchol  pivoted_cholesky(rank)                                    -> n x k factor
     o_pinv     torch.pinverse
   The dense Cholesky route is the C16 model (psd_safe_cholesky with the Cholesky-Banachiewicz kernel);
   solve_triangular(L, I) is forward substitution, executed here.

   Every query returns  (result, events): events = which solver primitive was run on which size (what
   max_cholesky_size / max_root_decomposition_size / fast_computations are documented to control). *)
From Coq Require Import List Bool Arith ZArith.
Import ListNotations.
Require Import C16.Model.

Set Implicit Arguments.

(* ------------------------------------------------------------------ method argument, settings, cache state *)
Inductive method :=
| MNone | MCholesky | MSymeig | MDiagonalization | MSvd | MLanczos | MPivotedCholesky | MPinverse
| MUnknown.                                   (* any other string *)

(* what `_choose_root_method` reads of the operator's memoize cache *)
Record cache := MkCache { c_symeig : bool; c_diagonalization : bool; c_lanczos : bool }.
Definition no_cache := MkCache false false false.

Inductive errkind := ENotPSD | ENan | ERuntime | ENotImpl | EAttribute | EUnbound.
(* Python: NotPSDError, NanError, NotImplementedError are RuntimeErrors; AttributeError / UnboundLocalError are not *)
Definition is_runtime_error (k : errkind) : bool :=
  match k with ENotPSD | ENan | ERuntime | ENotImpl => true | EAttribute | EUnbound => false end.

Inductive event :=
| EvChol (n : nat)                 (* torch.linalg.cholesky_ex on n x n members *)
| EvEigh (n : nat)                 (* torch.linalg.eigh *)
| EvLanczos (n k : nat)            (* lanczos_tridiag on an n x n operator, k iterations *)
| EvPivChol (n : nat)
| EvPinv (n : nat)
| EvTrsolve (n : nat)              (* torch.linalg.solve_triangular *)
| EvOther (code n : nat).          (* any other LAPACK-level primitive (never emitted by the model) *)

Inductive res (X : Type) := Ok (x : X) | Err (k : errkind).
Arguments Err {X}.

Definition M (X : Type) := (res X * list event)%type.
Definition ret {X} (x : X) : M X := (Ok x, []).
Definition fail {X} (k : errkind) : M X := (Err k, []).
Definition emit (e : event) : M unit := (Ok tt, [e]).
Definition bind {X Y} (m : M X) (f : X -> M Y) : M Y :=
  match fst m with
  | Ok x => let r := f x in (fst r, snd m ++ snd r)
  | Err k => (Err k, snd m)
  end.
Notation "x <- m ;; f" := (bind m (fun x => f)) (at level 61, m at next level, right associativity).
Notation "' p <- m ;; f" := (bind m (fun p => f)) (at level 61, p pattern, m at next level, right associativity).

(* sequence a list of computations (events in order; first error wins) *)
Fixpoint mseq {X} (l : list (M X)) : M (list X) :=
  match l with
  | [] => ret []
  | m :: r => x <- m ;; xs <- mseq r ;; ret (x :: xs)
  end.

Section Generic.
Variable F : Type.
Variable ar : Arith F.

Notation f0 := (a0 ar).
Notation f1 := (a1 ar).
Notation "x +. y" := (aadd ar x y) (at level 50, left associativity).
Notation "x -. y" := (asub ar x y) (at level 50, left associativity).
Notation "x *. y" := (amul ar x y) (at level 40, left associativity).
Notation "x /. y" := (adiv ar x y) (at level 40, left associativity).

(* ------------------------------------------------------------------ settings *)
Record settings := MkSt {
  mcs : Z;                    (* settings.max_cholesky_size.value() *)
  mrs : Z;                    (* settings.max_root_decomposition_size.value() *)
  fast_root : bool;           (* settings.fast_computations.covar_root_decomposition.on() *)
  chol_st : C16.Model.settings F;   (* cholesky_jitter / cholesky_max_tries / trace_mode (read by psd_safe_cholesky) *)
  default32 : bool;           (* torch.get_default_dtype() == float32 *)
  eps_inv : F;                (* the literal 1e-7 of `evals.clamp_min(1e-7)` in root_inv_decomposition *)
  kron_noargs : bool          (* SOURCE FLAG, not a library setting (regenerated from the AST of
                                 kronecker_product_linear_operator.py on every run, gen/SrcFlags.v): below max_cholesky_size
                                 KroneckerProductLinearOperator.root_inv_decomposition calls
                                 `super().root_inv_decomposition()` WITHOUT its arguments (true: the pinned tree — the
                                 method argument is dropped) or forwards initial_vectors / test_vectors / method (false) *)
}.

(* LinearOperator._choose_root_method *)
Definition choose_root_method (st : settings) (c : cache) (n : nat) : method :=
  if c_symeig c then MSymeig
  else if c_diagonalization c then MDiagonalization
  else if c_lanczos c then MLanczos
  else if (Z.of_nat n <=? mcs st)%Z || negb (fast_root st) then MCholesky
  else MLanczos.

(* the default of LinearOperator.diagonalization(method=None) *)
Definition choose_diag_method (st : settings) (n : nat) : method :=
  if (Z.of_nat n <=? mcs st)%Z then MSymeig else MLanczos.

(* ------------------------------------------------------------------ dense tensor primitives (one member) *)
Definition ent (X : matrix F) (i j : nat) : F := nth j (nth i X []) f0.
Definition vnth (v : list F) (i : nat) : F := nth i v f0.

Definition tab (m n : nat) (f : nat -> nat -> F) : matrix F :=
  map (fun i => map (fun j => f i j) (seq 0 n)) (seq 0 m).
Definition vtab (n : nat) (f : nat -> F) : list F := map f (seq 0 n).

Fixpoint sum_to (k : nat) (f : nat -> F) : F :=
  match k with O => f0 | S k' => sum_to k' f +. f k' end.

Definition mmul (m k n : nat) (X Y : matrix F) : matrix F :=
  tab m n (fun i j => sum_to k (fun l => ent X i l *. ent Y l j)).
Definition mtr (m n : nat) (X : matrix F) : matrix F := tab n m (fun i j => ent X j i).   (* X is m x n *)
Definition madd (m n : nat) (X Y : matrix F) : matrix F := tab m n (fun i j => ent X i j +. ent Y i j).
Definition mscale (m n : nat) (c : F) (X : matrix F) : matrix F := tab m n (fun i j => c *. ent X i j).
Definition meye (n : nat) : matrix F := tab n n (fun i j => if Nat.eqb i j then f1 else f0).
Definition mdiag (n : nat) (d : list F) : matrix F := tab n n (fun i j => if Nat.eqb i j then vnth d i else f0).
(* Q * s.unsqueeze(-2): column j scaled by s_j *)
Definition scale_cols (m n : nat) (X : matrix F) (s : list F) : matrix F := tab m n (fun i j => ent X i j *. vnth s j).
(* s.unsqueeze(-1) * Q: row i scaled by s_i *)
Definition scale_rows (m n : nat) (s : list F) (X : matrix F) : matrix F := tab m n (fun i j => vnth s i *. ent X i j).

Definition vmap (f : F -> F) (v : list F) : list F := map f v.
Definition vadd_const (v : list F) (c : F) : list F := map (fun x => x +. c) v.
Definition vconst (n : nat) (c : F) : list F := repeat c n.

(* elementwise functions of torch *)
Definition fclamp_min (lo x : F) : F := if agtb ar lo x then lo else x.       (* NaN stays NaN *)
Definition fsqrt (x : F) : F := asqrt ar x.
Definition frecip (x : F) : F := f1 /. x.
Definition fabs (x : F) : F := if agtb ar f0 x then f0 -. x else x.
Definition fsign (x : F) : F := if agtb ar x f0 then f1 else if agtb ar f0 x then f0 -. f1 else f0.
Definition fge0 (x : F) : bool := negb (agtb ar f0 x).

(* Kronecker product, block-major:  (A (x) B)[i p + a, j q + b] = A[i,j] B[a,b]   (A: m x n, B: p x q) *)
Definition kron2 (m n p q : nat) (A B : matrix F) : matrix F :=
  tab (m * p) (n * q) (fun r c => ent A (r / p) (c / q) *. ent B (r mod p) (c mod q)).
Definition vkron2 (m p : nat) (d e : list F) : list F :=
  vtab (m * p) (fun r => vnth d (r / p) *. vnth e (r mod p)).

(* a sized matrix: (rows, cols, data) *)
Definition smx := (nat * nat * matrix F)%type.
Definition s_rows (x : smx) := fst (fst x).
Definition s_cols (x : smx) := snd (fst x).
Definition s_dat (x : smx) := snd x.
Definition skron (x y : smx) : smx :=
  (s_rows x * s_rows y, s_cols x * s_cols y, kron2 (s_rows x) (s_cols x) (s_rows y) (s_cols y) (s_dat x) (s_dat y)).
Definition sunit : smx := (1, 1, [[f1]]).
(* KroneckerProductLinearOperator of the ops: left-nested in the code's matmul, associative; right fold here *)
Definition skron_list (l : list smx) : smx := fold_right skron sunit l.

Definition svec := (nat * list F)%type.
Definition svkron (x y : svec) : svec := (fst x * fst y, vkron2 (fst x) (fst y) (snd x) (snd y)).
Definition svkron_list (l : list svec) : svec := fold_right svkron (1, [f1]) l.

(* block layouts of k blocks, block i of shape m x n *)
Definition nth_mx (l : list (matrix F)) (i : nat) : matrix F := nth i l [].
(* BlockDiagLinearOperator: block-major *)
Definition blockdiag (k m n : nat) (bs : list (matrix F)) : matrix F :=
  tab (k * m) (k * n) (fun r c => if Nat.eqb (r / m) (c / n) then ent (nth_mx bs (r / m)) (r mod m) (c mod n) else f0).
(* BlockInterleavedLinearOperator: block index varies fastest *)
Definition blockinter (k m n : nat) (bs : list (matrix F)) : matrix F :=
  tab (k * m) (k * n) (fun r c => if Nat.eqb (r mod k) (c mod k) then ent (nth_mx bs (r mod k)) (r / k) (c / k) else f0).

(* torch.linalg.solve_triangular(L, I, upper=False): forward substitution, column by column.
   x_i = (b_i - sum_{l<i} L_il x_l) / L_ii *)
Fixpoint fwd_col (n : nat) (L : matrix F) (b : nat -> F) (i : nat) (acc : list F) (fuel : nat) : list F :=
  match fuel with
  | O => acc
  | S fuel' =>
      let s := sum_to i (fun l => ent L i l *. vnth acc l) in
      fwd_col n L b (S i) (acc ++ [(b i -. s) /. ent L i i]) fuel'
  end.
Definition lower_inverse (n : nat) (L : matrix F) : matrix F :=
  let cols := map (fun j => fwd_col n L (fun i => if Nat.eqb i j then f1 else f0) 0 [] n) (seq 0 n) in
  tab n n (fun i j => vnth (nth j cols []) i).

(* ------------------------------------------------------------------ oracles *)
Record oracles := MkOr {
  o_eigh : matrix F -> list F * matrix F;
  o_lz_diag : matrix F -> nat -> list F * matrix F;
  o_lz_root : matrix F -> nat -> matrix F * matrix F;
  o_pivchol : matrix F -> nat -> matrix F;
  o_pinv : matrix F -> matrix F
}.
Variable orc : oracles.
Variable st : settings.

Definition ncols (X : matrix F) : nat := length (nth 0 X []).

(* ------------------------------------------------------------------ base-class algorithms on a dense matrix A (n x n) *)

(* LinearOperator._cholesky(upper): 1 x 1 shortcut, else psd_safe_cholesky (C16 model, kernel = Banachiewicz) *)
Definition base_chol (n : nat) (A : matrix F) (upper : bool) : M (matrix F) :=
  if Nat.eqb n 1 then ret (map (map (fun x => fsqrt (C16.Model.clamp_min0 ar x))) A)
  else
    match psc ar (chol_kernel ar) (chol_st st) (default32 st) Float64 n [A] upper None None with
    | (C16.Model.Ok [L] w, _) => (Ok L, repeat (EvChol n) (S (length w)))
    | (C16.Model.Ok _ w, _) => (Err ERuntime, repeat (EvChol n) (S (length w)))
    | (ErrNan, _) => (Err ENan, [EvChol n])
    | (ErrNotPSD w _, _) => (Err ENotPSD, repeat (EvChol n) (S (length w)))
    | (ErrUnbound, _) => (Err EUnbound, [EvChol n])
    end.

(* LinearOperator._symeig: eigh of the dense matrix, eigenvalues clamped at 0 *)
Definition base_symeig (n : nat) (A : matrix F) : M (list F * matrix F) :=
  let '(w, Q) := o_eigh orc A in (Ok (vmap (fclamp_min f0) w, Q), [EvEigh n]).

(* LinearOperator._svd from (evals, evecs): U = evecs * sign, S = |evals|, V = evecs *)
Definition svd_of_symeig (n : nat) (wq : list F * matrix F) : matrix F * list F * matrix F :=
  let '(w, Q) := wq in (scale_cols n n Q (vmap fsign w), vmap fabs w, Q).

(* Diagonalization.apply (Lanczos): evals, evecs (n x k); k read off the answer *)
Definition base_lz_diag (n : nat) (A : matrix F) (max_iter : nat) : M (list F * matrix F * nat) :=
  let '(w, Q) := o_lz_diag orc A max_iter in
  (Ok (w, Q, length w), [EvLanczos n (length w); EvEigh (length w)]).

(* RootDecomposition.apply (Lanczos): (root, inverse) n x k *)
Definition base_lz_root (n : nat) (A : matrix F) (max_iter : nat) : M (matrix F * matrix F * nat) :=
  let '(R, Ri) := o_lz_root orc A max_iter in
  (Ok (R, Ri, ncols R), [EvLanczos n (ncols R); EvEigh (ncols R)]).

(* LinearOperator.diagonalization(method) given this object's _symeig and _root_decomposition_size *)
Definition gen_diag (n : nat) (A : matrix F) (symeig : M (list F * matrix F)) (rsize : M nat)
           (default : method) (meth : method) : M (list F * matrix F * nat) :=
  let meth := match meth with MNone => default | m => m end in
  match meth with
  | MLanczos => k <- rsize ;; base_lz_diag n A k
  | MSymeig => '(w, Q) <- symeig ;; ret (w, Q, n)
  | _ => fail ERuntime
  end.

(* evecs * evals.clamp_min(0).sqrt().unsqueeze(-2) *)
Definition root_of_eig (n k : nat) (w : list F) (Q : matrix F) : matrix F :=
  scale_cols n k Q (vmap (fun x => fsqrt (fclamp_min f0 x)) w).
(* evecs * evals.clamp_min(1e-7).reciprocal().sqrt().unsqueeze(-2) *)
Definition root_inv_of_eig (n k : nat) (w : list F) (Q : matrix F) : matrix F :=
  scale_cols n k Q (vmap (fun x => fsqrt (frecip (fclamp_min (eps_inv st) x))) w).

(* result of root_inv_decomposition: the inverse root (n x k) and, when the Lanczos route ran, the root it put
   into the operator's cache under "root_decomposition" *)
Definition rinv_t := (matrix F * nat * option (matrix F * nat))%type.

(* LinearOperator.root_decomposition(method) in terms of this object's other queries *)
Definition gen_root (n : nat) (A : matrix F) (c : cache)
           (chol : M (matrix F)) (symeig : M (list F * matrix F))
           (diag : M (list F * matrix F * nat)) (svd : M (matrix F * list F * matrix F))
           (rootL : M (matrix F * nat)) (rsize : M nat) (meth : method) : M (matrix F * nat) :=
  if Nat.eqb (n * n) 1 then ret (map (map fsqrt) A, 1)
  else
    let meth := match meth with MNone => choose_root_method st c n | m => m end in
    let via_symeig := '(w, Q) <- symeig ;; ret (root_of_eig n n w Q, n) in
    match meth with
    | MCholesky =>
        match fst chol with
        | Ok L => (Ok (L, n), snd chol)
        | Err k => if is_runtime_error k
                   then (fst via_symeig, snd chol ++ snd via_symeig)      (* warn; method = "symeig" *)
                   else (Err k, snd chol)
        end
    | MPivotedCholesky => k <- rsize ;; (Ok (o_pivchol orc A k, ncols (o_pivchol orc A k)), [EvPivChol n])
    | MSymeig => via_symeig
    | MDiagonalization => '(w, Q, k) <- diag ;; ret (root_of_eig n k w Q, k)
    | MSvd => '(U, Sv, _) <- svd ;; ret (scale_cols n n U (vmap fsqrt Sv), n)
    | MLanczos => rootL
    | _ => fail ERuntime
    end.

(* LinearOperator.root_inv_decomposition(method=…) (initial_vectors = None) *)
Definition gen_root_inv (n : nat) (A : matrix F) (c : cache)
           (chol : M (matrix F)) (symeig : M (list F * matrix F))
           (diag : M (list F * matrix F * nat)) (svd : M (matrix F * list F * matrix F))
           (rootinvL : M rinv_t) (root_default : M (matrix F * nat)) (meth : method) : M rinv_t :=
  if Nat.eqb (n * n) 1 then ret (map (map (fun x => frecip (fsqrt x))) A, 1, None)
  else
    let meth := match meth with MNone => choose_root_method st c n | m => m end in
    match meth with
    | MCholesky =>
        L <- chol ;; _ <- emit (EvTrsolve n) ;;
        ret (mtr n n (lower_inverse n L), n, None)
    | MLanczos => rootinvL
    | MSymeig => '(w, Q) <- symeig ;; ret (root_inv_of_eig n n w Q, n, None)
    | MDiagonalization => '(w, Q, k) <- diag ;; ret (root_inv_of_eig n k w Q, k, None)
    | MSvd => '(U, Sv, _) <- svd ;; ret (root_inv_of_eig n n Sv U, n, None)
    | MPinverse =>
        '(R, k) <- root_default ;; _ <- emit (EvPinv n) ;;
        ret (mtr k n (o_pinv orc R), k, None)
    | _ => fail ERuntime
    end.

(* ------------------------------------------------------------------ operator expressions (one member) *)
Inductive expr :=
| EDense (n : nat) (A : matrix F)            (* any operator running the base-class defaults on its dense matrix:
                                                Dense, Toeplitz, Sum, PsdSum, Mul, Matmul, user subclasses … *)
| EDiag (d : list F)
| EConstDiag (c : F) (n : nat)
| EIdentity (n : nat)
| ETri (n : nat) (upper : bool) (T : matrix F)
| EChol (n : nat) (upper : bool) (T : matrix F)
| ERoot (n k : nat) (R : matrix F)
| EKron (ops : list expr)
| EKronDiag (ops : list expr)                (* factors: EDiag / EConstDiag *)
| EKpad (k d : expr)                         (* KroneckerProductAddedDiag(k = EKron …, d = diagonal operator) *)
| ESumKron (a b : expr)                      (* a, b = EKron … *)
| EAddedDiag (b d : expr)
| EConstMul (b : expr) (c : F)
| EBlockDiag (bs : list expr)
| EBlockInter (bs : list expr)
| ERepeat (b : expr).

(* the public queries of one operator object, as closures *)
Record algs := MkAlgs {
  a_n : nat;                                                       (* size(-1) *)
  a_dense : matrix F;                                              (* to_dense() *)
  a_diagvec : option (list F);                                     (* Some d when the object is a DiagLinearOperator *)
  a_chol : bool -> M (matrix F);                                   (* _cholesky(upper) *)
  a_chol_tri : bool;            (* cholesky() returns a TriangularLinearOperator instance (Diag family included);
                                   false for KroneckerProductTriangularLinearOperator *)
  a_symeig : M (list F * matrix F);                                (* _symeig(eigenvectors=True) *)
  a_svd : M (matrix F * list F * matrix F);                        (* _svd() *)
  a_diag : method -> M (list F * matrix F * nat);                  (* diagonalization(method) *)
  a_rsize : M nat;                                                 (* _root_decomposition_size() *)
  a_rootL : M (matrix F * nat);                                    (* _root_decomposition() *)
  a_rootinvL : M rinv_t;                                           (* _root_inv_decomposition() *)
  a_root : cache -> method -> M (matrix F * nat);                  (* root_decomposition(method).root *)
  a_rootinv : cache -> method -> M rinv_t                          (* root_inv_decomposition(method=…).root *)
}.

(* public cholesky(upper): _cholesky(upper=False) then _transpose_nonbatch() *)
Definition pub_cholesky (a : algs) (upper : bool) : M (matrix F) :=
  L <- a_chol a false ;; ret (if upper then mtr (a_n a) (a_n a) L else L).

Definition z2n (z : Z) : nat := Z.to_nat z.

(* the queries of an operator that runs all base-class defaults on dense matrix A *)
Definition base_algs (n : nat) (A : matrix F) : algs :=
  let chol := base_chol n A in
  let symeig := base_symeig n A in
  let svd := wq <- symeig ;; ret (svd_of_symeig n wq) in
  let rsize := ret (z2n (mrs st)) in
  let diag := gen_diag n A symeig rsize (choose_diag_method st n) in
  let rootL := k <- rsize ;; '(R, _, kk) <- base_lz_root n A k ;; ret (R, kk) in
  let rootinvL := k <- rsize ;; '(R, Ri, kk) <- base_lz_root n A k ;; ret (Ri, kk, Some (R, kk)) in
  let cholpub := L <- chol false ;; ret L in
  let root := fun c m => gen_root n A c cholpub symeig (diag MNone) svd rootL rsize m in
  let rootinv := fun c m => gen_root_inv n A c cholpub symeig (diag MNone) svd rootinvL (root c MNone) m in
  MkAlgs n A None chol true symeig svd diag rsize rootL rootinvL root rootinv.

(* replace some queries of a base record *)
Definition vsqrt (v : list F) := vmap fsqrt v.

(* DiagLinearOperator family (d = the diagonal) *)
Definition diag_algs (d : list F) : algs :=
  let n := length d in
  let A := mdiag n d in
  let b := base_algs n A in
  let chol := fun (_ : bool) => ret (mdiag n (vsqrt d)) in                       (* self.sqrt() *)
  let symeig := ret (d, meye n) in                                               (* evals = _diag, evecs = I *)
  let svd := ret (meye n, vmap fabs d, scale_cols n n (meye n) (vmap fsign d)) in (* U = evecs, V = evecs * sign *)
  let rsize := a_rsize b in
  let diag := gen_diag n A symeig rsize (choose_diag_method st n) in
  let rootL := ret (mdiag n (vsqrt d), n) in                                     (* self.sqrt() *)
  let rootinvL := ret (mdiag n (vsqrt (vmap frecip d)), n, None) in              (* self.inverse().sqrt() *)
  let cholpub := L <- chol false ;; ret L in
  let root := fun c m => gen_root n A c cholpub symeig (diag MNone) svd rootL rsize m in
  let rootinv := fun c m => gen_root_inv n A c cholpub symeig (diag MNone) svd rootinvL (root c MNone) m in
  MkAlgs n A (Some d) chol true symeig svd diag rsize rootL rootinvL root rootinv.

Definition mx_of_algs (a : algs) : smx := (a_n a, a_n a, a_dense a).

(* KroneckerProductAddedDiag root branches, given the eigendecomposition (w, Q) the code obtains *)
Definition kpad_root_const (n : nat) (w : list F) (Q : matrix F) (c : F) (inverse : bool) : matrix F :=
  (* MatmulLinearOperator(q_matrix, DiagLinearOperator((evals + c).pow(+-0.5))) *)
  scale_cols n n Q (vmap (fun x => if inverse then frecip (fsqrt (x +. c)) else fsqrt (x +. c)) w).

(* ---- Kronecker-structured queries from the factors' records (KroneckerProductLinearOperator) *)
Definition kron_of (l : list (matrix F * nat * nat)) : smx :=      (* entries: (data, rows, cols) *)
  skron_list (map (fun x => (snd (fst x), snd x, fst (fst x))) l).

(* _cholesky(upper): Kronecker product of the factors' public cholesky(upper) *)
Definition kron_chol (subs : list algs) (upper : bool) : M (matrix F) :=
  Ls <- mseq (map (fun a => L <- pub_cholesky a upper ;; ret (L, a_n a, a_n a)) subs) ;;
  (* KroneckerProductTriangularLinearOperator.__init__: every component must be a TriangularLinearOperator
     (a nested Kronecker product returns a KroneckerProductTriangularLinearOperator, which is not) *)
  if forallb a_chol_tri subs then ret (s_dat (kron_of Ls)) else fail ERuntime.

(* _symeig: per-factor _symeig; evals = Kronecker product of the evals, evecs = Kronecker product of the evecs *)
Definition kron_symeig (subs : list algs) : M (list F * matrix F) :=
  wqs <- mseq (map (fun a => wq <- a_symeig a ;; ret (wq, a_n a)) subs) ;;
  ret (snd (svkron_list (map (fun x => (snd x, fst (fst x))) wqs)),
       s_dat (kron_of (map (fun x => (snd (fst x), snd x, snd x)) wqs))).

(* _svd: per-factor public svd() *)
Definition kron_svd (subs : list algs) : M (matrix F * list F * matrix F) :=
  usv <- mseq (map (fun a => x <- a_svd a ;; ret (x, a_n a)) subs) ;;
  ret (s_dat (kron_of (map (fun x => (fst (fst (fst x)), snd x, snd x)) usv)),
       snd (svkron_list (map (fun x => (snd x, snd (fst (fst x)))) usv)),
       s_dat (kron_of (map (fun x => (snd (fst x), snd x, snd x)) usv))).

Fixpoint alg (e : expr) : algs :=
  match e with
  | EDense n A => base_algs n A
  | EDiag d => diag_algs d
  | EConstDiag c n => diag_algs (vconst n c)
  | EIdentity n =>
      let d := vconst n f1 in
      let b := diag_algs d in
      let I := meye n in
      (* _cholesky = self ; _symeig = (ones, self) ; _svd = (self, ones, self) ; roots = self.sqrt() etc. = self *)
      let symeig := ret (d, I) in
      let svd := ret (I, d, I) in
      let rsize := a_rsize b in
      let diag := gen_diag n I symeig rsize (choose_diag_method st n) in
      let chol := fun (_ : bool) => ret I in
      let cholpub := L <- chol false ;; ret L in
      let rootL := ret (I, n) in
      let rootinvL := ret (I, n, None) in
      let root := fun c m => gen_root n I c cholpub symeig (diag MNone) svd rootL rsize m in
      let rootinv := fun c m => gen_root_inv n I c cholpub symeig (diag MNone) svd rootinvL (root c MNone) m in
      MkAlgs n I (Some d) chol true symeig svd diag rsize rootL rootinvL root rootinv
  | ETri n upper T =>
      let b := base_algs n T in
      let chol := fun (_ : bool) => fail ENotPSD in
      let rootL := fail ENotPSD in
      let rootinvL := fail ENotPSD in
      let cholpub := L <- chol false ;; ret L in
      let root := fun c m => gen_root n T c cholpub (a_symeig b) (a_diag b MNone) (a_svd b) rootL (a_rsize b) m in
      let rootinv := fun c m => gen_root_inv n T c cholpub (a_symeig b) (a_diag b MNone) (a_svd b) rootinvL (root c MNone) m in
      MkAlgs n T None chol true (a_symeig b) (a_svd b) (a_diag b) (a_rsize b) rootL rootinvL root rootinv
  | EChol n upper T =>
      (* to_dense: upper ? R^T R : L L^T ; root = the stored factor *)
      let Tt := mtr n n T in
      let A := if upper then mmul n n n Tt T else mmul n n n T Tt in
      let b := base_algs n A in
      let chol := fun (up : bool) => ret (if Bool.eqb up upper then T else Tt) in
      let rsize := ret n in                                              (* RootLinearOperator: root.size(-1) *)
      let rootL := ret (T, n) in                                         (* RootLinearOperator._root_decomposition *)
      let root := fun (_ : cache) (_ : method) => ret (T, n) in         (* RootLinearOperator.root_decomposition: self *)
      (* CholLinearOperator.root_inv_decomposition: root.inverse()._transpose_nonbatch()   (method ignored).
         root.inverse() of a TriangularLinearOperator solves against the identity. *)
      let rootinv := fun (_ : cache) (_ : method) =>
        _ <- emit (EvTrsolve n) ;;
        let Tinv := if upper then mtr n n (lower_inverse n Tt) else lower_inverse n T in
        ret (mtr n n Tinv, n, None) in
      let diag := gen_diag n A (a_symeig b) rsize (choose_diag_method st n) in
      MkAlgs n A None chol true (a_symeig b) (a_svd b) diag rsize rootL (a_rootinvL b) root rootinv
  | ERoot n k R =>
      let A := mmul n k n R (mtr n k R) in
      let b := base_algs n A in
      let rsize := ret k in
      let rootL := ret (R, k) in
      let root := fun (_ : cache) (_ : method) => ret (R, k) in
      let diag := gen_diag n A (a_symeig b) rsize (choose_diag_method st n) in
      let rootinvL := '(Rt, Ri, kk) <- base_lz_root n A k ;; ret (Ri, kk, Some (Rt, kk)) in
      let cholpub := L <- a_chol b false ;; ret L in
      let rootinv := fun c m => gen_root_inv n A c cholpub (a_symeig b) (diag MNone) (a_svd b) rootinvL (root c MNone) m in
      MkAlgs n A None (a_chol b) true (a_symeig b) (a_svd b) diag rsize rootL rootinvL root rootinv
  | EKron ops =>
      let subs := map alg ops in
      let sz := skron_list (map mx_of_algs subs) in
      let n := s_rows sz in
      let A := s_dat sz in
      let b := base_algs n A in
      let chol := kron_chol subs in
      let symeig := kron_symeig subs in
      let svd := kron_svd subs in
      let rsize := a_rsize b in
      (* diagonalization: method None -> "symeig" *)
      let diag := gen_diag n A symeig rsize MSymeig in
      let cholpub := L <- chol false ;; ret L in
      let root_super := fun c m => gen_root n A c cholpub symeig (diag MNone) svd (a_rootL b) rsize m in
      let root := fun c m =>
        if (Z.of_nat n <=? mcs st)%Z then root_super c m
        else Rs <- mseq (map (fun a => '(R, k) <- a_root a no_cache m ;; ret (R, a_n a, k)) subs) ;;
             let K := kron_of Rs in ret (s_dat K, s_cols K) in
      let rootinv_super := fun c m => gen_root_inv n A c cholpub symeig (diag MNone) svd (a_rootinvL b) (root c MNone) m in
      let rootinv := fun c (m : method) =>
        if (Z.of_nat n <=? mcs st)%Z then rootinv_super c (if kron_noargs st then MNone else m)   (* super().root_inv_decomposition(...) *)
        else Rs <- mseq (map (fun a => '(R, k, _) <- a_rootinv a no_cache MNone ;; ret (R, a_n a, k)) subs) ;;
             let K := kron_of Rs in ret (s_dat K, s_cols K, None) in
      MkAlgs n A None chol false symeig svd diag rsize (a_rootL b) (a_rootinvL b) root rootinv
  | EKronDiag ops =>
      (* MRO: KroneckerProductDiag, Diag, Triangular, KroneckerProductTriangular, KroneckerProduct, LinearOperator:
         the private queries are the Diag ones (on the Kronecker product of the diagonals), the public
         root_decomposition / root_inv_decomposition / diagonalization are the KroneckerProduct overrides *)
      let subs := map alg ops in
      let dv := svkron_list (map (fun a => (a_n a, match a_diagvec a with Some d => d | None => [] end)) subs) in
      let da := diag_algs (snd dv) in
      let n := a_n da in
      let A := a_dense da in
      let rsize := a_rsize da in
      let diag := gen_diag n A (a_symeig da) rsize MSymeig in
      let cholpub := L <- a_chol da false ;; ret L in
      let root_super := fun c m => gen_root n A c cholpub (a_symeig da) (diag MNone) (a_svd da) (a_rootL da) rsize m in
      let root := fun c m =>
        if (Z.of_nat n <=? mcs st)%Z then root_super c m
        else Rs <- mseq (map (fun a => '(R, k) <- a_root a no_cache m ;; ret (R, a_n a, k)) subs) ;;
             let K := kron_of Rs in ret (s_dat K, s_cols K) in
      let rootinv_super := fun c m => gen_root_inv n A c cholpub (a_symeig da) (diag MNone) (a_svd da) (a_rootinvL da) (root c MNone) m in
      let rootinv := fun c (m : method) =>
        if (Z.of_nat n <=? mcs st)%Z then rootinv_super c (if kron_noargs st then MNone else m)
        else Rs <- mseq (map (fun a => '(R, k, _) <- a_rootinv a no_cache MNone ;; ret (R, a_n a, k)) subs) ;;
             let K := kron_of Rs in ret (s_dat K, s_cols K, None) in
      MkAlgs n A (a_diagvec da) (a_chol da) true (a_symeig da) (a_svd da) diag rsize (a_rootL da) (a_rootinvL da) root rootinv
  | EKpad k d =>
      let ak := alg k in
      let ad := alg d in
      let n := a_n ak in
      let A := madd n n (a_dense ak) (a_dense ad) in
      let b := base_algs n A in
      let const := match d with EConstDiag c _ => Some c | _ => None end in
      (* _symeig: constant diagonal -> the Kronecker part's _symeig, shifted *)
      let symeig := match const with
                    | Some c => '(w, Q) <- a_symeig ak ;; ret (vadd_const w c, Q)
                    | None => a_symeig b
                    end in
      let svd := match const with                                     (* AddedDiagLinearOperator._svd *)
                 | Some c => '(U, Sv, V) <- a_svd ak ;; ret (U, vadd_const Sv c, V)
                 | None => wq <- symeig ;; ret (svd_of_symeig n wq)
                 end in
      let rsize := a_rsize b in
      let diag := gen_diag n A symeig rsize (choose_diag_method st n) in
      let factors := match k with EKron ops => map alg ops | _ => [] end in
      let dfactors := match d with EKronDiag ops => Some ops | _ => None end in
      let all_const := match dfactors with
                       | Some ops => forallb (fun x => match x with EConstDiag _ _ => true | _ => false end) ops
                       | None => false end in
      let consts := match dfactors with
                    | Some ops => map (fun x => match x with EConstDiag c _ => c | _ => f1 end) ops
                    | None => [] end in
      (* _constant_kpadlt_constructor: per factor lt_.diagonalization(); evals_/c_i ; evals + 1 ; evecs *)
      let const_ctor :=
        wqs <- mseq (map (fun ac => '(w, Q, kk) <- a_diag (fst ac) MNone ;;
                                    ret (vmap (fun x => x /. snd ac) w, Q, a_n (fst ac), kk)) (combine factors consts)) ;;
        ret (vadd_const (snd (svkron_list (map (fun x => (snd x, fst (fst (fst x)))) wqs))) f1,
             map (fun x => (snd (fst (fst x)), snd (fst x), snd x)) wqs) in
      (* _symmetrize_kpadlt_constructor: D^{-1/2}, eigendecomposition of the Kronecker product of D_i^{-1/2} K_i D_i^{-1/2}
         (KroneckerProductLinearOperator.diagonalization -> "symeig" -> per-factor dense eigh), evals + 1 *)
      let dvecs := match d with
                   | EKronDiag ops => map (fun x => match a_diagvec (alg x) with Some v => v | None => [] end) ops
                   | _ => [] end in
      let symm_ctor :=
        wqs <- mseq (map (fun av =>
                       let a := fst av in let m := a_n a in
                       let di := vmap (fun x => frecip (fsqrt x)) (snd av) in
                       let Sm := scale_cols m m (scale_rows m m di (a_dense a)) di in
                       '(w, Q) <- base_symeig m Sm ;; ret (w, Q, m)) (combine factors dvecs)) ;;
        ret (vadd_const (snd (svkron_list (map (fun x => (snd x, fst (fst x))) wqs))) f1,
             s_dat (kron_of (map (fun x => (snd (fst x), snd x, snd x)) wqs))) in
      let dfull := match a_diagvec ad with Some v => v | None => [] end in
      let rootL_gen (inverse : bool) : M (matrix F * nat) :=
        match const with
        | Some c => '(w, Q, kk) <- a_diag ak MNone ;; ret (kpad_root_const n w Q c inverse, n)
        | None =>
          match dfactors with
          | Some _ =>
              if all_const then
                '(ep1, evs) <- const_ctor ;;
                let s := vmap (fun x => if inverse then fsqrt (frecip x) else fsqrt x) ep1 in
                (* scaled_evecs = Kron(evec_i * c_i.sqrt()) for the root, Kron(evec_i * c_i.rsqrt()) for the inverse root.
                   [SPECIFIED behaviour. The pinned tree scales the inverse root by c_i.sqrt() as well — known finding
                    C06-kpad-kronconst-root-inv, refuted in ProofsKpad.kpad_kronconst_root_inv_pinned_valid_iff.] *)
                let sc (c : F) := if inverse then frecip (fsqrt c) else fsqrt c in
                let scaled := kron_of (map (fun xc => (mscale (snd (fst (fst xc))) (snd (fst xc)) (sc (snd xc)) (fst (fst (fst xc))),
                                                       snd (fst (fst xc)), snd (fst xc))) (combine evs consts)) in
                ret (scale_cols n (s_cols scaled) (s_dat scaled) s, s_cols scaled)
              else
                '(ep1, Q) <- symm_ctor ;;
                let s := vmap (fun x => if inverse then fsqrt (frecip x) else fsqrt x) ep1 in
                (* root: D^{1/2} (Q s) ; inverse root: D^{-1/2} (Q s).
                   [SPECIFIED behaviour. The pinned tree inverts the D^{-1/2} it gets back and uses D^{+1/2} for the inverse
                    root too — known finding C06-kpad-krondiag-root-inv, ProofsKpad.kpad_krondiag_root_inv_pinned.] *)
                let dscale := if inverse then vmap (fun x => frecip (fsqrt x)) dfull else vsqrt dfull in
                ret (scale_rows n n dscale (scale_cols n n Q s), n)
          | None => if inverse then '(Ri, kk, _) <- a_rootinvL b ;; ret (Ri, kk) else a_rootL b
          end
        end in
      let rootL := rootL_gen false in
      let rootinvL := match const, dfactors with
                      | None, None => a_rootinvL b
                      | _, _ => '(Ri, kk) <- rootL_gen true ;; ret (Ri, kk, None)
                      end in
      let cholpub := L <- a_chol b false ;; ret L in
      let root := fun c m => gen_root n A c cholpub symeig (diag MNone) svd rootL rsize m in
      let rootinv := fun c m => gen_root_inv n A c cholpub symeig (diag MNone) svd rootinvL (root c MNone) m in
      MkAlgs n A None (a_chol b) true symeig svd diag rsize rootL rootinvL root rootinv
  | ESumKron a2 b2 =>
      let aa := alg a2 in
      let ab := alg b2 in
      let n := a_n aa in
      let A := madd n n (a_dense aa) (a_dense ab) in
      let b := base_algs n A in
      let f1s := match a2 with EKron ops => map alg ops | _ => [] end in
      let f2s := match b2 with EKron ops => map alg ops | _ => [] end in
      (* _sum_formulation: lt2_inv_roots = [lt.root_inv_decomposition().root for lt in lt2.linear_ops];
         factors rm^T lt rm (lazy Matmul operators); KroneckerProduct(...).add_jitter(1.0) *)
      let inv_roots := mseq (map (fun a => r <- a_rootinv a no_cache MNone ;; ret (r, a_n a)) f2s) in
      let inner (irs : list (rinv_t * nat)) : list (matrix F * nat) :=
        map (fun x => let '((Ri, k, _), m) := fst x in
                      let lt := a_dense (snd x) in
                      (mmul k m k (mmul k m m (mtr m k Ri) lt) Ri, k)) (combine irs f1s) in
      (* the inner matrix as an operator: KroneckerProductAddedDiag(Kron(dense factors), ConstantDiag(1)) *)
      let inner_algs (fs : list (matrix F * nat)) : algs :=
        (* its queries never recurse into structured children: the factors are lazy products -> dense defaults *)
        let subs := map (fun x => base_algs (snd x) (fst x)) fs in
        let sz := skron_list (map mx_of_algs subs) in
        let N := s_rows sz in
        let IA := madd N N (s_dat sz) (meye N) in
        let bb := base_algs N IA in
        let ksymeig := kron_symeig subs in
        let symeig := '(w, Q) <- ksymeig ;; ret (vadd_const w f1, Q) in
        let rsize := a_rsize bb in
        let diag := gen_diag N IA symeig rsize (choose_diag_method st N) in
        let kdiag := gen_diag N (s_dat sz) ksymeig rsize MSymeig in
        let rootL := '(w, Q, kk) <- kdiag MNone ;; ret (kpad_root_const N w Q f1 false, N) in
        let rootinvL := '(w, Q, kk) <- kdiag MNone ;; ret (kpad_root_const N w Q f1 true, N, None) in
        let cholpub := L <- a_chol bb false ;; ret L in
        let svd2 := '(U, Sv, V) <- kron_svd subs ;; ret (U, vadd_const Sv f1, V) in
        let root := fun c m => gen_root N IA c cholpub symeig (diag MNone) svd2 rootL rsize m in
        let rootinv := fun c m => gen_root_inv N IA c cholpub symeig (diag MNone) svd2 rootinvL (root c MNone) m in
        MkAlgs N IA None (a_chol bb) true symeig svd2 diag rsize rootL rootinvL root rootinv in
      (* _root_decomposition *)
      let rootL :=
        irs <- inv_roots ;;
        let ia := inner_algs (inner irs) in
        (* lt.root_decomposition() per lt2 factor: hits the cache when the Lanczos inverse root stored it *)
        Rs <- mseq (map (fun x => let '((_, _, cached), m) := fst x in
                                  match cached with
                                  | Some (R, k) => ret (R, m, k)
                                  | None => '(R, k) <- a_root (snd x) no_cache MNone ;; ret (R, m, k)
                                  end) (combine irs f2s)) ;;
        '(Rm, km) <- a_root ia no_cache MNone ;;
        let K := kron_of Rs in
        ret (mmul n (s_cols K) km (s_dat K) Rm, km) in
      (* _root_inv_decomposition *)
      let rootinvL :=
        irs <- inv_roots ;;
        let ia := inner_algs (inner irs) in
        '(R2, k2, _) <- a_rootinv ab no_cache MNone ;;
        '(Rmi, kmi, _) <- a_rootinv ia no_cache MNone ;;
        ret (mmul n k2 kmi R2 Rmi, kmi, None) in
      let cholpub := L <- a_chol b false ;; ret L in
      let root := fun c m => gen_root n A c cholpub (a_symeig b) (a_diag b MNone) (a_svd b) rootL (a_rsize b) m in
      let rootinv := fun c m => gen_root_inv n A c cholpub (a_symeig b) (a_diag b MNone) (a_svd b) rootinvL (root c MNone) m in
      MkAlgs n A None (a_chol b) true (a_symeig b) (a_svd b) (a_diag b) (a_rsize b) rootL rootinvL root rootinv
  | EAddedDiag be d =>
      let ab := alg be in
      let ad := alg d in
      let n := a_n ab in
      let A := madd n n (a_dense ab) (a_dense ad) in
      let b := base_algs n A in
      let const := match d with EConstDiag c _ => Some c | _ => None end in
      let symeig := match const with
                    | Some c => '(w, Q) <- a_symeig ab ;; ret (vadd_const w c, Q)
                    | None => a_symeig b
                    end in
      let svd := match const with
                 | Some c => '(U, Sv, V) <- a_svd ab ;; ret (U, vadd_const Sv c, V)
                 | None => wq <- symeig ;; ret (svd_of_symeig n wq)
                 end in
      let rsize := a_rsize b in
      let diag := gen_diag n A symeig rsize (choose_diag_method st n) in
      let cholpub := L <- a_chol b false ;; ret L in
      let root := fun c m => gen_root n A c cholpub symeig (diag MNone) svd (a_rootL b) rsize m in
      let rootinv := fun c m => gen_root_inv n A c cholpub symeig (diag MNone) svd (a_rootinvL b) (root c MNone) m in
      MkAlgs n A None (a_chol b) true symeig svd diag rsize (a_rootL b) (a_rootinvL b) root rootinv
  | EConstMul be c =>
      let ab := alg be in
      let n := a_n ab in
      let A := mscale n n c (a_dense ab) in
      let b := base_algs n A in
      (* root_decomposition: constant >= 0 -> sqrt(c) * base root (same method); else the default *)
      let root := fun ch m =>
        if fge0 c then '(R, k) <- a_root ab no_cache m ;; ret (mscale n k (fsqrt c) R, k)
        else a_root b ch m in
      let cholpub := L <- a_chol b false ;; ret L in
      let rootinv := fun ch m => gen_root_inv n A ch cholpub (a_symeig b) (a_diag b MNone) (a_svd b) (a_rootinvL b) (root ch MNone) m in
      MkAlgs n A None (a_chol b) true (a_symeig b) (a_svd b) (a_diag b) (a_rsize b) (a_rootL b) (a_rootinvL b) root rootinv
  | EBlockDiag bs =>
      let subs := map alg bs in
      let k := length subs in
      let m := match subs with a :: _ => a_n a | [] => 0 end in
      let n := k * m in
      let A := blockdiag k m m (map a_dense subs) in
      let b := base_algs n A in
      let chol := fun (upper : bool) =>
        Ls <- mseq (map (fun a => pub_cholesky a upper) subs) ;; ret (blockdiag k m m Ls) in
      let symeig :=
        wqs <- mseq (map a_symeig subs) ;;
        ret (concat (map fst wqs), blockdiag k m m (map snd wqs)) in
      let svd :=
        usv <- mseq (map a_svd subs) ;;
        ret (blockdiag k m m (map (fun x => fst (fst x)) usv), concat (map (fun x => snd (fst x)) usv),
             blockdiag k m m (map snd usv)) in
      let rsize := a_rsize b in
      let diag := gen_diag n A symeig rsize (choose_diag_method st n) in
      let rootL := Rs <- mseq (map a_rootL subs) ;;
                   let kk := match Rs with r :: _ => snd r | [] => 0 end in
                   ret (blockdiag k m kk (map fst Rs), k * kk) in
      let rootinvL := Rs <- mseq (map a_rootinvL subs) ;;
                      let kk := match Rs with r :: _ => snd (fst r) | [] => 0 end in
                      ret (blockdiag k m kk (map (fun x => fst (fst x)) Rs), k * kk, None) in
      let cholpub := L <- chol false ;; ret L in
      let root := fun c mm => gen_root n A c cholpub symeig (diag MNone) svd rootL rsize mm in
      let rootinv := fun c mm => gen_root_inv n A c cholpub symeig (diag MNone) svd rootinvL (root c MNone) mm in
      MkAlgs n A None chol true symeig svd diag rsize rootL rootinvL root rootinv
  | EBlockInter bs =>
      let subs := map alg bs in
      let k := length subs in
      let m := match subs with a :: _ => a_n a | [] => 0 end in
      let n := k * m in
      let A := blockinter k m m (map a_dense subs) in
      let b := base_algs n A in
      let chol := fun (upper : bool) =>
        Ls <- mseq (map (fun a => pub_cholesky a upper) subs) ;; ret (blockinter k m m Ls) in
      let rootL := Rs <- mseq (map a_rootL subs) ;;
                   let kk := match Rs with r :: _ => snd r | [] => 0 end in
                   ret (blockinter k m kk (map fst Rs), k * kk) in
      let rootinvL := Rs <- mseq (map a_rootinvL subs) ;;
                      let kk := match Rs with r :: _ => snd (fst r) | [] => 0 end in
                      ret (blockinter k m kk (map (fun x => fst (fst x)) Rs), k * kk, None) in
      let cholpub := L <- chol false ;; ret L in
      let root := fun c mm => gen_root n A c cholpub (a_symeig b) (a_diag b MNone) (a_svd b) rootL (a_rsize b) mm in
      let rootinv := fun c mm => gen_root_inv n A c cholpub (a_symeig b) (a_diag b MNone) (a_svd b) rootinvL (root c MNone) mm in
      MkAlgs n A None chol true (a_symeig b) (a_svd b) (a_diag b) (a_rsize b) rootL rootinvL root rootinv
  | ERepeat be =>
      (* every member of the repeated batch is a copy of a member of the base *)
      let ab := alg be in
      let n := a_n ab in
      let A := a_dense ab in
      let b := base_algs n A in
      let chol := fun (upper : bool) => pub_cholesky ab upper in
      let rsize := a_rsize b in
      let diag := gen_diag n A (a_symeig ab) rsize (choose_diag_method st n) in
      let rootinvL := '(Ri, kk, _) <- a_rootinvL ab ;; ret (Ri, kk, None) in
      let cholpub := L <- chol false ;; ret L in
      let root := fun c m => gen_root n A c cholpub (a_symeig ab) (diag MNone) (a_svd ab) (a_rootL ab) rsize m in
      let rootinv := fun c m => gen_root_inv n A c cholpub (a_symeig ab) (diag MNone) (a_svd ab) rootinvL (root c MNone) m in
      MkAlgs n A None chol true (a_symeig ab) (a_svd ab) diag rsize (a_rootL ab) rootinvL root rootinv
  end.

(* ------------------------------------------------------------------ the public queries *)
Inductive query :=
| QCholesky (upper : bool)
| QRoot (m : method)
| QRootInv (m : method)
| QEigh | QEigvalsh
| QDiag (m : method)
| QSvd.

(* named outputs: matrices (with inner dimension) and vectors *)
Record output := MkOut { o_mats : list (matrix F * nat); o_vecs : list (list F) }.

Definition run_query (e : expr) (c : cache) (q : query) : M output :=
  let a := alg e in
  match q with
  | QCholesky upper => L <- pub_cholesky a upper ;; ret (MkOut [(L, a_n a)] [])
  | QRoot m => '(R, k) <- a_root a c m ;; ret (MkOut [(R, k)] [])
  | QRootInv m => '(R, k, _) <- a_rootinv a c m ;; ret (MkOut [(R, k)] [])
  | QEigh => '(w, Q) <- a_symeig a ;; ret (MkOut [(Q, a_n a)] [w])
  | QEigvalsh => '(w, _) <- a_symeig a ;; ret (MkOut [] [w])
  | QDiag m => '(w, Q, k) <- a_diag a m ;; ret (MkOut [(Q, k)] [w])
  | QSvd => '(U, Sv, V) <- a_svd a ;; ret (MkOut [(U, a_n a); (V, a_n a)] [Sv])
  end.

End Generic.
