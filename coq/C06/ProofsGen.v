(* C06 — the generic (base-class) queries of Model.v are correct whenever the queries they delegate to are:
   gen_root / gen_root_inv / gen_diag / svd_of_symeig as functions of their sub-queries' contracts.
   Real closed field arithmetic; ALL sizes n; every value of the method argument. *)
From Coq Require Import PeanoNat.
From mathcomp Require Import all_ssreflect all_algebra zify.
Require Import C16.Model C16.ProofsClosed.
Require Import C06.Model C06.BaseLemmas C06.ProofsAlg C06.ProofsKron C06.ProofsKpad C06.Bridge C06.ProofsTri.
Set Implicit Arguments. Unset Strict Implicit. Unset Printing Implicit Defensive.
Import Order.Theory GRing.Theory Num.Theory.
Local Open Scope ring_scope.

(* ------------------------------------------------------------------ the event/result monad *)
Section Monad.
Variables X Y : Type.
Lemma fst_bind (m : M X) (f : X -> M Y) :
  fst (bind m f) = match fst m with Ok x => fst (f x) | Err k => Err k end.
Proof. by rewrite /bind; case: (fst m). Qed.

Lemma bind_ok (m : M X) (f : X -> M Y) y :
  fst (bind m f) = Ok y -> exists2 x, fst m = Ok x & fst (f x) = Ok y.
Proof. by rewrite fst_bind; case E: (fst m) => [x|k] // H; exists x. Qed.

Lemma fst_ret (x : X) : fst (ret x) = Ok x.
Proof. by []. Qed.
End Monad.

Section Gen.
Variable R : rcfType.
Notation T := (carrier R).
Notation arR := (ArRcf R).
Notation mx := (@mx_of R).
Notation rv := (@rv_of R).
Variable orc : oracles T.
Variable st : settings T.

(* ------------------------------------------------------------------ contracts of the sub-queries (A is n x n) *)
Definition chol_ok n (A : matrix T) (m : M (matrix T)) : Prop :=
  forall L, fst m = Ok L -> mx n n L *m (mx n n L)^T = mx n n A.

Definition symeig_ok n (A : matrix T) (m : M (list T * matrix T)) : Prop :=
  forall w Q, fst m = Ok (w, Q) ->
    [/\ length w = n, (mx n n Q)^T *m mx n n Q = 1%:M,
        mx n n Q *m diag_mx (rv n w) *m (mx n n Q)^T = mx n n A & forall j, 0 <= rv n w 0 j].

(* what root_decomposition needs of diagonalization(): Q diag(w) Q^T = A with w >= 0 (Q is n x k) *)
Definition diag_ok n (A : matrix T) (m : M (list T * matrix T * nat)) : Prop :=
  forall w Q k, fst m = Ok (w, Q, k) ->
    [/\ length w = k, mx n k Q *m diag_mx (rv k w) *m (mx n k Q)^T = mx n n A & forall j, 0 <= rv k w 0 j].

(* ... and what the inverse root needs in addition: square orthogonal Q *)
Definition diag_full_ok n (A : matrix T) (m : M (list T * matrix T * nat)) : Prop :=
  forall w Q k, fst m = Ok (w, Q, k) -> k = n /\ (mx n n Q)^T *m mx n n Q = 1%:M.

Definition svd_ok n (A : matrix T) (m : M (matrix T * list T * matrix T)) : Prop :=
  forall U S V, fst m = Ok (U, S, V) ->
    [/\ length S = n, mx n n U *m diag_mx (rv n S) *m (mx n n V)^T = mx n n A,
        (mx n n V)^T *m mx n n V = 1%:M, forall j, 0 <= rv n S 0 j
      & mx n n U *m diag_mx (rv n S) *m (mx n n U)^T = mx n n A].

Definition root_ok n (A : matrix T) (m : M (matrix T * nat)) : Prop :=
  forall Rt k, fst m = Ok (Rt, k) -> mx n k Rt *m (mx n k Rt)^T = mx n n A.

Definition rootinv_ok n (A : matrix T) (m : M (rinv_t T)) : Prop :=
  forall Rt k c, fst m = Ok (Rt, k, c) -> mx n n A *m (mx n k Rt *m (mx n k Rt)^T) = 1%:M.

(* ------------------------------------------------------------------ small facts *)
Lemma rv_root_of n (w : list T) :
  length w = n ->
  rv n (vmap (fun x => fsqrt arR (fclamp_min arR (a0 arR) x)) w) = rsqrt_clamp0 (rv n w).
Proof.
by move=> Hl; rewrite rv_of_vmap //; apply/rowP => j; rewrite !mxE.
Qed.

Lemma root_of_eig_gram n k (A : matrix T) (w : list T) (Q : matrix T) :
  length w = k -> mx n k Q *m diag_mx (rv k w) *m (mx n k Q)^T = mx n n A -> (forall j, 0 <= rv k w 0 j) ->
  mx n k (root_of_eig arR n k w Q) *m (mx n k (root_of_eig arR n k w Q))^T = mx n n A.
Proof.
move=> Hl HA Hw; rewrite /root_of_eig mx_of_scale_cols rv_root_of //.
rewrite trmx_mul tr_diag_mx mulmxA -(mulmxA (mx n k Q)) mul_diag_diag -HA.
congr (_ *m _ *m _); apply: diag_mx_inj_eq => j.
have := Hw j; rewrite !mxE => wj.
by rewrite -expr2 sqr_sqrtr ?max_l // le_maxr lexx orbT.
Qed.

(* svd_of_symeig: the base-class _svd satisfies the SVD contract when the eigendecomposition does;
   (U diag(S) U^T = A holds because U = V sign and the eigenvalues are >= 0) *)
Lemma svd_of_symeig_ok n (A : matrix T) (m : M (list T * matrix T)) :
  symeig_ok n A m -> svd_ok n A (bind m (fun wq => ret (svd_of_symeig arR n wq))).
Proof.
move=> Hs U S V H; have [[w Q] Hm] := bind_ok H; rewrite /svd_of_symeig /= => -[<- <- <-].
have [Hl HO HD Hw] := Hs _ _ Hm.
have Esg : rv n (vmap (fsign arR) w) = rsign (rv n w).
  by rewrite rv_of_vmap //; apply/rowP => j; rewrite !mxE fsignE.
have Eab : rv n (vmap (fabs arR) w) = rabs (rv n w).
  by rewrite rv_of_vmap //; apply/rowP => j; rewrite !mxE fabsE.
have [H1 H2 H3 _] := svd_from_symeig_valid HO HD.
split.
- by rewrite length_vmap.
- by rewrite mx_of_scale_cols Esg Eab.
- exact: HO.
- by move=> j; rewrite Eab mxE.
- rewrite mx_of_scale_cols Esg Eab -HD trmx_mul tr_diag_mx !mulmxA -(mulmxA (mx n n Q)) mul_diag_diag.
  rewrite -(mulmxA (mx n n Q)) mul_diag_diag; congr (_ *m _ *m _); apply: diag_mx_inj_eq => j.
  rewrite !mxE; have := Hw j; rewrite mxE => w0.
  rewrite ger0_norm // mulrAC -expr2.
  have [x0|x0|x0] := ltrgt0P (vnth arR w j : R).
  + by rewrite gtr0_sg // expr1n mul1r.
  + by move: w0; rewrite leNgt x0.
  + by rewrite x0 mulr0.
Qed.

(* ------------------------------------------------------------------ gen_diag *)
Lemma gen_diag_ok n (A : matrix T) symeig rsize dflt meth :
  symeig_ok n A symeig ->
  (forall k, fst rsize = Ok k -> diag_ok n A (base_lz_diag orc n A k)) ->
  diag_ok n A (gen_diag orc n A symeig rsize dflt meth).
Proof.
move=> Hs Hl w Q k; rewrite /gen_diag.
set m := match meth with MNone => dflt | m0 => m0 end.
case: m => //.
- move=> H; have [[w' Q'] Hm /= [<- <- <-]] := bind_ok H.
  by have [H1 H2 H3 H4] := Hs _ _ Hm; split.
- move=> H; have [k' Hk H'] := bind_ok H; exact: (Hl _ Hk _ _ _ H').
Qed.

(* ------------------------------------------------------------------ gen_root *)
Theorem gen_root_ok n (A : matrix T) c chol symeig diag svd rootL rsize meth :
  (n = 1%N -> exists2 a : T, A = [:: [:: a]] & 0 <= (a : R)) ->
  chol_ok n A chol -> symeig_ok n A symeig -> diag_ok n A diag -> svd_ok n A svd -> root_ok n A rootL ->
  (forall k, fst rsize = Ok k -> mx n (ncols (o_pivchol orc A k)) (o_pivchol orc A k) *m
                                 (mx n (ncols (o_pivchol orc A k)) (o_pivchol orc A k))^T = mx n n A) ->
  root_ok n A (gen_root arR orc st n A c chol symeig diag svd rootL rsize meth).
Proof.
move=> H1 Hc Hs Hd Hv Hr Hp Rt k; rewrite /gen_root.
case E1: (Nat.eqb (n * n) 1).
  have n1 : n = 1%N by move/Nat.eqb_eq: E1; case: n {H1 Hc Hs Hd Hv Hr Hp} => [|[|n]] //=; lia.
  have [a -> a0] := H1 n1; rewrite n1 /= => -[<- <-].
  apply/matrixP => i j; rewrite !mxE big_ord1 !mxE !ord1 /= /ent /=.
  by rewrite -expr2 sqr_sqrtr.
set m := match meth with MNone => _ | m0 => m0 end.
have Hsym : forall Rt k, fst (bind symeig (fun '(w, Q) => ret (root_of_eig arR n n w Q, n))) = Ok (Rt, k) ->
    mx n k Rt *m (mx n k Rt)^T = mx n n A.
  move=> Rt' k' H; have [[w Q] Hm /= [<- <-]] := bind_ok H.
  have [Hl HO HD Hw] := Hs _ _ Hm; exact: root_of_eig_gram.
case: m => //.
- (* cholesky, with the symeig fallback on RuntimeError *)
  case Ec: (fst chol) => [L|kk] /=.
    by move=> [<- <-]; apply: Hc.
  by case: (is_runtime_error kk) => //=; apply: Hsym.
- exact: Hsym.
- (* diagonalization *)
  move=> H; have [[[w Q] k'] Hm /= [<- <-]] := bind_ok H.
  have [Hl HD Hw] := Hd _ _ _ Hm; exact: root_of_eig_gram.
- (* svd: U * S.sqrt() *)
  move=> H; have [[[U S] V] Hm /= [<- <-]] := bind_ok H.
  have [Hl _ _ HS HU] := Hv _ _ _ Hm.
  rewrite mx_of_scale_cols rv_of_vmap // trmx_mul tr_diag_mx mulmxA -(mulmxA (mx n n U)) mul_diag_diag -HU.
  congr (_ *m _ *m _); apply: diag_mx_inj_eq => j; rewrite !mxE fsqrtE -expr2 sqr_sqrtr //.
  by have := HS j; rewrite mxE.
- (* lanczos *) exact: Hr.
- (* pivoted_cholesky *)
  by move=> H; have [k' Hk /= [<- <-]] := bind_ok H; apply: Hp.
Qed.

(* ------------------------------------------------------------------ gen_root_inv *)
(* the Cholesky factor as root_inv_decomposition(method="cholesky") needs it: triangular, invertible *)
Definition chol_tri_ok n (A : matrix T) (m : M (matrix T)) : Prop :=
  forall L, fst m = Ok L ->
    [/\ mx n n L *m (mx n n L)^T = mx n n A, is_trig_mx (mx n n L) & forall i : 'I_n, mx n n L i i != 0].

Definition eps_ok n (w : list T) : Prop := forall j, (eps_inv st : R) <= rv n w 0 j.

Lemma rv_root_inv_of n (w : list T) :
  length w = n ->
  rv n (vmap (fun x => fsqrt arR (frecip arR (fclamp_min arR (eps_inv st) x))) w) = rinvsqrt_clamp (rv n w) (eps_inv st).
Proof.
move=> Hl; rewrite rv_of_vmap //; apply/rowP => j; rewrite !mxE.
by rewrite fsqrtE frecipE fclamp_minE maxC.
Qed.

Lemma root_inv_of_eig_ok n (A : matrix T) (w : list T) (Q : matrix T) :
  0 < (eps_inv st : R) -> length w = n -> (mx n n Q)^T *m mx n n Q = 1%:M ->
  mx n n Q *m diag_mx (rv n w) *m (mx n n Q)^T = mx n n A -> eps_ok n w ->
  mx n n A *m (mx n n (root_inv_of_eig arR st n n w Q) *m (mx n n (root_inv_of_eig arR st n n w Q))^T) = 1%:M.
Proof.
move=> e0 Hl HO HD Hw; rewrite /root_inv_of_eig mx_of_scale_cols rv_root_inv_of //.
by have [] := root_inv_symeig_valid HO HD e0 Hw.
Qed.

Theorem gen_root_inv_ok n (A : matrix T) c chol symeig diag svd rootinvL root_default meth :
  0 < (eps_inv st : R) ->
  (n = 1%N -> exists2 a : T, A = [:: [:: a]] & 0 < (a : R)) ->
  chol_tri_ok n A chol ->
  symeig_ok n A symeig -> (forall w Q, fst symeig = Ok (w, Q) -> eps_ok n w) ->
  diag_ok n A diag -> diag_full_ok n A diag -> (forall w Q k, fst diag = Ok (w, Q, k) -> eps_ok k w) ->
  svd_ok n A svd ->
  (forall U S V, fst svd = Ok (U, S, V) -> (mx n n U)^T *m mx n n U = 1%:M /\ eps_ok n S) ->
  rootinv_ok n A rootinvL ->
  root_ok n A root_default ->
  (forall Rt k, fst root_default = Ok (Rt, k) -> k = n /\ mx n n (o_pinv orc Rt) *m mx n n Rt = 1%:M) ->
  rootinv_ok n A (gen_root_inv arR orc st n A c chol symeig diag svd rootinvL root_default meth).
Proof.
move=> e0 H1 Hc Hs Hse Hd Hdf Hde Hv Hve Hr Hrd Hp Rt k cc; rewrite /gen_root_inv.
case E1: (Nat.eqb (n * n) 1).
  have n1 : n = 1%N by move/Nat.eqb_eq: E1; case: n {H1 Hc Hs Hse Hd Hdf Hde Hv Hve Hr Hrd Hp} => [|[|n]] //=; lia.
  have [a -> a0] := H1 n1; rewrite n1 /= => -[<- <- _].
  apply/matrixP => i j; rewrite !mxE big_ord1 !mxE big_ord1 !mxE !ord1 /= /ent /= mul1r.
  have s0 : Num.sqrt (a : R) != 0 by rewrite gt_eqF // sqrtr_gt0.
  by rewrite -invfM -expr2 sqr_sqrtr ?ltW // mulfV // gt_eqF.
set m := match meth with MNone => _ | m0 => m0 end.
case: m => //.
- (* cholesky: L^-T *)
  move=> H; have [L HL H2] := bind_ok H; have [[] _ H3] := bind_ok H2; case: H3 => <- <- _.
  have [HA Htri Hdg] := Hc _ HL.
  rewrite mx_of_mtr.
  by have [] := root_inv_cholesky_valid HA (lower_inverse_ok Htri Hdg).
- (* symeig *)
  move=> H; have [[w Q] Hm /= [<- <- _]] := bind_ok H.
  have [Hl HO HD Hw] := Hs _ _ Hm; exact: (root_inv_of_eig_ok e0 Hl HO HD (Hse _ _ Hm)).
- (* diagonalization *)
  move=> H; have [[[w Q] k'] Hm /= [<- <- _]] := bind_ok H.
  have [Hl HD Hw] := Hd _ _ _ Hm; have [kn HO] := Hdf _ _ _ Hm.
  have He := Hde _ _ _ Hm; move: Hl HD He; rewrite kn => Hl HD He.
  exact: (root_inv_of_eig_ok e0 Hl HO HD He).
- (* svd: U * S.clamp_min(eps).reciprocal().sqrt() *)
  move=> H; have [[[U S] V] Hm /= [<- <- _]] := bind_ok H.
  have [Hl _ _ HS HU] := Hv _ _ _ Hm; have [HO He] := Hve _ _ _ Hm.
  exact: (root_inv_of_eig_ok e0 Hl HO HU He).
- (* lanczos *) exact: Hr.
- (* pinverse *)
  move=> H; have [[R0 k0] Hm H2] := bind_ok H; have [[] _ /= [<- <- _]] := bind_ok H2.
  have [kn HP] := Hp _ _ Hm; have HR := Hrd _ _ Hm; move: HR; rewrite kn => HR.
  rewrite mx_of_mtr; exact: (root_inv_pinverse_valid HR HP).
Qed.

End Gen.
