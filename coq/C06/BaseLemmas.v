(* C06 — plain-Coq facts about the tensor primitives of Model.v (any arithmetic). *)
From Coq Require Import List Bool Arith ZArith Lia.
Import ListNotations.
Require Import C16.Model C06.Model.

Section Base.
Variable F : Type.
Variable ar : Arith F.
Notation f0 := (a0 ar).

Lemma nth_map_seq {X} (g : nat -> X) (n i : nat) (d : X) :
  i < n -> nth i (map g (seq 0 n)) d = g i.
Proof.
  intros Hi. rewrite (nth_indep _ d (g 0)); [| rewrite map_length, seq_length; exact Hi].
  rewrite (map_nth g (seq 0 n) 0 i). rewrite seq_nth by exact Hi. reflexivity.
Qed.

Lemma ent_tab m n (f : nat -> nat -> F) i j : i < m -> j < n -> ent ar (tab m n f) i j = f i j.
Proof.
  intros Hi Hj. unfold ent, tab.
  rewrite (nth_map_seq (fun i => map (fun j => f i j) (seq 0 n)) m i [] Hi).
  apply (nth_map_seq (fun j => f i j) n j f0 Hj).
Qed.

Lemma vnth_vtab n (f : nat -> F) i : i < n -> vnth ar (vtab n f) i = f i.
Proof. intros Hi. unfold vnth, vtab. apply nth_map_seq. exact Hi. Qed.

Lemma length_tab m n f : length (tab (F := F) m n f) = m.
Proof. unfold tab. rewrite map_length, seq_length. reflexivity. Qed.

Lemma length_vtab n (f : nat -> F) : length (vtab n f) = n.
Proof. unfold vtab. rewrite map_length, seq_length. reflexivity. Qed.

Lemma length_row_tab m n f i : i < m -> length (nth i (tab (F := F) m n f) []) = n.
Proof.
  intros Hi. unfold tab.
  rewrite (nth_map_seq (fun i => map (fun j => f i j) (seq 0 n)) m i [] Hi).
  rewrite map_length, seq_length. reflexivity.
Qed.

Lemma vnth_map (g : F -> F) (v : list F) i : i < length v -> vnth ar (vmap g v) i = g (vnth ar v i).
Proof.
  intros Hi. unfold vnth, vmap.
  rewrite (nth_indep _ f0 (g f0)) by (rewrite map_length; exact Hi).
  apply map_nth.
Qed.

Lemma length_vmap (g : F -> F) (v : list F) : length (vmap g v) = length v.
Proof. apply map_length. Qed.

Lemma vnth_vconst n c i : i < n -> vnth ar (vconst n c) i = c.
Proof.
  intros Hi. unfold vnth, vconst.
  rewrite (nth_indep _ f0 c) by (rewrite repeat_length; exact Hi). apply nth_repeat.
Qed.

Lemma length_vconst n (c : F) : length (vconst n c) = n.
Proof. apply repeat_length. Qed.

Lemma vnth_vadd_const (v : list F) c i : i < length v -> vnth ar (vadd_const ar v c) i = aadd ar (vnth ar v i) c.
Proof.
  intros Hi. unfold vnth, vadd_const.
  rewrite (nth_indep _ f0 (aadd ar f0 c)) by (rewrite map_length; exact Hi).
  apply (map_nth (fun x => aadd ar x c)).
Qed.

End Base.
