(* C06 — the list-matrix model instantiated on a real closed field, and its MathComp meaning:
   one refinement lemma per tensor primitive of Model.v  (mx_of (prim ...) = MathComp operation). *)
From Coq Require Import PeanoNat.
From mathcomp Require Import all_ssreflect all_algebra zify.
Require Import C16.Model C16.ProofsClosed.
Require Import C06.Model C06.BaseLemmas C06.ProofsAlg C06.ProofsKron.
Set Implicit Arguments. Unset Strict Implicit. Unset Printing Implicit Defensive.
Import Order.Theory GRing.Theory Num.Theory.
Local Open Scope ring_scope.

Lemma eqbE (i j : nat) : Nat.eqb i j = (i == j).
Proof. by case: (Nat.eqb_spec i j) => [->|/eqP/negbTE ->]; rewrite ?eqxx. Qed.

(* Coq's Nat.div / Nat.modulo (used by the executable model) are ssreflect's divn / modn *)
Lemma divmodE a b : Nat.div a b = (a %/ b)%N /\ Nat.modulo a b = (a %% b)%N.
Proof.
case: b => [|b]; first by rewrite divn0 modn0.
have Ha := Nat.div_mod_eq a b.+1.
have Hr : (Nat.modulo a b.+1 < b.+1)%coq_nat by apply: Nat.mod_upper_bound.
move: Ha Hr; set q := Nat.div a b.+1; set r := Nat.modulo a b.+1 => Ha Hr.
have Hr' : (r < b.+1)%N by apply/ssrnat.ltP.
have E : a = (q * b.+1 + r)%N by rewrite Ha; lia.
by rewrite {1 2}E divnMDl // modnMDl divn_small // modn_small // addn0.
Qed.
Lemma divE a b : Nat.div a b = (a %/ b)%N. Proof. by case: (divmodE a b). Qed.
Lemma modE a b : Nat.modulo a b = (a %% b)%N. Proof. by case: (divmodE a b). Qed.

Section Bridge.
Variable R : rcfType.
Notation T := (carrier R).
Notation arR := (ArRcf R).

Definition mx_of (m n : nat) (X : matrix T) : 'M[R]_(m, n) := \matrix_(i, j) (ent arR X i j : R).
Definition rv_of (n : nat) (v : list T) : 'rV[R]_n := \row_j (vnth arR v j : R).

Lemma ltP' (n : nat) (i : 'I_n) : (i < n)%coq_nat.
Proof. exact: ssrnat.ltP. Qed.

Lemma mx_of_tab m n (f : nat -> nat -> T) : mx_of m n (tab m n f) = \matrix_(i, j) (f i j : R).
Proof. by apply/matrixP => i j; rewrite !mxE ent_tab //; exact: ltP'. Qed.

Lemma rv_of_vtab n (f : nat -> T) : rv_of n (vtab n f) = \row_j (f j : R).
Proof. by apply/rowP => j; rewrite !mxE vnth_vtab //; exact: ltP'. Qed.

Lemma sum_to_big k (f : nat -> T) : (sum_to arR k f : R) = \sum_(l < k) (f l : R).
Proof. by elim: k => [|k IH] /=; [rewrite big_ord0 | rewrite big_ord_recr /= -IH]. Qed.

Lemma mx_of_mmul m k n (X Y : matrix T) :
  mx_of m n (mmul arR m k n X Y) = mx_of m k X *m mx_of k n Y.
Proof.
rewrite /mmul mx_of_tab; apply/matrixP => i j; rewrite !mxE sum_to_big.
by apply: eq_bigr => l _; rewrite !mxE.
Qed.

Lemma mx_of_mtr m n (X : matrix T) : mx_of n m (mtr arR m n X) = (mx_of m n X)^T.
Proof. by rewrite /mtr mx_of_tab; apply/matrixP => i j; rewrite !mxE. Qed.

Lemma mx_of_madd m n (X Y : matrix T) : mx_of m n (madd arR m n X Y) = mx_of m n X + mx_of m n Y.
Proof. by rewrite /madd mx_of_tab; apply/matrixP => i j; rewrite !mxE. Qed.

Lemma mx_of_mscale m n (c : T) (X : matrix T) : mx_of m n (mscale arR m n c X) = (c : R) *: mx_of m n X.
Proof. by rewrite /mscale mx_of_tab; apply/matrixP => i j; rewrite !mxE. Qed.

Lemma mx_of_meye n : mx_of n n (meye arR n) = 1%:M.
Proof.
rewrite /meye mx_of_tab; apply/matrixP => i j; rewrite !mxE eqbE -(inj_eq val_inj) /=.
by case: (_ == _).
Qed.

Lemma mx_of_mdiag n (d : list T) : mx_of n n (mdiag arR n d) = diag_mx (rv_of n d).
Proof.
rewrite /mdiag mx_of_tab; apply/matrixP => i j; rewrite !mxE eqbE -(inj_eq val_inj) /=.
by case E: (_ == _); rewrite ?mulr0n ?mulr1n.
Qed.

Lemma mx_of_scale_cols m n (X : matrix T) (s : list T) :
  mx_of m n (scale_cols arR m n X s) = mx_of m n X *m diag_mx (rv_of n s).
Proof.
rewrite /scale_cols mx_of_tab -col_scale_diag; apply/matrixP => i j; by rewrite !mxE.
Qed.

Lemma mx_of_scale_rows m n (s : list T) (X : matrix T) :
  mx_of m n (scale_rows arR m n s X) = diag_mx (rv_of m s) *m mx_of m n X.
Proof.
rewrite /scale_rows mx_of_tab -row_scale_diag; apply/matrixP => i j; by rewrite !mxE.
Qed.

Lemma rv_of_vmap n (g : T -> T) (v : list T) :
  length v = n -> rv_of n (vmap g v) = \row_j (g (rv_of n v 0 j) : R).
Proof. by move=> Hl; apply/rowP => j; rewrite !mxE vnth_map // Hl; exact: ltP'. Qed.

Lemma rv_of_vadd_const n (v : list T) (c : T) :
  length v = n -> rv_of n (vadd_const arR v c) = \row_j (rv_of n v 0 j + (c : R)).
Proof. by move=> Hl; apply/rowP => j; rewrite !mxE vnth_vadd_const // Hl; exact: ltP'. Qed.

Lemma rv_of_vconst n (c : T) : rv_of n (vconst n c) = const_mx (c : R).
Proof. by apply/rowP => j; rewrite !mxE vnth_vconst //; exact: ltP'. Qed.

(* ---- elementwise functions *)
Lemma fclamp_minE (lo x : T) : (fclamp_min arR lo x : R) = Num.max (lo : R) x.
Proof. by rewrite /fclamp_min /= maxC /Num.max; case: ifP. Qed.

Lemma fsqrtE (x : T) : (fsqrt arR x : R) = Num.sqrt (x : R).
Proof. by []. Qed.

Lemma frecipE (x : T) : (frecip arR x : R) = (x : R)^-1.
Proof. by rewrite /frecip /= mul1r. Qed.

Lemma fabsE (x : T) : (fabs arR x : R) = `|(x : R)|.
Proof.
rewrite /fabs /=; case: ltrP => [x0|x0]; first by rewrite sub0r ltr0_norm.
by rewrite ger0_norm.
Qed.

Lemma fsignE (x : T) : (fsign arR x : R) = Num.sg (x : R).
Proof.
rewrite /fsign /=; case: (ltrgt0P (x : R)) => [x0|x0|->]; rewrite ?sub0r ?sgr0 //.
- by rewrite gtr0_sg.
- by rewrite ltr0_sg.
Qed.

Lemma fge0E (x : T) : fge0 arR x = (0 <= (x : R)).
Proof. by rewrite /fge0 /= -leNgt. Qed.

(* ---- Kronecker product and block layouts *)
Lemma mx_of_kron2 m n p q (A B : matrix T) :
  mx_of (m * p) (n * q) (kron2 arR m n p q A B)
  = kron (major m p) (major n q) (mx_of m n A) (mx_of p q B).
Proof. by rewrite /kron2 mx_of_tab; apply/matrixP => r c; rewrite !mxE /= !divE !modE. Qed.

Lemma rv_of_vkron2 m p (d e : list T) :
  rv_of (m * p) (vkron2 arR m p d e) = rkron (major m p) (rv_of m d) (rv_of p e).
Proof. by rewrite /vkron2 rv_of_vtab; apply/rowP => r; rewrite !mxE /= !divE !modE. Qed.

Lemma mx_of_blockdiag k m n (bs : list (matrix T)) :
  mx_of (k * m) (k * n) (blockdiag arR k m n bs)
  = blockd (major k m) (major k n) (fun i : 'I_k => mx_of m n (nth_mx bs i)).
Proof.
rewrite /blockdiag mx_of_tab; apply/matrixP => r c; rewrite !mxE /= !divE !modE eqbE -(inj_eq val_inj) /=.
by case E: (_ == _); rewrite ?mulr0n ?mulr1n.
Qed.

Lemma mx_of_blockinter k m n (bs : list (matrix T)) :
  mx_of (k * m) (k * n) (blockinter arR k m n bs)
  = blockd (minor k m) (minor k n) (fun i : 'I_k => mx_of m n (nth_mx bs i)).
Proof.
rewrite /blockinter mx_of_tab; apply/matrixP => r c; rewrite !mxE /= !divE !modE eqbE -(inj_eq val_inj) /=.
by case E: (_ == _); rewrite ?mulr0n ?mulr1n.
Qed.

End Bridge.
