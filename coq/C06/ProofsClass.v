(* C06 — the class records `alg e` of Model.v satisfy the factorisation contracts: per-class instantiations of the
   generic theorems of ProofsGen.v (gen_root_ok, gen_root_inv_ok, gen_diag_ok, svd_of_symeig_ok) and of the matrix
   identities of ProofsAlg / ProofsKron / ProofsKpad.  Real closed field arithmetic, ALL sizes, every method / cache /
   settings value.  Oracle contracts (eigh, Lanczos functions, pivoted Cholesky, pinverse) are hypotheses. *)
From Coq Require Import PeanoNat List ZArith.
From mathcomp Require Import all_ssreflect all_algebra zify.
Require Import C16.Model C16.ProofsClosed C16.Property.
Require C16.ProofsLoop C16.ProofsKernel C16.ProofsMain.
Require Import C06.Model C06.BaseLemmas C06.ProofsAlg C06.ProofsKron C06.ProofsKpad C06.Bridge C06.ProofsTri C06.ProofsGen.
Require C06.ProofsSelect.
Set Implicit Arguments. Unset Strict Implicit. Unset Printing Implicit Defensive.
Import Order.Theory GRing.Theory Num.Theory.
Local Open Scope ring_scope.

Section Dense.
Variable R : rcfType.
Notation T := (carrier R).
Notation arR := (ArRcf R).
Notation mx := (@mx_of R).
Notation rv := (@rv_of R).
Variables (orc : oracles T) (st : settings T).

Notation okb := (ProofsLoop.okb T (chol_kernel arR)).
Notation fac := (ProofsLoop.fac T (chol_kernel arR)).

(* "positive definite in exact arithmetic": square, symmetric, and the Cholesky-Banachiewicz recursion meets only
   positive pivots (C16: equivalent to having a Cholesky factor, C16_kernel_complete) *)
Definition pd (n : nat) (A : matrix T) : Prop :=
  [/\ ProofsKernel.wf T n A, ProofsKernel.sym T arR n A & okb A = true].

Lemma mx_c16 n (M : matrix T) : ProofsClosed.mx_of R n M = mx n n M.
Proof. by apply/matrixP => i j; rewrite !mxE. Qed.

(* LinearOperator._cholesky on a p.d. dense matrix, n <> 1: one cholesky_ex, no jitter, the kernel's factor *)
Lemma base_chol_pd n A upper :
  Nat.eqb n 1 = false -> okb A = true ->
  base_chol arR st n A upper = (Model.Ok (if upper then transpose arR n (fac A) else fac A), [:: EvChol n]).
Proof.
move=> n1 ok; rewrite /base_chol n1.
have H : ProofsLoop.allok T (chol_kernel arR) [:: A] = true by rewrite /ProofsLoop.allok /= ok.
rewrite (C16_pd_exact T arR (chol_kernel arR) (chol_st st) (default32 st) Float64 n [:: A] upper None None H).
by rewrite /ProofsMain.orient; case: upper.
Qed.

Lemma fac_spec n A : pd n A -> ProofsKernel.chol_spec T arR n A (fac A).
Proof.
case=> wfA _ ok.
have [EF [Hr _]] := C16_rcf_is_exact R.
apply: (C16_kernel_sound T arR EF n A wfA).
by move: ok; rewrite /ProofsLoop.okb => /Nat.eqb_eq.
Qed.

Lemma fac_tri_ok n A : pd n A ->
  [/\ mx n n (fac A) *m (mx n n (fac A))^T = mx n n A, is_trig_mx (mx n n (fac A))
    & forall i : 'I_n, 0 < mx n n (fac A) i i].
Proof.
move=> Hpd; have Hs := fac_spec Hpd; have [_ symA _] := Hpd.
split.
- by have := C16_rcf_factor_is_matrix_root R n A (fac A) Hs symA; rewrite /is_matrix_root !mx_c16.
- apply/is_trig_mxP => i j ij; rewrite mxE.
  have Hij : (i < j)%coq_nat by exact/ssrnat.ltP.
  exact: (ProofsKernel.cs_lower _ _ _ _ _ Hs _ _ Hij (ltP' j)).
- move=> i; rewrite mxE.
  exact: (ProofsKernel.cs_posdiag _ _ _ _ _ Hs _ (ltP' i)).
Qed.

(* THE Cholesky query of a dense-backed operator (public cholesky(upper), both orientations) *)
Theorem dense_cholesky_valid n A :
  Nat.eqb n 1 = false -> pd n A ->
  let a := alg arR orc st (EDense n A) in
  let L := fac A in
  [/\ pub_cholesky arR a false = (Model.Ok L, [:: EvChol n]),
      pub_cholesky arR a true = (Model.Ok (mtr arR n n L), [:: EvChol n]),
      mx n n L *m (mx n n L)^T = mx n n A /\ is_trig_mx (mx n n L) /\ (forall i : 'I_n, 0 < mx n n L i i)
    & (mx n n (mtr arR n n L))^T *m mx n n (mtr arR n n L) = mx n n A /\ is_trig_mx (mx n n (mtr arR n n L))^T].
Proof.
move=> n1 Hpd a L; have [_ _ ok] := Hpd; have [H1 H2 H3] := fac_tri_ok Hpd.
split=> //.
- by rewrite /pub_cholesky /a /= (base_chol_pd false n1 ok).
- by rewrite /pub_cholesky /a /= (base_chol_pd false n1 ok).
- by rewrite mx_of_mtr trmxK.
Qed.

(* ---------------------------------------------------------------- contracts of the oracles on the matrix A *)
(* torch.linalg.eigh on a symmetric PSD matrix: orthonormal eigenbasis, eigenvalues >= 0 *)
Definition eigh_contract n (A : matrix T) : Prop :=
  forall w Q, o_eigh orc A = (w, Q) ->
    [/\ length w = n, (mx n n Q)^T *m mx n n Q = 1%:M,
        mx n n Q *m diag_mx (rv n w) *m (mx n n Q)^T = mx n n A & forall j, 0 <= rv n w 0 j].

Lemma rv_clamp0 n (w : list T) :
  length w = n -> (forall j, 0 <= rv n w 0 j) -> rv n (vmap (fclamp_min arR (a0 arR)) w) = rv n w.
Proof.
move=> Hl Hw; rewrite rv_of_vmap //; apply/rowP => j; rewrite !mxE fclamp_minE.
by have := Hw j; rewrite mxE => w0; rewrite max_r.
Qed.

Lemma base_symeig_ok n A : eigh_contract n A -> symeig_ok n A (base_symeig arR orc n A).
Proof.
move=> He w Q; rewrite /base_symeig; case E: (o_eigh orc A) => [w0 Q0] /= [<- <-].
have [Hl HO HD Hw] := He _ _ E.
by rewrite rv_clamp0 // length_vmap; split.
Qed.

(* the 1 x 1 shortcut of _cholesky *)
Lemma base_chol_one (a : T) upper : 0 < (a : R) ->
  base_chol arR st 1 [:: [:: a]] upper = (Model.Ok [:: [:: (Num.sqrt (a : R) : T)]], [::]).
Proof.
by move=> a0; rewrite /base_chol /= /ret /fsqrt /clamp_min0 /= a0.
Qed.

(* what the property assumes of a dense-backed operator: p.d. (n = 1: a positive scalar) *)
Definition pd_dense n (A : matrix T) : Prop :=
  (n = 1%N -> exists2 a : T, A = [:: [:: a]] & 0 < (a : R)) /\ (n <> 1%N -> pd n A).

Lemma dense_chol_tri_ok n A : pd_dense n A ->
  chol_tri_ok n A (bind (base_chol arR st n A false) (fun L => ret L)).
Proof.
case=> H1 Hn L.
case E: (Nat.eqb n 1).
  move/Nat.eqb_eq: E => E; have [a EA a0] := H1 E; subst n A.
  rewrite (base_chol_one false a0) /= => -[<-]; split.
  - by apply/matrixP => i j; rewrite !mxE big_ord1 !mxE !ord1 /= /ent /= -expr2 sqr_sqrtr // ltW.
  - by apply/is_trig_mxP => i j; rewrite !ord1.
  - by move=> i; rewrite mxE ord1 /= /ent /= gt_eqF // sqrtr_gt0.
have n1 : n <> 1%N by move=> n1; rewrite n1 in E.
have Hpd := Hn n1; have [_ _ ok] := Hpd.
rewrite (base_chol_pd false E ok) /= => -[<-].
have [H2 H3 H4] := fac_tri_ok Hpd; split=> // i.
by rewrite gt_eqF.
Qed.

Lemma chol_tri_ok_chol_ok n A m : @chol_tri_ok R n A m -> @chol_ok R n A m.
Proof. by move=> H L HL; have [] := H L HL. Qed.

(* Diagonalization.apply / RootDecomposition.apply (Lanczos) and pivoted_cholesky, when they are exact on A
   (full Krylov space, rank bound >= n); what they return otherwise is the subject of C06_lanczos_root_is_compression *)
Definition lz_diag_contract n (A : matrix T) : Prop := forall k, diag_ok n A (base_lz_diag orc n A k).
Definition lz_root_contract n (A : matrix T) : Prop :=
  forall k Rt Ri, o_lz_root orc A k = (Rt, Ri) ->
    mx n (ncols Rt) Rt *m (mx n (ncols Rt) Rt)^T = mx n n A /\
    mx n n A *m (mx n (ncols Rt) Ri *m (mx n (ncols Rt) Ri)^T) = 1%:M.
Definition pivchol_contract n (A : matrix T) : Prop :=
  forall k, mx n (ncols (o_pivchol orc A k)) (o_pivchol orc A k) *m
            (mx n (ncols (o_pivchol orc A k)) (o_pivchol orc A k))^T = mx n n A.

Lemma dense_diag_ok n A meth : eigh_contract n A -> lz_diag_contract n A ->
  diag_ok n A (a_diag (alg arR orc st (EDense n A)) meth).
Proof. by move=> He Hd; apply: gen_diag_ok; [exact: base_symeig_ok | move=> k _; exact: Hd]. Qed.

Lemma dense_rootL_ok n A : lz_root_contract n A -> root_ok n A (a_rootL (alg arR orc st (EDense n A))).
Proof.
move=> Hr Rt k /= H.
have [[[R1 Ri1] k1] H1 /= [<- <-]] := bind_ok H.
move: H1; rewrite /base_lz_root; case E: (o_lz_root orc A _) => [R0 Ri0] /= [<- _ <-].
by have [] := Hr _ _ _ E.
Qed.

(* root_decomposition(method) of a dense-backed p.d. operator: R R^T = A for EVERY method, cache state, settings *)
Theorem dense_root_valid n A c meth :
  pd_dense n A -> eigh_contract n A -> lz_diag_contract n A -> lz_root_contract n A -> pivchol_contract n A ->
  root_ok n A (a_root (alg arR orc st (EDense n A)) c meth).
Proof.
move=> Hpd He Hd Hr Hp.
apply: gen_root_ok.
- by move=> n1; have [a -> a0] := Hpd.1 n1; exists a => //; exact: ltW.
- exact/chol_tri_ok_chol_ok/dense_chol_tri_ok.
- exact: base_symeig_ok.
- exact: (@dense_diag_ok n A MNone He Hd).
- exact/svd_of_symeig_ok/base_symeig_ok.
- exact: dense_rootL_ok.
- by move=> k _; exact: Hp.
Qed.

(* ---- inverse roots need eigenvalues bounded below by the clamp eps (1e-7 in the library) and square orthogonal Q *)
Definition eigh_lower n (A : matrix T) : Prop :=
  forall w Q, o_eigh orc A = (w, Q) -> forall j, (eps_inv st : R) <= rv n w 0 j.
Definition lz_diag_inv_contract n (A : matrix T) : Prop :=
  forall k, diag_full_ok n A (base_lz_diag orc n A k) /\
            (forall w Q kk, fst (base_lz_diag orc n A k) = Model.Ok (w, Q, kk) -> eps_ok st kk w).

Lemma base_symeig_eps n A : eigh_contract n A -> eigh_lower n A ->
  forall w Q, fst (base_symeig arR orc n A) = Model.Ok (w, Q) -> eps_ok st n w.
Proof.
move=> He Hl w Q; rewrite /base_symeig; case E: (o_eigh orc A) => [w0 Q0] /= [<- _].
have [Hlen _ _ Hw] := He _ _ E.
by rewrite /eps_ok rv_clamp0 //; exact: Hl E.
Qed.

Lemma gen_diag_full n A symeig rsize dflt meth :
  symeig_ok n A symeig -> (forall k, diag_full_ok n A (base_lz_diag orc n A k)) ->
  diag_full_ok n A (gen_diag orc n A symeig rsize dflt meth).
Proof.
move=> Hs Hl w Q k; rewrite /gen_diag.
set m := match meth with MNone => dflt | m0 => m0 end.
case: m => //.
- move=> H; have [[w' Q'] Hm /= [_ <- <-]] := bind_ok H.
  by have [_ H2 _ _] := Hs _ _ Hm.
- by move=> H; have [k' Hk H'] := bind_ok H; exact: (Hl _ _ _ _ H').
Qed.

Lemma gen_diag_eps n A (symeig : M (list T * matrix T)) rsize dflt meth :
  (forall w Q, fst symeig = Model.Ok (w, Q) -> eps_ok st n w) ->
  (forall k w Q kk, fst (base_lz_diag orc n A k) = Model.Ok (w, Q, kk) -> eps_ok st kk w) ->
  forall w Q k, fst (gen_diag orc n A symeig rsize dflt meth) = Model.Ok (w, Q, k) -> eps_ok st k w.
Proof.
move=> Hs Hl w Q k; rewrite /gen_diag.
set m := match meth with MNone => dflt | m0 => m0 end.
case: m => //.
- by move=> H; have [[w' Q'] Hm /= [<- _ <-]] := bind_ok H; exact: Hs Hm.
- by move=> H; have [k' Hk H'] := bind_ok H; exact: (Hl _ _ _ _ H').
Qed.

Lemma dense_rootinvL_ok n A : lz_root_contract n A -> rootinv_ok n A (a_rootinvL (alg arR orc st (EDense n A))).
Proof.
move=> Hr Rt k c /= H.
have [[[R1 Ri1] k1] H1 /= [<- <- _]] := bind_ok H.
move: H1; rewrite /base_lz_root; case E: (o_lz_root orc A _) => [R0 Ri0] /= [_ <- <-].
by have [] := Hr _ _ _ E.
Qed.

(* the base-class _svd of a matrix whose eigenvalues are >= eps > 0: U is orthonormal too and S >= eps *)
Lemma svd_of_symeig_inv n A (m : M (list T * matrix T)) :
  0 < (eps_inv st : R) -> symeig_ok n A m -> (forall w Q, fst m = Model.Ok (w, Q) -> eps_ok st n w) ->
  forall U S V, fst (bind m (fun wq => ret (svd_of_symeig arR n wq))) = Model.Ok (U, S, V) ->
    (mx n n U)^T *m mx n n U = 1%:M /\ eps_ok st n S.
Proof.
move=> e0 Hs He U S V H; have [[w Q] Hm] := bind_ok H; rewrite /svd_of_symeig /= => -[<- <- _].
have [Hl HO HD Hw] := Hs _ _ Hm; have Hwe := He _ _ Hm.
have wpos j : 0 < rv n w 0 j by exact: lt_le_trans e0 (Hwe j).
have Esg : rv n (vmap (fsign arR) w) = rsign (rv n w).
  by rewrite rv_of_vmap //; apply/rowP => j; rewrite !mxE fsignE.
have Eab : rv n (vmap (fabs arR) w) = rabs (rv n w).
  by rewrite rv_of_vmap //; apply/rowP => j; rewrite !mxE fabsE.
have [_ _ _ HU] := svd_from_symeig_valid HO HD.
split.
- by rewrite mx_of_scale_cols Esg; apply: HU => j; rewrite gt_eqF.
- by move=> j; rewrite Eab mxE gtr0_norm //; exact: Hwe.
Qed.

(* root_inv_decomposition(method) of a dense-backed p.d. operator: A (R R^T) = I for EVERY method, cache, settings *)
Theorem dense_root_inv_valid n A c meth :
  0 < (eps_inv st : R) ->
  pd_dense n A -> eigh_contract n A -> eigh_lower n A ->
  lz_diag_contract n A -> lz_diag_inv_contract n A -> lz_root_contract n A -> pivchol_contract n A ->
  (forall Rt k, fst (a_root (alg arR orc st (EDense n A)) c MNone) = Model.Ok (Rt, k) ->
     k = n /\ mx n n (o_pinv orc Rt) *m mx n n Rt = 1%:M) ->
  rootinv_ok n A (a_rootinv (alg arR orc st (EDense n A)) c meth).
Proof.
move=> e0 Hpd He Hl Hd Hdi Hr Hp Hpi.
have Hs := base_symeig_ok He.
apply: gen_root_inv_ok => //.
- exact: Hpd.1.
- exact: dense_chol_tri_ok.
- exact: base_symeig_eps.
- exact: (@dense_diag_ok n A MNone He Hd).
- by apply: gen_diag_full => // k; have [] := Hdi k.
- by apply: gen_diag_eps; [exact: (base_symeig_eps He Hl) | move=> k; have [_] := Hdi k; exact].
- exact/svd_of_symeig_ok.
- exact: (svd_of_symeig_inv e0 Hs (base_symeig_eps He Hl)).
- exact: dense_rootinvL_ok.
- exact: dense_root_valid.
Qed.

End Dense.

(* ================================================================== DiagLinearOperator / ConstantDiagLinearOperator *)
Section DiagClass.
Variable R : rcfType.
Notation T := (carrier R).
Notation arR := (ArRcf R).
Notation mx := (@mx_of R).
Notation rv := (@rv_of R).
Variables (orc : oracles T) (st : settings T).

Variable d : list T.
Notation n := (length d).
Notation A := (mdiag arR n d).
Hypothesis dpos : forall j, 0 < rv n d 0 j.

Let dge0 j : 0 <= rv n d 0 j.
Proof. exact: (ltW (dpos j)). Qed.

Lemma rv_vsqrt_gen (v : list T) : length v = n -> rv n (vsqrt arR v) = \row_j Num.sqrt (rv n v 0 j).
Proof. by move=> Hl; rewrite /vsqrt rv_of_vmap. Qed.

Lemma rv_vsqrt : rv n (vsqrt arR d) = \row_j Num.sqrt (rv n d 0 j).
Proof. exact: rv_vsqrt_gen. Qed.

Lemma diag_sqrt_gram : mx n n (mdiag arR n (vsqrt arR d)) *m (mx n n (mdiag arR n (vsqrt arR d)))^T = mx n n A.
Proof.
rewrite !mx_of_mdiag tr_diag_mx mul_diag_diag rv_vsqrt; apply: diag_mx_inj_eq => j.
by rewrite !mxE -expr2 sqr_sqrtr //; have := dge0 j; rewrite mxE.
Qed.

Lemma diag_chol_tri_ok : @chol_tri_ok R n A (bind (a_chol (diag_algs arR orc st d) false) (fun L => ret L)).
Proof.
move=> L /= [<-]; split; first exact: diag_sqrt_gram.
- by rewrite mx_of_mdiag; exact: diag_mx_is_trig.
- move=> i; rewrite mx_of_mdiag rv_vsqrt !mxE eqxx mulr1n gt_eqF // sqrtr_gt0.
  by have := dpos i; rewrite mxE.
Qed.

Lemma diag_symeig_ok : symeig_ok n A (a_symeig (diag_algs arR orc st d)).
Proof.
move=> w Q /= [<- <-]; split=> //.
- by rewrite mx_of_meye trmx1 mulmx1.
- by rewrite mx_of_meye trmx1 mulmx1 mul1mx mx_of_mdiag.
Qed.

Lemma diag_svd_ok : svd_ok n A (a_svd (diag_algs arR orc st d)).
Proof.
move=> U S V /= [<- <- <-].
have Esg : rv n (vmap (fsign arR) d) = const_mx 1.
  rewrite rv_of_vmap //; apply/rowP => j; rewrite !mxE fsignE gtr0_sg //.
  by have := dpos j; rewrite mxE.
have Eab : rv n (vmap (fabs arR) d) = rv n d.
  rewrite rv_of_vmap //; apply/rowP => j; rewrite !mxE fabsE gtr0_norm //.
  by have := dpos j; rewrite mxE.
have EV : mx n n (scale_cols arR n n (meye arR n) (vmap (fsign arR) d)) = 1%:M.
  by rewrite mx_of_scale_cols Esg mx_of_meye mul1mx diag_mx_const.
split.
- by rewrite length_vmap.
- by rewrite EV mx_of_meye Eab trmx1 mulmx1 mul1mx mx_of_mdiag.
- by rewrite EV trmx1 mulmx1.
- by move=> j; rewrite Eab.
- by rewrite mx_of_meye Eab trmx1 mulmx1 mul1mx mx_of_mdiag.
Qed.

Lemma diag_rootL_ok : root_ok n A (a_rootL (diag_algs arR orc st d)).
Proof. by move=> Rt k /= [<- <-]; exact: diag_sqrt_gram. Qed.

Lemma diag_rootinvL_ok : rootinv_ok n A (a_rootinvL (diag_algs arR orc st d)).
Proof.
move=> Rt k c /= [<- <- _].
rewrite !mx_of_mdiag tr_diag_mx !mul_diag_diag rv_vsqrt_gen ?length_vmap // -diag_mx_const.
apply: diag_mx_inj_eq => j; rewrite rv_of_vmap // !mxE frecipE -expr2 sqr_sqrtr.
  by rewrite mulfV // gt_eqF //; have := dpos j; rewrite mxE.
by rewrite invr_ge0; have := dge0 j; rewrite mxE.
Qed.

(* root_decomposition(method) of a DiagLinearOperator with positive diagonal — for EVERY method, eigen routes included
   (the pinned tree violates this for method = symeig / diagonalization / svd: known finding C06-diag-eigen-route) *)
Theorem diag_root_valid c meth :
  (forall k, diag_ok n A (base_lz_diag orc n A k)) ->
  (forall k, mx n (ncols (o_pivchol orc A k)) (o_pivchol orc A k) *m
             (mx n (ncols (o_pivchol orc A k)) (o_pivchol orc A k))^T = mx n n A) ->
  root_ok n A (a_root (diag_algs arR orc st d) c meth).
Proof.
move=> Hd Hp; apply: gen_root_ok.
- move=> n1; move: dge0 dpos; case: d n1 => [|a [|b l]] //= _ H _; exists a => //.
  by have := H ord0; rewrite mxE.
- exact/chol_tri_ok_chol_ok/diag_chol_tri_ok.
- exact: diag_symeig_ok.
- by apply: gen_diag_ok; [exact: diag_symeig_ok | move=> k _; exact: Hd].
- exact: diag_svd_ok.
- exact: diag_rootL_ok.
- by move=> k _; exact: Hp.
Qed.

Theorem diag_root_inv_valid c meth :
  0 < (eps_inv st : R) -> (forall j, (eps_inv st : R) <= rv n d 0 j) ->
  (forall k, diag_ok n A (base_lz_diag orc n A k)) ->
  (forall k, diag_full_ok n A (base_lz_diag orc n A k) /\
             (forall w Q kk, fst (base_lz_diag orc n A k) = Model.Ok (w, Q, kk) -> eps_ok st kk w)) ->
  (forall k, mx n (ncols (o_pivchol orc A k)) (o_pivchol orc A k) *m
             (mx n (ncols (o_pivchol orc A k)) (o_pivchol orc A k))^T = mx n n A) ->
  (forall Rt k, fst (a_root (diag_algs arR orc st d) c MNone) = Model.Ok (Rt, k) ->
     k = n /\ mx n n (o_pinv orc Rt) *m mx n n Rt = 1%:M) ->
  rootinv_ok n A (a_rootinv (diag_algs arR orc st d) c meth).
Proof.
move=> e0 deps Hd Hdi Hp Hpi.
have Hse : forall w Q, fst (a_symeig (diag_algs arR orc st d)) = Model.Ok (w, Q) -> eps_ok st n w.
  by move=> w Q /= [<- _].
apply: gen_root_inv_ok => //.
- move=> n1; move: dpos; case: d n1 => [|a [|b l]] //= _ H; exists a => //.
  by have := H ord0; rewrite mxE.
- exact: diag_chol_tri_ok.
- exact: diag_symeig_ok.
- by apply: gen_diag_ok; [exact: diag_symeig_ok | move=> k _; exact: Hd].
- by apply: gen_diag_full; [exact: diag_symeig_ok | move=> k; have [] := Hdi k].
- by apply: gen_diag_eps; [exact: Hse | move=> k; have [_] := Hdi k; exact].
- exact: diag_svd_ok.
- move=> U S V /= [<- <- _]; split; first by rewrite mx_of_meye trmx1 mulmx1.
  move=> j; rewrite rv_of_vmap // mxE fabsE gtr0_norm; first exact: deps.
  exact: dpos.
- exact: diag_rootinvL_ok.
- exact: diag_root_valid.
Qed.

End DiagClass.

(* ================================================================== the contract record of one operator object *)
Section Good.
Variable R : rcfType.
Notation T := (carrier R).
Notation arR := (ArRcf R).
Notation mx := (@mx_of R).
Notation rv := (@rv_of R).
Variables (orc : oracles T) (st : settings T).

(* every factorisation query of the object satisfies its contract w.r.t. the object's own dense matrix *)
Record good (a : algs T) : Prop := MkGood {
  g_chol : chol_tri_ok (a_n a) (a_dense a) (pub_cholesky arR a false);
  g_symeig : symeig_ok (a_n a) (a_dense a) (a_symeig a);
  g_svd : svd_ok (a_n a) (a_dense a) (a_svd a);
  g_diag : forall m, diag_ok (a_n a) (a_dense a) (a_diag a m);
  g_rootL : root_ok (a_n a) (a_dense a) (a_rootL a);
  g_rootinvL : rootinv_ok (a_n a) (a_dense a) (a_rootinvL a);
  g_root : forall c m, root_ok (a_n a) (a_dense a) (a_root a c m);
  g_rootinv : forall c m, rootinv_ok (a_n a) (a_dense a) (a_rootinv a c m)
}.

(* ---- the sequencing combinator *)
Lemma mseq_ok X (l : list (M X)) xs :
  fst (mseq l) = Model.Ok xs -> List.Forall2 (fun m x => fst m = Model.Ok x) l xs.
Proof.
elim: l xs => [|m l IH] xs /=; first by case=> <-; constructor.
move=> H; have [x Hx H2] := bind_ok H; have [ys Hys /= [<-]] := bind_ok H2.
by constructor => //; exact: IH.
Qed.

Lemma mseq_map_ok X Y (f : X -> M Y) (l : list X) ys :
  fst (mseq (List.map f l)) = Model.Ok ys -> List.Forall2 (fun x y => fst (f x) = Model.Ok y) l ys.
Proof.
elim: l ys => [|x l IH] ys /=; first by case=> <-; constructor.
move=> H; have [y Hy H2] := bind_ok H; have [zs Hzs /= [<-]] := bind_ok H2.
by constructor => //; exact: IH.
Qed.

(* ---- n-ary Kronecker products of sized matrices (right fold, as in Model.skron_list) *)
Definition smx_root_of (x r : smx T) : Prop :=
  s_rows r = s_rows x /\ mx (s_rows x) (s_cols r) (s_dat r) *m (mx (s_rows x) (s_cols r) (s_dat r))^T = mx (s_rows x) (s_rows x) (s_dat x).

Lemma mx_skron (x y : smx T) :
  mx (s_rows x * s_rows y) (s_cols x * s_cols y) (s_dat (skron arR x y)) =
  kron (major (s_rows x) (s_rows y)) (major (s_cols x) (s_cols y)) (mx (s_rows x) (s_cols x) (s_dat x)) (mx (s_rows y) (s_cols y) (s_dat y)).
Proof. by rewrite /skron /= mx_of_kron2. Qed.

Lemma smx_root_skron (x y rx ry : smx T) :
  s_cols x = s_rows x -> s_cols y = s_rows y ->
  smx_root_of x rx -> smx_root_of y ry -> smx_root_of (skron arR x y) (skron arR rx ry).
Proof.
case: x => [[m m'] X]; case: y => [[p p'] Y]; case: rx => [[m1 k1] RX]; case: ry => [[p1 k2] RY].
rewrite /smx_root_of /s_rows /s_cols /s_dat /= => Em Ep [E1 H1] [E2 H2]; subst m' p' m1 p1; split=> //.
have := @mx_skron (m, k1, RX) (p, k2, RY); rewrite /s_rows /s_cols /s_dat /= => ->.
have := @mx_skron (m, m, X) (p, p, Y); rewrite /s_rows /s_cols /s_dat /= => ->.
exact: kron_root_valid.
Qed.

Lemma smx_root_unit : smx_root_of (sunit arR) (sunit arR).
Proof.
split=> //; apply/matrixP => i j; rewrite !mxE big_ord1 !mxE !ord1 /= /ent /=.
by rewrite mulr1.
Qed.

Lemma skron_list_square (l : list (smx T)) :
  List.Forall (fun x => s_cols x = s_rows x) l -> s_cols (skron_list arR l) = s_rows (skron_list arR l).
Proof.
elim=> [|[[m m'] X] l' Hx _ IH] //=.
by rewrite /skron /s_cols /s_rows /= in Hx IH *; rewrite Hx IH.
Qed.

Lemma smx_root_list (xs rs : list (smx T)) :
  List.Forall (fun x => s_cols x = s_rows x) xs ->
  List.Forall2 smx_root_of xs rs -> smx_root_of (skron_list arR xs) (skron_list arR rs).
Proof.
move=> Hsq H; elim: H Hsq => [|x r xs' rs' Hxr _ IH] Hsq /=; first exact: smx_root_unit.
have [Hx Hxs] : s_cols x = s_rows x /\ List.Forall (fun x => s_cols x = s_rows x) xs' by inversion Hsq.
apply: smx_root_skron => //; [exact: skron_list_square | exact: IH].
Qed.

(* ---- KroneckerProductLinearOperator.root_decomposition above max_cholesky_size: ANY number of factors *)
Notation algR := (alg arR orc st).

Definition conv3 (x : matrix T * nat * nat) : smx T := (snd (fst x), snd x, fst (fst x)).

Lemma kron_eqs (ops : list (expr T)) :
  let subs := List.map algR ops in
  [/\ a_n (algR (EKron ops)) = s_rows (skron_list arR (List.map (@mx_of_algs T) subs)),
      a_dense (algR (EKron ops)) = s_dat (skron_list arR (List.map (@mx_of_algs T) subs)),
      a_symeig (algR (EKron ops)) = kron_symeig arR subs
    & pub_cholesky arR (algR (EKron ops)) false = bind (kron_chol arR subs false) (fun L => ret L)].
Proof. by []. Qed.

Lemma kron_roots_aux (m : method) (ops : list (expr T)) Rs :
  List.Forall (fun e => root_ok (a_n (algR e)) (a_dense (algR e)) (a_root (algR e) no_cache m)) ops ->
  List.Forall2 (fun f y => fst (bind (a_root f no_cache m) (fun '(Rt, k) => ret (Rt, a_n f, k))) = Model.Ok y)
               (List.map algR ops) Rs ->
  List.Forall2 (@smx_root_of) (List.map (@mx_of_algs T) (List.map algR ops)) (List.map conv3 Rs).
Proof.
elim: ops Rs => [|e ops IH] Rs /= HF H2.
  by inversion H2; constructor.
inversion H2 as [|f y fs ys Hy Hys]; subst; inversion HF as [|e' ops' He Hops]; subst.
constructor; last exact: IH.
have [[Rt k] Hr /= [<-]] := bind_ok Hy.
by split=> //; rewrite /conv3 /mx_of_algs /s_rows /s_cols /s_dat /=; exact: He Hr.
Qed.

Lemma kron_subs_square (ops : list (expr T)) :
  List.Forall (fun x : smx T => s_cols x = s_rows x) (List.map (@mx_of_algs T) (List.map algR ops)).
Proof. by elim: ops => [|e ops IH] /=; constructor. Qed.

Theorem kron_root_valid_model ops c m :
  let a := algR (EKron ops) in
  Z.leb (Z.of_nat (a_n a)) (mcs st) = false ->
  List.Forall (fun e => root_ok (a_n (algR e)) (a_dense (algR e)) (a_root (algR e) no_cache m)) ops ->
  root_ok (a_n a) (a_dense a) (a_root a c m).
Proof.
move=> a Hn HF Rt k; rewrite (ProofsSelect.kron_root_threshold T arR orc st ops c m Hn) => H.
have [Rs HRs H0] := bind_ok H; case: H0 => <- <-.
have H2 := kron_roots_aux HF (mseq_map_ok HRs).
have [_ H3] := smx_root_list (kron_subs_square ops) H2.
by rewrite /a; have [-> -> _ _] := kron_eqs ops; exact: H3.
Qed.

(* ---- ... and root_inv_decomposition above max_cholesky_size *)
Definition smx_rootinv_of (x r : smx T) : Prop :=
  s_rows r = s_rows x /\
  mx (s_rows x) (s_rows x) (s_dat x) *m
    (mx (s_rows x) (s_cols r) (s_dat r) *m (mx (s_rows x) (s_cols r) (s_dat r))^T) = 1%:M.

Lemma smx_rootinv_skron (x y rx ry : smx T) :
  s_cols x = s_rows x -> s_cols y = s_rows y ->
  smx_rootinv_of x rx -> smx_rootinv_of y ry -> smx_rootinv_of (skron arR x y) (skron arR rx ry).
Proof.
case: x => [[m m'] X]; case: y => [[p p'] Y]; case: rx => [[m1 k1] RX]; case: ry => [[p1 k2] RY].
rewrite /smx_rootinv_of /s_rows /s_cols /s_dat /= => Em Ep [E1 H1] [E2 H2]; subst m' p' m1 p1; split=> //.
have := @mx_skron (m, k1, RX) (p, k2, RY); rewrite /s_rows /s_cols /s_dat /= => ->.
have := @mx_skron (m, m, X) (p, p, Y); rewrite /s_rows /s_cols /s_dat /= => ->.
exact: kron_root_inv_valid.
Qed.

Lemma smx_rootinv_unit : smx_rootinv_of (sunit arR) (sunit arR).
Proof.
split=> //; apply/matrixP => i j; rewrite !mxE big_ord1 !mxE big_ord1 !mxE !ord1 /= /ent /=.
by rewrite !mulr1.
Qed.

Lemma smx_rootinv_list (xs rs : list (smx T)) :
  List.Forall (fun x => s_cols x = s_rows x) xs ->
  List.Forall2 smx_rootinv_of xs rs -> smx_rootinv_of (skron_list arR xs) (skron_list arR rs).
Proof.
move=> Hsq H; elim: H Hsq => [|x r xs' rs' Hxr _ IH] Hsq /=; first exact: smx_rootinv_unit.
have [Hx Hxs] : s_cols x = s_rows x /\ List.Forall (fun x => s_cols x = s_rows x) xs' by inversion Hsq.
apply: smx_rootinv_skron => //; [exact: skron_list_square | exact: IH].
Qed.

Lemma kron_rootinvs_aux (ops : list (expr T)) Rs :
  List.Forall (fun e => rootinv_ok (a_n (algR e)) (a_dense (algR e)) (a_rootinv (algR e) no_cache MNone)) ops ->
  List.Forall2 (fun f y => fst (bind (a_rootinv f no_cache MNone) (fun '(Rt, k, _) => ret (Rt, a_n f, k))) = Model.Ok y)
               (List.map algR ops) Rs ->
  List.Forall2 (@smx_rootinv_of) (List.map (@mx_of_algs T) (List.map algR ops)) (List.map conv3 Rs).
Proof.
elim: ops Rs => [|e ops IH] Rs /= HF H2.
  by inversion H2; constructor.
inversion H2 as [|f y fs ys Hy Hys]; subst; inversion HF as [|e' ops' He Hops]; subst.
constructor; last exact: IH.
have [[[Rt k] cc] Hr /= [<-]] := bind_ok Hy.
by split=> //; rewrite /conv3 /mx_of_algs /s_rows /s_cols /s_dat /=; exact: He Hr.
Qed.

Theorem kron_root_inv_valid_model ops c m :
  let a := algR (EKron ops) in
  Z.leb (Z.of_nat (a_n a)) (mcs st) = false ->
  List.Forall (fun e => rootinv_ok (a_n (algR e)) (a_dense (algR e)) (a_rootinv (algR e) no_cache MNone)) ops ->
  rootinv_ok (a_n a) (a_dense a) (a_rootinv a c m).
Proof.
move=> a Hn HF Rt k cc; rewrite (ProofsSelect.kron_root_inv_threshold T arR orc st ops c m Hn) => H.
have [Rs HRs H0] := bind_ok H; case: H0 => <- <- _.
have H2 := kron_rootinvs_aux HF (mseq_map_ok HRs).
have [_ H3] := smx_rootinv_list (kron_subs_square ops) H2.
by rewrite /a; have [-> -> _ _] := kron_eqs ops; exact: H3.
Qed.

(* ---- ... and root_inv_decomposition BELOW max_cholesky_size, in either source variant (arguments dropped / forwarded):
        the base-class algorithm on this object's own sub-queries, valid for the method it is run with *)
Theorem kron_root_inv_small_valid ops c m :
  let a := algR (EKron ops) in
  Z.leb (Z.of_nat (a_n a)) (mcs st) = true ->
  0 < (eps_inv st : R) ->
  (a_n a = 1%N -> exists2 x : T, a_dense a = [:: [:: x]] & 0 < (x : R)) ->
  chol_tri_ok (a_n a) (a_dense a) (pub_cholesky arR a false) ->
  symeig_ok (a_n a) (a_dense a) (a_symeig a) ->
  (forall w Q, fst (a_symeig a) = Model.Ok (w, Q) -> eps_ok st (a_n a) w) ->
  diag_ok (a_n a) (a_dense a) (a_diag a MNone) -> diag_full_ok (a_n a) (a_dense a) (a_diag a MNone) ->
  (forall w Q k, fst (a_diag a MNone) = Model.Ok (w, Q, k) -> eps_ok st k w) ->
  svd_ok (a_n a) (a_dense a) (a_svd a) ->
  (forall U S V, fst (a_svd a) = Model.Ok (U, S, V) ->
     (mx (a_n a) (a_n a) U)^T *m mx (a_n a) (a_n a) U = 1%:M /\ eps_ok st (a_n a) S) ->
  rootinv_ok (a_n a) (a_dense a) (a_rootinvL (algR (EDense (a_n a) (a_dense a)))) ->
  root_ok (a_n a) (a_dense a) (a_root a c MNone) ->
  (forall Rt k, fst (a_root a c MNone) = Model.Ok (Rt, k) ->
     k = a_n a /\ mx (a_n a) (a_n a) (o_pinv orc Rt) *m mx (a_n a) (a_n a) Rt = 1%:M) ->
  rootinv_ok (a_n a) (a_dense a) (a_rootinv a c m).
Proof.
move=> a Hn e0 H1 Hc Hs Hse Hd Hdf Hde Hv Hve Hr Hrd Hp.
rewrite (ProofsSelect.kron_root_inv_small_is_base T arR orc st ops c m Hn).
by apply: gen_root_inv_ok => //; exact Hc.
Qed.

(* ---- KroneckerProductLinearOperator._symeig: ANY number of factors, every size (no threshold) *)
Definition smx_eig_of (x : smx T) (wv : svec T) (q : smx T) : Prop :=
  let n := s_rows x in
  [/\ fst wv = n, s_rows q = n, s_cols q = n & length (snd wv) = n] /\
  [/\ (mx n n (s_dat q))^T *m mx n n (s_dat q) = 1%:M,
      mx n n (s_dat q) *m diag_mx (rv n (snd wv)) *m (mx n n (s_dat q))^T = mx n n (s_dat x)
    & forall j, 0 <= rv n (snd wv) 0 j].

Lemma smx_eig_skron (x y : smx T) (wx wy : svec T) (qx qy : smx T) :
  s_cols x = s_rows x -> s_cols y = s_rows y ->
  smx_eig_of x wx qx -> smx_eig_of y wy qy -> smx_eig_of (skron arR x y) (svkron arR wx wy) (skron arR qx qy).
Proof.
case: x => [[m m'] X]; case: y => [[p p'] Y]; case: qx => [[m1 m2] QX]; case: qy => [[p1 p2] QY].
case: wx => [m3 wx]; case: wy => [p3 wy].
rewrite /smx_eig_of /s_rows /s_cols /s_dat /= => Em Ep [[E1 E2 E3 E4] [O1 D1 N1]] [[F1 F2 F3 F4] [O2 D2 N2]].
subst m' p' m1 m2 m3 p1 p2 p3; split; first by split=> //; rewrite /vkron2 length_vtab.
have := @mx_skron (m, m, QX) (p, p, QY); rewrite /s_rows /s_cols /s_dat /= => ->.
have := @mx_skron (m, m, X) (p, p, Y); rewrite /s_rows /s_cols /s_dat /= => ->.
rewrite rv_of_vkron2.
have [H1 H2] := kron_symeig_valid (major m p) O1 O2 D1 D2.
split=> // j; rewrite mxE; apply: mulr_ge0; [exact: N1 | exact: N2].
Qed.

Lemma smx_eig_unit : smx_eig_of (sunit arR) (1%N, [:: a1 arR]) (sunit arR).
Proof.
split=> //; split.
- by apply/matrixP => i j; rewrite !mxE big_ord1 !mxE !ord1 /= /ent /= mulr1.
- apply/matrixP => i j; rewrite !mxE big_ord1 !mxE big_ord1 !mxE !ord1 /= /ent /vnth /=.
  by rewrite ?eqxx ?mulr1n !mulr1.
- by move=> j; rewrite mxE ord1 /vnth /= ler01.
Qed.

Lemma kron_eig_aux (ops : list (expr T)) wqs :
  List.Forall (fun e => symeig_ok (a_n (algR e)) (a_dense (algR e)) (a_symeig (algR e))) ops ->
  List.Forall2 (fun f y => fst (bind (a_symeig f) (fun wq => ret (wq, a_n f))) = Model.Ok y) (List.map algR ops) wqs ->
  smx_eig_of (skron_list arR (List.map (@mx_of_algs T) (List.map algR ops)))
             (svkron_list arR (List.map (fun x : list T * matrix T * nat => (snd x, fst (fst x))) wqs))
             (skron_list arR (List.map conv3 (List.map (fun x : list T * matrix T * nat => (snd (fst x), snd x, snd x)) wqs))).
Proof.
elim: ops wqs => [|e ops IH] wqs /= HF H2.
  by inversion H2; exact: smx_eig_unit.
inversion H2 as [|f y fs ys Hy Hys]; subst; inversion HF as [|e' ops' He Hops]; subst => /=.
apply: smx_eig_skron => //; [exact/skron_list_square/kron_subs_square | | exact: IH].
have [[w Q] Hwq /= [<-]] := bind_ok Hy.
have [H1 H2' H3 H4] := He _ _ Hwq.
by rewrite /smx_eig_of /conv3 /mx_of_algs /s_rows /s_cols /s_dat /=; split.
Qed.

Theorem kron_symeig_valid_model ops :
  let a := algR (EKron ops) in
  List.Forall (fun e => symeig_ok (a_n (algR e)) (a_dense (algR e)) (a_symeig (algR e))) ops ->
  symeig_ok (a_n a) (a_dense a) (a_symeig a).
Proof.
move=> a HF w Q; rewrite /a; have [-> -> -> _] := kron_eqs ops; rewrite /kron_symeig => H.
have [wqs Hwqs H0] := bind_ok H; case: H0 => <- <-.
have [[_ _ _ Hl] [HO HD Hw]] := kron_eig_aux HF (mseq_map_ok Hwqs).
by split.
Qed.

(* ---- KroneckerProductLinearOperator._cholesky: Kronecker product of the factors' Cholesky factors, ANY number *)
Definition smx_chol_of (x l : smx T) : Prop :=
  let n := s_rows x in
  (s_rows l = n /\ s_cols l = n) /\
  [/\ mx n n (s_dat l) *m (mx n n (s_dat l))^T = mx n n (s_dat x), is_trig_mx (mx n n (s_dat l))
    & forall i : 'I_n, mx n n (s_dat l) i i != 0].

Lemma smx_chol_skron (x y lx ly : smx T) :
  s_cols x = s_rows x -> s_cols y = s_rows y ->
  smx_chol_of x lx -> smx_chol_of y ly -> smx_chol_of (skron arR x y) (skron arR lx ly).
Proof.
case: x => [[m m'] X]; case: y => [[p p'] Y]; case: lx => [[m1 m2] LX]; case: ly => [[p1 p2] LY].
rewrite /smx_chol_of /s_rows /s_cols /s_dat /= => Em Ep [[E1 E2] [G1 T1 D1]] [[F1 F2] [G2 T2 D2]].
subst m' p' m1 m2 p1 p2; split=> //.
have := @mx_skron (m, m, LX) (p, p, LY); rewrite /s_rows /s_cols /s_dat /= => ->.
have := @mx_skron (m, m, X) (p, p, Y); rewrite /s_rows /s_cols /s_dat /= => ->.
split.
- exact: kron_root_valid.
- exact: kron_trig.
- by move=> i; rewrite /kron /flat mxE /=; apply: mulf_neq0; [exact: D1 | exact: D2].
Qed.

Lemma smx_chol_unit : smx_chol_of (sunit arR) (sunit arR).
Proof.
split=> //; split.
- by apply/matrixP => i j; rewrite !mxE big_ord1 !mxE !ord1 /= /ent /= mulr1.
- by apply/is_trig_mxP => i j; rewrite !ord1.
- by move=> i; rewrite mxE ord1 /= /ent /= oner_eq0.
Qed.

Lemma kron_chol_aux (ops : list (expr T)) Ls :
  List.Forall (fun e => chol_tri_ok (a_n (algR e)) (a_dense (algR e)) (pub_cholesky arR (algR e) false)) ops ->
  List.Forall2 (fun f y => fst (bind (pub_cholesky arR f false) (fun L => ret (L, a_n f, a_n f))) = Model.Ok y)
               (List.map algR ops) Ls ->
  smx_chol_of (skron_list arR (List.map (@mx_of_algs T) (List.map algR ops))) (skron_list arR (List.map conv3 Ls)).
Proof.
elim: ops Ls => [|e ops IH] Ls /= HF H2.
  by inversion H2; exact: smx_chol_unit.
inversion H2 as [|f y fs ys Hy Hys]; subst; inversion HF as [|e' ops' He Hops]; subst => /=.
apply: smx_chol_skron => //; [exact/skron_list_square/kron_subs_square | | exact: IH].
have [L HL /= [<-]] := bind_ok Hy.
have [H1 H2' H3] := He _ HL.
by rewrite /smx_chol_of /conv3 /mx_of_algs /s_rows /s_cols /s_dat /=; split.
Qed.

Theorem kron_cholesky_valid_model ops :
  let a := algR (EKron ops) in
  List.Forall (fun e => chol_tri_ok (a_n (algR e)) (a_dense (algR e)) (pub_cholesky arR (algR e) false)) ops ->
  chol_tri_ok (a_n a) (a_dense a) (pub_cholesky arR a false).
Proof.
move=> a HF L; rewrite /a; have [-> -> _ ->] := kron_eqs ops => H.
have [L0 HL0 H0] := bind_ok H; case: H0 => <-.
move: HL0; rewrite /kron_chol => HL0.
have [Ls HLs] := bind_ok HL0.
case: (forallb _ _) => // -[<-].
have [_ [H1 H2 H3]] := kron_chol_aux HF (mseq_map_ok HLs).
by split.
Qed.

(* ---- BlockDiagLinearOperator / BlockInterleavedLinearOperator: k blocks of size m (a batch: uniform sizes) *)
Lemma Forall2_nth X Y (P : X -> Y -> Prop) l1 l2 dx dy i :
  List.Forall2 P l1 l2 -> (i < length l1)%N -> P (List.nth i l1 dx) (List.nth i l2 dy).
Proof.
move=> H; elim: H i => [|x y l1' l2' Hxy _ IH] [|i] //=.
by rewrite ltnS; exact: IH.
Qed.

Lemma Forall2_length' X Y (P : X -> Y -> Prop) l1 l2 : List.Forall2 P l1 l2 -> length l1 = length l2.
Proof. by elim=> [|x y l1' l2' _ _ IH] //=; rewrite IH. Qed.

Section BlockLayout.
(* a block layout and its MathComp reading (instantiated below with blockdiag/major and blockinter/minor) *)
Variable lay : nat -> nat -> nat -> list (matrix T) -> matrix T.
Variable h : forall k m : nat, pairing k m (k * m).
Hypothesis Hlay : forall k m q (bs : list (matrix T)),
  mx (k * m) (k * q) (lay k m q bs) = blockd (h k m) (h k q) (fun i : 'I_k => mx m q (nth_mx bs i)).

(* blocks X_i (m x m) and their factors R_i (m x q), given as lists related pointwise *)
Lemma block_root_list k m q (Xs Rs : list (matrix T)) :
  length Xs = k ->
  List.Forall2 (fun X Rt => mx m q Rt *m (mx m q Rt)^T = mx m m X) Xs Rs ->
  mx (k * m) (k * q) (lay k m q Rs) *m (mx (k * m) (k * q) (lay k m q Rs))^T = mx (k * m) (k * m) (lay k m m Xs).
Proof.
move=> Hk HF; rewrite !Hlay; apply: blockd_root_valid => i.
by apply: (Forall2_nth _ _ HF); rewrite Hk.
Qed.

Lemma block_rootinv_list k m q (Xs Rs : list (matrix T)) :
  length Xs = k ->
  List.Forall2 (fun X Rt => mx m m X *m (mx m q Rt *m (mx m q Rt)^T) = 1%:M) Xs Rs ->
  mx (k * m) (k * m) (lay k m m Xs) *m
    (mx (k * m) (k * q) (lay k m q Rs) *m (mx (k * m) (k * q) (lay k m q Rs))^T) = 1%:M.
Proof.
move=> Hk HF; rewrite !Hlay; apply: blockd_root_inv_valid => i.
by apply: (Forall2_nth _ _ HF); rewrite Hk.
Qed.

End BlockLayout.

Definition hmajor (k m : nat) : pairing k m (k * m) := major k m.
Definition hminor (k m : nat) : pairing k m (k * m) := minor k m.

Lemma lay_blockdiag k m q (bs : list (matrix T)) :
  mx (k * m) (k * q) (blockdiag arR k m q bs) = blockd (hmajor k m) (hmajor k q) (fun i : 'I_k => mx m q (nth_mx bs i)).
Proof. exact: mx_of_blockdiag. Qed.
Lemma lay_blockinter k m q (bs : list (matrix T)) :
  mx (k * m) (k * q) (blockinter arR k m q bs) = blockd (hminor k m) (hminor k q) (fun i : 'I_k => mx m q (nth_mx bs i)).
Proof. exact: mx_of_blockinter. Qed.

(* the blocks of a batch have one size m and their Lanczos-route roots one inner size q *)
Definition blocks_root_ok (m q : nat) (bs : list (expr T)) : Prop :=
  List.Forall (fun e => a_n (algR e) = m /\
                 forall Rt k, fst (a_rootL (algR e)) = Model.Ok (Rt, k) ->
                   k = q /\ mx m q Rt *m (mx m q Rt)^T = mx m m (a_dense (algR e))) bs.

Lemma blocks_root_aux m q (bs : list (expr T)) (Rs : list (matrix T * nat)) :
  blocks_root_ok m q bs ->
  List.Forall2 (fun a y => fst (a_rootL a) = Model.Ok y) (List.map algR bs) Rs ->
  List.Forall (fun r => snd r = q) Rs /\
  List.Forall2 (fun X Rt => mx m q Rt *m (mx m q Rt)^T = mx m m X)
               (List.map (@a_dense T) (List.map algR bs)) (List.map fst Rs).
Proof.
elim: bs Rs => [|e bs IH] Rs /= HF H2.
  by inversion H2; split; constructor.
inversion H2 as [|f [Rt k] fs ys Hy Hys]; subst; inversion HF as [|e' bs' [He1 He2] Hbs]; subst.
have [Hk Hg] := He2 _ _ Hy; have [IH1 IH2] := IH _ Hbs Hys.
by split; constructor.
Qed.

Lemma block_first_n m (bs : list (expr T)) :
  List.Forall (fun e => a_n (algR e) = m) bs -> bs <> [::] ->
  match List.map algR bs with a :: _ => a_n a | [::] => 0%N end = m.
Proof. by case: bs => [|e bs] //= H _; inversion H. Qed.

Definition first_n (subs : list (algs T)) : nat := match subs with a :: _ => a_n a | [::] => 0%N end.
Definition first_k (Rs : list (matrix T * nat)) : nat := match Rs with r :: _ => snd r | [::] => 0%N end.

Lemma blockdiag_eqs (bs : list (expr T)) :
  let subs := List.map algR bs in let k := length subs in let m := first_n subs in
  [/\ a_n (algR (EBlockDiag bs)) = (k * m)%N,
      a_dense (algR (EBlockDiag bs)) = blockdiag arR k m m (List.map (@a_dense T) subs)
    & a_rootL (algR (EBlockDiag bs)) =
      bind (mseq (List.map (@a_rootL T) subs))
           (fun Rs => ret (blockdiag arR k m (first_k Rs) (List.map fst Rs), (k * first_k Rs)%N))].
Proof. by []. Qed.

Lemma blockinter_eqs (bs : list (expr T)) :
  let subs := List.map algR bs in let k := length subs in let m := first_n subs in
  [/\ a_n (algR (EBlockInter bs)) = (k * m)%N,
      a_dense (algR (EBlockInter bs)) = blockinter arR k m m (List.map (@a_dense T) subs)
    & a_rootL (algR (EBlockInter bs)) =
      bind (mseq (List.map (@a_rootL T) subs))
           (fun Rs => ret (blockinter arR k m (first_k Rs) (List.map fst Rs), (k * first_k Rs)%N))].
Proof. by []. Qed.

Lemma blocks_sizes m q (bs : list (expr T)) Rs :
  bs <> [::] -> blocks_root_ok m q bs ->
  List.Forall2 (fun a y => fst (a_rootL a) = Model.Ok y) (List.map algR bs) Rs ->
  first_n (List.map algR bs) = m /\ first_k Rs = q.
Proof.
move=> Hne HF H2; have [Hq _] := blocks_root_aux HF H2.
case: bs Hne HF H2 Hq => [|e bs] // _ HF H2 Hq; split.
  by inversion HF as [|e' bs' [He _] _].
by inversion H2; subst; inversion Hq.
Qed.

Theorem blockdiag_rootL_valid_model m q (bs : list (expr T)) :
  bs <> [::] -> blocks_root_ok m q bs ->
  let a := algR (EBlockDiag bs) in root_ok (a_n a) (a_dense a) (a_rootL a).
Proof.
move=> Hne HF a Rt k; rewrite /a; have [-> -> ->] := blockdiag_eqs bs => H.
have [Rs HRs H2] := bind_ok H; case: H2 => <- <-.
have [Hm Hq] := blocks_sizes Hne HF (mseq_map_ok HRs); rewrite Hm Hq.
have [_ HG] := blocks_root_aux HF (mseq_map_ok HRs).
by apply: (block_root_list lay_blockdiag) => //; rewrite !List.map_length.
Qed.

Theorem blockinter_rootL_valid_model m q (bs : list (expr T)) :
  bs <> [::] -> blocks_root_ok m q bs ->
  let a := algR (EBlockInter bs) in root_ok (a_n a) (a_dense a) (a_rootL a).
Proof.
move=> Hne HF a Rt k; rewrite /a; have [-> -> ->] := blockinter_eqs bs => H.
have [Rs HRs H2] := bind_ok H; case: H2 => <- <-.
have [Hm Hq] := blocks_sizes Hne HF (mseq_map_ok HRs); rewrite Hm Hq.
have [_ HG] := blocks_root_aux HF (mseq_map_ok HRs).
by apply: (block_root_list lay_blockinter) => //; rewrite !List.map_length.
Qed.

(* ---- ConstantMulLinearOperator.root_decomposition: sqrt(c) * (root of the base, same method) for c >= 0 *)
Lemma constmul_eqs (be : expr T) (c : T) ch m :
  let ab := algR be in
  [/\ a_n (algR (EConstMul be c)) = a_n ab,
      a_dense (algR (EConstMul be c)) = mscale arR (a_n ab) (a_n ab) c (a_dense ab)
    & fge0 arR c = true ->
      a_root (algR (EConstMul be c)) ch m =
      bind (a_root ab no_cache m) (fun '(Rt, k) => ret (mscale arR (a_n ab) k (fsqrt arR c) Rt, k))].
Proof. by split=> //= ->. Qed.

Theorem constmul_root_valid_model (be : expr T) (c : T) ch m :
  0 <= (c : R) ->
  root_ok (a_n (algR be)) (a_dense (algR be)) (a_root (algR be) no_cache m) ->
  let a := algR (EConstMul be c) in root_ok (a_n a) (a_dense a) (a_root a ch m).
Proof.
move=> c0 Hb a Rt k; rewrite /a; have [-> -> E] := constmul_eqs be c ch m.
rewrite E ?fge0E // => H.
have [[R0 k0] H0 H2] := bind_ok H; case: H2 => <- <-.
by rewrite !mx_of_mscale; apply: constmul_root_valid => //; exact: Hb H0.
Qed.

(* ---- AddedDiagLinearOperator with a ConstantDiag: _symeig = (evals + c, evecs) of the base *)
Lemma addeddiag_const_eqs (be : expr T) (c : T) (n' : nat) :
  let ab := algR be in
  [/\ a_n (algR (EAddedDiag be (EConstDiag c n'))) = a_n ab,
      a_dense (algR (EAddedDiag be (EConstDiag c n'))) =
        madd arR (a_n ab) (a_n ab) (a_dense ab) (mdiag arR (length (vconst n' c)) (vconst n' c))
    & a_symeig (algR (EAddedDiag be (EConstDiag c n'))) =
      bind (a_symeig ab) (fun '(w, Q) => ret (vadd_const arR w c, Q))].
Proof. by []. Qed.

Theorem addeddiag_const_symeig_valid_model (be : expr T) (c : T) :
  0 <= (c : R) ->
  symeig_ok (a_n (algR be)) (a_dense (algR be)) (a_symeig (algR be)) ->
  let a := algR (EAddedDiag be (EConstDiag c (a_n (algR be)))) in symeig_ok (a_n a) (a_dense a) (a_symeig a).
Proof.
move=> c0 Hb a w Q; rewrite /a; have [-> -> ->] := addeddiag_const_eqs be c (a_n (algR be)) => H.
have [[w0 Q0] H0 H2] := bind_ok H; case: H2 => <- <-.
have [Hl HO HD Hw] := Hb _ _ H0.
set n := a_n (algR be) in Hl HO HD Hw *.
have Ed : mx n n (mdiag arR (length (vconst n c)) (vconst n c)) = (c : R)%:M.
  by rewrite length_vconst mx_of_mdiag rv_of_vconst diag_mx_const.
have Ew : rv n (vadd_const arR w0 c) = \row_j (rv n w0 0 j + (c : R)) by exact: rv_of_vadd_const.
split.
- by rewrite /vadd_const List.map_length.
- exact: HO.
- by rewrite mx_of_madd Ed Ew; exact: symeig_const_shift_valid.
- by move=> j; rewrite Ew mxE; apply: addr_ge0 => //; exact: Hw.
Qed.

(* ---- KroneckerProductAddedDiagLinearOperator, constant diagonal: _root_decomposition / _root_inv_decomposition
        = Q (evals + c)^{+-1/2} with (evals, Q) = the Kronecker part's diagonalization() *)
Lemma kpad_const_eqs (ke : expr T) (c : T) (n' : nat) :
  let ak := algR ke in let n := a_n ak in
  [/\ a_n (algR (EKpad ke (EConstDiag c n'))) = n,
      a_dense (algR (EKpad ke (EConstDiag c n'))) =
        madd arR n n (a_dense ak) (mdiag arR (length (vconst n' c)) (vconst n' c)),
      a_rootL (algR (EKpad ke (EConstDiag c n'))) =
        bind (a_diag ak MNone) (fun '(w, Q, kk) => ret (kpad_root_const arR n w Q c false, n))
    & a_rootinvL (algR (EKpad ke (EConstDiag c n'))) =
        bind (bind (a_diag ak MNone) (fun '(w, Q, kk) => ret (kpad_root_const arR n w Q c true, n)))
             (fun '(Ri, kk) => ret (Ri, kk, None))].
Proof. by []. Qed.

Section KpadConst.
Variables (ke : expr T) (c : T).
Let ak := algR ke.
Let n := a_n ak.
Hypothesis Hd : diag_ok n (a_dense ak) (a_diag ak MNone).
Hypothesis Hf : diag_full_ok n (a_dense ak) (a_diag ak MNone).

Let Ed : mx n n (mdiag arR (length (vconst n c)) (vconst n c)) = (c : R)%:M.
Proof. by rewrite length_vconst mx_of_mdiag rv_of_vconst diag_mx_const. Qed.

Theorem kpad_const_rootL_valid_model :
  0 <= (c : R) ->
  let a := algR (EKpad ke (EConstDiag c n)) in root_ok (a_n a) (a_dense a) (a_rootL a).
Proof.
move=> c0 a Rt k; rewrite /a; have [-> -> -> _] := kpad_const_eqs ke c n => H.
have [[[w Q] kk] H0 H2] := bind_ok H; case: H2 => <- <-.
have [Hl HD Hw] := Hd H0; have [Ek HO] := Hf H0; rewrite Ek in Hl HD Hw.
rewrite -/ak -/n in Hl HD Hw HO *.
rewrite mx_of_madd Ed /kpad_root_const mx_of_scale_cols rv_of_vmap //.
have -> : (\row_j (fsqrt arR (aadd arR (rv n w 0 j) c) : R)) = \row_j Num.sqrt (rv n w 0 j + (c : R)) by [].
apply: (kpad_const_root_valid HO HD) => j.
by apply: addr_ge0 => //; exact: Hw.
Qed.

Theorem kpad_const_rootinvL_valid_model :
  0 < (c : R) ->
  let a := algR (EKpad ke (EConstDiag c n)) in rootinv_ok (a_n a) (a_dense a) (a_rootinvL a).
Proof.
move=> c0 a Rt k cc; rewrite /a; have [-> -> _ ->] := kpad_const_eqs ke c n => H.
have [[Ri k1] H1 H2] := bind_ok H; case: H2 => <- <- _.
have [[[w Q] kk] H0 H3] := bind_ok H1; case: H3 => <- <-.
have [Hl HD Hw] := Hd H0; have [Ek HO] := Hf H0; rewrite Ek in Hl HD Hw.
rewrite -/ak -/n in Hl HD Hw HO *.
rewrite mx_of_madd Ed /kpad_root_const mx_of_scale_cols rv_of_vmap //.
have -> : (\row_j (frecip arR (fsqrt arR (aadd arR (rv n w 0 j) c)) : R)) = \row_j (Num.sqrt (rv n w 0 j + (c : R)))^-1.
  by apply/rowP => j; rewrite !mxE frecipE.
apply: (kpad_const_root_inv_valid HO HD) => j.
by apply: ltr_paddl => //; exact: Hw.
Qed.
End KpadConst.

(* ---- KroneckerProductLinearOperator._svd: ANY number of factors (svd_ok: U diag(S) V^T = A, V^T V = I, S >= 0,
        U diag(S) U^T = A; the orthonormality of U is the subject of C06_svd_U_orthonormal_iff) *)
Definition smx_svd_of (x : smx T) (u : smx T) (sv : svec T) (v : smx T) : Prop :=
  let n := s_rows x in
  [/\ fst sv = n, s_rows u = n /\ s_cols u = n, s_rows v = n /\ s_cols v = n & length (snd sv) = n] /\
  [/\ mx n n (s_dat u) *m diag_mx (rv n (snd sv)) *m (mx n n (s_dat v))^T = mx n n (s_dat x),
      (mx n n (s_dat v))^T *m mx n n (s_dat v) = 1%:M, forall j, 0 <= rv n (snd sv) 0 j
    & mx n n (s_dat u) *m diag_mx (rv n (snd sv)) *m (mx n n (s_dat u))^T = mx n n (s_dat x)].

Lemma smx_svd_skron (x y ux uy : smx T) (sx sy : svec T) (vx vy : smx T) :
  s_cols x = s_rows x -> s_cols y = s_rows y ->
  smx_svd_of x ux sx vx -> smx_svd_of y uy sy vy ->
  smx_svd_of (skron arR x y) (skron arR ux uy) (svkron arR sx sy) (skron arR vx vy).
Proof.
case: x => [[m m'] X]; case: y => [[p p'] Y]; case: ux => [[m1 m2] UX]; case: uy => [[p1 p2] UY].
case: vx => [[m4 m5] VX]; case: vy => [[p4 p5] VY]; case: sx => [m3 sx]; case: sy => [p3 sy].
rewrite /smx_svd_of /s_rows /s_cols /s_dat /= => Em Ep [[E1 [E2 E3] [E4 E5] E6] [A1 B1 C1 D1]] [[F1 [F2 F3] [F4 F5] F6] [A2 B2 C2 D2]].
subst m' p' m1 m2 m3 m4 m5 p1 p2 p3 p4 p5; split; first by split=> //; rewrite /vkron2 length_vtab.
have := @mx_skron (m, m, UX) (p, p, UY); rewrite /s_rows /s_cols /s_dat /= => ->.
have := @mx_skron (m, m, VX) (p, p, VY); rewrite /s_rows /s_cols /s_dat /= => ->.
have := @mx_skron (m, m, X) (p, p, Y); rewrite /s_rows /s_cols /s_dat /= => ->.
rewrite rv_of_vkron2 -kron_diag !kron_tr !kron_mul.
split.
- by rewrite A1 A2.
- by rewrite B1 B2 kron_1.
- by move=> j; rewrite mxE; apply: mulr_ge0; [exact: C1 | exact: C2].
- by rewrite D1 D2.
Qed.

Lemma smx_svd_unit : smx_svd_of (sunit arR) (sunit arR) (1%N, [:: a1 arR]) (sunit arR).
Proof.
have E : @mx 1 1 (s_dat (sunit arR)) *m diag_mx (rv 1 [:: a1 arR]) *m (mx 1 1 (s_dat (sunit arR)))^T = mx 1 1 (s_dat (sunit arR)).
  apply/matrixP => i j; rewrite !mxE big_ord1 !mxE big_ord1 !mxE !ord1 /= /ent /vnth /=.
  by rewrite ?eqxx ?mulr1n !mulr1.
split=> //; split=> //.
- by apply/matrixP => i j; rewrite !mxE big_ord1 !mxE !ord1 /= /ent /= mulr1.
- by move=> j; rewrite mxE ord1 /vnth /= ler01.
Qed.

Lemma kron_svd_aux (ops : list (expr T)) usv :
  List.Forall (fun e => svd_ok (a_n (algR e)) (a_dense (algR e)) (a_svd (algR e))) ops ->
  List.Forall2 (fun f y => fst (bind (a_svd f) (fun x => ret (x, a_n f))) = Model.Ok y) (List.map algR ops) usv ->
  smx_svd_of (skron_list arR (List.map (@mx_of_algs T) (List.map algR ops)))
     (skron_list arR (List.map conv3 (List.map (fun x : matrix T * list T * matrix T * nat => (fst (fst (fst x)), snd x, snd x)) usv)))
     (svkron_list arR (List.map (fun x : matrix T * list T * matrix T * nat => (snd x, snd (fst (fst x)))) usv))
     (skron_list arR (List.map conv3 (List.map (fun x : matrix T * list T * matrix T * nat => (snd (fst x), snd x, snd x)) usv))).
Proof.
elim: ops usv => [|e ops IH] usv /= HF H2.
  by inversion H2; exact: smx_svd_unit.
inversion H2 as [|f y fs ys Hy Hys]; subst; inversion HF as [|e' ops' He Hops]; subst => /=.
apply: smx_svd_skron => //; [exact/skron_list_square/kron_subs_square | | exact: IH].
have [[[U S] V] Husv H0] := bind_ok Hy; case: H0 => <-.
have [H1 H2' H3 H4 H5] := He _ _ _ Husv.
by rewrite /smx_svd_of /conv3 /mx_of_algs /s_rows /s_cols /s_dat /=; split.
Qed.

Lemma kron_svd_eq (ops : list (expr T)) : a_svd (algR (EKron ops)) = kron_svd arR (List.map algR ops).
Proof. by []. Qed.

Theorem kron_svd_valid_model ops :
  let a := algR (EKron ops) in
  List.Forall (fun e => svd_ok (a_n (algR e)) (a_dense (algR e)) (a_svd (algR e))) ops ->
  svd_ok (a_n a) (a_dense a) (a_svd a).
Proof.
move=> a HF U S V; rewrite /a kron_svd_eq; have [-> -> _ _] := kron_eqs ops; rewrite /kron_svd => H.
have [usv Husv H0] := bind_ok H; case: H0 => <- <- <-.
have [[_ _ _ Hl] [H1 H2 H3 H4]] := kron_svd_aux HF (mseq_map_ok Husv).
by split.
Qed.

(* ---- composition: a Kronecker product of ANY number of dense p.d. factors, above max_cholesky_size, any method:
        R R^T = A_1 (x) ... (x) A_k, from the oracle contracts on the factors alone *)
Definition dense_factor_ok (x : nat * matrix T) : Prop :=
  [/\ @pd_dense R x.1 x.2, eigh_contract orc x.1 x.2, lz_diag_contract orc x.1 x.2,
      lz_root_contract orc x.1 x.2 & pivchol_contract orc x.1 x.2].

Theorem kron_of_dense_root_valid (fs : list (nat * matrix T)) c m :
  let a := algR (EKron (List.map (fun x => EDense x.1 x.2) fs)) in
  Z.leb (Z.of_nat (a_n a)) (mcs st) = false ->
  List.Forall dense_factor_ok fs ->
  root_ok (a_n a) (a_dense a) (a_root a c m).
Proof.
move=> a Hn HF; apply: kron_root_valid_model => //.
elim: HF => [|[n A] l [H1 H2 H3 H4 H5] _ IH] /=; constructor => //.
exact: dense_root_valid.
Qed.

End Good.
