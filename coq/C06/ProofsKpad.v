(* C06 — the root identities of KroneckerProductAddedDiagLinearOperator (three branches), SumKronecker,
   ConstantMul, Lanczos-compression, pinverse route; ALL sizes, any real closed field.

   K = Q diag(w) Q^T with Q^T Q = I is the (Kronecker-structured) eigendecomposition the code obtains from
   `diagonalization()` (ProofsKron.kron_symeig_valid shows that the Kronecker product of the factors'
   eigendecompositions is such a decomposition of the Kronecker product). *)
From mathcomp Require Import all_ssreflect all_algebra.
From mathcomp Require Import ring.
Require Import C06.ProofsAlg.
Set Implicit Arguments. Unset Strict Implicit. Unset Printing Implicit Defensive.
Import Order.Theory GRing.Theory Num.Theory.
Local Open Scope ring_scope.

Section Helpers.
Variable F : fieldType.
Lemma trmx_scale m n (x : F) (A : 'M[F]_(m, n)) : (x *: A)^T = x *: A^T.
Proof. by rewrite linearZ. Qed.
Lemma scale_diag_mx n (x : F) (d : 'rV[F]_n) : x *: diag_mx d = diag_mx (x *: d).
Proof. by apply/matrixP => i j; rewrite !mxE mulrnAr. Qed.
End Helpers.

Section Conj.
Variable F : fieldType.
Variable n : nat.
Variable Q : 'M[F]_n.
Hypothesis Qorth : Q^T *m Q = 1%:M.
Implicit Types (u v s : 'rV[F]_n).

Definition cj u : 'M[F]_n := Q *m diag_mx u *m Q^T.

Lemma cj_eq u v : (forall j, u 0 j = v 0 j) -> cj u = cj v.
Proof. by move=> H; rewrite /cj (diag_mx_inj_eq H). Qed.

Lemma cj_mul u v : cj u *m cj v = cj (rmul u v).
Proof. by rewrite /cj orth_conj_mul // mul_diag_diag. Qed.

Lemma cj_one u : (forall j, u 0 j = 1) -> cj u = 1%:M.
Proof.
move=> H; rewrite /cj (_ : diag_mx u = 1%:M) ?orth_conj1 //.
by rewrite -diag_mx_const; apply: diag_mx_inj_eq => j; rewrite H mxE.
Qed.

Lemma cj_scale x u : x *: cj u = cj (x *: u).
Proof. by rewrite /cj -scale_diag_mx -scalemxAr -scalemxAl. Qed.

(* Gram matrix of  (x Q) diag(s) *)
Lemma cj_gram x s : ((x *: Q) *m diag_mx s) *m ((x *: Q) *m diag_mx s)^T = cj ((x * x) *: rmul s s).
Proof.
rewrite -cj_scale /cj -scalemxAl trmx_scale -scalemxAl -scalemxAr scalerA; congr (_ *: _).
by rewrite trmx_mul tr_diag_mx mulmxA -(mulmxA Q (diag_mx s)) mul_diag_diag.
Qed.

Lemma cj_gram1 s : (Q *m diag_mx s) *m (Q *m diag_mx s)^T = cj (rmul s s).
Proof. by rewrite trmx_mul tr_diag_mx mulmxA -(mulmxA Q (diag_mx s)) mul_diag_diag. Qed.

End Conj.

Section Kpad.
Variable F : rcfType.
Variable n : nat.
Variables (K Q : 'M[F]_n) (w : 'rV[F]_n).
Hypothesis Qorth : Q^T *m Q = 1%:M.
Hypothesis Qdiag : Q *m diag_mx w *m Q^T = K.

Lemma cj_shift (c : F) : K + c%:M = cj Q (\row_j (w 0 j + c)).
Proof. by rewrite /cj (symeig_const_shift_valid Qorth Qdiag). Qed.

(* ---- branch 1: constant diagonal c I.   root = Q (Lambda + c)^{1/2},  inverse root = Q (Lambda + c)^{-1/2} *)
Theorem kpad_const_root_valid (c : F) :
  (forall j, 0 <= w 0 j + c) ->
  let R := Q *m diag_mx (\row_j Num.sqrt (w 0 j + c)) in R *m R^T = K + c%:M.
Proof.
move=> pos /=; rewrite cj_gram1 cj_shift; apply: cj_eq => j.
by rewrite !mxE -expr2 sqr_sqrtr.
Qed.

Theorem kpad_const_root_inv_valid (c : F) :
  (forall j, 0 < w 0 j + c) ->
  let R := Q *m diag_mx (\row_j (Num.sqrt (w 0 j + c))^-1) in (K + c%:M) *m (R *m R^T) = 1%:M.
Proof.
move=> pos /=; rewrite cj_gram1 cj_shift cj_mul //; apply: cj_one => // j; rewrite !mxE.
by rewrite -invfM -expr2 sqr_sqrtr ?ltW // mulfV // gt_eqF.
Qed.

(* ---- branch 2: Kronecker-structured diagonal with constant factors, D = (prod a_i) I =: a I.
   _constant_kpadlt_constructor: evals_p_i = Lambda / a + 1, evecs = Q.
   root = (a^{1/2} Q) (Lambda/a + 1)^{1/2}                                             *)
Theorem kpad_kronconst_root_valid (a : F) :
  0 < a -> (forall j, 0 <= w 0 j / a + 1) ->
  let R := (Num.sqrt a *: Q) *m diag_mx (\row_j Num.sqrt (w 0 j / a + 1)) in R *m R^T = K + a%:M.
Proof.
move=> a0 pos /=; rewrite cj_gram cj_shift; apply: cj_eq => j; rewrite !mxE.
rewrite -!expr2 (sqr_sqrtr (ltW a0)) (sqr_sqrtr (pos j)) mulrDr mulr1 mulrCA mulfV ?mulr1 //.
by rewrite gt_eqF.
Qed.

(* the SPECIFIED inverse root scales by a^{-1/2} *)
Theorem kpad_kronconst_root_inv_spec_valid (a : F) :
  0 < a -> (forall j, 0 < w 0 j / a + 1) ->
  let R := ((Num.sqrt a)^-1 *: Q) *m diag_mx (\row_j (Num.sqrt (w 0 j / a + 1))^-1) in
  (K + a%:M) *m (R *m R^T) = 1%:M.
Proof.
move=> a0 pos /=; rewrite cj_gram cj_shift cj_mul //; apply: cj_one => // j; rewrite !mxE.
rewrite -!invfM -!expr2 (sqr_sqrtr (ltW a0)) (sqr_sqrtr (ltW (pos j))).
have an0 : a != 0 by rewrite gt_eqF.
have pn0 : w 0 j / a + 1 != 0 by rewrite gt_eqF.
have -> : w 0 j + a = a * (w 0 j / a + 1) by rewrite mulrDr mulr1 mulrCA mulfV ?mulr1.
by rewrite mulfV // mulf_neq0.
Qed.

(* what the PINNED code computes: it re-uses the a^{+1/2} scaling of the root.  Then (K + aI) R R^T = a^2 I. *)
Theorem kpad_kronconst_root_inv_pinned (a : F) :
  0 < a -> (forall j, 0 < w 0 j / a + 1) ->
  let R := (Num.sqrt a *: Q) *m diag_mx (\row_j (Num.sqrt (w 0 j / a + 1))^-1) in
  (K + a%:M) *m (R *m R^T) = (a ^+ 2)%:M.
Proof.
move=> a0 pos /=; rewrite cj_gram cj_shift cj_mul // -scalemx1 -(cj_one Qorth (u := const_mx 1)); last first.
  by move=> j; rewrite mxE.
rewrite cj_scale; apply: cj_eq => j; rewrite !mxE.
rewrite -!invfM -!expr2 (sqr_sqrtr (ltW a0)) (sqr_sqrtr (ltW (pos j))).
have an0 : a != 0 by rewrite gt_eqF.
have pn0 : w 0 j / a + 1 != 0 by rewrite gt_eqF.
have -> : w 0 j + a = a * (w 0 j / a + 1) by rewrite mulrDr mulr1 mulrCA mulfV ?mulr1.
by rewrite mulr1 expr2 mulrACA divff // mulr1.
Qed.

(* ... so the pinned inverse root is valid iff a = 1 (for n > 0): the known finding *)
Theorem kpad_kronconst_root_inv_pinned_valid_iff (a : F) (i0 : 'I_n) :
  0 < a -> (forall j, 0 < w 0 j / a + 1) ->
  let R := (Num.sqrt a *: Q) *m diag_mx (\row_j (Num.sqrt (w 0 j / a + 1))^-1) in
  ((K + a%:M) *m (R *m R^T) = 1%:M) <-> (a = 1).
Proof.
move=> a0 pos /=; rewrite kpad_kronconst_root_inv_pinned //; split=> [H|->]; last by rewrite expr1n.
have := congr1 (fun X : 'M_n => X i0 i0) H; rewrite !mxE eqxx !mulr1n => /eqP.
by rewrite sqrf_eq1 => /orP[/eqP //|/eqP an]; move: a0; rewrite an ltr0N1.
Qed.

End Kpad.

(* ---- KroneckerProductAddedDiag, branch 3: general Kronecker-structured diagonal D = diag(d), d > 0.
   _symmetrize_kpadlt_constructor: S = D^{-1/2} K D^{-1/2} = Q~ diag(w~) Q~^T ;
   root = D^{1/2} Q~ (Lambda~ + 1)^{1/2}                                                *)

Section KpadSym.
Variable F : rcfType.
Variable n : nat.
Variables (K Q : 'M[F]_n) (w d : 'rV[F]_n).
Hypothesis dpos : forall j, 0 < d 0 j.
Definition dsq : 'rV[F]_n := \row_j Num.sqrt (d 0 j).
Definition dinvsq : 'rV[F]_n := \row_j (Num.sqrt (d 0 j))^-1.
Hypothesis Qorth : Q^T *m Q = 1%:M.
Hypothesis Qdiag : Q *m diag_mx w *m Q^T = diag_mx dinvsq *m K *m diag_mx dinvsq.

Notation Ds := (diag_mx dsq).
Notation Di := (diag_mx dinvsq).

Lemma dsq_dinvsq : Ds *m Di = 1%:M.
Proof.
rewrite mul_diag_diag -diag_mx_const; apply: diag_mx_inj_eq => j; rewrite !mxE.
by rewrite mulfV // gt_eqF // sqrtr_gt0.
Qed.

Lemma dinvsq_dsq : Di *m Ds = 1%:M.
Proof. exact: (mulmx1C dsq_dinvsq). Qed.

Lemma dsq_dsq : Ds *m Ds = diag_mx d.
Proof.
rewrite mul_diag_diag; apply: diag_mx_inj_eq => j; rewrite !mxE.
by rewrite -expr2 sqr_sqrtr // ltW.
Qed.

Lemma left_gram (E : 'M[F]_n) (s : 'rV[F]_n) : E^T = E ->
  (E *m (Q *m diag_mx s)) *m (E *m (Q *m diag_mx s))^T = E *m cj Q (rmul s s) *m E.
Proof.
move=> Et; rewrite trmx_mul Et -cj_gram1.
by rewrite !mulmxA.
Qed.

Lemma KD_of_S : Ds *m cj Q (\row_j (w 0 j + 1)) *m Ds = K + diag_mx d.
Proof.
rewrite /cj (symeig_const_shift_valid Qorth (erefl _)) Qdiag mulmxDr mulmxDl mulmx1 dsq_dsq.
by rewrite !mulmxA dsq_dinvsq mul1mx -mulmxA dinvsq_dsq mulmx1.
Qed.

Theorem kpad_krondiag_root_valid :
  (forall j, 0 <= w 0 j + 1) ->
  let R := Ds *m (Q *m diag_mx (\row_j Num.sqrt (w 0 j + 1))) in R *m R^T = K + diag_mx d.
Proof.
move=> pos /=; rewrite left_gram ?tr_diag_mx // -KD_of_S; congr (_ *m _ *m _); apply: cj_eq => j.
by rewrite !mxE -expr2 sqr_sqrtr.
Qed.

Lemma inv_gram :
  (forall j, 0 < w 0 j + 1) ->
  cj Q (\row_j (w 0 j + 1)) *m cj Q (rmul (\row_j (Num.sqrt (w 0 j + 1))^-1) (\row_j (Num.sqrt (w 0 j + 1))^-1)) = 1%:M.
Proof.
move=> pos; rewrite cj_mul //; apply: cj_one => // j; rewrite !mxE.
by rewrite -invfM -expr2 sqr_sqrtr ?ltW // mulfV // gt_eqF.
Qed.

(* the SPECIFIED inverse root: D^{-1/2} Q~ (Lambda~ + 1)^{-1/2} *)
Theorem kpad_krondiag_root_inv_spec_valid :
  (forall j, 0 < w 0 j + 1) ->
  let R := Di *m (Q *m diag_mx (\row_j (Num.sqrt (w 0 j + 1))^-1)) in
  (K + diag_mx d) *m (R *m R^T) = 1%:M.
Proof.
move=> pos /=; rewrite left_gram ?tr_diag_mx // -KD_of_S.
have := inv_gram pos; set C1 := cj Q _; set C2 := cj Q (rmul _ _) => H.
have -> : Ds *m C1 *m Ds *m (Di *m C2 *m Di) = Ds *m (C1 *m C2) *m Di.
  by rewrite -!mulmxA (mulmxA Ds Di) dsq_dinvsq mul1mx.
by rewrite H mulmx1 dsq_dinvsq.
Qed.

(* what the PINNED code computes (`dlt_sqrt, ... = _symmetrize_kpadlt_constructor(...)` actually receives D^{-1/2} and
   then inverts it): R' = D^{+1/2} Q~ (Lambda~+1)^{-1/2}, for which  D^-1 R' R'^T D^-1  — not R' R'^T — is the inverse,
   i.e. R' R'^T = D (K + D)^-1 D. *)
Theorem kpad_krondiag_root_inv_pinned :
  (forall j, 0 < w 0 j + 1) ->
  let R := Ds *m (Q *m diag_mx (\row_j (Num.sqrt (w 0 j + 1))^-1)) in
  (K + diag_mx d) *m (diag_mx (\row_j (d 0 j)^-1) *m (R *m R^T) *m diag_mx (\row_j (d 0 j)^-1)) = 1%:M.
Proof.
move=> pos /=.
have E : diag_mx (\row_j (d 0 j)^-1) *m Ds = Di.
  rewrite mul_diag_diag; apply: diag_mx_inj_eq => j; rewrite !mxE.
  have sp : Num.sqrt (d 0 j) != 0 by rewrite gt_eqF // sqrtr_gt0.
  by rewrite -{1}(sqr_sqrtr (ltW (dpos j))) expr2 invfM -mulrA mulVf ?mulr1.
have E' : Ds *m diag_mx (\row_j (d 0 j)^-1) = Di.
  by rewrite mul_diag_diag -E mul_diag_diag; apply: diag_mx_inj_eq => j; rewrite !mxE mulrC.
have sandwich (C : 'M[F]_n) :
    diag_mx (\row_j (d 0 j)^-1) *m (Ds *m C *m Ds) *m diag_mx (\row_j (d 0 j)^-1) = Di *m C *m Di.
  by rewrite !mulmxA E -(mulmxA (Di *m C)) E'.
have := kpad_krondiag_root_inv_spec_valid pos => /= <-; congr (_ *m _).
by rewrite !left_gram ?tr_diag_mx // sandwich.
Qed.

End KpadSym.

(* ------------------------------------------------------------------ SumKronecker, ConstantMul, Lanczos, pinverse *)
Section Misc.
Variable F : rcfType.
Variable n : nat.

(* SumKroneckerLinearOperator: A + C with C = Rc Rc^T, inverse root P of C (P P^T C = I) COMPATIBLE with Rc
   (Rc P^T = I; true when both come from the same Cholesky / the same eigendecomposition),
   M = P^T A P + I,  Rm Rm^T = M.   root = Rc Rm ;  inverse root = P Rmi. *)
Variables (A C Rc P M Rm Rmi : 'M[F]_n).
Hypothesis HC : Rc *m Rc^T = C.
Hypothesis Hcompat : Rc *m P^T = 1%:M.
Hypothesis HM : M = P^T *m A *m P + 1%:M.

Theorem sumkron_root_valid : Rm *m Rm^T = M -> (Rc *m Rm) *m (Rc *m Rm)^T = A + C.
Proof.
move=> HR; rewrite trmx_mul mulmxA -(mulmxA Rc) HR HM mulmxDr mulmxDl mulmx1 HC.
have H2 : P *m Rc^T = 1%:M by rewrite -[P]trmxK -trmx_mul Hcompat trmx1.
by rewrite !mulmxA Hcompat mul1mx -mulmxA H2 mulmx1.
Qed.

Theorem sumkron_root_inv_valid : M *m (Rmi *m Rmi^T) = 1%:M -> (A + C) *m ((P *m Rmi) *m (P *m Rmi)^T) = 1%:M.
Proof.
move=> HR.
have H2 : P *m Rc^T = 1%:M by rewrite -[P]trmxK -trmx_mul Hcompat trmx1.
have H3 : P^T *m Rc = 1%:M by exact: (mulmx1C Hcompat).
have H4 : Rc^T *m P = 1%:M by exact: (mulmx1C H2).
have E : A + C = Rc *m M *m Rc^T.
  by rewrite HM mulmxDr mulmxDl mulmx1 HC !mulmxA Hcompat mul1mx -mulmxA H2 mulmx1.
have -> : (P *m Rmi) *m (P *m Rmi)^T = P *m (Rmi *m Rmi^T) *m P^T by rewrite trmx_mul !mulmxA.
move: HR; set G := Rmi *m Rmi^T => HR'.
have -> : (A + C) *m (P *m G *m P^T) = Rc *m (M *m G) *m P^T.
  by rewrite E -!mulmxA (mulmxA Rc^T P) H4 mul1mx.
by rewrite HR' mulmx1.
Qed.

End Misc.

Section Misc2.
Variable F : rcfType.
Variables n k : nat.

(* ConstantMulLinearOperator.root_decomposition (c >= 0): sqrt(c) * base root *)
Theorem constmul_root_valid (A : 'M[F]_n) (R : 'M[F]_(n, k)) (c : F) :
  0 <= c -> R *m R^T = A -> (Num.sqrt c *: R) *m (Num.sqrt c *: R)^T = c *: A.
Proof. by move=> c0 <-; rewrite trmx_scale -scalemxAl -scalemxAr scalerA -expr2 sqr_sqrtr. Qed.

(* RootDecomposition.forward after lanczos_tridiag (contract: Qk has orthonormal columns is NOT needed here):
   T + jitter = V diag(e) V^T, V orthogonal;  root = (Qk V) sqrt(e):   root root^T = Qk (T + jitter) Qk^T.
   This is the orthogonal compression statement: whatever Lanczos returned, the root factorises Qk (T+jitter) Qk^T. *)
Theorem lanczos_root_is_compression (Qk : 'M[F]_(n, k)) (T V : 'M[F]_k) (e : 'rV[F]_k) (jit : F) :
  V^T *m V = 1%:M -> V *m diag_mx e *m V^T = T + jit%:M -> (forall j, 0 <= e 0 j) ->
  let R := (Qk *m V) *m diag_mx (\row_j Num.sqrt (e 0 j)) in
  R *m R^T = Qk *m (T + jit%:M) *m Qk^T.
Proof.
move=> VO VD e0 /=; rewrite -VD.
rewrite trmx_mul tr_diag_mx trmx_mul !mulmxA -(mulmxA (Qk *m V)) mul_diag_diag.
congr (_ *m _ *m _ *m _); apply: diag_mx_inj_eq => j.
by rewrite !mxE -expr2 sqr_sqrtr.
Qed.

End Misc2.

Section Misc3.
Variable F : rcfType.
Variable n : nat.
(* ... which is A + jitter I once the Krylov space is everything: Qn square orthogonal with Qn^T A Qn = T *)
Corollary lanczos_root_full_rank (A Qn T V : 'M[F]_n) (e : 'rV[F]_n) (jit : F) :
  Qn^T *m Qn = 1%:M -> Qn^T *m A *m Qn = T ->
  V^T *m V = 1%:M -> V *m diag_mx e *m V^T = T + jit%:M -> (forall j, 0 <= e 0 j) ->
  let R := (Qn *m V) *m diag_mx (\row_j Num.sqrt (e 0 j)) in
  R *m R^T = A + jit%:M.
Proof.
move=> QO QT VO VD e0 /=; rewrite (lanczos_root_is_compression Qn VO VD e0).
have QQt := orth_QQt QO.
rewrite mulmxDr mulmxDl -QT !mulmxA QQt mul1mx -mulmxA QQt mulmx1; congr (_ + _).
by rewrite mul_mx_scalar -scalemxAl QQt scalemx1.
Qed.

(* root_inv_decomposition(method="pinverse"): root R (square, invertible), Rp = pinverse(R) with Rp R = I
   (Moore-Penrose for full column rank); inverse root = Rp^T *)
Theorem root_inv_pinverse_valid (A R Rp : 'M[F]_n) :
  R *m R^T = A -> Rp *m R = 1%:M -> A *m (Rp^T *m Rp^T^T) = 1%:M.
Proof.
move=> <- H; rewrite trmxK -mulmxA (mulmxA R^T) -trmx_mul H trmx1 mul1mx.
exact: (mulmx1C H).
Qed.

End Misc3.
