(* C06 — PrimFloat (binary64) instance of the model, oracle tables, and the comparators used by the generated
   case shards (gen/cases_*.v): model vs observed behaviour of the implementation, plus the property
   predicates evaluated in Coq on the observed factors. *)
From Coq Require Import List Bool Arith ZArith PrimFloat FloatOps SpecFloat.
Import ListNotations.
Require Import C16.Model C06.Model.

Local Open Scope float_scope.

(* round-to-nearest-even to 24 significant bits (cast to torch.float32 and back); as in C16 *)
Definition round32 (x : float) : float :=
  match Prim2SF x with
  | S754_finite s m e =>
      let zm := Zpos m in
      let sh := (Z.log2 zm + 1 - 24)%Z in
      if (sh <=? 0)%Z then x else
      let q := Z.shiftr zm sh in
      let r := (zm - Z.shiftl q sh)%Z in
      let half := Z.shiftl 1 (sh - 1) in
      let q' := if (half <? r)%Z || ((half =? r)%Z && Z.odd q) then (q + 1)%Z else q in
      match q' with
      | Zpos p => SF2Prim (S754_finite s p (e + sh))
      | _ => x
      end
  | _ => x
  end.

Definition ArFloat : Arith float :=
  {| a0 := 0; a1 := 1; a10 := 10;
     aadd := PrimFloat.add; asub := PrimFloat.sub; amul := PrimFloat.mul; adiv := PrimFloat.div;
     asqrt := PrimFloat.sqrt;
     agtb := fun x y => PrimFloat.ltb y x;
     aisnan := fun x => negb (PrimFloat.eqb x x);
     around32 := round32 |}.

Definition fmat := matrix float.
Definition fvec := list float.

(* ------------------------------------------------------------------ comparison helpers *)
Definition fmaxf (a b : float) : float := if PrimFloat.ltb a b then b else a.
Definition is_finite (x : float) : bool := PrimFloat.ltb (abs x) infinity.
(* |a-b| <= tol * max(s, |a|, |b|) ; two NaNs agree (a Lanczos breakdown yields NaN columns on both sides) *)
Definition is_nan (x : float) : bool := negb (PrimFloat.eqb x x).
Definition close (tol s a b : float) : bool :=
  (is_nan a && is_nan b) ||
  is_finite a && is_finite b && PrimFloat.leb (abs (a - b)) (tol * fmaxf s (fmaxf (abs a) (abs b))).

Fixpoint all2 {X Y} (p : X -> Y -> bool) (a : list X) (b : list Y) : bool :=
  match a, b with
  | [], [] => true
  | x :: a', y :: b' => p x y && all2 p a' b'
  | _, _ => false
  end.
Definition vec_close tol s : fvec -> fvec -> bool := all2 (close tol s).
Definition mat_close tol s : fmat -> fmat -> bool := all2 (vec_close tol s).

(* scale of a tensor for RELATIVE comparisons: its largest modulus (1 for an all-zero tensor) - no floor at 1, so that
   operators of scale 1e-4 are held to the same relative accuracy as operators of scale 1 *)
Definition nz (s : float) : float := if PrimFloat.ltb 0 s then s else 1.

Definition vmaxabs (v : fvec) : float := fold_right (fun x acc => fmaxf (abs x) acc) 0 v.
Definition mmaxabs (X : fmat) : float := fold_right (fun r acc => fmaxf (vmaxabs r) acc) 0 X.

Definition shape_is (m n : nat) (X : fmat) : bool :=
  Nat.eqb (length X) m && forallb (fun r => Nat.eqb (length r) n) X.

(* insertion sort (spectra are compared as multisets) *)
Fixpoint insert (x : float) (l : fvec) : fvec :=
  match l with [] => [x] | y :: r => if PrimFloat.leb x y then x :: l else y :: insert x r end.
Definition fsort (l : fvec) : fvec := fold_right insert [] l.

(* ------------------------------------------------------------------ oracle tables *)
Definition lookup {X} (tol : float) (tbl : list (fmat * X)) (dflt : X) (A : fmat) : X :=
  match find (fun kv => mat_close tol (nz (mmaxabs A)) (fst kv) A) tbl with
  | Some kv => snd kv
  | None => dflt
  end.
(* tables keyed additionally by the iteration budget *)
Definition lookup_k {X} (tol : float) (tbl : list (fmat * nat * X)) (dflt : X) (A : fmat) (k : nat) : X :=
  match find (fun kv => Nat.eqb (snd (fst kv)) k && mat_close tol (nz (mmaxabs A)) (fst (fst kv)) A) tbl with
  | Some kv => snd kv
  | None => dflt
  end.

Record tables := MkTables {
  t_eigh : list (fmat * (fvec * fmat));
  t_lzd : list (fmat * nat * (fvec * fmat));
  t_lzr : list (fmat * nat * (fmat * fmat));
  t_piv : list (fmat * nat * fmat);
  t_pinv : list (fmat * fmat)
}.

Definition key_tol : float := 0x1p-30.     (* ~1e-9: oracle keys are recomputed by the model in a different summation order *)

Definition oracles_of (t : tables) : oracles float :=
  {| o_eigh := lookup key_tol (t_eigh t) ([], []);
     o_lz_diag := lookup_k key_tol (t_lzd t) ([], []);
     o_lz_root := lookup_k key_tol (t_lzr t) ([], []);
     o_pivchol := lookup_k key_tol (t_piv t) [];
     o_pinv := lookup key_tol (t_pinv t) [] |}.

(* ------------------------------------------------------------------ events as sets *)
Definition ev_eqb (a b : event) : bool :=
  match a, b with
  | EvChol n, EvChol m => Nat.eqb n m
  | EvEigh n, EvEigh m => Nat.eqb n m
  | EvLanczos n k, EvLanczos m l => Nat.eqb n m && Nat.eqb k l
  | EvPivChol n, EvPivChol m => Nat.eqb n m
  | EvPinv n, EvPinv m => Nat.eqb n m
  | EvTrsolve n, EvTrsolve m => Nat.eqb n m
  | EvOther c n, EvOther d m => Nat.eqb c d && Nat.eqb n m
  | _, _ => false
  end.
Definition ev_subset (a b : list event) : bool := forallb (fun x => existsb (ev_eqb x) b) a.
Definition ev_same (a b : list event) : bool := ev_subset a b && ev_subset b a.

(* ------------------------------------------------------------------ dense helpers on floats *)
Notation mmulF := (mmul ArFloat).
Notation mtrF := (mtr ArFloat).

Definition gram (n k : nat) (R : fmat) : fmat := mmulF n k n R (mtrF n k R).           (* R R^T, R: n x k *)
Definition gramT (n k : nat) (R : fmat) : fmat := mmulF k n k (mtrF n k R) R.          (* R^T R *)

Definition is_lower (n : nat) (L : fmat) : bool :=
  forallb (fun i => forallb (fun j => if Nat.ltb i j then PrimFloat.eqb (ent ArFloat L i j) 0 else true) (seq 0 n)) (seq 0 n).
Definition is_upper (n : nat) (L : fmat) : bool :=
  forallb (fun i => forallb (fun j => if Nat.ltb j i then PrimFloat.eqb (ent ArFloat L i j) 0 else true) (seq 0 n)) (seq 0 n).

(* ------------------------------------------------------------------ cases *)
Record case := MkCase {
  k_expr : expr float;
  k_query : query;
  k_pre : list query;           (* earlier queries on the same object (fresh cache): their solver events stay observable *)
  k_cache : cache;
  k_st : settings float;
  k_tab : tables;
  k_values : bool;              (* compare the factors entrywise with the model's *)
  k_pred : bool;                (* evaluate the property predicate on the observed factors *)
  k_tol : float;                (* relative tolerance of the entrywise comparison with the model *)
  k_ptol : float;               (* relative tolerance of the property predicate *)
  k_kind : nat;                 (* observed outcome: 0 returned; 1 NotPSDError 2 NanError 3 RuntimeError
                                   4 NotImplementedError 5 AttributeError 6 UnboundLocalError 7 other *)
  k_events : list event;        (* observed solver primitives (as a set) *)
  k_evmode : nat;               (* 0: equal to the model's set; 1: a subset of it (history: results may come from caches);
                                   2: not compared (cat_rows fills the caches itself) *)
  k_mats : list (fmat * nat);   (* observed matrices (with their inner dimension) *)
  k_vecs : list fvec            (* observed vectors *)
}.

Definition kind_code (k : errkind) : nat :=
  match k with ENotPSD => 1 | ENan => 2 | ERuntime => 3 | ENotImpl => 4 | EAttribute => 5 | EUnbound => 6 end%nat.

(* the property predicate on the observed output of query q for the operator with dense matrix A (n x n) *)
Definition predicate (tol : float) (n : nat) (A : fmat) (q : query) (mats : list (fmat * nat)) (vecs : list fvec) : bool :=
  let sA := nz (mmaxabs A) in
  let I := meye ArFloat n in
  match q, mats, vecs with
  | QCholesky upper, [(L, _)], [] =>
      shape_is n n L &&
      (if upper then is_upper n L && mat_close tol sA (gramT n n L) A
       else is_lower n L && mat_close tol sA (gram n n L) A)
  | QRoot _, [(R, k)], [] => shape_is n k R && mat_close tol sA (gram n k R) A
  | QRootInv _, [(R, k)], [] =>
      let G := gram n k R in
      shape_is n k R && mat_close (tol * fmaxf 1 (mmaxabs G * sA)) 1 (mmulF n n n G A) I
  | QEigvalsh, [], [w] => Nat.eqb (length w) n
  | QEigh, [(Q, k)], [w] | QDiag _, [(Q, k)], [w] =>
      shape_is n k Q && Nat.eqb (length w) k &&
      mat_close tol 1 (gramT n k Q) (meye ArFloat k) &&
      (negb (Nat.eqb k n) || mat_close tol sA (mmulF n k n (scale_cols ArFloat n k Q w) (mtrF n k Q)) A)
  | QSvd, [(U, _); (V, _)], [s] =>
      shape_is n n U && shape_is n n V && Nat.eqb (length s) n &&
      forallb (fun x => PrimFloat.leb 0 x) s &&
      mat_close tol 1 (gramT n n U) I && mat_close tol 1 (gramT n n V) I &&
      mat_close tol sA (mmulF n n n (scale_cols ArFloat n n U s) (mtrF n n V)) A
  | _, _, _ => false
  end.

(* 0 = agreement; otherwise the first discrepancy:
   1 outcome kind   2 solver events   3 number/shape of outputs   4 factor values   5 spectrum
   6 property predicate fails on the observed factors *)
Local Open Scope nat_scope.
Definition ev_ok (c : case) (evs : list event) : bool :=
  match k_evmode c with
  | O => ev_same evs (k_events c)
  | S O => ev_subset (k_events c) evs
  | _ => true
  end.

Definition check (c : case) : nat :=
  let orc := oracles_of (k_tab c) in
  let '(r, evs0) := run_query ArFloat orc (k_st c) (k_expr c) (k_cache c) (k_query c) in
  let evs := concat (map (fun q => snd (run_query ArFloat orc (k_st c) (k_expr c) no_cache q)) (k_pre c)) ++ evs0 in
  let a := alg ArFloat orc (k_st c) (k_expr c) in
  match r with
  | Err k => if Nat.eqb (k_kind c) (kind_code k) then (if ev_ok c evs then 0 else 2) else 1
  | Ok out =>
      if negb (Nat.eqb (k_kind c) 0) then 1
      else if negb (ev_ok c evs) then 2
      else if negb (Nat.eqb (length (o_mats out)) (length (k_mats c)) && Nat.eqb (length (o_vecs out)) (length (k_vecs c))) then 3
      else if negb (all2 (fun x y => Nat.eqb (snd x) (snd y) && shape_is (a_n a) (snd y) (fst y)) (o_mats out) (k_mats c)) then 3
      else if k_values c && negb (all2 (fun x y => mat_close (k_tol c) (nz (mmaxabs (fst x))) (fst x) (fst y)) (o_mats out) (k_mats c)) then 4
      else if k_values c && negb (all2 (fun x y => vec_close (k_tol c) (nz (vmaxabs x)) (fsort x) (fsort y)) (o_vecs out) (k_vecs c)) then 5
      else if k_pred c && negb (predicate (k_ptol c) (a_n a) (a_dense a) (k_query c) (k_mats c) (k_vecs c)) then 6
      else 0
  end.

Fixpoint bad_cases (cs : list case) (i : nat) : list nat :=
  match cs with
  | [] => []
  | c :: r => if Nat.eqb (check c) 0 then bad_cases r (S i) else i :: bad_cases r (S i)
  end.

(* diagnostics for triage: (reason, model kind, model events) *)
Definition explain (c : case) : nat * nat * list event :=
  let orc := oracles_of (k_tab c) in
  let '(r, evs) := run_query ArFloat orc (k_st c) (k_expr c) (k_cache c) (k_query c) in
  (check c, match r with Ok _ => 0 | Err k => kind_code k end, evs).
