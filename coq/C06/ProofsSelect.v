(* C06 — method selection as a total function of sizes / settings / cache state (plain Coq, any arithmetic).
   `_choose_root_method`, the default of `diagonalization`, the size thresholds of the KroneckerProduct overrides,
   and which solver primitive a default query on a dense operator runs. *)
From Coq Require Import List Bool Arith ZArith Lia.
Import ListNotations.
Require Import C16.Model C06.Model.

Section Select.
Variable F : Type.
Variable ar : Arith F.
Variable orc : oracles F.
Variable st : settings F.

Notation choose := (choose_root_method st).

Ltac crush c n :=
  unfold choose_root_method;
  destruct (c_symeig c), (c_diagonalization c), (c_lanczos c), (fast_root st);
  destruct (Z.leb_spec (Z.of_nat n) (mcs st)); simpl;
  intuition (try discriminate; try lia; auto).

(* exhaustive: only these four methods are ever chosen *)
Lemma choose_total c n : In (choose c n) [MSymeig; MDiagonalization; MLanczos; MCholesky].
Proof. crush c n. Qed.

(* exact characterisation of each outcome *)
Lemma choose_symeig_iff c n : choose c n = MSymeig <-> c_symeig c = true.
Proof. crush c n. Qed.

Lemma choose_diagonalization_iff c n :
  choose c n = MDiagonalization <-> c_symeig c = false /\ c_diagonalization c = true.
Proof. crush c n. Qed.

Lemma choose_cholesky_iff c n :
  choose c n = MCholesky <->
  c_symeig c = false /\ c_diagonalization c = false /\ c_lanczos c = false /\
  ((Z.of_nat n <= mcs st)%Z \/ fast_root st = false).
Proof. crush c n. Qed.

Lemma choose_lanczos_iff c n :
  choose c n = MLanczos <->
  c_symeig c = false /\ c_diagonalization c = false /\
  (c_lanczos c = true \/ ((mcs st < Z.of_nat n)%Z /\ fast_root st = true)).
Proof. crush c n. Qed.

(* cache entries take priority over every size / setting *)
Lemma choose_cache_priority c n :
  (c_symeig c = true -> choose c n = MSymeig) /\
  (c_symeig c = false -> c_diagonalization c = true -> choose c n = MDiagonalization) /\
  (c_symeig c = false -> c_diagonalization c = false -> c_lanczos c = true -> choose c n = MLanczos).
Proof.
  unfold choose_root_method. repeat split; intros.
  - rewrite H; reflexivity.
  - rewrite H, H0; reflexivity.
  - rewrite H, H0, H1; reflexivity.
Qed.

(* monotone in the size: if a size gets Cholesky, every smaller size does *)
Lemma choose_cholesky_downward c n n' :
  n <= n' -> choose c n' = MCholesky -> choose c n = MCholesky.
Proof.
  intros Hn H. apply choose_cholesky_iff in H. apply choose_cholesky_iff.
  destruct H as [H1 [H2 [H3 H4]]]. repeat split; auto. destruct H4; [left; lia|right; auto].
Qed.

(* ... and if a size gets Lanczos because of its size, every larger size does *)
Lemma choose_lanczos_upward n n' :
  n <= n' -> choose no_cache n = MLanczos -> choose no_cache n' = MLanczos.
Proof.
  intros Hn H. apply choose_lanczos_iff in H. apply choose_lanczos_iff. simpl in *.
  destruct H as [_ [_ [H|[H1 H2]]]]; [discriminate|]. repeat split; auto. right; split; [lia|auto].
Qed.

(* without cache entries the outcome is a threshold function of n *)
Lemma choose_no_cache n :
  choose no_cache n = if (Z.of_nat n <=? mcs st)%Z || negb (fast_root st) then MCholesky else MLanczos.
Proof. reflexivity. Qed.

(* fast_computations.covar_root_decomposition off: Cholesky whatever the size *)
Lemma choose_fast_off n : fast_root st = false -> choose no_cache n = MCholesky.
Proof. intros H. rewrite choose_no_cache, H. rewrite orb_true_r. reflexivity. Qed.

(* diagonalization(method=None) *)
Lemma choose_diag_iff n :
  (choose_diag_method st n = MSymeig <-> (Z.of_nat n <= mcs st)%Z) /\
  (choose_diag_method st n = MLanczos <-> (mcs st < Z.of_nat n)%Z).
Proof.
  unfold choose_diag_method. destruct (Z.leb_spec (Z.of_nat n) (mcs st)); split; split; intros; try discriminate; try lia; auto.
Qed.

(* ---- which primitive a default root_decomposition() runs on an operator with base-class behaviour *)
Lemma dense_root_default_cholesky n A :
  Nat.eqb (n * n) 1 = false ->
  ((Z.of_nat n <= mcs st)%Z \/ fast_root st = false) ->
  forall L, fst (base_chol ar st n A false) = Ok L ->
  a_root (alg ar orc st (EDense n A)) no_cache MNone = (Ok (L, n), snd (base_chol ar st n A false)).
Proof.
  intros Hn Hc L HL. simpl. unfold gen_root. rewrite Hn.
  assert (E : choose no_cache n = MCholesky).
  { apply choose_cholesky_iff. simpl. repeat split; auto. }
  rewrite E. unfold bind at 1. simpl.
  destruct (base_chol ar st n A false) as [r evs] eqn:Eb. simpl in *. subst r. simpl.
  rewrite app_nil_r. reflexivity.
Qed.

Lemma dense_root_default_lanczos n A :
  Nat.eqb (n * n) 1 = false ->
  (mcs st < Z.of_nat n)%Z -> fast_root st = true ->
  a_root (alg ar orc st (EDense n A)) no_cache MNone =
  (Ok (fst (o_lz_root orc A (z2n (mrs st))), ncols (fst (o_lz_root orc A (z2n (mrs st))))),
   [EvLanczos n (ncols (fst (o_lz_root orc A (z2n (mrs st))))); EvEigh (ncols (fst (o_lz_root orc A (z2n (mrs st)))))]).
Proof.
  intros Hn Hc Hf. simpl. unfold gen_root. rewrite Hn.
  assert (E : choose no_cache n = MLanczos).
  { apply choose_lanczos_iff. simpl. repeat split; auto. }
  rewrite E. unfold bind, ret, base_lz_root. simpl.
  destruct (o_lz_root orc A (z2n (mrs st))) as [R0 Ri]. reflexivity.
Qed.

(* ---- the KroneckerProduct overrides: dense route up to max_cholesky_size, per-factor delegation above *)
Lemma kron_root_threshold ops c m :
  let a := alg ar orc st (EKron ops) in
  (Z.of_nat (a_n a) <=? mcs st)%Z = false ->
  a_root a c m =
  bind (mseq (map (fun f => bind (a_root f no_cache m) (fun '(R, k) => ret (R, a_n f, k))) (map (alg ar orc st) ops)))
       (fun Rs => ret (s_dat (kron_of ar Rs), s_cols (kron_of ar Rs))).
Proof. intros a H. subst a. simpl in *. rewrite H. reflexivity. Qed.

Lemma kron_root_inv_threshold ops c m :
  let a := alg ar orc st (EKron ops) in
  (Z.of_nat (a_n a) <=? mcs st)%Z = false ->
  a_rootinv a c m =
  bind (mseq (map (fun f => bind (a_rootinv f no_cache MNone) (fun '(R, k, _) => ret (R, a_n f, k))) (map (alg ar orc st) ops)))
       (fun Rs => ret (s_dat (kron_of ar Rs), s_cols (kron_of ar Rs), None)).
Proof. intros a H. subst a. simpl in *. rewrite H. reflexivity. Qed.

(* below the threshold, source variant "no arguments" (pinned tree): the method argument of root_inv_decomposition is
   dropped (super().root_inv_decomposition()) *)
Lemma kron_root_inv_small_ignores_method ops c m m' :
  kron_noargs st = true ->
  let a := alg ar orc st (EKron ops) in
  (Z.of_nat (a_n a) <=? mcs st)%Z = true -> a_rootinv a c m = a_rootinv a c m'.
Proof. intros Hf a H. subst a. simpl in *. rewrite H, Hf. reflexivity. Qed.

(* ... and in either source variant the small branch IS the base-class root_inv_decomposition of this object (its
   _cholesky / _symeig / diagonalization / _svd / _root_inv_decomposition), run with method None resp. the given method *)
Lemma kron_root_inv_small_is_base ops c m :
  let a := alg ar orc st (EKron ops) in
  (Z.of_nat (a_n a) <=? mcs st)%Z = true ->
  a_rootinv a c m =
  gen_root_inv ar orc st (a_n a) (a_dense a) c (bind (a_chol a false) (fun L => ret L)) (a_symeig a) (a_diag a MNone) (a_svd a)
               (a_rootinvL (alg ar orc st (EDense (a_n a) (a_dense a)))) (a_root a c MNone)
               (if kron_noargs st then MNone else m).
Proof. intros a H. subst a. simpl in *. rewrite H. reflexivity. Qed.

(* whichever variant the source has (b): the small branch runs the base algorithm with method None resp. the given one *)
Lemma kron_root_inv_small_flag (b : bool) ops c m :
  kron_noargs st = b ->
  let a := alg ar orc st (EKron ops) in
  (Z.of_nat (a_n a) <=? mcs st)%Z = true ->
  a_rootinv a c m = a_rootinv a c (if b then MNone else m).
Proof.
  intros Hf a H. destruct b.
  - apply (kron_root_inv_small_ignores_method ops c m MNone Hf H).
  - reflexivity.
Qed.

(* triangular operators refuse the Cholesky and Lanczos-root routes *)
Lemma tri_raises n upper Tm :
  let a := alg ar orc st (ETri n upper Tm) in
  fst (pub_cholesky ar a false) = Err ENotPSD /\ fst (pub_cholesky ar a true) = Err ENotPSD /\
  fst (a_rootL a) = Err ENotPSD /\ fst (a_rootinvL a) = Err ENotPSD.
Proof. simpl. repeat split; reflexivity. Qed.

End Select.
