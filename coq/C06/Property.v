(* C06 — every factorisation returned really factorises the operator.
   ONLY theorem statements; each is closed by `exact <lemma>` from Proofs*.v.  F ranges over all real closed fields,
   every size is a universally quantified natural number. LAPACK eigh / solve_triangular / pinverse / Lanczos enter
   through their contracts (hypotheses). *)
From Coq Require Import ZArith.
From mathcomp Require Import all_ssreflect all_algebra.
Require Import C16.Model C16.ProofsClosed.
Require Import C06.gen.SrcFlags.
Require Import C06.Model C06.ProofsAlg C06.ProofsKron C06.ProofsKpad C06.Bridge C06.ProofsTri C06.ProofsGen C06.ProofsSelect C06.ProofsClass C06.ProofsTree.
Set Implicit Arguments. Unset Strict Implicit. Unset Printing Implicit Defensive.
Import Order.Theory GRing.Theory Num.Theory.
Local Open Scope ring_scope.

Section Cholesky.
Variables (F : fieldType) (n : nat) (A L : 'M[F]_n).
Hypothesis Ltri : is_trig_mx L.
Hypothesis LLt : L *m L^T = A.

(* cholesky(upper=True) is the transpose of the lower factor: R^T R = A and R is upper triangular *)
Theorem C06_cholesky_upper_is_transpose : (L^T)^T *m L^T = A /\ is_trig_mx (L^T)^T.
Proof. by apply: cholesky_upper_is_transpose. Qed.

(* root_inv_decomposition(method="cholesky"): (L^-T)(L^-T)^T is a two-sided inverse of A *)
Theorem C06_root_inv_cholesky_valid (Linv : 'M[F]_n) :
  L *m Linv = 1%:M -> A *m (Linv^T *m Linv^T^T) = 1%:M /\ (Linv^T *m Linv^T^T) *m A = 1%:M.
Proof. by move=> H; apply: root_inv_cholesky_valid H. Qed.
End Cholesky.

Section Spectral.
Variables (F : rcfType) (n : nat) (A Q : 'M[F]_n) (w : 'rV[F]_n).
Hypothesis Qorth : Q^T *m Q = 1%:M.
Hypothesis Qdiag : Q *m diag_mx w *m Q^T = A.

(* root_decomposition(method="symeig" / "diagonalization"): PSD => (V sqrt(Lambda+)) (V sqrt(Lambda+))^T = A *)
Theorem C06_root_symeig_valid :
  (forall j, 0 <= w 0 j) -> (Q *m diag_mx (rsqrt_clamp0 w)) *m (Q *m diag_mx (rsqrt_clamp0 w))^T = A.
Proof. by apply: root_symeig_valid. Qed.

(* ... and only then *)
Theorem C06_root_symeig_valid_iff :
  ((Q *m diag_mx (rsqrt_clamp0 w)) *m (Q *m diag_mx (rsqrt_clamp0 w))^T = A) <-> (forall j, 0 <= w 0 j).
Proof. by apply: root_symeig_valid_iff. Qed.

Theorem C06_root_inv_symeig_valid (eps : F) :
  0 < eps -> (forall j, eps <= w 0 j) ->
  let R := Q *m diag_mx (rinvsqrt_clamp w eps) in A *m (R *m R^T) = 1%:M /\ (R *m R^T) *m A = 1%:M.
Proof. by apply: root_inv_symeig_valid. Qed.

(* _svd of the base class: U = V sign, S = |lambda| >= 0, U diag(S) V^T = A, V^T V = I, and U^T U = I when no eigenvalue is 0 *)
Theorem C06_svd_from_symeig_valid :
  let U := Q *m diag_mx (rsign w) in
  [/\ U *m diag_mx (rabs w) *m Q^T = A, Q^T *m Q = 1%:M, forall j, 0 <= rabs w 0 j
    & (forall j, w 0 j != 0) -> U^T *m U = 1%:M].
Proof. by apply: svd_from_symeig_valid. Qed.

(* the left singular vectors are orthonormal EXACTLY when no eigenvalue vanishes (singular PSD operators lose it) *)
Theorem C06_svd_U_orthonormal_iff :
  ((Q *m diag_mx (rsign w))^T *m (Q *m diag_mx (rsign w)) = 1%:M) <-> (forall j, w 0 j != 0).
Proof. by apply: svd_from_symeig_U_orth_iff. Qed.

(* AddedDiag / KroneckerProductAddedDiag with constant diagonal: shifted eigenvalues, same eigenvectors *)
Theorem C06_symeig_const_shift_valid (c : F) :
  Q *m diag_mx (\row_j (w 0 j + c)) *m Q^T = A + c%:M.
Proof. by apply: symeig_const_shift_valid. Qed.

Theorem C06_svd_const_shift_valid (c : F) :
  (forall j, 0 < w 0 j) ->
  (Q *m diag_mx (rsign w)) *m diag_mx (\row_j (rabs w 0 j + c)) *m Q^T = A + c%:M.
Proof. by apply: svd_const_shift_valid. Qed.
End Spectral.

Section Kronecker.
Variable R : comRingType.

(* the mixed-product law, any pairings of the index sets *)
Theorem C06_kron_mixed_product m p n q k l M N K (hr : pairing m p M) (hc : pairing n q N) (hk : pairing k l K)
      (A : 'M[R]_(m, n)) (B : 'M[R]_(p, q)) (C : 'M[R]_(n, k)) (D : 'M[R]_(q, l)) :
  kron hr hc A B *m kron hc hk C D = kron hr hk (A *m C) (B *m D).
Proof. by apply: kron_mul. Qed.

(* the block-major pairing is the layout of the library: (A (x) B)[i p + a, j q + b] = A[i,j] B[a,b] *)
Theorem C06_kron_major_entries m p n q (A : 'M[R]_(m, n)) (B : 'M[R]_(p, q)) (i : 'I_m) (a : 'I_p) (j : 'I_n) (b : 'I_q) :
  kron (major m p) (major n q) A B (major_to (i, a)) (major_to (j, b)) = A i j * B a b
  /\ (major_to (i, a) : nat) = (i * p + a)%N.
Proof. by split; [apply: kronE | ]. Qed.

Theorem C06_kron_root_valid m p M (h : pairing m p M) (A1 : 'M[R]_m) (A2 : 'M[R]_p) k1 k2 K (hk : pairing k1 k2 K)
      (R1 : 'M[R]_(m, k1)) (R2 : 'M[R]_(p, k2)) :
  R1 *m R1^T = A1 -> R2 *m R2^T = A2 -> kron h hk R1 R2 *m (kron h hk R1 R2)^T = kron h h A1 A2.
Proof. by apply: kron_root_valid. Qed.

Theorem C06_kron_root_inv_valid m p M (h : pairing m p M) (A1 : 'M[R]_m) (A2 : 'M[R]_p) k1 k2 K (hk : pairing k1 k2 K)
      (R1 : 'M[R]_(m, k1)) (R2 : 'M[R]_(p, k2)) :
  A1 *m (R1 *m R1^T) = 1%:M -> A2 *m (R2 *m R2^T) = 1%:M ->
  kron h h A1 A2 *m (kron h hk R1 R2 *m (kron h hk R1 R2)^T) = 1%:M.
Proof. by apply: kron_root_inv_valid. Qed.

Theorem C06_kron_symeig_valid m p M (h : pairing m p M) (A1 : 'M[R]_m) (A2 : 'M[R]_p)
      (Q1 : 'M[R]_m) (Q2 : 'M[R]_p) (w1 : 'rV[R]_m) (w2 : 'rV[R]_p) :
  Q1^T *m Q1 = 1%:M -> Q2^T *m Q2 = 1%:M ->
  Q1 *m diag_mx w1 *m Q1^T = A1 -> Q2 *m diag_mx w2 *m Q2^T = A2 ->
  (kron h h Q1 Q2)^T *m kron h h Q1 Q2 = 1%:M /\
  kron h h Q1 Q2 *m diag_mx (rkron h w1 w2) *m (kron h h Q1 Q2)^T = kron h h A1 A2.
Proof. by apply: kron_symeig_valid. Qed.

Theorem C06_kron_svd_valid m p M (h : pairing m p M) (A1 : 'M[R]_m) (A2 : 'M[R]_p)
      (U1 V1 : 'M[R]_m) (U2 V2 : 'M[R]_p) (s1 : 'rV[R]_m) (s2 : 'rV[R]_p) :
  U1^T *m U1 = 1%:M -> U2^T *m U2 = 1%:M -> V1^T *m V1 = 1%:M -> V2^T *m V2 = 1%:M ->
  U1 *m diag_mx s1 *m V1^T = A1 -> U2 *m diag_mx s2 *m V2^T = A2 ->
  [/\ (kron h h U1 U2)^T *m kron h h U1 U2 = 1%:M, (kron h h V1 V2)^T *m kron h h V1 V2 = 1%:M
    & kron h h U1 U2 *m diag_mx (rkron h s1 s2) *m (kron h h V1 V2)^T = kron h h A1 A2].
Proof. by apply: kron_svd_valid. Qed.

(* Kronecker product of lower-triangular Cholesky factors is lower triangular (library layout) *)
Theorem C06_kron_cholesky_triangular m p (L1 : 'M[R]_m) (L2 : 'M[R]_p) :
  is_trig_mx L1 -> is_trig_mx L2 -> is_trig_mx (kron (major m p) (major m p) L1 L2).
Proof. by apply: kron_trig. Qed.

(* block lifts: the same statement covers BlockDiag (block-major pairing) and BlockInterleaved (block-minor pairing) *)
Theorem C06_block_root_valid k m M (h : pairing k m M) (A : 'I_k -> 'M[R]_m) q K (hk : pairing k q K) (Rt : 'I_k -> 'M[R]_(m, q)) :
  (forall i, Rt i *m (Rt i)^T = A i) -> blockd h hk Rt *m (blockd h hk Rt)^T = blockd h h A.
Proof. by apply: blockd_root_valid. Qed.

Theorem C06_block_root_inv_valid k m M (h : pairing k m M) (A : 'I_k -> 'M[R]_m) q K (hk : pairing k q K) (Rt : 'I_k -> 'M[R]_(m, q)) :
  (forall i, A i *m (Rt i *m (Rt i)^T) = 1%:M) -> blockd h h A *m (blockd h hk Rt *m (blockd h hk Rt)^T) = 1%:M.
Proof. by apply: blockd_root_inv_valid. Qed.

Theorem C06_block_symeig_valid k m M (h : pairing k m M) (A : 'I_k -> 'M[R]_m) (Q : 'I_k -> 'M[R]_m) (w : 'I_k -> 'rV[R]_m) :
  (forall i, (Q i)^T *m Q i = 1%:M) -> (forall i, Q i *m diag_mx (w i) *m (Q i)^T = A i) ->
  (blockd h h Q)^T *m blockd h h Q = 1%:M /\ blockd h h Q *m diag_mx (rblock h w) *m (blockd h h Q)^T = blockd h h A.
Proof. by apply: blockd_symeig_valid. Qed.

Theorem C06_block_svd_valid k m M (h : pairing k m M) (A : 'I_k -> 'M[R]_m) (U V : 'I_k -> 'M[R]_m) (s : 'I_k -> 'rV[R]_m) :
  (forall i, (U i)^T *m U i = 1%:M) -> (forall i, (V i)^T *m V i = 1%:M) ->
  (forall i, U i *m diag_mx (s i) *m (V i)^T = A i) ->
  [/\ (blockd h h U)^T *m blockd h h U = 1%:M, (blockd h h V)^T *m blockd h h V = 1%:M
    & blockd h h U *m diag_mx (rblock h s) *m (blockd h h V)^T = blockd h h A].
Proof. by apply: blockd_svd_valid. Qed.

Theorem C06_block_cholesky_triangular k m (L : 'I_k -> 'M[R]_m) :
  (forall i, is_trig_mx (L i)) ->
  is_trig_mx (blockd (major k m) (major k m) L) /\ is_trig_mx (blockd (minor k m) (minor k m) L).
Proof. by move=> H; split; [apply: blockd_major_trig | apply: blockd_minor_trig]. Qed.
End Kronecker.

Section KroneckerAddedDiag.
Variables (F : rcfType) (n : nat) (K Q : 'M[F]_n) (w : 'rV[F]_n).
Hypothesis Qorth : Q^T *m Q = 1%:M.
Hypothesis Qdiag : Q *m diag_mx w *m Q^T = K.

(* branch 1: constant diagonal *)
Theorem C06_kpad_const_root_valid (c : F) :
  (forall j, 0 <= w 0 j + c) ->
  let R := Q *m diag_mx (\row_j Num.sqrt (w 0 j + c)) in R *m R^T = K + c%:M.
Proof. by apply: kpad_const_root_valid. Qed.

Theorem C06_kpad_const_root_inv_valid (c : F) :
  (forall j, 0 < w 0 j + c) ->
  let R := Q *m diag_mx (\row_j (Num.sqrt (w 0 j + c))^-1) in (K + c%:M) *m (R *m R^T) = 1%:M.
Proof. by apply: kpad_const_root_inv_valid. Qed.

(* branch 2: Kronecker-structured constant diagonal a I (a = product of the factor constants) *)
Theorem C06_kpad_kronconst_root_valid (a : F) :
  0 < a -> (forall j, 0 <= w 0 j / a + 1) ->
  let R := (Num.sqrt a *: Q) *m diag_mx (\row_j Num.sqrt (w 0 j / a + 1)) in R *m R^T = K + a%:M.
Proof. by apply: kpad_kronconst_root_valid. Qed.

Theorem C06_kpad_kronconst_root_inv_spec_valid (a : F) :
  0 < a -> (forall j, 0 < w 0 j / a + 1) ->
  let R := ((Num.sqrt a)^-1 *: Q) *m diag_mx (\row_j (Num.sqrt (w 0 j / a + 1))^-1) in (K + a%:M) *m (R *m R^T) = 1%:M.
Proof. by apply: kpad_kronconst_root_inv_spec_valid. Qed.

(* the pinned code scales the inverse root by a^{+1/2}: (K + aI) R R^T = a^2 I, valid iff a = 1  — known finding *)
Theorem C06_kpad_root_inv_nonunit_refuted (a : F) (i0 : 'I_n) :
  0 < a -> (forall j, 0 < w 0 j / a + 1) ->
  let R := (Num.sqrt a *: Q) *m diag_mx (\row_j (Num.sqrt (w 0 j / a + 1))^-1) in
  (K + a%:M) *m (R *m R^T) = (a ^+ 2)%:M /\ (((K + a%:M) *m (R *m R^T) = 1%:M) <-> a = 1).
Proof.
move=> a0 pos; split; [by apply: kpad_kronconst_root_inv_pinned
                       | by apply: kpad_kronconst_root_inv_pinned_valid_iff].
Qed.
End KroneckerAddedDiag.

Section KroneckerAddedDiagSym.
Variables (F : rcfType) (n : nat) (K Q : 'M[F]_n) (w d : 'rV[F]_n).
Hypothesis dpos : forall j, 0 < d 0 j.
Hypothesis Qorth : Q^T *m Q = 1%:M.
Hypothesis Qdiag : Q *m diag_mx w *m Q^T = diag_mx (dinvsq d) *m K *m diag_mx (dinvsq d).

(* branch 3: general Kronecker-structured diagonal D: symmetrised eigendecomposition *)
Theorem C06_kpad_krondiag_root_valid :
  (forall j, 0 <= w 0 j + 1) ->
  let R := diag_mx (dsq d) *m (Q *m diag_mx (\row_j Num.sqrt (w 0 j + 1))) in R *m R^T = K + diag_mx d.
Proof. by apply: kpad_krondiag_root_valid. Qed.

Theorem C06_kpad_krondiag_root_inv_spec_valid :
  (forall j, 0 < w 0 j + 1) ->
  let R := diag_mx (dinvsq d) *m (Q *m diag_mx (\row_j (Num.sqrt (w 0 j + 1))^-1)) in (K + diag_mx d) *m (R *m R^T) = 1%:M.
Proof. by apply: kpad_krondiag_root_inv_spec_valid. Qed.

(* the pinned code multiplies by D^{+1/2}: D^-1 (R R^T) D^-1, not R R^T, is the inverse — known finding *)
Theorem C06_kpad_krondiag_root_inv_pinned :
  (forall j, 0 < w 0 j + 1) ->
  let R := diag_mx (dsq d) *m (Q *m diag_mx (\row_j (Num.sqrt (w 0 j + 1))^-1)) in
  (K + diag_mx d) *m (diag_mx (\row_j (d 0 j)^-1) *m (R *m R^T) *m diag_mx (\row_j (d 0 j)^-1)) = 1%:M.
Proof. by apply: kpad_krondiag_root_inv_pinned. Qed.
End KroneckerAddedDiagSym.

Section Others.
Variables (F : rcfType) (n : nat).

Theorem C06_sumkron_root_valid (A C Rc P M Rm : 'M[F]_n) :
  Rc *m Rc^T = C -> Rc *m P^T = 1%:M -> M = P^T *m A *m P + 1%:M -> Rm *m Rm^T = M ->
  (Rc *m Rm) *m (Rc *m Rm)^T = A + C.
Proof. by move=> h1 h2 h3 h4; apply: (sumkron_root_valid h1 h2 h3 h4). Qed.

Theorem C06_sumkron_root_inv_valid (A C Rc P M Rmi : 'M[F]_n) :
  Rc *m Rc^T = C -> Rc *m P^T = 1%:M -> M = P^T *m A *m P + 1%:M -> M *m (Rmi *m Rmi^T) = 1%:M ->
  (A + C) *m ((P *m Rmi) *m (P *m Rmi)^T) = 1%:M.
Proof. by move=> h1 h2 h3 h4; apply: (sumkron_root_inv_valid h1 h2 h3 h4). Qed.

Theorem C06_constmul_root_valid k (A : 'M[F]_n) (R : 'M[F]_(n, k)) (c : F) :
  0 <= c -> R *m R^T = A -> (Num.sqrt c *: R) *m (Num.sqrt c *: R)^T = c *: A.
Proof. by apply: constmul_root_valid. Qed.

(* Lanczos-based root = orthogonal compression of the tridiagonal matrix (+ jitter) it diagonalises *)
Theorem C06_lanczos_root_is_compression k (Qk : 'M[F]_(n, k)) (T V : 'M[F]_k) (e : 'rV[F]_k) (jit : F) :
  V^T *m V = 1%:M -> V *m diag_mx e *m V^T = T + jit%:M -> (forall j, 0 <= e 0 j) ->
  let R := (Qk *m V) *m diag_mx (\row_j Num.sqrt (e 0 j)) in R *m R^T = Qk *m (T + jit%:M) *m Qk^T.
Proof. by apply: lanczos_root_is_compression. Qed.

(* ... which is A + jitter I once the Krylov space is the whole space *)
Theorem C06_lanczos_root_full_rank (A Qn T V : 'M[F]_n) (e : 'rV[F]_n) (jit : F) :
  Qn^T *m Qn = 1%:M -> Qn^T *m A *m Qn = T ->
  V^T *m V = 1%:M -> V *m diag_mx e *m V^T = T + jit%:M -> (forall j, 0 <= e 0 j) ->
  let R := (Qn *m V) *m diag_mx (\row_j Num.sqrt (e 0 j)) in R *m R^T = A + jit%:M.
Proof. by apply: lanczos_root_full_rank. Qed.

(* the DOCUMENTED jitter: settings.tridiagonal_jitter times the smallest diagonal entry m of T (relative, per batch member).
   harness/c06_tr.py checks on every run that RootDecomposition.forward / Diagonalization.forward build their jitter in this
   form (gen/SrcFlags.v: src_lanczos_jitter_relative) - the functions themselves are oracles of the model *)
Theorem C06_lanczos_root_relative_jitter k (Qk : 'M[F]_(n, k)) (T V : 'M[F]_k) (e : 'rV[F]_k) (tj m : F) :
  V^T *m V = 1%:M -> V *m diag_mx e *m V^T = T + (tj * m)%:M -> (forall j, 0 <= e 0 j) ->
  let R := (Qk *m V) *m diag_mx (\row_j Num.sqrt (e 0 j)) in R *m R^T = Qk *m (T + (tj * m)%:M) *m Qk^T.
Proof. by apply: lanczos_root_is_compression. Qed.

Theorem C06_lanczos_root_relative_jitter_full_rank (A Qn T V : 'M[F]_n) (e : 'rV[F]_n) (tj m : F) :
  Qn^T *m Qn = 1%:M -> Qn^T *m A *m Qn = T ->
  V^T *m V = 1%:M -> V *m diag_mx e *m V^T = T + (tj * m)%:M -> (forall j, 0 <= e 0 j) ->
  let R := (Qn *m V) *m diag_mx (\row_j Num.sqrt (e 0 j)) in R *m R^T = A + (tj * m)%:M.
Proof. by apply: lanczos_root_full_rank. Qed.

Theorem C06_root_inv_pinverse_valid (A R Rp : 'M[F]_n) :
  R *m R^T = A -> Rp *m R = 1%:M -> A *m (Rp^T *m Rp^T^T) = 1%:M.
Proof. by apply: root_inv_pinverse_valid. Qed.
End Others.

(* ================================================================== theorems about the executable model (Model.v) *)

(* ---- method selection: total function of (cache state, size, settings); any arithmetic *)
Section ModelSelection.
Variables (F : Type) (ar : Arith F) (orc : oracles F) (st : settings F).

Theorem C06_choose_total c n :
  List.In (choose_root_method st c n) (MSymeig :: MDiagonalization :: MLanczos :: MCholesky :: nil).
Proof. by apply: choose_total. Qed.

Theorem C06_choose_symeig_iff c n : choose_root_method st c n = MSymeig <-> c_symeig c = true.
Proof. by apply: choose_symeig_iff. Qed.

Theorem C06_choose_diagonalization_iff c n :
  choose_root_method st c n = MDiagonalization <-> c_symeig c = false /\ c_diagonalization c = true.
Proof. by apply: choose_diagonalization_iff. Qed.

Theorem C06_choose_cholesky_iff c n :
  choose_root_method st c n = MCholesky <->
  c_symeig c = false /\ c_diagonalization c = false /\ c_lanczos c = false /\
  (Z.le (Z.of_nat n) (mcs st) \/ fast_root st = false).
Proof. by apply: choose_cholesky_iff. Qed.

Theorem C06_choose_lanczos_iff c n :
  choose_root_method st c n = MLanczos <->
  c_symeig c = false /\ c_diagonalization c = false /\
  (c_lanczos c = true \/ (Z.lt (mcs st) (Z.of_nat n) /\ fast_root st = true)).
Proof. by apply: choose_lanczos_iff. Qed.

(* monotonicity in the size *)
Theorem C06_choose_cholesky_downward c n n' :
  (n <= n')%coq_nat -> choose_root_method st c n' = MCholesky -> choose_root_method st c n = MCholesky.
Proof. by apply: choose_cholesky_downward. Qed.

Theorem C06_choose_lanczos_upward n n' :
  (n <= n')%coq_nat -> choose_root_method st no_cache n = MLanczos -> choose_root_method st no_cache n' = MLanczos.
Proof. by apply: choose_lanczos_upward. Qed.

Theorem C06_choose_fast_off n : fast_root st = false -> choose_root_method st no_cache n = MCholesky.
Proof. by apply: choose_fast_off. Qed.

Theorem C06_choose_diag_iff n :
  (choose_diag_method st n = MSymeig <-> Z.le (Z.of_nat n) (mcs st)) /\
  (choose_diag_method st n = MLanczos <-> Z.lt (mcs st) (Z.of_nat n)).
Proof. by apply: choose_diag_iff. Qed.

(* which primitive a default root_decomposition() runs on a dense-backed operator: psd_safe_cholesky up to
   max_cholesky_size (or with fast computations off), the Lanczos function above *)
Theorem C06_dense_root_default_cholesky n A :
  Nat.eqb (n * n) 1 = false -> (Z.le (Z.of_nat n) (mcs st) \/ fast_root st = false) ->
  forall L, fst (base_chol ar st n A false) = Ok L ->
  a_root (alg ar orc st (EDense n A)) no_cache MNone = (Ok (L, n), snd (base_chol ar st n A false)).
Proof. by apply: dense_root_default_cholesky. Qed.

Theorem C06_dense_root_default_lanczos n A :
  Nat.eqb (n * n) 1 = false -> Z.lt (mcs st) (Z.of_nat n) -> fast_root st = true ->
  a_root (alg ar orc st (EDense n A)) no_cache MNone =
  (Ok (fst (o_lz_root orc A (z2n (mrs st))), ncols (fst (o_lz_root orc A (z2n (mrs st))))),
   (EvLanczos n (ncols (fst (o_lz_root orc A (z2n (mrs st))))) :: EvEigh (ncols (fst (o_lz_root orc A (z2n (mrs st))))) :: nil)).
Proof. by apply: dense_root_default_lanczos. Qed.

(* KroneckerProduct overrides: above max_cholesky_size the (inverse) root is the Kronecker product of the factors' *)
Theorem C06_kron_root_threshold ops c m :
  let a := alg ar orc st (EKron ops) in
  Z.leb (Z.of_nat (a_n a)) (mcs st) = false ->
  a_root a c m =
  bind (mseq (List.map (fun f => bind (a_root f no_cache m) (fun '(R, k) => ret (R, a_n f, k))) (List.map (alg ar orc st) ops)))
       (fun Rs => ret (s_dat (kron_of ar Rs), s_cols (kron_of ar Rs))).
Proof. by apply: kron_root_threshold. Qed.

Theorem C06_kron_root_inv_threshold ops c m :
  let a := alg ar orc st (EKron ops) in
  Z.leb (Z.of_nat (a_n a)) (mcs st) = false ->
  a_rootinv a c m =
  bind (mseq (List.map (fun f => bind (a_rootinv f no_cache MNone) (fun '(R, k, _) => ret (R, a_n f, k))) (List.map (alg ar orc st) ops)))
       (fun Rs => ret (s_dat (kron_of ar Rs), s_cols (kron_of ar Rs), None)).
Proof. by apply: kron_root_inv_threshold. Qed.

(* `kron_noargs st` is a SOURCE flag (gen/SrcFlags.v, regenerated from the AST on every run): below max_cholesky_size the
   Kronecker override calls super().root_inv_decomposition() without its arguments (true) or forwards them (false).
   Variant "no arguments": the method argument is dropped *)
Theorem C06_kron_root_inv_small_ignores_method ops c m m' :
  kron_noargs st = true ->
  let a := alg ar orc st (EKron ops) in
  Z.leb (Z.of_nat (a_n a)) (mcs st) = true -> a_rootinv a c m = a_rootinv a c m'.
Proof. by apply: kron_root_inv_small_ignores_method. Qed.

(* either variant: the small branch IS the base-class root_inv_decomposition on this object's own sub-queries, run with
   method None (arguments dropped) resp. the given method (arguments forwarded) *)
Theorem C06_kron_root_inv_small_is_base ops c m :
  let a := alg ar orc st (EKron ops) in
  Z.leb (Z.of_nat (a_n a)) (mcs st) = true ->
  a_rootinv a c m =
  gen_root_inv ar orc st (a_n a) (a_dense a) c (bind (a_chol a false) (fun L => ret L)) (a_symeig a) (a_diag a MNone) (a_svd a)
               (a_rootinvL (alg ar orc st (EDense (a_n a) (a_dense a)))) (a_root a c MNone)
               (if kron_noargs st then MNone else m).
Proof. by apply: kron_root_inv_small_is_base. Qed.

(* the tree under test (flag read from its source): which method the small branch runs *)
Theorem C06_kron_root_inv_small_this_tree ops c m :
  kron_noargs st = src_kron_rootinv_noargs ->
  let a := alg ar orc st (EKron ops) in
  Z.leb (Z.of_nat (a_n a)) (mcs st) = true ->
  a_rootinv a c m = a_rootinv a c (if src_kron_rootinv_noargs then MNone else m).
Proof. by apply: kron_root_inv_small_flag. Qed.

(* TriangularLinearOperator refuses the Cholesky and Lanczos-root routes *)
Theorem C06_triangular_raises n upper Tm :
  let a := alg ar orc st (ETri n upper Tm) in
  fst (pub_cholesky ar a false) = Err ENotPSD /\ fst (pub_cholesky ar a true) = Err ENotPSD /\
  fst (a_rootL a) = Err ENotPSD /\ fst (a_rootinvL a) = Err ENotPSD.
Proof. by apply: tri_raises. Qed.
End ModelSelection.

(* ---- the model's generic queries are correct whenever the queries they delegate to are (rcf arithmetic, all n, every method) *)
Section ModelGeneric.
Variable R : rcfType.
Notation T := (carrier R).
Notation arR := (ArRcf R).
Notation mx := (@mx_of R).
Notation rv := (@rv_of R).
Variables (orc : oracles T) (st : settings T).

(* LinearOperator.root_decomposition(method): R R^T = A for EVERY method, given the contracts of _cholesky / _symeig /
   diagonalization / _svd / _root_decomposition and of pivoted_cholesky at the requested rank *)
Theorem C06_model_root_decomposition_valid n (A : matrix T) c chol symeig diag svd rootL rsize meth :
  (n = 1%N -> exists2 a : T, A = [:: [:: a]] & 0 <= (a : R)) ->
  chol_ok n A chol -> symeig_ok n A symeig -> diag_ok n A diag -> svd_ok n A svd -> root_ok n A rootL ->
  (forall k, fst rsize = Ok k -> mx n (ncols (o_pivchol orc A k)) (o_pivchol orc A k) *m
                                 (mx n (ncols (o_pivchol orc A k)) (o_pivchol orc A k))^T = mx n n A) ->
  root_ok n A (gen_root arR orc st n A c chol symeig diag svd rootL rsize meth).
Proof. by apply: gen_root_ok. Qed.

(* LinearOperator.root_inv_decomposition(method): A (R R^T) = I for every method *)
Theorem C06_model_root_inv_decomposition_valid n (A : matrix T) c chol symeig diag svd rootinvL root_default meth :
  0 < (eps_inv st : R) ->
  (n = 1%N -> exists2 a : T, A = [:: [:: a]] & 0 < (a : R)) ->
  chol_tri_ok n A chol ->
  symeig_ok n A symeig -> (forall w Q, fst symeig = Ok (w, Q) -> eps_ok st n w) ->
  diag_ok n A diag -> diag_full_ok n A diag -> (forall w Q k, fst diag = Ok (w, Q, k) -> eps_ok st k w) ->
  svd_ok n A svd ->
  (forall U S V, fst svd = Ok (U, S, V) -> (mx n n U)^T *m mx n n U = 1%:M /\ eps_ok st n S) ->
  rootinv_ok n A rootinvL ->
  root_ok n A root_default ->
  (forall Rt k, fst root_default = Ok (Rt, k) -> k = n /\ mx n n (o_pinv orc Rt) *m mx n n Rt = 1%:M) ->
  rootinv_ok n A (gen_root_inv arR orc st n A c chol symeig diag svd rootinvL root_default meth).
Proof. by apply: gen_root_inv_ok. Qed.

(* the base-class _svd built from _symeig *)
Theorem C06_model_svd_valid n (A : matrix T) (m : M (list T * matrix T)) :
  symeig_ok n A m -> svd_ok n A (bind m (fun wq => ret (svd_of_symeig arR n wq))).
Proof. by apply: svd_of_symeig_ok. Qed.

Theorem C06_model_diagonalization_valid n (A : matrix T) symeig rsize dflt meth :
  symeig_ok n A symeig ->
  (forall k, fst rsize = Ok k -> diag_ok n A (base_lz_diag orc n A k)) ->
  diag_ok n A (gen_diag orc n A symeig rsize dflt meth).
Proof. by apply: gen_diag_ok. Qed.

(* solve_triangular(L, I) as executed by the model (forward substitution) inverts L — no oracle *)
Theorem C06_model_lower_inverse_valid n (L : matrix T) :
  is_trig_mx (mx n n L) -> (forall i : 'I_n, mx n n L i i != 0) ->
  mx n n L *m mx n n (lower_inverse arR n L) = 1%:M.
Proof. by apply: lower_inverse_ok. Qed.

(* the list-level Kronecker product / block layouts of the model ARE the MathComp ones of the theorems above *)
Theorem C06_model_kron_is_kron m n p q (A B : matrix T) :
  mx (m * p) (n * q) (kron2 arR m n p q A B) = kron (major m p) (major n q) (mx m n A) (mx p q B).
Proof. by apply: mx_of_kron2. Qed.

Theorem C06_model_block_layouts k m n (bs : list (matrix T)) :
  mx (k * m) (k * n) (blockdiag arR k m n bs) = blockd (major k m) (major k n) (fun i : 'I_k => mx m n (nth_mx bs i)) /\
  mx (k * m) (k * n) (blockinter arR k m n bs) = blockd (minor k m) (minor k n) (fun i : 'I_k => mx m n (nth_mx bs i)).
Proof. by split; [apply: mx_of_blockdiag | apply: mx_of_blockinter]. Qed.

Theorem C06_model_matmul_is_mulmx m k n (X Y : matrix T) :
  mx m n (mmul arR m k n X Y) = mx m k X *m mx k n Y /\ mx n m (mtr arR m n X) = (mx m n X)^T.
Proof. by split; [apply: mx_of_mmul | apply: mx_of_mtr]. Qed.
End ModelGeneric.


(* ================================================================== per-class theorems: the records `alg e` of Model.v
   (one per operator object, every override transcribed) satisfy the factorisation contracts.  rcf arithmetic, all sizes,
   every method / cache state / settings.  The contracts of the ORACLES on the matrices they are called with are the
   hypotheses (eigh_contract: orthonormal eigenbasis with eigenvalues >= 0 = PSD; lz_*_contract: the Lanczos functions
   when exact; pivchol_contract; pinverse), `pd n A` = square, symmetric, Cholesky recursion meets positive pivots only. *)
Section ModelClasses.
Variable R : rcfType.
Notation T := (carrier R).
Notation arR := (ArRcf R).
Notation mx := (@mx_of R).
Notation rv := (@rv_of R).
Variables (orc : oracles T) (st : settings T).
Notation algR := (alg arR orc st).

(* dense-backed operators (Dense, Toeplitz, Sum, Mul, Matmul, user subclasses ...): cholesky(upper) for both orientations:
   exactly one cholesky_ex, no jitter, L lower triangular with positive diagonal, L L^T = A; the upper variant R^T R = A *)
Theorem C06_model_dense_cholesky_valid n (A : matrix T) :
  Nat.eqb n 1 = false -> pd n A ->
  let a := algR (EDense n A) in
  let L := ProofsLoop.fac T (chol_kernel arR) A in
  [/\ pub_cholesky arR a false = (Ok L, (EvChol n :: nil)%list),
      pub_cholesky arR a true = (Ok (mtr arR n n L), (EvChol n :: nil)%list),
      mx n n L *m (mx n n L)^T = mx n n A /\ is_trig_mx (mx n n L) /\ (forall i : 'I_n, 0 < mx n n L i i)
    & (mx n n (mtr arR n n L))^T *m mx n n (mtr arR n n L) = mx n n A /\ is_trig_mx (mx n n (mtr arR n n L))^T].
Proof. by move=> n1 Hpd; apply: dense_cholesky_valid. Qed.

(* root_decomposition(method): R R^T = A for EVERY method / cache / settings *)
Theorem C06_model_dense_root_valid n (A : matrix T) c meth :
  pd_dense n A -> eigh_contract orc n A -> lz_diag_contract orc n A -> lz_root_contract orc n A ->
  pivchol_contract orc n A ->
  root_ok n A (a_root (algR (EDense n A)) c meth).
Proof. by apply: dense_root_valid. Qed.

(* root_inv_decomposition(method): A (R R^T) = I for EVERY method / cache / settings (eigenvalues >= the clamp 1e-7) *)
Theorem C06_model_dense_root_inv_valid n (A : matrix T) c meth :
  0 < (eps_inv st : R) ->
  pd_dense n A -> eigh_contract orc n A -> eigh_lower orc st n A ->
  lz_diag_contract orc n A -> lz_diag_inv_contract orc st n A -> lz_root_contract orc n A -> pivchol_contract orc n A ->
  (forall Rt k, fst (a_root (algR (EDense n A)) c MNone) = Ok (Rt, k) ->
     k = n /\ mx n n (o_pinv orc Rt) *m mx n n Rt = 1%:M) ->
  rootinv_ok n A (a_rootinv (algR (EDense n A)) c meth).
Proof. by apply: dense_root_inv_valid. Qed.

(* DiagLinearOperator with a positive diagonal: every method, the eigen-based ones included (SPECIFIED behaviour;
   the pinned tree violates it for symeig / diagonalization / svd: known finding C06-diag-eigen-route) *)
Theorem C06_model_diag_root_valid (d : list T) c meth :
  let n := length d in let A := mdiag arR n d in
  (forall j, 0 < rv n d 0 j) ->
  (forall k, diag_ok n A (base_lz_diag orc n A k)) ->
  (forall k, mx n (ncols (o_pivchol orc A k)) (o_pivchol orc A k) *m
             (mx n (ncols (o_pivchol orc A k)) (o_pivchol orc A k))^T = mx n n A) ->
  root_ok n A (a_root (algR (EDiag d)) c meth).
Proof. by move=> n A dpos Hd Hp; exact: (diag_root_valid dpos Hd Hp). Qed.

Theorem C06_model_diag_root_inv_valid (d : list T) c meth :
  let n := length d in let A := mdiag arR n d in
  (forall j, 0 < rv n d 0 j) ->
  0 < (eps_inv st : R) -> (forall j, (eps_inv st : R) <= rv n d 0 j) ->
  (forall k, diag_ok n A (base_lz_diag orc n A k)) ->
  (forall k, diag_full_ok n A (base_lz_diag orc n A k) /\
             (forall w Q kk, fst (base_lz_diag orc n A k) = Ok (w, Q, kk) -> eps_ok st kk w)) ->
  (forall k, mx n (ncols (o_pivchol orc A k)) (o_pivchol orc A k) *m
             (mx n (ncols (o_pivchol orc A k)) (o_pivchol orc A k))^T = mx n n A) ->
  (forall Rt k, fst (a_root (algR (EDiag d)) c MNone) = Ok (Rt, k) ->
     k = n /\ mx n n (o_pinv orc Rt) *m mx n n Rt = 1%:M) ->
  rootinv_ok n A (a_rootinv (algR (EDiag d)) c meth).
Proof. by move=> n A dpos e0 de Hd Hdi Hp Hpi; exact: (diag_root_inv_valid dpos e0 de Hd Hdi Hp Hpi). Qed.

(* KroneckerProductLinearOperator with ANY number of factors of ANY classes (induction over the factor list):
   above max_cholesky_size the (inverse) root is correct whenever the factors' (inverse) roots are *)
Theorem C06_model_kron_root_valid (ops : list (expr T)) c m :
  let a := algR (EKron ops) in
  Z.leb (Z.of_nat (a_n a)) (mcs st) = false ->
  List.Forall (fun e => root_ok (a_n (algR e)) (a_dense (algR e)) (a_root (algR e) no_cache m)) ops ->
  root_ok (a_n a) (a_dense a) (a_root a c m).
Proof. by apply: kron_root_valid_model. Qed.

Theorem C06_model_kron_root_inv_valid (ops : list (expr T)) c m :
  let a := algR (EKron ops) in
  Z.leb (Z.of_nat (a_n a)) (mcs st) = false ->
  List.Forall (fun e => rootinv_ok (a_n (algR e)) (a_dense (algR e)) (a_rootinv (algR e) no_cache MNone)) ops ->
  rootinv_ok (a_n a) (a_dense a) (a_rootinv a c m).
Proof. by apply: kron_root_inv_valid_model. Qed.

(* below max_cholesky_size, in EITHER source variant (arguments dropped or forwarded): valid for every method argument *)
Theorem C06_model_kron_root_inv_small_valid (ops : list (expr T)) c m :
  let a := algR (EKron ops) in
  Z.leb (Z.of_nat (a_n a)) (mcs st) = true ->
  0 < (eps_inv st : R) ->
  (a_n a = 1%N -> exists2 x : T, a_dense a = [:: [:: x]] & 0 < (x : R)) ->
  chol_tri_ok (a_n a) (a_dense a) (pub_cholesky arR a false) ->
  symeig_ok (a_n a) (a_dense a) (a_symeig a) ->
  (forall w Q, fst (a_symeig a) = Ok (w, Q) -> eps_ok st (a_n a) w) ->
  diag_ok (a_n a) (a_dense a) (a_diag a MNone) -> diag_full_ok (a_n a) (a_dense a) (a_diag a MNone) ->
  (forall w Q k, fst (a_diag a MNone) = Ok (w, Q, k) -> eps_ok st k w) ->
  svd_ok (a_n a) (a_dense a) (a_svd a) ->
  (forall U S V, fst (a_svd a) = Ok (U, S, V) ->
     (mx (a_n a) (a_n a) U)^T *m mx (a_n a) (a_n a) U = 1%:M /\ eps_ok st (a_n a) S) ->
  rootinv_ok (a_n a) (a_dense a) (a_rootinvL (algR (EDense (a_n a) (a_dense a)))) ->
  root_ok (a_n a) (a_dense a) (a_root a c MNone) ->
  (forall Rt k, fst (a_root a c MNone) = Ok (Rt, k) ->
     k = a_n a /\ mx (a_n a) (a_n a) (o_pinv orc Rt) *m mx (a_n a) (a_n a) Rt = 1%:M) ->
  rootinv_ok (a_n a) (a_dense a) (a_rootinv a c m).
Proof. by apply: kron_root_inv_small_valid. Qed.

(* ... _symeig (eigh / eigvalsh / diagonalization) and cholesky() at every size: orthonormal eigenbasis, eigenvalues >= 0,
   Q diag(w) Q^T = A;  L lower triangular, non-zero diagonal, L L^T = A *)
Theorem C06_model_kron_symeig_valid (ops : list (expr T)) :
  let a := algR (EKron ops) in
  List.Forall (fun e => symeig_ok (a_n (algR e)) (a_dense (algR e)) (a_symeig (algR e))) ops ->
  symeig_ok (a_n a) (a_dense a) (a_symeig a).
Proof. by apply: kron_symeig_valid_model. Qed.

Theorem C06_model_kron_cholesky_valid (ops : list (expr T)) :
  let a := algR (EKron ops) in
  List.Forall (fun e => chol_tri_ok (a_n (algR e)) (a_dense (algR e)) (pub_cholesky arR (algR e) false)) ops ->
  chol_tri_ok (a_n a) (a_dense a) (pub_cholesky arR a false).
Proof. by apply: kron_cholesky_valid_model. Qed.

Theorem C06_model_kron_svd_valid (ops : list (expr T)) :
  let a := algR (EKron ops) in
  List.Forall (fun e => svd_ok (a_n (algR e)) (a_dense (algR e)) (a_svd (algR e))) ops ->
  svd_ok (a_n a) (a_dense a) (a_svd a).
Proof. by apply: kron_svd_valid_model. Qed.

(* composition of the two: Kronecker product of any number of dense p.d. factors, from the oracle contracts alone *)
Theorem C06_model_kron_of_dense_root_valid (fs : list (nat * matrix T)) c m :
  let a := algR (EKron (List.map (fun x => EDense x.1 x.2) fs)) in
  Z.leb (Z.of_nat (a_n a)) (mcs st) = false ->
  List.Forall (dense_factor_ok orc) fs ->
  root_ok (a_n a) (a_dense a) (a_root a c m).
Proof. by apply: kron_of_dense_root_valid. Qed.

(* BlockDiag / BlockInterleaved _root_decomposition: k >= 1 blocks of one size m whose roots have one inner size q *)
Theorem C06_model_blockdiag_rootL_valid m q (bs : list (expr T)) :
  bs <> nil -> blocks_root_ok orc st m q bs ->
  let a := algR (EBlockDiag bs) in root_ok (a_n a) (a_dense a) (a_rootL a).
Proof. by apply: blockdiag_rootL_valid_model. Qed.

Theorem C06_model_blockinter_rootL_valid m q (bs : list (expr T)) :
  bs <> nil -> blocks_root_ok orc st m q bs ->
  let a := algR (EBlockInter bs) in root_ok (a_n a) (a_dense a) (a_rootL a).
Proof. by apply: blockinter_rootL_valid_model. Qed.

(* ConstantMul.root_decomposition (c >= 0), AddedDiag._symeig with a constant diagonal *)
Theorem C06_model_constmul_root_valid (be : expr T) (c : T) ch m :
  0 <= (c : R) ->
  root_ok (a_n (algR be)) (a_dense (algR be)) (a_root (algR be) no_cache m) ->
  let a := algR (EConstMul be c) in root_ok (a_n a) (a_dense a) (a_root a ch m).
Proof. by apply: constmul_root_valid_model. Qed.

Theorem C06_model_addeddiag_const_symeig_valid (be : expr T) (c : T) :
  0 <= (c : R) ->
  symeig_ok (a_n (algR be)) (a_dense (algR be)) (a_symeig (algR be)) ->
  let a := algR (EAddedDiag be (EConstDiag c (a_n (algR be)))) in symeig_ok (a_n a) (a_dense a) (a_symeig a).
Proof. by apply: addeddiag_const_symeig_valid_model. Qed.

(* KroneckerProductAddedDiag with a constant diagonal: the Lanczos-route root and inverse root *)
Theorem C06_model_kpad_const_rootL_valid (ke : expr T) (c : T) :
  let n := a_n (algR ke) in
  diag_ok n (a_dense (algR ke)) (a_diag (algR ke) MNone) -> diag_full_ok n (a_dense (algR ke)) (a_diag (algR ke) MNone) ->
  0 <= (c : R) ->
  let a := algR (EKpad ke (EConstDiag c n)) in root_ok (a_n a) (a_dense a) (a_rootL a).
Proof. by move=> n Hd Hf c0; apply: kpad_const_rootL_valid_model. Qed.

Theorem C06_model_kpad_const_rootinvL_valid (ke : expr T) (c : T) :
  let n := a_n (algR ke) in
  diag_ok n (a_dense (algR ke)) (a_diag (algR ke) MNone) -> diag_full_ok n (a_dense (algR ke)) (a_diag (algR ke) MNone) ->
  0 < (c : R) ->
  let a := algR (EKpad ke (EConstDiag c n)) in rootinv_ok (a_n a) (a_dense a) (a_rootinvL a).
Proof. by move=> n Hd Hf c0; apply: kpad_const_rootinvL_valid_model. Qed.

(* RECURSIVE statement (structural recursion over the well-formedness derivation `wfe`, nested through List.Forall):
   for EVERY nesting of Kronecker products (any number of factors at every node, any depth) over dense p.d. leaves and
   positive-diagonal leaves, with the oracle contracts holding at every node (`dense_factor_ok`, `diag_leaf_ok`,
   `kron_node_ok`: Lanczos functions / pivoted Cholesky exact on the node's matrix, product not 1 x 1):
   cholesky() is lower triangular with L L^T = A, _symeig is an orthonormal eigendecomposition with eigenvalues >= 0,
   _svd satisfies U diag(S) V^T = A, V^T V = I, S >= 0, diagonalization(method) is valid for every method, and
   root_decomposition(method) satisfies R R^T = A for EVERY method, cache state and settings — on both sides of
   max_cholesky_size at every node *)
Theorem C06_model_kron_tree_valid (e : expr T) :
  wfe orc st e ->
  let a := algR e in
  [/\ chol_tri_ok (a_n a) (a_dense a) (pub_cholesky arR a false),
      symeig_ok (a_n a) (a_dense a) (a_symeig a), svd_ok (a_n a) (a_dense a) (a_svd a),
      forall m, diag_ok (a_n a) (a_dense a) (a_diag a m)
    & forall c m, root_ok (a_n a) (a_dense a) (a_root a c m)].
Proof. by move=> H; have [] := wfe_good H. Qed.
End ModelClasses.

(* ================================================================== the hypotheses are satisfiable (all sizes) *)
Section Examples.
Variables (F : rcfType) (n : nat) (w : 'rV[F]_n).

(* Sections Spectral / KroneckerAddedDiag: Q = I, A = K = diag(w) *)
Example ex_spectral_hyps : (1%:M : 'M[F]_n)^T *m 1%:M = 1%:M /\ (1%:M : 'M[F]_n) *m diag_mx w *m (1%:M)^T = diag_mx w.
Proof. by rewrite trmx1 !mulmx1 mul1mx. Qed.

(* Section Cholesky: L = I, A = I, Linv = I *)
Example ex_cholesky_hyps : is_trig_mx (1%:M : 'M[F]_n) /\ (1%:M : 'M[F]_n) *m (1%:M)^T = 1%:M.
Proof. by rewrite trmx1 mulmx1 scalar_mx_is_trig. Qed.

(* Section KroneckerAddedDiagSym: D = I (d = 1), Q = I, K = diag(w) *)
Example ex_kpadsym_hyps :
  let d : 'rV[F]_n := const_mx 1 in
  (forall j, 0 < d 0 j) /\
  (1%:M : 'M[F]_n) *m diag_mx w *m (1%:M)^T = diag_mx (dinvsq d) *m diag_mx w *m diag_mx (dinvsq d).
Proof.
move=> d; split=> [j|]; first by rewrite mxE ltr01.
have -> : diag_mx (dinvsq d) = 1%:M.
  by rewrite -diag_mx_const; apply: diag_mx_inj_eq => j; rewrite !mxE sqrtr1 invr1.
by rewrite trmx1 !mulmx1 !mul1mx.
Qed.

(* Section ModelClasses: a 1 x 1 operator [[a]], a > 0, with oracles answering ([a], [[1]]) / [[sqrt a]] satisfies
   pd_dense, eigh_contract, lz_root_contract and pivchol_contract (so the per-class hypotheses are not vacuous) *)
Example ex_model_class_hyps (a : carrier F) :
  0 < (a : F) ->
  let A : matrix (carrier F) := [:: [:: a]] in
  let r : matrix (carrier F) := [:: [:: (Num.sqrt (a : F) : carrier F)]] in
  let ri : matrix (carrier F) := [:: [:: ((Num.sqrt (a : F))^-1 : carrier F)]] in
  let orc := MkOr (fun _ => ([:: a], [:: [:: (1 : F) : carrier F]])) (fun _ _ => ([:: a], [:: [:: (1 : F) : carrier F]]))
                  (fun _ _ => (r, ri)) (fun _ _ => r) (fun _ => ri) in
  [/\ pd_dense 1 A, eigh_contract orc 1 A, lz_root_contract orc 1 A & pivchol_contract orc 1 A].
Proof.
move=> a0 A r ri orc.
have s0 : Num.sqrt (a : F) != 0 by rewrite gt_eqF // sqrtr_gt0.
have Hr : @mx_of F 1 1 r *m (@mx_of F 1 1 r)^T = @mx_of F 1 1 A.
  by apply/matrixP => i j; rewrite !mxE big_ord1 !mxE !ord1 /= /ent /= -expr2 sqr_sqrtr // ltW.
split.
- by split=> // _; exists a.
- move=> w0 Q0 [<- <-]; split=> //.
  + by apply/matrixP => i j; rewrite !mxE big_ord1 !mxE !ord1 /= /ent /= mulr1.
  + apply/matrixP => i j; rewrite !mxE big_ord1 !mxE big_ord1 !mxE !ord1 /= /ent /vnth /=.
    by rewrite ?eqxx ?mulr1n mul1r mulr1.
  + by move=> j; rewrite mxE ord1 /vnth /= ltW.
- move=> k Rt Ri [<- <-]; split=> //.
  apply/matrixP => i j; rewrite !mxE big_ord1 !mxE big_ord1 !mxE !ord1 /= /ent /=.
  by rewrite -invfM -expr2 sqr_sqrtr ?ltW // mulfV // gt_eqF.
- by move=> k.
Qed.

(* a real closed field exists (constructed, axiom-free): the real algebraic numbers *)
Example ex_rcf_inhabited : rcfType.
Proof. exact: realalg_rcf. Qed.
End Examples.

(* Theorem C06_model_kron_tree_valid is not vacuous: for any a, b > 0 the tree  Kron [Diag [a; b]]  (a 2 x 2 Kronecker node
   over a positive-diagonal leaf) is well formed for the oracles that answer with the exact factorisations of diag(a, b) *)
Section ExampleTree.
Variable F : rcfType.
Notation T := (carrier F).
Notation arF := (ArRcf F).
Variables (a b : T) (st : settings T).
Hypothesis a0 : 0 < (a : F).
Hypothesis b0 : 0 < (b : F).
Let d : list T := [:: a; b].
Let D : matrix T := mdiag arF 2 d.
Let orc : oracles T :=
  MkOr (fun _ => (d, meye arF 2)) (fun _ _ => (d, meye arF 2))
       (fun _ _ => (mdiag arF 2 (vsqrt arF d), mdiag arF 2 (vsqrt arF (vmap (frecip arF) d))))
       (fun _ _ => mdiag arF 2 (vsqrt arF d)) (fun _ => mdiag arF 2 (vsqrt arF (vmap (frecip arF) d))).

Let dpos : forall j, 0 < @rv_of F (length d) d 0 j.
Proof. by move=> j; rewrite mxE /vnth; case: j => [[|[|j]]] //=. Qed.

Let P : matrix T := a_dense (alg arF orc st (EKron [:: EDiag d])).

Let EP : @mx_of F 2 2 P = @mx_of F 2 2 D.
Proof.
apply/matrixP => i j; rewrite !mxE /P /= /kron2 /ent.
by case: i => [[|[|i]]] //= _; case: j => [[|[|j]]] //= _; rewrite mulr1.
Qed.

Example ex_kron_tree_wf : wfe orc st (EKron [:: EDiag d]).
Proof.
have Hg : @mx_of F 2 2 (mdiag arF 2 (vsqrt arF d)) *m (@mx_of F 2 2 (mdiag arF 2 (vsqrt arF d)))^T = @mx_of F 2 2 D.
  exact: (diag_sqrt_gram dpos).
have Hi : @mx_of F 2 2 D *m (@mx_of F 2 2 (mdiag arF 2 (vsqrt arF (vmap (frecip arF) d))) *m
                             (@mx_of F 2 2 (mdiag arF 2 (vsqrt arF (vmap (frecip arF) d))))^T) = 1%:M.
  by have := @diag_rootinvL_ok F orc st d dpos _ _ None (erefl _).
have Hd : forall M0 k, mx_of 2 2 M0 = @mx_of F 2 2 D -> diag_ok 2 M0 (base_lz_diag orc 2 M0 k).
  move=> M0 k EM w Q kk /= [<- <- <-]; split=> //.
  - by rewrite EM mx_of_meye trmx1 mulmx1 mul1mx /D mx_of_mdiag.
  - by move=> j; apply: ltW; exact: dpos.
apply: WKron.
- constructor; last by constructor.
  by apply: WDiag; split=> // k; exact: Hd.
- split.
  + by [].
  + by move=> k; apply: Hd; exact: EP.
  + by move=> k Rt Ri [<- <-]; rewrite -/P EP; split; [exact: Hg | exact: Hi].
  + by move=> k; rewrite -/P EP; exact: Hg.
Qed.
End ExampleTree.
