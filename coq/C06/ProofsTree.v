(* C06 — a recursive statement over operator expressions: every nesting of Kronecker products over dense p.d. /
   positive-diagonal leaves satisfies the factorisation contracts (structural recursion over the well-formedness
   derivation, nested through List.Forall). *)
From Coq Require Import PeanoNat List ZArith.
From mathcomp Require Import all_ssreflect all_algebra zify.
Require Import C16.Model C16.ProofsClosed.
Require Import C06.Model C06.BaseLemmas C06.ProofsAlg C06.ProofsKron C06.ProofsKpad C06.Bridge C06.ProofsTri C06.ProofsGen C06.ProofsClass.
Set Implicit Arguments. Unset Strict Implicit. Unset Printing Implicit Defensive.
Import Order.Theory GRing.Theory Num.Theory.
Local Open Scope ring_scope.

Section Tree.
Variable R : rcfType.
Notation T := (carrier R).
Notation arR := (ArRcf R).
Notation mx := (@mx_of R).
Notation rv := (@rv_of R).
Variables (orc : oracles T) (st : settings T).
Notation algR := (alg arR orc st).
Notation dense_factor_ok := (@dense_factor_ok R orc).

(* ================================================================== a recursive statement: every nesting of Kronecker
   products over dense p.d. / positive diagonal leaves — cholesky, eigh, svd, diagonalization(method) and
   root_decomposition(method) are correct for EVERY method, cache state and settings, on both sides of
   max_cholesky_size (contracts of the oracles at every node are part of the well-formedness predicate) *)
Record good_root (a : algs T) : Prop := MkGoodRoot {
  gr_chol : chol_tri_ok (a_n a) (a_dense a) (pub_cholesky arR a false);
  gr_symeig : symeig_ok (a_n a) (a_dense a) (a_symeig a);
  gr_svd : svd_ok (a_n a) (a_dense a) (a_svd a);
  gr_diag : forall m, diag_ok (a_n a) (a_dense a) (a_diag a m);
  gr_root : forall c m, root_ok (a_n a) (a_dense a) (a_root a c m)
}.

Lemma good_root_dense n A : dense_factor_ok (n, A) -> good_root (algR (EDense n A)).
Proof.
case=> /= Hpd He Hd Hr Hp; split.
- exact (@dense_chol_tri_ok R st n A Hpd).
- exact: base_symeig_ok.
- exact/svd_of_symeig_ok/base_symeig_ok.
- by move=> m; exact: dense_diag_ok.
- by move=> c m; exact: dense_root_valid.
Qed.

Definition diag_leaf_ok (d : list T) : Prop :=
  [/\ forall j, 0 < rv (length d) d 0 j, lz_diag_contract orc (length d) (mdiag arR (length d) d)
    & pivchol_contract orc (length d) (mdiag arR (length d) d)].

Lemma good_root_diag d : diag_leaf_ok d -> good_root (algR (EDiag d)).
Proof.
case=> dpos Hd Hp; split.
- exact (@diag_chol_tri_ok R orc st d dpos).
- exact: diag_symeig_ok.
- exact: diag_svd_ok.
- by move=> m; apply: gen_diag_ok; [exact: diag_symeig_ok | move=> k _; exact: Hd].
- by move=> c m; exact: (diag_root_valid dpos Hd Hp).
Qed.

(* the Kronecker node: contracts of the Lanczos functions / pivoted Cholesky on the PRODUCT matrix (used by the
   explicit methods and below the threshold); the product is not a 1 x 1 matrix *)
Definition kron_node_ok (ops : list (expr T)) : Prop :=
  let a := algR (EKron ops) in
  [/\ a_n a <> 1%N, lz_diag_contract orc (a_n a) (a_dense a), lz_root_contract orc (a_n a) (a_dense a)
    & pivchol_contract orc (a_n a) (a_dense a)].

Lemma kron_root_eq (ops : list (expr T)) c m :
  let a := algR (EKron ops) in
  Z.leb (Z.of_nat (a_n a)) (mcs st) = true ->
  a_root a c m = gen_root arR orc st (a_n a) (a_dense a) c (bind (a_chol a false) (fun L => ret L)) (a_symeig a)
                   (a_diag a MNone) (a_svd a) (a_rootL (algR (EDense (a_n a) (a_dense a)))) (a_rsize a) m.
Proof. by move=> a /= ->. Qed.

Lemma kron_diag_eq (ops : list (expr T)) m :
  let a := algR (EKron ops) in
  a_diag a m = gen_diag orc (a_n a) (a_dense a) (a_symeig a) (a_rsize a) MSymeig m.
Proof. by []. Qed.

Lemma good_root_kron ops :
  List.Forall (fun e => good_root (algR e)) ops -> kron_node_ok ops -> good_root (algR (EKron ops)).
Proof.
move=> HF [Hn1 Hd Hr Hp].
have Fc : List.Forall (fun e => chol_tri_ok (a_n (algR e)) (a_dense (algR e)) (pub_cholesky arR (algR e) false)) ops.
  by elim: HF => [|e l [] *]; constructor.
have Fs : List.Forall (fun e => symeig_ok (a_n (algR e)) (a_dense (algR e)) (a_symeig (algR e))) ops.
  by elim: HF => [|e l [] *]; constructor.
have Fv : List.Forall (fun e => svd_ok (a_n (algR e)) (a_dense (algR e)) (a_svd (algR e))) ops.
  by elim: HF => [|e l [] *]; constructor.
have Hc := kron_cholesky_valid_model Fc; have Hs := kron_symeig_valid_model Fs; have Hv := kron_svd_valid_model Fv.
have Hdg m : diag_ok (a_n (algR (EKron ops))) (a_dense (algR (EKron ops))) (a_diag (algR (EKron ops)) m).
  by rewrite kron_diag_eq; apply: gen_diag_ok => // k _; exact: Hd.
split=> // c m.
case E: (Z.leb (Z.of_nat (a_n (algR (EKron ops)))) (mcs st)); last first.
  apply: kron_root_valid_model => //.
  by elim: HF => [|e l [_ _ _ _ Hroot] _ IH]; constructor.
rewrite (kron_root_eq c m E); apply: gen_root_ok => //.
- by apply: chol_tri_ok_chol_ok; exact Hc.
- exact: dense_rootL_ok.
Qed.

Inductive wfe : expr T -> Prop :=
| WDense n A : dense_factor_ok (n, A) -> wfe (EDense n A)
| WDiag d : diag_leaf_ok d -> wfe (EDiag d)
| WKron ops : List.Forall wfe ops -> kron_node_ok ops -> wfe (EKron ops).

Fixpoint wfe_good (e : expr T) (H : wfe e) {struct H} : good_root (algR e) :=
  match H in wfe e0 return good_root (algR e0) with
  | WDense n A h => good_root_dense h
  | WDiag d h => good_root_diag h
  | WKron ops hs hk =>
      good_root_kron
        ((fix go (l : list (expr T)) (hl : List.Forall wfe l) {struct hl} : List.Forall (fun e => good_root (algR e)) l :=
            match hl in List.Forall _ l0 return List.Forall (fun e => good_root (algR e)) l0 with
            | List.Forall_nil => List.Forall_nil _
            | List.Forall_cons x l' hx hl' => List.Forall_cons x (wfe_good hx) (go l' hl')
            end) ops hs) hk
  end.

Theorem kron_tree_root_valid e c m : wfe e -> root_ok (a_n (algR e)) (a_dense (algR e)) (a_root (algR e) c m).
Proof. by move=> H; have [_ _ _ _ Hr] := wfe_good H; exact: Hr. Qed.

End Tree.
