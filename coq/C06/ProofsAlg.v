(* C06 — matrix-level identities behind every factorisation route of the library, for ALL sizes,
   over an arbitrary real closed field (exact arithmetic, Num.sqrt), MathComp matrices.

   LAPACK's eigh / solve_triangular / pinverse appear only through their contracts (section hypotheses):
     eigh A = (w, Q)  with  Q^T Q = I  and  Q diag(w) Q^T = A ;   solve_triangular L I = X with L X = I.
   Nothing here depends on the executable model; ProofsModel*.v instantiate these lemmas on it. *)
From mathcomp Require Import all_ssreflect all_algebra.
Set Implicit Arguments. Unset Strict Implicit. Unset Printing Implicit Defensive.
Import Order.Theory GRing.Theory Num.Theory.
Local Open Scope ring_scope.

(* ------------------------------------------------------------------ diagonal matrices *)
Section Diag.
Variable F : fieldType.
Variable n : nat.
Implicit Types (d e : 'rV[F]_n).

Definition rmul d e : 'rV[F]_n := \row_j (d 0 j * e 0 j).

Lemma mul_diag_diag d e : diag_mx d *m diag_mx e = diag_mx (rmul d e).
Proof.
apply/matrixP => i j; rewrite !mxE (bigD1 i) //= big1 ?addr0; last first.
  by move=> k ki; rewrite !mxE eq_sym (negbTE ki) mulr0n mul0r.
rewrite !mxE eqxx mulr1n; case: (altP (i =P j)) => [->|_]; first by rewrite !mulr1n.
by rewrite !mulr0n mulr0.
Qed.

Lemma diag_mx_const (c : F) : diag_mx (const_mx c : 'rV[F]_n) = c%:M.
Proof. by apply/matrixP => i j; rewrite !mxE. Qed.

Lemma diag_mx_inj_eq d e : (forall j, d 0 j = e 0 j) -> diag_mx d = diag_mx e.
Proof. by move=> H; apply/matrixP => i j; rewrite !mxE H. Qed.

Lemma row_eq d e : (forall j, d 0 j = e 0 j) -> d = e.
Proof. by move=> H; apply/rowP => j; rewrite H. Qed.

(* column scaling  `Q * s.unsqueeze(-2)`  is  Q *m diag(s) *)
Lemma col_scale_diag m (Q : 'M[F]_(m, n)) d :
  (\matrix_(i, j) (Q i j * d 0 j)) = Q *m diag_mx d.
Proof.
apply/matrixP => i j; rewrite !mxE (bigD1 j) //= big1 ?addr0; last first.
  by move=> k kj; rewrite !mxE (negbTE kj) mulr0n mulr0.
by rewrite !mxE eqxx mulr1n.
Qed.

(* row scaling  `d.unsqueeze(-1) * Q`  is  diag(d) *m Q *)
Lemma row_scale_diag m (Q : 'M[F]_(n, m)) d :
  (\matrix_(i, j) (d 0 i * Q i j)) = diag_mx d *m Q.
Proof.
apply/matrixP => i j; rewrite !mxE (bigD1 i) //= big1 ?addr0; last first.
  by move=> k ki; rewrite !mxE eq_sym (negbTE ki) mulr0n mul0r.
by rewrite !mxE eqxx mulr1n.
Qed.

End Diag.

(* ------------------------------------------------------------------ orthogonal square matrices *)
Section Orth.
Variable F : fieldType.
Variable n : nat.
Variable Q : 'M[F]_n.
Hypothesis Qorth : Q^T *m Q = 1%:M.

Lemma orth_QQt : Q *m Q^T = 1%:M.
Proof. exact: (mulmx1C Qorth). Qed.

Lemma orth_conj_mul (X Y : 'M[F]_n) : (Q *m X *m Q^T) *m (Q *m Y *m Q^T) = Q *m (X *m Y) *m Q^T.
Proof. by rewrite !mulmxA -(mulmxA (Q *m X)) Qorth mulmx1. Qed.

Lemma orth_conj1 : Q *m 1%:M *m Q^T = 1%:M.
Proof. by rewrite mulmx1 orth_QQt. Qed.

End Orth.

(* ------------------------------------------------------------------ Cholesky-based routes *)
Section Chol.
Variable F : fieldType.
Variable n : nat.
Variables (A L : 'M[F]_n).
Hypothesis Ltri : is_trig_mx L.              (* lower triangular *)
Hypothesis LLt : L *m L^T = A.

(* cholesky(upper=True) = cholesky(upper=False)._transpose_nonbatch() *)
Theorem cholesky_upper_is_transpose :
  let R := L^T in  R^T *m R = A /\ is_trig_mx R^T.
Proof. by rewrite /= trmxK. Qed.

(* root_inv_decomposition(method="cholesky"):  Linv = solve_triangular(L, I) ;  root = Linv^T *)
Variable Linv : 'M[F]_n.
Hypothesis LLinv : L *m Linv = 1%:M.

Theorem root_inv_cholesky_valid :
  let R := Linv^T in  A *m (R *m R^T) = 1%:M /\ (R *m R^T) *m A = 1%:M.
Proof.
have LinvL : Linv *m L = 1%:M by exact: (mulmx1C LLinv).
have H : A *m (Linv^T *m Linv^T^T) = 1%:M.
  rewrite -LLt trmxK -mulmxA (mulmxA L^T) -trmx_mul LinvL trmx1 mul1mx. exact: LLinv.
by split=> //=; apply: (mulmx1C H).
Qed.

Corollary root_inv_cholesky_is_inverse : A \in unitmx -> Linv^T *m Linv^T^T = invmx A.
Proof.
move=> uA; have [H _] := root_inv_cholesky_valid.
by rewrite -[LHS]mul1mx -(mulVmx uA) -mulmxA H mulmx1.
Qed.

End Chol.

(* ------------------------------------------------------------------ eigendecomposition-based routes *)
Section Spectral.
Variable F : rcfType.
Variable n : nat.
Variables (A Q : 'M[F]_n) (w : 'rV[F]_n).
Hypothesis Qorth : Q^T *m Q = 1%:M.
Hypothesis Qdiag : Q *m diag_mx w *m Q^T = A.

Definition rsqrt_clamp0 : 'rV[F]_n := \row_j Num.sqrt (Num.max (w 0 j) 0).          (* evals.clamp_min(0).sqrt() *)
Definition rinvsqrt_clamp (eps : F) : 'rV[F]_n := \row_j Num.sqrt (Num.max (w 0 j) eps)^-1.
                                                                (* evals.clamp_min(eps).reciprocal().sqrt() *)
Definition rsign : 'rV[F]_n := \row_j Num.sg (w 0 j).
Definition rabs : 'rV[F]_n := \row_j `|w 0 j|.

Lemma scaled_gram (s : 'rV[F]_n) :
  (Q *m diag_mx s) *m (Q *m diag_mx s)^T = Q *m diag_mx (rmul s s) *m Q^T.
Proof. by rewrite trmx_mul tr_diag_mx mulmxA -(mulmxA Q) mul_diag_diag. Qed.

(* what the symeig root always is: the factorisation of the positive part *)
Lemma root_symeig_gram :
  let R := Q *m diag_mx rsqrt_clamp0 in
  R *m R^T = Q *m diag_mx (\row_j Num.max (w 0 j) 0) *m Q^T.
Proof.
rewrite /= scaled_gram; congr (_ *m _ *m _); apply: diag_mx_inj_eq => j.
by rewrite !mxE -expr2 sqr_sqrtr // le_maxr lexx orbT.
Qed.

(* root_decomposition(method="symeig"): PSD => (V sqrt(Lambda+)) (V sqrt(Lambda+))^T = A *)
Theorem root_symeig_valid :
  (forall j, 0 <= w 0 j) ->
  let R := Q *m diag_mx rsqrt_clamp0 in R *m R^T = A.
Proof.
move=> w0 /=; rewrite root_symeig_gram -Qdiag; congr (_ *m _ *m _); apply: diag_mx_inj_eq => j.
by rewrite !mxE max_l.
Qed.

(* without PSD the symeig root factorises A iff no eigenvalue is negative (exact characterisation) *)
Theorem root_symeig_valid_iff :
  let R := Q *m diag_mx rsqrt_clamp0 in (R *m R^T = A) <-> (forall j, 0 <= w 0 j).
Proof.
split; last exact: root_symeig_valid.
rewrite /= root_symeig_gram -Qdiag => H j.
have QQt := orth_QQt Qorth.
have D : diag_mx (\row_j Num.max (w 0 j) 0) = diag_mx w.
  have := congr1 (fun X => Q^T *m X *m Q) H.
  by rewrite !mulmxA Qorth !mul1mx -!mulmxA Qorth !mulmx1.
have := congr1 (fun X : 'M_n => X j j) D; rewrite !mxE eqxx !mulr1n => <-.
by rewrite le_maxr lexx orbT.
Qed.

(* root_inv_decomposition(method="symeig"/"diagonalization"/"svd"): evals.clamp_min(eps).reciprocal().sqrt();
   exact when every eigenvalue is at least eps (eps = 1e-7 in the library) *)
Theorem root_inv_symeig_valid (eps : F) :
  0 < eps -> (forall j, eps <= w 0 j) ->
  let R := Q *m diag_mx (rinvsqrt_clamp eps) in A *m (R *m R^T) = 1%:M /\ (R *m R^T) *m A = 1%:M.
Proof.
move=> e0 we /=.
have H : A *m ((Q *m diag_mx (rinvsqrt_clamp eps)) *m (Q *m diag_mx (rinvsqrt_clamp eps))^T) = 1%:M.
  rewrite scaled_gram -Qdiag orth_conj_mul // mul_diag_diag.
  have -> : diag_mx (rmul w (rmul (rinvsqrt_clamp eps) (rinvsqrt_clamp eps))) = 1%:M.
    rewrite -diag_mx_const; apply: diag_mx_inj_eq => j; rewrite !mxE.
    have wj : 0 < w 0 j by exact: lt_le_trans e0 (we j).
    rewrite max_l // -expr2 sqr_sqrtr ?invr_ge0 ?ltW // mulfV //.
    by rewrite gt_eqF.
  exact: orth_conj1.
by split=> //; apply: (mulmx1C H).
Qed.

(* base-class _svd:  U = evecs * sign(evals), S = |evals|, V = evecs *)
Theorem svd_from_symeig_valid :
  let U := Q *m diag_mx rsign in let S := rabs in let V := Q in
  [/\ U *m diag_mx S *m V^T = A, V^T *m V = 1%:M, forall j, 0 <= S 0 j
    & (forall j, w 0 j != 0) -> U^T *m U = 1%:M].
Proof.
split=> //.
- rewrite -Qdiag -(mulmxA Q) mul_diag_diag; congr (_ *m _ *m _); apply: diag_mx_inj_eq => j.
  by rewrite !mxE -numEsg.
- by move=> j; rewrite mxE.
- move=> w0; rewrite trmx_mul tr_diag_mx mulmxA -(mulmxA (diag_mx _)) Qorth mulmx1 mul_diag_diag.
  rewrite -diag_mx_const; apply: diag_mx_inj_eq => j; rewrite !mxE.
  by rewrite -expr2 sqr_sg w0.
Qed.

(* ... and the orthonormality of U fails exactly when an eigenvalue is zero *)
Theorem svd_from_symeig_U_orth_iff :
  let U := Q *m diag_mx rsign in (U^T *m U = 1%:M) <-> (forall j, w 0 j != 0).
Proof.
split; last by case: svd_from_symeig_valid.
rewrite /= trmx_mul tr_diag_mx mulmxA -(mulmxA (diag_mx _)) Qorth mulmx1 mul_diag_diag => H j.
have := congr1 (fun X : 'M_n => X j j) H; rewrite !mxE eqxx !mulr1n -expr2 sqr_sg.
by case: (w 0 j == 0) => //= /eqP; rewrite eq_sym oner_eq0.
Qed.

(* DiagLinearOperator._svd:  U = evecs, V = evecs * sign *)
Theorem svd_sign_on_V_valid :
  let U := Q in let S := rabs in let V := Q *m diag_mx rsign in
  U *m diag_mx S *m V^T = A.
Proof.
rewrite /= trmx_mul tr_diag_mx mulmxA -(mulmxA Q) mul_diag_diag -Qdiag.
congr (_ *m _ *m _); apply: diag_mx_inj_eq => j.
by rewrite !mxE mulrC -numEsg.
Qed.

(* AddedDiag / KroneckerProductAddedDiag with a constant diagonal: evals + c, same eigenvectors *)
Theorem symeig_const_shift_valid (c : F) :
  Q *m diag_mx (\row_j (w 0 j + c)) *m Q^T = A + c%:M.
Proof.
have -> : diag_mx (\row_j (w 0 j + c)) = diag_mx w + c%:M.
  by apply/matrixP => i j; rewrite !mxE -mulrnDl.
rewrite mulmxDr mulmxDl Qdiag; congr (_ + _).
by rewrite mul_mx_scalar -scalemxAl (orth_QQt Qorth) scalemx1.
Qed.

(* AddedDiag._svd with a constant diagonal: (U, S + c, V) of the base. It is a valid SVD of A + cI
   iff U = V on the shifted part, which holds when no eigenvalue of the base is negative or zero. *)
Theorem svd_const_shift_valid (c : F) :
  (forall j, 0 < w 0 j) ->
  let U := Q *m diag_mx rsign in
  U *m diag_mx (\row_j (rabs 0 j + c)) *m Q^T = A + c%:M.
Proof.
move=> wpos /=; rewrite -symeig_const_shift_valid -(mulmxA Q) mul_diag_diag.
congr (_ *m _ *m _); apply: diag_mx_inj_eq => j.
by rewrite !mxE gtr0_sg // mul1r gtr0_norm.
Qed.

End Spectral.
