(* C06 — Kronecker products and block layouts as flattened 4-index tensors, for ALL sizes.

   A matrix indexed by pairs (i,a) x (j,b) is stored flat through a pairing bijection  'I_m * 'I_p <-> 'I_N.
   `flat_mul` (one reindexing lemma) gives the Kronecker mixed-product law, the multiplicativity of block-diagonal
   layouts, and — by choosing the pairing — covers both the block-major layout of KroneckerProduct / BlockDiag
   and the block-minor layout of BlockInterleaved. *)
From mathcomp Require Import all_ssreflect all_algebra zify.
Set Implicit Arguments. Unset Strict Implicit. Unset Printing Implicit Defensive.
Import GRing.Theory.
Local Open Scope ring_scope.

(* ------------------------------------------------------------------ pairings *)
Record pairing (m p N : nat) := MkPairing {
  pr_to : 'I_m * 'I_p -> 'I_N;
  pr_of : 'I_N -> 'I_m * 'I_p;
  pr_toK : cancel pr_to pr_of;
  pr_ofK : cancel pr_of pr_to }.

Lemma pr_of_eq m p N (h : pairing m p N) r c :
  ((pr_of h r).1 == (pr_of h c).1) && ((pr_of h r).2 == (pr_of h c).2) = (r == c).
Proof. by rewrite -xpair_eqE -!surjective_pairing (inj_eq (can_inj (pr_ofK h))). Qed.

Section Concrete.
Variables m p : nat.

Lemma major_lt (i : 'I_m) (a : 'I_p) : (i * p + a < m * p)%N.
Proof. by have := ltn_ord i; have := ltn_ord a; nia. Qed.

Lemma pos_of (r : 'I_(m * p)) : (0 < p)%N.
Proof. by have := ltn_ord r; nia. Qed.

Lemma div_lt (r : 'I_(m * p)) : (r %/ p < m)%N.
Proof. by rewrite ltn_divLR ?(pos_of r) // ltn_ord. Qed.

Lemma mod_lt (r : 'I_(m * p)) : (r %% p < p)%N.
Proof. by rewrite ltn_mod (pos_of r). Qed.

(* block-major (row-major) pairing: (i, a) |-> i * p + a    [Kronecker product, BlockDiag] *)
Definition major_to (x : 'I_m * 'I_p) : 'I_(m * p) := Ordinal (major_lt x.1 x.2).
Definition major_of (r : 'I_(m * p)) : 'I_m * 'I_p := (Ordinal (div_lt r), Ordinal (mod_lt r)).

Lemma major_toK : cancel major_to major_of.
Proof.
case=> i a; rewrite /major_of /major_to /=; congr pair; apply: val_inj => /=.
- by have ha := ltn_ord a; rewrite divnMDl ?divn_small ?addn0 //; lia.
- by rewrite modnMDl modn_small.
Qed.

Lemma major_ofK : cancel major_of major_to.
Proof. by move=> r; apply: val_inj; rewrite /= -divn_eq. Qed.

Definition major : pairing m p (m * p) := MkPairing major_toK major_ofK.

End Concrete.

Section ConcreteMinor.
Variables m p : nat.
(* block-minor pairing: (i, a) |-> a * m + i     [BlockInterleaved: block index i varies fastest] *)
Lemma minor_lt (i : 'I_m) (a : 'I_p) : (a * m + i < m * p)%N.
Proof. by have := ltn_ord i; have := ltn_ord a; nia. Qed.

Definition minor_to (x : 'I_m * 'I_p) : 'I_(m * p) := Ordinal (minor_lt x.1 x.2).

Lemma minor_div_lt (r : 'I_(m * p)) : (r %/ m < p)%N.
Proof. by have := ltn_ord r => h; rewrite ltn_divLR; nia. Qed.
Lemma minor_mod_lt (r : 'I_(m * p)) : (r %% m < m)%N.
Proof. by have := ltn_ord r => h; rewrite ltn_mod; nia. Qed.

Definition minor_of (r : 'I_(m * p)) : 'I_m * 'I_p := (Ordinal (minor_mod_lt r), Ordinal (minor_div_lt r)).

Lemma minor_toK : cancel minor_to minor_of.
Proof.
case=> i a; rewrite /minor_of /minor_to /=; congr pair; apply: val_inj => /=.
- by rewrite modnMDl modn_small.
- by have hi := ltn_ord i; rewrite divnMDl ?divn_small ?addn0 //; lia.
Qed.

Lemma minor_ofK : cancel minor_of minor_to.
Proof. by move=> r; apply: val_inj; rewrite /= -divn_eq. Qed.

Definition minor : pairing m p (m * p) := MkPairing minor_toK minor_ofK.
End ConcreteMinor.

(* ------------------------------------------------------------------ flattened tensors *)
Section Flat.
Variable R : comRingType.

Definition tensor4 (m p n q : nat) := 'I_m -> 'I_p -> 'I_n -> 'I_q -> R.

Definition flat m p n q M N (hr : pairing m p M) (hc : pairing n q N) (T : tensor4 m p n q) : 'M[R]_(M, N) :=
  \matrix_(r, c) T (pr_of hr r).1 (pr_of hr r).2 (pr_of hc c).1 (pr_of hc c).2.

Definition tcomp m p n q k l (T : tensor4 m p n q) (S : tensor4 n q k l) : tensor4 m p k l :=
  fun i a j b => \sum_x \sum_y T i a x y * S x y j b.

Lemma flat_ext m p n q M N (hr : pairing m p M) (hc : pairing n q N) (T S : tensor4 m p n q) :
  (forall i a j b, T i a j b = S i a j b) -> flat hr hc T = flat hr hc S.
Proof. by move=> H; apply/matrixP => r c; rewrite !mxE H. Qed.

Lemma flatE m p n q M N (hr : pairing m p M) (hc : pairing n q N) (T : tensor4 m p n q) i a j b :
  flat hr hc T (pr_to hr (i, a)) (pr_to hc (j, b)) = T i a j b.
Proof. by rewrite mxE !pr_toK. Qed.

(* the one reindexing lemma *)
Lemma flat_mul m p n q k l M N K (hr : pairing m p M) (hc : pairing n q N) (hk : pairing k l K)
      (T : tensor4 m p n q) (S : tensor4 n q k l) :
  flat hr hc T *m flat hc hk S = flat hr hk (tcomp T S).
Proof.
apply/matrixP => r c; rewrite !mxE /tcomp.
rewrite (reindex (pr_to hc)) /=; last first.
  by exists (pr_of hc) => x _; [exact: pr_toK | exact: pr_ofK].
rewrite pair_big /=; apply: eq_bigr => -[x y] _.
by rewrite !mxE !pr_toK.
Qed.

Lemma flat_tr m p n q M N (hr : pairing m p M) (hc : pairing n q N) (T : tensor4 m p n q) :
  (flat hr hc T)^T = flat hc hr (fun j b i a => T i a j b).
Proof. by apply/matrixP => r c; rewrite !mxE. Qed.

Lemma flat_scale m p n q M N (hr : pairing m p M) (hc : pairing n q N) (T : tensor4 m p n q) (x : R) :
  x *: flat hr hc T = flat hr hc (fun i a j b => x * T i a j b).
Proof. by apply/matrixP => r c; rewrite !mxE. Qed.

Lemma flat_add m p n q M N (hr : pairing m p M) (hc : pairing n q N) (T S : tensor4 m p n q) :
  flat hr hc T + flat hr hc S = flat hr hc (fun i a j b => T i a j b + S i a j b).
Proof. by apply/matrixP => r c; rewrite !mxE. Qed.

Lemma flat_id m p M (h : pairing m p M) :
  flat h h (fun i a j b => ((i == j) && (a == b))%:R) = 1%:M.
Proof.
by apply/matrixP => r c; rewrite !mxE pr_of_eq.
Qed.

(* ---- Kronecker product *)
Definition kron m p n q M N (hr : pairing m p M) (hc : pairing n q N) (A : 'M[R]_(m, n)) (B : 'M[R]_(p, q)) :=
  flat hr hc (fun i a j b => A i j * B a b).

Lemma kronE m p n q M N (hr : pairing m p M) (hc : pairing n q N) (A : 'M[R]_(m, n)) (B : 'M[R]_(p, q)) i a j b :
  kron hr hc A B (pr_to hr (i, a)) (pr_to hc (j, b)) = A i j * B a b.
Proof. exact: flatE. Qed.

(* the mixed-product law  (A (x) B) (C (x) D) = (A C) (x) (B D) *)
Theorem kron_mul m p n q k l M N K (hr : pairing m p M) (hc : pairing n q N) (hk : pairing k l K)
      (A : 'M[R]_(m, n)) (B : 'M[R]_(p, q)) (C : 'M[R]_(n, k)) (D : 'M[R]_(q, l)) :
  kron hr hc A B *m kron hc hk C D = kron hr hk (A *m C) (B *m D).
Proof.
rewrite /kron flat_mul; apply: flat_ext => i a j b; rewrite /tcomp !mxE.
rewrite big_distrlr /=; apply: eq_bigr => x _; apply: eq_bigr => y _.
by rewrite mulrACA.
Qed.

Lemma kron_tr m p n q M N (hr : pairing m p M) (hc : pairing n q N) (A : 'M[R]_(m, n)) (B : 'M[R]_(p, q)) :
  (kron hr hc A B)^T = kron hc hr A^T B^T.
Proof. by rewrite /kron flat_tr; apply: flat_ext => j b i a; rewrite !mxE. Qed.

Lemma kron_1 m p M (h : pairing m p M) : kron h h 1%:M 1%:M = 1%:M.
Proof.
rewrite -(flat_id h); apply: flat_ext => i a j b; rewrite !mxE.
by case: (i == j); case: (a == b); rewrite ?mulr1 ?mulr0 ?mul0r.
Qed.

Lemma kron_scale m p n q M N (hr : pairing m p M) (hc : pairing n q N) (A : 'M[R]_(m, n)) (B : 'M[R]_(p, q)) x y :
  kron hr hc (x *: A) (y *: B) = (x * y) *: kron hr hc A B.
Proof. by rewrite /kron flat_scale; apply: flat_ext => i a j b; rewrite !mxE mulrACA. Qed.

(* Kronecker product of row vectors (the eigenvalues / singular values of a Kronecker product) *)
Definition rkron m p M (h : pairing m p M) (d : 'rV[R]_m) (e : 'rV[R]_p) : 'rV[R]_M :=
  \row_r (d 0 (pr_of h r).1 * e 0 (pr_of h r).2).

Lemma kron_diag m p M (h : pairing m p M) (d : 'rV[R]_m) (e : 'rV[R]_p) :
  kron h h (diag_mx d) (diag_mx e) = diag_mx (rkron h d e).
Proof.
apply/matrixP => r c; rewrite !mxE.
rewrite -(pr_of_eq h r c).
case E1: (_ == _); case E2: (_ == _); rewrite /= ?mulr1n ?mulr0n ?mulr0 ?mul0r //.
Qed.

(* ---- corollaries: roots, eigendecompositions, SVDs of Kronecker products *)
Section KronCorollaries.
Variables (m p M : nat) (h : pairing m p M).
Variables (A1 : 'M[R]_m) (A2 : 'M[R]_p).

(* KroneckerProductLinearOperator.root_decomposition: Kronecker product of the factors' roots
   (k1, k2 = inner sizes of the roots; any pairing on the inner side) *)
Theorem kron_root_valid k1 k2 K (hk : pairing k1 k2 K) (R1 : 'M[R]_(m, k1)) (R2 : 'M[R]_(p, k2)) :
  R1 *m R1^T = A1 -> R2 *m R2^T = A2 ->
  kron h hk R1 R2 *m (kron h hk R1 R2)^T = kron h h A1 A2.
Proof. by move=> <- <-; rewrite kron_tr kron_mul. Qed.

(* ... and of the factors' inverse roots *)
Theorem kron_root_inv_valid k1 k2 K (hk : pairing k1 k2 K) (R1 : 'M[R]_(m, k1)) (R2 : 'M[R]_(p, k2)) :
  A1 *m (R1 *m R1^T) = 1%:M -> A2 *m (R2 *m R2^T) = 1%:M ->
  kron h h A1 A2 *m (kron h hk R1 R2 *m (kron h hk R1 R2)^T) = 1%:M.
Proof. by move=> H1 H2; rewrite kron_tr !kron_mul H1 H2 kron_1. Qed.

(* KroneckerProductLinearOperator._symeig: Kronecker products of eigenvectors / eigenvalues *)
Theorem kron_symeig_valid (Q1 : 'M[R]_m) (Q2 : 'M[R]_p) (w1 : 'rV[R]_m) (w2 : 'rV[R]_p) :
  Q1^T *m Q1 = 1%:M -> Q2^T *m Q2 = 1%:M ->
  Q1 *m diag_mx w1 *m Q1^T = A1 -> Q2 *m diag_mx w2 *m Q2^T = A2 ->
  let Q := kron h h Q1 Q2 in
  Q^T *m Q = 1%:M /\ Q *m diag_mx (rkron h w1 w2) *m Q^T = kron h h A1 A2.
Proof.
move=> O1 O2 <- <- /=; split; first by rewrite kron_tr kron_mul O1 O2 kron_1.
by rewrite -kron_diag kron_tr !kron_mul.
Qed.

(* KroneckerProductLinearOperator._svd *)
Theorem kron_svd_valid (U1 V1 : 'M[R]_m) (U2 V2 : 'M[R]_p) (s1 : 'rV[R]_m) (s2 : 'rV[R]_p) :
  U1^T *m U1 = 1%:M -> U2^T *m U2 = 1%:M -> V1^T *m V1 = 1%:M -> V2^T *m V2 = 1%:M ->
  U1 *m diag_mx s1 *m V1^T = A1 -> U2 *m diag_mx s2 *m V2^T = A2 ->
  let U := kron h h U1 U2 in let V := kron h h V1 V2 in
  [/\ U^T *m U = 1%:M, V^T *m V = 1%:M & U *m diag_mx (rkron h s1 s2) *m V^T = kron h h A1 A2].
Proof.
move=> OU1 OU2 OV1 OV2 <- <- /=; split.
- by rewrite kron_tr kron_mul OU1 OU2 kron_1.
- by rewrite kron_tr kron_mul OV1 OV2 kron_1.
- by rewrite -kron_diag kron_tr !kron_mul.
Qed.

End KronCorollaries.

(* ---- block-diagonal layouts: blocks X_i placed at ((i,a),(i,b)) *)
Definition blockd k m n M N (hr : pairing k m M) (hc : pairing k n N) (X : 'I_k -> 'M[R]_(m, n)) : 'M[R]_(M, N) :=
  flat hr hc (fun i a j b => (X i a b) *+ (i == j)).

Theorem blockd_mul k m n q M N K (hr : pairing k m M) (hc : pairing k n N) (hk : pairing k q K)
      (X : 'I_k -> 'M[R]_(m, n)) (Y : 'I_k -> 'M[R]_(n, q)) :
  blockd hr hc X *m blockd hc hk Y = blockd hr hk (fun i => X i *m Y i).
Proof.
rewrite /blockd flat_mul; apply: flat_ext => i a j b; rewrite /tcomp.
rewrite (bigD1 i) //= [X in _ + X]big1 ?addr0; last first.
  by move=> x xi; apply: big1 => y _; rewrite eq_sym (negbTE xi) mulr0n mul0r.
rewrite eqxx mxE; case: (i == j); rewrite ?mulr1n ?mulr0n.
- by apply: eq_bigr => y _; rewrite !mulr1n.
- by apply: big1 => y _; rewrite mulr0n mulr0.
Qed.

Lemma blockd_tr k m n M N (hr : pairing k m M) (hc : pairing k n N) (X : 'I_k -> 'M[R]_(m, n)) :
  (blockd hr hc X)^T = blockd hc hr (fun i => (X i)^T).
Proof.
rewrite /blockd flat_tr; apply: flat_ext => j b i a; rewrite !mxE eq_sym.
by case E: (j == i) => //; rewrite (eqP E).
Qed.

Lemma blockd_1 k m M (h : pairing k m M) : blockd h h (fun _ => 1%:M) = 1%:M.
Proof.
rewrite -(flat_id h); apply: flat_ext => i a j b; rewrite !mxE.
by case: (i == j); case: (a == b); rewrite ?mulr1n ?mulr0n.
Qed.

Definition rblock k m M (h : pairing k m M) (d : 'I_k -> 'rV[R]_m) : 'rV[R]_M :=
  \row_r (d (pr_of h r).1 0 (pr_of h r).2).

Lemma blockd_diag k m M (h : pairing k m M) (d : 'I_k -> 'rV[R]_m) :
  blockd h h (fun i => diag_mx (d i)) = diag_mx (rblock h d).
Proof.
apply/matrixP => r c; rewrite !mxE.
rewrite -(pr_of_eq h r c).
by case E1: (_ == _); case E2: (_ == _); rewrite /= ?mulr1n ?mulr0n.
Qed.

Section BlockCorollaries.
Variables (k m M : nat) (h : pairing k m M).
Variable A : 'I_k -> 'M[R]_m.

(* BlockDiag / BlockInterleaved _root_decomposition, _cholesky: the layout of the blocks' roots *)
Theorem blockd_root_valid q K (hk : pairing k q K) (Rt : 'I_k -> 'M[R]_(m, q)) :
  (forall i, Rt i *m (Rt i)^T = A i) ->
  blockd h hk Rt *m (blockd h hk Rt)^T = blockd h h A.
Proof.
move=> H; rewrite blockd_tr blockd_mul; apply: flat_ext => i a j b.
by rewrite H.
Qed.

Theorem blockd_root_inv_valid q K (hk : pairing k q K) (Rt : 'I_k -> 'M[R]_(m, q)) :
  (forall i, A i *m (Rt i *m (Rt i)^T) = 1%:M) ->
  blockd h h A *m (blockd h hk Rt *m (blockd h hk Rt)^T) = 1%:M.
Proof.
move=> H; rewrite blockd_tr !blockd_mul -(blockd_1 h); apply: flat_ext => i a j b.
by rewrite H.
Qed.

(* BlockDiag._symeig / _svd *)
Theorem blockd_symeig_valid (Q : 'I_k -> 'M[R]_m) (w : 'I_k -> 'rV[R]_m) :
  (forall i, (Q i)^T *m Q i = 1%:M) -> (forall i, Q i *m diag_mx (w i) *m (Q i)^T = A i) ->
  let QQ := blockd h h Q in
  QQ^T *m QQ = 1%:M /\ QQ *m diag_mx (rblock h w) *m QQ^T = blockd h h A.
Proof.
move=> HO HD /=; split.
- rewrite blockd_tr blockd_mul -(blockd_1 h); apply: flat_ext => i a j b; by rewrite HO.
- rewrite -blockd_diag blockd_tr !blockd_mul; apply: flat_ext => i a j b; by rewrite HD.
Qed.

Theorem blockd_svd_valid (U V : 'I_k -> 'M[R]_m) (s : 'I_k -> 'rV[R]_m) :
  (forall i, (U i)^T *m U i = 1%:M) -> (forall i, (V i)^T *m V i = 1%:M) ->
  (forall i, U i *m diag_mx (s i) *m (V i)^T = A i) ->
  let UU := blockd h h U in let VV := blockd h h V in
  [/\ UU^T *m UU = 1%:M, VV^T *m VV = 1%:M & UU *m diag_mx (rblock h s) *m VV^T = blockd h h A].
Proof.
move=> HU HV HD /=; split.
- rewrite blockd_tr blockd_mul -(blockd_1 h); apply: flat_ext => i a j b; by rewrite HU.
- rewrite blockd_tr blockd_mul -(blockd_1 h); apply: flat_ext => i a j b; by rewrite HV.
- rewrite -blockd_diag blockd_tr !blockd_mul; apply: flat_ext => i a j b; by rewrite HD.
Qed.

End BlockCorollaries.

End Flat.

(* ------------------------------------------------------------------ triangularity is preserved by the concrete layouts *)
Section Triangular.
Variable R : comRingType.

(* Kronecker product of lower-triangular factors, block-major layout: lower triangular
   (KroneckerProductLinearOperator._cholesky returns a KroneckerProductTriangularLinearOperator) *)
Theorem kron_trig m p (L1 : 'M[R]_m) (L2 : 'M[R]_p) :
  is_trig_mx L1 -> is_trig_mx L2 -> is_trig_mx (kron (major m p) (major m p) L1 L2).
Proof.
move=> /is_trig_mxP T1 /is_trig_mxP T2; apply/is_trig_mxP => r c rc; rewrite !mxE /=.
set i := Ordinal (div_lt r); set j := Ordinal (div_lt c).
set a := Ordinal (mod_lt r); set b := Ordinal (mod_lt c).
case: (ltnP i j) => [ij|ji]; first by rewrite T1 ?mul0r.
case: (ltnP a b) => [ab|ba]; first by rewrite T2 ?mulr0.
move: rc; rewrite (divn_eq r p) (divn_eq c p) ltnNge => /negP; case.
have pp := pos_of r.
by rewrite (@leq_trans (c %/ p * p + r %% p)%N) ?leq_add2l ?leq_add2r ?leq_mul2r ?ji ?orbT.
Qed.

(* block-diagonal layout of lower-triangular blocks, block-major (BlockDiag) *)
Theorem blockd_major_trig k m (L : 'I_k -> 'M[R]_m) :
  (forall i, is_trig_mx (L i)) -> is_trig_mx (blockd (major k m) (major k m) L).
Proof.
move=> T; apply/is_trig_mxP => r c rc; rewrite !mxE /=.
set i := Ordinal (div_lt r); set j := Ordinal (div_lt c).
set a := Ordinal (mod_lt r); set b := Ordinal (mod_lt c).
case E: (i == j); rewrite ?mulr0n // mulr1n.
have/is_trig_mxP -> // := T i.
move: rc; rewrite (divn_eq r m) (divn_eq c m).
have -> : (c %/ m = r %/ m)%N by move/eqP: E => /(congr1 val) /= ->.
by rewrite ltn_add2l.
Qed.

(* ... block-minor (BlockInterleaved) *)
Theorem blockd_minor_trig k m (L : 'I_k -> 'M[R]_m) :
  (forall i, is_trig_mx (L i)) -> is_trig_mx (blockd (minor k m) (minor k m) L).
Proof.
move=> T; apply/is_trig_mxP => r c rc; rewrite !mxE /=.
set i := Ordinal (minor_mod_lt r); set j := Ordinal (minor_mod_lt c).
set a := Ordinal (minor_div_lt r); set b := Ordinal (minor_div_lt c).
case E: (i == j); rewrite ?mulr0n // mulr1n.
have/is_trig_mxP -> // := T i.
move: rc; rewrite (divn_eq r k) (divn_eq c k).
have -> : (c %% k = r %% k)%N by move/eqP: E => /(congr1 val) /= ->.
by rewrite ltn_add2r ltn_mul2r => /andP[].
Qed.

End Triangular.
