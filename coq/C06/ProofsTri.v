(* C06 — torch.linalg.solve_triangular(L, I, upper=False) as executed by the model (forward substitution,
   Model.lower_inverse) really inverts a lower-triangular matrix with non-zero diagonal: L * lower_inverse L = I.
   ALL sizes; real closed field (only field laws are used). *)
From Coq Require Import PeanoNat List.
From mathcomp Require Import all_ssreflect all_algebra zify.
Require Import C16.Model C16.ProofsClosed.
Require Import C06.Model C06.BaseLemmas C06.ProofsAlg C06.Bridge.
Set Implicit Arguments. Unset Strict Implicit. Unset Printing Implicit Defensive.
Import Order.Theory GRing.Theory Num.Theory.
Local Open Scope ring_scope.

Section Tri.
Variable R : rcfType.
Notation T := (carrier R).
Notation arR := (ArRcf R).

Lemma vnth_app_l (a b : list T) l : (l < length a)%coq_nat -> vnth arR (a ++ b) l = vnth arR a l.
Proof. by move=> H; rewrite /vnth List.app_nth1. Qed.

Lemma vnth_app_last (a : list T) (x : T) : vnth arR (a ++ [:: x]) (length a) = x.
Proof. by rewrite /vnth List.app_nth2 // Nat.sub_diag. Qed.

Lemma sum_to_ext k (f g : nat -> T) : (forall l, (l < k)%coq_nat -> f l = g l) -> sum_to arR k f = sum_to arR k g.
Proof.
elim: k => [|k IH] //= H.
rewrite IH; last by move=> l Hl; apply: H; lia.
by rewrite H //; lia.
Qed.

Section Col.
Variables (n : nat) (L : matrix T) (b : nat -> T).
Hypothesis Ldiag : forall i, (i < n)%coq_nat -> (ent arR L i i : R) != 0.

Definition row_eq (x : list T) (i : nat) : Prop :=
  (sum_to arR i (fun l => ent arR L i l * vnth arR x l : R) + (ent arR L i i : R) * vnth arR x i = (b i : R)).

Lemma fwd_col_spec fuel : forall i acc,
  (i + fuel = n)%coq_nat -> length acc = i -> (forall i', (i' < i)%coq_nat -> row_eq acc i') ->
  let r := fwd_col arR n L b i acc fuel in
  length r = n /\ forall i', (i' < n)%coq_nat -> row_eq r i'.
Proof.
elim: fuel => [|fuel IH] i acc Hn Hl Hacc /=.
  split; first by lia.
  by move=> i' Hi'; apply: Hacc; lia.
set x : T := _ / _.
apply: IH; first by lia.
- by rewrite List.app_length /= Hl; lia.
- move=> i' Hi'; rewrite /row_eq.
  have [Hlt|Heq] : (i' < i)%coq_nat \/ i' = i by lia.
  + rewrite vnth_app_l ?Hl // (sum_to_ext (g := fun l => ent arR L i' l * vnth arR acc l : R)).
      exact: Hacc.
    by move=> l Hll; rewrite vnth_app_l // Hl; lia.
  + subst i'; have -> : vnth arR (acc ++ [:: x]) i = x by rewrite -Hl vnth_app_last.
    rewrite (sum_to_ext (g := fun l => ent arR L i l * vnth arR acc l : R)); last first.
      by move=> l Hll; rewrite vnth_app_l // Hl.
    rewrite /x /=; set s : R := sum_to _ _ _.
    have d0 := Ldiag (i := i); rewrite mulrC divfK ?d0 ?subrK //; first by rewrite addrC subrK.
    by lia.
Qed.
End Col.

(* L * X = I for X = lower_inverse n L, L lower triangular with non-zero diagonal *)
Theorem lower_inverse_ok n (L : matrix T) :
  is_trig_mx (@mx_of R n n L) -> (forall i : 'I_n, @mx_of R n n L i i != 0) ->
  @mx_of R n n L *m @mx_of R n n (lower_inverse arR n L) = 1%:M.
Proof.
move=> /is_trig_mxP Ltri Ld.
have Ldiag : forall i, (i < n)%coq_nat -> (ent arR L i i : R) != 0.
  by move=> i /ssrnat.ltP Hi; have := Ld (Ordinal Hi); rewrite mxE.
rewrite /lower_inverse mx_of_tab; apply/matrixP => i j; rewrite !mxE.
set cols := List.map _ _.
have Hc : List.nth j cols [::] = fwd_col arR n L (fun i0 => if Nat.eqb i0 j then a1 arR else a0 arR) 0 [::] n.
  by rewrite /cols nth_map_seq //; exact: ltP'.
have [Hlen Hrow] := @fwd_col_spec n L (fun i0 => if Nat.eqb i0 j then a1 arR else a0 arR) Ldiag n 0%N [::]
                      (erefl _) (erefl _) (fun i' (H : (i' < 0)%coq_nat) => match Nat.nlt_0_r _ H with end).
have := Hrow i (ltP' i); rewrite /row_eq eqbE -Hc => Hi.
have -> : \sum_j0 @mx_of R n n L i j0 * (\matrix_(i0, j1) (vnth arR (List.nth j1 cols [::]) i0 : R)) j0 j
        = \sum_(l < n) (ent arR L i l : R) * vnth arR (List.nth j cols [::]) l.
  by apply: eq_bigr => l _; rewrite !mxE.
have -> : ((i == j)%:R : R) = (if (i : nat) == j then a1 arR else a0 arR).
  by rewrite -(inj_eq val_inj) /=; case: (_ == _).
rewrite -Hi sum_to_big.
rewrite (bigID (fun l : 'I_n => (l <= i)%N)) /= [X in _ + X]big1 ?addr0; last first.
  move=> l; rewrite -ltnNge => il; have := Ltri i l il; rewrite mxE => ->; by rewrite mul0r.
rewrite (bigD1 i) //= addrC; congr (_ + _).
rewrite [RHS](big_ord_widen n (fun l => (ent arR L i l : R) * vnth arR (List.nth j cols [::]) l)); last exact: ltnW.
by apply: eq_bigl => l; rewrite ltn_neqAle andbC -(inj_eq val_inj).
Qed.

End Tri.
