(* C12 — the symbolic instance of the kernels of Model.v.

   A value is a tag saying WHAT it is (kind, role), FOR WHICH matrix it was computed, whether its content
   is right for that matrix (sv_ok), how it is LABELLED (Triangular / upper) and whether the label is
   honest, and from which computation it stems (family: two factors L, M of one matrix satisfy
   L M^T = I only when they stem from the same factorization).  With these tags the model predicts, for
   every answer of a history, whether it is valid — including the cells where the pinned code is
   defective — and the predicted cache contents.  [sym_valid] is the decidable [valid] of this instance.
   Assumed (and arranged by the harness): every object denotes a positive definite matrix, so no
   factorization raises. *)
From Coq Require Import List String Bool Arith ZArith.
Import ListNotations.
Require Import C12.MemoBase C12.Model.

Inductive smat :=
| SBase (k : nat)
| SAddDiag (m : smat) (d : nat)
| SAddLR (m : smat) (B : nat)
| SCat (m : smat) (B D : nat)
| SGet (m : smat) (ix : nat)
| STr (m : smat)
| SScale (m : smat) (c : nat)
| SExpand (m : smat) (b : nat).

Fixpoint smat_eqb (a b : smat) : bool :=
  match a, b with
  | SBase k, SBase k' => Nat.eqb k k'
  | SAddDiag m d, SAddDiag m' d' => smat_eqb m m' && Nat.eqb d d'
  | SAddLR m d, SAddLR m' d' => smat_eqb m m' && Nat.eqb d d'
  | SCat m x y, SCat m' x' y' => smat_eqb m m' && Nat.eqb x x' && Nat.eqb y y'
  | SGet m d, SGet m' d' => smat_eqb m m' && Nat.eqb d d'
  | STr m, STr m' => smat_eqb m m'
  | SScale m d, SScale m' d' => smat_eqb m m' && Nat.eqb d d'
  | SExpand m d, SExpand m' d' => smat_eqb m m' && Nat.eqb d d'
  | _, _ => false
  end.

(* R R^T = A | R^T R = A | R R^T = A^-1 | R^T R = A^-1 *)
Inductive role := RRoot | RRootT | RInv | RInvT.
Definition role_eqb (a b : role) : bool :=
  match a, b with RRoot, RRoot | RRootT, RRootT | RInv, RInv | RInvT, RInvT => true | _, _ => false end.
Definition role_T (r : role) : role :=
  match r with RRoot => RRootT | RRootT => RRoot | RInv => RInvT | RInvT => RInv end.

Inductive fam :=
| FChol | FEig | FSvd | FPiv | F1x1
| FLanczos (run : nat)        (* the (root, inverse root) pair of ONE Lanczos run *)
| FLanczosRoot (run : nat)    (* a root from a run of its own *)
| FDiagzL (run : nat)         (* Lanczos diagonalization *)
| FTrans (id : nat)           (* a transplanted (root, inverse root) pair *)
| FKron (l : list fam)        (* Kronecker product of factors from these families *)
| FNone.
Fixpoint fam_eqb (a b : fam) : bool :=
  match a, b with
  | FChol, FChol | FEig, FEig | FSvd, FSvd | FPiv, FPiv | F1x1, F1x1 | FNone, FNone => true
  | FLanczos r, FLanczos r' | FLanczosRoot r, FLanczosRoot r' | FDiagzL r, FDiagzL r' | FTrans r, FTrans r' => Nat.eqb r r'
  | FKron l, FKron l' =>
      (fix go (l l' : list fam) : bool :=
         match l, l' with [], [] => true | x :: r, y :: s => fam_eqb x y && go r s | _, _ => false end) l l'
  | _, _ => false
  end.
(* L M^T = I : same factorization (the eigenvector matrix of _svd is that of _symeig); a Kronecker product of
   factors is compatible with one of inverse factors when the factors are, pairwise *)
Fixpoint fam_compat (a b : fam) : bool :=
  match a, b with
  | FKron l, FKron l' =>
      (fix go (l l' : list fam) : bool :=
         match l, l' with [], [] => true | x :: r, y :: s => fam_compat x y && go r s | _, _ => false end) l l'
  | FKron _, _ | _, FKron _ => false
  | FPiv, _ | _, FPiv | FLanczosRoot _, _ | _, FLanczosRoot _ | FNone, _ | _, FNone => false
  | (FEig | FSvd), (FEig | FSvd) => true
  | _, _ => fam_eqb a b
  end.

Inductive skind :=
| KDense | KFactor (r : role) | KRootOp (r : role) | KEig (vecs : bool) | KEvals | KSvd
| KSolve (rhs : nat) | KIqld (rhs : option nat) (ld : bool) | KScalar | KDiagonal | KPrecond (rank : nat) | KNoPrecond
| KSample (z : nat).
Definition onat_eqb (a b : option nat) : bool :=
  match a, b with None, None => true | Some x, Some y => Nat.eqb x y | _, _ => false end.
Definition skind_eqb (a b : skind) : bool :=
  match a, b with
  | KDense, KDense | KEvals, KEvals | KSvd, KSvd | KScalar, KScalar | KDiagonal, KDiagonal | KNoPrecond, KNoPrecond => true
  | KFactor r, KFactor r' | KRootOp r, KRootOp r' => role_eqb r r'
  | KEig v, KEig v' => Bool.eqb v v'
  | KSolve r, KSolve r' | KSample r, KSample r' | KPrecond r, KPrecond r' => Nat.eqb r r'
  | KIqld r l, KIqld r' l' => onat_eqb r r' && Bool.eqb l l'
  | _, _ => false
  end.

Record sval := {
  sv_kind : skind;
  sv_of : smat;        (* the matrix it was computed for *)
  sv_ok : bool;        (* content correct for sv_of *)
  sv_tri : bool;       (* wrapped in / is a TriangularLinearOperator *)
  sv_upper : bool;     (* its `upper` flag *)
  sv_tri_ok : bool;    (* the content really is triangular with that orientation *)
  sv_fam : fam;
  sv_inst : bool       (* isinstance(x, TriangularLinearOperator): false for the KroneckerProductTriangularLinearOperator
                          factor of a Kronecker product although it is triangular and carries an `upper` flag *)
}.
Definition mkv8 k m ok tri up triok f inst : sval :=
  {| sv_kind := k; sv_of := m; sv_ok := ok; sv_tri := tri; sv_upper := up; sv_tri_ok := triok; sv_fam := f; sv_inst := inst |}.
Definition mkv k m ok tri up triok f : sval := mkv8 k m ok tri up triok f tri.
Definition plainv k m ok f := mkv k m ok false false true f.
Definition with_kind (v : sval) (k : skind) : sval :=
  mkv8 k (sv_of v) (sv_ok v) (sv_tri v) (sv_upper v) (sv_tri_ok v) (sv_fam v) (sv_inst v).
Definition with_ok (v : sval) (b : bool) : sval :=
  mkv8 (sv_kind v) (sv_of v) b (sv_tri v) (sv_upper v) (sv_tri_ok v) (sv_fam v) (sv_inst v).
Definition label_ok (v : sval) : bool := negb (sv_tri v) || sv_tri_ok v.

Definition is_factor (v : sval) (r : role) : bool :=
  match sv_kind v with KFactor r' => role_eqb r r' | _ => false end.
Definition is_rootop (v : sval) (r : role) : bool :=
  match sv_kind v with KRootOp r' => role_eqb r r' | _ => false end.
Definition is_eig (v : sval) : bool := match sv_kind v with KEig true => true | _ => false end.
Definition is_kind (v : sval) (k : skind) : bool := skind_eqb (sv_kind v) k.

(* L M^T = I for two factors of the same matrix *)
Definition compat (L Mi : sval) : bool :=
  smat_eqb (sv_of L) (sv_of Mi) && fam_compat (sv_fam L) (sv_fam Mi).

Definition sym_root (v : sval) : sval :=
  match sv_kind v with KRootOp r => with_kind v (KFactor r) | _ => with_ok v false end.

(* a triangular solve / triangular inverse only reads the labelled triangle: garbage when the label lies *)
Definition tri_use_ok (v : sval) : bool := sv_ok v && label_ok v.

Definition shifted_of (A c : smat) : bool := match A with SAddDiag m _ => smat_eqb m c | _ => false end.
Definition scaled_of (A c : smat) : bool := match A with SScale m _ => smat_eqb m c | _ => false end.

Definition all_b (f : sval -> bool) (vs : list sval) : bool := forallb f vs.
Definition iqld_rhs (v : sval) : option nat := match sv_kind v with KIqld r _ => r | _ => None end.

Definition sym_kern : kern := {|
  Mat := smat; Val := sval;
  v_is_tri := fun v => sv_inst v && sv_tri v;
  v_tri_upper := sv_upper;
  v_root := sym_root;
  m_add_diag := SAddDiag; m_add_low_rank := SAddLR; m_cat_rows := SCat; m_getitem := SGet;
  m_transpose := STr; m_scale := SScale; m_expand := SExpand;
  k_dense := fun A => plainv KDense A true FNone;
  k_chol := fun A up => Ok (mkv (KFactor (if up then RRootT else RRoot)) A true true up true FChol);
  k_tri_T := fun v => match sv_kind v with
                      | KFactor r => mkv8 (KFactor (role_T r)) (sv_of v) (sv_ok v) (sv_tri v) (negb (sv_upper v)) (sv_tri_ok v) (sv_fam v) (sv_inst v)
                      | _ => with_ok v false end;
  k_symeig := fun A vecs => plainv (KEig vecs) A true FEig;
  k_eig_shift := fun A e => mkv (sv_kind e) A (sv_ok e) false false true (sv_fam e);
  k_svd_of_eig := fun e => plainv KSvd (sv_of e) (sv_ok e && is_eig e) FSvd;
  k_svd_shift := fun A u => mkv (sv_kind u) A (sv_ok u) false false true (sv_fam u);
  k_diagz_lanczos := fun A n r => Ok (plainv (KEig true) A true (FDiagzL r));
  k_cholop := fun c => mkv8 (KRootOp RRoot) (sv_of c) (sv_ok c && is_factor c RRoot) (sv_tri c) (sv_upper c) (sv_tri_ok c) (sv_fam c) (sv_inst c);
  k_root_eig := fun e => plainv (KRootOp RRoot) (sv_of e) (sv_ok e && is_eig e) (sv_fam e);
  k_root_svd := fun u => plainv (KRootOp RRoot) (sv_of u) (sv_ok u && is_kind u KSvd) (sv_fam u);
  k_root_pivchol := fun A => plainv (KRootOp RRoot) A true FPiv;
  k_root_lanczos := fun A r => plainv (KRootOp RRoot) A true (FLanczosRoot r);
  k_root_1x1 := fun d => plainv (KRootOp RRoot) (sv_of d) (sv_ok d && is_kind d KDense) F1x1;
  k_root_scale := fun A r => mkv (KRootOp RRoot) A (sv_ok r && is_rootop r RRoot && label_ok r) false false true (sv_fam r);
  k_rootinv_chol := fun L => mkv (KRootOp RInv) (sv_of L) (tri_use_ok L && is_factor L RRoot && negb (sv_upper L) && sv_tri L)
                                 true true true (sv_fam L);
  k_rootinv_lanczos := fun A r => (plainv (KFactor RInv) A true (FLanczos r), plainv (KRootOp RRoot) A true (FLanczos r));
  k_wrap_root := fun x => match sv_kind x with KFactor r => with_kind x (KRootOp r) | _ => with_ok x false end;
  k_rootinv_eig := fun e => plainv (KRootOp RInv) (sv_of e) (sv_ok e && is_eig e) (sv_fam e);
  k_rootinv_svd := fun u => plainv (KRootOp RInv) (sv_of u) (sv_ok u && is_kind u KSvd) (sv_fam u);
  k_rootinv_pinv := fun R => plainv (KRootOp RInv) (sv_of R) (sv_ok R && is_factor R RRoot) (sv_fam R);
  k_rootinv_1x1 := fun d => plainv (KRootOp RInv) (sv_of d) (sv_ok d && is_kind d KDense) F1x1;
  k_eig_drop := fun e => with_kind e (KEig false);
  k_evals := fun e => match sv_kind e with KEig _ => with_kind e KEvals | _ => with_ok e false end;
  k_solve := fun A _ rhs => Ok (plainv (KSolve rhs) A true FNone);
  k_iqld_chol := fun t rhs ld => plainv (KIqld rhs ld) (sv_of t)
                                   (tri_use_ok t && (is_factor t RRoot && negb (sv_upper t) || is_factor t RRootT && sv_upper t)) FNone;
  k_iqld_cg := fun A p rhs ld => plainv (KIqld rhs ld) A (sv_ok p) FNone;
  k_snd := fun v => match sv_kind v with KIqld _ true => with_kind v KScalar | _ => with_ok v false end;
  k_diagonal := fun A => plainv KDiagonal A true FNone;
  k_no_precond := fun A => plainv KNoPrecond A true FNone;
  k_precond := fun A r => plainv (KPrecond r) A true FNone;
  k_sample_root := fun R z => plainv (KSample z) (sv_of R) (sv_ok R && is_factor R RRoot) FNone;
  k_sample_ciq := fun A z => plainv (KSample z) A true FNone;
  k_sample_1x1 := fun d z => plainv (KSample z) (sv_of d) (sv_ok d && is_kind d KDense) FNone;
  (* add_low_rank: new root L U S~ needs L M^T = I; new inverse root M U S~^-1 only needs M;
     return_triangular wraps BOTH (dense) products in TriangularLinearOperator *)
  k_lr_update := fun L Mi B tri =>
    let A' := SAddLR (sv_of L) B in
    let okL := sv_ok L && is_factor L RRoot in
    let okM := sv_ok Mi && is_factor Mi RInv && smat_eqb (sv_of L) (sv_of Mi) in
    (mkv (KRootOp RRoot) A' (okL && okM && compat L Mi) tri false (negb tri) (FTrans B),
     mkv (KRootOp RInv) A' okM tri false (negb tri) (FTrans B));
  (* cat_rows: Z = [E 0; F G], F = B R, G = chol root of D - F F^T (lower Triangular); needs E R^T = I *)
  k_cat_update := fun E R B D schur_tri geninv =>
    let A' := SCat (sv_of E) B D in
    let ok := sv_ok E && is_factor E RRoot && sv_ok R && is_factor R RInv && compat E R in
    if geninv then
      if sv_inst E && sv_tri E && schur_tri then
        if sv_upper E then Raise NotImplementedError
        else (* new_root = TriangularLinearOperator(new_root); new_inv_root = new_root.inverse().mT *)
          let nr := mkv (KRootOp RRoot) A' ok true false (sv_tri_ok E) (FTrans B) in
          Ok (nr, Some (mkv (KRootOp RInv) A' (ok && sv_tri_ok E) true true true (FTrans B)))
      else Ok (plainv (KRootOp RRoot) A' ok (FTrans B), Some (plainv (KRootOp RInv) A' ok (FTrans B)))
    else Ok (plainv (KRootOp RRoot) A' ok (FTrans B), None);
  (* Kronecker products: right when every factor's result is *)
  k_eig_kron := fun A vecs es => plainv (KEig vecs) A (all_b (fun e => sv_ok e && is_kind e (KEig vecs)) es) FEig;
  k_svd_kron := fun A us => plainv KSvd A (all_b (fun u => sv_ok u && is_kind u KSvd) us) FSvd;
  k_chol_kron := fun A cs up inst =>
    mkv8 (KFactor (if up then RRootT else RRoot)) A
         (all_b (fun c => sv_ok c && is_factor c (if up then RRootT else RRoot) && sv_tri c && Bool.eqb (sv_upper c) up && sv_tri_ok c) cs)
         true up true (FKron (map sv_fam cs)) inst;
  k_root_kron := fun A rs =>
    plainv (KRootOp RRoot) A (all_b (fun r => sv_ok r && is_rootop r RRoot && label_ok r && negb (sv_tri r && sv_upper r)) rs)
           (FKron (map sv_fam rs));
  k_rootinv_kron := fun A rs =>
    plainv (KRootOp RInv) A (all_b (fun r => sv_ok r && is_rootop r RInv && label_ok r) rs) (FKron (map sv_fam rs));
  k_iqld_kron := fun A iq e =>
    plainv (KIqld (match iq with Some x => iqld_rhs x | None => None end) (match e with Some _ => true | None => false end)) A
           ((match iq with
             | Some x => sv_ok x && smat_eqb (sv_of x) A && (match sv_kind x with KIqld (Some _) false => true | _ => false end)
             | None => true end) &&
            (match e with Some e' => sv_ok e' && smat_eqb (sv_of e') A && is_eig e' | None => true end)) FNone;
  (* delegating classes: right when the base operator's result is *)
  k_deleg_lift := fun A x => mkv8 (KFactor RInv) A (sv_ok x && is_factor x RInv && label_ok x) false false true (sv_fam x) false;
  k_iqld_deleg := fun A r => plainv (sv_kind r) A (sv_ok r && match sv_kind r with KIqld _ _ => true | _ => false end) FNone;
  k_sample_deleg := fun A v => plainv (sv_kind v) A (sv_ok v && match sv_kind v with KSample _ => true | _ => false end) FNone
|}.

(* validity of an answer / a cache entry in the symbolic instance *)
Definition sym_valid (a : aspect) (A : smat) (v : sval) : bool :=
  sv_ok v && smat_eqb (sv_of v) A &&
  match a with
  | ADense => is_kind v KDense
  | AChol up => is_factor v (if up then RRootT else RRoot) && sv_tri v && Bool.eqb (sv_upper v) up && sv_tri_ok v
  | ARoot => is_rootop v RRoot && label_ok v && negb (sv_tri v && sv_upper v)   (* a Triangular root is a LOWER factor *)
  | ARootInv => is_rootop v RInv && label_ok v
  | AFactor => is_factor v RRoot && label_ok v && negb (sv_tri v && sv_upper v)
  | AInvFactor => is_factor v RInv && label_ok v
  | AEig vecs => is_kind v (KEig vecs)
  | AEvals => is_kind v KEvals
  | ASvd => is_kind v KSvd
  | ASolve r => is_kind v (KSolve r)
  | AIqld r l => is_kind v (KIqld r l)
  | ALogdet => is_kind v KScalar
  | ADiagonal => is_kind v KDiagonal
  | APrecond => match sv_kind v with KPrecond _ | KNoPrecond => true | _ => false end
  | ASample z => is_kind v (KSample z)
  end.
