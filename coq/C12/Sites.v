(* C12 — checks over the two finite tables that harness/c12_memo_tr.py reads from linear_operator/operators/*.py on every
   run (gen/CacheSites.v): every @cached decorator, every add_to_cache call.  Definitions only; the obligations are in
   Property.v (finite tables regenerated from the source: closed by computation). *)
From Coq Require Import List String Bool Arith.
Import ListNotations.
Require Import C12.gen.CacheSites.
Open Scope string_scope.

Definition site := (string * string * string * bool * nat)%type.   (* class, method, cache name, ignore_args, #parameters *)

(* ignore_args=True on a method WITH arguments is sound only where Property.ignore_args_sound applies: _cholesky(upper) of
   the Diag family (the factor of a diagonal matrix is symmetric) *)
Definition ignore_args_proved : list (string * string) :=
  [("DiagLinearOperator", "_cholesky"); ("IdentityLinearOperator", "_cholesky")].
Definition pair_in (c m : string) (l : list (string * string)) : bool :=
  existsb (fun p => String.eqb (fst p) c && String.eqb (snd p) m) l.
Definition ignore_ok (s : site) : bool :=
  let '(c, m, _, ig, n) := s in negb ig || Nat.eqb n 0 || pair_in c m ignore_args_proved.

(* a cache name is the name of ONE method (of the protocol, overridden class by class): two decorators with the same name
   on methods of different names would make two different quantities share entries on objects of a common subclass *)
Definition names_ok (l : list site) : bool :=
  forallb (fun s => let '(_, m, nm, _, _) := s in
             String.eqb nm "" ||
             forallb (fun s' => let '(_, m', nm', _, _) := s' in negb (String.eqb nm nm') || String.eqb m m') l) l.

Definition hsite := (string * string * string * string)%type.       (* module, function, target, cache name *)
Definition hsite_eqb (a b : hsite) : bool :=
  let '(a1, a2, a3, a4) := a in let '(b1, b2, b3, b4) := b in
  String.eqb a1 b1 && String.eqb a2 b2 && String.eqb a3 b3 && String.eqb a4 b4.
(* the add_to_cache sites the model transcribes: the Lanczos by-product on self (Model.root_inv_base) and the two
   transplants onto the NEW operator (Model.deriv_finish) *)
Definition handover_modelled : list hsite :=
  [("_linear_operator", "_root_inv_decomposition", "self", "root_decomposition");
   ("_linear_operator", "add_low_rank", "new_linear_op", "root_decomposition");
   ("_linear_operator", "add_low_rank", "new_linear_op", "root_inv_decomposition");
   ("_linear_operator", "cat_rows", "new_linear_op", "root_decomposition");
   ("_linear_operator", "cat_rows", "new_linear_op", "root_inv_decomposition")].
Definition same_set (a b : list hsite) : bool :=
  forallb (fun x => existsb (hsite_eqb x) b) a && forallb (fun x => existsb (hsite_eqb x) a) b.
