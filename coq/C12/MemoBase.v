(* C12 — Python-side vocabulary for linear_operator/utils/memoize.py.
   Hand-written, independent of /repo.  gen/Memoize.v (REGENERATED from memoize.py on every run)
   is written in terms of the combinators below; MemoLaws.v proves the protocol laws about the
   generated functions.

   What is modelled by its meaning (trusted, see design_notes/C12.md):
     - a Python dict as an insertion-ordered association list with unique keys;
     - `hasattr/getattr/setattr` of the single attribute `_memoize_cache` as an option;
     - tuple / str equality of cache keys as structural equality of [key];
     - pickle.dumps(kwargs) as the ORDERED list of (keyword, value) pairs (injective, order-sensitive:
       pickle.dumps({'a':1,'b':2}) <> pickle.dumps({'b':2,'a':1}));
     - exceptions as an error monad with `try/except (E1, E2)` as [catch]. *)
From Coq Require Import List String Bool Arith ZArith Ascii.
Import ListNotations.

(* ------------------------------------------------------------------ names, argument values, keys *)

(* a cache name is a str, or — for a bare @cached — the decorated function object (identified by its
   qualified name; Python compares function objects by identity) *)
Inductive name := NStr (s : string) | NFun (s : string).

(* argument values as they can occur inside a key *)
Inductive pyv := PNone | PBool (b : bool) | PStr (s : string) | PInt (z : Z) | PTen (id : nat).

Definition kwargs := list (string * pyv).

(* keys of obj._memoize_cache:  a bare name (the ignore_args variants)  or  (name, args, pickle(kwargs)) *)
Inductive key := KName (n : name) | KFull (n : name) (args : list pyv) (kw : kwargs).

Definition name_eq_dec (a b : name) : {a = b} + {a <> b}.
Proof. decide equality; apply string_dec. Defined.
Definition pyv_eq_dec (a b : pyv) : {a = b} + {a <> b}.
Proof. decide equality; [apply bool_dec | apply string_dec | apply Z.eq_dec | apply Nat.eq_dec]. Defined.
Definition kwargs_eq_dec (a b : kwargs) : {a = b} + {a <> b}.
Proof. apply list_eq_dec. intros [s v] [s' v']. decide equality; [apply pyv_eq_dec | apply string_dec]. Defined.
Definition key_eq_dec (a b : key) : {a = b} + {a <> b}.
Proof.
  decide equality; [apply name_eq_dec | apply kwargs_eq_dec | apply (list_eq_dec pyv_eq_dec) | apply name_eq_dec].
Defined.

Definition name_eqb (a b : name) : bool := if name_eq_dec a b then true else false.
Definition key_eqb (a b : key) : bool := if key_eq_dec a b then true else false.

Lemma key_eqb_refl k : key_eqb k k = true.
Proof. unfold key_eqb. destruct (key_eq_dec k k); congruence. Qed.
Lemma key_eqb_eq a b : key_eqb a b = true <-> a = b.
Proof. unfold key_eqb. destruct (key_eq_dec a b); split; congruence. Qed.
Lemma key_eqb_neq a b : key_eqb a b = false <-> a <> b.
Proof. unfold key_eqb. destruct (key_eq_dec a b); split; congruence. Qed.
Lemma name_eqb_eq a b : name_eqb a b = true <-> a = b.
Proof. unfold name_eqb. destruct (name_eq_dec a b); split; congruence. Qed.

(* ------------------------------------------------------------------ dict *)
Section Dict.
Context {V : Type}.

Definition dict := list (key * V).

Fixpoint d_get (d : dict) (k : key) : option V :=
  match d with
  | [] => None
  | (k', v) :: r => if key_eqb k' k then Some v else d_get r k
  end.

Definition d_mem (d : dict) (k : key) : bool := match d_get d k with Some _ => true | None => false end.

(* d[k] = v : replaces in place, otherwise appends (insertion order) *)
Fixpoint d_set (d : dict) (k : key) (v : V) : dict :=
  match d with
  | [] => [(k, v)]
  | (k', v') :: r => if key_eqb k' k then (k', v) :: r else (k', v') :: d_set r k v
  end.

Fixpoint d_remove (d : dict) (k : key) : dict :=
  match d with
  | [] => []
  | (k', v') :: r => if key_eqb k' k then r else (k', v') :: d_remove r k
  end.

Definition d_keys (d : dict) : list key := map fst d.

Lemma d_get_set_eq d k v : d_get (d_set d k v) k = Some v.
Proof.
  induction d as [|[k' v'] r IH]; simpl.
  - now rewrite key_eqb_refl.
  - destruct (key_eqb k' k) eqn:E; simpl; rewrite E; auto.
Qed.

Lemma d_get_set_neq d k k' v : k <> k' -> d_get (d_set d k v) k' = d_get d k'.
Proof.
  intros Hn. induction d as [|[k0 v0] r IH]; simpl.
  - destruct (key_eqb k k') eqn:E; auto. apply key_eqb_eq in E. contradiction.
  - destruct (key_eqb k0 k) eqn:E; simpl.
    + apply key_eqb_eq in E; subst k0.
      destruct (key_eqb k k') eqn:E2; auto. apply key_eqb_eq in E2. contradiction.
    + destruct (key_eqb k0 k'); auto.
Qed.

Lemma d_get_set d k k' v : d_get (d_set d k v) k' = if key_eqb k k' then Some v else d_get d k'.
Proof.
  destruct (key_eqb k k') eqn:E.
  - apply key_eqb_eq in E; subst. apply d_get_set_eq.
  - apply key_eqb_neq in E. now apply d_get_set_neq.
Qed.

Lemma d_get_remove_neq d k k' : k <> k' -> d_get (d_remove d k) k' = d_get d k'.
Proof.
  intros Hn. induction d as [|[k0 v0] r IH]; simpl; auto.
  destruct (key_eqb k0 k) eqn:E; simpl.
  - apply key_eqb_eq in E; subst k0.
    destruct (key_eqb k k') eqn:E2; auto. apply key_eqb_eq in E2. contradiction.
  - destruct (key_eqb k0 k'); auto.
Qed.

(* an entry found after a removal was there before (also when keys are not unique) *)
Lemma d_get_remove_some d k k' v : d_get (d_remove d k) k' = Some v -> exists k2 v2, In (k2, v2) d /\ k2 = k' /\ v2 = v.
Proof.
  induction d as [|[k0 v0] r IH]; simpl; [discriminate|].
  destruct (key_eqb k0 k) eqn:E; simpl.
  - intros H. clear IH. induction r as [|[k1 v1] r IH2]; simpl in *; [discriminate|].
    destruct (key_eqb k1 k') eqn:E1.
    + apply key_eqb_eq in E1. inversion H; subst. exists k', v. auto.
    + destruct (IH2 H) as (k2 & v2 & [Hin|Hin] & ? & ?); subst.
      * inversion Hin; subst. exists k', v. auto.
      * exists k', v. auto.
  - destruct (key_eqb k0 k') eqn:E1.
    + apply key_eqb_eq in E1. intros H; inversion H; subst. exists k', v. auto.
    + intros H. destruct (IH H) as (k2 & v2 & Hin & ? & ?). exists k2, v2. auto.
Qed.

Lemma d_get_in d k v : d_get d k = Some v -> In (k, v) d.
Proof.
  induction d as [|[k0 v0] r IH]; simpl; [discriminate|].
  destruct (key_eqb k0 k) eqn:E.
  - apply key_eqb_eq in E; subst. intros H; inversion H; auto.
  - auto.
Qed.

Lemma d_keys_set d k v : d_keys (d_set d k v) = if d_mem d k then d_keys d else d_keys d ++ [k].
Proof.
  unfold d_mem. induction d as [|[k0 v0] r IH]; simpl; auto.
  destruct (key_eqb k0 k) eqn:E; simpl; auto.
  rewrite IH. destruct (d_get r k); auto.
Qed.

Lemma d_mem_keys d k : d_mem d k = true <-> In k (d_keys d).
Proof.
  unfold d_mem. induction d as [|[k0 v0] r IH]; simpl.
  - split; [discriminate | tauto].
  - destruct (key_eqb k0 k) eqn:E.
    + apply key_eqb_eq in E. split; auto.
    + apply key_eqb_neq in E. rewrite IH. split; [auto | intros [H|H]; [contradiction | auto]].
Qed.

End Dict.
Arguments dict V : clear implicits.

(* ------------------------------------------------------------------ exceptions, state-and-error monad *)

Inductive exn := CachingError | KeyError | AttributeError | TypeError | IndexError | RuntimeError | NotImplementedError | ValueError.
Definition exn_eq_dec (a b : exn) : {a = b} + {a <> b}.
Proof. decide equality. Defined.
Definition exn_in (e : exn) (l : list exn) : bool := if in_dec exn_eq_dec e l then true else false.

Inductive res (A : Type) := Ok (a : A) | Raise (e : exn).
Arguments Ok {A} a.
Arguments Raise {A} e.

(* the attribute obj._memoize_cache : None = the object has no such attribute *)
Definition memo (V : Type) := option (dict V).

(* The functions of memoize.py act on ONE object; the state S they run in may be larger (the whole
   heap of operator objects: a decorated method body may touch other objects).  A lens selects the
   `_memoize_cache` attribute of the object at hand.  A Python exception does not roll anything
   back, so a raising computation also returns the state it reached. *)
Class lens (S V : Type) := { lget : S -> memo V; lput : memo V -> S -> S }.
(* lvalid s: the object the lens points at exists in state s *)
Class lens_ok {S V : Type} (L : lens S V) := {
  lvalid : S -> Prop;
  get_put : forall m s, lvalid s -> lget (lput m s) = m;
  put_put : forall m m' s, lput m (lput m' s) = lput m s;
  put_valid : forall m s, lvalid s -> lvalid (lput m s) }.

Definition M (S A : Type) := S -> res A * S.

Section Monad.
Context {S V : Type} {L : lens S V}.

Definition ret {A} (a : A) : M S A := fun s => (Ok a, s).
Definition bind {A B} (m : M S A) (f : A -> M S B) : M S B :=
  fun s => match m s with (Ok a, s') => f a s' | (Raise e, s') => (Raise e, s') end.
Definition raise {A} (e : exn) : M S A := fun s => (Raise e, s).
(* try: m  except (exs): h *)
Definition catch {A} (m : M S A) (exs : list exn) (h : M S A) : M S A :=
  fun s => match m s with
           | (Ok r, s') => (Ok r, s')
           | (Raise e, s') => if exn_in e exs then h s' else (Raise e, s')
           end.
Definition lift {A} (r : res A) : M S A := fun s => (r, s).

(* hasattr(obj, "_memoize_cache") *)
Definition hasattr_memo : M S bool := fun s => (Ok (match lget s with Some _ => true | None => false end), s).
(* obj._memoize_cache   (load) *)
Definition getattr_memo : M S (dict V) :=
  fun s => match lget s with Some d => (Ok d, s) | None => (Raise AttributeError, s) end.
(* obj._memoize_cache = d *)
Definition setattr_memo (d : dict V) : M S unit := fun s => (Ok tt, lput (Some d) s).
(* obj._memoize_cache[k] = v *)
Definition memo_setitem (k : key) (v : V) : M S unit := bind getattr_memo (fun d => setattr_memo (d_set d k v)).
(* obj._memoize_cache[k] *)
Definition memo_getitem (k : key) : M S V :=
  bind getattr_memo (fun d => match d_get d k with Some v => ret v | None => raise KeyError end).
(* obj._memoize_cache.pop(k) *)
Definition memo_pop (k : key) : M S V :=
  bind getattr_memo (fun d => match d_get d k with
                              | Some v => bind (setattr_memo (d_remove d k)) (fun _ => ret v)
                              | None => raise KeyError end).
(* k in obj._memoize_cache *)
Definition memo_contains (k : key) : M S bool := bind getattr_memo (fun d => ret (d_mem d k)).
(* obj._memoize_cache.keys() *)
Definition memo_keys : M S (list key) := bind getattr_memo (fun d => ret (d_keys d)).

(* `if c: body` without else, body not returning *)
Definition when (c : bool) (body : M S unit) : M S unit := if c then body else ret tt.
(* a and b  with Python's short circuit (b is not evaluated when a is false) *)
Definition mand (a : M S bool) (b : M S bool) : M S bool := bind a (fun x => if x then b else ret false).

End Monad.

Notation "x <- m ;; f" := (bind m (fun x => f)) (at level 61, m at next level, right associativity).
Notation "m ;;; f" := (bind m (fun _ => f)) (at level 61, right associativity).

(* the one-object instance: the state IS the attribute *)
#[export] Instance self_lens (V : Type) : lens (memo V) V := {| lget := fun s => s; lput := fun m _ => m |}.
#[export] Instance self_lens_ok (V : Type) : lens_ok (self_lens V).
Proof. refine {| lvalid := fun _ => True |}; intros; exact I || reflexivity. Defined.

(* x[0] for a key x:  a tuple key yields its name; a bare str key yields its FIRST CHARACTER (a str of
   length one; IndexError on the empty str); a bare function key is not subscriptable (TypeError) *)
Definition key_index0 (k : key) : res name :=
  match k with
  | KFull n _ _ => Ok n
  | KName (NStr (String c _)) => Ok (NStr (String c EmptyString))
  | KName (NStr EmptyString) => Raise IndexError
  | KName (NFun _) => Raise TypeError
  end.

(* [f(x) for x in l] *)
Fixpoint listcomp {A B} (f : A -> res B) (l : list A) : res (list B) :=
  match l with
  | [] => Ok []
  | x :: r => match f x with
              | Raise e => Raise e
              | Ok y => match listcomp f r with Ok ys => Ok (y :: ys) | Raise e => Raise e end
              end
  end.

(* n in [..]   (== on str / identity on functions) *)
Definition name_in (n : name) (l : list name) : bool := existsb (name_eqb n) l.

(* pickle.dumps(kwargs) *)
Definition pickle_dumps (kw : kwargs) : kwargs := kw.

Definition name_of_opt (nm : option string) (method : string) : name :=
  match nm with Some s => NStr s | None => NFun method end.
