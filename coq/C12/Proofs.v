(* C12 — the history invariant, for EVERY instance of the numerical kernels.

   [kern_ok] collects, for each kernel of Model.v, the statement that it computes what it is named after
   (stated with an abstract relation [valid]); these are the "valid numerical kernels" the theorems assume
   (they are the subject of C04-C06, C08-C10).  Under them:

     Inv h  :=  every entry of every object's _memoize_cache is a valid answer (for the aspects its key
                claims) for THAT object's matrix, and every ad-hoc preconditioner cache is valid

   is preserved by every event whose transplant (add_low_rank / cat_rows) satisfies the explicit
   compatibility hypothesis, and every answer is valid.  The memoize protocol enters only through the laws
   of MemoLaws.v, proved about the functions generated from memoize.py. *)
From Coq Require Import List String Bool Arith ZArith Lia.
Import ListNotations.
Require Import C12.MemoBase C12.gen.Memoize C12.MemoLaws C12.Model.
Open Scope string_scope.
Open Scope list_scope.
Open Scope nat_scope.

Section Proofs.
Variable K : kern.
Variable fl : srcflags.
Notation Mat := (Mat K).
Notation Val := (Val K).
Notation obj := (obj K).
Notation heap := (heap K).
Notation H := (H K).

(* ------------------------------------------------------------------ what "valid kernels" means *)
Variable valid : aspect -> Mat -> Val -> Prop.
Variable compat : Val -> Val -> Prop.          (* L M^T = I *)
Variable diaglike : Mat -> Prop.               (* a diagonal matrix (Diag / ConstantDiag / Identity operators) *)
Variable is1x1 : Mat -> Prop.
Variable shifted : Mat -> Mat -> Prop.         (* shifted A C : A = C + c I   (AddedDiag over a ConstantDiag) *)
Variable scaled : Mat -> Mat -> Prop.          (* scaled A C : A = c C, c >= 0  (ConstantMul) *)
Variable kron : Mat -> list Mat -> Prop.       (* kron A [C1; ..; Ck] : A = C1 (x) .. (x) Ck  (KroneckerProduct) *)

Record kern_ok : Prop := {
  ko_dense : forall A, valid ADense A (k_dense K A);
  ko_chol : forall A up v, k_chol K A up = Ok v -> valid (AChol up) A v;
  (* ignore_args is sound exactly because the factor of a diagonal matrix is symmetric *)
  ko_chol_diag : forall A up up' v, diaglike A -> valid (AChol up) A v -> valid (AChol up') A v;
  ko_tri_T : forall A v, valid (AChol false) A v -> valid (AChol true) A (k_tri_T K v);
  ko_symeig : forall A vecs, valid (AEig vecs) A (k_symeig K A vecs);
  ko_eig_shift : forall A C vecs e, shifted A C -> valid (AEig vecs) C e -> valid (AEig vecs) A (k_eig_shift K A e);
  ko_svd_of_eig : forall A e, valid (AEig true) A e -> valid ASvd A (k_svd_of_eig K e);
  ko_svd_shift : forall A C u, shifted A C -> valid ASvd C u -> valid ASvd A (k_svd_shift K A u);
  ko_diagz_lanczos : forall A n r v, k_diagz_lanczos K A n r = Ok v -> valid (AEig true) A v;
  ko_cholop : forall A c, valid (AChol false) A c -> valid ARoot A (k_cholop K c);
  ko_root_eig : forall A e, valid (AEig true) A e -> valid ARoot A (k_root_eig K e);
  ko_root_svd : forall A u, valid ASvd A u -> valid ARoot A (k_root_svd K u);
  ko_root_pivchol : forall A, valid ARoot A (k_root_pivchol K A);
  ko_root_lanczos : forall A r, valid ARoot A (k_root_lanczos K A r);
  ko_root_1x1 : forall A d, is1x1 A -> valid ADense A d -> valid ARoot A (k_root_1x1 K d);
  ko_root_scale : forall A C r, scaled A C -> valid ARoot C r -> valid ARoot A (k_root_scale K A r);
  ko_rootinv_chol : forall A L, valid (AChol false) A L -> valid ARootInv A (k_rootinv_chol K L);
  ko_rootinv_lanczos : forall A r, valid AInvFactor A (fst (k_rootinv_lanczos K A r)) /\
                                   valid ARoot A (snd (k_rootinv_lanczos K A r));
  ko_wrap_root : forall A x, valid AInvFactor A x -> valid ARootInv A (k_wrap_root K x);
  ko_rootinv_eig : forall A e, valid (AEig true) A e -> valid ARootInv A (k_rootinv_eig K e);
  ko_rootinv_svd : forall A u, valid ASvd A u -> valid ARootInv A (k_rootinv_svd K u);
  ko_rootinv_pinv : forall A R, valid AFactor A R -> valid ARootInv A (k_rootinv_pinv K R);
  ko_rootinv_1x1 : forall A d, is1x1 A -> valid ADense A d -> valid ARootInv A (k_rootinv_1x1 K d);
  ko_root_factor : forall A r, valid ARoot A r -> valid AFactor A (v_root K r);
  ko_rootinv_factor : forall A r, valid ARootInv A r -> valid AInvFactor A (v_root K r);
  ko_evals : forall A e vecs, valid (AEig vecs) A e -> valid AEvals A (k_evals K e);
  ko_solve : forall A st rhs v, k_solve K A st rhs = Ok v -> valid (ASolve rhs) A v;
  (* the triangular-root shortcut of inv_quad_logdet: a root that IS (honestly) triangular is a Cholesky factor *)
  ko_iqld_tri : forall A t rhs ld, valid AFactor A t -> v_is_tri K t = true -> valid (AIqld rhs ld) A (k_iqld_chol K t rhs ld);
  ko_iqld_chol : forall A c rhs ld, valid (AChol false) A c -> valid (AIqld rhs ld) A (k_iqld_chol K c rhs ld);
  ko_iqld_cg : forall A p rhs ld, valid APrecond A p -> valid (AIqld rhs ld) A (k_iqld_cg K A p rhs ld);
  ko_snd : forall A v, valid (AIqld None true) A v -> valid ALogdet A (k_snd K v);
  ko_diagonal : forall A, valid ADiagonal A (k_diagonal K A);
  ko_no_precond : forall A, valid APrecond A (k_no_precond K A);
  ko_precond : forall A r, valid APrecond A (k_precond K A r);
  ko_sample_root : forall A R z, valid AFactor A R -> valid (ASample z) A (k_sample_root K R z);
  ko_sample_ciq : forall A z, valid (ASample z) A (k_sample_ciq K A z);
  ko_sample_1x1 : forall A d z, is1x1 A -> valid ADense A d -> valid (ASample z) A (k_sample_1x1 K d z);
  (* the transplants, with the compatibility hypothesis explicit (Algebra.v proves them for matrices over a field);
     add_low_rank additionally wraps the dense products in TriangularLinearOperator when L is triangular:
     the statement therefore asks for tri = false *)
  ko_lr_update : forall A L M B,
      valid AFactor A L -> valid AInvFactor A M -> compat L M ->
      valid ARoot (m_add_low_rank K A B) (fst (k_lr_update K L M B false)) /\
      valid ARootInv (m_add_low_rank K A B) (snd (k_lr_update K L M B false));
  ko_cat_update : forall A E R B D st gi nr ni,
      valid AFactor A E -> valid AInvFactor A R -> compat E R ->
      k_cat_update K E R B D st gi = Ok (nr, ni) ->
      valid ARoot (m_cat_rows K A B D) nr /\ (forall x, ni = Some x -> valid ARootInv (m_cat_rows K A B D) x);
  (* Kronecker products: factorizations of the factors combine into one of the product *)
  ko_eig_kron : forall A ms vecs es, kron A ms -> Forall2 (valid (AEig vecs)) ms es -> valid (AEig vecs) A (k_eig_kron K A vecs es);
  ko_svd_kron : forall A ms us, kron A ms -> Forall2 (valid ASvd) ms us -> valid ASvd A (k_svd_kron K A us);
  ko_chol_kron : forall A ms up inst cs, kron A ms -> Forall2 (valid (AChol up)) ms cs -> valid (AChol up) A (k_chol_kron K A cs up inst);
  ko_root_kron : forall A ms rs, kron A ms -> Forall2 (valid ARoot) ms rs -> valid ARoot A (k_root_kron K A rs);
  ko_rootinv_kron : forall A ms rs, kron A ms -> Forall2 (valid ARootInv) ms rs -> valid ARootInv A (k_rootinv_kron K A rs);
  ko_iqld_kron : forall A rhs ld iq e,
      match rhs, iq with Some _, Some x => valid (AIqld rhs false) A x | None, None => True | _, _ => False end ->
      match ld, e with true, Some e' => valid (AEig true) A e' | false, None => True | _, _ => False end ->
      valid (AIqld rhs ld) A (k_iqld_kron K A iq e);
  (* delegating classes (BlockDiag, BatchRepeat): kron A [C] reads "A is built from the one base operator C" *)
  ko_deleg_lift : forall A C x, kron A [C] -> valid AInvFactor C x -> valid AInvFactor A (k_deleg_lift K A x);
  ko_iqld_deleg : forall A C rhs ld r, kron A [C] -> valid (AIqld rhs ld) C r -> valid (AIqld rhs ld) A (k_iqld_deleg K A r);
  ko_sample_deleg : forall A C z v, kron A [C] -> valid (ASample z) C v -> valid (ASample z) A (k_sample_deleg K A v)
}.

Hypothesis KO : kern_ok.

(* ------------------------------------------------------------------ the invariant *)
Definition entry_ok (A : Mat) (k : key) (v : Val) : Prop :=
  forall a, In a (aspects_of_key k) -> valid a A v.

(* every binding (not only the first of its key: no uniqueness invariant is needed this way) *)
Definition memo_ok (A : Mat) (m : memo Val) : Prop :=
  forall k v, In (k, v) (dict_of m) -> entry_ok A k v.

Lemma in_d_set (d : dict Val) k v k' v' : In (k', v') (d_set d k v) -> In (k', v') d \/ (k' = k /\ v' = v).
Proof.
  induction d as [|[k0 v0] r IH]; simpl.
  - intros [E|[]]. inversion E; auto.
  - destruct (key_eqb k0 k) eqn:Ek; simpl.
    + intros [E|Hin]; [|auto]. inversion E; subst. apply key_eqb_eq in Ek. auto.
    + intros [E|Hin]; [auto|]. destruct (IH Hin); auto.
Qed.

Lemma in_d_remove (d : dict Val) k x : In x (d_remove d k) -> In x d.
Proof.
  induction d as [|[k0 v0] r IH]; simpl; auto.
  destruct (key_eqb k0 k); simpl; intuition.
Qed.

Lemma Forall2_imp {X Y} (R1 R2 : X -> Y -> Prop) l1 l2 :
  (forall a b, R1 a b -> R2 a b) -> Forall2 R1 l1 l2 -> Forall2 R2 l1 l2.
Proof. intros Himp F. induction F; constructor; auto. Qed.

Definition get (i : nat) (h : heap) : option obj := get_obj K i h.

(* static well-formedness of an object: what its profile promises about its matrix *)
Definition obj_wf (h : heap) (o : obj) : Prop :=
  (forall c, pf_eig (o_pf K o) = EigShift c -> exists oc, get c h = Some oc /\ shifted (o_mat K o) (o_mat K oc)) /\
  (forall c, pf_cm_root (o_pf K o) = Some c -> exists oc, get c h = Some oc /\ scaled (o_mat K o) (o_mat K oc)) /\
  (pf_chol_ignore (o_pf K o) = true -> diaglike (o_mat K o)) /\
  (o_n K o = 1 -> o_square K o = true -> is1x1 (o_mat K o)) /\
  (forall f, pf_td_name (o_pf K o) = Some f -> ends_with "to_dense" f = true) /\
  (forall l, pf_eig (o_pf K o) = EigKron l ->
     exists ms, Forall2 (fun c m => exists oc, get c h = Some oc /\ o_mat K oc = m) l ms /\ kron (o_mat K o) ms).

Definition obj_ok (h : heap) (o : obj) : Prop :=
  memo_ok (o_mat K o) (o_memo K o) /\
  (forall r p, o_adhoc K o = Some (r, p) -> valid APrecond (o_mat K o) p) /\
  obj_wf h o.

Definition Inv (h : heap) : Prop := forall i o, get i h = Some o -> obj_ok h o.

Definition static_eq (o o' : obj) : Prop :=
  o_pf K o = o_pf K o' /\ o_n K o = o_n K o' /\ o_square K o = o_square K o' /\ o_mat K o = o_mat K o'.

(* h' extends h: the objects of h are still there, with the same class profile, size and MATRIX *)
Definition ext (h h' : heap) : Prop :=
  forall i o, get i h = Some o -> exists o', get i h' = Some o' /\ static_eq o o'.

Lemma static_eq_refl o : static_eq o o.
Proof. repeat split. Qed.
Lemma static_eq_trans a b c : static_eq a b -> static_eq b c -> static_eq a c.
Proof. unfold static_eq. intuition congruence. Qed.
Lemma ext_refl h : ext h h.
Proof. intros i o E. exists o. split; auto using static_eq_refl. Qed.
Lemma ext_trans a b c : ext a b -> ext b c -> ext a c.
Proof.
  intros H1 H2 i o E. destruct (H1 i o E) as (o1 & E1 & S1). destruct (H2 i o1 E1) as (o2 & E2 & S2).
  exists o2. split; eauto using static_eq_trans.
Qed.

(* a computation is sound from a base heap h0: started in any heap that extends h0 and satisfies the invariant, it
   ends in such a heap and, if it returns, its result satisfies Q *)
Definition sound (h0 : heap) {A} (m : H A) (Q : A -> Prop) : Prop :=
  forall h, ext h0 h -> Inv h ->
  Inv (snd (m h)) /\ ext h (snd (m h)) /\ match fst (m h) with Ok a => Q a | Raise _ => True end.

Lemma sound_weaken h0 {A} (m : H A) (Q Q' : A -> Prop) :
  sound h0 m Q -> (forall a, Q a -> Q' a) -> sound h0 m Q'.
Proof.
  intros S W h E I. destruct (S h E I) as (I' & E' & R). split; [exact I'|]. split; [exact E'|].
  destruct (fst (m h)); [apply W; exact R | exact R].
Qed.

Lemma sound_ret h0 {A} (a : A) (Q : A -> Prop) : Q a -> sound h0 (ret a) Q.
Proof. intros q h E I. simpl. auto using ext_refl. Qed.

Lemma sound_raise h0 {A} e (Q : A -> Prop) : sound h0 (raise e) Q.
Proof. intros h E I. simpl. auto using ext_refl. Qed.

Lemma sound_lift h0 {A} (r : res A) (Q : A -> Prop) :
  (forall a, r = Ok a -> Q a) -> sound h0 (lift r) Q.
Proof. intros q h E I. simpl. split; [exact I|]. split; [apply ext_refl|]. destruct r; auto. Qed.

Lemma sound_bind h0 {A B} (m : H A) (f : A -> H B) (Q1 : A -> Prop) (Q2 : B -> Prop) :
  sound h0 m Q1 -> (forall a, Q1 a -> sound h0 (f a) Q2) -> sound h0 (bind m f) Q2.
Proof.
  intros S1 S2 h E I. unfold bind. destruct (S1 h E I) as (I1 & E1 & R1).
  destruct (m h) as [[a|e] h1]; simpl in *.
  - destruct (S2 a R1 h1 (ext_trans _ _ _ E E1) I1) as (I2 & E2 & R2).
    split; [exact I2|]. split; [eapply ext_trans; eauto | exact R2].
  - auto.
Qed.

Lemma sound_catch h0 {A} (m : H A) exs (hd : H A) (Q : A -> Prop) :
  sound h0 m Q -> sound h0 hd Q -> sound h0 (catch m exs hd) Q.
Proof.
  intros S1 S2 h E I. unfold catch. destruct (S1 h E I) as (I1 & E1 & R1).
  destruct (m h) as [[a|e] h1]; simpl in *; auto.
  destruct (exn_in e exs); simpl; auto.
  destruct (S2 h1 (ext_trans _ _ _ E E1) I1) as (I2 & E2 & R2).
  split; [exact I2|]. split; [eapply ext_trans; eauto | exact R2].
Qed.

Lemma sound_if h0 {A} (b : bool) (m1 m2 : H A) (Q : A -> Prop) :
  sound h0 m1 Q -> sound h0 m2 Q -> sound h0 (if b then m1 else m2) Q.
Proof. destruct b; auto. Qed.

(* with_obj: in any extension of h0 the object is still there, statically equal *)
Lemma sound_with_obj h0 {A} i o (f : obj -> H A) (Q : A -> Prop) :
  get i h0 = Some o ->
  (forall o', static_eq o o' -> sound h0 (f o') Q) ->
  sound h0 (with_obj K i f) Q.
Proof.
  intros G S h E I. unfold with_obj. destruct (E i o G) as (o' & G' & St).
  unfold get in G'. rewrite G'. apply (S o' St h E I).
Qed.

Lemma sound_with_obj_any h0 {A} i (f : obj -> H A) (Q : A -> Prop) :
  (forall o', sound h0 (f o') Q) -> sound h0 (with_obj K i f) Q.
Proof.
  intros S h E I. unfold with_obj. destruct (get_obj K i h) eqn:G.
  - apply (S o h E I).
  - simpl. auto using ext_refl.
Qed.

(* ------------------------------------------------------------------ heap updates *)
Lemma nth_error_upd {A} (f : A -> A) i j (l : list A) :
  nth_error (upd i f l) j = if Nat.eqb i j then option_map f (nth_error l j) else nth_error l j.
Proof.
  revert i j. induction l as [|x r IH]; intros i j.
  - destruct i, j; simpl; try reflexivity. destruct (Nat.eqb i j); reflexivity.
  - destruct i, j; simpl; try reflexivity. apply IH.
Qed.

Lemma length_upd {A} (f : A -> A) i (l : list A) : List.length (upd i f l) = List.length l.
Proof. revert i. induction l as [|x r IH]; intros [|i]; simpl; auto. Qed.

Lemma upd_upd {A} (f g : A -> A) i (l : list A) : upd i f (upd i g l) = upd i (fun x => f (g x)) l.
Proof. revert i. induction l as [|x r IH]; intros [|i]; simpl; auto. f_equal. apply IH. Qed.

Lemma upd_ext {A} (f g : A -> A) i (l : list A) : (forall x, f x = g x) -> upd i f l = upd i g l.
Proof. intros E. revert i. induction l as [|x r IH]; intros [|i]; simpl; auto; f_equal; auto. Qed.

#[local] Instance obj_lens_ok (i : nat) : lens_ok (obj_lens K i).
Proof.
  refine {| lvalid := fun h => i < List.length (h_objs K h) |}.
  - intros m [os c] Hl. simpl in *. unfold get_obj. simpl. rewrite nth_error_upd, Nat.eqb_refl.
    destruct (nth_error os i) eqn:E; simpl; auto.
    apply nth_error_None in E. lia.
  - intros m m' [os c]. simpl. f_equal. rewrite upd_upd. apply upd_ext. intros x. reflexivity.
  - intros m [os c] Hl. simpl in *. rewrite length_upd. exact Hl.
Defined.

Lemma get_lt i h o : get i h = Some o -> i < List.length (h_objs K h).
Proof. unfold get, get_obj. intros E. apply nth_error_Some. congruence. Qed.

Lemma ext_lvalid i h0 h o : get i h0 = Some o -> ext h0 h -> i < List.length (h_objs K h).
Proof. intros G E. destruct (E i o G) as (o' & G' & _). eapply get_lt; eauto. Qed.

Definition put_memo (i : nat) (m : memo Val) (h : heap) : heap := lput (lens := obj_lens K i) m h.

Lemma get_put_memo i j m h :
  get j (put_memo i m h) = if Nat.eqb i j then option_map (set_memo K m) (get j h) else get j h.
Proof. destruct h as [os c]. unfold get, get_obj, put_memo. simpl. apply nth_error_upd. Qed.

Lemma static_set_memo m o : static_eq o (set_memo K m o).
Proof. repeat split. Qed.

Lemma ext_put_memo i m h : ext h (put_memo i m h).
Proof.
  intros j o G. rewrite get_put_memo. destruct (Nat.eqb i j); rewrite G; simpl.
  - eexists; split; eauto using static_set_memo.
  - eexists; split; eauto using static_eq_refl.
Qed.

Lemma obj_wf_ext h h' o o' : ext h h' -> static_eq o o' -> obj_wf h o -> obj_wf h' o'.
Proof.
  intros E (Epf & En & Esq & Em) (W1 & W2 & W3 & W4 & W5 & W6). unfold obj_wf. rewrite <- Epf, <- En, <- Esq, <- Em.
  split; [|split; [|split; [exact W3|split; [exact W4|split; [exact W5|]]]]].
  - intros c Hc. destruct (W1 c Hc) as (oc & G & Sh). destruct (E c oc G) as (oc' & G' & St).
    exists oc'. split; auto. destruct St as (_ & _ & _ & <-). exact Sh.
  - intros c Hc. destruct (W2 c Hc) as (oc & G & Sh). destruct (E c oc G) as (oc' & G' & St).
    exists oc'. split; auto. destruct St as (_ & _ & _ & <-). exact Sh.
  - intros l Hl. destruct (W6 l Hl) as (ms & F & Kr). exists ms. split; [|exact Kr].
    eapply Forall2_imp; [|exact F]. intros c m (oc & G & Emc). destruct (E c oc G) as (oc' & G' & St).
    exists oc'. split; auto. destruct St as (_ & _ & _ & <-). exact Emc.
Qed.

(* replacing the cache of object i by a cache whose entries are all valid keeps the invariant *)
Lemma Inv_put_memo i m h o :
  Inv h -> get i h = Some o -> memo_ok (o_mat K o) m -> Inv (put_memo i m h).
Proof.
  intros I G Mo j oj Gj. rewrite get_put_memo in Gj.
  destruct (Nat.eqb i j) eqn:Eij.
  - apply Nat.eqb_eq in Eij; subst j. rewrite G in Gj. simpl in Gj. inversion Gj; subst oj.
    destruct (I i o G) as (_ & Ad & Wf). split; [exact Mo|]. split; [exact Ad|].
    eapply obj_wf_ext; eauto using ext_put_memo, static_set_memo.
  - destruct (I j oj Gj) as (Mj & Ad & Wf). split; [exact Mj|]. split; [exact Ad|].
    eapply obj_wf_ext; eauto using ext_put_memo, static_eq_refl.
Qed.

Lemma memo_ok_set A (m : memo Val) k v : memo_ok A m -> entry_ok A k v -> memo_ok A (Some (d_set (dict_of m) k v)).
Proof.
  intros Mo Ev k' v' Hin. simpl in Hin. destruct (in_d_set _ _ _ _ _ Hin) as [Hold|[-> ->]]; auto.
Qed.

Lemma memo_ok_remove A (m : memo Val) k : memo_ok A m -> memo_ok A (Some (d_remove (dict_of m) k)).
Proof. intros Mo k' v' Hin. simpl in Hin. apply in_d_remove in Hin. auto. Qed.

Lemma memo_ok_get A (m : memo Val) k v : memo_ok A m -> d_get (dict_of m) k = Some v -> entry_ok A k v.
Proof. intros Mo G. apply Mo. apply d_get_in. exact G. Qed.

Lemma memo_ok_empty A : memo_ok A (Some []).
Proof. intros k v []. Qed.

(* ------------------------------------------------------------------ the memoize operations on object i *)
Lemma lget_obj i h o : get i h = Some o -> lget (lens := obj_lens K i) h = o_memo K o.
Proof. unfold get. simpl. intros ->. reflexivity. Qed.

Definition key_of (ig : bool) (method : string) (nm : option string) (args : list pyv) (kw : kwargs) : key :=
  if ig then KName (name_of_opt nm method) else KFull (name_of_opt nm method) args kw.

(* a @cached method of object i whose body, when it runs, returns a value valid for the key's aspects:
   the call returns such a value (from the cache or from the body) and keeps the invariant *)
Lemma sound_cached h0 i o method nm ig body args kw :
  get i h0 = Some o ->
  sound h0 (body args kw) (entry_ok (o_mat K o) (key_of ig method nm args kw)) ->
  sound h0 (cached_m K i method nm ig body args kw) (entry_ok (o_mat K o) (key_of ig method nm args kw)).
Proof.
  intros G Sb h E I. unfold cached_m. rewrite cached_dispatch.
  assert (Hv : lvalid (L := obj_lens K i) h) by (simpl; eapply ext_lvalid; eauto).
  assert (Hb : forall r s', body args kw h = (r, s') -> lvalid (L := obj_lens K i) s').
  { intros r s' Eb. destruct (Sb h E I) as (_ & E1 & _). rewrite Eb in E1. simpl in E1.
    simpl. eapply ext_lvalid; eauto. eapply ext_trans; eauto. }
  destruct (E i o G) as (o1 & G1 & St1).
  assert (Em : o_mat K o = o_mat K o1) by (destruct St1 as (_ & _ & _ & ?); auto).
  destruct ig; unfold key_of.
  - rewrite (cached_ignore_args_spec _ _ _ _ _ _ Hv Hb). cbv zeta.
    rewrite (lget_obj _ _ _ G1).
    destruct (d_get (dict_of (o_memo K o1)) (KName (name_of_opt nm method))) eqn:Eg.
    + simpl. split; [exact I|]. split; [apply ext_refl|]. rewrite Em.
      destruct (I i o1 G1) as (Mo & _). eapply memo_ok_get; eauto.
    + destruct (Sb h E I) as (I1 & E1 & R1). destruct (body args kw h) as [[v|e] h1]; cbn [fst snd] in *; auto.
      destruct (E1 i o1 G1) as (o2 & G2 & St2).
      assert (Em2 : o_mat K o = o_mat K o2) by (destruct St2 as (_ & _ & _ & ?); congruence).
      rewrite (lget_obj _ _ _ G2).
      split; [|split].
      * eapply Inv_put_memo; eauto. apply memo_ok_set; [destruct (I1 i o2 G2) as (Mo & _); exact Mo|].
        rewrite <- Em2. exact R1.
      * eapply ext_trans; [exact E1|]. apply ext_put_memo.
      * exact R1.
  - rewrite (cached_spec _ _ _ _ _ _ Hv Hb). cbv zeta.
    rewrite (lget_obj _ _ _ G1).
    destruct (d_get (dict_of (o_memo K o1)) (KFull (name_of_opt nm method) args kw)) eqn:Eg.
    + simpl. split; [exact I|]. split; [apply ext_refl|]. rewrite Em.
      destruct (I i o1 G1) as (Mo & _). eapply memo_ok_get; eauto.
    + destruct (Sb h E I) as (I1 & E1 & R1). destruct (body args kw h) as [[v|e] h1]; cbn [fst snd] in *; auto.
      destruct (E1 i o1 G1) as (o2 & G2 & St2).
      assert (Em2 : o_mat K o = o_mat K o2) by (destruct St2 as (_ & _ & _ & ?); congruence).
      rewrite (lget_obj _ _ _ G2).
      split; [|split].
      * eapply Inv_put_memo; eauto. apply memo_ok_set; [destruct (I1 i o2 G2) as (Mo & _); exact Mo|].
        rewrite <- Em2. exact R1.
      * eapply ext_trans; [exact E1|]. apply ext_put_memo.
      * exact R1.
Qed.

Lemma sound_add_to_cache h0 i o nm v args kw :
  get i h0 = Some o -> entry_ok (o_mat K o) (KFull (NStr nm) args kw) v ->
  sound h0 (add_to_cache_m K i nm v args kw) (fun _ => True).
Proof.
  intros G Ev h E I. unfold add_to_cache_m.
  assert (Hv : lvalid (L := obj_lens K i) h) by (simpl; eapply ext_lvalid; eauto).
  rewrite (add_to_cache_spec _ _ _ _ _ Hv). cbn [fst snd].
  destruct (E i o G) as (o1 & G1 & St1). rewrite (lget_obj _ _ _ G1).
  split; [|split; [apply ext_put_memo | exact Logic.I]].
  eapply Inv_put_memo; eauto. apply memo_ok_set; [destruct (I i o1 G1) as (Mo & _); exact Mo|].
  destruct St1 as (_ & _ & _ & <-). exact Ev.
Qed.

Lemma sound_seed h0 i o nm v args kw :
  get i h0 = Some o -> entry_ok (o_mat K o) (KFull (NStr nm) args kw) v ->
  sound h0 (py_add_to_cache (L := obj_lens K i) (NStr nm) v args kw) (fun _ => True).
Proof. exact (sound_add_to_cache h0 i o nm v args kw). Qed.

(* the membership tests read the cache only *)
Lemma sound_in_cache_all h0 i nm : sound h0 (in_cache_all K i nm) (fun _ => True).
Proof.
  intros h E I. unfold in_cache_all. rewrite is_in_cache_ignore_all_args_spec.
  destruct (lget h) as [d|]; [destruct (listcomp key_index0 (d_keys d))|]; cbn [fst snd];
    (split; [exact I | split; [apply ext_refl | exact Logic.I]]).
Qed.

Lemma sound_in_cache_bare h0 i nm : sound h0 (in_cache_bare K i nm) (fun _ => True).
Proof.
  intros h E I. unfold in_cache_bare. rewrite is_in_cache_ignore_args_spec. cbn [fst snd].
  split; [exact I | split; [apply ext_refl | exact Logic.I]].
Qed.

(* pop_from_cache returns (and removes) an entry that was valid *)
Lemma sound_pop h0 i o nm args kw :
  get i h0 = Some o ->
  sound h0 (py_pop_from_cache (L := obj_lens K i) (NStr nm) args kw) (entry_ok (o_mat K o) (KFull (NStr nm) args kw)).
Proof.
  intros G h E I. rewrite pop_from_cache_spec.
  destruct (E i o G) as (o1 & G1 & St1). rewrite (lget_obj _ _ _ G1).
  destruct (d_get (dict_of (o_memo K o1)) (KFull (NStr nm) args kw)) eqn:Eg; cbn [fst snd].
  - destruct (I i o1 G1) as (Mo & _).
    split; [|split; [apply ext_put_memo|]].
    + eapply Inv_put_memo; eauto. apply memo_ok_remove. exact Mo.
    + destruct St1 as (_ & _ & _ & ->). eapply memo_ok_get; eauto.
  - split; [exact I | split; [apply ext_refl | exact Logic.I]].
Qed.

Lemma Inv_same_objs h h' : h_objs K h = h_objs K h' -> Inv h -> Inv h'.
Proof.
  intros Eo I i o G. unfold get, get_obj in *. rewrite <- Eo in G. destruct (I i o G) as (Mo & Ad & W1 & W2 & W3 & W4 & W5 & W6).
  split; [exact Mo|]. split; [exact Ad|]. split; [|split; [|split; [exact W3|split; [exact W4|split; [exact W5|]]]]].
  - intros c Hc. destruct (W1 c Hc) as (oc & Gc & Sh). exists oc. unfold get, get_obj in *. rewrite <- Eo. auto.
  - intros c Hc. destruct (W2 c Hc) as (oc & Gc & Sh). exists oc. unfold get, get_obj in *. rewrite <- Eo. auto.
  - intros l Hl. destruct (W6 l Hl) as (ms & F & Kr). exists ms. split; [|exact Kr].
    eapply Forall2_imp; [|exact F]. intros c m (oc & Gc & Emc). exists oc. unfold get, get_obj in *. rewrite <- Eo. auto.
Qed.

Lemma ext_same_objs h h' : h_objs K h = h_objs K h' -> ext h h'.
Proof. intros Eo i o G. exists o. unfold get, get_obj in *. rewrite <- Eo. auto using static_eq_refl. Qed.

Lemma sound_fresh_run h0 : sound h0 (fresh_run K) (fun _ => True).
Proof.
  intros h E I. unfold fresh_run. cbn [fst snd].
  split; [eapply Inv_same_objs; [|exact I]; reflexivity|]. split; [apply ext_same_objs; reflexivity | exact Logic.I].
Qed.

(* allocation of a fresh (cache-less) object whose profile is honest in the current heap *)
Lemma get_app_old i (h : heap) o x : get i h = Some o ->
  get i {| h_objs := h_objs K h ++ [x]; h_ctr := h_ctr K h |} = Some o.
Proof. unfold get, get_obj. simpl. intros G. rewrite nth_error_app1; auto. apply nth_error_Some. congruence. Qed.

Lemma ext_alloc (h : heap) x : ext h {| h_objs := h_objs K h ++ [x]; h_ctr := h_ctr K h |}.
Proof. intros i o G. exists o. split; [apply get_app_old; exact G | apply static_eq_refl]. Qed.

Lemma Inv_alloc (h : heap) x :
  Inv h -> o_memo K x = None -> o_adhoc K x = None -> obj_wf h x ->
  Inv {| h_objs := h_objs K h ++ [x]; h_ctr := h_ctr K h |}.
Proof.
  intros I Em Ea W i o G. unfold get, get_obj in G. simpl in G.
  destruct (Nat.lt_ge_cases i (List.length (h_objs K h))) as [Hlt|Hge].
  - rewrite nth_error_app1 in G by exact Hlt. destruct (I i o G) as (Mo & Ad & Wf).
    split; [exact Mo|]. split; [exact Ad|]. eapply obj_wf_ext; eauto using ext_alloc, static_eq_refl.
  - rewrite nth_error_app2 in G by exact Hge.
    destruct (i - List.length (h_objs K h)) as [|k] eqn:Ek; simpl in G.
    + inversion G; subst o. split; [|split].
      * intros k v Hin. rewrite Em in Hin. destruct Hin.
      * intros r p Hp. rewrite Ea in Hp. discriminate.
      * eapply obj_wf_ext; eauto using ext_alloc, static_eq_refl.
    + destruct k; discriminate.
Qed.

(* in any heap (extending h0 and satisfying Inv) the statics of object i are those recorded in h0 *)
Lemma wf_of h0 h i o o' : get i h0 = Some o -> ext h0 h -> Inv h -> get i h = Some o' -> static_eq o o' /\ obj_wf h o'.
Proof.
  intros G E I G'. destruct (E i o G) as (o1 & G1 & St). rewrite G' in G1. inversion G1; subst o1.
  split; auto. destruct (I i o' G') as (_ & _ & W). exact W.
Qed.

(* soundness from the current heap, whatever the id *)
Lemma sound_any {A} (m : nat -> H A) (Q : Mat -> A -> Prop) :
  (forall h0 i o, get i h0 = Some o -> sound h0 (m i) (Q (o_mat K o))) ->
  (forall i h, get i h = None -> m i h = (Raise ValueError, h)) ->
  forall h0 i, sound h0 (m i) (fun _ => True).
Proof.
  intros S N h0 i h E I. destruct (get i h) as [o|] eqn:G.
  - destruct (S h i o G h (ext_refl h) I) as (I' & E' & R). split; [exact I'|]. split; [exact E'|].
    destruct (fst (m i h)); exact Logic.I.
  - rewrite (N i h G). cbn [fst snd]. split; [exact I|]. split; [apply ext_refl | exact Logic.I].
Qed.

Lemma with_obj_none {A} i (f : obj -> H A) h : get i h = None -> with_obj K i f h = (Raise ValueError, h).
Proof. unfold get, with_obj. intros ->. reflexivity. Qed.

(* ------------------------------------------------------------------ to_dense *)
Lemma to_dense_none fuel i h : get i h = None -> to_dense K fuel i h = (Raise ValueError, h).
Proof. destruct fuel; simpl; apply with_obj_none. Qed.

Lemma sound_to_dense fuel : forall h0 i o, get i h0 = Some o -> sound h0 (to_dense K fuel i) (valid ADense (o_mat K o)).
Proof.
  induction fuel as [|f IH]; intros h0 i o G.
  - (* no fuel: the children loop raises on the first child *)
    simpl. intros h E I. unfold with_obj. destruct (E i o G) as (o' & G' & St). unfold get in G'. rewrite G'.
    destruct (wf_of _ _ _ _ _ G E I G') as (_ & (_ & _ & _ & _ & Wtd & _)).
    assert (Em : o_mat K o = o_mat K o') by (destruct St as (_ & _ & _ & ?); auto).
    set (loop := fix kids (l : list nat) : H unit :=
           match l with [] => ret tt | _ :: _ => raise ValueError end).
    assert (SL : forall l, sound h0 (loop l ;;; ret (k_dense K (o_mat K o'))) (valid ADense (o_mat K o))).
    { intros l. eapply sound_bind with (Q1 := fun _ => True).
      - destruct l; simpl; [apply sound_ret; exact Logic.I | apply sound_raise].
      - intros _ _. apply sound_ret. rewrite Em. apply (ko_dense KO). }
    destruct (pf_td_name (o_pf K o')) as [fn|] eqn:Etd.
    + assert (SC := sound_cached h0 i o fn None false (fun _ _ => loop (pf_td_kids (o_pf K o')) ;;; ret (k_dense K (o_mat K o'))) [] [] G).
      unfold key_of in SC. simpl name_of_opt in SC.
      assert (Sb : sound h0 (loop (pf_td_kids (o_pf K o')) ;;; ret (k_dense K (o_mat K o'))) (entry_ok (o_mat K o) (KFull (NFun fn) [] []))).
      { eapply sound_weaken; [apply SL|]. intros v Hv a Ha. simpl in Ha. rewrite (Wtd fn eq_refl) in Ha.
        destruct Ha as [<-|[]]. exact Hv. }
      destruct (SC Sb h E I) as (I' & E' & R). split; [exact I'|]. split; [exact E'|].
      destruct (fst _); auto. apply R. simpl. rewrite (Wtd fn eq_refl). left; reflexivity.
    + apply (SL _ h E I).
  - simpl. intros h E I. unfold with_obj. destruct (E i o G) as (o' & G' & St). unfold get in G'. rewrite G'.
    destruct (wf_of _ _ _ _ _ G E I G') as (_ & (_ & _ & _ & _ & Wtd & _)).
    assert (Em : o_mat K o = o_mat K o') by (destruct St as (_ & _ & _ & ?); auto).
    set (loop := fix kids (l : list nat) : H unit :=
           match l with [] => ret tt | c :: r => to_dense K f c ;;; kids r end).
    assert (Sany : forall c, sound h0 (to_dense K f c) (fun _ => True)).
    { intros c. apply (sound_any (to_dense K f) (valid ADense)); [intros; apply IH; auto | intros; apply to_dense_none; auto]. }
    assert (SLoop : forall l, sound h0 (loop l) (fun _ => True)).
    { induction l as [|c r IHl]; simpl.
      - apply sound_ret. exact Logic.I.
      - eapply sound_bind; [apply Sany|]. intros _ _. exact IHl. }
    assert (SL : forall l, sound h0 (loop l ;;; ret (k_dense K (o_mat K o'))) (valid ADense (o_mat K o))).
    { intros l. eapply sound_bind; [apply SLoop|]. intros _ _. apply sound_ret. rewrite Em. apply (ko_dense KO). }
    destruct (pf_td_name (o_pf K o')) as [fn|] eqn:Etd.
    + assert (SC := sound_cached h0 i o fn None false (fun _ _ => loop (pf_td_kids (o_pf K o')) ;;; ret (k_dense K (o_mat K o'))) [] [] G).
      unfold key_of in SC. simpl name_of_opt in SC.
      assert (Sb : sound h0 (loop (pf_td_kids (o_pf K o')) ;;; ret (k_dense K (o_mat K o'))) (entry_ok (o_mat K o) (KFull (NFun fn) [] []))).
      { eapply sound_weaken; [apply SL|]. intros v Hv a Ha. simpl in Ha. rewrite (Wtd fn eq_refl) in Ha.
        destruct Ha as [<-|[]]. exact Hv. }
      destruct (SC Sb h E I) as (I' & E' & R). split; [exact I'|]. split; [exact E'|].
      destruct (fst _); auto. apply R. simpl. rewrite (Wtd fn eq_refl). left; reflexivity.
    + apply (SL _ h E I).
Qed.

(* with_obj, re-based at the heap where the object is looked up: there the object's profile is honest *)
Lemma sound_with_obj_wf h0 {A} i o (f : obj -> H A) (Q : A -> Prop) :
  get i h0 = Some o ->
  (forall h1 o', ext h0 h1 -> Inv h1 -> get i h1 = Some o' -> static_eq o o' -> obj_wf h1 o' -> sound h1 (f o') Q) ->
  sound h0 (with_obj K i f) Q.
Proof.
  intros G S h E I. unfold with_obj. destruct (E i o G) as (o' & G' & St).
  assert (G2 := G'). unfold get in G2. rewrite G2.
  destruct (I i o' G') as (_ & _ & W).
  apply (S h o' E I G' St W h (ext_refl h) I).
Qed.

Ltac sstep :=
  match goal with
  | |- sound _ (bind _ _) _ => eapply sound_bind
  | |- sound _ (ret _) _ => apply sound_ret
  | |- sound _ (raise _) _ => apply sound_raise
  | |- sound _ (lift _) _ => apply sound_lift
  | |- sound _ (if _ then _ else _) _ => apply sound_if
  | |- sound _ (catch _ _ _) _ => apply sound_catch
  end.

Lemma mat_eq o o' : static_eq o o' -> o_mat K o = o_mat K o'.
Proof. intros (_ & _ & _ & ?). auto. Qed.

(* a call on every object of a list (the factors of a Kronecker product), results collected *)
Lemma sound_mapM {A} h0 (f : nat -> H A) (Q : Mat -> A -> Prop) l ms :
  Forall2 (fun c m => exists oc, get c h0 = Some oc /\ o_mat K oc = m) l ms ->
  (forall c oc, get c h0 = Some oc -> sound h0 (f c) (Q (o_mat K oc))) ->
  sound h0 (mapM K f l) (fun xs => Forall2 Q ms xs).
Proof.
  intros F Sf. induction F as [|c m l ms (oc & Gc & Em) F IH]; simpl.
  - sstep. constructor.
  - sstep; [apply (Sf c oc Gc)|]. intros x Hx. sstep; [apply IH|]. intros xs Hxs. sstep.
    constructor; [rewrite <- Em; exact Hx | exact Hxs].
Qed.

Lemma kron_over_some p l : kron_over p = Some l -> pf_eig p = EigKron l.
Proof. unfold kron_over. destruct (pf_deleg p); [discriminate|]. destruct (pf_eig p); try discriminate. intros E. inversion E. reflexivity. Qed.

(* the base operator of a delegating class exists and the object's matrix is built from its matrix *)
Lemma deleg_wf h o c : obj_wf h o -> deleg_kid (o_pf K o) = Some c ->
  exists oc, get c h = Some oc /\ kron (o_mat K o) [o_mat K oc].
Proof.
  intros (_ & _ & _ & _ & _ & W6) Ed. unfold deleg_kid in Ed.
  destruct (pf_deleg (o_pf K o)); [|discriminate].
  destruct (pf_eig (o_pf K o)) as [| |[|c' [|]]] eqn:Ee; try discriminate. inversion Ed; subst c'.
  destruct (W6 [c] eq_refl) as (ms & F & Kr).
  inversion F as [|? m ? ms' (oc & Gc & Em) F']; subst. inversion F'; subst. exists oc. split; [exact Gc | exact Kr].
Qed.

(* ------------------------------------------------------------------ _symeig, _svd *)
Lemma symeig_none fuel i vecs h : get i h = None -> symeig K fuel i vecs h = (Raise ValueError, h).
Proof. destruct fuel; simpl; apply with_obj_none. Qed.

Lemma symeig_eq fuel i vecs :
  symeig K fuel i vecs =
  with_obj K i (fun o =>
    match pf_eig (o_pf K o) with
    | EigBase => to_dense K fuel i ;;; ret (k_symeig K (o_mat K o) vecs)
    | EigShift c => match fuel with
                    | O => raise ValueError
                    | S f => e <- symeig K f c vecs ;; ret (k_eig_shift K (o_mat K o) e)
                    end
    | EigKron l => match fuel with
                   | O => raise ValueError
                   | S f => es <- mapM K (fun c => symeig K f c vecs) l ;; ret (k_eig_kron K (o_mat K o) vecs es)
                   end
    end).
Proof. destruct fuel; reflexivity. Qed.

Lemma sound_symeig fuel : forall h0 i o vecs, get i h0 = Some o ->
  sound h0 (symeig K fuel i vecs) (valid (AEig vecs) (o_mat K o)).
Proof.
  induction fuel as [|f IH]; intros h0 i o vecs G; rewrite symeig_eq;
    apply (sound_with_obj_wf h0 i o _ _ G); intros h1 o' E1 I1 G1 St (W1 & _ & _ & _ & _ & W6);
    rewrite (mat_eq _ _ St); destruct (pf_eig (o_pf K o')) as [|c|l] eqn:Ee.
  - sstep; [apply (sound_to_dense _ h1 i o' G1)|]. intros _ _. sstep. apply (ko_symeig KO).
  - sstep.
  - sstep.
  - sstep; [apply (sound_to_dense _ h1 i o' G1)|]. intros _ _. sstep. apply (ko_symeig KO).
  - destruct (W1 c eq_refl) as (oc & Gc & Sh).
    sstep; [apply (IH h1 c oc vecs Gc)|]. intros e He. sstep. eapply (ko_eig_shift KO); eauto.
  - destruct (W6 l ltac:(first [exact Ee | reflexivity])) as (ms & F & Kr).
    sstep; [apply (sound_mapM h1 _ (fun m => valid (AEig vecs) m) l ms F); intros c oc Gc; apply (IH h1 c oc vecs Gc)|].
    intros es Hes. sstep. eapply (ko_eig_kron KO); eauto.
Qed.

Lemma key_svd : aspects_of_key (KFull (NStr "svd") [] []) = [ASvd].
Proof. reflexivity. Qed.

Lemma svd_none fuel i h : get i h = None -> svd K fuel i h = (Raise ValueError, h).
Proof. destruct fuel; simpl; apply with_obj_none. Qed.

Lemma svd_eq fuel i :
  svd K fuel i =
  with_obj K i (fun o =>
    cached_m K i "_svd" (Some "svd") false (fun _ _ =>
      match pf_eig (o_pf K o) with
      | EigBase => e <- symeig K fuel i true ;; ret (k_svd_of_eig K e)
      | EigShift c => match fuel with
                      | O => raise ValueError
                      | S f => u <- svd K f c ;; ret (k_svd_shift K (o_mat K o) u)
                      end
      | EigKron l => match fuel with
                     | O => raise ValueError
                     | S f => us <- mapM K (svd K f) l ;; ret (k_svd_kron K (o_mat K o) us)
                     end
      end) [] []).
Proof. destruct fuel; reflexivity. Qed.

Lemma sound_svd fuel : forall h0 i o, get i h0 = Some o -> sound h0 (svd K fuel i) (valid ASvd (o_mat K o)).
Proof.
  induction fuel as [|f IH]; intros h0 i o G; rewrite svd_eq;
    apply (sound_with_obj_wf h0 i o _ _ G); intros h1 o' E1 I1 G1 St (W1 & _ & _ & _ & _ & W6);
    rewrite (mat_eq _ _ St);
    (eapply sound_weaken;
      [apply (sound_cached h1 i o' "_svd" (Some "svd") false _ [] [] G1)
      | intros v Hv; apply Hv; left; reflexivity]);
    unfold key_of; simpl name_of_opt; destruct (pf_eig (o_pf K o')) as [|c|l] eqn:Ee.
  - sstep; [apply (sound_symeig _ h1 i o' true G1)|]. intros e He. sstep.
    intros a [<-|[]]. apply (ko_svd_of_eig KO). exact He.
  - sstep.
  - sstep.
  - sstep; [apply (sound_symeig _ h1 i o' true G1)|]. intros e He. sstep.
    intros a [<-|[]]. apply (ko_svd_of_eig KO). exact He.
  - destruct (W1 c eq_refl) as (oc & Gc & Sh).
    sstep; [apply (IH h1 c oc Gc)|]. intros u Hu. sstep.
    intros a [<-|[]]. eapply (ko_svd_shift KO); eauto.
  - destruct (W6 l ltac:(first [exact Ee | reflexivity])) as (ms & F & Kr).
    sstep; [apply (sound_mapM h1 _ (fun m => valid ASvd m) l ms F); intros c oc Gc; apply (IH h1 c oc Gc)|].
    intros us Hus. sstep. intros a [<-|[]]. eapply (ko_svd_kron KO); eauto.
Qed.

(* ------------------------------------------------------------------ _cholesky, cholesky *)
Lemma bind_params1 nm args kw p : bind_params [nm] args kw = Ok p -> exists u, p = [u].
Proof.
  unfold bind_params. destruct (kw_known [nm] kw); [|discriminate]. simpl.
  destruct args as [|a [|b r]]; simpl.
  - intros E. inversion E. eauto.
  - destruct (kw_get kw nm); [discriminate|]. intros E. inversion E. eauto.
  - destruct (kw_get kw nm); discriminate.
Qed.

Definition chol_up (args : list pyv) (kw : kwargs) : bool :=
  match bind_params ["upper"] args kw with Ok [u] => truthy u | _ => false end.

Lemma aspects_chol_full args kw :
  aspects_of_key (KFull (NStr "cholesky") args kw) =
  match bind_params ["upper"] args kw with Ok [u] => [AChol (truthy u)] | _ => [] end.
Proof. reflexivity. Qed.

Lemma _cholesky_eq fuel i args kw :
  _cholesky K fuel i args kw =
  with_obj K i (fun o =>
    cached_m K i "_cholesky" (Some "cholesky") (pf_chol_ignore (o_pf K o)) (fun a k =>
      p <- lift (bind_params ["upper"] a k) ;;
      match pf_eig (o_pf K o) with
      | EigKron l =>
          match fuel with
          | O => raise ValueError
          | S f => cs <- mapM K (fun c => cholesky_of K (_cholesky K f c) [] [("upper", nth 0 p PNone)]) l ;;
                   ret (k_chol_kron K (o_mat K o) cs (truthy (nth 0 p PNone))
                                    (match pf_deleg (o_pf K o) with Some _ => true | None => false end))
          end
      | _ => lift (k_chol K (o_mat K o) (truthy (nth 0 p PNone)))
      end) args kw).
Proof. destruct fuel; reflexivity. Qed.

(* what a value returned by _cholesky(args, kw) is: the factor of the requested orientation *)
Definition chol_post (A : Mat) (args : list pyv) (kw : kwargs) (v : Val) : Prop :=
  forall u, bind_params ["upper"] args kw = Ok [u] -> valid (AChol (truthy u)) A v.

(* cholesky(upper) in terms of the object's _cholesky *)
Lemma sound_cholesky_of h0 (chol_ : list pyv -> kwargs -> H Val) A args kw :
  sound h0 (chol_ [] [("upper", PBool false)]) (chol_post A [] [("upper", PBool false)]) ->
  sound h0 (cholesky_of K chol_ args kw) (valid (AChol (chol_up args kw)) A).
Proof.
  intros Sc. unfold cholesky_of.
  sstep; [apply sound_lift with (Q := fun p => bind_params ["upper"] args kw = Ok p); auto|].
  intros p Hp. destruct (bind_params1 _ _ _ _ Hp) as (u & ->).
  sstep; [exact Sc|]. intros c Hc. sstep. unfold chol_up. rewrite Hp. simpl nth.
  specialize (Hc (PBool false) eq_refl). simpl in Hc.
  destruct (truthy u); [apply (ko_tri_T KO)|]; exact Hc.
Qed.

(* _cholesky: the returned (cached or computed) factor has the requested orientation; on an object whose _cholesky
   ignores its arguments (the Diag family) it is a valid factor for BOTH orientations, whichever call stored it *)
Lemma sound__cholesky fuel : forall h0 i o args kw, get i h0 = Some o ->
  sound h0 (_cholesky K fuel i args kw)
        (fun v => chol_post (o_mat K o) args kw v /\
                  (pf_chol_ignore (o_pf K o) = true -> valid (AChol false) (o_mat K o) v /\ valid (AChol true) (o_mat K o) v)).
Proof.
  induction fuel as [|f IH]; intros h0 i o args kw G; rewrite _cholesky_eq;
    apply (sound_with_obj_wf h0 i o _ _ G); intros h1 o' E1 I1 G1 St (_ & _ & Wd & _ & _ & W6);
    rewrite (mat_eq _ _ St);
    (assert (Eig' : pf_chol_ignore (o_pf K o) = pf_chol_ignore (o_pf K o')) by (destruct St as (-> & _); reflexivity));
    rewrite Eig'; clear Eig';
    match goal with
    | |- sound _ (cached_m _ _ _ _ _ ?body _ _) _ =>
        assert (Body : forall a k (Q : Val -> Prop),
                  (forall u v, bind_params ["upper"] a k = Ok [u] -> valid (AChol (truthy u)) (o_mat K o') v -> Q v) ->
                  sound h1 (body a k) Q)
    end.
  1,3: intros a k Q HQ;
       (sstep; [apply sound_lift with (Q := fun p => bind_params ["upper"] a k = Ok p); auto|]);
       intros p Hp; destruct (bind_params1 _ _ _ _ Hp) as (u & ->); simpl nth;
       destruct (pf_eig (o_pf K o')) as [|c|l] eqn:Ee.
  - sstep. intros v Hv. eapply HQ; eauto. apply (ko_chol KO). exact Hv.
  - sstep. intros v Hv. eapply HQ; eauto. apply (ko_chol KO). exact Hv.
  - sstep.
  - sstep. intros v Hv. eapply HQ; eauto. apply (ko_chol KO). exact Hv.
  - sstep. intros v Hv. eapply HQ; eauto. apply (ko_chol KO). exact Hv.
  - destruct (W6 l ltac:(first [exact Ee | reflexivity])) as (ms & F & Kr).
    sstep; [apply (sound_mapM h1 _ (fun m => valid (AChol (truthy u)) m) l ms F); intros c oc Gc|].
    + eapply sound_weaken; [apply (sound_cholesky_of h1 _ (o_mat K oc))|].
      * eapply sound_weaken; [apply (IH h1 c oc _ _ Gc) | intros v (Hv & _); exact Hv].
      * intros v Hv. exact Hv.
    + intros cs Hcs. sstep. eapply HQ; eauto. eapply (ko_chol_kron KO); eauto.
  - (* fuel 0 *)
    destruct (pf_chol_ignore (o_pf K o')) eqn:Eig.
    + eapply sound_weaken; [apply (sound_cached h1 i o' "_cholesky" (Some "cholesky") true _ args kw G1)|].
      * unfold key_of. simpl name_of_opt. apply Body. intros u v Hu Hv a [<-|[<-|[]]];
          eapply (ko_chol_diag KO); eauto.
      * unfold key_of. simpl name_of_opt. intros v Hv. split.
        -- intros u Hu. destruct (truthy u); apply Hv; simpl; auto.
        -- intros _. split; apply Hv; simpl; auto.
    + eapply sound_weaken; [apply (sound_cached h1 i o' "_cholesky" (Some "cholesky") false _ args kw G1)|].
      * unfold key_of. simpl name_of_opt. apply Body. intros u v Hu Hv a Ha.
        rewrite aspects_chol_full, Hu in Ha. destruct Ha as [<-|[]]. exact Hv.
      * unfold key_of. simpl name_of_opt. intros v Hv. split; [|discriminate]. intros u Hu. apply Hv.
        rewrite aspects_chol_full, Hu. left; reflexivity.
  - destruct (pf_chol_ignore (o_pf K o')) eqn:Eig.
    + eapply sound_weaken; [apply (sound_cached h1 i o' "_cholesky" (Some "cholesky") true _ args kw G1)|].
      * unfold key_of. simpl name_of_opt. apply Body. intros u v Hu Hv a [<-|[<-|[]]];
          eapply (ko_chol_diag KO); eauto.
      * unfold key_of. simpl name_of_opt. intros v Hv. split.
        -- intros u Hu. destruct (truthy u); apply Hv; simpl; auto.
        -- intros _. split; apply Hv; simpl; auto.
    + eapply sound_weaken; [apply (sound_cached h1 i o' "_cholesky" (Some "cholesky") false _ args kw G1)|].
      * unfold key_of. simpl name_of_opt. apply Body. intros u v Hu Hv a Ha.
        rewrite aspects_chol_full, Hu in Ha. destruct Ha as [<-|[]]. exact Hv.
      * unfold key_of. simpl name_of_opt. intros v Hv. split; [|discriminate]. intros u Hu. apply Hv.
        rewrite aspects_chol_full, Hu. left; reflexivity.
Qed.

(* ignore_args is sound: on an object whose _cholesky ignores its arguments (the Diag family) the cached entry
   is a valid factor for BOTH orientations, whichever call stored it *)
Lemma sound__cholesky_ignore fuel h0 i o args kw : get i h0 = Some o -> pf_chol_ignore (o_pf K o) = true ->
  sound h0 (_cholesky K fuel i args kw) (fun v => valid (AChol false) (o_mat K o) v /\ valid (AChol true) (o_mat K o) v).
Proof.
  intros G Hig. eapply sound_weaken; [apply (sound__cholesky fuel h0 i o args kw G)|]. intros v (_ & Hb). auto.
Qed.

Lemma sound_cholesky fuel h0 i o args kw : get i h0 = Some o ->
  sound h0 (cholesky K fuel i args kw) (valid (AChol (chol_up args kw)) (o_mat K o)).
Proof.
  intros G. unfold cholesky. apply sound_cholesky_of.
  eapply sound_weaken; [apply (sound__cholesky fuel h0 i o _ _ G)|]. intros v (Hv & _). exact Hv.
Qed.

Lemma sound_cholesky0 fuel h0 i o : get i h0 = Some o ->
  sound h0 (cholesky K fuel i [] []) (valid (AChol false) (o_mat K o)).
Proof. intros G. exact (sound_cholesky fuel h0 i o [] [] G). Qed.

(* ------------------------------------------------------------------ method choice, diagonalization *)
Lemma sound_choose_root st h0 i : sound h0 (choose_root_method K st i) (fun _ => True).
Proof.
  unfold choose_root_method. apply sound_with_obj_any. intros o'.
  sstep; [apply sound_in_cache_all|]. intros b1 _. sstep; [sstep; exact Logic.I|].
  sstep; [apply sound_in_cache_all|]. intros b2 _. sstep; [sstep; exact Logic.I|].
  sstep; [apply sound_in_cache_all|]. intros b3 _. sstep; [sstep; exact Logic.I|].
  sstep; sstep; exact Logic.I.
Qed.

Lemma aspects_diagz a k : aspects_of_key (KFull (NStr "diagonalization") a k) = [AEig true].
Proof. reflexivity. Qed.
Lemma aspects_root a k : aspects_of_key (KFull (NStr "root_decomposition") a k) = [ARoot].
Proof. reflexivity. Qed.
Lemma aspects_rootinv a k : aspects_of_key (KFull (NStr "root_inv_decomposition") a k) = [ARootInv].
Proof. reflexivity. Qed.

Lemma entry1 A k a v : aspects_of_key k = [a] -> (entry_ok A k v <-> valid a A v).
Proof.
  intros E. unfold entry_ok. rewrite E. split.
  - intros Hh. apply Hh. left; reflexivity.
  - intros Hv a' [<-|[]]. exact Hv.
Qed.

Lemma entry1_elim A k a v : aspects_of_key k = [a] -> entry_ok A k v -> valid a A v.
Proof. intros E. apply (proj1 (entry1 A k a v E)). Qed.
Lemma entry1_intro A k a v : aspects_of_key k = [a] -> valid a A v -> entry_ok A k v.
Proof. intros E. apply (proj2 (entry1 A k a v E)). Qed.

Lemma sound_diagonalization_base st fuel h1 i o' a k : get i h1 = Some o' ->
  sound h1 (diagonalization_base K st fuel i o' a k) (valid (AEig true) (o_mat K o')).
Proof.
  intros G1. unfold diagonalization_base.
  eapply sound_weaken; [apply (sound_cached h1 i o' "diagonalization" (Some "diagonalization") false _ a k G1)
                       | unfold key_of; simpl name_of_opt; intros v Hv; apply (entry1_elim _ _ _ _ (aspects_diagz a k)); exact Hv].
  unfold key_of. simpl name_of_opt.
  eapply sound_weaken; [|intros v Hv; apply (entry1_intro _ _ _ _ (aspects_diagz a k)); exact Hv].
  sstep; [apply sound_lift with (Q := fun _ => True); auto|]. intros p _.
  sstep; [sstep|].
  sstep; [apply sound_lift with (Q := fun _ => True); auto|]. intros m0 _.
  sstep; [|sstep; [apply (sound_symeig _ h1 i o' true G1) | sstep]].
  sstep; [apply sound_fresh_run|]. intros r _. sstep; [sstep|]. sstep. intros v Hv. eapply (ko_diagz_lanczos KO); eauto.
Qed.

Lemma sound_diagonalization st fuel h0 i o args kw : get i h0 = Some o ->
  sound h0 (diagonalization K st fuel i args kw) (valid (AEig true) (o_mat K o)).
Proof.
  intros G. unfold diagonalization.
  apply (sound_with_obj_wf h0 i o _ _ G); intros h1 o' E1 I1 G1 St _.
  rewrite (mat_eq _ _ St). cbv zeta.
  destruct (kron_over (o_pf K o')) as [l|]; [|apply (sound_diagonalization_base st fuel h1 i o' _ _ G1)].
  sstep; [apply sound_lift with (Q := fun _ => True); auto|]. intros p _.
  apply (sound_diagonalization_base st fuel h1 i o' _ _ G1).
Qed.

(* ------------------------------------------------------------------ root_decomposition *)
Lemma root_decomposition_eq st fuel i args kw :
  root_decomposition K st fuel i args kw =
  with_obj K i (fun o =>
    let base := fun (a : list pyv) (k : kwargs) =>
      p <- lift (bind_params ["method"] a k) ;;
      if negb (o_square K o) then raise RuntimeError else
      if o_n K o =? 1 then d <- to_dense K fuel i ;; ret (k_root_1x1 K d) else
      m0 <- lift (method_of (nth 0 p PNone)) ;;
      m <- match m0 with None => choose_root_method K st i | Some s => ret s end ;;
      r <- (if String.eqb m "cholesky"
            then catch (c <- cholesky K fuel i [] [] ;; ret (inl (k_cholop K c))) [RuntimeError] (ret (inr "symeig"))
            else ret (inr m)) ;;
      match r with
      | inl v => ret v
      | inr m =>
          if String.eqb m "pivoted_cholesky" then to_dense K fuel i ;;; ret (k_root_pivchol K (o_mat K o))
          else if String.eqb m "symeig" then e <- symeig K fuel i true ;; ret (k_root_eig K e)
          else if String.eqb m "diagonalization" then e <- diagonalization K st fuel i [] [] ;; ret (k_root_eig K e)
          else if String.eqb m "svd" then u <- svd K fuel i ;; ret (k_root_svd K u)
          else if String.eqb m "lanczos" then r <- fresh_run K ;; ret (k_root_lanczos K (o_mat K o) r)
          else raise RuntimeError
      end in
    match kron_over (o_pf K o) with
    | Some l =>
        cached_m K i "root_decomposition" (Some "root_decomposition") false (fun a k =>
          p <- lift (bind_params ["method"] a k) ;;
          if o_n K o <=? st_max_chol st
          then cached_m K i "root_decomposition" (Some "root_decomposition") false base [] [("method", nth 0 p PNone)]
          else match fuel with
               | O => raise ValueError
               | S f => rs <- mapM K (fun c => root_decomposition K st f c [] [("method", nth 0 p PNone)]) l ;;
                        ret (k_root_kron K (o_mat K o) rs)
               end) args kw
    | None =>
    match pf_cm_root (o_pf K o), fuel with
    | Some c, S f =>
        cached_m K i "root_decomposition" (Some "root_decomposition") false (fun a k =>
          p <- lift (bind_params ["method"] a k) ;;
          r <- root_decomposition K st f c [] [("method", nth 0 p PNone)] ;;
          ret (k_root_scale K (o_mat K o) r)) args kw
    | Some _, O => raise ValueError
    | None, _ => cached_m K i "root_decomposition" (Some "root_decomposition") false base args kw
    end
    end).
Proof. destruct fuel; reflexivity. Qed.

Lemma sound_root_base st fuel h1 i o' (a : list pyv) (k : kwargs) :
  get i h1 = Some o' -> obj_wf h1 o' ->
  sound h1
    (p <- lift (bind_params ["method"] a k) ;;
      if negb (o_square K o') then raise RuntimeError else
      if o_n K o' =? 1 then d <- to_dense K fuel i ;; ret (k_root_1x1 K d) else
      m0 <- lift (method_of (nth 0 p PNone)) ;;
      m <- match m0 with None => choose_root_method K st i | Some s => ret s end ;;
      r <- (if String.eqb m "cholesky"
            then catch (c <- cholesky K fuel i [] [] ;; ret (inl (k_cholop K c))) [RuntimeError] (ret (inr "symeig"))
            else ret (inr m)) ;;
      match r with
      | inl v => ret v
      | inr m =>
          if String.eqb m "pivoted_cholesky" then to_dense K fuel i ;;; ret (k_root_pivchol K (o_mat K o'))
          else if String.eqb m "symeig" then e <- symeig K fuel i true ;; ret (k_root_eig K e)
          else if String.eqb m "diagonalization" then e <- diagonalization K st fuel i [] [] ;; ret (k_root_eig K e)
          else if String.eqb m "svd" then u <- svd K fuel i ;; ret (k_root_svd K u)
          else if String.eqb m "lanczos" then r <- fresh_run K ;; ret (k_root_lanczos K (o_mat K o') r)
          else raise RuntimeError
      end)
    (valid ARoot (o_mat K o')).
Proof.
  intros G1 (_ & _ & _ & W1x1 & _).
  sstep; [apply sound_lift with (Q := fun _ => True); auto|]. intros p _.
  destruct (o_square K o') eqn:Esq; simpl negb; cbv iota.
  2:{ sstep. }
  destruct (o_n K o' =? 1) eqn:En.
  { apply Nat.eqb_eq in En. sstep; [apply (sound_to_dense _ h1 i o' G1)|]. intros d Hd. sstep.
    apply (ko_root_1x1 KO); auto. }
  sstep; [apply sound_lift with (Q := fun _ => True); auto|]. intros m0 _.
  eapply sound_bind with (Q1 := fun _ => True);
    [destruct m0; [sstep; exact Logic.I | apply sound_choose_root]|]. intros m _.
  sstep.
  - (* r : either the Cholesky root or the method to fall back to *)
    instantiate (1 := fun r => match r with inl v => valid ARoot (o_mat K o') v | inr _ => True end).
    sstep; [|sstep; exact Logic.I].
    sstep; [|sstep; exact Logic.I].
    sstep; [apply (sound_cholesky0 _ h1 i o' G1)|]. intros c Hc. sstep. apply (ko_cholop KO). exact Hc.
  - intros [v|m'] Hr; [sstep; exact Hr|].
    sstep; [sstep; [apply (sound_to_dense _ h1 i o' G1)|]; intros _ _; sstep; apply (ko_root_pivchol KO)|].
    sstep; [sstep; [apply (sound_symeig _ h1 i o' true G1)|]; intros e He; sstep; apply (ko_root_eig KO); exact He|].
    sstep; [sstep; [apply (sound_diagonalization st _ h1 i o' [] [] G1)|]; intros e He; sstep; apply (ko_root_eig KO); exact He|].
    sstep; [sstep; [apply (sound_svd _ h1 i o' G1)|]; intros u Hu; sstep; apply (ko_root_svd KO); exact Hu|].
    sstep; [sstep; [apply sound_fresh_run|]; intros r _; sstep; apply (ko_root_lanczos KO)|].
    sstep.
Qed.

Lemma sound_root_decomposition st fuel : forall h0 i o args kw, get i h0 = Some o ->
  sound h0 (root_decomposition K st fuel i args kw) (valid ARoot (o_mat K o)).
Proof.
  induction fuel as [|f IH]; intros h0 i o args kw G; rewrite root_decomposition_eq; cbv zeta;
    apply (sound_with_obj_wf h0 i o _ _ G); intros h1 o' E1 I1 G1 St W;
    rewrite (mat_eq _ _ St);
    (* the base method through its cache, under any arguments *)
    (assert (CB : forall fu a k, sound h1 (cached_m K i "root_decomposition" (Some "root_decomposition") false
                    (fun (a : list pyv) (k : kwargs) =>
                       p <- lift (bind_params ["method"] a k) ;;
                       if negb (o_square K o') then raise RuntimeError else
                       if o_n K o' =? 1 then d <- to_dense K fu i ;; ret (k_root_1x1 K d) else
                       m0 <- lift (method_of (nth 0 p PNone)) ;;
                       m <- match m0 with None => choose_root_method K st i | Some s => ret s end ;;
                       r <- (if String.eqb m "cholesky"
                             then catch (c <- cholesky K fu i [] [] ;; ret (inl (k_cholop K c))) [RuntimeError] (ret (inr "symeig"))
                             else ret (inr m)) ;;
                       match r with
                       | inl v => ret v
                       | inr m =>
                           if String.eqb m "pivoted_cholesky" then to_dense K fu i ;;; ret (k_root_pivchol K (o_mat K o'))
                           else if String.eqb m "symeig" then e <- symeig K fu i true ;; ret (k_root_eig K e)
                           else if String.eqb m "diagonalization" then e <- diagonalization K st fu i [] [] ;; ret (k_root_eig K e)
                           else if String.eqb m "svd" then u <- svd K fu i ;; ret (k_root_svd K u)
                           else if String.eqb m "lanczos" then r <- fresh_run K ;; ret (k_root_lanczos K (o_mat K o') r)
                           else raise RuntimeError
                       end) a k) (valid ARoot (o_mat K o')))
     by (intros fu a k;
         (eapply sound_weaken; [apply (sound_cached h1 i o' "root_decomposition" (Some "root_decomposition") false _ a k G1)
                               | unfold key_of; simpl name_of_opt; intros v Hv; apply (entry1_elim _ _ _ _ (aspects_root a k)); exact Hv]);
         unfold key_of; simpl name_of_opt;
         (eapply sound_weaken; [apply (sound_root_base st fu h1 i o' a k G1 W)
                               | intros v Hv; apply (entry1_intro _ _ _ _ (aspects_root a k)); exact Hv])));
    idtac.
  - (* no fuel for children *)
    destruct (kron_over (o_pf K o')) as [l|] eqn:Ek.
    2:{ destruct (pf_cm_root (o_pf K o')) as [c|] eqn:Ecm; [sstep | apply CB]. }
    + eapply sound_weaken; [apply (sound_cached h1 i o' "root_decomposition" (Some "root_decomposition") false _ args kw G1)
                           | unfold key_of; simpl name_of_opt; intros v Hv; apply (entry1_elim _ _ _ _ (aspects_root args kw)); exact Hv].
      unfold key_of. simpl name_of_opt.
      eapply sound_weaken; [|intros v Hv; apply (entry1_intro _ _ _ _ (aspects_root args kw)); exact Hv].
      sstep; [apply sound_lift with (Q := fun _ => True); auto|]. intros p _.
      sstep; [apply CB | sstep].
  - assert (CM : forall c, pf_cm_root (o_pf K o') = Some c ->
              sound h1 (cached_m K i "root_decomposition" (Some "root_decomposition") false
                          (fun (a : list pyv) (k : kwargs) =>
                             p <- lift (bind_params ["method"] a k) ;;
                             r <- root_decomposition K st f c [] [("method", nth 0 p PNone)] ;;
                             ret (k_root_scale K (o_mat K o') r)) args kw) (valid ARoot (o_mat K o'))).
    { intros c Ecm. destruct W as (_ & W2 & _). destruct (W2 c Ecm) as (oc & Gc & Sc).
      eapply sound_weaken; [apply (sound_cached h1 i o' "root_decomposition" (Some "root_decomposition") false _ args kw G1)
                           | unfold key_of; simpl name_of_opt; intros v Hv; apply (entry1_elim _ _ _ _ (aspects_root args kw)); exact Hv].
      unfold key_of. simpl name_of_opt.
      eapply sound_weaken; [|intros v Hv; apply (entry1_intro _ _ _ _ (aspects_root args kw)); exact Hv].
      sstep; [apply sound_lift with (Q := fun _ => True); auto|]. intros p _.
      sstep; [apply (IH h1 c oc _ _ Gc)|]. intros r Hr. sstep. eapply (ko_root_scale KO); eauto. }
    destruct (kron_over (o_pf K o')) as [l|] eqn:Ek.
    2:{ destruct (pf_cm_root (o_pf K o')) as [c|] eqn:Ecm; [apply (CM c eq_refl) | apply CB]. }
    + (* Kron: small -> the base method (a second cache entry); else the product of the factors' roots *)
      destruct W as (_ & _ & _ & _ & _ & W6). destruct (W6 l (kron_over_some _ _ Ek)) as (ms & F & Kr).
      eapply sound_weaken; [apply (sound_cached h1 i o' "root_decomposition" (Some "root_decomposition") false _ args kw G1)
                           | unfold key_of; simpl name_of_opt; intros v Hv; apply (entry1_elim _ _ _ _ (aspects_root args kw)); exact Hv].
      unfold key_of. simpl name_of_opt.
      eapply sound_weaken; [|intros v Hv; apply (entry1_intro _ _ _ _ (aspects_root args kw)); exact Hv].
      sstep; [apply sound_lift with (Q := fun _ => True); auto|]. intros p _.
      sstep; [apply CB|].
      sstep; [apply (sound_mapM h1 _ (fun m => valid ARoot m) l ms F); intros c oc Gc; apply (IH h1 c oc _ _ Gc)|].
      intros rs Hrs. sstep. eapply (ko_root_kron KO); eauto.
Qed.

(* ------------------------------------------------------------------ root_inv_decomposition *)
Lemma root_inv_decomposition_eq st fuel i args kw :
  root_inv_decomposition K fl st fuel i args kw =
  root_inv_body K fl (match fuel with
                   | O => fun _ _ _ => raise ValueError
                   | S f => root_inv_decomposition K fl st f
                   end) st fuel i args kw.
Proof. destruct fuel; reflexivity. Qed.

Lemma sound_root_inv_base st fuel h1 i o' a k : get i h1 = Some o' -> obj_wf h1 o' ->
  sound h1 (root_inv_base K st fuel i o' a k) (valid ARootInv (o_mat K o')).
Proof.
  intros G1 W. assert (W' := W). destruct W' as (_ & _ & _ & W1x1 & _). unfold root_inv_base.
  eapply sound_weaken; [apply (sound_cached h1 i o' "root_inv_decomposition" (Some "root_inv_decomposition") false _ a k G1)
                       | unfold key_of; simpl name_of_opt; intros v Hv; apply (entry1_elim _ _ _ _ (aspects_rootinv a k)); exact Hv].
  unfold key_of. simpl name_of_opt.
  eapply sound_weaken; [|intros v Hv; apply (entry1_intro _ _ _ _ (aspects_rootinv a k)); exact Hv].
  sstep; [apply sound_lift with (Q := fun _ => True); auto|]. intros p _.
  destruct (o_square K o') eqn:Esq; simpl negb; cbv iota.
  2:{ sstep. }
  destruct (o_n K o' =? 1) eqn:En.
  { apply Nat.eqb_eq in En. sstep; [apply (sound_to_dense _ h1 i o' G1)|]. intros d Hd. sstep.
    apply (ko_rootinv_1x1 KO); auto. }
  sstep; [apply sound_lift with (Q := fun _ => True); auto|]. intros m0 _.
  eapply sound_bind with (Q1 := fun _ => True);
    [destruct m0; [sstep; exact Logic.I | apply sound_choose_root]|]. intros m _.
  sstep; [sstep; [apply (sound_cholesky0 _ h1 i o' G1)|]; intros L HL; sstep; apply (ko_rootinv_chol KO); exact HL|].
  sstep.
  { (* lanczos: the root of the same run is written into the cache as a side effect *)
    sstep; [sstep|].
    sstep; [apply sound_fresh_run|]. intros r _.
    destruct (deleg_kid (o_pf K o')) as [c|] eqn:Ed.
    - (* delegating class: the by-product lands in the cache of the base operator, valid for ITS matrix *)
      destruct (deleg_wf h1 o' c W Ed) as (oc & Gc & Kr).
      apply (sound_with_obj h1 c oc _ _ Gc). intros oc' Stc. rewrite <- (mat_eq _ _ Stc).
      destruct (ko_rootinv_lanczos KO (o_mat K oc) r) as (Hinv & Hroot).
      destruct (k_rootinv_lanczos K (o_mat K oc) r) as [inv_root root]. simpl in Hinv, Hroot.
      sstep; [apply (sound_add_to_cache h1 c oc "root_decomposition" root [] [] Gc);
              apply (entry1_intro _ _ _ _ (aspects_root [] [])); exact Hroot|].
      intros _ _. sstep. apply (ko_wrap_root KO). eapply (ko_deleg_lift KO); eauto.
    - destruct (ko_rootinv_lanczos KO (o_mat K o') r) as (Hinv & Hroot).
      destruct (k_rootinv_lanczos K (o_mat K o') r) as [inv_root root]. simpl in Hinv, Hroot.
      sstep; [apply (sound_add_to_cache h1 i o' "root_decomposition" root [] [] G1);
              apply (entry1_intro _ _ _ _ (aspects_root [] [])); exact Hroot|].
      intros _ _. sstep. apply (ko_wrap_root KO). exact Hinv. }
  sstep; [sstep; [apply (sound_symeig _ h1 i o' true G1)|]; intros e He; sstep; apply (ko_rootinv_eig KO); exact He|].
  sstep; [sstep; [apply (sound_diagonalization st _ h1 i o' [] [] G1)|]; intros e He; sstep; apply (ko_rootinv_eig KO); exact He|].
  sstep; [sstep; [apply (sound_svd _ h1 i o' G1)|]; intros u Hu; sstep; apply (ko_rootinv_svd KO); exact Hu|].
  sstep; [sstep; [apply (sound_root_decomposition st _ h1 i o' [] [] G1)|]; intros r Hr; sstep;
          apply (ko_rootinv_pinv KO); apply (ko_root_factor KO); exact Hr|].
  sstep.
Qed.

(* the body of root_inv_decomposition, given that the calls on the factors of a Kronecker product are sound *)
Lemma sound_root_inv_body st fuel (kc : nat -> list pyv -> kwargs -> H Val) h0 i o args kw :
  (forall h1 c oc a k, get c h1 = Some oc -> sound h1 (kc c a k) (valid ARootInv (o_mat K oc))) ->
  get i h0 = Some o ->
  sound h0 (root_inv_body K fl kc st fuel i args kw) (valid ARootInv (o_mat K o)).
Proof.
  intros Skc G. unfold root_inv_body.
  apply (sound_with_obj_wf h0 i o _ _ G); intros h1 o' E1 I1 G1 St W.
  rewrite (mat_eq _ _ St). cbv zeta.
  destruct (kron_over (o_pf K o')) as [l|] eqn:Ek; [|apply (sound_root_inv_base st fuel h1 i o' _ _ G1 W)].
  (* Kron: its own cached method; small -> super().root_inv_decomposition() (no arguments); else the factors *)
  assert (W' := W). destruct W' as (_ & _ & _ & _ & _ & W6). destruct (W6 l (kron_over_some _ _ Ek)) as (ms & F & Kr).
  eapply sound_weaken; [apply (sound_cached h1 i o' "root_inv_decomposition" (Some "root_inv_decomposition") false _ args kw G1)
                       | unfold key_of; simpl name_of_opt; intros v Hv; apply (entry1_elim _ _ _ _ (aspects_rootinv args kw)); exact Hv].
  unfold key_of. simpl name_of_opt.
  eapply sound_weaken; [|intros v Hv; apply (entry1_intro _ _ _ _ (aspects_rootinv args kw)); exact Hv].
  sstep; [apply sound_lift with (Q := fun _ => True); auto|]. intros p _.
  sstep; [destruct (fl_kron_rootinv_noargs fl); apply (sound_root_inv_base st fuel h1 i o' _ _ G1 W)|].
  sstep; [apply (sound_mapM h1 _ (fun m => valid ARootInv m) l ms F); intros c oc Gc; apply (Skc h1 c oc _ _ Gc)|].
  intros rs Hrs. sstep. eapply (ko_rootinv_kron KO); eauto.
Qed.

Lemma sound_root_inv st fuel : forall h0 i o args kw, get i h0 = Some o ->
  sound h0 (root_inv_decomposition K fl st fuel i args kw) (valid ARootInv (o_mat K o)).
Proof.
  induction fuel as [|f IH]; intros h0 i o args kw G; rewrite root_inv_decomposition_eq;
    apply sound_root_inv_body; auto.
  intros h1 c oc a k _. sstep.
Qed.

(* ------------------------------------------------------------------ eigh / eigvalsh
   sound only when no ("symeig", eigenvectors=True) entry is cached: with such an entry the code returns
   (evals, None) - see eigh_after_cached_symeig in Property.v *)
Definition no_symeig (i : nat) (h : heap) : Prop :=
  forall o, get i h = Some o -> d_get (dict_of (o_memo K o)) (KFull (NStr "symeig") [] [("eigenvectors", PBool true)]) = None.

Lemma pop_miss i h o :
  get i h = Some o -> d_get (dict_of (o_memo K o)) (KFull (NStr "symeig") [] [("eigenvectors", PBool true)]) = None ->
  py_pop_from_cache (L := obj_lens K i) (NStr "symeig") [] [("eigenvectors", PBool true)] h = (Raise CachingError, h).
Proof. intros G N. rewrite pop_from_cache_spec, (lget_obj _ _ _ G), N. reflexivity. Qed.

Lemma bind_raise {A B} (m : H A) (f : A -> H B) h e h' : m h = (Raise e, h') -> bind m f h = (Raise e, h').
Proof. unfold bind. intros ->. reflexivity. Qed.
Lemma catch_miss {A} (m : H A) exs (hd : H A) h e h' :
  m h = (Raise e, h') -> exn_in e exs = true -> catch m exs hd h = hd h'.
Proof. unfold catch. intros -> ->. reflexivity. Qed.

Lemma aspects_symeig a k : aspects_of_key (KFull (NStr "symeig") a k) = [AEig true].
Proof. reflexivity. Qed.

Lemma eigh_step fuel i h o : Inv h -> get i h = Some o -> (fl_eigh_none fl = true -> no_symeig i h) ->
  Inv (snd (eigh K fl fuel i h)) /\ ext h (snd (eigh K fl fuel i h)) /\
  match fst (eigh K fl fuel i h) with Ok v => valid (AEig true) (o_mat K o) v | Raise _ => True end.
Proof.
  intros I G N. unfold eigh. destruct (fl_eigh_none fl) eqn:Ef.
  - rewrite (catch_miss _ [CachingError] _ h CachingError h (bind_raise _ _ _ _ _ (pop_miss i h o G (N eq_refl o G))) eq_refl).
    exact (sound_symeig fuel h i o true G h (ext_refl h) I).
  - (* the repaired branch returns the popped (evals, evecs): a valid entry *)
    assert (Sd : sound h (catch (e <- py_pop_from_cache (L := obj_lens K i) (NStr "symeig") [] [("eigenvectors", PBool true)] ;; ret e)
                                [CachingError] (symeig K fuel i true)) (valid (AEig true) (o_mat K o))).
    { sstep; [|apply (sound_symeig fuel h i o true G)].
      sstep; [apply (sound_pop h i o "symeig" _ _ G)|]. intros e He. sstep.
      apply (entry1_elim _ _ _ _ (aspects_symeig _ _) He). }
    exact (Sd h (ext_refl h) I).
Qed.

Lemma eigvalsh_step fuel i h o : Inv h -> get i h = Some o -> (fl_eigvalsh_tuple fl = true -> no_symeig i h) ->
  Inv (snd (eigvalsh K fl fuel i h)) /\ ext h (snd (eigvalsh K fl fuel i h)) /\
  match fst (eigvalsh K fl fuel i h) with Ok v => valid AEvals (o_mat K o) v | Raise _ => True end.
Proof.
  intros I G N. unfold eigvalsh.
  assert (S2 : sound h (e <- symeig K fuel i false ;; ret (k_evals K e)) (valid AEvals (o_mat K o))).
  { sstep; [apply (sound_symeig fuel h i o false G)|]. intros e He. sstep. eapply (ko_evals KO). exact He. }
  destruct (fl_eigvalsh_tuple fl) eqn:Ef.
  - rewrite (catch_miss _ [CachingError] _ h CachingError h (bind_raise _ _ _ _ _ (pop_miss i h o G (N eq_refl o G))) eq_refl).
    exact (S2 h (ext_refl h) I).
  - assert (Sd : sound h (catch (e <- py_pop_from_cache (L := obj_lens K i) (NStr "symeig") [] [("eigenvectors", PBool true)] ;;
                                 ret (k_evals K e)) [CachingError]
                                (e <- symeig K fuel i false ;; ret (k_evals K e))) (valid AEvals (o_mat K o))).
    { sstep; [|exact S2].
      sstep; [apply (sound_pop h i o "symeig" _ _ G)|]. intros e He. sstep.
      eapply (ko_evals KO). apply (entry1_elim _ _ _ _ (aspects_symeig _ _) He). }
    exact (Sd h (ext_refl h) I).
Qed.

(* ------------------------------------------------------------------ preconditioner (ad-hoc caches of AddedDiag) *)
Definition put_adhoc (i : nat) (a : option (nat * Val)) (h : heap) : heap :=
  {| h_objs := upd i (set_adhoc K a) (h_objs K h); h_ctr := h_ctr K h |}.

Lemma get_put_adhoc i j a h :
  get j (put_adhoc i a h) = if Nat.eqb i j then option_map (set_adhoc K a) (get j h) else get j h.
Proof. destruct h as [os c]. unfold get, get_obj, put_adhoc. simpl. apply nth_error_upd. Qed.

Lemma ext_put_adhoc i a h : ext h (put_adhoc i a h).
Proof.
  intros j o G. rewrite get_put_adhoc. destruct (Nat.eqb i j); rewrite G; simpl.
  - eexists; split; eauto. repeat split.
  - eexists; split; eauto using static_eq_refl.
Qed.

Lemma Inv_put_adhoc i r p h o :
  Inv h -> get i h = Some o -> valid APrecond (o_mat K o) p -> Inv (put_adhoc i (Some (r, p)) h).
Proof.
  intros I G Vp j oj Gj. rewrite get_put_adhoc in Gj.
  destruct (Nat.eqb i j) eqn:Eij.
  - apply Nat.eqb_eq in Eij; subst j. rewrite G in Gj. simpl in Gj. inversion Gj; subst oj.
    destruct (I i o G) as (Mo & Ad & Wf). split; [exact Mo|]. split.
    + simpl. intros r' p' Hp. inversion Hp; subst. exact Vp.
    + eapply obj_wf_ext; eauto using ext_put_adhoc. repeat split.
  - destruct (I j oj Gj) as (Mj & Ad & Wf). split; [exact Mj|]. split; [exact Ad|].
    eapply obj_wf_ext; eauto using ext_put_adhoc, static_eq_refl.
Qed.

Lemma sound_preconditioner st h0 i o : get i h0 = Some o ->
  sound h0 (preconditioner K st i) (valid APrecond (o_mat K o)).
Proof.
  intros G. unfold preconditioner.
  apply (sound_with_obj_wf h0 i o _ _ G); intros h1 o' E1 I1 G1 St _.
  rewrite (mat_eq _ _ St).
  sstep; [sstep; apply (ko_no_precond KO)|].
  sstep; [sstep; apply (ko_no_precond KO)|].
  destruct (o_adhoc K o') as [[r p]|] eqn:Ead.
  - sstep. destruct (I1 i o' G1) as (_ & Ad & _). eapply Ad; eauto.
  - intros h E I. cbn [fst snd].
    destruct (E i o' G1) as (o2 & G2 & St2).
    change {| h_objs := upd i (set_adhoc K (Some (st_precond_size st, k_precond K (o_mat K o') (st_precond_size st)))) (h_objs K h);
              h_ctr := h_ctr K h |}
      with (put_adhoc i (Some (st_precond_size st, k_precond K (o_mat K o') (st_precond_size st))) h).
    split; [|split; [apply ext_put_adhoc | apply (ko_precond KO)]].
    eapply Inv_put_adhoc; eauto. rewrite <- (mat_eq _ _ St2). apply (ko_precond KO).
Qed.

(* ------------------------------------------------------------------ inv_quad_logdet, logdet, solve, diagonal, sample *)
Lemma sound_iqld_base st fuel h1 i o' r l : get i h1 = Some o' ->
  sound h1 (inv_quad_logdet_base K st fuel i o' r l) (valid (AIqld r l) (o_mat K o')).
Proof.
  intros G1. unfold inv_quad_logdet_base. cbv zeta.
  sstep.
  - sstep; [apply sound_in_cache_all|]. intros b _.
    eapply sound_bind with (Q1 := fun t => match t with Some x => valid AFactor (o_mat K o') x /\ v_is_tri K x = true | None => True end).
    + sstep; [|sstep; exact Logic.I].
      sstep; [apply (sound_root_decomposition st _ h1 i o' [] [] G1)|]. intros r0 Hr. sstep.
      destruct (v_is_tri K (v_root K r0)) eqn:Et; [|exact Logic.I]. split; [apply (ko_root_factor KO); exact Hr | exact Et].
    + intros [t|] Ht.
      * destruct Ht as (Hf & Htri). sstep; [sstep|sstep; eapply (ko_iqld_tri KO); eauto].
      * sstep; [apply (sound_cholesky0 _ h1 i o' G1)|]. intros c Hc.
        sstep; [sstep|sstep; apply (ko_iqld_chol KO); exact Hc].
  - destruct l; simpl negb; cbv iota.
    + sstep; [sstep|].
      sstep; [apply (sound_preconditioner st h1 i o' G1)|]. intros p Hp. sstep. apply (ko_iqld_cg KO). exact Hp.
    + destruct r as [r|]; [|sstep]. sstep; [sstep|]. sstep.
      apply (ko_iqld_cg KO). apply (ko_no_precond KO).
Qed.

Lemma inv_quad_logdet_eq st fuel i rhs ld :
  inv_quad_logdet K st fuel i rhs ld =
  inv_quad_logdet_body K (match fuel with
                          | O => fun _ _ _ => raise ValueError
                          | S f => inv_quad_logdet K st f
                          end) st fuel i rhs ld.
Proof. destruct fuel; reflexivity. Qed.

(* the body of inv_quad_logdet, given that the call on the base operator of a delegating class is sound *)
Lemma sound_iqld_body st fuel (kc : nat -> option nat -> bool -> H Val) h0 i o rhs ld :
  (forall h1 c oc r l, get c h1 = Some oc -> sound h1 (kc c r l) (valid (AIqld r l) (o_mat K oc))) ->
  get i h0 = Some o ->
  sound h0 (inv_quad_logdet_body K kc st fuel i rhs ld) (valid (AIqld rhs ld) (o_mat K o)).
Proof.
  intros Skc G. unfold inv_quad_logdet_body.
  apply (sound_with_obj_wf h0 i o _ _ G); intros h1 o' E1 I1 G1 St W.
  rewrite (mat_eq _ _ St). cbv zeta.
  destruct (deleg_kid (o_pf K o')) as [c|] eqn:Ed.
  - (* BlockDiag / BatchRepeat: the base operator's inv_quad_logdet (its caches), reshaped *)
    destruct (deleg_wf h1 o' c W Ed) as (oc & Gc & Kr).
    apply (sound_with_obj h1 c oc _ _ Gc). intros oc' Stc.
    sstep; [apply (Skc h1 c oc rhs ld Gc)|]. intros r Hr.
    sstep; [sstep|]. sstep; [sstep|]. sstep. eapply (ko_iqld_deleg KO); eauto.
  - destruct (kron_over (o_pf K o')) as [l|] eqn:Ek; [|apply (sound_iqld_base st fuel h1 i o' _ _ G1)].
    (* Kron: inv_quad from super().inv_quad_logdet(rhs, logdet=False), logdet from the cached diagonalization *)
    eapply sound_bind with (Q1 := fun iq => match rhs, iq with
                                            | Some _, Some x => valid (AIqld rhs false) (o_mat K o') x
                                            | None, None => True
                                            | _, _ => False end).
    { destruct rhs as [r|]; [|sstep; exact Logic.I].
      sstep; [apply (sound_iqld_base st fuel h1 i o' _ _ G1)|]. intros x Hx. sstep. exact Hx. }
    intros iq Hiq.
    eapply sound_bind with (Q1 := fun e => match ld, e with
                                           | true, Some e' => valid (AEig true) (o_mat K o') e'
                                           | false, None => True
                                           | _, _ => False end).
    { destruct ld; [|sstep; exact Logic.I]. sstep; [apply (sound_diagonalization st _ h1 i o' [] [] G1)|]. intros e He. sstep. exact He. }
    intros e He. sstep. apply (ko_iqld_kron KO); auto.
Qed.

Lemma sound_iqld st fuel : forall h0 i o rhs ld, get i h0 = Some o ->
  sound h0 (inv_quad_logdet K st fuel i rhs ld) (valid (AIqld rhs ld) (o_mat K o)).
Proof.
  induction fuel as [|f IH]; intros h0 i o rhs ld G; rewrite inv_quad_logdet_eq;
    apply sound_iqld_body; auto.
  intros h1 c oc r l _. sstep.
Qed.

Lemma sound_logdet st fuel h0 i o : get i h0 = Some o ->
  sound h0 (logdet K st fuel i) (valid ALogdet (o_mat K o)).
Proof.
  intros G. unfold logdet. sstep; [apply (sound_iqld st fuel h0 i o None true G)|].
  intros r Hr. sstep. apply (ko_snd KO). exact Hr.
Qed.

Lemma sound_solve st h0 i o rhs : get i h0 = Some o -> sound h0 (solve K st i rhs) (valid (ASolve rhs) (o_mat K o)).
Proof.
  intros G. unfold solve. apply (sound_with_obj h0 i o _ _ G). intros o' St. rewrite (mat_eq _ _ St).
  sstep; [sstep|]. sstep. intros v Hv. eapply (ko_solve KO); eauto.
Qed.

Lemma sound_diagonal h0 i o : get i h0 = Some o -> sound h0 (diagonal K i) (valid ADiagonal (o_mat K o)).
Proof.
  intros G. unfold diagonal. apply (sound_with_obj h0 i o _ _ G). intros o' St. rewrite (mat_eq _ _ St).
  sstep; [sstep|]. sstep. apply (ko_diagonal KO).
Qed.

Lemma sample_eq st fuel i z :
  sample K st fuel i z =
  sample_body K (match fuel with
                 | O => fun _ _ => raise ValueError
                 | S f => sample K st f
                 end) st fuel i z.
Proof. destruct fuel; reflexivity. Qed.

Lemma sound_sample_body st fuel (kc : nat -> nat -> H Val) h0 i o z :
  (forall h1 c oc n, get c h1 = Some oc -> sound h1 (kc c n) (valid (ASample n) (o_mat K oc))) ->
  get i h0 = Some o ->
  sound h0 (sample_body K kc st fuel i z) (valid (ASample z) (o_mat K o)).
Proof.
  intros Skc G. unfold sample_body.
  apply (sound_with_obj_wf h0 i o _ _ G); intros h1 o' E1 I1 G1 St W.
  assert (W' := W). destruct W' as (_ & _ & _ & W1x1 & _).
  rewrite (mat_eq _ _ St).
  assert (Base : sound h1 (if st_ciq st then ret (k_sample_ciq K (o_mat K o') z)
                           else if (o_n K o' =? 1) && o_square K o'
                                then d <- to_dense K fuel i ;; ret (k_sample_1x1 K d z)
                                else r <- root_decomposition K st fuel i [] [] ;; ret (k_sample_root K (v_root K r) z))
                          (valid (ASample z) (o_mat K o'))).
  { sstep; [sstep; apply (ko_sample_ciq KO)|].
    destruct ((o_n K o' =? 1) && o_square K o') eqn:E1x1.
    - apply andb_prop in E1x1. destruct E1x1 as (En & Esq). apply Nat.eqb_eq in En.
      sstep; [apply (sound_to_dense _ h1 i o' G1)|]. intros d Hd. sstep. apply (ko_sample_1x1 KO); auto.
    - sstep; [apply (sound_root_decomposition st _ h1 i o' [] [] G1)|]. intros r Hr. sstep.
      apply (ko_sample_root KO). apply (ko_root_factor KO). exact Hr. }
  destruct (deleg_kid (o_pf K o')) as [c|] eqn:Ed; [|exact Base].
  destruct (pf_deleg (o_pf K o')) as [[|]|] eqn:Eb; try exact Base.
  (* BlockDiag: the base operator's samples, reshaped *)
  destruct (deleg_wf h1 o' c W Ed) as (oc & Gc & Kr).
  sstep; [apply (Skc h1 c oc z Gc)|]. intros v Hv. sstep. eapply (ko_sample_deleg KO); eauto.
Qed.

Lemma sound_sample st fuel : forall h0 i o z, get i h0 = Some o ->
  sound h0 (sample K st fuel i z) (valid (ASample z) (o_mat K o)).
Proof.
  induction fuel as [|f IH]; intros h0 i o z G; rewrite sample_eq; apply sound_sample_body; auto.
  intros h1 c oc n _. sstep.
Qed.

(* ------------------------------------------------------------------ one query *)
Definition query_ok (i : nat) (q : query) (h : heap) : Prop :=
  match q with
  | QEigh => fl_eigh_none fl = true -> no_symeig i h
  | QEigvalsh => fl_eigvalsh_tuple fl = true -> no_symeig i h
  | _ => True
  end.

Definition res_ok {A} (r : res A) (Q : A -> Prop) : Prop := match r with Ok a => Q a | Raise _ => True end.

Lemma run_query_sound st i q h o : Inv h -> get i h = Some o -> query_ok i q h ->
  Inv (snd (run_query K fl st i q h)) /\ ext h (snd (run_query K fl st i q h)) /\
  res_ok (fst (run_query K fl st i q h)) (valid (aspect_of_query q) (o_mat K o)).
Proof.
  intros I G Qk. unfold res_ok.
  destruct q; cbn [run_query aspect_of_query].
  - exact (sound_to_dense _ h i o G h (ext_refl h) I).
  - exact (sound_cholesky _ h i o args kw G h (ext_refl h) I).
  - exact (sound_root_decomposition st _ h i o args kw G h (ext_refl h) I).
  - exact (sound_root_inv st _ h i o args kw G h (ext_refl h) I).
  - exact (sound_diagonalization st _ h i o args kw G h (ext_refl h) I).
  - exact (sound_svd _ h i o G h (ext_refl h) I).
  - exact (eigh_step _ i h o I G Qk).
  - exact (eigvalsh_step _ i h o I G Qk).
  - exact (sound_solve st h i o rhs G h (ext_refl h) I).
  - exact (sound_logdet st _ h i o G h (ext_refl h) I).
  - exact (sound_iqld st _ h i o (Some rhs) logdet G h (ext_refl h) I).
  - exact (sound_diagonal h i o G h (ext_refl h) I).
  - exact (sound_preconditioner st h i o G h (ext_refl h) I).
  - exact (sound_sample st _ h i o noise G h (ext_refl h) I).
Qed.

(* ------------------------------------------------------------------ derivations *)
Definition happ (h : heap) (l : list obj) : heap := {| h_objs := h_objs K h ++ l; h_ctr := h_ctr K h |}.

(* the new objects are appended one by one; each one's profile must be honest in the heap it is appended to *)
Fixpoint allocs_wf (h : heap) (l : list obj) : Prop :=
  match l with
  | [] => True
  | x :: r => o_memo K x = None /\ o_adhoc K x = None /\ obj_wf h x /\ allocs_wf (happ h [x]) r
  end.

Lemma happ_nil h : happ h [] = h.
Proof. destruct h. unfold happ. simpl. rewrite app_nil_r. reflexivity. Qed.
Lemma happ_app h a b : happ (happ h a) b = happ h (a ++ b).
Proof. unfold happ. simpl. rewrite app_assoc. reflexivity. Qed.

Lemma alloc_all_step l : forall h, Inv h -> allocs_wf h l ->
  alloc_all K l h = (Ok tt, happ h l) /\ Inv (happ h l) /\ ext h (happ h l).
Proof.
  induction l as [|x r IH]; intros h I W; simpl.
  - rewrite happ_nil. auto using ext_refl.
  - destruct W as (Em & Ea & Wx & Wr).
    assert (I1 : Inv (happ h [x])) by (apply Inv_alloc; auto).
    destruct (IH (happ h [x]) I1 Wr) as (Er & I2 & E2).
    rewrite happ_app in Er, I2, E2. simpl app in Er, I2, E2.
    unfold bind, alloc. cbn [fst snd]. fold (happ h [x]). rewrite Er.
    split; [reflexivity|]. split; [exact I2|]. eapply ext_trans; [apply ext_alloc|]. fold (happ h [x]). exact E2.
Qed.

Definition roots_ok (A : Mat) (x : nat * option (Val * Val)) : Prop :=
  match snd x with Some (L, Mi) => valid ARoot A L /\ valid ARootInv A Mi | None => True end.

Lemma get_happ_last h x : get (List.length (h_objs K h)) (happ h [x]) = Some x.
Proof. unfold get, get_obj, happ. simpl. rewrite nth_error_app2 by lia. rewrite Nat.sub_diag. reflexivity. Qed.

Lemma bind_ok {A B} (m : H A) (f : A -> H B) h a h1 : m h = (Ok a, h1) -> bind m f h = f a h1.
Proof. unfold bind. intros ->. reflexivity. Qed.

Lemma deriv_roots_step st i d kids res_ h o :
  Inv h -> get i h = Some o ->
  allocs_wf h (map (fun x => mk_obj K x (no_mat K x)) kids ++ [mk_obj K res_ (deriv_mat K d (o_mat K o))]) ->
  let r := deriv_roots K fl st i d kids res_ h in
  Inv (snd r) /\ ext h (snd r) /\
  res_ok (fst r) (fun x => roots_ok (o_mat K o) x /\
                           exists oj, get (fst x) (snd r) = Some oj /\ o_mat K oj = deriv_mat K d (o_mat K o)).
Proof.
  intros I G W. unfold deriv_roots, with_obj. unfold get in G. rewrite G. fold (get i h) in G.
  set (ks := map (fun x => mk_obj K x (no_mat K x)) kids) in *.
  set (rs := mk_obj K res_ (deriv_mat K d (o_mat K o))) in *.
  destruct (alloc_all_step (ks ++ [rs]) h I W) as (_ & I2 & E2).
  assert (Wk : allocs_wf h ks /\ allocs_wf (happ h ks) [rs]).
  { clear - W. revert h W. induction ks as [|x r IH]; intros h W; simpl in *.
    - rewrite happ_nil. auto.
    - destruct W as (a & b & c & W). destruct (IH _ W) as (W1 & W2). rewrite happ_app in W2. simpl in W2. auto. }
  destruct Wk as (Wks & Wrs).
  destruct (alloc_all_step ks h I Wks) as (Ek & Ik & Extk).
  rewrite (bind_ok _ _ _ _ _ Ek).
  set (j := List.length (h_objs K (happ h ks))).
  set (h2 := happ (happ h ks) [rs]).
  assert (Ea : alloc K rs (happ h ks) = (Ok j, h2)) by reflexivity.
  rewrite (bind_ok _ _ _ _ _ Ea).
  assert (I2' : Inv h2) by (destruct Wrs as (a & b & c & _); apply Inv_alloc; auto).
  assert (E2' : ext h h2) by (eapply ext_trans; [exact Extk | apply ext_alloc]).
  assert (Gj : get j h2 = Some rs) by apply get_happ_last.
  destruct (E2' i o G) as (o2 & G2 & St2).
  (* the rest of the computation is sound from h2 *)
  assert (Rest : forall (m : H (nat * option (Val * Val))),
            sound h2 m (fun x => roots_ok (o_mat K o) x /\ fst x = j) ->
            Inv (snd (m h2)) /\ ext h (snd (m h2)) /\
            res_ok (fst (m h2)) (fun x => roots_ok (o_mat K o) x /\
                                         exists oj, get (fst x) (snd (m h2)) = Some oj /\ o_mat K oj = deriv_mat K d (o_mat K o))).
  { intros m Sm. destruct (Sm h2 (ext_refl h2) I2') as (I3 & E3 & R3).
    split; [exact I3|]. split; [eapply ext_trans; eauto|].
    unfold res_ok. destruct (fst (m h2)) as [x|]; [|exact Logic.I]. destruct R3 as (Rk & Ej). split; [exact Rk|].
    destruct (E3 j rs Gj) as (oj & Goj & Stj). exists oj. rewrite Ej. split; [exact Goj|].
    rewrite <- (mat_eq _ _ Stj). reflexivity. }
  assert (Em : o_mat K o = o_mat K o2) by (apply mat_eq; exact St2).
  assert (HR : sound h2 (b1 <- in_cache_bare K i "root_decomposition" ;;
                         if b1 then ret true else in_cache_bare K i "root_inv_decomposition") (fun _ => True)).
  { sstep; [apply sound_in_cache_bare|]. intros b1 _. sstep; [sstep; exact Logic.I | apply sound_in_cache_bare]. }
  destruct d; try (apply Rest; sstep; split; [exact Logic.I | reflexivity]).
  - (* add_low_rank *)
    apply Rest.
    eapply sound_bind with (Q1 := fun _ => True).
    { sstep; [|sstep; exact Logic.I].
      generalize (pf_td_kids (o_pf K o)). intros l. induction l as [|c r IHl].
      - sstep. exact Logic.I.
      - sstep; [|intros _ _; exact IHl].
        apply (sound_any (to_dense K (S i)) (valid ADense)); [intros; apply sound_to_dense; auto | intros; apply to_dense_none; auto]. }
    intros _ _. sstep; [apply HR|]. intros hr _.
    sstep; [sstep; split; [exact Logic.I | reflexivity]|].
    sstep; [apply (sound_root_decomposition st _ h2 i o2 _ _ G2)|]. intros L HL.
    sstep; [apply (sound_root_inv st _ h2 i o2 _ _ G2)|]. intros Mi HM.
    sstep. split; [|reflexivity]. unfold roots_ok. simpl. rewrite Em. auto.
  - (* cat_rows *)
    apply Rest.
    sstep; [apply HR|]. intros hr _.
    sstep; [sstep; split; [exact Logic.I | reflexivity]|].
    sstep; [apply (sound_root_decomposition st _ h2 i o2 _ _ G2)|]. intros L HL.
    sstep; [apply (sound_root_inv st _ h2 i o2 _ _ G2)|]. intros Mi HM.
    sstep. split; [|reflexivity]. unfold roots_ok. simpl. rewrite Em. auto.
Qed.

(* the compatibility hypothesis of a transplant, on the values the derivation was handed *)
Definition transplant_ok (d : deriv) (x : nat * option (Val * Val)) : Prop :=
  match snd x, d with
  | Some (L, Mi), DAddLowRank _ _ _ _ =>
      compat (v_root K L) (v_root K Mi) /\ (fl_lr_wraps fl = true -> v_is_tri K (v_root K L) = false)
  | Some (E, R), DCatRows _ _ _ _ _ => compat (v_root K E) (v_root K R)
  | _, _ => True
  end.

Lemma repaired_lifts :
  (fl_eigh_none fl = false -> fl_eigvalsh_tuple fl = false -> forall i q h, query_ok i q h) /\
  (fl_lr_wraps fl = false -> forall B m1 m2 g j L M,
     compat (v_root K L) (v_root K M) -> transplant_ok (DAddLowRank B m1 m2 g) (j, Some (L, M))).
Proof.
  split.
  - intros E1 E2 i q h. destruct q; simpl; auto; intros Ht; congruence.
  - intros E B m1 m2 g j L M Hc. simpl. split; [exact Hc|]. intros Ht. congruence.
Qed.

Lemma deriv_finish_step st d x h A oj :
  Inv h -> get (fst x) h = Some oj -> o_mat K oj = deriv_mat K d A ->
  roots_ok A x -> transplant_ok d x ->
  Inv (snd (deriv_finish K fl st d x h)) /\ ext h (snd (deriv_finish K fl st d x h)).
Proof.
  intros I Gj Emj Rk Tk. destruct x as [j [[L Mi]|]]; simpl in *.
  2:{ destruct d; simpl; auto using ext_refl. }
  destruct Rk as (HL & HM).
  assert (FL := ko_root_factor KO _ _ HL). assert (FM := ko_rootinv_factor KO _ _ HM).
  destruct d; simpl; auto using ext_refl.
  - (* add_low_rank *)
    destruct Tk as (Hc & Htri).
    assert (Hw : fl_lr_wraps fl && v_is_tri K (v_root K L) = false)
      by (destruct (fl_lr_wraps fl); simpl; auto).
    rewrite Hw.
    destruct (ko_lr_update KO A (v_root K L) (v_root K Mi) B FL FM Hc) as (Hnr & Hni).
    destruct (k_lr_update K (v_root K L) (v_root K Mi) B false) as [nr ni]. simpl in Hnr, Hni.
    assert (S : sound h (add_to_cache_m K j "root_decomposition" nr [] [] ;;;
                        add_to_cache_m K j "root_inv_decomposition" ni [] [] ;;; ret j) (fun _ => True)).
    { sstep; [apply (sound_add_to_cache h j oj _ _ _ _ Gj); apply (entry1_intro _ _ _ _ (aspects_root [] []));
              rewrite Emj; exact Hnr|].
      intros _ _. sstep; [apply (sound_add_to_cache h j oj _ _ _ _ Gj); apply (entry1_intro _ _ _ _ (aspects_rootinv [] []));
              rewrite Emj; exact Hni|].
      intros _ _. sstep. exact Logic.I. }
    destruct (S h (ext_refl h) I) as (I' & E' & _). auto.
  - (* cat_rows *)
    set (stri := negb (k =? 1) && ((k <=? st_max_chol st) || negb (st_fc_root st))).
    assert (S : sound h (u <- lift (k_cat_update K (v_root K L) (v_root K Mi) B D stri generate_inv_roots) ;;
                        (let '(nr, ni) := u in
                         match ni with
                         | Some x => add_to_cache_m K j "root_inv_decomposition" x [] [] ;;; ret tt
                         | None => ret tt
                         end ;;; add_to_cache_m K j "root_decomposition" nr [] [] ;;; ret j)) (fun _ => True)).
    { sstep; [apply sound_lift with (Q := fun u => k_cat_update K (v_root K L) (v_root K Mi) B D stri generate_inv_roots = Ok u); auto|].
      intros [nr ni] Hu. destruct (ko_cat_update KO A _ _ B D _ _ nr ni FL FM Tk Hu) as (Hnr & Hni).
      sstep.
      - instantiate (1 := fun _ => True). destruct ni as [x|]; [|sstep; exact Logic.I].
        sstep; [apply (sound_add_to_cache h j oj _ _ _ _ Gj); apply (entry1_intro _ _ _ _ (aspects_rootinv [] []));
                rewrite Emj; apply Hni; reflexivity|]. intros _ _. sstep. exact Logic.I.
      - intros _ _. sstep; [apply (sound_add_to_cache h j oj _ _ _ _ Gj); apply (entry1_intro _ _ _ _ (aspects_root [] []));
                rewrite Emj; exact Hnr|]. intros _ _. sstep. exact Logic.I. }
    destruct (S h (ext_refl h) I) as (I' & E' & _). auto.
Qed.

(* ------------------------------------------------------------------ events, histories *)
Notation state := (state K).
Notation event := (event K).

Definition news_of (h : heap) (i : nat) (d : deriv) (kids : list (newobj K)) (res_ : newobj K) : Prop :=
  forall o, get i h = Some o ->
  allocs_wf h (map (fun x => mk_obj K x (no_mat K x)) kids ++ [mk_obj K res_ (deriv_mat K d (o_mat K o))]).

(* the explicit side conditions of an event in state s:
   - eigh / eigvalsh are not called while a ("symeig", eigenvectors=True) entry sits in the cache (known finding);
   - the objects a derivation creates are honestly described;
   - add_low_rank / cat_rows: the root and the inverse root they fetch are COMPATIBLE (L M^T = I), and
     add_low_rank's root is not a TriangularLinearOperator (known finding: the update is then mislabelled) *)
Definition event_ok (s : state) (e : event) : Prop :=
  let (st, h) := s in
  match e with
  | EQuery i q => (exists o, get i h = Some o) /\ query_ok i q h
  | EDerive i d kids res_ =>
      (exists o, get i h = Some o) /\ news_of h i d kids res_ /\
      res_ok (fst (deriv_roots K fl st i d kids res_ h)) (transplant_ok d)
  | ESeedSymeig i | EClear i => exists o, get i h = Some o
  | ESet _ => True
  end.

Definition answer_ok (h : heap) (e : event) (a : answer K) : Prop :=
  match e, a with
  | EQuery i q, AVal (Ok v) => forall o, get i h = Some o -> valid (aspect_of_query q) (o_mat K o) v
  | _, _ => True
  end.

Theorem step_sound st h (e : event) :
  Inv h -> event_ok (st, h) e ->
  Inv (snd (snd (step K fl (st, h) e))) /\ ext h (snd (snd (step K fl (st, h) e))) /\ answer_ok h e (fst (step K fl (st, h) e)).
Proof.
  intros I Ok_. destruct e as [i q|i d kids res_|st'|i|i]; unfold event_ok in Ok_; unfold step.
  - (* query *)
    destruct Ok_ as ((o & G) & Qk).
    destruct (run_query_sound st i q h o I G Qk) as (I' & E' & R').
    destruct (run_query K fl st i q h) as [r h']. cbn [fst snd] in *. split; [exact I'|]. split; [exact E'|].
    unfold answer_ok. destruct r; [|exact Logic.I]. intros o2 G2. rewrite G in G2. inversion G2; subst. exact R'.
  - (* derivation *)
    destruct Ok_ as ((o & G) & Wn & Tk). unfold run_deriv.
    destruct (deriv_roots_step st i d kids res_ h o I G (Wn o G)) as (I1 & E1 & R1).
    unfold bind. destruct (deriv_roots K fl st i d kids res_ h) as [[x|e] h1]; cbn [fst snd] in *.
    + destruct R1 as (Rk & oj & Gj & Emj).
      destruct (deriv_finish_step st d x h1 (o_mat K o) oj I1 Gj Emj Rk Tk) as (I2 & E2).
      destruct (deriv_finish K fl st d x h1) as [r h2]. cbn [fst snd] in *.
      split; [exact I2|]. split; [eapply ext_trans; eauto | exact Logic.I].
    + split; [exact I1|]. split; [exact E1 | exact Logic.I].
  - cbn [fst snd]. split; [exact I|]. split; [apply ext_refl | exact Logic.I].
  - (* add_to_cache(op, "symeig", op._symeig(eigenvectors=True), eigenvectors=True) *)
    destruct Ok_ as (o & G).
    set (m := (e <- symeig K (S i) i true ;;
               py_add_to_cache (L := obj_lens K i) (NStr "symeig") e [] [("eigenvectors", PBool true)])).
    assert (Sd : sound h m (fun _ => True)).
    { unfold m. sstep; [apply (sound_symeig _ h i o true G)|]. intros e He.
      apply (sound_seed h i o "symeig" e _ _ G). intros a [<-|[]]. exact He. }
    destruct (Sd h (ext_refl h) I) as (I' & E' & _).
    destruct (m h) as [r h']. cbn [fst snd] in *. split; [exact I'|]. split; [exact E' | exact Logic.I].
  - (* clear_cache_hook *)
    destruct Ok_ as (o & G). rewrite clear_cache_hook_spec. cbn [fst snd].
    split; [|split; [apply ext_put_memo | exact Logic.I]].
    eapply Inv_put_memo; eauto. apply memo_ok_empty.
Qed.

(* a heap of freshly constructed objects (no caches) with honest profiles satisfies the invariant *)
Lemma Inv_fresh h :
  (forall i o, get i h = Some o -> o_memo K o = None /\ o_adhoc K o = None /\ obj_wf h o) -> Inv h.
Proof.
  intros F i o G. destruct (F i o G) as (Em & Ea & W). split; [|split; [|exact W]].
  - intros k v Hin. rewrite Em in Hin. destruct Hin.
  - intros r p Hp. rewrite Ea in Hp. discriminate.
Qed.

Fixpoint good_run (s : state) (es : list event) : Prop :=
  match es with
  | [] => True
  | e :: r => event_ok s e /\ good_run (snd (step K fl s e)) r
  end.

Fixpoint answers_ok (s : state) (es : list event) : Prop :=
  match es with
  | [] => True
  | e :: r => answer_ok (snd s) e (fst (step K fl s e)) /\ answers_ok (snd (step K fl s e)) r
  end.

Lemma run_snd s es : forall e, snd (run K fl s (e :: es)) = snd (run K fl (snd (step K fl s e)) es).
Proof. intros e. simpl. destruct (step K fl s e) as [a s1]. simpl. destruct (run K fl s1 es). reflexivity. Qed.

Theorem history_invariant_gen : forall es s, Inv (snd s) -> good_run s es ->
  Inv (snd (snd (run K fl s es))) /\ ext (snd s) (snd (snd (run K fl s es))) /\ answers_ok s es.
Proof.
  induction es as [|e r IH]; intros s I G.
  - simpl. auto using ext_refl.
  - destruct G as (Ge & Gr). destruct s as [st h]. destruct (step_sound st h e I Ge) as (I1 & E1 & A1).
    destruct (IH (snd (step K fl (st, h) e)) I1 Gr) as (I2 & E2 & A2).
    rewrite run_snd. split; [exact I2|]. split; [eapply ext_trans; eauto|]. simpl. auto.
Qed.

(* ------------------------------------------------------------------ derived objects start with an empty cache *)
Lemma alloc_all_eq l : forall h, alloc_all K l h = (Ok tt, happ h l).
Proof.
  induction l as [|x r IH]; intros h; simpl.
  - rewrite happ_nil. reflexivity.
  - unfold bind, alloc. cbn [fst snd]. fold (happ h [x]). rewrite IH, happ_app. reflexivity.
Qed.

Definition no_handover (d : deriv) : Prop :=
  match d with DAddLowRank _ _ _ _ | DCatRows _ _ _ _ _ => False | _ => True end.

(* a derivation other than add_low_rank / cat_rows hands nothing over: the new operator is the freshly allocated object,
   without a cache (in the dict or outside it), whatever the caches of self hold *)
Lemma derived_starts_empty st i d kids res_ h o j h' :
  no_handover d -> get i h = Some o ->
  run_deriv K fl st i d kids res_ h = (Ok j, h') ->
  get j h' = Some (mk_obj K res_ (deriv_mat K d (o_mat K o))) /\
  o_memo K (mk_obj K res_ (deriv_mat K d (o_mat K o))) = None /\ o_adhoc K (mk_obj K res_ (deriv_mat K d (o_mat K o))) = None.
Proof.
  intros Nh G R. split; [|split; reflexivity].
  set (ks := map (fun x => mk_obj K x (no_mat K x)) kids) in *.
  set (rs := mk_obj K res_ (deriv_mat K d (o_mat K o))) in *.
  assert (E : deriv_roots K fl st i d kids res_ h =
              (Ok (List.length (h_objs K (happ h ks)), None), happ (happ h ks) [rs])).
  { unfold deriv_roots, with_obj. unfold get in G. rewrite G. fold ks. fold rs.
    unfold bind. rewrite alloc_all_eq. cbn [fst snd]. unfold alloc. cbn [fst snd].
    destruct d; try contradiction; reflexivity. }
  unfold run_deriv, bind in R. rewrite E in R.
  assert (F : deriv_finish K fl st d (List.length (h_objs K (happ h ks)), None) (happ (happ h ks) [rs])
              = (Ok (List.length (h_objs K (happ h ks))), happ (happ h ks) [rs]))
    by (destruct d; reflexivity).
  rewrite F in R. inversion R; subst. apply get_happ_last.
Qed.

End Proofs.
